(* C01: "a reference-bearing include entry is resolved against the parameters merged from the classes
   that precede it".  The include list of an entity is walked before the entity itself is merged:
   which classes the walk loads (and in which order), and what is accumulated when the entity's own
   turn comes, do not depend on the entity's own parameters or applications. *)
From RV Require Import Model.Node.

Theorem own_parameters_do_not_select_own_includes f fi cfg tbl self self' seen loading root :
  n_loc self = n_loc self' -> n_classes self = n_classes self' ->
  forall s1 seen1 r1, render_impl f fi cfg tbl self seen loading root = Ok (s1, seen1, r1) ->
    exists root', merge_into self root' = Ok (s1, r1) /\
      forall s2 seen2 r2, render_impl f fi cfg tbl self' seen loading root = Ok (s2, seen2, r2) ->
        seen2 = seen1 /\ merge_into self' root' = Ok (s2, r2).
Proof.
  intros Hl Hc s1 seen1 r1 H. destruct f as [|f']; [discriminate|]. cbn [render_impl] in *.
  rewrite <- Hl, <- Hc.
  destruct (include_loop fi cfg tbl (render_impl f' fi cfg tbl) (n_loc self) loading (n_classes self) seen root)
    as [[sn rt]| | |] eqn:E; cbn [bind] in *; try discriminate.
  exists rt. destruct (merge_into self rt) as [[a b]| | |] eqn:Em; cbn [bind] in H; try discriminate.
  injection H as <- <- <-. split; [reflexivity|].
  intros s2 seen2 r2 H2. destruct (merge_into self' rt) as [[a2 b2]| | |]; cbn [bind] in H2; try discriminate.
  injection H2 as <- <- <-. split; reflexivity.
Qed.

(** ... and if the walk of the include list fails, it fails the same way whatever the entity holds *)
Theorem own_parameters_do_not_rescue_own_includes f fi cfg tbl self self' seen loading root e :
  n_loc self = n_loc self' -> n_classes self = n_classes self' ->
  include_loop fi cfg tbl (render_impl f fi cfg tbl) (n_loc self) loading (n_classes self) seen root = Err e ->
  render_impl (S f) fi cfg tbl self seen loading root = Err e /\
  render_impl (S f) fi cfg tbl self' seen loading root = Err e.
Proof.
  intros Hl Hc H. cbn [render_impl]. rewrite <- Hl, <- Hc, H. split; reflexivity.
Qed.

(* C20: absolute directories.  An absolute nodes / classes directory is taken as it stands by every
   entry point: the option setter (config file, dict) stores it unchanged, the constructor stores
   its lexical normal form -- the inventory path plays no part. *)
From RV Require Import Model.Config.

Lemma path_push_abs base d : is_abs d = true -> path_push base d = d.
Proof. intros H. unfold path_push. now rewrite H. Qed.

Lemma with_file_name_abs p d : is_abs d = true -> with_file_name p d = d.
Proof. intros H. unfold with_file_name. destruct (last_is_normal p); exact (path_push_abs _ d H). Qed.

Theorem absolute_directories_are_kept d :
  is_abs d = true ->
  (forall c p, set_option c p "nodes_uri" (YStr d) = Ok (upd_nodes c d)) /\
  (forall c p, set_option c p "classes_uri" (YStr d) = Ok (upd_classes c d)) /\
  (forall i cl g c, config_new i (Some d) cl g = Ok c -> cf_nodes c = to_lexical_normal d true) /\
  (forall i n g c, config_new i n (Some d) g = Ok c -> cf_classes c = to_lexical_normal d true).
Proof.
  intros H. repeat split.
  - intros c p. unfold set_option. cbn [String.eqb Ascii.eqb Bool.eqb value_text]. now rewrite (with_file_name_abs p d H).
  - intros c p. unfold set_option. cbn [String.eqb Ascii.eqb Bool.eqb value_text andb]. now rewrite (with_file_name_abs p d H).
  - intros i cl g c Hc. unfold config_new in Hc. cbn [opt_default] in Hc. rewrite (path_push_abs _ d H) in Hc.
    destruct i, cl; try discriminate;
      match type of Hc with (if ?b then _ else _) = _ => destruct b; [discriminate|] end; injection Hc as <-; reflexivity.
  - intros i n g c Hc. unfold config_new in Hc. cbn [opt_default] in Hc. rewrite (path_push_abs _ d H) in Hc.
    destruct i, n; try discriminate;
      match type of Hc with (if ?b then _ else _) = _ => destruct b; [discriminate|] end; injection Hc as <-; reflexivity.
Qed.

(* C17 with C01: the application list (and the class list) of a rendered node is the replay, in
   the order of the walk's record (each class once, post-order), of the lists of the recorded
   classes, followed by the node's own list. *)
From RV Require Import Model.Node Model.Lists Proofs.ListsFacts Proofs.NodeFacts Proofs.WalkFold.

Lemma merge_seq_apps : forall ns root root',
  merge_seq root ns = Ok root' ->
  n_apps root' = fold_left r_merge (map n_apps ns) (n_apps root) /\
  n_classes root' = fold_left u_merge (map n_classes ns) (n_classes root).
Proof.
  induction ns as [|n ns IH]; intros root root' H; cbn [merge_seq map fold_left] in *.
  - injection H as <-. split; reflexivity.
  - unfold merge_into in H.
    destruct (mapping_merge (n_params root) (n_params n)) as [params| | |]; cbn [bind] in H; try discriminate.
    destruct (IH _ _ H) as [A B]. cbn [n_apps n_classes] in A, B. split; assumption.
Qed.

Lemma fold_left_app_one {A B} (f : A -> B -> A) l x a : fold_left f (l ++ [x]) a = f (fold_left f l a) x.
Proof. rewrite fold_left_app. reflexivity. Qed.

Lemma r_merge_empty l : r_merge l r_empty = l.
Proof. reflexivity. Qed.

Section Apps.
  Variables (fi : nat) (cfg : ncfg) (tbl : list cls_entry).

  (** [name] is a class whose document lists the applications [l] *)
  Definition class_apps (name : string) (l : list string) : Prop :=
    exists loc cn, read_class cfg tbl loc name = Ok (Some cn) /\ n_apps cn = r_from l.

  Lemma node_of_yaml_apps loc doc n : node_of_yaml loc doc = Ok n -> exists l, n_apps n = r_from l.
  Proof.
    unfold node_of_yaml. destruct doc as [| | | | | fields |]; try discriminate.
    destruct (y_string_list "applications" (y_field "applications" fields)) as [apps| | |]; cbn [bind]; try discriminate.
    destruct (y_string_list "classes" (y_field "classes" fields)); cbn [bind]; try discriminate.
    destruct (y_field "parameters" fields) as [[| | | | | m |]|]; cbn [bind]; try discriminate.
    - destruct (try_mapping_of_yaml (YMap m)); cbn [bind]; try discriminate. intros H; injection H as <-. exists apps. reflexivity.
    - destruct (try_mapping_of_yaml (YMap [])); cbn [bind]; try discriminate. intros H; injection H as <-. exists apps. reflexivity.
  Qed.

  Lemma is_class_apps name cn : is_class cfg tbl name cn -> exists l, n_apps cn = r_from l /\ class_apps name l.
  Proof.
    intros [loc H]. pose proof H as H0. unfold read_class in H.
    destruct (find_class (abs_class_name loc name) tbl) as [ce|]; [|destruct (c_ignore cfg && mem (abs_class_name loc name) (c_matches cfg)); discriminate].
    destruct (node_of_yaml (ce_loc ce) (ce_doc ce)) as [n| | |] eqn:En; cbn [map_err bind] in H; try discriminate. injection H as <-.
    destruct (node_of_yaml_apps _ _ _ En) as [l Hl]. exists l. split; [exact Hl|]. exists loc, n. split; assumption.
  Qed.

  (** the applications of a rendered node: the recorded classes' lists replayed in record order,
      then the node's own list *)
  Theorem node_apps_accumulate_in_walk_order f n meta r :
    node_render f fi cfg tbl n meta = Ok r ->
    exists seen lists,
      NoDup seen /\ Forall2 class_apps seen lists /\
      n_apps r = r_merge (fold_left (fun acc l => r_merge acc (r_from l)) lists r_empty) (n_apps n).
  Proof.
    intros H. unfold node_render in H.
    destruct (as_reclass cfg meta) as [rc| | |]; cbn [bind] in H; try discriminate.
    destruct (m_insert [] (VStr "_reclass_") (VMap rc)) as [p0| | |]; cbn [bind] in H; try discriminate.
    set (base := {| n_apps := r_empty; n_classes := n_classes n; n_params := p0; n_loc := [] |}) in *.
    destruct (render_impl f fi cfg tbl base [] [] empty_node) as [[[base1 seen1] root1]| | |] eqn:E1; cbn [bind] in H; try discriminate.
    destruct (merge_into n base1) as [[n1 b1]| | |] eqn:Em; cbn [bind] in H; try discriminate.
    unfold render_params in H. destruct (render_with_self fi (VMap (n_params n1))) as [v| | |]; cbn [bind] in H; try discriminate.
    destruct v as [| | | | | mm | |]; try discriminate. injection H as <-. cbn [n_apps].
    destruct (walk_is_ordered_merge fi cfg tbl f base base1 seen1 root1 E1) as (Hnd & nodes & Hf & Hm).
    assert (Hl : exists lists, Forall2 class_apps seen1 lists /\ map n_apps nodes = map r_from lists).
    { clear - Hf. induction Hf as [|name cn seen nodes Hc _ (lists & H1 & H2)]; [exists []; split; [constructor | reflexivity]|].
      destruct (is_class_apps name cn Hc) as (l & Hl & Hcl). exists (l :: lists). split; [constructor; assumption|].
      cbn [map]. now rewrite Hl, H2. }
    destruct Hl as (lists & Hcl & Hmap).
    exists seen1, lists. split; [exact Hnd | split; [exact Hcl|]].
    assert (Hb1 : n_apps base1 = n_apps root1).
    { clear - E1. destruct f as [|f]; [discriminate|]. cbn [render_impl] in E1.
      destruct (include_loop fi cfg tbl (render_impl f fi cfg tbl) (n_loc base) [] (n_classes base) [] empty_node) as [[s r]| | |]; cbn [bind] in E1; try discriminate.
      unfold merge_into in E1. destruct (mapping_merge (n_params r) (n_params base)); cbn [bind] in E1; try discriminate.
      injection E1 as <- _ <-. reflexivity. }
    destruct (merge_seq_apps _ _ _ Hm) as [Ha _]. rewrite map_app in Ha. cbn [map] in Ha. rewrite fold_left_app_one in Ha. cbn [n_apps base] in Ha.
    rewrite r_merge_empty in Ha. cbn [n_apps empty_node] in Ha.
    unfold merge_into in Em. destruct (mapping_merge (n_params base1) (n_params n)); cbn [bind] in Em; try discriminate.
    injection Em as <- _. cbn [n_apps]. rewrite Hb1, Ha, Hmap.
    f_equal. clear. generalize r_empty. induction lists as [|l lists IH]; intros a; cbn [map fold_left]; [reflexivity | apply IH].
  Qed.

  (** ... hence it satisfies the list invariant of C17 whenever the node's own list was loaded *)
  Corollary node_apps_invariant f n meta r l :
    n_apps n = r_from l -> node_render f fi cfg tbl n meta = Ok r -> RInv (n_apps r).
  Proof.
    intros Hn H. destruct (node_apps_accumulate_in_walk_order f n meta r H) as (seen & lists & _ & _ & E).
    rewrite E, Hn.
    change (r_merge (fold_left (fun acc l0 => r_merge acc (r_from l0)) lists r_empty) (r_from l))
      with (fold_left (fun acc l0 => r_merge acc (r_from l0)) [l] (fold_left (fun acc l0 => r_merge acc (r_from l0)) lists r_empty)).
    rewrite <- fold_left_app. apply r_merge_all_inv.
  Qed.
End Apps.

(* C14, the naming rule in general: for every directory path, every file stem and both YAML
   extensions the entity is named by the relative path with separators turned into dots and the
   extension dropped, X/init.yml naming X; nodes are named by their basename unless node names
   are composed (and never below a top-level directory starting with an underscore); files with
   another extension, without extension, or hidden `.yml` / `.yaml` files are no entities. *)
From RV Require Import Model.Names Proofs.NamesFacts.

Fixpoint nodot (s : string) : Prop :=
  match s with EmptyString => True | String c s' => Ascii.eqb c "." = false /\ nodot s' end.

Lemma str_length_app (a b : string) : String.length (a ++ b) = String.length a + String.length b.
Proof. induction a as [|c a IH]; cbn; [reflexivity | now rewrite IH]. Qed.

Lemma rindex_nodot e : nodot e -> forall i last, rindex_dot e i last = last.
Proof. induction e as [|c e IH]; intros H i last; [reflexivity|]. destruct H as [Hc He]. cbn [rindex_dot]. rewrite Hc. apply IH, He. Qed.

Lemma rindex_last_dot a e : nodot e -> forall i last, rindex_dot (a ++ "." ++ e) i last = Some (i + String.length a).
Proof.
  intros He. induction a as [|c a IH]; intros i last.
  - cbn [append rindex_dot Ascii.eqb Bool.eqb]. rewrite (rindex_nodot e He). cbn. f_equal. lia.
  - cbn [append rindex_dot String.length]. rewrite IH. f_equal. lia.
Qed.

Lemma take_str_app a b : take_str (String.length a) (a ++ b) = a.
Proof. induction a as [|c a IH]; cbn [String.length append take_str]; [now destruct b | now rewrite IH]. Qed.
Lemma drop_str_app a b : drop_str (String.length a) (a ++ b) = b.
Proof. induction a as [|c a IH]; cbn [String.length append drop_str]; [now destruct b | exact IH]. Qed.

(** a file name [stem.ext] with a non-empty stem splits at its last dot *)
Lemma split_ext_stem stem ext :
  stem <> ""%string -> nodot ext -> 1 <= String.length ext ->
  split_ext (stem ++ "." ++ ext) = (stem, Some ext).
Proof.
  intros Hs He Hl. unfold split_ext.
  assert (E : String.eqb (stem ++ "." ++ ext) ".." = false).
  { apply String.eqb_neq. intros E. apply (f_equal String.length) in E. rewrite !str_length_app in E. cbn in E.
    destruct stem; [congruence|]. cbn in E. lia. }
  rewrite E, (rindex_last_dot stem ext He 0 None). cbn [Nat.add].
  destruct (String.length stem) as [|n] eqn:En; [destruct stem; [congruence | discriminate]|].
  rewrite <- En. rewrite take_str_app.
  assert (El : S (String.length stem) = String.length (stem ++ ".")) by (rewrite str_length_app; cbn; lia).
  assert (Ea : (stem ++ "." ++ ext)%string = ((stem ++ ".") ++ ext)%string).
  { clear. induction stem as [|c s IH]; cbn [append]; [reflexivity | now rewrite <- IH]. }
  rewrite El, Ea. now rewrite drop_str_app.
Qed.

Definition yaml_extension (ext : string) : Prop := ext = "yml"%string \/ ext = "yaml"%string.

Lemma yaml_extension_facts ext : yaml_extension ext -> nodot ext /\ 1 <= String.length ext /\ is_yaml_ext (Some ext) = true.
Proof. intros [-> | ->]; cbn; repeat split; lia. Qed.

(** the path segments that name the entity: X/init names X *)
Definition named_path (dirs : list string) (stem : string) : list string :=
  if String.eqb stem "init" then dirs else dirs ++ [stem].
Definition location (dirs : list string) (stem : string) : list string :=
  if String.eqb stem "init" then removelast dirs else dirs.

Lemma entity_of_yaml kind compose dirs stem ext :
  stem <> ""%string -> yaml_extension ext ->
  entity_of kind compose (dirs ++ [(stem ++ "." ++ ext)%string]) =
    let cls := named_path dirs stem in
    let base := match kind with
                | KNode => starts_with_underscore (join "/" cls) || negb compose
                | KClass => false
                end in
    Some {| en_name := join "." (if base then [last_seg cls] else cls);
            en_path := dirs ++ [(stem ++ "." ++ ext)%string];
            en_loc := if base then [] else location dirs stem |}.
Proof.
  intros Hs He. destruct (yaml_extension_facts ext He) as (Hn & Hl & Hy).
  unfold entity_of. rewrite rev_app_distr. cbn [rev app]. rewrite (split_ext_stem stem ext Hs Hn Hl), Hy, rev_involutive.
  unfold named_path, location. destruct (String.eqb stem "init"); destruct kind; cbn zeta; try reflexivity;
    match goal with |- context [if ?b then _ else _] => destruct b end; reflexivity.
Qed.

(** Every .yml / .yaml file below the classes directory defines the class named by its relative
    path, separators turned into dots, extension dropped, X/init naming X; its includes resolve
    from its directory (from X's parent for X/init). *)
Theorem class_naming_rule compose dirs stem ext :
  stem <> ""%string -> yaml_extension ext ->
  entity_of KClass compose (dirs ++ [(stem ++ "." ++ ext)%string]) =
    Some {| en_name := join "." (named_path dirs stem);
            en_path := dirs ++ [(stem ++ "." ++ ext)%string];
            en_loc := location dirs stem |}.
Proof. intros Hs He. now rewrite (entity_of_yaml KClass compose dirs stem ext Hs He). Qed.

Lemma last_seg_app l x : last_seg (l ++ [x]) = x.
Proof. induction l as [|y l IH]; [reflexivity|]. cbn [app last_seg]. destruct (l ++ [x]) eqn:E; [destruct l; discriminate | exact IH]. Qed.

(** Without node-name composition a node is named by the basename of its file, wherever the file
    sits, and its relative includes resolve from the root. *)
Theorem node_named_by_basename dirs stem ext :
  stem <> ""%string -> stem <> "init"%string -> yaml_extension ext ->
  entity_of KNode false (dirs ++ [(stem ++ "." ++ ext)%string]) =
    Some {| en_name := stem; en_path := dirs ++ [(stem ++ "." ++ ext)%string]; en_loc := [] |}.
Proof.
  intros Hs Hi He. rewrite (entity_of_yaml KNode false dirs stem ext Hs He). cbn zeta.
  rewrite Bool.orb_true_r. unfold named_path. apply String.eqb_neq in Hi. rewrite Hi. now rewrite last_seg_app.
Qed.

Lemma underscore_join d ds : ds <> [] -> starts_with_underscore (join "/" (d :: ds)) = starts_with_underscore d.
Proof. destruct ds as [|x r]; [congruence|]. intros _. cbn [join]. destruct d as [|c d]; reflexivity. Qed.

(** With composition the nested path composes, like a class name ... *)
Theorem node_name_composes d dirs stem ext :
  stem <> ""%string -> stem <> "init"%string -> yaml_extension ext -> starts_with_underscore d = false ->
  entity_of KNode true ((d :: dirs) ++ [(stem ++ "." ++ ext)%string]) =
    Some {| en_name := join "." ((d :: dirs) ++ [stem]); en_path := (d :: dirs) ++ [(stem ++ "." ++ ext)%string]; en_loc := d :: dirs |}.
Proof.
  intros Hs Hi He Hu. rewrite (entity_of_yaml KNode true (d :: dirs) stem ext Hs He). cbn zeta.
  unfold named_path, location. apply String.eqb_neq in Hi. rewrite Hi. cbn [app]. rewrite underscore_join, Hu; [reflexivity|].
  destruct dirs; discriminate.
Qed.

(** ... except below a directory starting with an underscore, where the basename alone names it. *)
Theorem node_below_underscore_directory d dirs stem ext :
  stem <> ""%string -> stem <> "init"%string -> yaml_extension ext -> starts_with_underscore d = true ->
  entity_of KNode true ((d :: dirs) ++ [(stem ++ "." ++ ext)%string]) =
    Some {| en_name := stem; en_path := (d :: dirs) ++ [(stem ++ "." ++ ext)%string]; en_loc := [] |}.
Proof.
  intros Hs Hi He Hu. rewrite (entity_of_yaml KNode true (d :: dirs) stem ext Hs He). cbn zeta.
  unfold named_path. apply String.eqb_neq in Hi. rewrite Hi. cbn [app]. rewrite underscore_join, Hu; [|destruct dirs; discriminate].
  cbn [orb]. change (d :: dirs ++ [stem]) with ((d :: dirs) ++ [stem]). now rewrite last_seg_app.
Qed.

(** Other files are ignored: another extension, no extension, or nothing before the extension. *)
Lemma split_ext_nodot name : nodot name -> split_ext name = (name, None).
Proof.
  intros H. unfold split_ext. rewrite (rindex_nodot name H).
  destruct (String.eqb name ".."); reflexivity.
Qed.

Theorem other_files_are_ignored kind compose dirs :
  (forall stem ext, stem <> ""%string -> nodot ext -> 1 <= String.length ext -> ~ yaml_extension ext ->
     entity_of kind compose (dirs ++ [(stem ++ "." ++ ext)%string]) = None) /\
  (forall name, nodot name -> entity_of kind compose (dirs ++ [name]) = None) /\
  (forall ext, nodot ext -> entity_of kind compose (dirs ++ [("." ++ ext)%string]) = None).
Proof.
  repeat split.
  - intros stem ext Hs Hn Hl Hy. unfold entity_of. rewrite rev_app_distr. cbn [rev app].
    rewrite (split_ext_stem stem ext Hs Hn Hl). cbn [is_yaml_ext].
    destruct (String.eqb_spec ext "yml") as [->|]; [exfalso; apply Hy; now left|].
    destruct (String.eqb_spec ext "yaml") as [->|]; [exfalso; apply Hy; now right|]. reflexivity.
  - intros name Hn. unfold entity_of. rewrite rev_app_distr. cbn [rev app]. now rewrite (split_ext_nodot name Hn).
  - intros ext Hn. unfold entity_of. rewrite rev_app_distr. cbn [rev app]. unfold split_ext.
    assert (E : rindex_dot ("." ++ ext)%string 0 None = Some 0).
    { cbn [append rindex_dot Ascii.eqb Bool.eqb]. now rewrite (rindex_nodot ext Hn). }
    rewrite E. destruct (String.eqb ("." ++ ext)%string ".."); reflexivity.
Qed.

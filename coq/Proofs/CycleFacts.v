(* C08: reference cycles are reported.  A set of parameters each of whose values is a
   whole-value reference to another parameter of the set (so following the references never
   leaves the set: cycles of any length, several cycles, chains leading into a cycle) never
   renders to a value: from some fuel on, rendering any of them is an error, and that error is
   the reference-loop error or the depth-limit error. *)
From RV Require Import Model.Interp Proofs.ValueFacts Proofs.MappingFacts Proofs.WfFacts Proofs.InterpFacts
     Proofs.Mono Proofs.NoPanic Proofs.Termination.

Definition ref_text (k : string) : string := ("${" ++ k ++ "}")%string.

Definition is_cycle_err (e : err) : Prop :=
  match e with ELoop _ | EDepth _ _ => True | _ => False end.

Section Cycle.
  Variable root : mapping.
  Hypothesis Hroot : wf (VMap root).
  Variable ks : list string.
  Variable succ : string -> string.
  (** every key of the set holds a whole-value reference to a key of the set *)
  Hypothesis Hcyc : forall k, In k ks ->
    In (succ k) ks /\
    m_get (VStr k) root = Some (VStr (ref_text (succ k))) /\
    split_on ":" k = [k] /\
    token_parse (ref_text k) = Parsed (TRef [TLit k]).

  Definition never_value {A} (r : res A) : Prop :=
    match r with Ok _ => False | Err e => is_cycle_err e | _ => True end.

  Lemma str_app_nil_r (s : string) : (s ++ "")%string = s.
  Proof. induction s as [|c s IH]; cbn; [reflexivity | now rewrite IH]. Qed.

  Lemma render_never_value : forall F k st, In k ks -> never_value (token_render F root (TRef [TLit k]) st).
  Proof.
    induction F as [F IH] using lt_wf_ind. intros k st Hk.
    destruct (Hcyc k Hk) as (Hsk & Hget & Hsplit & _). destruct (Hcyc (succ k) Hsk) as (_ & _ & _ & Hparse).
    destruct F as [|f1]; [exact I|]. cbn [token_render].
    assert (G : never_value (token_resolve f1 root (TRef [TLit k]) st)).
    { destruct f1 as [|f2]; [exact I|]. cbn [token_resolve].
      destruct (Nat.ltb RESOLVE_MAX_DEPTH (depth (with_depth st (S (depth st))))); [exact I|].
      destruct f2 as [|f3]; [exact I|]. cbn [token_slice slice_loop].
      destruct f3 as [|f4]; [exact I|].
      cbn [token_resolve bind interp_while_str is_string is_mapping is_sequence orb raw_string].
      rewrite str_app_nil_r.
      destruct (mem k (seen (with_depth st (S (depth st))))); [exact I|].
      rewrite Hsplit, Hget. cbn [walk_loop bind interp_while is_string is_vlist orb].
      cbn [interp]. rewrite Hparse.
      pose proof (IH f4 ltac:(lia) (succ k) (add_seen (with_depth st (S (depth st))) k) Hsk) as Hin.
      destruct (token_render f4 root (TRef [TLit (succ k)]) (add_seen (with_depth st (S (depth st))) k)) as [[v' s']| e | p |];
        cbn [bind never_value] in *; [contradiction | exact Hin | exact I | exact I]. }
    destruct (token_resolve f1 root (TRef [TLit k]) st) as [[v s1]| e | p |]; cbn [bind never_value] in *;
      [contradiction | exact G | exact I | exact I].
  Qed.

  (** every parameter of the set is reported: an error from some fuel on, never a value, never a
      panic, and the error is the loop error or the depth error *)
  Theorem cycle_is_reported k st :
    In k ks ->
    exists F0 e, is_cycle_err e /\ forall F, F0 <= F -> interp F root (VStr (ref_text k)) st = Err e.
  Proof.
    intros Hk. destruct (Hcyc k Hk) as (_ & _ & _ & Hparse).
    destruct (interp_total root Hroot (VStr (ref_text k)) st I) as (F0 & r & Hn & H).
    pose proof (H (S F0) ltac:(lia)) as H1. cbn [interp] in H1. rewrite Hparse in H1.
    pose proof (render_never_value F0 k st Hk) as Hnv. rewrite H1 in Hnv.
    destruct r as [[v s']| e | p |]; cbn [never_value] in Hnv; try contradiction.
    - exists F0, e. split; [exact Hnv | exact H].
    - exfalso. exact (interp_no_panic (S F0) root (VStr (ref_text k)) st p Hroot I (H (S F0) ltac:(lia))).
  Qed.
End Cycle.

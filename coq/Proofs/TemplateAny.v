(* C05 / C06 at the level of rendering, for arbitrary text: a string spelled by texts of any
   characters, escaped markers and reference trees (Proofs/ParserAny.v) renders to the
   concatenation, in order, of the texts as they stand, of the decoded escapes (the literal
   marker texts), and of the text forms of the values its references render to as whole values. *)
From RV Require Import Model.Interp Spec.TextOf Proofs.ValueFacts Proofs.WfFacts Proofs.InterpFacts Proofs.JsonFacts
     Proofs.Mono Proofs.Termination Proofs.ParserShape Proofs.ParserNested Proofs.ParserEscapes Proofs.ParserGen
     Proofs.ParserFull Proofs.ParserAny Proofs.TemplateRender.

Lemma sconcat_app a b : sconcat (a ++ b) = (sconcat a ++ sconcat b)%string.
Proof. induction a as [|x a IH]; [reflexivity|]. cbn [app sconcat]. now rewrite IH, str_app_assoc. Qed.

Section TA.
  Variable root : mapping.
  Hypothesis Hroot : wf (VMap root).

  (** what a token of the parsed string contributes *)
  Definition tpiece (f : nat) (st : rstate) (t : token) (text : string) : Prop :=
    match t with
    | TLit s => text = s
    | TRef parts => exists src v st', token_parse src = Parsed (TRef parts) /\
                                      interp f root (VStr src) st = Ok (v, st') /\ raw_string v = Ok text
    | TComb _ => False
    end.

  Lemma ref_piece_step_gen f st parts src v st' t :
    token_parse src = Parsed (TRef parts) ->
    interp f root (VStr src) st = Ok (v, st') -> raw_string v = Ok t ->
    exists F, forall f', F <= f' ->
      exists v1 st1 st3,
        token_resolve f' root (TRef parts) st = Ok (v1, st1) /\
        interp_while_str f' root v1 st1 = Ok (v1, st1) /\
        (if is_mapping v1 || is_sequence v1 then interp f' root v1 st1 else Ok (v1, st1)) = Ok (v, st3).
  Proof.
    intros Hp H Ht. destruct f as [|f1]; [discriminate|]. cbn [interp] in H. rewrite Hp in H.
    destruct f1 as [|f2]; [discriminate|]. cbn [token_render] in H.
    destruct (token_resolve f2 root (TRef parts) st) as [[v1 st1]| | |] eqn:Er; cbn [bind] in H; try discriminate.
    destruct (P_resolve_at root Hroot _ _ _ _ _ Er) as [_ [Hs Hv]].
    exists (S (S f2)). intros f' Hle. exists v1, st1.
    assert (R : token_resolve f' root (TRef parts) st = Ok (v1, st1)).
    { apply (fm_resolve root f2 f'); [lia | exact Er | discriminate]. }
    assert (W : interp_while_str f' root v1 st1 = Ok (v1, st1)).
    { destruct f' as [|f'']; [lia|]. cbn [interp_while_str]. now rewrite Hs. }
    destruct (is_mapping v1 || is_sequence v1) eqn:Ec.
    - exists st'. split; [exact R | split; [exact W|]]. apply (fm_interp root f2 f'); [lia | exact H | discriminate].
    - exists st1. split; [exact R | split; [exact W|]]. now rewrite (scalar_interp_id root _ _ _ _ _ Hs Hv Ec H).
  Qed.

  Lemma slice_tokens f st : forall ts texts,
    Forall2 (tpiece f st) ts texts ->
    exists F, forall f', F <= f' ->
      slice_loop (token_resolve f' root) (interp_while_str f' root) (interp f' root) st ts = Ok (sconcat texts).
  Proof.
    induction ts as [|t ts IH]; intros texts Hp; inversion Hp as [|? x ? texts' Hg Hrest]; subst.
    - exists 0. intros f' _. reflexivity.
    - destruct (IH texts' Hrest) as [F1 H1].
      destruct t as [s | parts | cs]; cbn [tpiece] in Hg; [| |destruct Hg].
      + subst x. exists (S F1). intros f' Hle. destruct f' as [|f'']; [lia|].
        assert (R : token_resolve (S f'') root (TLit s) st = Ok (VLit s, st)) by reflexivity.
        assert (W : interp_while_str (S f'') root (VLit s) st = Ok (VLit s, st)) by reflexivity.
        cbn [slice_loop]. rewrite R. cbn [bind]. rewrite W. cbn [bind is_mapping is_sequence orb raw_string].
        rewrite (H1 (S f'')) by lia. reflexivity.
      + destruct Hg as (src & v & st' & Hparse & Hi & Ht).
        destruct (ref_piece_step_gen f st parts src v st' x Hparse Hi Ht) as [F2 H2].
        exists (Nat.max F1 F2). intros f' Hle.
        destruct (H2 f' ltac:(lia)) as (v1 & st1 & st3 & R & W & Cc).
        cbn [slice_loop]. rewrite R. cbn [bind]. rewrite W. cbn [bind]. rewrite Cc. cbn [bind]. rewrite Ht. cbn [bind].
        rewrite (H1 f') by lia. reflexivity.
  Qed.

  (** joining adjacent literal tokens joins their texts *)
  Lemma coalesce_pieces f st : forall ts acc texts,
    Forall2 (tpiece f st) (rev acc ++ ts) texts ->
    exists texts', Forall2 (tpiece f st) (coalesce_rev acc ts) texts' /\ sconcat texts' = sconcat texts.
  Proof.
    induction ts as [|t ts IH]; intros acc texts Hp.
    - cbn [coalesce_rev]. rewrite app_nil_r in Hp. exists texts. split; [exact Hp | reflexivity].
    - cbn [coalesce_rev].
      assert (Hdef : forall texts0, Forall2 (tpiece f st) (rev (t :: acc) ++ ts) texts0 ->
                exists texts', Forall2 (tpiece f st) (coalesce_rev (t :: acc) ts) texts' /\ sconcat texts' = sconcat texts0)
        by (intros texts0 H0; exact (IH (t :: acc) texts0 H0)).
      assert (Hsame : Forall2 (tpiece f st) (rev (t :: acc) ++ ts) texts).
      { cbn [rev]. rewrite <- app_assoc. exact Hp. }
      destruct acc as [|a acc']; [exact (Hdef texts Hsame)|].
      destruct a as [sa | pa | ca]; try exact (Hdef texts Hsame).
      destruct t as [sb | pb | cb]; try exact (Hdef texts Hsame).
      (* two literals in a row *)
      cbn [rev] in Hp. rewrite <- app_assoc in Hp. cbn [app] in Hp.
      apply Forall2_app_inv_l in Hp as (tx1 & tx2 & H1 & H2 & ->).
      inversion H2 as [|? xa ? tx3 Ha H3]; subst. inversion H3 as [|? xb ? tx4 Hb H4]; subst.
      cbn [tpiece] in Ha, Hb. subst xa xb.
      destruct (IH (TLit (sa ++ sb) :: acc') (tx1 ++ (sa ++ sb)%string :: tx4)) as (texts' & Hf & Hs).
      { cbn [rev]. rewrite <- app_assoc. cbn [app]. apply Forall2_app; [exact H1|]. constructor; [reflexivity | exact H4]. }
      exists texts'. split; [exact Hf|]. rewrite Hs, !sconcat_app. cbn [sconcat]. now rewrite !str_app_assoc.
  Qed.

  (** what a unit of the string contributes: a text itself, an escape the marker it stands for, a
      reference the text form of what it renders to as a whole value *)
  Definition upiece (f : nat) (st : rstate) (u : hunit) (t : string) : Prop :=
    match u with
    | HText c s => t = String c s
    | HOpen => t = "${"%string
    | HInv => t = "$["%string
    | HBs => t = bs
    | HRef ts => exists v st', interp f root (VStr (gsrc (GRef ts))) st = Ok (v, st') /\ raw_string v = Ok t
    end.

  Lemma reference_source_parses d ts :
    d <= MAX_REF_NESTING -> gwf (S d) (GRef ts) -> token_parse (gsrc (GRef ts)) = Parsed (TRef (map gtok ts)).
  Proof.
    intros Hd Hw. pose proof (any_string_parses d (HRef ts) [] Hd) as H.
    unfold hstr in H. cbn [map srcs hpair fst hsrc htok coalesce coalesce_rev rev app fst snd] in H.
    rewrite app_empty_r in H. apply H.
    - split; [exact Hw | exact I].
    - rewrite gsrc_ref. exact (contains_open "" _).
  Qed.

  Lemma upieces_tpieces d f st : d <= MAX_REF_NESTING -> forall us texts rest,
    hunits_ok_t d us rest -> Forall2 (upiece f st) us texts -> Forall2 (tpiece f st) (map htok us) texts.
  Proof.
    intros Hd. induction us as [|u us IH]; intros texts rest Hok Hp; inversion Hp as [|? t ? texts' Hu Hrest]; subst; [constructor|].
    destruct Hok as [Hu_ok Hus]. cbn [map]. constructor; [|exact (IH texts' rest Hus Hrest)].
    destruct u as [c s | | | | ts]; cbn [upiece htok tpiece] in *; try exact Hu.
    destruct Hu as (v & st' & Hi & Ht). exists (gsrc (GRef ts)), v, st'.
    split; [exact (reference_source_parses d ts Hd Hu_ok) | split; assumption].
  Qed.

  (** The string of any units renders to the concatenation of what the units contribute. *)
  Theorem any_template_renders_as_text d f st u us texts :
    d <= MAX_REF_NESTING -> hunits_ok d (u :: us) -> has_marker (hstr (u :: us)) = true ->
    (exists t1 t2 r, coalesce (htok u, map htok us) = t1 :: t2 :: r) ->
    Forall2 (upiece f st) (u :: us) texts ->
    exists F, forall f', F <= f' ->
      interp f' root (VStr (hstr (u :: us))) st = Ok (VLit (sconcat texts), st).
  Proof.
    intros Hd Hok Hm (t1 & t2 & r & Ec) Hp.
    pose proof (upieces_tpieces d f st Hd (u :: us) texts "" Hok Hp) as Ht. cbn [map] in Ht.
    destruct (coalesce_pieces f st (map htok us) [htok u] texts Ht) as (texts' & Hf & Hs).
    change (coalesce_rev [htok u] (map htok us)) with (coalesce (htok u, map htok us)) in Hf.
    destruct (slice_tokens f st _ _ Hf) as [F HF].
    exists (S (S (S (S F)))). intros f' Hle.
    destruct f' as [|[|[|[|f4]]]]; try lia.
    cbn [interp]. rewrite (any_string_parses d u us Hd Hok Hm). rewrite Ec.
    cbn [token_render]. cbn [token_resolve]. cbn [token_slice].
    rewrite <- Ec. rewrite (HF f4) by lia. cbn [bind raw_string]. now rewrite Hs.
  Qed.

  (** A string all of whose markers are escaped (no reference left) renders to its decoded text. *)
  Theorem escaped_string_renders_as_its_text d st u us s :
    d <= MAX_REF_NESTING -> hunits_ok d (u :: us) -> has_marker (hstr (u :: us)) = true ->
    coalesce (htok u, map htok us) = [TLit s] ->
    forall f', 3 <= f' -> interp f' root (VStr (hstr (u :: us))) st = Ok (VLit s, st).
  Proof.
    intros Hd Hok Hm Ec f' Hle. destruct f' as [|[|[|f3]]]; try lia.
    cbn [interp]. rewrite (any_string_parses d u us Hd Hok Hm). rewrite Ec.
    cbn [token_render]. cbn [token_resolve]. cbn [bind raw_string]. reflexivity.
  Qed.

  (** the same with the specification of the text form *)
  Definition upiece_spec (f : nat) (st : rstate) (u : hunit) (t : string) : Prop :=
    match u with
    | HRef ts => exists v st', interp f root (VStr (gsrc (GRef ts))) st = Ok (v, st') /\ text_of v = Some t
    | _ => upiece f st u t
    end.

  Corollary any_template_renders_as_specified_text d f st u us texts :
    d <= MAX_REF_NESTING -> hunits_ok d (u :: us) -> has_marker (hstr (u :: us)) = true ->
    (exists t1 t2 r, coalesce (htok u, map htok us) = t1 :: t2 :: r) ->
    Forall2 (upiece_spec f st) (u :: us) texts ->
    exists F, forall f', F <= f' ->
      interp f' root (VStr (hstr (u :: us))) st = Ok (VLit (sconcat texts), st).
  Proof.
    intros Hd Hok Hm Hc Hp. apply (any_template_renders_as_text d f st u us texts Hd Hok Hm Hc).
    clear - Hp. induction Hp as [|g t segs texts Hg _ IH]; constructor; [|exact IH].
    destruct g as [c s | | | | ts]; cbn [upiece upiece_spec] in *; try exact Hg.
    destruct Hg as (v & st' & Hi & Ht). exists v, st'. split; [exact Hi | exact (raw_string_is_text_of v t Ht)].
  Qed.
End TA.

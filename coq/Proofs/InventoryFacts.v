(* The aggregation loop of Inventory::render (C13, C12): indexes are the sorted exact inverse of
   the per-node lists, for every order in which the worker results arrive. *)
From RV Require Import Model.Node Proofs.SortFacts.
From Coq Require Import Permutation Sorted.

Fixpoint ix_get (k : string) (ix : index) : list string :=
  match ix with
  | [] => []
  | (k', ns) :: ix' => if String.eqb k' k then ns else ix_get k ix'
  end.

Lemma ix_get_push_same k n ix : ix_get k (index_push k n ix) = ix_get k ix ++ [n].
Proof.
  induction ix as [|[k' ns] ix IH]; cbn [index_push ix_get].
  - now rewrite String.eqb_refl.
  - destruct (String.eqb k' k) eqn:E; cbn [ix_get]; rewrite E; [reflexivity | exact IH].
Qed.

Lemma ix_get_push_other k k2 n ix : k2 <> k -> ix_get k2 (index_push k n ix) = ix_get k2 ix.
Proof.
  intros Hne. induction ix as [|[k' ns] ix IH]; cbn [index_push ix_get].
  - assert (String.eqb k k2 = false) as -> by (apply String.eqb_neq; congruence). reflexivity.
  - destruct (String.eqb k' k) eqn:E; cbn [ix_get].
    + apply String.eqb_eq in E. subst k'.
      assert (String.eqb k k2 = false) as -> by (apply String.eqb_neq; congruence). reflexivity.
    + destruct (String.eqb k' k2); [reflexivity | exact IH].
Qed.

Definition hits (c : string) (n : string) (l : list string) : list string :=
  map (fun _ => n) (filter (String.eqb c) l).

Lemma ix_get_push_all c n l : forall ix,
  ix_get c (fold_left (fun ix c' => index_push c' n ix) l ix) = ix_get c ix ++ hits c n l.
Proof.
  unfold hits. induction l as [|x l IH]; intros ix; cbn [fold_left filter map].
  - now rewrite app_nil_r.
  - rewrite IH. destruct (String.eqb c x) eqn:E.
    + apply String.eqb_eq in E. subst x. rewrite ix_get_push_same. cbn [map]. now rewrite <- app_assoc.
    + rewrite ix_get_push_other; [reflexivity|]. apply String.eqb_neq in E. congruence.
Qed.

Lemma ix_get_sort c ix : ix_get c (index_sort ix) = sort_strings (ix_get c ix).
Proof.
  unfold index_sort. induction ix as [|[k ns] ix IH]; cbn [map ix_get]; [reflexivity|].
  destruct (String.eqb k c); [reflexivity | exact IH].
Qed.

(** all occurrences, in arrival order, of nodes whose list [proj info] contains [c] *)
Fixpoint occ (proj : nodeinfo -> list string) (c : string) (oks : list (string * nodeinfo)) : list string :=
  match oks with
  | [] => []
  | (n, i) :: oks' => hits c n (proj i) ++ occ proj c oks'
  end.

Lemma occ_app proj c a b : occ proj c (a ++ b) = occ proj c a ++ occ proj c b.
Proof. induction a as [|[n i] a IH]; cbn [occ app]; [reflexivity|]. now rewrite IH, app_assoc. Qed.

Definition run_oks (oks : list (string * nodeinfo)) (inv : inventory) : inventory :=
  fold_left (fun inv '(n, i) => inv_step inv n i) oks inv.

Lemma step_classes c inv n i :
  ix_get c (inv_classes (inv_step inv n i)) = sort_strings (ix_get c (inv_classes inv) ++ hits c n (ni_classes i)).
Proof. unfold inv_step. cbn [inv_classes]. now rewrite ix_get_sort, ix_get_push_all. Qed.

Lemma step_apps c inv n i :
  ix_get c (inv_apps (inv_step inv n i)) = sort_strings (ix_get c (inv_apps inv) ++ hits c n (ni_apps i)).
Proof. unfold inv_step. cbn [inv_apps]. now rewrite ix_get_sort, ix_get_push_all. Qed.

Lemma run_classes c oks : forall inv,
  ix_get c (inv_classes (run_oks oks inv)) = sort_strings (ix_get c (inv_classes inv) ++ occ ni_classes c oks).
Proof.
  unfold run_oks. induction oks as [|[n i] oks IH]; intros inv; cbn [fold_left occ].
  - rewrite app_nil_r. (* requires the start index to be sorted: stated for the empty start below *)
Abort.

Definition ix_sorted (ix : index) : Prop := forall c, sorted (ix_get c ix).

Lemma sort_sorted_id l : sorted l -> sort_strings l = l.
Proof. intros H. apply sorted_perm_eq; [apply sort_sorted | assumption | apply sort_perm]. Qed.

Lemma run_classes c oks : forall inv, ix_sorted (inv_classes inv) ->
  ix_get c (inv_classes (run_oks oks inv)) = sort_strings (ix_get c (inv_classes inv) ++ occ ni_classes c oks).
Proof.
  unfold run_oks. induction oks as [|[n i] oks IH]; intros inv Hs; cbn [fold_left occ].
  - rewrite app_nil_r. symmetry. apply sort_sorted_id, Hs.
  - rewrite IH.
    + rewrite step_classes. apply sort_perm_eq. rewrite sort_perm. now rewrite <- app_assoc.
    + intros c'. rewrite step_classes. apply sort_sorted.
Qed.

Lemma run_apps c oks : forall inv, ix_sorted (inv_apps inv) ->
  ix_get c (inv_apps (run_oks oks inv)) = sort_strings (ix_get c (inv_apps inv) ++ occ ni_apps c oks).
Proof.
  unfold run_oks. induction oks as [|[n i] oks IH]; intros inv Hs; cbn [fold_left occ].
  - rewrite app_nil_r. symmetry. apply sort_sorted_id, Hs.
  - rewrite IH.
    + rewrite step_apps. apply sort_perm_eq. rewrite sort_perm. now rewrite <- app_assoc.
    + intros c'. rewrite step_apps. apply sort_sorted.
Qed.

Lemma run_nodes oks : forall inv, inv_nodes (run_oks oks inv) = inv_nodes inv ++ oks.
Proof.
  unfold run_oks. induction oks as [|[n i] oks IH]; intros inv; cbn [fold_left]; [now rewrite app_nil_r|].
  rewrite IH. unfold inv_step. cbn [inv_nodes]. now rewrite <- app_assoc.
Qed.

Lemma empty_sorted : ix_sorted (inv_classes empty_inventory) /\ ix_sorted (inv_apps empty_inventory).
Proof. split; intros c; constructor. Qed.

(** the successful results of a result list *)
Fixpoint oks_of (rs : list (string * res nodeinfo)) : list (string * nodeinfo) :=
  match rs with
  | [] => []
  | (n, Ok i) :: rs' => (n, i) :: oks_of rs'
  | _ :: rs' => oks_of rs'
  end.

Definition all_ok (rs : list (string * res nodeinfo)) : Prop :=
  Forall (fun p => exists i, snd p = Ok i) rs.

Lemma inventory_of_ok rs : forall inv, all_ok rs -> inventory_of rs inv = Ok (run_oks (oks_of rs) inv).
Proof.
  unfold run_oks. induction rs as [|[n r] rs IH]; intros inv H; cbn [inventory_of oks_of fold_left]; [reflexivity|].
  inversion H as [|? ? [i Hi] Hr]; subst. cbn in Hi. subst r. cbn [fold_left]. apply IH, Hr.
Qed.

(** C13: the inventory fails iff some node fails, and the error names a failing node with its error *)
Lemma inventory_of_fails rs : forall inv,
  (forall n r, In (n, r) rs -> (exists i, r = Ok i) \/ (exists e, r = Err e)) ->
  ~ all_ok rs ->
  exists n e, In (n, Err e) rs /\ inventory_of rs inv = Err (ENodeFailed n e).
Proof.
  induction rs as [|[n r] rs IH]; intros inv Hk Hn.
  - exfalso. apply Hn. constructor.
  - destruct (Hk n r (or_introl eq_refl)) as [[i ->] | [e ->]].
    + cbn [inventory_of]. destruct (IH (inv_step inv n i)) as (n' & e & Hin & Hr).
      * intros n0 r0 H0. apply (Hk n0 r0). now right.
      * intros Hall. apply Hn. constructor; [eexists; reflexivity | exact Hall].
      * exists n', e. split; [now right | exact Hr].
    + exists n, e. split; [now left | reflexivity].
Qed.

Lemma occ_In proj c n oks :
  In n (occ proj c oks) <-> exists i, In (n, i) oks /\ In c (proj i).
Proof.
  induction oks as [|[n' i'] oks IH]; cbn [occ In].
  - split; [tauto | intros (i & [] & _)].
  - rewrite in_app_iff, IH. unfold hits. rewrite in_map_iff. split.
    + intros [(x & <- & Hx) | (i & Hi & Hc)].
      * apply filter_In in Hx as [Hx Hc]. apply String.eqb_eq in Hc. subst x. exists i'. split; [now left | assumption].
      * exists i. split; [now right | assumption].
    + intros (i & [H | H] & Hc).
      * injection H as -> ->. left. exists c. split; [reflexivity|]. apply filter_In. split; [assumption | apply String.eqb_refl].
      * right. exists i. tauto.
Qed.

Lemma occ_perm proj c a b : Permutation a b -> Permutation (occ proj c a) (occ proj c b).
Proof.
  induction 1 as [| [n i] a b P IH | [n i] [n' i'] a | a b d P1 IH1 P2 IH2]; cbn [occ].
  - reflexivity.
  - now apply Permutation_app_head.
  - rewrite !app_assoc. apply Permutation_app_tail, Permutation_app_comm.
  - etransitivity; eauto.
Qed.

(** * The theorems *)
Theorem inventory_index_exact rs inv :
  all_ok rs -> inventory_of rs empty_inventory = Ok inv ->
  (forall c, ix_get c (inv_classes inv) = sort_strings (occ ni_classes c (oks_of rs))) /\
  (forall a, ix_get a (inv_apps inv) = sort_strings (occ ni_apps a (oks_of rs))) /\
  inv_nodes inv = oks_of rs.
Proof.
  intros Hall H. rewrite inventory_of_ok in H by assumption. injection H as <-.
  destruct empty_sorted as [Hc Ha]. repeat split.
  - intros c. now rewrite run_classes.
  - intros a. now rewrite run_apps.
  - now rewrite run_nodes.
Qed.

Theorem inventory_index_inverse rs inv :
  all_ok rs -> inventory_of rs empty_inventory = Ok inv ->
  forall c n,
    (In n (ix_get c (inv_classes inv)) <-> exists i, In (n, i) (oks_of rs) /\ In c (ni_classes i)) /\
    (In n (ix_get c (inv_apps inv)) <-> exists i, In (n, i) (oks_of rs) /\ In c (ni_apps i)) /\
    sorted (ix_get c (inv_classes inv)) /\ sorted (ix_get c (inv_apps inv)).
Proof.
  intros Hall H c n. destruct (inventory_index_exact rs inv Hall H) as (Hc & Ha & _).
  rewrite Hc, Ha, !sort_In, !occ_In. repeat split; auto; apply sort_sorted.
Qed.

(** no empty or stale entries: every key of an index has at least one node *)
Lemma push_nonempty k n ix : Forall (fun p => snd p <> []) ix -> Forall (fun p => snd p <> []) (index_push k n ix).
Proof.
  induction 1 as [|[k' ns] ix Hx Hall IH]; cbn [index_push].
  - constructor; [cbn; discriminate | constructor].
  - destruct (String.eqb k' k); constructor; cbn in *; try assumption.
    destruct ns; cbn; discriminate.
Qed.

Lemma sort_nonempty ix : Forall (fun p => snd p <> []) ix -> Forall (fun p => snd p <> []) (index_sort ix).
Proof.
  unfold index_sort. induction 1 as [|[k ns] ix Hx Hall IH]; cbn [map]; constructor; [|assumption].
  cbn in *. intros E. apply Hx. apply (f_equal (@List.length string)) in E. rewrite sort_length in E.
  destruct ns; [reflexivity | discriminate].
Qed.

Lemma fold_push_nonempty n l : forall ix,
  Forall (fun p => snd p <> []) ix -> Forall (fun p => snd p <> []) (fold_left (fun ix c => index_push c n ix) l ix).
Proof. induction l as [|x l IH]; intros ix H; cbn [fold_left]; [assumption|]. apply IH, push_nonempty, H. Qed.

Theorem inventory_no_empty_entries rs inv :
  all_ok rs -> inventory_of rs empty_inventory = Ok inv ->
  Forall (fun p => snd p <> []) (inv_classes inv) /\ Forall (fun p => snd p <> []) (inv_apps inv).
Proof.
  intros Hall H. rewrite inventory_of_ok in H by assumption. injection H as <-.
  unfold run_oks.
  assert (G : forall oks inv0,
             Forall (fun p => snd p <> []) (inv_classes inv0) /\ Forall (fun p => snd p <> []) (inv_apps inv0) ->
             Forall (fun p => snd p <> []) (inv_classes (fold_left (fun inv '(n, i) => inv_step inv n i) oks inv0)) /\
             Forall (fun p => snd p <> []) (inv_apps (fold_left (fun inv '(n, i) => inv_step inv n i) oks inv0))).
  { induction oks as [|[n i] oks IH]; intros inv0 [Hc Ha]; cbn [fold_left]; [tauto|].
    apply IH. unfold inv_step. cbn [inv_classes inv_apps]. split; apply sort_nonempty, fold_push_nonempty; assumption. }
  apply G. split; constructor.
Qed.

(** C12: the result does not depend on the order in which the worker results arrive *)
Lemma oks_of_perm a b : Permutation a b -> Permutation (oks_of a) (oks_of b).
Proof.
  induction 1 as [| [n r] a b P IH | [n r] [n' r'] a | a b d P1 IH1 P2 IH2].
  - reflexivity.
  - cbn [oks_of]. destruct r; [now constructor | assumption | assumption | assumption].
  - cbn [oks_of]. destruct r, r'; try reflexivity. apply perm_swap.
  - etransitivity; eauto.
Qed.

Lemma all_ok_perm a b : Permutation a b -> all_ok a -> all_ok b.
Proof. unfold all_ok. intros P H. eapply Permutation_Forall; eauto. Qed.

Theorem inventory_order_independent rs rs' inv :
  Permutation rs rs' -> all_ok rs -> inventory_of rs empty_inventory = Ok inv ->
  exists inv', inventory_of rs' empty_inventory = Ok inv' /\
    (forall c, ix_get c (inv_classes inv') = ix_get c (inv_classes inv)) /\
    (forall a, ix_get a (inv_apps inv') = ix_get a (inv_apps inv)) /\
    Permutation (inv_nodes inv') (inv_nodes inv).
Proof.
  intros P Hall H.
  assert (Hall' : all_ok rs') by (eapply all_ok_perm; eauto).
  eexists. split; [apply inventory_of_ok, Hall'|].
  destruct (inventory_index_exact rs inv Hall H) as (Hc & Ha & Hn).
  destruct (inventory_index_exact rs' _ Hall' (inventory_of_ok rs' _ Hall')) as (Hc' & Ha' & Hn').
  repeat split.
  - intros c. rewrite Hc, Hc'. apply sort_perm_eq, occ_perm, oks_of_perm, Permutation_sym, P.
  - intros a. rewrite Ha, Ha'. apply sort_perm_eq, occ_perm, oks_of_perm, Permutation_sym, P.
  - rewrite Hn, Hn'. apply oks_of_perm, Permutation_sym, P.
Qed.

(** ... and a failing inventory fails for every arrival order *)
Theorem inventory_failure_order_independent rs rs' :
  Permutation rs rs' -> ~ all_ok rs -> ~ all_ok rs'.
Proof. intros P H H'. apply H. eapply all_ok_perm; [apply Permutation_sym|]; eauto. Qed.

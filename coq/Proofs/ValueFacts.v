(* Basic facts about values: induction principle for the nested inductive, boolean equality
   reflects Leibniz equality. *)
From RV Require Import Model.Value.

Section ValueInd.
  Variable P : value -> Prop.
  Hypothesis HNull : P VNull.
  Hypothesis HBool : forall b, P (VBool b).
  Hypothesis HStr : forall s, P (VStr s).
  Hypothesis HLit : forall s, P (VLit s).
  Hypothesis HNum : forall n, P (VNum n).
  Hypothesis HMap : forall es, Forall (fun e => P (e_key e) /\ P (e_val e)) es -> P (VMap es).
  Hypothesis HSeq : forall vs, Forall P vs -> P (VSeq vs).
  Hypothesis HList : forall vs, Forall P vs -> P (VList vs).

  Fixpoint value_ind' (v : value) : P v :=
    match v with
    | VNull => HNull
    | VBool b => HBool b
    | VStr s => HStr s
    | VLit s => HLit s
    | VNum n => HNum n
    | VMap es =>
        HMap es ((fix go (es : list entry) : Forall (fun e => P (e_key e) /\ P (e_val e)) es :=
                    match es with
                    | [] => Forall_nil _
                    | e :: es' =>
                        Forall_cons e
                          (match e as e0 return P (e_key e0) /\ P (e_val e0) with
                           | (k, v, c, o) => conj (value_ind' k) (value_ind' v)
                           end) (go es')
                    end) es)
    | VSeq vs =>
        HSeq vs ((fix go (vs : list value) : Forall P vs :=
                    match vs with [] => Forall_nil _ | x :: xs => Forall_cons _ (value_ind' x) (go xs) end) vs)
    | VList vs =>
        HList vs ((fix go (vs : list value) : Forall P vs :=
                     match vs with [] => Forall_nil _ | x :: xs => Forall_cons _ (value_ind' x) (go xs) end) vs)
    end.
End ValueInd.

Lemma fkind_eqb_eq a b : fkind_eqb a b = true <-> a = b.
Proof. destruct a, b; cbn; split; congruence. Qed.

Lemma ftoken_eqb_eq a b : ftoken_eqb a b = true <-> a = b.
Proof.
  destruct a as [k y j], b as [k' y' j']. unfold ftoken_eqb. cbn.
  rewrite !andb_true_iff, fkind_eqb_eq, !String.eqb_eq. split.
  - intros [[-> ->] ->]. reflexivity.
  - intros H. injection H as -> -> ->. auto.
Qed.

Lemma num_eqb_eq a b : num_eqb a b = true <-> a = b.
Proof.
  destruct a, b; cbn; try (split; congruence).
  - rewrite Z.eqb_eq. split; congruence.
  - rewrite ftoken_eqb_eq. split; congruence.
Qed.

Lemma bool_eqb_eq (a b : bool) : Bool.eqb a b = true <-> a = b.
Proof. destruct a, b; cbn; split; congruence. Qed.

Fixpoint values_eqb (xs ys : list value) : bool :=
  match xs, ys with
  | [], [] => true
  | x :: xs', y :: ys' => value_eqb x y && values_eqb xs' ys'
  | _, _ => false
  end.

Fixpoint entries_eqb (xs ys : list entry) : bool :=
  match xs, ys with
  | [], [] => true
  | (k, v, c, o) :: xs', (k', v', c', o') :: ys' =>
      value_eqb k k' && value_eqb v v' && Bool.eqb c c' && Bool.eqb o o' && entries_eqb xs' ys'
  | _, _ => false
  end.

Lemma value_eqb_map xs ys : value_eqb (VMap xs) (VMap ys) = entries_eqb xs ys.
Proof. reflexivity. Qed.

Lemma value_eqb_seq xs ys : value_eqb (VSeq xs) (VSeq ys) = values_eqb xs ys.
Proof. reflexivity. Qed.

Lemma value_eqb_list xs ys : value_eqb (VList xs) (VList ys) = values_eqb xs ys.
Proof. reflexivity. Qed.

Lemma value_eqb_eq : forall a b, value_eqb a b = true <-> a = b.
Proof.
  induction a as [| b0 | s | s | n | es IH | vs IH | vs IH] using value_ind'; intros b.
  - destruct b; cbn; split; congruence.
  - destruct b; cbn; try (split; congruence). rewrite bool_eqb_eq. split; congruence.
  - destruct b; cbn; try (split; congruence). rewrite String.eqb_eq. split; congruence.
  - destruct b; cbn; try (split; congruence). rewrite String.eqb_eq. split; congruence.
  - destruct b; cbn; try (split; congruence). rewrite num_eqb_eq. split; congruence.
  - destruct b as [| | | | | es' | |]; try (cbn; split; congruence).
    rewrite value_eqb_map.
    assert (G : entries_eqb es es' = true <-> es = es').
    { revert es'. induction IH as [|e es He IHes IHr]; intros [|e' es']; cbn; try (split; intros; (reflexivity || congruence)).
      - destruct e as [[[k v] c] o]. split; congruence.
      - destruct e as [[[k v] c] o], e' as [[[k' v'] c'] o']. destruct He as [Hk Hv].
      cbn in Hk, Hv. rewrite !andb_true_iff, Hk, Hv, !bool_eqb_eq, IHr. split.
      + intros [[[[-> ->] ->] ->] ->]. reflexivity.
      + intros H. injection H as -> -> -> -> ->. auto. }
    rewrite G. split; congruence.
  - destruct b as [| | | | | | vs' |]; try (cbn; split; congruence).
    rewrite value_eqb_seq.
    assert (G : values_eqb vs vs' = true <-> vs = vs').
    { revert vs'. induction IH as [|x vs Hx IHvs IHr]; intros [|y vs']; cbn; try (split; intros; (reflexivity || congruence)).
      rewrite andb_true_iff, Hx, IHr. split; [intros [-> ->]; reflexivity | intros H; injection H as -> ->; auto]. }
    rewrite G. split; congruence.
  - destruct b as [| | | | | | | vs']; try (cbn; split; congruence).
    rewrite value_eqb_list.
    assert (G : values_eqb vs vs' = true <-> vs = vs').
    { revert vs'. induction IH as [|x vs Hx IHvs IHr]; intros [|y vs']; cbn; try (split; intros; (reflexivity || congruence)).
      rewrite andb_true_iff, Hx, IHr. split; [intros [-> ->]; reflexivity | intros H; injection H as -> ->; auto]. }
    rewrite G. split; congruence.
Qed.

Lemma value_eqb_refl a : value_eqb a a = true.
Proof. now apply value_eqb_eq. Qed.

Lemma value_eqb_neq a b : value_eqb a b = false <-> a <> b.
Proof. rewrite <- value_eqb_eq. destruct (value_eqb a b); split; congruence. Qed.

Lemma value_eqb_sym a b : value_eqb a b = value_eqb b a.
Proof.
  destruct (value_eqb a b) eqn:E.
  - apply value_eqb_eq in E. subst. now rewrite value_eqb_refl.
  - symmetry. apply value_eqb_neq. apply value_eqb_neq in E. congruence.
Qed.

(* Rendering rendered data again leaves it unchanged (C07), for any root and with any state. *)
From RV Require Import Model.Interp Proofs.ValueFacts Proofs.MappingFacts Proofs.WfFacts Proofs.InterpFacts.

(** nesting depth of containers *)
Fixpoint vdepth (v : value) : nat :=
  match v with
  | VMap es =>
      S ((fix go (es : list entry) : nat :=
            match es with [] => 0 | (_, x, _, _) :: es' => Nat.max (vdepth x) (go es') end) es)
  | VSeq l | VList l =>
      S ((fix go (l : list value) : nat := match l with [] => 0 | x :: l' => Nat.max (vdepth x) (go l') end) l)
  | _ => 0
  end.

Definition simple_key (k : value) : Prop :=
  match k with VMap _ | VSeq _ | VList _ => False | _ => True end.

(** every mapping key (recursively) is a scalar or a string: what YAML scalars convert to *)
Fixpoint simple_keys (v : value) : Prop :=
  match v with
  | VMap es =>
      (fix go (es : list entry) : Prop :=
         match es with [] => True | (k, x, _, _) :: es' => (simple_key k /\ simple_keys x) /\ go es' end) es
  | VSeq l | VList l =>
      (fix go (l : list value) : Prop := match l with [] => True | x :: l' => simple_keys x /\ go l' end) l
  | _ => True
  end.

Lemma push_simple_key st k : simple_key k -> exists st1, push_mapping_key st k = Ok st1.
Proof.
  unfold push_mapping_key. destruct k as [| [|] | s | s | n | es | l | l]; cbn; intros H; try (eexists; reflexivity); destruct H.
Qed.

Lemma depth_map_entry k x c o es : In (k, x, c, o) es -> vdepth x < vdepth (VMap es).
Proof.
  cbn [vdepth]. induction es as [|[[[k' x'] c'] o'] es IH]; [intros []|].
  intros [H|H]; [injection H as -> -> -> ->; lia|]. specialize (IH H). cbn [vdepth] in IH. lia.
Qed.

Lemma depth_seq_elem x l : In x l -> vdepth x < vdepth (VSeq l).
Proof.
  cbn [vdepth]. induction l as [|y l IH]; [intros []|].
  intros [->|H]; [lia|]. specialize (IH H). cbn [vdepth] in IH. lia.
Qed.

Lemma seq_loop_id call st : forall s idx,
  (forall x st1, In x s -> call x st1 = Ok (x, st1)) -> seq_loop call st s idx = Ok s.
Proof.
  induction s as [|x s IH]; intros idx H; cbn [seq_loop]; [reflexivity|].
  rewrite (H x _ (or_introl eq_refl)). cbn [bind]. rewrite IH; [reflexivity|].
  intros y st1 Hy. apply H. now right.
Qed.

Lemma map_loop_id call st : forall es acc,
  (forall k x c o st1, In (k, x, c, o) es -> call x st1 = Ok (x, st1)) ->
  Forall (fun e => simple_key (e_key e) /\ closed (e_val e) /\ wf (e_val e)) es ->
  Forall unmarked (keys es) -> NoDup (keys acc ++ keys es) ->
  map_loop call st es acc = Ok (acc ++ es).
Proof.
  induction es as [|[[[k x] c] o] es IH]; intros acc Hcall Hes Hum Hnd; cbn [map_loop]; [now rewrite app_nil_r|].
  inversion Hes as [|? ? (Hsk & Hcx & Hwx) Hes']; subst. inversion Hum as [|? ? Hk Hks]; subst. cbn [e_key e_val fst snd] in *.
  destruct (push_simple_key st k Hsk) as [st1 ->]. cbn [bind].
  rewrite (Hcall k x c o st1 (or_introl eq_refl)). cbn [bind].
  rewrite (flattened_closed_id _ x Hcx Hwx). cbn [bind].
  assert (Ha : m_find (stripped k) acc = None).
  { destruct (unmarked_stripped k Hk) as [-> _]. apply m_find_none_keys.
    cbn [keys map e_key fst] in Hnd. apply NoDup_remove_2 in Hnd. intros Hin. apply Hnd, in_or_app. now left. }
  rewrite (insert_absent _ _ _ _ _ Ha). destruct (unmarked_stripped k Hk) as [-> ->]. cbn [bind is_pconst is_pover orb].
  rewrite IH.
  - now rewrite <- app_assoc.
  - intros k' x' c' o' st2 Hin. apply (Hcall k' x' c' o' st2). now right.
  - exact Hes'.
  - exact Hks.
  - unfold keys in *. rewrite map_app, <- app_assoc. exact Hnd.
Qed.

Lemma closed_simple_map es :
  closed (VMap es) -> wf (VMap es) -> simple_keys (VMap es) ->
  Forall (fun e => simple_key (e_key e) /\ closed (e_val e) /\ wf (e_val e) /\ simple_keys (e_val e)) es.
Proof.
  intros Hc Hw Hs. apply closed_map_iff in Hc. apply wf_map_iff in Hw as (_ & _ & Hv).
  assert (Hs' : Forall (fun e => simple_key (e_key e) /\ simple_keys (e_val e)) es).
  { cbn [simple_keys] in Hs. clear - Hs. induction es as [|[[[k x] c] o] es IH]; constructor; [cbn; apply Hs | apply IH, Hs]. }
  rewrite Forall_forall in *. intros e He. specialize (Hc e He). specialize (Hv e He). specialize (Hs' e He). tauto.
Qed.

(** interpolating closed data is the identity, given fuel beyond twice its nesting depth *)
Lemma interp_closed_id root : forall f v st,
  2 * vdepth v < f -> closed v -> wf v -> simple_keys v -> interp f root v st = Ok (v, st).
Proof.
  induction f as [f IHf] using lt_wf_ind. intros v st Hd Hc Hw Hs.
  destruct f as [|f]; [lia|]. cbn [interp].
  destruct v as [| b | s | s | n | es | l | l]; try reflexivity; try (destruct Hc).
  - (* mapping *)
    destruct f as [|f]; [cbn [vdepth] in Hd; lia|]. cbn [mapping_interp].
    pose proof (closed_simple_map es Hc Hw Hs) as Hall. apply wf_map_iff in Hw as (Hnd & Hum & _).
    rewrite (map_loop_id (interp f root) st es []); [reflexivity| | | exact Hum | exact Hnd].
    + intros k x c o st1 Hin. rewrite Forall_forall in Hall. destruct (Hall _ Hin) as (_ & H1 & H2 & H3). cbn in H1, H2, H3.
      apply IHf; try assumption; [lia|]. pose proof (depth_map_entry _ _ _ _ _ Hin). lia.
    + eapply Forall_impl; [|exact Hall]. intros e (H0 & H1 & H2 & _). tauto.
  - (* sequence *)
    apply closed_seq_iff in Hc. apply wf_seq_iff in Hw.
    rewrite (seq_loop_id (interp f root) st l 0); [reflexivity|].
    intros x st1 Hin. rewrite Forall_forall in Hc, Hw. apply IHf; [lia | | apply Hc, Hin | apply Hw, Hin |].
    + pose proof (depth_seq_elem _ _ Hin). lia.
    + cbn [simple_keys] in Hs. clear - Hs Hin. induction l as [|y l IH]; [destruct Hin|].
      destruct Hin as [->|Hin]; [apply Hs | apply IH; [apply Hs | exact Hin]].
Qed.

(** C07: rendering rendered parameters again, against any root, leaves them unchanged *)
Theorem rendered_fixed_point root f r :
  2 * vdepth r < f -> closed r -> wf r -> simple_keys r -> rendered f root r = Ok r.
Proof.
  intros Hd Hc Hw Hs. unfold rendered. rewrite (interp_closed_id root f r st0 Hd Hc Hw Hs). cbn [map_err bind].
  apply flattened_closed_id; assumption.
Qed.

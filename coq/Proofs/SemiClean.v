(* C11 / the domain of the theorems: a YAML document whose string keys carry at most one marker (keys
   of other kinds, lists and mappings included, are unrestricted) converts -- if it converts at all -- to well-formed parameters, also when it spells one
   key several times through markers (k, ~k, =k in one mapping): the spellings are collected as
   layers of one entry.  (Double markers are outside; the correspondence runs cover them.) *)
From RV Require Import Model.Yaml Proofs.ValueFacts Proofs.MappingFacts Proofs.WfFacts Proofs.YamlFacts.

(** insert_impl keeps mappings well-formed when the key carries at most one marker *)
Lemma insert_wf_gen es k v fc fo es' :
  wf (VMap es) -> wf v -> unmarked (stripped k) -> insert_impl es k v fc fo = Ok es' -> wf (VMap es').
Proof.
  rewrite !wf_map_iff. intros (Hnd & Hum & Hv) Hwv Hk Hi.
  unfold insert_impl in Hi. rewrite strip_prefix_eta in Hi. set (k0 := stripped k) in *.
  destruct (m_find k0 es) as [e|] eqn:Hn.
  2:{ injection Hi as <-. unfold keys in *. rewrite map_app. cbn [map mk_entry e_key fst]. repeat split.
    + apply m_find_none_keys in Hn. unfold keys in Hn.
      clear - Hnd Hn. induction (map e_key es) as [|x l IH]; cbn; [constructor; [tauto | constructor]|].
      inversion Hnd; subst. constructor.
      * rewrite in_app_iff. cbn. intros [H|[H|[]]]; [tauto|]. subst. apply Hn. now left.
      * apply IH; [assumption|]. intro H. apply Hn. now right.
    + apply Forall_app. split; [assumption | constructor; [assumption | constructor]].
    + apply Forall_app. split; [assumption | constructor; [exact Hwv | constructor]].
  }
  assert (Hin : In e es) by (eapply m_find_In; eauto).
  assert (Hwe : wf (e_val e)) by (rewrite Forall_forall in Hv; auto).
  destruct (e_const e); [discriminate|].
  destruct (fo || is_pover (marker k)); injection Hi as <-.
  - rewrite keys_m_set by (intros; reflexivity). repeat split; try assumption.
    apply m_set_vals; [assumption|]. intros e0 _ _. exact Hwv.
  - rewrite keys_m_set by (intros; reflexivity). repeat split; try assumption.
    apply m_set_vals; [assumption|]. intros e0 _ _. cbn [mk_entry e_val fst snd].
    assert (Hl : Forall (fun x => wf x /\ is_vlist x = false) (layers_of v)).
    { destruct v; cbn [layers_of]; try (constructor; [split; [assumption | reflexivity] | constructor]). now apply wf_list_iff. }
    destruct (e_val e) eqn:Ev; try (apply wf_list_iff; constructor; [split; [exact Hwe | reflexivity] | exact Hl]).
    apply wf_list_iff. apply Forall_app. split; [now apply wf_list_iff | exact Hl].
Qed.

(** keys of any kind; a string key carries at most one marker; no tags *)
Definition sclean_keys (l : list (yaml * yaml)) : Prop :=
  Forall (fun kv => forall a, try_value_of_yaml (fst kv) = Ok a -> unmarked (stripped a)) l.

Fixpoint sclean_yaml (y : yaml) : Prop :=
  match y with
  | YMap l =>
      sclean_keys l /\
      (fix go (l : list (yaml * yaml)) : Prop :=
         match l with [] => True | (_, v) :: l' => sclean_yaml v /\ go l' end) l
  | YSeq l =>
      (fix go (l : list yaml) : Prop := match l with [] => True | x :: l' => sclean_yaml x /\ go l' end) l
  | YTagged _ _ => False
  | _ => True
  end.

Lemma clean_sclean : forall y, clean_yaml y -> sclean_yaml y.
Proof.
  induction y as [| b | n | s0 | l IH | l IH | t y IH] using yaml_ind'; intros Hc; try exact Hc.
  - cbn [clean_yaml sclean_yaml] in *. induction l as [|x l IHl]; [exact I|].
    inversion IH as [|? ? Hx IHr]; subst. destruct Hc as [Hcx Hcl]. split; [exact (Hx Hcx) | exact (IHl IHr Hcl)].
  - cbn [clean_yaml sclean_yaml] in *. destruct Hc as [(ks & Hks & _ & Hum) Hvals]. split.
    { unfold sclean_keys. clear - Hks Hum. revert ks Hks Hum. induction l as [|[k v] l IHl]; intros ks Hks Hum; [constructor|].
      cbn [ykeys] in Hks. destruct (ykey k) as [a|] eqn:Ek; [|discriminate]. destruct (ykeys l) as [ks'|]; [|discriminate].
      injection Hks as <-. inversion Hum as [|? ? Ha Hum']; subst. constructor; [|exact (IHl ks' eq_refl Hum')].
      cbn [fst]. intros a0 E. rewrite (ykey_try _ _ Ek) in E. injection E as <-. exact Ha. }
    clear ks Hks Hum. induction l as [|[k v] l IHl]; [exact I|]. inversion IH as [|? ? [_ Hv] IHr]; subst.
    destruct Hvals as [Hcv Hcl]. cbn [snd] in Hv. split; [exact (Hv Hcv) | exact (IHl IHr Hcl)].
Qed.

Lemma try_value_not_vlist y v : try_value_of_yaml y = Ok v -> is_vlist v = false.
Proof.
  destruct y; cbn [try_value_of_yaml]; try (intros H; injection H as <-; reflexivity); try discriminate.
  - unfold rmap. destruct ((fix go (l0 : list yaml) : res (list value) := _) l); cbn [bind]; try discriminate. intros H; injection H as <-. reflexivity.
  - unfold rmap. destruct ((fix go (l0 : list (yaml * yaml)) (acc : mapping) : res mapping := _) l []); cbn [bind]; try discriminate.
    intros H; injection H as <-. reflexivity.
Qed.

(** whatever such a document converts to is well-formed *)
Theorem try_value_wf_gen : forall y v, sclean_yaml y -> try_value_of_yaml y = Ok v -> wf v.
Proof.
  induction y as [| b | n | s0 | l IH | l IH | t y IH] using yaml_ind'; intros v Hc H;
    try (cbn [try_value_of_yaml] in H; injection H as <-; exact I).
  - rewrite try_seq_eq in H. unfold rmap in H.
    destruct (try_seq l) as [vs| | |] eqn:E; cbn [bind] in H; try discriminate. injection H as <-. apply wf_seq_iff.
    cbn [sclean_yaml] in Hc. revert vs E. induction l as [|x l IHl]; intros vs E; cbn [try_seq] in E.
    + injection E as <-. constructor.
    + inversion IH as [|? ? Hx IHr]; subst. destruct Hc as [Hcx Hcl].
      destruct (try_value_of_yaml x) as [vx| | |] eqn:Ex; cbn [bind] in E; try discriminate.
      destruct (try_seq l) as [vl| | |] eqn:El; cbn [bind] in E; try discriminate. injection E as <-.
      constructor; [exact (Hx vx Hcx eq_refl) | exact (IHl IHr Hcl vl eq_refl)].
  - rewrite try_map_eq in H. unfold rmap in H.
    destruct (try_map l []) as [m| | |] eqn:E; cbn [bind] in H; try discriminate. injection H as <-.
    cbn [sclean_yaml] in Hc. destruct Hc as [Hum Hvals]. unfold sclean_keys in Hum.
    assert (G : forall l (acc m : mapping),
               Forall (fun kv => (forall v, sclean_yaml (fst kv) -> try_value_of_yaml (fst kv) = Ok v -> wf v) /\
                                 (forall v, sclean_yaml (snd kv) -> try_value_of_yaml (snd kv) = Ok v -> wf v)) l ->
               Forall (fun kv => forall a, try_value_of_yaml (fst kv) = Ok a -> unmarked (stripped a)) l ->
               (fix go (l : list (yaml * yaml)) : Prop := match l with [] => True | (_, v) :: l' => sclean_yaml v /\ go l' end) l ->
               wf (VMap acc) -> try_map l acc = Ok m -> wf (VMap m)).
    { clear. induction l as [|[k v] l IHl]; intros acc m IH Hum Hvals Ha E; cbn [try_map] in E.
      - injection E as <-. exact Ha.
      - inversion IH as [|? ? [_ Hv] IHr]; subst. cbn [fst snd] in Hv. destruct Hvals as [Hcv Hvals].
        inversion Hum as [|? ? Hua Hum']; subst. cbn [fst] in Hua.
        destruct (try_value_of_yaml k) as [a| | |] eqn:Ek; cbn [bind] in E; try discriminate.
        destruct (try_value_of_yaml v) as [vv| | |] eqn:Ev; cbn [bind] in E; try discriminate.
        unfold m_insert in E. destruct (insert_impl acc a vv false false) as [acc2| | |] eqn:Ei; cbn [bind] in E; try discriminate.
        apply (IHl acc2 m IHr Hum' Hvals); [|exact E].
        exact (insert_wf_gen _ _ _ _ _ _ Ha (Hv vv Hcv eq_refl) (Hua a eq_refl) Ei). }
    apply (G l [] m IH Hum Hvals); [|exact E]. apply wf_map_iff. repeat split; constructor.
  - destruct Hc.
Qed.

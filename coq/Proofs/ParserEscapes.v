(* C06: escaped markers in general position.  A string spelled by any sequence of plain texts,
   escaped opening markers \${ and \$[, doubled backslashes before a reference, and reference
   trees parses to the decoded pieces -- \${ as the text ${, \$[ as $[, \\ as one backslash --
   with adjacent texts joined by the parser's own coalescing; an escaped marker never opens a
   reference. *)
From RV Require Import Model.Parser Proofs.ParserFacts Proofs.ParserShape Proofs.ParserNested.

Fixpoint srcs {A} (us : list (string * A)) : string :=
  match us with [] => ""%string | u :: r => (fst u ++ srcs r)%string end.

(** many1 over a sequence of units each of which the parser takes off the front *)
Lemma many1_rest_units {A} (p : parser A) bad : p bad = PFail -> forall (us : list (string * A)) acc n,
  (forall pre u post, us = pre ++ u :: post -> p (fst u ++ srcs post ++ bad)%string = POk (srcs post ++ bad)%string (snd u)) ->
  Forall (fun u => 1 <= String.length (fst u)) us -> String.length (srcs us ++ bad)%string < n ->
  many1_rest n p (srcs us ++ bad)%string acc = POk bad (rev acc ++ map snd us).
Proof.
  intros Hfail. induction us as [|u us IH]; intros acc n Hp Hl Hn.
  - destruct n as [|n]; [cbn in Hn; lia|]. cbn [srcs append many1_rest map]. rewrite Hfail. now rewrite app_nil_r.
  - destruct n as [|n]; [cbn in Hn; lia|]. inversion Hl as [|? ? Hu Hus]; subst.
    cbn [srcs many1_rest]. rewrite str_app_assoc. rewrite (Hp [] u us eq_refl).
    assert (E : Nat.eqb (String.length (srcs us ++ bad)%string) (String.length (fst u ++ srcs us ++ bad)%string) = false).
    { apply Nat.eqb_neq. rewrite (length_app_str (fst u)). lia. }
    rewrite E. rewrite (IH (snd u :: acc) n).
    + cbn [rev map]. now rewrite <- app_assoc.
    + intros pre x post Ex. apply (Hp (u :: pre) x post). cbn [app]. now rewrite Ex.
    + exact Hus.
    + cbn [srcs] in Hn. rewrite str_app_assoc, (length_app_str (fst u)) in Hn. lia.
Qed.

(** * top level *)
Inductive tunit :=
| UPlain (c : ascii) (p : string)      (* a run of plain text *)
| UOpen                                (* \${  : the text ${ *)
| UInv                                 (* \$[  : the text $[ *)
| UBs                                  (* \\ before a reference: one backslash *)
| URef (ts : list token).              (* a reference tree *)

Definition tsrc (u : tunit) : string :=
  match u with
  | UPlain c p => String c p
  | UOpen => (bs ++ "${")%string
  | UInv => (bs ++ "$[")%string
  | UBs => (bs ++ bs)%string
  | URef ts => unparse (TRef ts)
  end.

Definition ttok (u : tunit) : token :=
  match u with
  | UPlain c p => TLit (String c p)
  | UOpen => TLit "${"
  | UInv => TLit "$["
  | UBs => TLit bs
  | URef ts => TRef ts
  end.

Definition tunit_ok (d : nat) (u : tunit) : Prop :=
  match u with
  | UPlain c p => plain (String c p)
  | URef ts => wft (S d) (TRef ts)
  | _ => True
  end.

(** two plain runs in a row are one run; a doubled backslash is an escape only before a reference *)
Fixpoint tchain (us : list tunit) : Prop :=
  match us with
  | [] => True
  | UPlain _ _ :: ((UPlain _ _ :: _) as r) => False
  | UBs :: ((URef _ :: _) as r) => tchain r
  | UBs :: _ => False
  | _ :: r => tchain r
  end.

Definition tpair (u : tunit) : string * token := (tsrc u, ttok u).

Lemma tchain_tail u us : tchain (u :: us) -> tchain us.
Proof. destruct u, us as [|[] us]; cbn; tauto. Qed.

Lemma text_ends_units us : tchain us -> match us with UPlain _ _ :: _ => False | _ => True end ->
  text_ends (srcs (map tpair us) ++ "")%string.
Proof.
  destruct us as [|u us]; intros Hc Hh; [exact text_ends_nil|]. cbn [map srcs tpair fst].
  destruct u as [c p | | | | ts]; [destruct Hh | | | |].
  - cbn [tsrc]. rewrite !str_app_assoc. split; reflexivity.
  - cbn [tsrc]. rewrite !str_app_assoc. split; reflexivity.
  - destruct us as [|[| | | |ts] us]; cbn [tchain] in Hc; try (destruct Hc; fail).
    cbn [map srcs tpair fst tsrc]. rewrite unparse_ref, !str_app_assoc. split; reflexivity.
  - cbn [tsrc]. rewrite unparse_ref, !str_app_assoc. apply text_ends_open.
Qed.

Lemma item_unit d b u post :
  d <= b -> tunit_ok d u -> tchain (u :: post) ->
  item (S b) (tsrc u ++ srcs (map tpair post) ++ "")%string = POk (srcs (map tpair post) ++ "")%string (ttok u).
Proof.
  intros Hb Hok Hc. destruct u as [c p | | | | ts]; cbn [tsrc ttok tunit_ok] in *.
  - apply item_plain; [exact Hok|]. apply text_ends_units; [exact (tchain_tail _ _ Hc)|].
    destruct post as [|[] post]; cbn [tchain] in Hc; tauto.
  - rewrite !str_app_assoc. reflexivity.
  - rewrite !str_app_assoc. reflexivity.
  - destruct post as [|[| | | |ts] post]; cbn [tchain] in Hc; try (destruct Hc; fail).
    cbn [map srcs tpair fst tsrc]. rewrite unparse_ref, !str_app_assoc. reflexivity.
  - destruct Hok as (Hne & Hna & Hf). unfold item. cbn [alt]. rewrite unparse_ref, !str_app_assoc.
    now rewrite (nested_reference_parses_back d b ts _ Hb Hne Hna Hf).
Qed.

Lemma tsrc_nonempty d u : tunit_ok d u -> 1 <= String.length (tsrc u).
Proof. destruct u; cbn [tsrc tunit_ok]; intros H; try (cbn; lia); rewrite unparse_ref; cbn [append String.length]; lia. Qed.

Lemma srcs_app {A} (l1 l2 : list (string * A)) : srcs (l1 ++ l2) = (srcs l1 ++ srcs l2)%string.
Proof. induction l1 as [|x l1 IH]; cbn [srcs app]; [reflexivity|]. now rewrite IH, str_app_assoc. Qed.

Lemma tchain_split pre u post : tchain (pre ++ u :: post) -> tchain (u :: post).
Proof. induction pre as [|x pre IH]; [auto|]. intros H. apply IH. exact (tchain_tail _ _ H). Qed.

(** the parse of a top-level sequence of units: the decoded pieces, coalesced *)
Theorem escaped_units_parse d u us :
  d <= MAX_REF_NESTING -> Forall (tunit_ok d) (u :: us) -> tchain (u :: us) ->
  has_marker (srcs (map tpair (u :: us))) = true ->
  token_parse (srcs (map tpair (u :: us))) =
    Parsed (match coalesce (ttok u, map ttok us) with [t] => t | ts => TComb ts end).
Proof.
  intros Hd Hok Hc Hm. unfold token_parse. rewrite Hm. unfold parse_ref, parse_ref_fuel.
  inversion Hok as [|? ? Hu Hus]; subst.
  rewrite <- (app_empty_r (srcs (map tpair (u :: us)))). unfold many1. cbn [map srcs tpair fst]. rewrite str_app_assoc.
  rewrite (item_unit d MAX_REF_NESTING u us Hd Hu Hc). cbn [pbind].
  rewrite (many1_rest_units (item (S MAX_REF_NESTING)) "" (item_at_end _) (map tpair us) [] _).
  - cbn [pbind rev app]. rewrite map_map. cbn [tpair snd]. destruct (coalesce (ttok u, map ttok us)) as [|t [|t2 r]]; reflexivity.
  - intros pre x post E. apply map_eq_app in E as (pre0 & post0 & -> & _ & E2).
    destruct post0 as [|x0 post0]; [discriminate|]. cbn [map] in E2. injection E2 as <- <-.
    cbn [tpair fst snd]. apply (item_unit d MAX_REF_NESTING x0 post0 Hd).
    + rewrite Forall_forall in Hus. apply Hus. apply in_or_app. right. now left.
    + exact (tchain_split (u :: pre0) x0 post0 Hc).
  - rewrite Forall_map. eapply Forall_impl; [|exact Hus]. intros x Hx. exact (tsrc_nonempty d x Hx).
  - lia.
Qed.

(* C04, the second half of "as if the rendered referenced value had been written inline": a
   rendered value holds its strings as literals, a value written in a YAML document holds them as
   unparsed strings.  For strings without a reference marker the two are interchangeable
   anywhere in the parameters: everything that rendered before renders to the same value (with
   one more unit of the model's fuel). *)
From RV Require Import Model.Interp Proofs.ValueFacts Proofs.MappingFacts Proofs.WfFacts Proofs.InterpFacts Proofs.StateIndep
     Proofs.Mono Proofs.Twin.

(** [lw a b]: [b] is [a] with some literal strings (no reference marker) written as unparsed strings *)
Fixpoint lw (a b : value) : Prop :=
  match a with
  | VLit s => b = VLit s \/ (b = VStr s /\ has_marker s = false)
  | VMap es =>
      exists es', b = VMap es' /\
        (fix go (es es' : list entry) : Prop :=
           match es, es' with
           | [], [] => True
           | (k, x, c, o) :: r, (k', x', c', o') :: r' => (k' = k /\ c' = c /\ o' = o /\ lw x x') /\ go r r'
           | _, _ => False
           end) es es'
  | VSeq l =>
      exists l', b = VSeq l' /\
        (fix go (l l' : list value) : Prop :=
           match l, l' with [], [] => True | x :: r, x' :: r' => lw x x' /\ go r r' | _, _ => False end) l l'
  | VList l =>
      exists l', b = VList l' /\
        (fix go (l l' : list value) : Prop :=
           match l, l' with [], [] => True | x :: r, x' :: r' => lw x x' /\ go r r' | _, _ => False end) l l'
  | _ => b = a
  end.

Definition lwe (e e' : entry) : Prop :=
  e_key e' = e_key e /\ e_const e' = e_const e /\ e_over e' = e_over e /\ lw (e_val e) (e_val e').

Lemma lw_map_iff es b : lw (VMap es) b <-> exists es', b = VMap es' /\ Forall2 lwe es es'.
Proof.
  cbn [lw]. split; intros (es' & -> & H); exists es'; (split; [reflexivity|]).
  - revert es' H. induction es as [|[[[k x] c] o] es IH]; intros [|[[[k' x'] c'] o'] es'] H; try (destruct H; fail); constructor.
    + exact (proj1 H).
    + exact (IH _ (proj2 H)).
  - induction H as [|[[[k x] c] o] [[[k' x'] c'] o'] es es' He _ IH]; [exact I | split; [exact He | exact IH]].
Qed.

Lemma lw_seq_iff l b : lw (VSeq l) b <-> exists l', b = VSeq l' /\ Forall2 lw l l'.
Proof.
  cbn [lw]. split; intros (l' & -> & H); exists l'; (split; [reflexivity|]).
  - revert l' H. induction l as [|x l IH]; intros [|x' l'] H; try (destruct H; fail); constructor; [exact (proj1 H) | exact (IH _ (proj2 H))].
  - induction H as [|x x' l l' Hx _ IH]; [exact I | split; assumption].
Qed.

Lemma lw_list_iff l b : lw (VList l) b <-> exists l', b = VList l' /\ Forall2 lw l l'.
Proof.
  cbn [lw]. split; intros (l' & -> & H); exists l'; (split; [reflexivity|]).
  - revert l' H. induction l as [|x l IH]; intros [|x' l'] H; try (destruct H; fail); constructor; [exact (proj1 H) | exact (IH _ (proj2 H))].
  - induction H as [|x x' l l' Hx _ IH]; [exact I | split; assumption].
Qed.

Lemma lw_refl : forall a, lw a a.
Proof.
  induction a as [| b | s | s | n | es IH | vs IH | vs IH] using value_ind'; try reflexivity.
  - left. reflexivity.
  - apply lw_map_iff. exists es. split; [reflexivity|]. induction IH as [|e es [_ He] _ IHes]; constructor; [|exact IHes].
    unfold lwe. tauto.
  - apply lw_seq_iff. exists vs. split; [reflexivity|]. induction IH; constructor; assumption.
  - apply lw_list_iff. exists vs. split; [reflexivity|]. induction IH; constructor; assumption.
Qed.

Lemma lwe_refl e : lwe e e.
Proof. unfold lwe. repeat split. apply lw_refl. Qed.

(** related values of which the second is closed are equal *)
Lemma lw_closed_eq : forall a b, closed b -> lw a b -> a = b.
Proof.
  induction a as [| b0 | s | s | n | es IH | vs IH | vs IH] using value_ind'; intros b Hc H; try (cbn in H; congruence).
  - cbn [lw] in H. destruct H as [->|[-> _]]; [reflexivity | destruct Hc].
  - apply lw_map_iff in H as (es' & -> & H). apply closed_map_iff in Hc. f_equal.
    revert IH Hc. induction H as [|e e' es es' (Hk & Hcn & Ho & Hv) _ IHes]; intros IH Hc; [reflexivity|].
    inversion IH as [|? ? [_ IHe] IHr]; subst. inversion Hc as [|? ? Hce Hcr]; subst. f_equal; [|exact (IHes IHr Hcr)].
    destruct e as [[[k x] c] o], e' as [[[k' x'] c'] o']. cbn [e_key e_val e_const e_over fst snd] in *.
    subst. now rewrite (IHe x' Hce Hv).
  - apply lw_seq_iff in H as (l' & -> & H). apply closed_seq_iff in Hc. f_equal.
    revert IH Hc. induction H as [|x x' l l' Hx _ IHl]; intros IH Hc; [reflexivity|].
    inversion IH; subst. inversion Hc; subst. f_equal; auto.
  - apply lw_list_iff in H as (l' & -> & _). destruct Hc.
Qed.

Lemma lw_is_vlist a b : lw a b -> is_vlist b = is_vlist a.
Proof.
  destruct a; cbn [lw]; try (intros ->; reflexivity).
  - intros [->|[-> _]]; reflexivity.
  - intros (es' & -> & _). reflexivity.
  - intros (l' & -> & _). reflexivity.
  - intros (l' & -> & _). reflexivity.
Qed.

(** unless the second is an unparsed string, both have the same kind *)
Lemma lw_variant a b : lw a b -> is_string b = false ->
  is_string a = false /\ variant b = variant a /\ is_null b = is_null a /\ is_mapping b = is_mapping a /\ is_sequence b = is_sequence a.
Proof.
  destruct a; cbn [lw]; try (intros -> Hs; repeat split; try reflexivity; exact Hs).
  - intros [->|[-> _]] Hs; [repeat split | discriminate].
  - intros (es' & -> & _) _. repeat split.
  - intros (l' & -> & _) _. repeat split.
  - intros (l' & -> & _) _. repeat split.
Qed.

Lemma lw_string a b : lw a b -> is_string a = true -> b = a.
Proof. destruct a; cbn [lw is_string]; try discriminate. intros -> _. reflexivity. Qed.

Lemma lw_scalar_eq v v' : lw v v' -> is_string v' = false -> is_vlist v = false -> is_mapping v || is_sequence v = false -> v' = v.
Proof.
  destruct v; cbn; try discriminate; try (intros H _ _ _; exact H).
  intros [->|[-> _]] Hs _ _; [reflexivity | discriminate].
Qed.

(** * lookup, insertion and merging respect the relation *)
Lemma lwe_find k : forall m m', Forall2 lwe m m' ->
  match m_find k m, m_find k m' with
  | Some e, Some e' => lwe e e'
  | None, None => True
  | _, _ => False
  end.
Proof.
  induction 1 as [|e e' m m' He _ IH]; cbn [m_find]; [exact I|].
  pose proof He as (Hk & _). rewrite Hk. destruct (value_eqb (e_key e) k); [exact He | exact IH].
Qed.

Lemma lwe_get k m m' : Forall2 lwe m m' ->
  match m_get k m, m_get k m' with
  | Some v, Some v' => lw v v'
  | None, None => True
  | _, _ => False
  end.
Proof.
  intros H. pose proof (lwe_find k m m' H) as F. unfold m_get.
  destruct (m_find k m) as [e|], (m_find k m') as [e'|]; cbn [option_map]; try exact F. exact (proj2 (proj2 (proj2 F))).
Qed.

Lemma lwe_set k f f' : (forall e e', lwe e e' -> lwe (f e) (f' e')) ->
  forall m m', Forall2 lwe m m' -> Forall2 lwe (m_set k f m) (m_set k f' m').
Proof.
  intros Hf. induction 1 as [|e e' m m' He Hm IH]; cbn [m_set]; [constructor|].
  pose proof He as (Hk & _). rewrite Hk. destruct (value_eqb (e_key e) k); constructor; auto.
Qed.

Lemma layers_of_lw v v' : lw v v' -> Forall2 lw (layers_of v) (layers_of v').
Proof.
  intros H. pose proof (lw_is_vlist _ _ H) as Hl.
  assert (G : is_vlist v = false -> Forall2 lw (layers_of v) (layers_of v')).
  { intros Hv. rewrite Hv in Hl. destruct v; try discriminate; destruct v'; try discriminate; cbn [layers_of]; constructor; (exact H || constructor). }
  destruct (is_vlist v) eqn:Ev; [|exact (G eq_refl)].
  destruct v; try discriminate. apply lw_list_iff in H as (l' & -> & H). exact H.
Qed.

Lemma insert_impl_lw m m' k v v' c o m2 :
  Forall2 lwe m m' -> lw v v' -> insert_impl m k v c o = Ok m2 ->
  exists m2', insert_impl m' k v' c o = Ok m2' /\ Forall2 lwe m2 m2'.
Proof.
  intros Hm Hv. unfold insert_impl. destruct (strip_prefix k) as [k0 p].
  pose proof (lwe_find k0 m m' Hm) as F.
  destruct (m_find k0 m) as [e|], (m_find k0 m') as [e'|]; try (destruct F; fail).
  - destruct F as (Hk & Hc & Ho & Hev). rewrite Hc. destruct (e_const e); [discriminate|].
    destruct (o || is_pover p).
    + intros H; injection H as <-. eexists. split; [reflexivity|]. apply lwe_set; [|exact Hm].
      intros a a' (_ & _ & Hao & _). unfold lwe. cbn [mk_entry e_key e_val e_const e_over fst snd]. now rewrite Hao.
    + intros H; injection H as <-. eexists. split; [reflexivity|]. apply lwe_set; [|exact Hm].
      intros a a' (_ & _ & Hao & _). unfold lwe. cbn [mk_entry e_key e_val e_const e_over fst snd]. rewrite Hao.
      repeat split. pose proof (layers_of_lw _ _ Hv) as Hl. pose proof (lw_is_vlist _ _ Hev) as Hil.
      destruct (is_vlist (e_val e)) eqn:Eo.
      * destruct (e_val e) as [| b | s | s | n | es | l | l]; try discriminate.
        apply lw_list_iff in Hev as (l' & -> & Hll). apply lw_list_iff. eexists. split; [reflexivity|].
        apply Forall2_app; assumption.
      * assert (X : forall old lay, is_vlist old = false ->
                    match old with VList l0 => VList (l0 ++ lay) | _ => VList (old :: lay) end = VList (old :: lay)).
        { intros old lay Ho'. destruct old; try reflexivity; discriminate. }
        rewrite (X _ _ Eo), (X _ _ Hil). apply lw_list_iff. eexists. split; [reflexivity|]. constructor; assumption.
  - intros H; injection H as <-. eexists. split; [reflexivity|]. apply Forall2_app; [exact Hm|].
    constructor; [|constructor]. unfold lwe. cbn [mk_entry e_key e_val e_const e_over fst snd]. repeat split. exact Hv.
Qed.

Lemma mapping_merge_lw : forall b b' a a' m,
  Forall2 lwe b b' -> Forall2 lwe a a' -> mapping_merge a b = Ok m ->
  exists m', mapping_merge a' b' = Ok m' /\ Forall2 lwe m m'.
Proof.
  unfold mapping_merge. intros b b' a a' m Hb. revert a a' m.
  induction Hb as [|e e' b b' (Hk & Hc & Ho & Hv) _ IH]; intros a a' m Ha H; cbn [foldM] in *.
  - injection H as <-. exists a'. split; [reflexivity | exact Ha].
  - destruct (insert_impl a (e_key e) (e_val e) (e_const e) (e_over e)) as [a2| | |] eqn:E; cbn [bind] in H; try discriminate.
    destruct (insert_impl_lw _ _ _ _ _ _ _ _ Ha Hv E) as (a2' & E' & Ha2).
    rewrite Hk, Hc, Ho, E'. cbn [bind]. exact (IH _ _ _ Ha2 H).
Qed.

(** merging, when the second side holds no unparsed string at the top *)
Lemma merge_core_lw ck b b' x x' r :
  lw b b' -> lw x x' -> is_string b' = false -> is_string x' = false -> merge_core ck b x = Ok r ->
  exists r', merge_core ck b' x' = Ok r' /\ lw r r' /\ is_string r' = false.
Proof.
  intros Hb Hx Hsb Hsx. destruct (lw_variant _ _ Hx Hsx) as (Hxs & _ & _ & Hxm & Hxq).
  destruct (lw_variant _ _ Hb Hsb) as (Hbs & _).
  destruct b as [| bb | s | s | n | m | l | l]; cbn [merge_core]; try discriminate.
  - cbn in Hb. subst b'. intros H; injection H as <-. exists x'. split; [reflexivity | split; assumption].
  - cbn in Hb. subst b'. cbn [merge_core]. rewrite Hxm, Hxq. destruct (is_mapping x || is_sequence x); [discriminate|].
    intros H; injection H as <-. exists x'. split; [reflexivity | split; assumption].
  - cbn [lw] in Hb. destruct Hb as [->|[-> _]]; [|discriminate]. cbn [merge_core]. rewrite Hxm, Hxq.
    destruct (is_mapping x || is_sequence x); [discriminate|].
    intros H; injection H as <-. exists x'. split; [reflexivity | split; assumption].
  - cbn in Hb. subst b'. cbn [merge_core]. rewrite Hxm, Hxq. destruct (is_mapping x || is_sequence x); [discriminate|].
    intros H; injection H as <-. exists x'. split; [reflexivity | split; assumption].
  - apply lw_map_iff in Hb as (m' & -> & Hm). cbn [merge_core].
    destruct x as [| xb | xs | xs | xn | o | xl | xl]; try discriminate.
    apply lw_map_iff in Hx as (o' & -> & Ho). unfold rmap.
    destruct (mapping_merge m o) as [mm| | |] eqn:E; cbn [bind]; try discriminate.
    destruct (mapping_merge_lw _ _ _ _ _ Ho Hm E) as (mm' & E' & Hmm). rewrite E'. cbn [bind].
    intros H; injection H as <-. exists (VMap mm'). split; [reflexivity|]. split; [|reflexivity].
    apply lw_map_iff. exists mm'. split; [reflexivity | exact Hmm].
  - apply lw_seq_iff in Hb as (l' & -> & Hl). cbn [merge_core].
    destruct x as [| xb | xs | xs | xn | o | xl | xl]; try discriminate.
    apply lw_seq_iff in Hx as (xl' & -> & Hxl). intros H; injection H as <-.
    exists (VSeq (l' ++ xl')). split; [reflexivity|]. split; [|reflexivity].
    apply lw_seq_iff. eexists. split; [reflexivity | apply Forall2_app; assumption].
Qed.

Lemma flat_fold_lw ck : forall l l' b b' r,
  Forall2 lw l l' -> Forall (fun x => is_string x = false /\ is_vlist x = false) l' ->
  lw b b' -> is_string b' = false -> flat_fold ck l b = Ok r ->
  exists r', flat_fold ck l' b' = Ok r' /\ lw r r'.
Proof.
  intros l l' b b' r Hl. revert b b' r. induction Hl as [|x x' l l' Hx _ IH]; intros b b' r Hns Hb Hsb H; cbn [flat_fold] in *.
  - injection H as <-. exists b'. split; [reflexivity | exact Hb].
  - inversion Hns as [|? ? [Hxs Hxl] Hns']; subst.
    destruct (lw_variant _ _ Hx Hxs) as (Hxs0 & _ & Hn & _ & _). rewrite Hn.
    destruct (is_null x).
    + cbn [bind] in *. apply (IH VNull VNull r Hns'); [reflexivity | reflexivity | exact H].
    + pose proof (lw_is_vlist _ _ Hx) as Hv. rewrite Hxl in Hv.
      assert (Ex : (match x with VList _ => flattened ck x | _ => Ok x end) = Ok x) by (destruct x; try reflexivity; discriminate).
      assert (Ex' : (match x' with VList _ => flattened ck x' | _ => Ok x' end) = Ok x') by (destruct x'; try reflexivity; discriminate).
      rewrite Ex in H. rewrite Ex'. cbn [bind] in *.
      destruct (merge_core ck b x) as [b2| | |] eqn:Em; cbn [bind] in H; try discriminate.
      destruct (merge_core_lw _ _ _ _ _ _ Hb Hx Hsb Hxs Em) as (b2' & Em' & Hb2 & Hs2). rewrite Em'. cbn [bind].
      exact (IH _ _ _ Hns' Hb2 Hs2 H).
Qed.

(** * the simulation: what renders against [rootA] with fuel [f] renders against [rootB] with fuel [S f] *)
Section Sim.
  Variables rootA rootB : mapping.
  Hypothesis HA : wf (VMap rootA).
  Hypothesis HB : wf (VMap rootB).
  Hypothesis Hrt : Forall2 lwe rootA rootB.

  Definition sim2 (g g' : callback) : Prop :=
    forall v v' st r st1, lw v v' -> wf v -> wf v' -> g v st = Ok (r, st1) ->
      exists r', g' v' st = Ok (r', st1) /\ lw r r'.

  Definition sim2_tok (g g' : token -> rstate -> res (value * rstate)) : Prop :=
    forall t st r st1, g t st = Ok (r, st1) -> exists r', g' t st = Ok (r', st1) /\ lw r r'.

  Lemma plain_string_renders f R s st : has_marker s = false -> interp (S f) R (VStr s) st = Ok (VLit s, st).
  Proof. intros H. cbn [interp]. unfold token_parse. rewrite H. reflexivity. Qed.

  Lemma seq_loop_sim2 call call' : sim2 call call' -> forall s s' idx st l,
    Forall2 lw s s' -> Forall wf s -> Forall wf s' -> seq_loop call st s idx = Ok l ->
    exists l', seq_loop call' st s' idx = Ok l' /\ Forall2 lw l l'.
  Proof.
    intros Hs s s' idx st l Ht. revert idx l. induction Ht as [|x x' s s' Hx _ IH]; intros idx l Hw Hw' H; cbn [seq_loop] in *.
    - injection H as <-. exists []. split; [reflexivity | constructor].
    - inversion Hw as [|? ? Hwx Hwl]; subst. inversion Hw' as [|? ? Hwx' Hwl']; subst.
      destruct (call x (push_list_index st idx)) as [[e s1]| | |] eqn:E; cbn [bind] in H; try discriminate.
      destruct (seq_loop call st s (S idx)) as [es| | |] eqn:E2; cbn [bind] in H; try discriminate. injection H as <-.
      destruct (Hs _ _ _ _ _ Hx Hwx Hwx' E) as (e' & E' & He). rewrite E'. cbn [bind].
      destruct (IH _ _ Hwl Hwl' E2) as (es' & E2' & Hes). rewrite E2'. cbn [bind].
      exists (e' :: es'). split; [reflexivity | constructor; assumption].
  Qed.

  Definition closed_res (call' : callback) : Prop :=
    forall v st v' st', wf v -> call' v st = Ok (v', st') -> closed v' /\ wf v'.

  Lemma vlist_loop_sim2 call call' : sim2 call call' -> closed_res call' -> forall l l' r st out,
    Forall2 lw l l' -> Forall wf l -> Forall wf l' -> vlist_loop call st l r = Ok out -> vlist_loop call' st l' r = Ok out.
  Proof.
    intros Hs Hc l l' r st out Ht. revert r out. induction Ht as [|x x' l l' Hx _ IH]; intros r out Hw Hw' H; cbn [vlist_loop] in *; [exact H|].
    inversion Hw as [|? ? Hwx Hwl]; subst. inversion Hw' as [|? ? Hwx' Hwl']; subst.
    destruct (call x st) as [[iv s1]| | |] eqn:E; cbn [bind] in H; try discriminate.
    destruct (Hs _ _ _ _ _ Hx Hwx Hwx' E) as (iv' & E' & Hiv).
    destruct (Hc _ _ _ _ Hwx' E') as [Hcl _]. rewrite <- (lw_closed_eq _ _ Hcl Hiv) in E'. rewrite E'. cbn [bind].
    destruct (value_merge (current_key s1) r iv) as [r2| | |] eqn:Em; cbn [bind] in H; try discriminate.
    cbn [bind]. exact (IH _ _ Hwl Hwl' H).
  Qed.

  Lemma map_loop_sim2 call call' : sim2 call call' -> closed_res call' -> forall es es' acc st m,
    Forall2 lwe es es' -> Forall (fun e => wf (e_val e)) es -> Forall (fun e => wf (e_val e)) es' ->
    map_loop call st es acc = Ok m -> map_loop call' st es' acc = Ok m.
  Proof.
    intros Hs Hc es es' acc st m Ht. revert acc m. induction Ht as [|e e' es es' He _ IH]; intros acc m Hw Hw' H; [exact H|].
    destruct e as [[[k v] c] o], e' as [[[k' v'] c'] o']. unfold lwe in He. cbn [e_key e_val e_const e_over fst snd] in He.
    destruct He as (-> & -> & -> & Hv). inversion Hw as [|? ? Hwv Hws]; subst. inversion Hw' as [|? ? Hwv' Hws']; subst.
    cbn [e_val fst snd] in Hwv, Hwv'. cbn [map_loop] in *.
    destruct (push_mapping_key st k) as [s1| | |]; cbn [bind] in *; try discriminate.
    destruct (call v s1) as [[x s2]| | |] eqn:E; cbn [bind] in H; try discriminate.
    destruct (Hs _ _ _ _ _ Hv Hwv Hwv' E) as (x' & E' & Hx).
    destruct (Hc _ _ _ _ Hwv' E') as [Hcl _]. rewrite <- (lw_closed_eq _ _ Hcl Hx) in E'. rewrite E'. cbn [bind].
    destruct (flattened (current_key s2) x) as [fv| | |] eqn:Ef; cbn [bind] in H; try discriminate.
    cbn [bind]. destruct (insert_impl acc k fv c o) as [acc'| | |]; cbn [bind] in *; try discriminate. exact (IH _ _ Hws Hws' H).
  Qed.

  Lemma walk_loop_sim2 sov sov' path :
    sim2 sov sov' ->
    (forall v st v2 st2, wf v -> sov v st = Ok (v2, st2) -> wf v2) ->
    (forall v st v2 st2, wf v -> sov' v st = Ok (v2, st2) -> wf v2) ->
    forall segs v v' st trav r st1,
      lw v v' -> wf v -> wf v' -> walk_loop sov path segs v st trav = Ok (r, st1) ->
      exists r', walk_loop sov' path segs v' st trav = Ok (r', st1) /\ lw r r'.
  Proof.
    intros Hs Hw1 Hw2. induction segs as [|key segs IH]; intros v v' st trav r st1 Hv Hwv Hwv' H; cbn [walk_loop] in *.
    - injection H as <- <-. exists v'. split; [reflexivity | exact Hv].
    - destruct (sov v st) as [[newv s1]| | |] eqn:E; cbn [bind] in H; try discriminate.
      destruct (Hs _ _ _ _ _ Hv Hwv Hwv' E) as (newv' & E' & Hn). rewrite E'. cbn [bind].
      pose proof (Hw1 _ _ _ _ Hwv E) as Hwn. pose proof (Hw2 _ _ _ _ Hwv' E') as Hwn'.
      destruct newv as [| b | s | s | n | es | l | l]; try discriminate.
      apply lw_map_iff in Hn as (es' & -> & Hes).
      pose proof (lwe_get (VStr key) es es' Hes) as G.
      destruct (m_get (VStr key) es) as [v1|] eqn:G1; [|discriminate].
      destruct (m_get (VStr key) es') as [v1'|] eqn:G2; [|destruct G].
      exact (IH v1 v1' s1 _ r st1 G (wf_get _ _ _ Hwn G1) (wf_get _ _ _ Hwn' G2) H).
  Qed.

  (** the layers of a multiply-defined value on a walk: on the second side every string layer is
      rendered, so no unparsed string is left at the top of a layer *)
  Lemma sov_loop_sim2 f : sim2 (interp f rootA) (interp (S f) rootB) -> forall l l' st i,
    Forall2 lw l l' -> Forall (fun x => wf x /\ is_vlist x = false) l -> Forall (fun x => wf x /\ is_vlist x = false) l' ->
    sov_loop (interp f rootA) st l = Ok i ->
    exists i', sov_loop (interp (S f) rootB) st l' = Ok i' /\ Forall2 lw i i' /\
               Forall (fun x => is_string x = false /\ is_vlist x = false) i'.
  Proof.
    intros Hs l l' st i Ht. revert i. induction Ht as [|x x' l l' Hx _ IH]; intros i Hw Hw' H; cbn [sov_loop] in *.
    - injection H as <-. exists []. repeat split; constructor.
    - inversion Hw as [|? ? [Hwx Hlx] Hwl]; subst. inversion Hw' as [|? ? [Hwx' Hlx'] Hwl']; subst.
      destruct (is_string x) eqn:Es.
      + destruct (interp f rootA x st) as [[y s1]| | |] eqn:E; cbn [bind] in H; try discriminate.
        destruct (sov_loop (interp f rootA) st l) as [r| | |] eqn:E2; cbn [bind] in H; try discriminate. injection H as <-.
        destruct (IH r Hwl Hwl' eq_refl) as (r' & E2' & Hr & Hns).
        pose proof (lw_string _ _ Hx Es) as Ex'. subst x'. rewrite Es.
        destruct (Hs _ _ _ _ _ Hx Hwx Hwx' E) as (y' & E' & Hy). rewrite E'. cbn [bind]. rewrite E2'. cbn [bind].
        destruct (interp_closed _ _ _ _ _ _ HB Hwx' E') as [Hcy' _].
        exists (y' :: r'). split; [reflexivity|]. split; [constructor; assumption|].
        constructor; [exact (closed_top _ Hcy') | exact Hns].
      + cbn [bind] in H. destruct (sov_loop (interp f rootA) st l) as [r| | |] eqn:E2; cbn [bind] in H; try discriminate. injection H as <-.
        destruct (IH r Hwl Hwl' eq_refl) as (r' & E2' & Hr & Hns).
        destruct (is_string x') eqn:Es'.
        * (* a literal on the first side written as a plain string on the second *)
          destruct x as [| b | s | s | n | es | xl | xl]; cbn [lw] in Hx; try (subst x'; discriminate);
            try (destruct Hx as (z & -> & _); discriminate).
          destruct Hx as [-> | [-> Hm]]; [discriminate|].
          rewrite (plain_string_renders f rootB s st Hm). cbn [bind]. rewrite E2'. cbn [bind].
          exists (VLit s :: r'). split; [reflexivity|]. split; [constructor; [left; reflexivity | exact Hr]|].
          constructor; [split; reflexivity | exact Hns].
        * cbn [bind]. rewrite E2'. cbn [bind].
          exists (x' :: r'). split; [reflexivity|]. split; [constructor; assumption|]. constructor; [split; assumption | exact Hns].
  Qed.

  Lemma slice_loop_sim2 (resolve resolve' : token -> rstate -> res (value * rstate)) ws ws' call call' :
    sim2_tok resolve resolve' ->
    (forall t st v s1, resolve t st = Ok (v, s1) -> wf v /\ top_ok v) ->
    (forall t st v s1, resolve' t st = Ok (v, s1) -> wf v /\ top_ok v) ->
    (forall v st v2 s2, is_string v = false -> ws v st = Ok (v2, s2) -> v2 = v /\ s2 = st) ->
    (forall v st, is_string v = false -> ws' v st = Ok (v, st)) ->
    sim2 call call' -> closed_res call' ->
    forall ts st s, slice_loop resolve ws call st ts = Ok s -> slice_loop resolve' ws' call' st ts = Ok s.
  Proof.
    intros Hr Hp Hp' Hws Hws' Hc Hcl. induction ts as [|t ts IH]; intros st s H; cbn [slice_loop] in *; [exact H|].
    destruct (resolve t st) as [[v s1]| | |] eqn:E1; cbn [bind] in H; try discriminate.
    destruct (Hr _ _ _ _ E1) as (v' & E1' & Hv). rewrite E1'. cbn [bind].
    destruct (Hp _ _ _ _ E1) as [Hwv [Hsv Hlv]]. destruct (Hp' _ _ _ _ E1') as [Hwv' [Hsv' Hlv']].
    destruct (ws v s1) as [[v2 s2]| | |] eqn:E2; cbn [bind] in H; try discriminate.
    destruct (Hws _ _ _ _ Hsv E2) as [-> ->]. rewrite (Hws' v' s1 Hsv'). cbn [bind].
    destruct (lw_variant _ _ Hv Hsv') as (_ & _ & _ & Hm & Hq). rewrite Hm, Hq.
    destruct (is_mapping v || is_sequence v) eqn:Ec.
    - destruct (call v s1) as [[v3 s3]| | |] eqn:E3; cbn [bind] in H; try discriminate.
      destruct (Hc _ _ _ _ _ Hv Hwv Hwv' E3) as (v3' & E3' & Hv3).
      destruct (Hcl _ _ _ _ Hwv' E3') as [Hc3 _]. rewrite <- (lw_closed_eq _ _ Hc3 Hv3) in E3'. rewrite E3'. cbn [bind].
      destruct (raw_string v3); cbn [bind] in *; try discriminate.
      destruct (slice_loop resolve ws call st ts) as [rest| | |] eqn:E4; cbn [bind] in H; try discriminate.
      rewrite (IH _ _ E4). exact H.
    - cbn [bind] in *. rewrite (lw_scalar_eq _ _ Hv Hsv' Hlv Ec).
      destruct (raw_string v); cbn [bind] in *; try discriminate.
      destruct (slice_loop resolve ws call st ts) as [rest| | |] eqn:E4; cbn [bind] in H; try discriminate.
      rewrite (IH _ _ E4). exact H.
  Qed.

  Definition U_all f :=
    sim2 (interp f rootA) (interp (S f) rootB) /\
    (forall m m' st r, Forall2 lwe m m' -> wf (VMap m) -> wf (VMap m') ->
                       mapping_interp f rootA m st = Ok r -> mapping_interp (S f) rootB m' st = Ok r) /\
    sim2_tok (token_render f rootA) (token_render (S f) rootB) /\
    sim2_tok (token_resolve f rootA) (token_resolve (S f) rootB) /\
    (forall ts st s, token_slice f rootA ts st = Ok s -> token_slice (S f) rootB ts st = Ok s) /\
    sim2 (interp_sov f rootA) (interp_sov (S f) rootB) /\
    sim2 (interp_while f rootA) (interp_while (S f) rootB) /\
    sim2 (interp_while_str f rootA) (interp_while_str (S f) rootB).

  Ltac same2 := eexists; split; [reflexivity | first [reflexivity | apply lw_refl | eassumption]].

  Lemma unrender_facts : forall f, U_all f.
  Proof.
    induction f as [|f (Hi & Hm & Hr & Hs & Hsl & Hv & Hw & Hws)].
    - unfold U_all, sim2, sim2_tok. repeat split; intros; discriminate.
    - pose proof (interp_facts rootA HA f) as (Pi & Pm & Pr & Ps & Pv & Pw & Pws).
      pose proof (interp_facts rootB HB (S f)) as (Pi' & Pm' & Pr' & Ps' & Pv' & Pw' & Pws').
      assert (Cc : closed_res (interp (S f) rootB)) by (intros x sx y sy Hx Hy; exact (Pi' x sx y sy Hx Hy)).
      assert (Plain : forall s st, has_marker s = false -> interp (S f) rootB (VStr s) st = Ok (VLit s, st))
        by (intros s st Hmk; exact (plain_string_renders f rootB s st Hmk)).
      split; [|split; [|split; [|split; [|split; [|split; [|split]]]]]].
      + (* interp *)
        intros v v' st r st1 Htw Hwv Hwv' H. cbn [interp] in H. remember (S f) as g eqn:Eg.
        destruct v as [| b | s | s | n | es | l | l].
        * cbn [lw] in Htw. subst v'. injection H as <- <-. same2.
        * cbn [lw] in Htw. subst v'. injection H as <- <-. same2.
        * cbn [lw] in Htw. subst v'. cbn [interp]. destruct (token_parse s) as [|t| |]; try discriminate.
          -- injection H as <- <-. same2.
          -- exact (Hr t st r st1 H).
        * injection H as <- <-. cbn [lw] in Htw. destruct Htw as [-> | [-> Hmk]]; [same2|].
          exists (VLit s). split; [exact (plain_string_renders g rootB s st Hmk) | left; reflexivity].
        * cbn [lw] in Htw. subst v'. injection H as <- <-. same2.
        * apply lw_map_iff in Htw as (es' & -> & Hes). cbn [interp].
          destruct (mapping_interp f rootA es st) as [m2| | |] eqn:E; cbn [bind] in H; try discriminate. injection H as <- <-.
          rewrite (Hm es es' st m2 Hes Hwv Hwv' E). cbn [bind]. same2.
        * apply lw_seq_iff in Htw as (l' & -> & Hl). cbn [interp].
          destruct (seq_loop (interp f rootA) st l 0) as [l2| | |] eqn:E; cbn [bind] in H; try discriminate. injection H as <- <-.
          destruct (seq_loop_sim2 _ _ Hi _ _ _ _ _ Hl (proj1 (wf_seq_iff _) Hwv) (proj1 (wf_seq_iff _) Hwv') E) as (l2' & E' & Hl2).
          rewrite E'. cbn [bind]. exists (VSeq l2'). split; [reflexivity|].
          apply lw_seq_iff. exists l2'. split; [reflexivity | exact Hl2].
        * apply lw_list_iff in Htw as (l' & -> & Hl). cbn [interp].
          destruct (vlist_loop (interp f rootA) st l VNull) as [r0| | |] eqn:E; cbn [bind] in H; try discriminate.
          rewrite (vlist_loop_sim2 _ _ Hi Cc _ _ _ _ _ Hl (wf_list_elems _ Hwv) (wf_list_elems _ Hwv') E). cbn [bind].
          assert (Hr0 : wf r0).
          { refine (proj1 (vlist_loop_inv (interp f rootA) st _ l VNull r0 (wf_list_elems _ Hwv) I (conj eq_refl eq_refl) E)).
            intros x sx y sy Hx Hy. exact (Pi x sx y sy Hx Hy). }
          exact (Hi r0 r0 st r st1 (lw_refl r0) Hr0 Hr0 H).
      + (* mapping_interp *)
        intros m m' st r Hmm Hwm Hwm' H. cbn [mapping_interp] in H. remember (S f) as g eqn:Eg. cbn [mapping_interp].
        apply wf_map_iff in Hwm as (_ & _ & Hvm). apply wf_map_iff in Hwm' as (_ & _ & Hvm').
        exact (map_loop_sim2 _ _ Hi Cc _ _ _ _ _ Hmm Hvm Hvm' H).
      + (* token_render *)
        intros t st r st1 H. cbn [token_render] in H. remember (S f) as g eqn:Eg. cbn [token_render].
        destruct (token_resolve f rootA t st) as [[v s1]| | |] eqn:E; try (destruct t; cbn [bind] in H; discriminate).
        destruct (Hs _ _ _ _ E) as (v' & E' & Hvv). rewrite E'.
        destruct (Ps _ _ _ _ E) as [Hwv _]. destruct (Ps' _ _ _ _ E') as [Hwv' [Hsv' _]].
        destruct t as [s | ps | ts]; cbn [bind] in *.
        * destruct (resolve_nonref_lit _ _ _ _ _ _ E ltac:(discriminate)) as [s0 ->].
          cbn [lw] in Hvv. destruct Hvv as [-> | [-> _]]; [|discriminate].
          change (raw_string (VLit s0)) with (@Ok string s0) in *. cbn [bind] in *. injection H as <- <-. same2.
        * exact (Hi _ _ _ _ _ Hvv Hwv Hwv' H).
        * destruct (resolve_nonref_lit _ _ _ _ _ _ E ltac:(discriminate)) as [s0 ->].
          cbn [lw] in Hvv. destruct Hvv as [-> | [-> _]]; [|discriminate].
          change (raw_string (VLit s0)) with (@Ok string s0) in *. cbn [bind] in *. injection H as <- <-. same2.
      + (* token_resolve *)
        intros t st r st1 H. cbn [token_resolve] in H. remember (S f) as g eqn:Eg. cbn [token_resolve]. destruct t as [s | parts | ts].
        * injection H as <- <-. same2.
        * set (sA := with_depth st (S (depth st))) in *.
          destruct (Nat.ltb RESOLVE_MAX_DEPTH (depth sA)); [discriminate|].
          destruct (token_slice f rootA parts sA) as [path| | |] eqn:E; cbn [bind] in H; try discriminate.
          rewrite (Hsl _ _ _ E). cbn [bind].
          destruct (mem path (seen sA)); [discriminate|].
          destruct (split_on ":" path) as [|k0 segs]; [discriminate|].
          pose proof (lwe_get (VStr k0) rootA rootB Hrt) as G.
          destruct (m_get (VStr k0) rootA) as [v0|] eqn:G1; [|discriminate].
          destruct (m_get (VStr k0) rootB) as [v0'|] eqn:G2; [|destruct G].
          destruct (walk_loop (interp_sov f rootA) path segs v0 (add_seen sA path) [k0]) as [[v s3]| | |] eqn:Ew; cbn [bind] in H; try discriminate.
          assert (W1 : forall x sx y sy, wf x -> interp_sov f rootA x sx = Ok (y, sy) -> wf y) by (intros x sx y sy Hx Hy; exact (proj1 (Pv _ _ _ _ Hx Hy))).
          assert (W2 : forall x sx y sy, wf x -> interp_sov g rootB x sx = Ok (y, sy) -> wf y) by (intros x sx y sy Hx Hy; exact (proj1 (Pv' _ _ _ _ Hx Hy))).
          pose proof (wf_get _ _ _ HA G1) as Hw0. pose proof (wf_get _ _ _ HB G2) as Hw0'.
          destruct (walk_loop_sim2 _ _ path Hv W1 W2 segs v0 v0' _ [k0] v s3 G Hw0 Hw0' Ew) as (v' & Ew' & Hvv).
          rewrite Ew'. cbn [bind].
          pose proof (walk_loop_wf _ path Pv _ _ _ _ _ _ Hw0 Ew) as Hwv. pose proof (walk_loop_wf _ path Pv' _ _ _ _ _ _ Hw0' Ew') as Hwv'.
          exact (Hw _ _ _ _ _ Hvv Hwv Hwv' H).
        * destruct (token_slice f rootA ts st) as [s| | |] eqn:E; cbn [bind] in H; try discriminate. injection H as <- <-.
          rewrite (Hsl _ _ _ E). cbn [bind]. same2.
      + (* token_slice *)
        intros ts st s H. cbn [token_slice] in H. remember (S f) as g eqn:Eg. cbn [token_slice]. destruct f as [|f0].
        * destruct ts as [|t ts]; cbn [slice_loop] in *; [exact H | discriminate].
        * refine (slice_loop_sim2 _ _ _ _ _ _ Hs _ _ _ _ Hi Cc ts st s H).
          -- intros t sx v s1 Hx. exact (Ps _ _ _ _ Hx).
          -- intros t sx v s1 Hx. exact (Ps' _ _ _ _ Hx).
          -- intros v sx v2 s2 Hsv Hx. cbn [interp_while_str] in Hx. rewrite Hsv in Hx. injection Hx as <- <-. split; reflexivity.
          -- intros v sx Hsv. subst g. cbn [interp_while_str]. now rewrite Hsv.
      + (* interp_sov *)
        intros v v' st r st1 Htw Hwv Hwv' H. cbn [interp_sov] in H. remember (S f) as g eqn:Eg.
        destruct v as [| b | s | s | n | es | l | l].
        * cbn [lw] in Htw. subst v'. injection H as <- <-. same2.
        * cbn [lw] in Htw. subst v'. injection H as <- <-. same2.
        * cbn [lw] in Htw. subst v'. exact (Hi (VStr s) (VStr s) st r st1 (lw_refl _) I I H).
        * injection H as <- <-. cbn [lw] in Htw. destruct Htw as [-> | [-> Hmk]]; [same2|].
          exists (VLit s). split; [cbn [interp_sov]; exact (Plain s st Hmk) | left; reflexivity].
        * cbn [lw] in Htw. subst v'. injection H as <- <-. same2.
        * pose proof Htw as Htw0. apply lw_map_iff in Htw as (es' & -> & Hes). injection H as <- <-. same2.
        * pose proof Htw as Htw0. apply lw_seq_iff in Htw as (l' & -> & Hl). injection H as <- <-. same2.
        * apply lw_list_iff in Htw as (l' & -> & Hl). cbn [interp_sov].
          destruct (sov_loop (interp f rootA) st l) as [i| | |] eqn:E; cbn [bind] in H; try discriminate.
          assert (Hi0 : sim2 (interp f rootA) (interp (S f) rootB)) by (rewrite <- Eg; exact Hi).
          destruct (sov_loop_sim2 f Hi0 _ _ _ _ Hl (proj1 (wf_list_iff _) Hwv) (proj1 (wf_list_iff _) Hwv') E) as (i' & E' & Hii & Hns).
          rewrite <- Eg in E'. rewrite E'. cbn [bind].
          destruct (flattened (current_key st) (VList i)) as [r0| | |] eqn:Ef; cbn [bind] in H; try discriminate. injection H as <- <-.
          rewrite flattened_vlist in *.
          destruct (flat_fold_lw _ _ _ _ _ _ Hii Hns (lw_refl VNull) eq_refl Ef) as (r0' & Ef' & Hr0). rewrite Ef'. cbn [bind].
          exists r0'. split; [reflexivity | exact Hr0].
      + (* interp_while *)
        intros v v' st r st1 Htw Hwv Hwv' H. cbn [interp_while] in H. remember (S f) as g eqn:Eg.
        destruct (is_string v || is_vlist v) eqn:Ef.
        * destruct (interp f rootA v st) as [[v1 s1]| | |] eqn:E; cbn [bind] in H; try discriminate.
          assert (Ev' : v' = v \/ exists l l', v = VList l /\ v' = VList l').
          { destruct v as [| b | s | s | n | es | l | l]; try discriminate; [left; exact Htw|].
            apply lw_list_iff in Htw as (l' & -> & _). right. eexists; eexists; split; reflexivity. }
          assert (Ef' : is_string v' || is_vlist v' = true) by (destruct Ev' as [->|(l0 & l0' & -> & ->)]; [exact Ef | reflexivity]).
          cbn [interp_while]. rewrite Ef'.
          destruct (Hi _ _ _ _ _ Htw Hwv Hwv' E) as (v1' & E' & Hv1). rewrite E'. cbn [bind].
          destruct (Pi _ _ _ _ Hwv E) as [_ Hw1]. destruct (Pi' _ _ _ _ Hwv' E') as [Hc1' Hw1'].
          rewrite <- (lw_closed_eq _ _ Hc1' Hv1) in *.
          exact (Hw _ _ _ _ _ (lw_refl v1) Hw1 Hw1 H).
        * injection H as <- <-. apply Bool.orb_false_iff in Ef as [E1 E2]. cbn [interp_while].
          rewrite (lw_is_vlist _ _ Htw), E2.
          destruct (is_string v') eqn:Es'.
          -- destruct v as [| b | s | s | n | es | l | l]; cbn [lw] in Htw; try (subst v'; discriminate);
               try (destruct Htw as (z & -> & _); discriminate).
             destruct Htw as [-> | [-> Hmk]]; [discriminate|]. cbn [orb].
             rewrite (Plain s st Hmk). cbn [bind]. subst g.
             cbn [interp_while is_string is_vlist orb]. exists (VLit s). split; [reflexivity | left; reflexivity].
          -- cbn [orb]. exists v'. split; [reflexivity | exact Htw].
      + (* interp_while_str *)
        intros v v' st r st1 Htw Hwv Hwv' H. cbn [interp_while_str] in H. remember (S f) as g eqn:Eg.
        destruct (is_string v) eqn:Ef.
        * destruct (interp f rootA v st) as [[v1 s1]| | |] eqn:E; cbn [bind] in H; try discriminate.
          pose proof (lw_string _ _ Htw Ef) as Ev'. subst v'. cbn [interp_while_str]. rewrite Ef.
          destruct (Hi _ _ _ _ _ Htw Hwv Hwv' E) as (v1' & E' & Hv1). rewrite E'. cbn [bind].
          destruct (Pi _ _ _ _ Hwv E) as [_ Hw1]. destruct (Pi' _ _ _ _ Hwv' E') as [Hc1' Hw1'].
          rewrite <- (lw_closed_eq _ _ Hc1' Hv1) in *.
          exact (Hws _ _ _ _ _ (lw_refl v1) Hw1 Hw1 H).
        * injection H as <- <-. cbn [interp_while_str].
          destruct (is_string v') eqn:Es'.
          -- destruct v as [| b | s | s | n | es | l | l]; cbn [lw] in Htw; try (subst v'; discriminate);
               try (destruct Htw as (z & -> & _); discriminate).
             destruct Htw as [-> | [-> Hmk]]; [discriminate|].
             rewrite (Plain s st Hmk). cbn [bind]. subst g.
             cbn [interp_while_str is_string]. exists (VLit s). split; [reflexivity | left; reflexivity].
          -- exists v'. split; [reflexivity | exact Htw].
  Qed.

  (** the parameters with literals written as plain strings render to the same result *)
  Theorem unrendered_parameters_render_the_same f r :
    render_with_self f (VMap rootA) = Ok r -> render_with_self (S f) (VMap rootB) = Ok r.
  Proof.
    cbn [render_with_self]. unfold rendered. intros H.
    destruct (interp f rootA (VMap rootA) st0) as [[v s1]| | |] eqn:E; cbn [map_err bind] in H; try discriminate.
    assert (Ht : lw (VMap rootA) (VMap rootB)) by (apply lw_map_iff; exists rootB; split; [reflexivity | exact Hrt]).
    destruct (proj1 (unrender_facts f) _ _ _ _ _ Ht HA HB E) as (v' & E' & Hv).
    destruct (interp_closed _ _ _ _ _ _ HB HB E') as [Hc _]. rewrite <- (lw_closed_eq _ _ Hc Hv) in E'.
    rewrite E'. cbn [map_err bind]. exact H.
  Qed.
End Sim.

(* C08 "acyclic references never are errors", the state side: whatever renders at some
   resolution state (some depth, some set of paths already on the chain, some position in the
   tree) renders to the same value at every state with no greater depth and no more recorded
   paths -- in particular from the top level.  The state can only turn a value into an error,
   and only by growing. *)
From RV Require Import Model.Interp Proofs.ValueFacts Proofs.MappingFacts Proofs.WfFacts Proofs.StateIndep Proofs.ListsFacts.

(** [a] is no further along a chain of references than [b] (the position in the tree is free) *)
Definition st_sub (a b : rstate) : Prop := depth a <= depth b /\ incl (seen a) (seen b).

Lemma st_sub_refl a : st_sub a a.
Proof. split; [lia | apply incl_refl]. Qed.

Lemma st_sub_trans a b c : st_sub a b -> st_sub b c -> st_sub a c.
Proof. intros (H1 & H2) (H3 & H4). split; [lia | eapply incl_tran; eauto]. Qed.

Definition cb_down {A} (call : A -> rstate -> res (value * rstate)) : Prop :=
  forall v st r st1 st', call v st = Ok (r, st1) -> st_sub st' st ->
    exists st1', call v st' = Ok (r, st1') /\ st_sub st1' st1.

Lemma push_list_index_sub a b i : st_sub a b -> st_sub (push_list_index a i) (push_list_index b i).
Proof. intros H. exact H. Qed.

Lemma push_mapping_key_sub st st' k s1 :
  push_mapping_key st k = Ok s1 -> st_sub st' st -> exists s1', push_mapping_key st' k = Ok s1' /\ st_sub s1' s1.
Proof.
  unfold push_mapping_key. intros H Hs. destruct (raw_string k) as [s| e | |]; try discriminate.
  - injection H as <-. eexists; split; [reflexivity | exact Hs].
  - destruct k; try discriminate. injection H as <-. eexists; split; [reflexivity | exact Hs].
Qed.

Lemma seq_loop_down call : cb_down call -> forall s idx st st' l,
  seq_loop call st s idx = Ok l -> st_sub st' st -> seq_loop call st' s idx = Ok l.
Proof.
  intros Hc. induction s as [|x s IH]; intros idx st st' l H Hs; cbn [seq_loop] in *; [exact H|].
  destruct (call x (push_list_index st idx)) as [[e s1]| | |] eqn:E; cbn [bind] in H; try discriminate.
  destruct (Hc _ _ _ _ _ E (push_list_index_sub _ _ idx Hs)) as (s1' & E' & _). rewrite E'. cbn [bind].
  destruct (seq_loop call st s (S idx)) as [es| | |] eqn:E2; cbn [bind] in H; try discriminate.
  rewrite (IH _ _ _ _ E2 Hs). exact H.
Qed.

Lemma vlist_loop_down call : cb_down call -> forall l r st st' out,
  vlist_loop call st l r = Ok out -> st_sub st' st -> vlist_loop call st' l r = Ok out.
Proof.
  intros Hc. induction l as [|x l IH]; intros r st st' out H Hs; cbn [vlist_loop] in *; [exact H|].
  destruct (call x st) as [[iv s1]| | |] eqn:E; cbn [bind] in H; try discriminate.
  destruct (Hc _ _ _ _ _ E Hs) as (s1' & E' & _). rewrite E'. cbn [bind].
  destruct (value_merge (current_key s1) r iv) as [r'| | |] eqn:Em; cbn [bind] in H; try discriminate.
  rewrite (value_merge_ck _ (current_key s1') _ _ _ Em). cbn [bind]. exact (IH _ _ _ _ H Hs).
Qed.

Lemma map_loop_down call : cb_down call -> forall es acc st st' m,
  map_loop call st es acc = Ok m -> st_sub st' st -> map_loop call st' es acc = Ok m.
Proof.
  intros Hc. induction es as [|[[[k v] c] o] es IH]; intros acc st st' m H Hs; cbn [map_loop] in *; [exact H|].
  destruct (push_mapping_key st k) as [s1| | |] eqn:Ep; cbn [bind] in H; try discriminate.
  destruct (push_mapping_key_sub _ _ _ _ Ep Hs) as (s1' & Ep' & Hs1). rewrite Ep'. cbn [bind].
  destruct (call v s1) as [[v' s2]| | |] eqn:E; cbn [bind] in H; try discriminate.
  destruct (Hc _ _ _ _ _ E Hs1) as (s2' & E' & _). rewrite E'. cbn [bind].
  destruct (flattened (current_key s2) v') as [fv| | |] eqn:Ef; cbn [bind] in H; try discriminate.
  rewrite (flattened_ck _ (current_key s2') _ _ Ef). cbn [bind].
  destruct (insert_impl acc k fv c o) as [acc'| | |]; cbn [bind] in *; try discriminate. exact (IH _ _ _ _ H Hs).
Qed.

Lemma walk_loop_down sov path : cb_down sov -> forall segs v st trav st' r st1,
  walk_loop sov path segs v st trav = Ok (r, st1) -> st_sub st' st ->
  exists st1', walk_loop sov path segs v st' trav = Ok (r, st1') /\ st_sub st1' st1.
Proof.
  intros Hc. induction segs as [|key segs IH]; intros v st trav st' r st1 H Hs; cbn [walk_loop] in *.
  - injection H as <- <-. exists st'. split; [reflexivity | exact Hs].
  - destruct (sov v st) as [[newv s1]| | |] eqn:E; cbn [bind] in H; try discriminate.
    destruct (Hc _ _ _ _ _ E Hs) as (s1' & E' & Hs1). rewrite E'. cbn [bind].
    destruct newv as [| b | s | s | n | es | l | l]; try discriminate.
    destruct (m_get (VStr key) es) as [v'|]; [|discriminate]. exact (IH _ _ _ _ _ _ H Hs1).
Qed.

Lemma sov_loop_down call : cb_down call -> forall l st st' i,
  sov_loop call st l = Ok i -> st_sub st' st -> sov_loop call st' l = Ok i.
Proof.
  intros Hc. induction l as [|x l IH]; intros st st' i H Hs; cbn [sov_loop] in *; [exact H|].
  destruct (is_string x).
  - destruct (call x st) as [[y s1]| | |] eqn:E; cbn [bind] in H; try discriminate.
    destruct (Hc _ _ _ _ _ E Hs) as (s1' & E' & _). rewrite E'. cbn [bind].
    destruct (sov_loop call st l) as [r| | |] eqn:E2; cbn [bind] in H; try discriminate. rewrite (IH _ _ _ E2 Hs). exact H.
  - cbn [bind] in *. destruct (sov_loop call st l) as [r| | |] eqn:E2; cbn [bind] in H; try discriminate. rewrite (IH _ _ _ E2 Hs). exact H.
Qed.

Lemma slice_loop_down (resolve : token -> rstate -> res (value * rstate)) ws call :
  cb_down resolve -> cb_down ws -> cb_down call -> forall ts st st' s,
  slice_loop resolve ws call st ts = Ok s -> st_sub st' st -> slice_loop resolve ws call st' ts = Ok s.
Proof.
  intros H1 H2 H3. induction ts as [|t ts IH]; intros st st' s H Hs; cbn [slice_loop] in *; [exact H|].
  destruct (resolve t st) as [[v s1]| | |] eqn:E1; cbn [bind] in H; try discriminate.
  destruct (H1 _ _ _ _ _ E1 Hs) as (s1' & E1' & Hs1). rewrite E1'. cbn [bind].
  destruct (ws v s1) as [[v' s2]| | |] eqn:E2; cbn [bind] in H; try discriminate.
  destruct (H2 _ _ _ _ _ E2 Hs1) as (s2' & E2' & Hs2). rewrite E2'. cbn [bind].
  destruct (is_mapping v' || is_sequence v').
  - destruct (call v' s2) as [[v'' s3]| | |] eqn:E3; cbn [bind] in H; try discriminate.
    destruct (H3 _ _ _ _ _ E3 Hs2) as (s3' & E3' & _). rewrite E3'. cbn [bind].
    destruct (raw_string v''); cbn [bind] in *; try discriminate.
    destruct (slice_loop resolve ws call st ts) as [rest| | |] eqn:E4; cbn [bind] in H; try discriminate.
    rewrite (IH _ _ _ E4 Hs). exact H.
  - cbn [bind] in *. destruct (raw_string v'); cbn [bind] in *; try discriminate.
    destruct (slice_loop resolve ws call st ts) as [rest| | |] eqn:E4; cbn [bind] in H; try discriminate.
    rewrite (IH _ _ _ E4 Hs). exact H.
Qed.

Section Main.
  Variable root : mapping.

  Definition D_map f := forall m st st' r, mapping_interp f root m st = Ok r -> st_sub st' st -> mapping_interp f root m st' = Ok r.
  Definition D_slice f := forall ts st st' s, token_slice f root ts st = Ok s -> st_sub st' st -> token_slice f root ts st' = Ok s.
  Definition D_all f :=
    cb_down (interp f root) /\ D_map f /\ cb_down (token_render f root) /\ cb_down (token_resolve f root) /\
    D_slice f /\ cb_down (interp_sov f root) /\ cb_down (interp_while f root) /\ cb_down (interp_while_str f root).

  Lemma down_facts : forall f, D_all f.
  Proof.
    induction f as [|f (Hi & Hm & Hr & Hs & Hsl & Hv & Hw & Hws)].
    - unfold D_all, D_map, D_slice, cb_down. repeat split; intros *; cbn; discriminate.
    - split; [|split; [|split; [|split; [|split; [|split; [|split]]]]]].
      + (* interp *)
        intros v st r st1 st' H Hsub. cbn [interp] in *.
        destruct v as [| b | s | s | n | es | l | l]; try (injection H as <- <-; exists st'; split; [reflexivity | exact Hsub]).
        * destruct (token_parse s); try discriminate.
          -- injection H as <- <-. exists st'. split; [reflexivity | exact Hsub].
          -- exact (Hr _ _ _ _ _ H Hsub).
        * destruct (mapping_interp f root es st) as [m'| | |] eqn:E; cbn [bind] in H; try discriminate. injection H as <- <-.
          rewrite (Hm _ _ _ _ E Hsub). cbn [bind]. exists st'. split; [reflexivity | exact Hsub].
        * destruct (seq_loop (interp f root) st l 0) as [l'| | |] eqn:E; cbn [bind] in H; try discriminate. injection H as <- <-.
          rewrite (seq_loop_down _ Hi _ _ _ _ _ E Hsub). cbn [bind]. exists st'. split; [reflexivity | exact Hsub].
        * destruct (vlist_loop (interp f root) st l VNull) as [b| | |] eqn:E; cbn [bind] in H; try discriminate.
          rewrite (vlist_loop_down _ Hi _ _ _ _ _ E Hsub). cbn [bind]. exact (Hi _ _ _ _ _ H Hsub).
      + (* mapping_interp *)
        intros m st st' r H Hsub. cbn [mapping_interp] in *. exact (map_loop_down _ Hi _ _ _ _ _ H Hsub).
      + (* token_render *)
        intros t st r st1 st' H Hsub. cbn [token_render] in *. destruct t as [s | ts | ts].
        * destruct (token_resolve f root (TLit s) st) as [[v s1]| | |] eqn:E; cbn [bind] in H; try discriminate.
          destruct (Hs _ _ _ _ _ E Hsub) as (s1' & E' & Hs1). rewrite E'. cbn [bind].
          destruct (raw_string v); cbn [bind] in *; try discriminate. injection H as <- <-. exists s1'. split; [reflexivity | exact Hs1].
        * destruct (token_resolve f root (TRef ts) st) as [[v s1]| | |] eqn:E; cbn [bind] in H; try discriminate.
          destruct (Hs _ _ _ _ _ E Hsub) as (s1' & E' & Hs1). rewrite E'. cbn [bind]. exact (Hi _ _ _ _ _ H Hs1).
        * destruct (token_resolve f root (TComb ts) st) as [[v s1]| | |] eqn:E; cbn [bind] in H; try discriminate.
          destruct (Hs _ _ _ _ _ E Hsub) as (s1' & E' & Hs1). rewrite E'. cbn [bind].
          destruct (raw_string v); cbn [bind] in *; try discriminate. injection H as <- <-. exists s1'. split; [reflexivity | exact Hs1].
      + (* token_resolve *)
        intros t st r st1 st' H Hsub. cbn [token_resolve] in *. destruct t as [s | parts | ts].
        * injection H as <- <-. exists st'. split; [reflexivity | exact Hsub].
        * destruct Hsub as [Hd Hin].
          assert (Hsub1 : st_sub (with_depth st' (S (depth st'))) (with_depth st (S (depth st)))) by (split; cbn; [lia | exact Hin]).
          destruct (Nat.ltb RESOLVE_MAX_DEPTH (depth (with_depth st (S (depth st))))) eqn:El; [discriminate|].
          assert (El' : Nat.ltb RESOLVE_MAX_DEPTH (depth (with_depth st' (S (depth st')))) = false).
          { apply Nat.ltb_ge. apply Nat.ltb_ge in El. cbn in *. lia. }
          rewrite El'.
          destruct (token_slice f root parts (with_depth st (S (depth st)))) as [path| | |] eqn:E; cbn [bind] in H; try discriminate.
          rewrite (Hsl _ _ _ _ E Hsub1). cbn [bind].
          destruct (mem path (seen (with_depth st (S (depth st))))) eqn:Em; [discriminate|].
          assert (Em' : mem path (seen (with_depth st' (S (depth st')))) = false).
          { destruct (mem path (seen (with_depth st' (S (depth st'))))) eqn:X; [|reflexivity].
            apply mem_In in X. cbn in X. apply Hin in X. apply (proj2 (mem_In _ _)) in X. cbn in Em. congruence. }
          rewrite Em'.
          destruct (split_on ":" path) as [|k0 segs]; [discriminate|].
          destruct (m_get (VStr k0) root) as [v0|]; [|discriminate].
          destruct (walk_loop (interp_sov f root) path segs v0 (add_seen (with_depth st (S (depth st))) path) [k0]) as [[v s3]| | |] eqn:Ew;
            cbn [bind] in H; try discriminate.
          assert (Hsub2 : st_sub (add_seen (with_depth st' (S (depth st'))) path) (add_seen (with_depth st (S (depth st))) path)).
          { split; cbn; [lia|]. intros x [Hx|Hx]; [now left | right; now apply Hin]. }
          destruct (walk_loop_down _ path Hv _ _ _ _ _ _ _ Ew Hsub2) as (s3' & Ew' & Hs3). rewrite Ew'. cbn [bind].
          exact (Hw _ _ _ _ _ H Hs3).
        * destruct (token_slice f root ts st) as [s| | |] eqn:E; cbn [bind] in H; try discriminate. injection H as <- <-.
          rewrite (Hsl _ _ _ _ E Hsub). cbn [bind]. exists st'. split; [reflexivity | exact Hsub].
      + (* token_slice *)
        intros ts st st' s H Hsub. cbn [token_slice] in *. exact (slice_loop_down _ _ _ Hs Hws Hi _ _ _ _ H Hsub).
      + (* interp_sov *)
        intros v st r st1 st' H Hsub. cbn [interp_sov] in *.
        destruct v as [| b | s | s | n | es | l | l]; try (injection H as <- <-; exists st'; split; [reflexivity | exact Hsub]).
        * exact (Hi _ _ _ _ _ H Hsub).
        * destruct (sov_loop (interp f root) st l) as [i| | |] eqn:E; cbn [bind] in H; try discriminate.
          rewrite (sov_loop_down _ Hi _ _ _ _ E Hsub). cbn [bind].
          destruct (flattened (current_key st) (VList i)) as [fr| | |] eqn:Ef; cbn [bind] in H; try discriminate. injection H as <- <-.
          rewrite (flattened_ck _ (current_key st') _ _ Ef). cbn [bind]. exists st'. split; [reflexivity | exact Hsub].
      + (* interp_while *)
        intros v st r st1 st' H Hsub. cbn [interp_while] in *. destruct (is_string v || is_vlist v).
        * destruct (interp f root v st) as [[v1 s1]| | |] eqn:E; cbn [bind] in H; try discriminate.
          destruct (Hi _ _ _ _ _ E Hsub) as (s1' & E' & Hs1). rewrite E'. cbn [bind]. exact (Hw _ _ _ _ _ H Hs1).
        * injection H as <- <-. exists st'. split; [reflexivity | exact Hsub].
      + (* interp_while_str *)
        intros v st r st1 st' H Hsub. cbn [interp_while_str] in *. destruct (is_string v).
        * destruct (interp f root v st) as [[v1 s1]| | |] eqn:E; cbn [bind] in H; try discriminate.
          destruct (Hi _ _ _ _ _ E Hsub) as (s1' & E' & Hs1). rewrite E'. cbn [bind]. exact (Hws _ _ _ _ _ H Hs1).
        * injection H as <- <-. exists st'. split; [reflexivity | exact Hsub].
  Qed.

  (** what renders somewhere renders, to the same value and with the same fuel, wherever the
      chain of references is no longer *)
  Theorem interp_succeeds_at_smaller_states f v st r st1 st' :
    interp f root v st = Ok (r, st1) -> st_sub st' st -> exists st1', interp f root v st' = Ok (r, st1') /\ st_sub st1' st1.
  Proof. exact (proj1 (down_facts f) v st r st1 st'). Qed.

  (** ... in particular at the top level *)
  Corollary interp_succeeds_at_top_level f v st r st1 :
    interp f root v st = Ok (r, st1) -> exists st1', interp f root v st0 = Ok (r, st1').
  Proof.
    intros H. destruct (interp_succeeds_at_smaller_states f v st r st1 st0 H) as (s & E & _); [|exists s; exact E].
    split; cbn; [lia | intros x []].
  Qed.
End Main.

(* C04 end to end: the inline twin.  If, anywhere in the parameters -- as a layer of a
   multiply-defined parameter at any nesting depth, as a member, as a list element, as a whole
   value --, a reference string is replaced by the (closed) value it renders to, everything
   that rendered before renders to the same value.  Proved by simulating the render under the
   original parameters by a render of the twin, call by call, with the same fuel. *)
From RV Require Import Model.Interp Proofs.ValueFacts Proofs.MappingFacts Proofs.WfFacts Proofs.InterpFacts Proofs.StateIndep
     Proofs.StateFacts Proofs.StateDown Proofs.Mono Proofs.FixedPoint Proofs.RefFacts.

Section Twin.
  Variables root root' : mapping.

  (** [x] stands for [w]: every successful render of [x] against [root] yields the closed [w] *)
  Definition denotes (x w : value) : Prop :=
    closed w /\ wf w /\ forall f st r st1, interp f root x st = Ok (r, st1) -> r = w.

  (** the twin relation: equal up to reference strings replaced by what they stand for *)
  Fixpoint tw (a b : value) : Prop :=
    match a with
    | VStr s => b = VStr s \/ denotes (VStr s) b
    | VMap es =>
        exists es', b = VMap es' /\
          (fix go (es es' : list entry) : Prop :=
             match es, es' with
             | [], [] => True
             | (k, x, c, o) :: r, (k', x', c', o') :: r' => (k' = k /\ c' = c /\ o' = o /\ tw x x') /\ go r r'
             | _, _ => False
             end) es es'
    | VSeq l =>
        exists l', b = VSeq l' /\
          (fix go (l l' : list value) : Prop :=
             match l, l' with [], [] => True | x :: r, x' :: r' => tw x x' /\ go r r' | _, _ => False end) l l'
    | VList l =>
        exists l', b = VList l' /\
          (fix go (l l' : list value) : Prop :=
             match l, l' with [], [] => True | x :: r, x' :: r' => tw x x' /\ go r r' | _, _ => False end) l l'
    | _ => b = a
    end.

  Definition twe (e e' : entry) : Prop :=
    e_key e' = e_key e /\ e_const e' = e_const e /\ e_over e' = e_over e /\ tw (e_val e) (e_val e').

  Lemma tw_map_iff es b : tw (VMap es) b <-> exists es', b = VMap es' /\ Forall2 twe es es'.
  Proof.
    cbn [tw]. split; intros (es' & -> & H); exists es'; (split; [reflexivity|]).
    - revert es' H. induction es as [|[[[k x] c] o] es IH]; intros [|[[[k' x'] c'] o'] es'] H; try (destruct H; fail); constructor.
      + exact (proj1 H).
      + exact (IH _ (proj2 H)).
    - induction H as [|[[[k x] c] o] [[[k' x'] c'] o'] es es' He _ IH]; [exact I | split; [exact He | exact IH]].
  Qed.

  Lemma tw_seq_iff l b : tw (VSeq l) b <-> exists l', b = VSeq l' /\ Forall2 tw l l'.
  Proof.
    cbn [tw]. split; intros (l' & -> & H); exists l'; (split; [reflexivity|]).
    - revert l' H. induction l as [|x l IH]; intros [|x' l'] H; try (destruct H; fail); constructor; [exact (proj1 H) | exact (IH _ (proj2 H))].
    - induction H as [|x x' l l' Hx _ IH]; [exact I | split; assumption].
  Qed.

  Lemma tw_list_iff l b : tw (VList l) b <-> exists l', b = VList l' /\ Forall2 tw l l'.
  Proof.
    cbn [tw]. split; intros (l' & -> & H); exists l'; (split; [reflexivity|]).
    - revert l' H. induction l as [|x l IH]; intros [|x' l'] H; try (destruct H; fail); constructor; [exact (proj1 H) | exact (IH _ (proj2 H))].
    - induction H as [|x x' l l' Hx _ IH]; [exact I | split; assumption].
  Qed.

  Lemma tw_refl : forall a, tw a a.
  Proof.
    induction a as [| b | s | s | n | es IH | vs IH | vs IH] using value_ind'; try reflexivity.
    - left. reflexivity.
    - apply tw_map_iff. exists es. split; [reflexivity|]. induction IH as [|e es [_ He] _ IHes]; constructor; [|exact IHes].
      unfold twe. tauto.
    - apply tw_seq_iff. exists vs. split; [reflexivity|]. induction IH; constructor; assumption.
    - apply tw_list_iff. exists vs. split; [reflexivity|]. induction IH; constructor; assumption.
  Qed.

  Lemma twe_refl e : twe e e.
  Proof. unfold twe. repeat split. apply tw_refl. Qed.

  Lemma Forall2_twe_refl m : Forall2 twe m m.
  Proof. induction m; constructor; [apply twe_refl | assumption]. Qed.

  (** closed data has no reference string: its only twin is itself *)
  Lemma tw_closed_eq : forall a b, closed a -> tw a b -> a = b.
  Proof.
    induction a as [| b0 | s | s | n | es IH | vs IH | vs IH] using value_ind'; intros b Hc H; try (cbn in H; congruence); try (destruct Hc; fail).
    - apply tw_map_iff in H as (es' & -> & H). apply closed_map_iff in Hc. f_equal.
      revert IH Hc. induction H as [|e e' es es' (Hk & Hcn & Ho & Hv) _ IHes]; intros IH Hc; [reflexivity|].
      inversion IH as [|? ? [_ IHe] IHr]; subst. inversion Hc as [|? ? Hce Hcr]; subst. f_equal; [|exact (IHes IHr Hcr)].
      destruct e as [[[k x] c] o], e' as [[[k' x'] c'] o']. cbn [e_key e_val e_const e_over fst snd] in *.
      subst. now rewrite (IHe x' Hce Hv).
    - apply tw_seq_iff in H as (l' & -> & H). apply closed_seq_iff in Hc. f_equal.
      revert IH Hc. induction H as [|x x' l l' Hx _ IHl]; intros IH Hc; [reflexivity|].
      inversion IH; subst. inversion Hc; subst. f_equal; auto.
  Qed.

  (** what the relation keeps: the kind of everything that is no reference string *)
  Lemma tw_is_vlist a b : tw a b -> is_vlist b = is_vlist a.
  Proof.
    destruct a; cbn [tw]; try (intros ->; reflexivity).
    - intros [->|(Hc & _)]; [reflexivity|]. destruct b; try reflexivity. destruct Hc.
    - intros (es' & -> & _). reflexivity.
    - intros (l' & -> & _). reflexivity.
    - intros (l' & -> & _). reflexivity.
  Qed.

  Lemma tw_is_string_false a b : tw a b -> is_string a = false -> is_string b = false.
  Proof.
    destruct a; cbn [tw is_string]; try discriminate; try (intros -> _; reflexivity).
    - intros (es' & -> & _) _. reflexivity.
    - intros (l' & -> & _) _. reflexivity.
    - intros (l' & -> & _) _. reflexivity.
  Qed.

  Lemma tw_variant a b : tw a b -> is_string a = false -> variant b = variant a /\ is_null b = is_null a /\
                                   is_mapping b = is_mapping a /\ is_sequence b = is_sequence a.
  Proof.
    destruct a; cbn [tw is_string]; try discriminate; try (intros -> _; repeat split; reflexivity).
    - intros (es' & -> & _) _. repeat split.
    - intros (l' & -> & _) _. repeat split.
    - intros (l' & -> & _) _. repeat split.
  Qed.

  (** * lookup in related mappings *)
  Lemma twe_find k : forall m m', Forall2 twe m m' ->
    match m_find k m, m_find k m' with
    | Some e, Some e' => twe e e'
    | None, None => True
    | _, _ => False
    end.
  Proof.
    induction 1 as [|e e' m m' He _ IH]; cbn [m_find]; [exact I|].
    pose proof He as (Hk & _). rewrite Hk. destruct (value_eqb (e_key e) k); [exact He | exact IH].
  Qed.

  Lemma twe_get k m m' : Forall2 twe m m' ->
    match m_get k m, m_get k m' with
    | Some v, Some v' => tw v v'
    | None, None => True
    | _, _ => False
    end.
  Proof.
    intros H. pose proof (twe_find k m m' H) as F. unfold m_get.
    destruct (m_find k m) as [e|], (m_find k m') as [e'|]; cbn [option_map]; try exact F. exact (proj2 (proj2 (proj2 F))).
  Qed.

  Lemma twe_set k f f' : (forall e e', twe e e' -> twe (f e) (f' e')) ->
    forall m m', Forall2 twe m m' -> Forall2 twe (m_set k f m) (m_set k f' m').
  Proof.
    intros Hf. induction 1 as [|e e' m m' He Hm IH]; cbn [m_set]; [constructor|].
    pose proof He as (Hk & _). rewrite Hk. destruct (value_eqb (e_key e) k); constructor; auto.
  Qed.

  Lemma layers_of_tw v v' : tw v v' -> Forall2 tw (layers_of v) (layers_of v').
  Proof.
    intros H. pose proof (tw_is_vlist _ _ H) as Hl.
    assert (G : is_vlist v = false -> Forall2 tw (layers_of v) (layers_of v')).
    { intros Hv. rewrite Hv in Hl. destruct v; try discriminate; destruct v'; try discriminate; cbn [layers_of]; constructor; (exact H || constructor). }
    destruct (is_vlist v) eqn:Ev; [|exact (G eq_refl)].
    destruct v; try discriminate. apply tw_list_iff in H as (l' & -> & H). exact H.
  Qed.

  Lemma insert_impl_tw m m' k v v' c o m2 :
    Forall2 twe m m' -> tw v v' -> insert_impl m k v c o = Ok m2 ->
    exists m2', insert_impl m' k v' c o = Ok m2' /\ Forall2 twe m2 m2'.
  Proof.
    intros Hm Hv. unfold insert_impl. destruct (strip_prefix k) as [k0 p].
    pose proof (twe_find k0 m m' Hm) as F.
    destruct (m_find k0 m) as [e|], (m_find k0 m') as [e'|]; try (destruct F; fail).
    - destruct F as (Hk & Hc & Ho & Hev). rewrite Hc. destruct (e_const e); [discriminate|].
      destruct (o || is_pover p).
      + intros H; injection H as <-. eexists. split; [reflexivity|]. apply twe_set; [|exact Hm].
        intros a a' (_ & _ & Hao & _). unfold twe. cbn [mk_entry e_key e_val e_const e_over fst snd]. now rewrite Hao.
      + intros H; injection H as <-. eexists. split; [reflexivity|]. apply twe_set; [|exact Hm].
        intros a a' (_ & _ & Hao & _). unfold twe. cbn [mk_entry e_key e_val e_const e_over fst snd]. rewrite Hao.
        repeat split. pose proof (layers_of_tw _ _ Hv) as Hl. pose proof (tw_is_vlist _ _ Hev) as Hil.
        destruct (is_vlist (e_val e)) eqn:Eo.
        * destruct (e_val e) as [| b | s | s | n | es | l | l]; try discriminate.
          apply tw_list_iff in Hev as (l' & -> & Hll). apply tw_list_iff. eexists. split; [reflexivity|].
          apply Forall2_app; assumption.
        * assert (X : forall old lay, is_vlist old = false ->
                      match old with VList l0 => VList (l0 ++ lay) | _ => VList (old :: lay) end = VList (old :: lay)).
          { intros old lay Ho'. destruct old; try reflexivity; discriminate. }
          rewrite (X _ _ Eo), (X _ _ Hil). apply tw_list_iff. eexists. split; [reflexivity|]. constructor; assumption.
    - intros H; injection H as <-. eexists. split; [reflexivity|]. apply Forall2_app; [exact Hm|].
      constructor; [|constructor]. unfold twe. cbn [mk_entry e_key e_val e_const e_over fst snd]. repeat split. exact Hv.
  Qed.

  Lemma mapping_merge_tw : forall b b' a a' m,
    Forall2 twe b b' -> Forall2 twe a a' -> mapping_merge a b = Ok m ->
    exists m', mapping_merge a' b' = Ok m' /\ Forall2 twe m m'.
  Proof.
    unfold mapping_merge. intros b b' a a' m Hb. revert a a' m.
    induction Hb as [|e e' b b' (Hk & Hc & Ho & Hv) _ IH]; intros a a' m Ha H; cbn [foldM] in *.
    - injection H as <-. exists a'. split; [reflexivity | exact Ha].
    - destruct (insert_impl a (e_key e) (e_val e) (e_const e) (e_over e)) as [a2| | |] eqn:E; cbn [bind] in H; try discriminate.
      destruct (insert_impl_tw _ _ _ _ _ _ _ _ Ha Hv E) as (a2' & E' & Ha2).
      rewrite Hk, Hc, Ho, E'. cbn [bind]. exact (IH _ _ _ Ha2 H).
  Qed.

  Lemma merge_core_tw ck b b' x x' r :
    tw b b' -> tw x x' -> is_string x = false -> merge_core ck b x = Ok r ->
    exists r', merge_core ck b' x' = Ok r' /\ tw r r' /\ is_string r = false.
  Proof.
    intros Hb Hx Hs. destruct (tw_variant _ _ Hx Hs) as (_ & _ & Hxm & Hxs).
    destruct b as [| bb | s | s | n | m | l | l]; cbn [merge_core]; try discriminate.
    - cbn in Hb. subst b'. intros H; injection H as <-. exists x'. split; [reflexivity | split; assumption].
    - cbn in Hb. subst b'. cbn [merge_core]. rewrite Hxm, Hxs. destruct (is_mapping x || is_sequence x); [discriminate|].
      intros H; injection H as <-. exists x'. split; [reflexivity | split; assumption].
    - cbn in Hb. subst b'. cbn [merge_core]. rewrite Hxm, Hxs. destruct (is_mapping x || is_sequence x); [discriminate|].
      intros H; injection H as <-. exists x'. split; [reflexivity | split; assumption].
    - cbn in Hb. subst b'. cbn [merge_core]. rewrite Hxm, Hxs. destruct (is_mapping x || is_sequence x); [discriminate|].
      intros H; injection H as <-. exists x'. split; [reflexivity | split; assumption].
    - apply tw_map_iff in Hb as (m' & -> & Hm). cbn [merge_core].
      destruct x as [| xb | xs | xs | xn | o | xl | xl]; try discriminate.
      apply tw_map_iff in Hx as (o' & -> & Ho). unfold rmap.
      destruct (mapping_merge m o) as [mm| | |] eqn:E; cbn [bind]; try discriminate.
      destruct (mapping_merge_tw _ _ _ _ _ Ho Hm E) as (mm' & E' & Hmm). rewrite E'. cbn [bind].
      intros H; injection H as <-. exists (VMap mm'). split; [reflexivity|]. split; [|reflexivity].
      apply tw_map_iff. exists mm'. split; [reflexivity | exact Hmm].
    - apply tw_seq_iff in Hb as (l' & -> & Hl). cbn [merge_core].
      destruct x as [| xb | xs | xs | xn | o | xl | xl]; try discriminate.
      apply tw_seq_iff in Hx as (xl' & -> & Hxl). intros H; injection H as <-.
      exists (VSeq (l' ++ xl')). split; [reflexivity|]. split; [|reflexivity].
      apply tw_seq_iff. eexists. split; [reflexivity | apply Forall2_app; assumption].
  Qed.

  (** flattening a ValueList whose layers are related, none of them a String or a ValueList *)
  Lemma flat_fold_tw ck : forall l l' b b' r,
    Forall2 tw l l' -> Forall (fun x => is_string x = false /\ is_vlist x = false) l ->
    tw b b' -> flat_fold ck l b = Ok r ->
    exists r', flat_fold ck l' b' = Ok r' /\ tw r r'.
  Proof.
    intros l l' b b' r Hl. revert b b' r. induction Hl as [|x x' l l' Hx _ IH]; intros b b' r Hns Hb H; cbn [flat_fold] in *.
    - injection H as <-. exists b'. split; [reflexivity | exact Hb].
    - inversion Hns as [|? ? [Hxs Hxl] Hns']; subst.
      destruct (tw_variant _ _ Hx Hxs) as (_ & Hn & _ & _). rewrite Hn.
      destruct (is_null x).
      + cbn [bind] in *. apply (IH VNull VNull r Hns'); [reflexivity | exact H].
      + assert (Ex : (match x with VList _ => flattened ck x | _ => Ok x end) = Ok x) by (destruct x; try reflexivity; discriminate).
        assert (Ex' : (match x' with VList _ => flattened ck x' | _ => Ok x' end) = Ok x').
        { pose proof (tw_is_vlist _ _ Hx) as Hv. rewrite Hxl in Hv. destruct x'; try reflexivity; discriminate. }
        rewrite Ex in H. rewrite Ex'. cbn [bind] in *.
        destruct (merge_core ck b x) as [b2| | |] eqn:Em; cbn [bind] in H; try discriminate.
        destruct (merge_core_tw _ _ _ _ _ _ Hb Hx Hxs Em) as (b2' & Em' & Hb2 & _). rewrite Em'. cbn [bind].
        exact (IH _ _ _ Hns' Hb2 H).
  Qed.

  (** * a rendered value renders to itself, against any parameters, within the fuel that produced it *)
  Hypothesis Hroot : wf (VMap root).

  Definition self_at (f : nat) : Prop :=
    forall v st w st1, wf v -> interp f root v st = Ok (w, st1) -> forall R st2, interp f R w st2 = Ok (w, st2).

  Lemma map_loop_self f2 R : self_at f2 -> forall es acc m' st,
    Forall (fun e => wf (e_val e)) es -> Forall unmarked (keys es) -> NoDup (keys acc ++ keys es) ->
    map_loop (interp f2 root) st es acc = Ok m' ->
    exists es', m' = acc ++ es' /\ keys es' = keys es /\
      forall st2 acc2, NoDup (keys acc2 ++ keys es) -> map_loop (interp f2 R) st2 es' acc2 = Ok (acc2 ++ es').
  Proof.
    intros Hself. induction es as [|[[[k v] c] o] es IH]; intros acc m' st Hw Hum Hnd H; cbn [map_loop] in H.
    - injection H as <-. exists []. split; [now rewrite app_nil_r|]. split; [reflexivity|]. intros st2 acc2 _. cbn [map_loop]. now rewrite app_nil_r.
    - inversion Hw as [|? ? Hwv Hws]; subst. inversion Hum as [|? ? Hk Hks]; subst. cbn [e_key e_val fst snd] in *.
      destruct (push_mapping_key st k) as [s1| | |] eqn:Ep; cbn [bind] in H; try discriminate.
      destruct (interp f2 root v s1) as [[v' s2]| | |] eqn:E; cbn [bind] in H; try discriminate.
      destruct (interp_closed _ _ _ _ _ _ Hroot Hwv E) as [Hc Hwv'].
      rewrite (flattened_closed_id _ v' Hc Hwv') in H. cbn [bind] in H.
      assert (Hins : forall a, NoDup (keys a ++ k :: keys es) -> insert_impl a k v' c o = Ok (a ++ [mk_entry k v' c o])).
      { intros a Ha. destruct (unmarked_stripped k Hk) as [Es Em]. rewrite insert_absent; [now rewrite Es, Em|].
        rewrite Es. apply m_find_none_keys. apply NoDup_remove_2 in Ha. intros Hin. apply Ha, in_or_app. now left. }
      cbn [keys map e_key fst] in Hnd. rewrite (Hins acc Hnd) in H. cbn [bind] in H.
      destruct (IH (acc ++ [mk_entry k v' c o]) m' st Hws Hks) as (es' & -> & Hkeys & HR); [|exact H|].
      + unfold keys in *. rewrite map_app, <- app_assoc. exact Hnd.
      + exists (mk_entry k v' c o :: es'). split; [now rewrite <- app_assoc|]. split; [cbn [keys map mk_entry e_key fst]; f_equal; exact Hkeys|].
        intros st2 acc2 Hnd2. cbn [map_loop mk_entry]. cbn [keys map e_key fst] in Hnd2.
        destruct (push_mapping_key_ok st st2 k s1 Ep) as [s1' ->]. cbn [bind].
        rewrite (Hself v s1 v' s2 Hwv E R s1'). cbn [bind].
        rewrite (flattened_closed_id _ v' Hc Hwv'). cbn [bind].
        rewrite (Hins acc2 Hnd2). cbn [bind]. rewrite HR; [now rewrite <- app_assoc|].
        unfold keys in *. rewrite map_app, <- app_assoc. exact Hnd2.
  Qed.

  Lemma seq_loop_self f2 R : self_at f2 -> forall s idx l st,
    Forall wf s -> seq_loop (interp f2 root) st s idx = Ok l ->
    forall st2 idx2, seq_loop (interp f2 R) st2 l idx2 = Ok l.
  Proof.
    intros Hself. induction s as [|x s IH]; intros idx l st Hw H st2 idx2; cbn [seq_loop] in H.
    - injection H as <-. reflexivity.
    - inversion Hw as [|? ? Hx Hs]; subst.
      destruct (interp f2 root x (push_list_index st idx)) as [[e s1]| | |] eqn:E; cbn [bind] in H; try discriminate.
      destruct (seq_loop (interp f2 root) st s (S idx)) as [es| | |] eqn:E2; cbn [bind] in H; try discriminate. injection H as <-.
      cbn [seq_loop]. rewrite (Hself _ _ _ _ Hx E R). cbn [bind]. rewrite (IH _ _ _ Hs E2). reflexivity.
  Qed.

  Lemma result_self : forall f, self_at f.
  Proof.
    induction f as [f IH] using lt_wf_ind. intros v st w st1 Hw H R st2.
    destruct f as [|f1]; [discriminate|]. cbn [interp] in H.
    destruct v as [| b | s | s | n | es | l | l]; try (injection H as <- _; reflexivity).
    - (* string *)
      destruct (token_parse s) as [|t| |]; try discriminate; [injection H as <- _; reflexivity|].
      destruct f1 as [|f2]; [discriminate|]. cbn [token_render] in H.
      destruct t as [s0 | ts | ts].
      + destruct (token_resolve f2 root (TLit s0) st) as [[v0 s1]| | |]; cbn [bind] in H; try discriminate.
        destruct (raw_string v0); cbn [bind] in H; try discriminate. injection H as <- _. reflexivity.
      + destruct (token_resolve f2 root (TRef ts) st) as [[v0 s1]| | |] eqn:Er; cbn [bind] in H; try discriminate.
        destruct (proj1 (proj2 (proj2 (proj2 (interp_facts root Hroot f2)))) _ _ _ _ Er) as [Hw0 _].
        apply (interp_fuel_mono R f2 (S (S f2))); [lia | | discriminate].
        exact (IH f2 ltac:(lia) v0 s1 w st1 Hw0 H R st2).
      + destruct (token_resolve f2 root (TComb ts) st) as [[v0 s1]| | |]; cbn [bind] in H; try discriminate.
        destruct (raw_string v0); cbn [bind] in H; try discriminate. injection H as <- _. reflexivity.
    - (* mapping *)
      destruct (mapping_interp f1 root es st) as [m'| | |] eqn:E; cbn [bind] in H; try discriminate. injection H as <- _.
      destruct f1 as [|f2]; [discriminate|]. cbn [mapping_interp] in E.
      apply wf_map_iff in Hw as (Hnd & Hum & Hv).
      destruct (map_loop_self f2 R (IH f2 ltac:(lia)) es [] m' st Hv Hum Hnd E) as (es' & -> & Hk & HR).
      cbn [app interp mapping_interp]. rewrite (HR st2 [] Hnd). reflexivity.
    - (* sequence *)
      destruct (seq_loop (interp f1 root) st l 0) as [l'| | |] eqn:E; cbn [bind] in H; try discriminate. injection H as <- _.
      cbn [interp]. apply wf_seq_iff in Hw. rewrite (seq_loop_self f1 R (IH f1 ltac:(lia)) _ _ _ _ Hw E). reflexivity.
    - (* layers *)
      destruct (vlist_loop (interp f1 root) st l VNull) as [r| | |] eqn:E; cbn [bind] in H; try discriminate.
      assert (Hr : wf r).
      { refine (proj1 (vlist_loop_inv (interp f1 root) st _ l VNull r (wf_list_elems _ Hw) I (conj eq_refl eq_refl) E)).
        intros x sx y sy Hx Hy. exact (interp_closed _ _ _ _ _ _ Hroot Hx Hy). }
      apply (interp_fuel_mono R f1 (S f1)); [lia | | discriminate]. exact (IH f1 ltac:(lia) r st w st1 Hr H R st2).
  Qed.

  (** * the simulation *)
  Hypothesis Hroot' : wf (VMap root').
  Hypothesis Hrt : Forall2 twe root root'.

  Definition sim_cb (g g' : callback) : Prop :=
    forall v v' st r st1, tw v v' -> wf v -> wf v' -> g v st = Ok (r, st1) ->
      exists r' st1', g' v' st = Ok (r', st1') /\ tw r r' /\ st_sub st1' st1.

  Definition sim_tok (g g' : token -> rstate -> res (value * rstate)) : Prop :=
    forall t st r st1, g t st = Ok (r, st1) ->
      exists r' st1', g' t st = Ok (r', st1') /\ tw r r' /\ st_sub st1' st1.

  Lemma st_le_sub a b : st_le a b -> st_sub a b.
  Proof. intros (_ & H1 & H2). split; assumption. Qed.

  Lemma tw_scalar_eq v v' : tw v v' -> is_string v = false -> is_vlist v = false -> is_mapping v || is_sequence v = false -> v' = v.
  Proof. destruct v; cbn; try discriminate; intros H _ _ _; exact H. Qed.

  Lemma seq_loop_sim call call' : sim_cb call call' -> forall s s' idx st l,
    Forall2 tw s s' -> Forall wf s -> Forall wf s' -> seq_loop call st s idx = Ok l ->
    exists l', seq_loop call' st s' idx = Ok l' /\ Forall2 tw l l'.
  Proof.
    intros Hs s s' idx st l Ht. revert idx l. induction Ht as [|x x' s s' Hx _ IH]; intros idx l Hw Hw' H; cbn [seq_loop] in *.
    - injection H as <-. exists []. split; [reflexivity | constructor].
    - inversion Hw as [|? ? Hwx Hwl]; subst. inversion Hw' as [|? ? Hwx' Hwl']; subst.
      destruct (call x (push_list_index st idx)) as [[e s1]| | |] eqn:E; cbn [bind] in H; try discriminate.
      destruct (seq_loop call st s (S idx)) as [es| | |] eqn:E2; cbn [bind] in H; try discriminate. injection H as <-.
      destruct (Hs _ _ _ _ _ Hx Hwx Hwx' E) as (e' & s1' & E' & He & _). rewrite E'. cbn [bind].
      destruct (IH _ _ Hwl Hwl' E2) as (es' & E2' & Hes). rewrite E2'. cbn [bind].
      exists (e' :: es'). split; [reflexivity | constructor; assumption].
  Qed.

  Lemma vlist_loop_sim call call' : sim_cb call call' -> cb_closed call -> forall l l' r st out,
    Forall2 tw l l' -> Forall wf l -> Forall wf l' -> vlist_loop call st l r = Ok out -> vlist_loop call' st l' r = Ok out.
  Proof.
    intros Hs Hc l l' r st out Ht. revert r out. induction Ht as [|x x' l l' Hx _ IH]; intros r out Hw Hw' H; cbn [vlist_loop] in *; [exact H|].
    inversion Hw as [|? ? Hwx Hwl]; subst. inversion Hw' as [|? ? Hwx' Hwl']; subst.
    destruct (call x st) as [[iv s1]| | |] eqn:E; cbn [bind] in H; try discriminate.
    destruct (Hs _ _ _ _ _ Hx Hwx Hwx' E) as (iv' & s1' & E' & Hiv & _).
    destruct (Hc _ _ _ _ Hwx E) as [Hcl _]. rewrite <- (tw_closed_eq _ _ Hcl Hiv) in E'. rewrite E'. cbn [bind].
    destruct (value_merge (current_key s1) r iv) as [r2| | |] eqn:Em; cbn [bind] in H; try discriminate.
    rewrite (value_merge_ck _ (current_key s1') _ _ _ Em). cbn [bind]. exact (IH _ _ Hwl Hwl' H).
  Qed.

  Lemma map_loop_sim call call' : sim_cb call call' -> cb_closed call -> forall es es' acc st m,
    Forall2 twe es es' -> Forall (fun e => wf (e_val e)) es -> Forall (fun e => wf (e_val e)) es' ->
    map_loop call st es acc = Ok m -> map_loop call' st es' acc = Ok m.
  Proof.
    intros Hs Hc es es' acc st m Ht. revert acc m. induction Ht as [|e e' es es' He _ IH]; intros acc m Hw Hw' H; [exact H|].
    destruct e as [[[k v] c] o], e' as [[[k' v'] c'] o']. unfold twe in He. cbn [e_key e_val e_const e_over fst snd] in He.
    destruct He as (-> & -> & -> & Hv). inversion Hw as [|? ? Hwv Hws]; subst. inversion Hw' as [|? ? Hwv' Hws']; subst.
    cbn [e_val fst snd] in Hwv, Hwv'. cbn [map_loop] in *.
    destruct (push_mapping_key st k) as [s1| | |]; cbn [bind] in *; try discriminate.
    destruct (call v s1) as [[x s2]| | |] eqn:E; cbn [bind] in H; try discriminate.
    destruct (Hs _ _ _ _ _ Hv Hwv Hwv' E) as (x' & s2' & E' & Hx & _).
    destruct (Hc _ _ _ _ Hwv E) as [Hcl _]. rewrite <- (tw_closed_eq _ _ Hcl Hx) in E'. rewrite E'. cbn [bind].
    destruct (flattened (current_key s2) x) as [fv| | |] eqn:Ef; cbn [bind] in H; try discriminate.
    rewrite (flattened_ck _ (current_key s2') _ _ Ef). cbn [bind].
    destruct (insert_impl acc k fv c o) as [acc'| | |]; cbn [bind] in *; try discriminate. exact (IH _ _ Hws Hws' H).
  Qed.

  Lemma walk_loop_sim sov sov' path :
    sim_cb sov sov' -> cb_down sov' ->
    (forall v st v2 st2, wf v -> sov v st = Ok (v2, st2) -> wf v2) ->
    (forall v st v2 st2, wf v -> sov' v st = Ok (v2, st2) -> wf v2) ->
    forall segs v v' st st' trav r st1,
      tw v v' -> wf v -> wf v' -> walk_loop sov path segs v st trav = Ok (r, st1) -> st_sub st' st ->
      exists r' st1', walk_loop sov' path segs v' st' trav = Ok (r', st1') /\ tw r r' /\ st_sub st1' st1.
  Proof.
    intros Hs Hd Hw1 Hw2. induction segs as [|key segs IH]; intros v v' st st' trav r st1 Hv Hwv Hwv' H Hsub; cbn [walk_loop] in *.
    - injection H as <- <-. exists v', st'. split; [reflexivity | split; assumption].
    - destruct (sov v st) as [[newv s1]| | |] eqn:E; cbn [bind] in H; try discriminate.
      destruct (Hs _ _ _ _ _ Hv Hwv Hwv' E) as (newv' & s1x & E' & Hn & Hs1x).
      destruct (Hd _ _ _ _ _ E' Hsub) as (s1' & E'' & Hs1'). rewrite E''. cbn [bind].
      pose proof (Hw1 _ _ _ _ Hwv E) as Hwn. pose proof (Hw2 _ _ _ _ Hwv' E') as Hwn'.
      destruct newv as [| b | s | s | n | es | l | l]; try discriminate.
      apply tw_map_iff in Hn as (es' & -> & Hes).
      pose proof (twe_get (VStr key) es es' Hes) as G.
      destruct (m_get (VStr key) es) as [v1|] eqn:G1; [|discriminate].
      destruct (m_get (VStr key) es') as [v1'|] eqn:G2; [|destruct G].
      apply (IH v1 v1' s1 s1' _ r st1 G (wf_get _ _ _ Hwn G1) (wf_get _ _ _ Hwn' G2) H).
      exact (st_sub_trans _ _ _ Hs1' Hs1x).
  Qed.

  Lemma sov_loop_sim f : sim_cb (interp f root) (interp f root') -> forall l l' st i,
    Forall2 tw l l' -> Forall (fun x => wf x /\ is_vlist x = false) l -> Forall (fun x => wf x /\ is_vlist x = false) l' ->
    sov_loop (interp f root) st l = Ok i ->
    exists i', sov_loop (interp f root') st l' = Ok i' /\ Forall2 tw i i' /\
               Forall (fun x => is_string x = false /\ is_vlist x = false) i.
  Proof.
    intros Hs l l' st i Ht. revert i. induction Ht as [|x x' l l' Hx _ IH]; intros i Hw Hw' H; cbn [sov_loop] in *.
    - injection H as <-. exists []. repeat split; constructor.
    - inversion Hw as [|? ? [Hwx Hlx] Hwl]; subst. inversion Hw' as [|? ? [Hwx' Hlx'] Hwl']; subst.
      destruct (is_string x) eqn:Es.
      + destruct (interp f root x st) as [[y s1]| | |] eqn:E; cbn [bind] in H; try discriminate.
        destruct (sov_loop (interp f root) st l) as [r| | |] eqn:E2; cbn [bind] in H; try discriminate. injection H as <-.
        destruct (IH r Hwl Hwl' eq_refl) as (r' & E2' & Hr & Hns).
        destruct (interp_closed _ _ _ _ _ _ Hroot Hwx E) as [Hcy _].
        destruct x as [| b | s | s | n | es | xl | xl]; try discriminate. cbn [tw] in Hx. destruct Hx as [-> | (Hcx' & _ & Hden)].
        * cbn [is_string]. destruct (Hs _ _ _ _ _ (tw_refl (VStr s)) I I E) as (y' & s1' & E' & Hy & _).
          rewrite E'. cbn [bind]. rewrite E2'. cbn [bind]. exists (y' :: r'). split; [reflexivity|]. split; [constructor; assumption|].
          constructor; [exact (closed_top _ Hcy) | exact Hns].
        * rewrite (proj1 (closed_top _ Hcx')). cbn [bind]. rewrite E2'. cbn [bind].
          rewrite (Hden _ _ _ _ E). exists (x' :: r'). split; [reflexivity|]. split; [constructor; [apply tw_refl | exact Hr]|].
          constructor; [exact (closed_top _ Hcx') | exact Hns].
      + cbn [bind] in H. destruct (sov_loop (interp f root) st l) as [r| | |] eqn:E2; cbn [bind] in H; try discriminate. injection H as <-.
        destruct (IH r Hwl Hwl' eq_refl) as (r' & E2' & Hr & Hns).
        rewrite (tw_is_string_false _ _ Hx Es). cbn [bind]. rewrite E2'. cbn [bind].
        exists (x' :: r'). split; [reflexivity|]. split; [constructor; assumption|]. constructor; [split; assumption | exact Hns].
  Qed.

  Lemma slice_loop_sim (resolve resolve' : token -> rstate -> res (value * rstate)) ws ws' call call' :
    sim_tok resolve resolve' ->
    (forall t st v s1, resolve t st = Ok (v, s1) -> wf v /\ top_ok v) ->
    (forall t st v s1, resolve' t st = Ok (v, s1) -> wf v /\ top_ok v) ->
    (forall v st v2 s2, is_string v = false -> ws v st = Ok (v2, s2) -> v2 = v /\ s2 = st) ->
    (forall v st, is_string v = false -> ws' v st = Ok (v, st)) ->
    sim_cb call call' -> cb_closed call -> cb_down call' ->
    forall ts st s, slice_loop resolve ws call st ts = Ok s -> slice_loop resolve' ws' call' st ts = Ok s.
  Proof.
    intros Hr Hp Hp' Hws Hws' Hc Hcl Hd. induction ts as [|t ts IH]; intros st s H; cbn [slice_loop] in *; [exact H|].
    destruct (resolve t st) as [[v s1]| | |] eqn:E1; cbn [bind] in H; try discriminate.
    destruct (Hr _ _ _ _ E1) as (v' & s1' & E1' & Hv & Hs1). rewrite E1'. cbn [bind].
    destruct (Hp _ _ _ _ E1) as [Hwv [Hsv Hlv]]. destruct (Hp' _ _ _ _ E1') as [Hwv' [Hsv' Hlv']].
    destruct (ws v s1) as [[v2 s2]| | |] eqn:E2; cbn [bind] in H; try discriminate.
    destruct (Hws _ _ _ _ Hsv E2) as [-> ->]. rewrite (Hws' v' s1' Hsv'). cbn [bind].
    destruct (tw_variant _ _ Hv Hsv) as (_ & _ & Hm & Hq). rewrite Hm, Hq.
    destruct (is_mapping v || is_sequence v) eqn:Ec.
    - destruct (call v s1) as [[v3 s3]| | |] eqn:E3; cbn [bind] in H; try discriminate.
      destruct (Hc _ _ _ _ _ Hv Hwv Hwv' E3) as (v3' & s3' & E3' & Hv3 & _).
      destruct (Hcl _ _ _ _ Hwv E3) as [Hc3 _]. rewrite <- (tw_closed_eq _ _ Hc3 Hv3) in E3'.
      destruct (Hd _ _ _ _ _ E3' Hs1) as (s3'' & E3'' & _). rewrite E3''. cbn [bind].
      destruct (raw_string v3); cbn [bind] in *; try discriminate.
      destruct (slice_loop resolve ws call st ts) as [rest| | |] eqn:E4; cbn [bind] in H; try discriminate.
      rewrite (IH _ _ E4). exact H.
    - cbn [bind] in *. rewrite (tw_scalar_eq _ _ Hv Hsv Hlv Ec).
      destruct (raw_string v); cbn [bind] in *; try discriminate.
      destruct (slice_loop resolve ws call st ts) as [rest| | |] eqn:E4; cbn [bind] in H; try discriminate.
      rewrite (IH _ _ E4). exact H.
  Qed.

  Lemma resolve_nonref_lit f R t st v s1 :
    token_resolve f R t st = Ok (v, s1) -> (forall ps, t <> TRef ps) -> exists s0, v = VLit s0.
  Proof.
    destruct f as [|f]; [discriminate|]. cbn [token_resolve]. destruct t as [s | ps | ts]; intros H Hn.
    - injection H as <- _. eexists; reflexivity.
    - exfalso. exact (Hn ps eq_refl).
    - destruct (token_slice f R ts st); cbn [bind] in H; try discriminate. injection H as <- _. eexists; reflexivity.
  Qed.

  Definition S_all f :=
    sim_cb (interp f root) (interp f root') /\
    (forall m m' st r, Forall2 twe m m' -> wf (VMap m) -> wf (VMap m') ->
                       mapping_interp f root m st = Ok r -> mapping_interp f root' m' st = Ok r) /\
    sim_tok (token_render f root) (token_render f root') /\
    sim_tok (token_resolve f root) (token_resolve f root') /\
    (forall ts st s, token_slice f root ts st = Ok s -> token_slice f root' ts st = Ok s) /\
    sim_cb (interp_sov f root) (interp_sov f root') /\
    sim_cb (interp_while f root) (interp_while f root') /\
    sim_cb (interp_while_str f root) (interp_while_str f root').

  Ltac same_out := eexists; eexists; split; [reflexivity | split; [first [reflexivity | apply tw_refl | eassumption] | apply st_sub_refl]].

  Lemma sim_facts : forall f, S_all f.
  Proof.
    induction f as [|f (Hi & Hm & Hr & Hs & Hsl & Hv & Hw & Hws)].
    - unfold S_all, sim_cb, sim_tok. repeat split; intros; discriminate.
    - pose proof (interp_facts root Hroot f) as (Pi & Pm & Pr & Ps & Pv & Pw & Pws).
      pose proof (interp_facts root' Hroot' f) as (Pi' & Pm' & Pr' & Ps' & Pv' & Pw' & Pws').
      pose proof (down_facts root' f) as (Di & Dm & Dr & Ds & Dsl & Dv & Dw & Dws).
      pose proof (state_facts root f) as (Si & Sr & Ss & Sv & Sw & Sws).
      assert (Cc : cb_closed (interp f root)) by (intros x sx y sy Hx Hy; exact (Pi x sx y sy Hx Hy)).
      split; [|split; [|split; [|split; [|split; [|split; [|split]]]]]].
      + (* interp *)
        intros v v' st r st1 Htw Hwv Hwv' H. pose proof H as H0. cbn [interp] in H.
        destruct v as [| b | s | s | n | es | l | l].
        * cbn [tw] in Htw. subst v'. injection H as <- <-. same_out.
        * cbn [tw] in Htw. subst v'. injection H as <- <-. same_out.
        * cbn [tw] in Htw. destruct Htw as [-> | (Hc' & Hw' & Hden)].
          -- cbn [interp]. destruct (token_parse s) as [|t| |]; try discriminate.
             ++ injection H as <- <-. same_out.
             ++ exact (Hr t st r st1 H).
          -- pose proof (Hden _ _ _ _ H0) as Er. subst r. exists v', st. split; [exact (result_self (S f) (VStr s) st v' st1 I H0 root' st)|].
             split; [apply tw_refl | exact (st_le_sub _ _ (interp_state_le _ _ _ _ _ _ H0))].
        * cbn [tw] in Htw. subst v'. injection H as <- <-. same_out.
        * cbn [tw] in Htw. subst v'. injection H as <- <-. same_out.
        * apply tw_map_iff in Htw as (es' & -> & Hes). cbn [interp].
          destruct (mapping_interp f root es st) as [m2| | |] eqn:E; cbn [bind] in H; try discriminate. injection H as <- <-.
          rewrite (Hm es es' st m2 Hes Hwv Hwv' E). cbn [bind]. same_out.
        * apply tw_seq_iff in Htw as (l' & -> & Hl). cbn [interp].
          destruct (seq_loop (interp f root) st l 0) as [l2| | |] eqn:E; cbn [bind] in H; try discriminate. injection H as <- <-.
          destruct (seq_loop_sim _ _ Hi _ _ _ _ _ Hl (proj1 (wf_seq_iff _) Hwv) (proj1 (wf_seq_iff _) Hwv') E) as (l2' & E' & Hl2).
          rewrite E'. cbn [bind]. exists (VSeq l2'), st. split; [reflexivity|]. split; [|apply st_sub_refl].
          apply tw_seq_iff. exists l2'. split; [reflexivity | exact Hl2].
        * apply tw_list_iff in Htw as (l' & -> & Hl). cbn [interp].
          destruct (vlist_loop (interp f root) st l VNull) as [r0| | |] eqn:E; cbn [bind] in H; try discriminate.
          rewrite (vlist_loop_sim _ _ Hi Cc _ _ _ _ _ Hl (wf_list_elems _ Hwv) (wf_list_elems _ Hwv') E). cbn [bind].
          assert (Hr0 : wf r0) by exact (proj1 (vlist_loop_inv (interp f root) st Cc l VNull r0 (wf_list_elems _ Hwv) I (conj eq_refl eq_refl) E)).
          exact (Hi r0 r0 st r st1 (tw_refl r0) Hr0 Hr0 H).
      + (* mapping_interp *)
        intros m m' st r Hmm Hwm Hwm' H. cbn [mapping_interp] in *.
        apply wf_map_iff in Hwm as (_ & _ & Hvm). apply wf_map_iff in Hwm' as (_ & _ & Hvm').
        exact (map_loop_sim _ _ Hi Cc _ _ _ _ _ Hmm Hvm Hvm' H).
      + (* token_render *)
        intros t st r st1 H. cbn [token_render] in *.
        destruct (token_resolve f root t st) as [[v s1]| | |] eqn:E; try (destruct t; cbn [bind] in H; discriminate).
        destruct (Hs _ _ _ _ E) as (v' & s1' & E' & Hvv & Hs1). rewrite E'.
        destruct (Ps _ _ _ _ E) as [Hwv _]. destruct (Ps' _ _ _ _ E') as [Hwv' _].
        destruct t as [s | ps | ts]; cbn [bind] in *.
        * destruct (resolve_nonref_lit _ _ _ _ _ _ E ltac:(discriminate)) as [s0 ->]. cbn [tw] in Hvv. subst v'.
          change (raw_string (VLit s0)) with (@Ok string s0) in *. cbn [bind] in *. injection H as <- <-.
          exists (VLit s0), s1'. split; [reflexivity | split; [reflexivity | exact Hs1]].
        * destruct (Hi _ _ _ _ _ Hvv Hwv Hwv' H) as (r' & sx & Ex & Hrr & Hsx).
          destruct (Di _ _ _ _ _ Ex Hs1) as (sx' & Ex' & Hsx'). exists r', sx'. split; [exact Ex'|]. split; [exact Hrr|].
          exact (st_sub_trans _ _ _ Hsx' Hsx).
        * destruct (resolve_nonref_lit _ _ _ _ _ _ E ltac:(discriminate)) as [s0 ->]. cbn [tw] in Hvv. subst v'.
          change (raw_string (VLit s0)) with (@Ok string s0) in *. cbn [bind] in *. injection H as <- <-.
          exists (VLit s0), s1'. split; [reflexivity | split; [reflexivity | exact Hs1]].
      + (* token_resolve *)
        intros t st r st1 H. cbn [token_resolve] in *. destruct t as [s | parts | ts].
        * injection H as <- <-. same_out.
        * set (sA := with_depth st (S (depth st))) in *.
          destruct (Nat.ltb RESOLVE_MAX_DEPTH (depth sA)); [discriminate|].
          destruct (token_slice f root parts sA) as [path| | |] eqn:E; cbn [bind] in H; try discriminate.
          rewrite (Hsl _ _ _ E). cbn [bind].
          destruct (mem path (seen sA)); [discriminate|].
          destruct (split_on ":" path) as [|k0 segs]; [discriminate|].
          pose proof (twe_get (VStr k0) root root' Hrt) as G.
          destruct (m_get (VStr k0) root) as [v0|] eqn:G1; [|discriminate].
          destruct (m_get (VStr k0) root') as [v0'|] eqn:G2; [|destruct G].
          destruct (walk_loop (interp_sov f root) path segs v0 (add_seen sA path) [k0]) as [[v s3]| | |] eqn:Ew; cbn [bind] in H; try discriminate.
          assert (W1 : forall x sx y sy, wf x -> interp_sov f root x sx = Ok (y, sy) -> wf y) by (intros x sx y sy Hx Hy; exact (proj1 (Pv _ _ _ _ Hx Hy))).
          assert (W2 : forall x sx y sy, wf x -> interp_sov f root' x sx = Ok (y, sy) -> wf y) by (intros x sx y sy Hx Hy; exact (proj1 (Pv' _ _ _ _ Hx Hy))).
          pose proof (wf_get _ _ _ Hroot G1) as Hw0. pose proof (wf_get _ _ _ Hroot' G2) as Hw0'.
          destruct (walk_loop_sim _ _ path Hv Dv W1 W2 segs v0 v0' _ _ [k0] v s3 G Hw0 Hw0' Ew (st_sub_refl _)) as (v' & s3' & Ew' & Hvv & Hs3).
          rewrite Ew'. cbn [bind].
          pose proof (walk_loop_wf _ path Pv _ _ _ _ _ _ Hw0 Ew) as Hwv. pose proof (walk_loop_wf _ path Pv' _ _ _ _ _ _ Hw0' Ew') as Hwv'.
          destruct (Hw _ _ _ _ _ Hvv Hwv Hwv' H) as (r' & sx & Ex & Hrr & Hsx).
          destruct (Dw _ _ _ _ _ Ex Hs3) as (sx' & Ex' & Hsx'). exists r', sx'. split; [exact Ex'|]. split; [exact Hrr|].
          exact (st_sub_trans _ _ _ Hsx' Hsx).
        * destruct (token_slice f root ts st) as [s| | |] eqn:E; cbn [bind] in H; try discriminate. injection H as <- <-.
          rewrite (Hsl _ _ _ E). cbn [bind]. same_out.
      + (* token_slice *)
        intros ts st s H. cbn [token_slice] in *. destruct f as [|f0].
        * destruct ts as [|t ts]; cbn [slice_loop] in *; [exact H | discriminate].
        * refine (slice_loop_sim _ _ _ _ _ _ Hs _ _ _ _ Hi Cc Di ts st s H).
          -- intros t sx v s1 Hx. exact (Ps _ _ _ _ Hx).
          -- intros t sx v s1 Hx. exact (Ps' _ _ _ _ Hx).
          -- intros v sx v2 s2 Hsv Hx. cbn [interp_while_str] in Hx. rewrite Hsv in Hx. injection Hx as <- <-. split; reflexivity.
          -- intros v sx Hsv. cbn [interp_while_str]. now rewrite Hsv.
      + (* interp_sov *)
        intros v v' st r st1 Htw Hwv Hwv' H. cbn [interp_sov] in H.
        destruct v as [| b | s | s | n | es | l | l].
        * cbn [tw] in Htw. subst v'. injection H as <- <-. same_out.
        * cbn [tw] in Htw. subst v'. injection H as <- <-. same_out.
        * cbn [tw] in Htw. destruct Htw as [-> | (Hc' & Hw' & Hden)].
          -- exact (Hi (VStr s) (VStr s) st r st1 (tw_refl _) I I H).
          -- rewrite (Hden _ _ _ _ H) in *. exists v', st. split; [|split; [apply tw_refl | exact (st_le_sub _ _ (Si _ _ _ _ H))]].
             destruct (closed_top _ Hc') as [X1 X2]. destruct v'; try discriminate; reflexivity.
        * cbn [tw] in Htw. subst v'. injection H as <- <-. same_out.
        * cbn [tw] in Htw. subst v'. injection H as <- <-. same_out.
        * pose proof Htw as Htw0. apply tw_map_iff in Htw as (es' & -> & Hes). injection H as <- <-. same_out.
        * pose proof Htw as Htw0. apply tw_seq_iff in Htw as (l' & -> & Hl). injection H as <- <-. same_out.
        * apply tw_list_iff in Htw as (l' & -> & Hl). cbn [interp_sov].
          destruct (sov_loop (interp f root) st l) as [i| | |] eqn:E; cbn [bind] in H; try discriminate.
          destruct (sov_loop_sim f Hi _ _ _ _ Hl (proj1 (wf_list_iff _) Hwv) (proj1 (wf_list_iff _) Hwv') E) as (i' & E' & Hii & Hns).
          rewrite E'. cbn [bind].
          destruct (flattened (current_key st) (VList i)) as [r0| | |] eqn:Ef; cbn [bind] in H; try discriminate. injection H as <- <-.
          rewrite flattened_vlist in *.
          destruct (flat_fold_tw _ _ _ _ _ _ Hii Hns (tw_refl VNull) Ef) as (r0' & Ef' & Hr0). rewrite Ef'. cbn [bind].
          exists r0', st. split; [reflexivity | split; [exact Hr0 | apply st_sub_refl]].
      + (* interp_while *)
        intros v v' st r st1 Htw Hwv Hwv' H. cbn [interp_while] in *.
        destruct (is_string v || is_vlist v) eqn:Ef.
        * destruct (interp f root v st) as [[v1 s1]| | |] eqn:E; cbn [bind] in H; try discriminate.
          assert (Hgen : is_string v' || is_vlist v' = true ->
                         exists r' st1', (if is_string v' || is_vlist v' then '(x, sx) <- interp f root' v' st ;; interp_while f root' x sx else Ok (v', st)) = Ok (r', st1') /\ tw r r' /\ st_sub st1' st1).
          { intros Ef'. rewrite Ef'. destruct (Hi _ _ _ _ _ Htw Hwv Hwv' E) as (v1' & s1' & E' & Hv1 & Hs1). rewrite E'. cbn [bind].
            destruct (Pi _ _ _ _ Hwv E) as [_ Hw1]. destruct (Pi' _ _ _ _ Hwv' E') as [_ Hw1'].
            destruct (Hw _ _ _ _ _ Hv1 Hw1 Hw1' H) as (r' & sx & Ex & Hrr & Hsx).
            destruct (Dw _ _ _ _ _ Ex Hs1) as (sx' & Ex' & Hsx'). exists r', sx'. split; [exact Ex'|]. split; [exact Hrr|].
            exact (st_sub_trans _ _ _ Hsx' Hsx). }
          destruct v as [| b | s | s | n | es | l | l]; try discriminate.
          -- cbn [tw] in Htw. destruct Htw as [-> | (Hc' & Hw' & Hden)]; [apply Hgen; reflexivity|].
             rewrite (Hden _ _ _ _ E) in *. destruct (closed_top _ Hc') as [X1 X2]. rewrite X1, X2. cbn [orb].
             destruct f as [|f0]; [discriminate|]. cbn [interp_while] in H. rewrite X1, X2 in H. cbn [orb] in H. injection H as <- <-.
             exists v', st. split; [reflexivity | split; [apply tw_refl | exact (st_le_sub _ _ (Si _ _ _ _ E))]].
          -- pose proof Htw as Htw0. apply tw_list_iff in Htw0 as (l' & -> & _). apply Hgen. reflexivity.
        * injection H as <- <-. apply Bool.orb_false_iff in Ef as [E1 E2].
          rewrite (tw_is_string_false _ _ Htw E1), (tw_is_vlist _ _ Htw), E2. cbn [orb].
          exists v', st. split; [reflexivity | split; [exact Htw | apply st_sub_refl]].
      + (* interp_while_str *)
        intros v v' st r st1 Htw Hwv Hwv' H. cbn [interp_while_str] in *.
        destruct (is_string v) eqn:Ef.
        * destruct (interp f root v st) as [[v1 s1]| | |] eqn:E; cbn [bind] in H; try discriminate.
          destruct v as [| b | s | s | n | es | l | l]; try discriminate.
          cbn [tw] in Htw. destruct Htw as [-> | (Hc' & Hw' & Hden)].
          -- cbn [is_string]. destruct (Hi _ _ _ _ _ (tw_refl (VStr s)) I I E) as (v1' & s1' & E' & Hv1 & Hs1). rewrite E'. cbn [bind].
             destruct (Pi _ _ _ _ Hwv E) as [_ Hw1]. destruct (Pi' _ _ _ _ Hwv' E') as [_ Hw1'].
             destruct (Hws _ _ _ _ _ Hv1 Hw1 Hw1' H) as (r' & sx & Ex & Hrr & Hsx).
             destruct (Dws _ _ _ _ _ Ex Hs1) as (sx' & Ex' & Hsx'). exists r', sx'. split; [exact Ex'|]. split; [exact Hrr|].
             exact (st_sub_trans _ _ _ Hsx' Hsx).
          -- rewrite (Hden _ _ _ _ E) in *. destruct (closed_top _ Hc') as [X1 X2]. rewrite X1.
             destruct f as [|f0]; [discriminate|]. cbn [interp_while_str] in H. rewrite X1 in H. injection H as <- <-.
             exists v', st. split; [reflexivity | split; [apply tw_refl | exact (st_le_sub _ _ (Si _ _ _ _ E))]].
        * injection H as <- <-. rewrite (tw_is_string_false _ _ Htw Ef).
          exists v', st. split; [reflexivity | split; [exact Htw | apply st_sub_refl]].
  Qed.

  (** the twin renders, with the same fuel, to the same parameters *)
  Theorem twin_renders_the_same f r :
    render_with_self f (VMap root) = Ok r -> render_with_self f (VMap root') = Ok r.
  Proof.
    cbn [render_with_self]. unfold rendered. intros H.
    destruct (interp f root (VMap root) st0) as [[v s1]| | |] eqn:E; cbn [map_err bind] in H; try discriminate.
    assert (Ht : tw (VMap root) (VMap root')) by (apply tw_map_iff; exists root'; split; [reflexivity | exact Hrt]).
    destruct (proj1 (sim_facts f) _ _ _ _ _ Ht Hroot Hroot' E) as (v' & s1' & E' & Hv & _).
    destruct (interp_closed _ _ _ _ _ _ Hroot Hroot E) as [Hc _]. rewrite <- (tw_closed_eq _ _ Hc Hv) in E'.
    rewrite E'. cbn [map_err bind]. exact (flattened_ck _ _ _ _ H).
  Qed.

  (** ... and so does every value rendered against it, at every state *)
  Theorem twin_value_renders_the_same f v v' st r st1 :
    tw v v' -> wf v -> wf v' -> interp f root v st = Ok (r, st1) -> exists st1', interp f root' v' st = Ok (r, st1').
  Proof.
    intros Ht Hw Hw' H. destruct (proj1 (sim_facts f) _ _ _ _ _ Ht Hw Hw' H) as (r' & s1' & E' & Hr & _).
    destruct (interp_closed _ _ _ _ _ _ Hroot Hw H) as [Hc _]. rewrite <- (tw_closed_eq _ _ Hc Hr) in E'. exists s1'. exact E'.
  Qed.

  (** a reference string stands for whatever it renders to, in any one render *)
  Lemma denotes_of_render s f st w st1 : interp f root (VStr s) st = Ok (w, st1) -> denotes (VStr s) w.
  Proof.
    intros H. assert (Hws : wf (VStr s)) by exact I. destruct (interp_closed _ _ _ _ _ _ Hroot Hws H) as [Hc Hw]. split; [exact Hc | split; [exact Hw|]].
    intros f2 st2 r2 st3 H2. exact (interp_result_unique root (VStr s) _ _ _ _ _ _ _ _ H2 H).
  Qed.
End Twin.

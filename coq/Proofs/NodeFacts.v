(* The include walk and node rendering (Model/Node.v): read_class and the ignore settings (C16),
   each class merged at most once / include loops / termination (C01), no panics (C11). *)
From RV Require Import Model.Node Proofs.ListsFacts Proofs.NamesFacts Proofs.ValueFacts Proofs.MappingFacts Proofs.WfFacts
     Proofs.InterpFacts Proofs.NoPanic Proofs.YamlFacts Proofs.SemiClean.

(** * read_class (C16) *)
Lemma find_class_name n tbl ce : find_class n tbl = Some ce -> ce_name ce = n /\ In ce tbl.
Proof.
  induction tbl as [|x tbl IH]; cbn [find_class]; [discriminate|].
  destruct (String.eqb_spec (ce_name x) n) as [E|E].
  - intros H; injection H as <-. split; [assumption | now left].
  - intros H. destruct (IH H). split; [assumption | now right].
Qed.

(** a missing class that is not ignored fails, naming the (absolute) class *)
Lemma read_class_missing_fails cfg tbl loc name :
  find_class (abs_class_name loc name) tbl = None ->
  c_ignore cfg && mem (abs_class_name loc name) (c_matches cfg) = false ->
  read_class cfg tbl loc name = Err (EClassNotFound (abs_class_name loc name)).
Proof. intros H1 H2. unfold read_class. now rewrite H1, H2. Qed.

(** a missing class that is ignored is skipped: no node, no error *)
Lemma read_class_missing_ignored cfg tbl loc name :
  find_class (abs_class_name loc name) tbl = None ->
  c_ignore cfg = true -> mem (abs_class_name loc name) (c_matches cfg) = true ->
  read_class cfg tbl loc name = Ok None.
Proof. intros H1 H2 H3. unfold read_class. now rewrite H1, H2, H3. Qed.

(** existing classes are never skipped, whatever the flag and the patterns *)
Lemma read_class_existing_never_skipped cfg tbl loc name ce :
  find_class (abs_class_name loc name) tbl = Some ce ->
  read_class cfg tbl loc name <> Ok None /\
  forall cfg', read_class cfg' tbl loc name = read_class cfg tbl loc name.
Proof.
  intros H. unfold read_class. rewrite H. split; [|reflexivity].
  destruct (node_of_yaml (ce_loc ce) (ce_doc ce)); cbn; discriminate.
Qed.

(** with the flag off nothing is ever ignored *)
Lemma flag_off_never_ignores cfg tbl loc name :
  c_ignore cfg = false -> read_class cfg tbl loc name <> Ok None.
Proof.
  intros Hf. unfold read_class. destruct (find_class (abs_class_name loc name) tbl).
  - destruct (node_of_yaml (ce_loc c) (ce_doc c)); cbn; discriminate.
  - rewrite Hf. cbn. discriminate.
Qed.

(** * no panics (C11) *)
Definition clean_doc (doc : yaml) : Prop :=
  match doc with
  | YMap fields => match y_field "parameters" fields with Some y => sclean_yaml y | None => True end
  | _ => True
  end.

Lemma y_string_list_no_panic what o s : y_string_list what o <> Panic s.
Proof.
  unfold y_string_list. destruct o as [y|]; [|discriminate]. destruct y; try discriminate.
  destruct (y_strings l); discriminate.
Qed.

Lemma node_of_yaml_no_panic loc doc s : node_of_yaml loc doc <> Panic s.
Proof.
  unfold node_of_yaml. destruct doc as [| | | | | fields |]; try discriminate.
  pose proof (y_string_list_no_panic "applications" (y_field "applications" fields) s).
  destruct (y_string_list "applications" (y_field "applications" fields)); cbn [bind]; try congruence.
  pose proof (y_string_list_no_panic "classes" (y_field "classes" fields) s).
  destruct (y_string_list "classes" (y_field "classes" fields)); cbn [bind]; try congruence.
  destruct (y_field "parameters" fields) as [y|]; [destruct y as [| | | | | pm |]|]; cbn [bind]; try discriminate.
  unfold try_mapping_of_yaml. destruct (try_value_no_panic (YMap pm) s) as [H1 _].
  destruct (try_value_of_yaml (YMap pm)) as [v| | |]; cbn [bind]; try congruence. destruct v; discriminate.
Qed.

Lemma node_of_yaml_wf loc doc n : clean_doc doc -> node_of_yaml loc doc = Ok n -> wf (VMap (n_params n)).
Proof.
  unfold node_of_yaml, clean_doc. destruct doc as [| | | | | fields |]; try discriminate. intros Hc.
  destruct (y_string_list "applications" (y_field "applications" fields)); cbn [bind]; try discriminate.
  destruct (y_string_list "classes" (y_field "classes" fields)); cbn [bind]; try discriminate.
  destruct (y_field "parameters" fields) as [y|].
  - destruct y as [| | | | | pm |]; cbn [bind]; try discriminate.
    unfold try_mapping_of_yaml. destruct (try_value_of_yaml (YMap pm)) as [v| | |] eqn:Ev; cbn [bind]; try discriminate.
    pose proof (try_value_wf_gen (YMap pm) v Hc Ev) as Hv.
    destruct v; try discriminate. intros H; injection H as <-. exact Hv.
  - cbn [bind]. intros H; injection H as <-. cbn. repeat split; constructor.
Qed.

Definition clean_table (tbl : list cls_entry) : Prop := Forall (fun ce => clean_doc (ce_doc ce)) tbl.

Lemma read_class_facts cfg tbl loc name :
  clean_table tbl ->
  (forall s, read_class cfg tbl loc name <> Panic s) /\
  (forall n, read_class cfg tbl loc name = Ok (Some n) -> wf (VMap (n_params n))).
Proof.
  intros Ht. unfold read_class. destruct (find_class (abs_class_name loc name) tbl) as [ce|] eqn:F.
  - apply find_class_name in F as [_ Hin]. unfold clean_table in Ht. rewrite Forall_forall in Ht. specialize (Ht ce Hin).
    split.
    + intros s. pose proof (node_of_yaml_no_panic (ce_loc ce) (ce_doc ce) s).
      destruct (node_of_yaml (ce_loc ce) (ce_doc ce)); cbn; congruence.
    + intros n. destruct (node_of_yaml (ce_loc ce) (ce_doc ce)) eqn:E; cbn; try discriminate.
      intros H; injection H as <-. eapply node_of_yaml_wf; eauto.
  - destruct (c_ignore cfg && mem (abs_class_name loc name) (c_matches cfg)); split; try discriminate; intros; discriminate.
Qed.

Lemma merge_into_facts self other :
  wf (VMap (n_params self)) -> wf (VMap (n_params other)) ->
  (forall s, merge_into self other <> Panic s) /\
  (forall a b, merge_into self other = Ok (a, b) -> wf (VMap (n_params a)) /\ wf (VMap (n_params b))).
Proof.
  intros Hs Ho. unfold merge_into.
  destruct (merge_total (n_params self) (n_params other)) as [[m E] | [k E]]; rewrite E; cbn [bind].
  - split; [discriminate|]. intros a b H; injection H as <- <-. cbn [n_params].
    pose proof (mapping_merge_wf _ _ _ Ho Hs E). split; assumption.
  - split; [discriminate | intros; discriminate].
Qed.

Lemma include_name_no_panic fi params c s : wf (VMap params) -> include_name fi params c <> Panic s.
Proof.
  intros Hw. unfold include_name. destruct (contains c "${"); [|discriminate].
  destruct (token_parse c); try discriminate.
  pose proof (proj1 (proj2 (proj2 (no_panic_facts params Hw fi))) t st0 s) as Hr.
  destruct (token_render fi params t st0) as [[v st]| | |]; cbn [bind]; try congruence.
  apply raw_string_no_panic.
Qed.

Section Walk.
Variables (fi : nat) (cfg : ncfg) (tbl : list cls_entry).
Hypothesis Htbl : clean_table tbl.

Definition walker_ok (recur : walker) : Prop :=
  forall cn seen loading root, wf (VMap (n_params cn)) -> wf (VMap (n_params root)) ->
    (forall s, recur cn seen loading root <> Panic s) /\
    (forall self' seen' root', recur cn seen loading root = Ok (self', seen', root') ->
       wf (VMap (n_params self')) /\ wf (VMap (n_params root'))).

Lemma include_loop_facts recur self_loc loading : walker_ok recur -> forall cs seen root,
  wf (VMap (n_params root)) ->
  (forall s, include_loop fi cfg tbl recur self_loc loading cs seen root <> Panic s) /\
  (forall seen' root', include_loop fi cfg tbl recur self_loc loading cs seen root = Ok (seen', root') ->
     wf (VMap (n_params root'))).
Proof.
  intros Hrec. induction cs as [|c cs IHcs]; intros seen root Hr; cbn [include_loop].
  - split; [discriminate | intros ? ? H; injection H as <- <-; exact Hr].
  - pose proof (include_name_no_panic fi (n_params root) c) as Hin.
    destruct (include_name fi (n_params root) c) as [name0| |p|]; cbn [bind];
      try (split; [discriminate | intros; discriminate]).
    2:{ exfalso. exact (Hin p Hr eq_refl). }
    destruct (mem (abs_class_name self_loc name0) seen); [apply IHcs, Hr|].
    destruct (mem (abs_class_name self_loc name0) loading); [split; [discriminate | intros; discriminate]|].
    destruct (read_class_facts cfg tbl self_loc (abs_class_name self_loc name0) Htbl) as [Hrp Hrw].
    destruct (read_class cfg tbl self_loc (abs_class_name self_loc name0)) as [[cn|]| |p|] eqn:Erc; cbn [bind];
      try (split; [discriminate | intros; discriminate]).
    + destruct (Hrec cn seen (loading ++ [abs_class_name self_loc name0]) root (Hrw cn eq_refl) Hr) as [Hp Hw].
      destruct (recur cn seen (loading ++ [abs_class_name self_loc name0]) root) as [[[c' seen1] root1]| |p|] eqn:Er; cbn [bind];
        try (split; [discriminate | intros; discriminate]).
      * apply IHcs. apply (proj2 (Hw _ _ _ eq_refl)).
      * exfalso. exact (Hp p eq_refl).
    + apply IHcs, Hr.
    + exfalso. exact (Hrp p eq_refl).
Qed.

(** the include walk never panics and keeps the accumulated parameters well-formed *)
Lemma render_impl_facts : forall f, walker_ok (render_impl f fi cfg tbl).
Proof.
  induction f as [|f IH]; intros self seen loading root Hs Hr; [split; [discriminate | intros; discriminate]|].
  cbn [render_impl].
  destruct (include_loop_facts (render_impl f fi cfg tbl) (n_loc self) loading IH (n_classes self) seen root Hr) as [Gp Gw].
  destruct (include_loop fi cfg tbl (render_impl f fi cfg tbl) (n_loc self) loading (n_classes self) seen root)
    as [[seen' root']| |p|] eqn:Eg; cbn [bind]; try (split; [discriminate | intros; discriminate]).
  2:{ exfalso. exact (Gp p eq_refl). }
  destruct (merge_into_facts self root' Hs (Gw _ _ eq_refl)) as [Mp Mw].
  destruct (merge_into self root') as [[a b]| |p|] eqn:Em; cbn [bind]; try (split; [discriminate | intros; discriminate]).
  2:{ exfalso. exact (Mp p eq_refl). }
  split; [discriminate|]. intros ? ? ? H; injection H as <- <- <-. apply (Mw _ _ eq_refl).
Qed.

End Walk.

Lemma wf_strs l : wf (VSeq (map VStr l)).
Proof. apply wf_seq_iff. induction l; constructor; [exact I | assumption]. Qed.

Lemma as_reclass_wf cfg meta rc : as_reclass cfg meta = Ok rc -> wf (VMap rc).
Proof.
  unfold as_reclass. destruct (m_parts meta) as [|p0 ps]; [discriminate|]. intros H; injection H as <-.
  set (parts := if c_compose cfg && c_literal_dots cfg then split_on "." (m_name meta)
                else if starts_with_underscore p0 then [last_seg (p0 :: ps)] else p0 :: ps).
  apply wf_map_iff. split; [|split].
  - cbn. repeat constructor; cbn; intuition discriminate.
  - cbn. repeat constructor.
  - constructor; [exact I|]. constructor; [|constructor]. cbn [e_val mk_entry fst snd].
    apply wf_map_iff. split; [|split].
    + cbn. repeat constructor; cbn; intuition discriminate.
    + cbn. repeat constructor.
    + repeat constructor; cbn [e_val mk_entry fst snd]; try exact I. apply wf_strs.
Qed.

(** C11: rendering a node of an inventory whose files have clean keys never panics *)
Theorem node_render_no_panic f fi cfg tbl n meta s :
  clean_table tbl -> wf (VMap (n_params n)) -> node_render f fi cfg tbl n meta <> Panic s.
Proof.
  intros Ht Hn. unfold node_render.
  destruct (as_reclass cfg meta) as [rc| | |] eqn:Er; cbn [bind]; try discriminate.
  2:{ unfold as_reclass in Er. destruct (m_parts meta); discriminate. }
  pose proof (as_reclass_wf _ _ _ Er) as Hrc.
  assert (Hp0 : m_insert [] (VStr "_reclass_") (VMap rc) = Ok [mk_entry (VStr "_reclass_") (VMap rc) false false]) by reflexivity.
  rewrite Hp0. cbn [bind].
  assert (Hb : wf (VMap [mk_entry (VStr "_reclass_") (VMap rc) false false])).
  { apply wf_map_iff. split; [cbn; repeat constructor; cbn; tauto | split; [cbn; repeat constructor | constructor; [exact Hrc | constructor]]]. }
  set (base := {| n_apps := r_empty; n_classes := n_classes n; n_params := [mk_entry (VStr "_reclass_") (VMap rc) false false]; n_loc := [] |}).
  assert (He : wf (VMap (n_params empty_node))) by (cbn; repeat split; constructor).
  destruct (render_impl_facts fi cfg tbl Ht f base [] [] empty_node Hb He) as [Hp Hw].
  destruct (render_impl f fi cfg tbl base [] [] empty_node) as [[[base1 seen1] root1]| | |] eqn:E1; cbn [bind];
    try (specialize (Hp s); congruence).
  destruct (Hw _ _ _ eq_refl) as [Hb1 _].
  destruct (merge_into_facts n base1 Hn Hb1) as [Mp Mw].
  destruct (merge_into n base1) as [[n1 b1]| | |] eqn:Em; cbn [bind]; try (specialize (Mp s); congruence).
  destruct (Mw _ _ eq_refl) as [Hn1 _]. unfold render_params.
  pose proof (render_with_self_no_panic fi (VMap (n_params n1)) s Hn1).
  destruct (render_with_self fi (VMap (n_params n1))) as [v| | |]; cbn [bind]; try congruence.
  destruct v; discriminate.
Qed.

Theorem render_node_no_panic f fi cfg root ntbl ctbl name s :
  clean_table ctbl -> Forall (fun ne => clean_doc (ne_doc ne)) ntbl ->
  render_node f fi cfg root ntbl ctbl name <> Panic s.
Proof.
  intros Hc Hn. unfold render_node. destruct (find_node name ntbl) as [ne|] eqn:F; [|discriminate].
  assert (Hin : In ne ntbl).
  { clear - F. induction ntbl as [|x l IH]; cbn [find_node] in F; [discriminate|].
    destruct (String.eqb (ne_name x) name); [injection F as <-; now left | right; auto]. }
  rewrite Forall_forall in Hn. specialize (Hn ne Hin).
  pose proof (node_of_yaml_no_panic [] (ne_doc ne) s).
  destruct (node_of_yaml [] (ne_doc ne)) as [n| | |] eqn:E; cbn [bind]; try congruence.
  pose proof (node_of_yaml_wf _ _ _ Hn E) as Hw.
  match goal with |- context [node_render f fi cfg ctbl n ?m] => pose proof (node_render_no_panic f fi cfg ctbl n m s Hc Hw) as Hr;
    destruct (node_render f fi cfg ctbl n m); cbn [bind]; congruence end.
Qed.

(** * C01: each class is merged at most once; include loops; the walk always returns *)
Definition disjoint (a b : list string) : Prop := forall x, In x a -> ~ In x b.

Definition walker_once (recur : walker) : Prop :=
  forall cn seen loading root c' seen' root',
    recur cn seen loading root = Ok (c', seen', root') ->
    NoDup seen -> disjoint seen loading ->
    (exists new, seen' = seen ++ new) /\ NoDup seen' /\ disjoint seen' loading.

Lemma include_loop_once fi cfg tbl recur self_loc loading : walker_once recur -> forall cs seen root seen' root',
  include_loop fi cfg tbl recur self_loc loading cs seen root = Ok (seen', root') ->
  NoDup seen -> disjoint seen loading ->
  (exists new, seen' = seen ++ new) /\ NoDup seen' /\ disjoint seen' loading.
Proof.
  intros Hrec. induction cs as [|c cs IH]; intros seen root seen' root' H Hnd Hdj; cbn [include_loop] in H.
  - injection H as <- <-. split; [exists []; now rewrite app_nil_r | split; assumption].
  - destruct (include_name fi (n_params root) c) as [name0| | |]; cbn [bind] in H; try discriminate.
    set (name := abs_class_name self_loc name0) in *.
    destruct (mem name seen) eqn:Es; [eapply IH; eauto|].
    destruct (mem name loading) eqn:El; [discriminate|].
    destruct (read_class cfg tbl self_loc name) as [[cn|]| | |]; cbn [bind] in H; try discriminate; [|eapply IH; eauto].
    destruct (recur cn seen (loading ++ [name]) root) as [[[c' seen1] root1]| | |] eqn:Er; cbn [bind] in H; try discriminate.
    apply mem_false in Es, El.
    assert (Hdj1 : disjoint seen (loading ++ [name])).
    { intros x Hx Hin. apply in_app_iff in Hin as [Hin|[<-|[]]]; [eapply Hdj; eauto | tauto]. }
    destruct (Hrec _ _ _ _ _ _ _ Er Hnd Hdj1) as ((new1 & ->) & Hnd1 & Hdj2).
    assert (Hn1 : ~ In name (seen ++ new1)).
    { intros Hin. apply (Hdj2 name Hin). apply in_or_app. right. now left. }
    destruct (IH _ _ _ _ H) as ((new2 & ->) & Hnd3 & Hdj3).
    + apply NoDup_snoc; assumption.
    + intros x Hx Hin. apply in_app_iff in Hx as [Hx|[<-|[]]]; [|tauto].
      apply (Hdj2 x Hx). apply in_or_app. now left.
    + split; [exists (new1 ++ [name] ++ new2); now rewrite !app_assoc | split; assumption].
Qed.

Lemma render_impl_once fi cfg tbl : forall f, walker_once (render_impl f fi cfg tbl).
Proof.
  induction f as [|f IH]; intros self seen loading root c' seen' root' H Hnd Hdj; cbn [render_impl] in H; [discriminate|].
  destruct (include_loop fi cfg tbl (render_impl f fi cfg tbl) (n_loc self) loading (n_classes self) seen root)
    as [[seen1 root1]| | |] eqn:E; cbn [bind] in H; try discriminate.
  destruct (merge_into self root1) as [[a b]| | |]; cbn [bind] in H; try discriminate.
  injection H as _ <- _. eapply include_loop_once; eauto.
Qed.

(** the list of merged classes of a rendered node has no duplicates: every class is merged the
    first time it is reached and never again *)
Theorem classes_merged_once f fi cfg tbl self c' seen' root' :
  render_impl f fi cfg tbl self [] [] empty_node = Ok (c', seen', root') -> NoDup seen'.
Proof.
  intros H. destruct (render_impl_once fi cfg tbl f _ _ _ _ _ _ _ H) as (_ & Hnd & _); [constructor | intros x [] | exact Hnd].
Qed.

(** a class that (transitively) includes itself is an error naming the loop, not a hang *)
Theorem include_loop_reported fi cfg tbl recur self_loc loading c cs seen root name0 :
  include_name fi (n_params root) c = Ok name0 ->
  mem (abs_class_name self_loc name0) seen = false ->
  mem (abs_class_name self_loc name0) loading = true ->
  include_loop fi cfg tbl recur self_loc loading (c :: cs) seen root =
    Err (EIncludeLoop loading (abs_class_name self_loc name0)).
Proof. intros H1 H2 H3. cbn [include_loop]. rewrite H1. cbn [bind]. now rewrite H2, H3. Qed.

(** the walk always returns: with fuel beyond the number of classes it never runs out, as long as
    rendering the include names does not *)
Definition names (tbl : list cls_entry) : list string := map ce_name tbl.

Lemma find_class_names n tbl ce : find_class n tbl = Some ce -> In n (names tbl).
Proof. intros H. apply find_class_name in H as [<- Hin]. unfold names. now apply in_map. Qed.

Lemma node_of_yaml_loc loc doc n : node_of_yaml loc doc = Ok n -> n_loc n = loc.
Proof.
  unfold node_of_yaml. destruct doc as [| | | | | fields |]; try discriminate.
  destruct (y_string_list "applications" (y_field "applications" fields)); cbn [bind]; try discriminate.
  destruct (y_string_list "classes" (y_field "classes" fields)); cbn [bind]; try discriminate.
  destruct (match y_field "parameters" fields with
            | None => Ok (YMap []) | Some (YMap m) => Ok (YMap m) | Some _ => Err (EYamlShape "parameters") end) as [pd| | |];
    cbn [bind]; try discriminate.
  destruct (try_mapping_of_yaml pd); cbn [bind]; try discriminate. intros H; injection H as <-. reflexivity.
Qed.

Lemma node_of_yaml_no_fuel loc doc : node_of_yaml loc doc <> OutOfFuel.
Proof.
  unfold node_of_yaml. destruct doc as [| | | | | fields |]; try discriminate.
  assert (Y : forall what o, y_string_list what o <> OutOfFuel).
  { intros what o. unfold y_string_list. destruct o as [y|]; [|discriminate]. destruct y; try discriminate. destruct (y_strings l); discriminate. }
  pose proof (Y "applications" (y_field "applications" fields)).
  destruct (y_string_list "applications" (y_field "applications" fields)); cbn [bind]; try congruence.
  pose proof (Y "classes" (y_field "classes" fields)).
  destruct (y_string_list "classes" (y_field "classes" fields)); cbn [bind]; try congruence.
  destruct (y_field "parameters" fields) as [y|]; [destruct y as [| | | | | pm |]|]; cbn [bind]; try discriminate.
  unfold try_mapping_of_yaml. destruct (try_value_no_panic (YMap pm) PStackOverflow) as [_ H1].
  destruct (try_value_of_yaml (YMap pm)) as [v| | |]; cbn [bind]; try congruence. destruct v; discriminate.
Qed.

Definition loc_ok (loc : list string) : Prop := Forall (fun s => s <> "" /\ no_leading_dot s) loc.

Section Terminates.
Variables (fi : nat) (cfg : ncfg) (tbl : list cls_entry).
Hypothesis Hinc : forall params c, include_name fi params c <> OutOfFuel.
Hypothesis Hloc : Forall (fun ce => loc_ok (ce_loc ce)) tbl.

Definition walker_fuel (recur : walker) (budget : nat) : Prop :=
  forall cn seen loading root,
    loc_ok (n_loc cn) -> NoDup loading -> incl loading (names tbl) ->
    List.length (names tbl) - List.length loading < budget ->
    recur cn seen loading root <> OutOfFuel.

Lemma include_loop_fuel recur budget self_loc loading :
  walker_fuel recur budget -> loc_ok self_loc -> NoDup loading -> incl loading (names tbl) ->
  List.length (names tbl) - List.length loading <= budget ->
  forall cs seen root, include_loop fi cfg tbl recur self_loc loading cs seen root <> OutOfFuel.
Proof.
  intros Hrec Hsl Hnd Hincl Hb. induction cs as [|c cs IH]; intros seen root; cbn [include_loop]; [discriminate|].
  pose proof (Hinc (n_params root) c).
  destruct (include_name fi (n_params root) c) as [name0| | |]; cbn [bind]; try congruence; try discriminate.
  set (name := abs_class_name self_loc name0).
  destruct (mem name seen); [apply IH|].
  destruct (mem name loading) eqn:El; [discriminate|].
  unfold read_class. assert (Eabs : abs_class_name self_loc name = name) by (apply abs_idempotent, Hsl).
  rewrite Eabs. destruct (find_class name tbl) as [ce|] eqn:F.
  - pose proof (node_of_yaml_no_fuel (ce_loc ce) (ce_doc ce)) as Hnf.
    destruct (node_of_yaml (ce_loc ce) (ce_doc ce)) as [cn| | |] eqn:En; cbn [map_err bind]; try discriminate; try congruence.
    apply mem_false in El.
    assert (Hin : In name (names tbl)) by (eapply find_class_names; eauto).
    assert (Hnd' : NoDup (loading ++ [name])) by (apply NoDup_snoc; assumption).
    assert (Hincl' : incl (loading ++ [name]) (names tbl)).
    { intros x Hx. apply in_app_iff in Hx as [Hx|[<-|[]]]; [apply Hincl, Hx | exact Hin]. }
    assert (Hlen : List.length (loading ++ [name]) <= List.length (names tbl)) by (apply NoDup_incl_length; assumption).
    rewrite app_length in Hlen. cbn [List.length] in Hlen.
    assert (Hcl : loc_ok (n_loc cn)).
    { rewrite (node_of_yaml_loc _ _ _ En). apply find_class_name in F as [_ Hce]. rewrite Forall_forall in Hloc. apply Hloc, Hce. }
    assert (Hr : recur cn seen (loading ++ [name]) root <> OutOfFuel).
    { apply Hrec; try assumption. rewrite app_length. cbn [List.length]. lia. }
    destruct (recur cn seen (loading ++ [name]) root) as [[[c' seen1] root1]| | |]; cbn [bind]; try congruence; try discriminate.
  - destruct (c_ignore cfg && mem name (c_matches cfg)); cbn [bind]; [apply IH | discriminate].
Qed.

Lemma render_impl_fuel : forall f, walker_fuel (render_impl f fi cfg tbl) f.
Proof.
  induction f as [|f IH]; intros self seen loading root Hl Hnd Hincl Hb; [lia|].
  cbn [render_impl].
  pose proof (include_loop_fuel (render_impl f fi cfg tbl) f (n_loc self) loading IH Hl Hnd Hincl ltac:(lia) (n_classes self) seen root) as Hlp.
  destruct (include_loop fi cfg tbl (render_impl f fi cfg tbl) (n_loc self) loading (n_classes self) seen root)
    as [[seen' root']| | |]; cbn [bind]; try congruence; try discriminate.
  unfold merge_into. destruct (merge_total (n_params self) (n_params root')) as [[m ->] | [k ->]]; cbn [bind]; discriminate.
Qed.

(** the include walk returns for every include graph, cyclic ones included *)
Theorem include_walk_returns self seen root :
  loc_ok (n_loc self) ->
  render_impl (S (List.length tbl)) fi cfg tbl self seen [] root <> OutOfFuel.
Proof.
  intros Hl. apply render_impl_fuel; [exact Hl | constructor | intros x [] |].
  unfold names. rewrite map_length. cbn [List.length]. lia.
Qed.

End Terminates.

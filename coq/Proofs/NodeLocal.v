(* C12 "rendering one node never influences another": what render_node returns for a node depends
   on the node table only through that node's own entry, and on the class table only through the
   lookup of class names -- other nodes, and the order of either table, are irrelevant. *)
From RV Require Import Model.Node.

Lemma read_class_ext cfg tbl tbl' : (forall c, find_class c tbl = find_class c tbl') ->
  forall loc name, read_class cfg tbl loc name = read_class cfg tbl' loc name.
Proof. intros H loc name. unfold read_class. now rewrite H. Qed.

Lemma include_loop_ext fi cfg tbl tbl' (recur recur' : walker) :
  (forall c, find_class c tbl = find_class c tbl') ->
  (forall cn seen loading root, recur cn seen loading root = recur' cn seen loading root) ->
  forall loc loading cs seen root,
    include_loop fi cfg tbl recur loc loading cs seen root = include_loop fi cfg tbl' recur' loc loading cs seen root.
Proof.
  intros Ht Hr loc loading. induction cs as [|c cs IH]; intros seen root; cbn [include_loop]; [reflexivity|].
  destruct (include_name fi (n_params root) c) as [name0| | |]; cbn [bind]; try reflexivity.
  destruct (mem (abs_class_name loc name0) seen); [apply IH|].
  destruct (mem (abs_class_name loc name0) loading); [reflexivity|].
  rewrite (read_class_ext cfg tbl tbl' Ht). destruct (read_class cfg tbl' loc (abs_class_name loc name0)) as [[cn|]| | |]; cbn [bind]; try reflexivity.
  - rewrite Hr. destruct (recur' cn seen (loading ++ [abs_class_name loc name0]) root) as [[[x seen1] root1]| | |]; cbn [bind]; try reflexivity. apply IH.
  - apply IH.
Qed.

Lemma render_impl_ext fi cfg tbl tbl' : (forall c, find_class c tbl = find_class c tbl') ->
  forall f self seen loading root, render_impl f fi cfg tbl self seen loading root = render_impl f fi cfg tbl' self seen loading root.
Proof.
  intros Ht. induction f as [|f IH]; intros self seen loading root; cbn [render_impl]; [reflexivity|].
  rewrite (include_loop_ext fi cfg tbl tbl' _ (render_impl f fi cfg tbl') Ht IH). reflexivity.
Qed.

Theorem node_render_ext f fi cfg tbl tbl' n meta :
  (forall c, find_class c tbl = find_class c tbl') -> node_render f fi cfg tbl n meta = node_render f fi cfg tbl' n meta.
Proof.
  intros Ht. unfold node_render. destruct (as_reclass cfg meta) as [rc| | |]; cbn [bind]; try reflexivity.
  destruct (m_insert [] (VStr "_reclass_") (VMap rc)) as [p0| | |]; cbn [bind]; try reflexivity.
  now rewrite (render_impl_ext fi cfg tbl tbl' Ht).
Qed.

(** a node's render reads the node table through the node's own entry and the class table through
    class lookup only *)
Theorem render_node_is_local f fi cfg root ntbl ntbl' ctbl ctbl' name :
  find_node name ntbl = find_node name ntbl' -> (forall c, find_class c ctbl = find_class c ctbl') ->
  render_node f fi cfg root ntbl ctbl name = render_node f fi cfg root ntbl' ctbl' name.
Proof.
  intros Hn Hc. unfold render_node. rewrite Hn. destruct (find_node name ntbl') as [ne|]; [|reflexivity].
  destruct (node_of_yaml [] (ne_doc ne)) as [n| | |]; cbn [bind]; try reflexivity.
  now rewrite (node_render_ext f fi cfg ctbl ctbl' n _ Hc).
Qed.

(** in particular: adding, removing or changing OTHER nodes changes nothing *)
Corollary other_nodes_do_not_matter f fi cfg root ntbl ctbl name e :
  ne_name e <> name ->
  render_node f fi cfg root (e :: ntbl) ctbl name = render_node f fi cfg root ntbl ctbl name.
Proof.
  intros Hne. apply render_node_is_local; [|reflexivity]. cbn [find_node].
  destruct (String.eqb (ne_name e) name) eqn:E; [apply String.eqb_eq in E; contradiction | reflexivity].
Qed.

(* C18, the metadata of a rendered node as a function of how it was discovered: node, name, uri
   and environment of every NodeInfo that render_node returns; the parts handed to the
   `_reclass_` parameter for a node file discovered at dirs/stem.ext. *)
From RV Require Import Model.Names Model.Node Proofs.NamesFacts Proofs.NamesRule Proofs.MetaFacts.

(** Whatever render_node returns for [name] carries that name as node and name, the uri of the
    node's own file below the nodes directory, and the base environment. *)
Theorem rendered_node_metadata f fi cfg root ntbl ctbl name ni :
  render_node f fi cfg root ntbl ctbl name = Ok ni ->
  exists ne, find_node name ntbl = Some ne /\
    ni_node ni = name /\ ni_name ni = name /\ ni_env ni = "base"%string /\
    ni_uri ni = ("yaml_fs://" ++ root ++ "/" ++ join "/" (ne_path ne))%string.
Proof.
  unfold render_node. destruct (find_node name ntbl) as [ne|]; [|discriminate]. intros H.
  exists ne. split; [reflexivity|].
  destruct (node_of_yaml [] (ne_doc ne)) as [n| | |]; try discriminate. cbn [bind] in H.
  match type of H with bind ?X _ = _ => destruct X as [n'| | |]; try discriminate end.
  cbn [bind] in H. injection H as <-. cbn. repeat split; reflexivity.
Qed.

(** the path of a node file without its extension: the segments below the nodes directory *)
Theorem parts_of_a_discovered_node dirs stem ext :
  stem <> ""%string -> yaml_extension ext ->
  strip_ext_path (dirs ++ [(stem ++ "." ++ ext)%string]) = dirs ++ [stem].
Proof.
  intros Hs He. destruct (yaml_extension_facts ext He) as (Hn & Hl & _).
  unfold strip_ext_path. rewrite rev_app_distr. cbn [rev app].
  now rewrite (split_ext_stem stem ext Hs Hn Hl), rev_involutive.
Qed.

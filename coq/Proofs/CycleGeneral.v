(* C08: no placement of a reference cycle can end in a value.  [forces v k]: rendering [v] to a
   value requires rendering the reference ${k} (a whole-value reference, a reference embedded in
   text, or either of them inside a list, a mapping or a layer of a multiply-defined value).  If
   every path of a set (a parameter k, or a member k:a:b reached through plain mappings) holds a
   value that forces a reference to a path of the set, none of them -- and nothing that forces
   one of them -- ever renders to a value; with termination and the no-panic theorem: it
   renders to an error from some fuel on. *)
From RV Require Import Model.Interp Proofs.ValueFacts Proofs.MappingFacts Proofs.WfFacts Proofs.InterpFacts
     Proofs.StateIndep Proofs.Mono Proofs.NoPanic Proofs.Termination Proofs.CycleFacts.

Definition not_ok {A} (r : res A) : Prop := match r with Ok _ => False | _ => True end.

Section General.
  Variable root : mapping.
  Hypothesis Hroot : wf (VMap root).
  Variable ks : list string.

  (** a reference whose path -- a literal, or assembled from nested references -- is a path of the set *)
  Definition cyc_parts (parts : list token) : Prop :=
    exists f0 st0 path, token_slice f0 root parts st0 = Ok path /\ In path ks.

  Definition cyc_ref (t : token) : Prop :=
    match t with TRef parts => cyc_parts parts | _ => False end.

  Definition forces_tok (t : token) : Prop :=
    match t with
    | TRef parts => cyc_parts parts
    | TComb ts => Exists cyc_ref ts
    | _ => False
    end.

  Lemma cyc_parts_lit k : In k ks -> cyc_parts [TLit k].
  Proof.
    intros Hk. exists 2, st0, k. split; [|exact Hk]. cbn [token_slice slice_loop].
    cbn [token_resolve bind interp_while_str is_string is_mapping is_sequence orb raw_string]. now rewrite str_app_nil_r.
  Qed.

  (** the assembled path does not depend on fuel or state *)
  Lemma slice_unique parts f1 s1 p1 f2 s2 p2 :
    token_slice f1 root parts s1 = Ok p1 -> token_slice f2 root parts s2 = Ok p2 -> p1 = p2.
  Proof.
    intros H1 H2.
    assert (G1 : token_slice (Nat.max f1 f2) root parts s1 = Ok p1) by (apply (fm_slice root f1 _ (Nat.le_max_l _ _) parts s1 _ H1); discriminate).
    assert (G2 : token_slice (Nat.max f1 f2) root parts s2 = Ok p2) by (apply (fm_slice root f2 _ (Nat.le_max_r _ _) parts s2 _ H2); discriminate).
    exact (proj1 (proj2 (proj2 (proj2 (proj2 (indep_facts root (Nat.max f1 f2)))))) parts s1 s2 p1 p2 G1 G2).
  Qed.

  Fixpoint forces (v : value) : Prop :=
    match v with
    | VStr s => exists t, token_parse s = Parsed t /\ forces_tok t
    | VSeq l | VList l =>
        (fix go (l : list value) : Prop := match l with [] => False | x :: l' => forces x \/ go l' end) l
    | VMap es =>
        (fix go (es : list entry) : Prop := match es with [] => False | (_, x, _, _) :: es' => forces x \/ go es' end) es
    | _ => False
    end.

  Lemma forces_seq l : forces (VSeq l) <-> Exists forces l.
  Proof.
    cbn [forces]. induction l as [|x l IH]; split; intros H; try contradiction.
    - inversion H.
    - destruct H as [H|H]; [now left | right; now apply IH].
    - inversion H; subst; [now left | right; now apply IH].
  Qed.
  Lemma forces_list l : forces (VList l) <-> Exists forces l.
  Proof. exact (forces_seq l). Qed.
  Lemma forces_map es : forces (VMap es) <-> Exists (fun e => forces (e_val e)) es.
  Proof.
    cbn [forces]. induction es as [|[[[k x] c] o] es IH]; split; intros H; try contradiction.
    - inversion H.
    - destruct H as [H|H]; [now left | right; now apply IH].
    - inversion H; subst; [now left | right; now apply IH].
  Qed.

  (** the member at a segment list, through plain (unrendered) mappings only *)
  Fixpoint raw_lookup (segs : list string) (v : value) : option value :=
    match segs with
    | [] => Some v
    | k :: segs' =>
        match v with
        | VMap m => match m_get (VStr k) m with Some v1 => raw_lookup segs' v1 | None => None end
        | _ => None
        end
    end.

  (** [wwalk segs v]: a walk along [segs] starting at [v] cannot end in a value without a
      reference into the set being rendered.  Through a plain mapping it goes on at the member;
      a reference string met on the way has to be rendered first (so it must force); a
      multiply-defined value either has a layer that is a forcing reference string, or -- no
      string layer at all -- is flattened and the walk goes on in the merged mapping; at the end
      of the path the value found must force.  Where the walk fails anyway (no such member, a
      lookup into a scalar or a list, a merge conflict) nothing is required: no value comes out. *)
  Fixpoint wwalk (segs : list string) (v : value) : Prop :=
    match segs with
    | [] => forces v
    | k :: rest =>
        match v with
        | VMap m => match m_get (VStr k) m with Some v1 => wwalk rest v1 | None => True end
        | VStr _ => forces v
        | VList l =>
            Exists (fun x => is_string x = true /\ forces x) l \/
            (Forall (fun x => is_string x = false) l /\
             match flattened "" (VList l) with
             | Ok (VMap m) => match m_get (VStr k) m with Some v1 => wwalk rest v1 | None => True end
             | _ => True
             end)
        | _ => True
        end
    end.

  Lemma raw_wwalk : forall segs v v', raw_lookup segs v = Some v' -> forces v' -> wwalk segs v.
  Proof.
    induction segs as [|k segs IH]; intros v v' H Hf; cbn [raw_lookup wwalk] in *.
    - injection H as <-. exact Hf.
    - destruct v as [| | | | | m | |]; try discriminate.
      destruct (m_get (VStr k) m) as [v1|]; [|discriminate]. exact (IH _ _ H Hf).
  Qed.

  (** every path of the set, walked from the parameters, ends in -- or passes through -- a value
      that forces a reference into the set *)
  Hypothesis Hcyc : forall p, In p ks ->
    exists k0 segs v0, split_on ":" p = k0 :: segs /\ m_get (VStr k0) root = Some v0 /\ wwalk segs v0.

  Lemma sov_loop_nostr_id call st : forall l, Forall (fun x => is_string x = false) l -> sov_loop call st l = Ok l.
  Proof.
    induction l as [|x l IH]; intros H; cbn [sov_loop]; [reflexivity|]. inversion H as [|? ? Hx Hl]; subst.
    rewrite Hx. cbn [bind]. rewrite (IH Hl). reflexivity.
  Qed.

  Lemma sov_loop_not_ok call st : forall l,
    Exists (fun x => is_string x = true /\ forall s, not_ok (call x s)) l -> not_ok (sov_loop call st l).
  Proof.
    induction l as [|x l IH]; intros H; [inversion H|]. cbn [sov_loop].
    inversion H as [? ? [Hs Hx] | ? ? Hl]; subst.
    - rewrite Hs. specialize (Hx st). destruct (call x st) as [[y s1]| | |]; cbn [bind]; try exact I. contradiction.
    - specialize (IH Hl). destruct (if is_string x then '(y, _) <- call x st ;; Ok y else Ok x); cbn [bind]; try exact I.
      destruct (sov_loop call st l); cbn [bind]; try exact I. contradiction.
  Qed.

  (** a walk that comes back with a value comes back with one that forces *)
  Lemma walk_forced f path :
    (forall f', f' < f -> forall v st, forces v -> not_ok (interp f' root v st)) ->
    forall segs v st trav, wwalk segs v ->
    match walk_loop (interp_sov f root) path segs v st trav with
    | Ok (w, _) => forces w
    | _ => True
    end.
  Proof.
    intros IHi. induction segs as [|key segs IH]; intros v st trav H; cbn [wwalk walk_loop] in *; [exact H|].
    destruct f as [|f']; [exact I|].
    destruct v as [| b | s | s | n | m | l | l]; cbn [interp_sov bind]; try exact I.
    - (* a reference string on the way *)
      pose proof (IHi f' ltac:(lia) (VStr s) st H) as Hn.
      destruct (interp f' root (VStr s) st) as [[newv s1]| | |]; cbn [bind]; try exact I. contradiction.
    - destruct (m_get (VStr key) m) as [v1|]; [apply IH, H | exact I].
    - (* a multiply-defined value on the way *)
      destruct H as [Hex | (Hns & Hfl)].
      + assert (G : not_ok (sov_loop (interp f' root) st l)).
        { apply sov_loop_not_ok. eapply Exists_impl; [|exact Hex]. intros x (Hs & Hx). split; [exact Hs|].
          intros s0. apply IHi; [lia | exact Hx]. }
        destruct (sov_loop (interp f' root) st l); cbn [bind]; try exact I. contradiction.
      + rewrite (sov_loop_nostr_id _ _ _ Hns). cbn [bind].
        destruct (flattened (current_key st) (VList l)) as [w| | |] eqn:Ef; cbn [bind]; try exact I.
        rewrite (flattened_ck _ "" _ _ Ef) in Hfl.
        destruct w as [| wb | ws | ws | wn | wm | wl | wl]; try exact I.
        destruct (m_get (VStr key) wm) as [v1|]; [apply IH, Hfl | exact I].
  Qed.

  Lemma walk_raw f path : forall segs v st trav v',
    raw_lookup segs v = Some v' ->
    match walk_loop (interp_sov f root) path segs v st trav with
    | Ok (w, st') => w = v' /\ st' = st
    | _ => True
    end.
  Proof.
    induction segs as [|key segs IH]; intros v st trav v' H; cbn [raw_lookup walk_loop] in *.
    - injection H as <-. split; reflexivity.
    - destruct v as [| | | | | m | |]; try discriminate.
      destruct (m_get (VStr key) m) as [v1|] eqn:G; [|discriminate].
      destruct f as [|f']; [exact I|]. cbn [interp_sov bind]. rewrite G. apply IH, H.
  Qed.

  (** the loops stop being Ok as soon as one callee is not *)
  Lemma seq_loop_not_ok call st : forall l idx,
    Exists (fun x => forall s, not_ok (call x s)) l -> not_ok (seq_loop call st l idx).
  Proof.
    induction l as [|x l IH]; intros idx H; [inversion H|]. cbn [seq_loop].
    destruct (call x (push_list_index st idx)) as [[e s1]| | |] eqn:E; cbn [bind]; try exact I.
    inversion H as [? ? Hx | ? ? Hl]; subst.
    - specialize (Hx (push_list_index st idx)). rewrite E in Hx. contradiction.
    - specialize (IH (S idx) Hl). destruct (seq_loop call st l (S idx)); cbn [bind]; try exact I. contradiction.
  Qed.

  Lemma vlist_loop_not_ok call st : forall l r,
    Exists (fun x => forall s, not_ok (call x s)) l -> not_ok (vlist_loop call st l r).
  Proof.
    induction l as [|x l IH]; intros r H; [inversion H|]. cbn [vlist_loop].
    destruct (call x st) as [[iv s1]| | |] eqn:E; cbn [bind]; try exact I.
    inversion H as [? ? Hx | ? ? Hl]; subst.
    - specialize (Hx st). rewrite E in Hx. contradiction.
    - destruct (value_merge (current_key s1) r iv); cbn [bind]; try exact I. apply IH, Hl.
  Qed.

  Lemma map_loop_not_ok call st : forall es acc,
    Exists (fun e => forall s, not_ok (call (e_val e) s)) es -> not_ok (map_loop call st es acc).
  Proof.
    induction es as [|[[[k v] c] o] es IH]; intros acc H; [inversion H|]. cbn [map_loop].
    destruct (push_mapping_key st k) as [s1| | |]; cbn [bind]; try exact I.
    destruct (call v s1) as [[v' s2]| | |] eqn:E; cbn [bind]; try exact I.
    inversion H as [? ? Hx | ? ? Hl]; subst.
    - cbn [e_val fst snd] in Hx. specialize (Hx s1). rewrite E in Hx. contradiction.
    - destruct (flattened (current_key s2) v'); cbn [bind]; try exact I.
      destruct (insert_impl acc k a c o); cbn [bind]; try exact I. apply IH, Hl.
  Qed.

  Definition NV (F : nat) : Prop :=
    (forall v st, forces v -> not_ok (interp F root v st)) /\
    (forall t st, forces_tok t -> not_ok (token_render F root t st)).

  Lemma never_value_all : forall F, NV F.
  Proof.
    induction F as [F IH] using lt_wf_ind.
    assert (IHi : forall f, f < F -> forall v st, forces v -> not_ok (interp f root v st)) by (intros f Hf; exact (proj1 (IH f Hf))).
    assert (IHr : forall f, f < F -> forall t st, forces_tok t -> not_ok (token_render f root t st)) by (intros f Hf; exact (proj2 (IH f Hf))).
    (* a reference into the set, resolved: either not a value, or a value that still forces *)
    assert (Hres : forall f, f < F -> forall parts st, cyc_parts parts ->
              match token_resolve f root (TRef parts) st with
              | Ok (v, _) => forces v /\ is_string v = false /\ is_vlist v = false
              | _ => True
              end).
    { intros f Hf parts st (f0 & s0 & p0 & Hp0 & Hk).
      destruct f as [|f2]; [exact I|]. cbn [token_resolve].
      destruct (Nat.ltb RESOLVE_MAX_DEPTH (depth (with_depth st (S (depth st))))); [exact I|].
      destruct (token_slice f2 root parts (with_depth st (S (depth st)))) as [k| | |] eqn:Esl; cbn [bind]; try exact I.
      assert (k = p0) by exact (slice_unique parts _ _ _ _ _ _ Esl Hp0). subst k.
      destruct (Hcyc p0 Hk) as (k0 & segs & v0 & Hsplit & Hget & Hww).
      destruct (mem p0 (seen (with_depth st (S (depth st))))); [exact I|].
      rewrite Hsplit, Hget.
      assert (IHi2 : forall f', f' < f2 -> forall v st, forces v -> not_ok (interp f' root v st)) by (intros f' Hf'; apply IHi; lia).
      pose proof (walk_forced f2 p0 IHi2 segs v0 (add_seen (with_depth st (S (depth st))) p0) [k0] Hww) as Hwalk.
      destruct (walk_loop (interp_sov f2 root) p0 segs v0 (add_seen (with_depth st (S (depth st))) p0) [k0]) as [[w st3]| | |]; cbn [bind]; try exact I.
      rename Hwalk into Hfv.
      destruct f2 as [|f3]; [exact I|]. cbn [interp_while].
      destruct (is_string w || is_vlist w) eqn:Eb.
      - pose proof (IHi f3 ltac:(lia) w st3 Hfv) as Hn.
        destruct (interp f3 root w st3) as [[c sx]| | |]; cbn [bind]; try exact I. contradiction.
      - apply Bool.orb_false_elim in Eb as [Es El]. split; [exact Hfv | split; assumption]. }
    split.
    - (* values *)
      intros v st Hv. destruct F as [|f]; [exact I|]. cbn [interp].
      destruct v as [| b | s | s | n | es | l | l]; try (exfalso; exact Hv).
      + destruct Hv as (t & -> & Ht). apply IHr; [lia | exact Ht].
      + destruct f as [|f']; [exact I|]. cbn [mapping_interp].
        assert (G : not_ok (map_loop (interp f' root) st es [])).
        { apply map_loop_not_ok. apply forces_map in Hv. eapply Exists_impl; [|exact Hv]. intros e He s0. apply IHi; [lia | exact He]. }
        destruct (map_loop (interp f' root) st es []); cbn [bind]; try exact I. contradiction.
      + assert (G : not_ok (seq_loop (interp f root) st l 0)).
        { apply seq_loop_not_ok. apply forces_seq in Hv. eapply Exists_impl; [|exact Hv]. intros x Hx s0. apply IHi; [lia | exact Hx]. }
        destruct (seq_loop (interp f root) st l 0); cbn [bind]; try exact I. contradiction.
      + assert (G : not_ok (vlist_loop (interp f root) st l VNull)).
        { apply vlist_loop_not_ok. apply forces_list in Hv. eapply Exists_impl; [|exact Hv]. intros x Hx s0. apply IHi; [lia | exact Hx]. }
        destruct (vlist_loop (interp f root) st l VNull); cbn [bind]; try exact I. contradiction.
    - (* tokens *)
      intros t st Ht. destruct F as [|f1]; [exact I|]. cbn [token_render].
      destruct t as [s | parts | ts]; [destruct Ht | |].
      + (* a whole-value reference into the set *)
        pose proof (Hres f1 ltac:(lia) parts st Ht) as Hr.
        destruct (token_resolve f1 root (TRef parts) st) as [[v s1]| | |]; cbn [bind]; try exact I.
        destruct Hr as (Hfv & _). apply IHi; [lia | exact Hfv].
      + (* text with a reference into the set *)
        assert (G : not_ok (token_resolve f1 root (TComb ts) st)).
        { destruct f1 as [|f2]; [exact I|]. cbn [token_resolve].
          assert (G2 : not_ok (token_slice f2 root ts st)).
          { destruct f2 as [|f3]; [exact I|]. cbn [token_slice].
            clear - Ht Hres IHi. induction ts as [|t ts IHts]; [inversion Ht|]. cbn [slice_loop].
            destruct (token_resolve f3 root t st) as [[v s1]| | |] eqn:Er; cbn [bind]; try exact I.
            inversion Ht as [? ? Hc | ? ? Hl]; subst.
            - destruct t as [s | parts | ts']; try (exfalso; exact Hc).
              pose proof (Hres f3 ltac:(lia) parts st Hc) as Hr. rewrite Er in Hr. destruct Hr as (Hfv & Hs & Hl).
              destruct f3 as [|f4]; [discriminate|]. cbn [interp_while_str]. rewrite Hs. cbn [bind].
              destruct (is_mapping v || is_sequence v) eqn:Ec.
              + pose proof (IHi (S f4) ltac:(lia) v s1 Hfv) as Hn.
                destruct (interp (S f4) root v s1) as [[v'' s3]| | |]; cbn [bind]; try exact I. contradiction.
              + exfalso. destruct v; cbn in Hfv, Hs, Hl, Ec; try contradiction; discriminate.
            - destruct (interp_while_str f3 root v s1) as [[v' s2]| | |]; cbn [bind]; try exact I.
              destruct (if is_mapping v' || is_sequence v' then interp f3 root v' s2 else Ok (v', s2)) as [[v'' s3]| | |]; cbn [bind]; try exact I.
              destruct (raw_string v''); cbn [bind]; try exact I.
              specialize (IHts Hl). destruct (slice_loop (token_resolve f3 root) (interp_while_str f3 root) (interp f3 root) st ts); cbn [bind]; try exact I.
              contradiction. }
          destruct (token_slice f2 root ts st); cbn [bind]; try exact I. contradiction. }
        destruct (token_resolve f1 root (TComb ts) st) as [[v s1]| | |]; cbn [bind]; try exact I. contradiction.
  Qed.

  (** nothing that forces a reference into the set renders to a value: from some fuel on it
      renders to one and the same error *)
  Theorem forcing_a_cycle_is_an_error v st :
    wf v -> forces v ->
    exists F0 e, forall F, F0 <= F -> interp F root v st = Err e.
  Proof.
    intros Hw Hf. destruct (interp_total root Hroot v st Hw) as (F0 & r & Hn & H).
    pose proof (proj1 (never_value_all F0) v st Hf) as Hnv. rewrite (H F0 (Nat.le_refl _)) in Hnv.
    destruct r as [[v' s']| e | p |]; cbn [not_ok] in Hnv; try contradiction.
    - exists F0, e. exact H.
    - exfalso. exact (interp_no_panic F0 root v st p Hroot Hw (H F0 (Nat.le_refl _))).
  Qed.
End General.

(** the special case of paths reached through plain mappings only *)
Corollary forcing_a_cycle_is_an_error_raw root (Hroot : wf (VMap root)) ks :
  (forall p, In p ks ->
     exists k0 segs v0 v', split_on ":" p = k0 :: segs /\ m_get (VStr k0) root = Some v0 /\
                           raw_lookup segs v0 = Some v' /\ forces root ks v') ->
  forall v st, wf v -> forces root ks v -> exists F0 e, forall F, F0 <= F -> interp F root v st = Err e.
Proof.
  intros Hc. apply (forcing_a_cycle_is_an_error root Hroot ks).
  intros p Hp. destruct (Hc p Hp) as (k0 & segs & v0 & v' & H1 & H2 & H3 & H4).
  exists k0, segs, v0. split; [exact H1 | split; [exact H2 | exact (raw_wwalk root ks segs v0 v' H3 H4)]].
Qed.

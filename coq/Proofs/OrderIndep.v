(* C03 "the result does not depend on the order in which parameters are written": the
   interpreter reads the parameters only through key lookup, so two parameter mappings with the
   same lookup function render everything alike, and rendering a permutation of the parameters
   yields the same permutation of the rendered parameters -- every key holds the same value. *)
From Coq Require Import Permutation.
From RV Require Import Model.Interp Proofs.ValueFacts Proofs.MappingFacts Proofs.WfFacts Proofs.InterpFacts.

Definition cb_eq {A B} (c c' : A -> rstate -> res B) : Prop := forall v st, c v st = c' v st.

Lemma seq_loop_ext call call' : cb_eq call call' -> forall s st idx, seq_loop call st s idx = seq_loop call' st s idx.
Proof.
  intros H. induction s as [|x s IH]; intros st idx; cbn [seq_loop]; [reflexivity|].
  rewrite (H x). destruct (call' x (push_list_index st idx)) as [[e s1]| | |]; cbn [bind]; try reflexivity. now rewrite IH.
Qed.

Lemma vlist_loop_ext call call' : cb_eq call call' -> forall l st r, vlist_loop call st l r = vlist_loop call' st l r.
Proof.
  intros H. induction l as [|x l IH]; intros st r; cbn [vlist_loop]; [reflexivity|].
  rewrite (H x). destruct (call' x st) as [[iv s1]| | |]; cbn [bind]; try reflexivity.
  destruct (value_merge (current_key s1) r iv); cbn [bind]; try reflexivity. apply IH.
Qed.

Lemma map_loop_ext call call' : cb_eq call call' -> forall es st acc, map_loop call st es acc = map_loop call' st es acc.
Proof.
  intros H. induction es as [|[[[k v] c] o] es IH]; intros st acc; cbn [map_loop]; [reflexivity|].
  destruct (push_mapping_key st k) as [s1| | |]; cbn [bind]; try reflexivity.
  rewrite (H v). destruct (call' v s1) as [[v' s2]| | |]; cbn [bind]; try reflexivity.
  destruct (flattened (current_key s2) v') as [fv| | |]; cbn [bind]; try reflexivity.
  destruct (insert_impl acc k fv c o); cbn [bind]; try reflexivity. apply IH.
Qed.

Lemma walk_loop_ext sov sov' path : cb_eq sov sov' -> forall segs v st trav,
  walk_loop sov path segs v st trav = walk_loop sov' path segs v st trav.
Proof.
  intros H. induction segs as [|key segs IH]; intros v st trav; cbn [walk_loop]; [reflexivity|].
  rewrite (H v). destruct (sov' v st) as [[newv s1]| | |]; cbn [bind]; try reflexivity.
  destruct newv as [| b | s | s | n | es | l | l]; try reflexivity. destruct (m_get (VStr key) es); [apply IH | reflexivity].
Qed.

Lemma sov_loop_ext call call' : cb_eq call call' -> forall l st, sov_loop call st l = sov_loop call' st l.
Proof.
  intros H. induction l as [|x l IH]; intros st; cbn [sov_loop]; [reflexivity|].
  rewrite (H x), IH. reflexivity.
Qed.

Lemma slice_loop_ext (resolve resolve' : token -> rstate -> res (value * rstate)) ws ws' call call' :
  cb_eq resolve resolve' -> cb_eq ws ws' -> cb_eq call call' ->
  forall ts st, slice_loop resolve ws call st ts = slice_loop resolve' ws' call' st ts.
Proof.
  intros H1 H2 H3. induction ts as [|t ts IH]; intros st; cbn [slice_loop]; [reflexivity|].
  rewrite (H1 t). destruct (resolve' t st) as [[v s1]| | |]; cbn [bind]; try reflexivity.
  rewrite (H2 v). destruct (ws' v s1) as [[v' s2]| | |]; cbn [bind]; try reflexivity.
  rewrite (H3 v'). rewrite IH. reflexivity.
Qed.

Section Ext.
  Variables root root' : mapping.
  Hypothesis Hget : forall k, m_get (VStr k) root = m_get (VStr k) root'.

  Definition E_all f :=
    cb_eq (interp f root) (interp f root') /\
    cb_eq (mapping_interp f root) (mapping_interp f root') /\
    cb_eq (token_render f root) (token_render f root') /\
    cb_eq (token_resolve f root) (token_resolve f root') /\
    cb_eq (token_slice f root) (token_slice f root') /\
    cb_eq (interp_sov f root) (interp_sov f root') /\
    cb_eq (interp_while f root) (interp_while f root') /\
    cb_eq (interp_while_str f root) (interp_while_str f root').

  Lemma ext_facts : forall f, E_all f.
  Proof.
    induction f as [|f (Hi & Hm & Hr & Hs & Hsl & Hv & Hw & Hws)].
    - unfold E_all, cb_eq. repeat split; intros; reflexivity.
    - split; [|split; [|split; [|split; [|split; [|split; [|split]]]]]]; intros v st.
      + cbn [interp]. destruct v as [| b | s | s | n | es | l | l]; try reflexivity.
        * destruct (token_parse s); try reflexivity. apply Hr.
        * now rewrite (Hm es st).
        * now rewrite (seq_loop_ext _ _ Hi).
        * rewrite (vlist_loop_ext _ _ Hi). destruct (vlist_loop (interp f root') st l VNull); cbn [bind]; try reflexivity. apply Hi.
      + cbn [mapping_interp]. apply (map_loop_ext _ _ Hi).
      + cbn [token_render]. destruct v as [s | ts | ts]; rewrite (Hs _ st);
          destruct (token_resolve f root' _ st) as [[x s1]| | |]; cbn [bind]; try reflexivity. apply Hi.
      + cbn [token_resolve]. destruct v as [s | parts | ts]; try reflexivity.
        * destruct (Nat.ltb RESOLVE_MAX_DEPTH (depth (with_depth st (S (depth st))))); [reflexivity|].
          rewrite (Hsl parts). destruct (token_slice f root' parts (with_depth st (S (depth st)))) as [path| | |]; cbn [bind]; try reflexivity.
          destruct (mem path (seen (with_depth st (S (depth st))))); [reflexivity|].
          destruct (split_on ":" path) as [|k0 segs]; [reflexivity|]. rewrite Hget.
          destruct (m_get (VStr k0) root') as [v0|]; [|reflexivity].
          rewrite (walk_loop_ext _ _ path Hv).
          destruct (walk_loop (interp_sov f root') path segs v0 (add_seen (with_depth st (S (depth st))) path) [k0]) as [[x s3]| | |];
            cbn [bind]; try reflexivity. apply Hw.
        * now rewrite (Hsl ts).
      + cbn [token_slice]. apply (slice_loop_ext _ _ _ _ _ _ Hs Hws Hi).
      + cbn [interp_sov]. destruct v as [| b | s | s | n | es | l | l]; try reflexivity.
        * apply Hi.
        * now rewrite (sov_loop_ext _ _ Hi).
      + cbn [interp_while]. destruct (is_string v || is_vlist v); [|reflexivity].
        rewrite (Hi v). destruct (interp f root' v st) as [[x s1]| | |]; cbn [bind]; try reflexivity. apply Hw.
      + cbn [interp_while_str]. destruct (is_string v); [|reflexivity].
        rewrite (Hi v). destruct (interp f root' v st) as [[x s1]| | |]; cbn [bind]; try reflexivity. apply Hws.
  Qed.

  Theorem interp_root_ext f v st : interp f root v st = interp f root' v st.
  Proof. exact (proj1 (ext_facts f) v st). Qed.
End Ext.

(** * lookup in a permutation *)
Lemma m_find_perm k : forall m m', NoDup (keys m) -> Permutation m m' -> m_find k m = m_find k m'.
Proof.
  intros m m' Hnd Hp. induction Hp as [|e m m' Hp IH | e1 e2 m | m m2 m3 Hp1 IH1 Hp2 IH2].
  - reflexivity.
  - cbn [m_find]. destruct (value_eqb (e_key e) k); [reflexivity|]. apply IH. now inversion Hnd.
  - cbn [m_find]. destruct (value_eqb (e_key e2) k) eqn:E2, (value_eqb (e_key e1) k) eqn:E1; try reflexivity.
    apply value_eqb_eq in E1, E2. exfalso. inversion Hnd as [|? ? Hn _]; subst. apply Hn. cbn [keys map]. left. congruence.
  - rewrite IH1 by exact Hnd. apply IH2. unfold keys in *. eapply Permutation_NoDup; [apply Permutation_map; exact Hp1 | exact Hnd].
Qed.

Lemma m_get_perm k m m' : NoDup (keys m) -> Permutation m m' -> m_get k m = m_get k m'.
Proof. intros Hnd Hp. unfold m_get. now rewrite (m_find_perm k m m' Hnd Hp). Qed.

(** * a mapping renders entry by entry *)
Fixpoint mapM {A B} (g : A -> res B) (l : list A) : res (list B) :=
  match l with
  | [] => Ok []
  | x :: l' => y <- g x ;; r <- mapM g l' ;; Ok (y :: r)
  end.

Lemma mapM_perm {A B} (g : A -> res B) : forall l l' r,
  Permutation l l' -> mapM g l = Ok r -> exists r', mapM g l' = Ok r' /\ Permutation r r'.
Proof.
  intros l l' r Hp. revert r. induction Hp as [|x l l' Hp IH | x y l | l l2 l3 Hp1 IH1 Hp2 IH2]; intros r H.
  - exists r. split; [exact H | apply Permutation_refl].
  - cbn [mapM] in *. destruct (g x) as [b| | |]; cbn [bind] in *; try discriminate.
    destruct (mapM g l) as [r0| | |]; cbn [bind] in *; try discriminate. injection H as <-.
    destruct (IH r0 eq_refl) as (r' & E & P). rewrite E. cbn [bind]. exists (b :: r'). split; [reflexivity | now constructor].
  - cbn [mapM] in *. destruct (g y) as [b| | |]; cbn [bind] in *; try discriminate.
    destruct (g x) as [a| | |]; cbn [bind] in *; try discriminate.
    destruct (mapM g l) as [r0| | |]; cbn [bind] in *; try discriminate. injection H as <-.
    exists (a :: b :: r0). split; [reflexivity | constructor].
  - destruct (IH1 r H) as (r2 & E2 & P2). destruct (IH2 r2 E2) as (r3 & E3 & P3).
    exists r3. split; [exact E3 | exact (Permutation_trans P2 P3)].
Qed.

Section Order.
  Variable root : mapping.
  Hypothesis Hroot : wf (VMap root).

  (** one entry of Mapping::interpolate *)
  Definition ent (f : nat) (s : rstate) (e : entry) : res entry :=
    s1 <- push_mapping_key s (e_key e) ;;
    '(v', _) <- interp f root (e_val e) s1 ;;
    Ok (mk_entry (e_key e) v' (e_const e) (e_over e)).

  Lemma ent_key f s e e' : ent f s e = Ok e' -> e_key e' = e_key e.
  Proof.
    unfold ent. destruct (push_mapping_key s (e_key e)) as [s1| | |]; cbn [bind]; try discriminate.
    destruct (interp f root (e_val e) s1) as [[v' s2]| | |]; cbn [bind]; try discriminate. intros H; injection H as <-. reflexivity.
  Qed.

  Lemma mapM_ent_keys f s : forall es es', mapM (ent f s) es = Ok es' -> keys es' = keys es.
  Proof.
    induction es as [|e es IH]; intros es' H; cbn [mapM] in H.
    - injection H as <-. reflexivity.
    - destruct (ent f s e) as [e'| | |] eqn:E; cbn [bind] in H; try discriminate.
      destruct (mapM (ent f s) es) as [r| | |]; cbn [bind] in H; try discriminate. injection H as <-.
      cbn [keys map]. rewrite (ent_key _ _ _ _ E). f_equal. exact (IH r eq_refl).
  Qed.

  Lemma map_loop_mapM f s : forall es acc,
    Forall (fun e => wf (e_val e)) es -> Forall unmarked (keys es) -> NoDup (keys acc ++ keys es) ->
    forall m', map_loop (interp f root) s es acc = Ok m' <-> exists es', mapM (ent f s) es = Ok es' /\ m' = acc ++ es'.
  Proof.
    induction es as [|[[[k v] c] o] es IH]; intros acc Hw Hum Hnd m'; cbn [map_loop mapM].
    - split; [intros H; injection H as <-; exists []; split; [reflexivity | now rewrite app_nil_r]
             | intros (es' & H & ->); injection H as <-; now rewrite app_nil_r].
    - inversion Hw as [|? ? Hwv Hws]; subst. inversion Hum as [|? ? Hk Hks]; subst. cbn [e_key e_val fst snd] in *.
      assert (Eu : ent f s (k, v, c, o) = (s1 <- push_mapping_key s k ;; '(v', _) <- interp f root v s1 ;; Ok (mk_entry k v' c o))) by reflexivity.
      rewrite Eu. clear Eu.
      destruct (push_mapping_key s k) as [s1| | |] eqn:Ep; cbn [bind];
        try (split; [discriminate | intros (es' & H & _); discriminate]).
      destruct (interp f root v s1) as [[v' s2]| | |] eqn:E; cbn [bind];
        try (split; [discriminate | intros (es' & H & _); discriminate]).
      destruct (interp_closed _ _ _ _ _ _ Hroot Hwv E) as [Hc Hwv'].
      rewrite (flattened_closed_id _ v' Hc Hwv'). cbn [bind].
      assert (Hins : insert_impl acc k v' c o = Ok (acc ++ [mk_entry k v' c o])).
      { destruct (unmarked_stripped k Hk) as [Es Em]. rewrite insert_absent; [now rewrite Es, Em|].
        rewrite Es. apply m_find_none_keys. cbn [keys map e_key fst] in Hnd. apply NoDup_remove_2 in Hnd.
        intros Hin. apply Hnd, in_or_app. now left. }
      rewrite Hins. cbn [bind].
      assert (Hnd' : NoDup (keys (acc ++ [mk_entry k v' c o]) ++ keys es)).
      { unfold keys in *. rewrite map_app, <- app_assoc. exact Hnd. }
      rewrite (IH (acc ++ [mk_entry k v' c o]) Hws Hks Hnd' m'). split.
      + intros (es' & H & ->). rewrite H. cbn [bind]. exists (mk_entry k v' c o :: es'). split; [reflexivity | now rewrite <- app_assoc].
      + intros (es' & H & ->). destruct (mapM _ es) as [r| | |]; cbn [bind] in H; try discriminate. injection H as <-.
        exists r. split; [reflexivity | now rewrite <- app_assoc].
  Qed.

  (** rendering the parameters written in another order gives the rendered parameters in that
      order; every key holds the same value *)
  Theorem render_is_order_independent f root' r :
    Permutation root root' ->
    render_with_self f (VMap root) = Ok r ->
    exists m m', r = VMap m /\ render_with_self f (VMap root') = Ok (VMap m') /\
                 Permutation m m' /\ forall k, m_get k m = m_get k m'.
  Proof.
    intros Hp H. pose proof Hroot as Hw. apply wf_map_iff in Hw as (Hnd & Hum & Hv).
    assert (Hroot' : wf (VMap root')).
    { apply wf_map_iff. split; [|split].
      - unfold keys in *. eapply Permutation_NoDup; [apply Permutation_map; exact Hp | exact Hnd].
      - eapply Permutation_Forall; [apply Permutation_map; exact Hp | exact Hum].
      - eapply Permutation_Forall; [exact Hp | exact Hv]. }
    pose proof Hroot' as Hw'. apply wf_map_iff in Hw' as (Hnd' & Hum' & Hv').
    assert (Hget : forall k, m_get (VStr k) root = m_get (VStr k) root') by (intros k; exact (m_get_perm _ _ _ Hnd Hp)).
    cbn [render_with_self] in *. unfold rendered in *.
    destruct (interp f root (VMap root) st0) as [[v' s1]| | |] eqn:E; cbn [map_err bind] in H; try discriminate.
    destruct (interp_closed _ _ _ _ _ _ Hroot Hroot E) as [Hc Hwr].
    rewrite (flattened_closed_id _ v' Hc Hwr) in H. injection H as <-.
    destruct f as [|[|f2]]; try discriminate. cbn [interp mapping_interp] in E.
    destruct (map_loop (interp f2 root) st0 root []) as [m| | |] eqn:Em; cbn [bind] in E; try discriminate. injection E as <- <-.
    apply (map_loop_mapM f2 st0 root [] Hv Hum Hnd m) in Em as (es & Hes & ->). cbn [app] in *.
    destruct (mapM_perm _ _ _ _ Hp Hes) as (es2 & Hes2 & Pe).
    exists es, es2. split; [reflexivity|].
    assert (E2 : interp (S (S f2)) root' (VMap root') st0 = Ok (VMap es2, st0)).
    { rewrite <- (interp_root_ext root root' Hget). cbn [interp mapping_interp].
      assert (X : map_loop (interp f2 root) st0 root' [] = Ok es2).
      { apply (map_loop_mapM f2 st0 root' [] Hv' Hum' Hnd' es2). exists es2. split; [exact Hes2 | reflexivity]. }
      rewrite X. reflexivity. }
    rewrite E2. cbn [map_err bind].
    destruct (interp_closed _ _ _ _ _ _ Hroot' Hroot' E2) as [Hc2 Hwr2].
    rewrite (flattened_closed_id _ _ Hc2 Hwr2). split; [reflexivity|]. split; [exact Pe|].
    intros k. apply m_get_perm; [|exact Pe]. apply wf_map_iff in Hwr as (X & _ & _). exact X.
  Qed.
End Order.

(* C06, the grammar with its escapes: inside a reference a literal piece may hold \${ and \$[ (the
   texts ${ and $[), \} (a closing brace), and end in \\ (one backslash) before the closing brace or
   a nested reference; at the top level \${, \$[ and \\ before a reference.  Any tree of such
   pieces and references, to any depth within the limit, parses to the decoded tree. *)
From RV Require Import Model.Parser Proofs.ParserFacts Proofs.ParserShape Proofs.ParserNested Proofs.ParserEscapes Proofs.ParserGen.

Lemma ralt_plain_run c k next :
  plain (String c k) -> stops next -> ralt (String c k ++ next)%string = POk next (String c k).
Proof.
  intros Hp Hs. pose proof Hp as [Hc _]. destruct (plain_char c Hc) as (Hb & Hd & _ & Hcl).
  unfold ralt. cbn [alt append].
  rewrite (double_escape_plain c _ Hb), (ref_escape_open_plain c _ Hb), (ref_escape_close_plain c _ Hb), (inv_escape_open_plain c _ Hb).
  change (String c (k ++ next)) with (String c k ++ next)%string. now rewrite (ref_content_run' c k next Hp Hs).
Qed.

Lemma rnext_stops next : rnext next -> stops next /\ ralt next = PFail.
Proof. intros (r & [-> | ->]); split; reflexivity. Qed.

(** * the pieces of text inside a reference *)
Inductive ratom :=
| RPlain (c : ascii) (p : string)
| ROpen          (* \${ *)
| RInv           (* \$[ *)
| RClose         (* \}  *)
| RBs.           (* \\ at the end of the piece *)

Definition rasrc (a : ratom) : string :=
  match a with
  | RPlain c p => String c p
  | ROpen => (bs ++ "${")%string
  | RInv => (bs ++ "$[")%string
  | RClose => (bs ++ "}")%string
  | RBs => (bs ++ bs)%string
  end.
Definition raval (a : ratom) : string :=
  match a with
  | RPlain c p => String c p
  | ROpen => "${"%string
  | RInv => "$["%string
  | RClose => "}"%string
  | RBs => bs
  end.
Definition ratom_ok (a : ratom) : Prop := match a with RPlain c p => plain (String c p) | _ => True end.
Definition rapair (a : ratom) : string * string := (rasrc a, raval a).

Fixpoint rachain (l : list ratom) : Prop :=
  match l with
  | [] => True
  | RPlain _ _ :: ((RPlain _ _ :: _) as r) => False
  | RBs :: _ :: _ => False
  | _ :: r => rachain r
  end.

Lemma rachain_tail a l : rachain (a :: l) -> rachain l.
Proof. destruct a, l as [|[] l]; cbn; tauto. Qed.
Lemma rachain_split pre a post : rachain (pre ++ a :: post) -> rachain (a :: post).
Proof. induction pre as [|x pre IH]; [auto|]. intros H. apply IH. exact (rachain_tail _ _ H). Qed.

Lemma rasrc_nonempty a : ratom_ok a -> 1 <= String.length (rasrc a).
Proof. destruct a; cbn; lia. Qed.

Lemma ralt_atom a post next :
  ratom_ok a -> rachain (a :: post) -> rnext next ->
  ralt (rasrc a ++ srcs (map rapair post) ++ next)%string = POk (srcs (map rapair post) ++ next)%string (raval a).
Proof.
  intros Hok Hc Hn. destruct a as [c p | | | |]; cbn [rasrc raval ratom_ok] in *.
  - apply ralt_plain_run; [exact Hok|].
    destruct post as [|[c2 p2 | | | |] post]; cbn [map srcs rapair fst rasrc]; try (rewrite ?str_app_assoc; reflexivity).
    + exact (proj1 (rnext_stops next Hn)).
    + destruct Hc.
  - rewrite !str_app_assoc. reflexivity.
  - rewrite !str_app_assoc. reflexivity.
  - rewrite !str_app_assoc. reflexivity.
  - destruct post as [|x post]; [|destruct Hc]. cbn [map srcs append].
    destruct Hn as (r & [-> | ->]); reflexivity.
Qed.

Definition run_src (l : list ratom) : string := srcs (map rapair l).
Definition run_val (l : list ratom) : string := concat_str (map raval l).

Theorem escaped_run_is_one_piece a l :
  Forall ratom_ok (a :: l) -> rachain (a :: l) -> lit_ok (run_src (a :: l)) (run_val (a :: l)).
Proof.
  intros Hok Hc. inversion Hok as [|? ? Ha Hl]; subst. split.
  - unfold run_src. cbn [map srcs rapair fst]. rewrite length_app_str. pose proof (rasrc_nonempty a Ha). lia.
  - intros b next Hn. unfold ritem. cbn [alt].
    assert (Hr : reference b (run_src (a :: l) ++ next)%string = PFail).
    { unfold run_src. cbn [map srcs rapair fst]. rewrite str_app_assoc.
      destruct a as [c p | | | |]; cbn [rasrc].
      - pose proof Ha as [Hcp _]. destruct (plain_char c Hcp) as (_ & Hd & _ & _). cbn [append]. exact (reference_plain c _ Hd b).
      - exact (reference_plain "\"%char _ eq_refl b).
      - exact (reference_plain "\"%char _ eq_refl b).
      - exact (reference_plain "\"%char _ eq_refl b).
      - exact (reference_plain "\"%char _ eq_refl b). }
    rewrite Hr. unfold pmap, ref_string, pmap, many1. fold ralt.
    unfold run_src. cbn [map srcs rapair fst]. rewrite str_app_assoc.
    rewrite (ralt_atom a l next Ha Hc Hn). cbn [pbind].
    rewrite (many1_rest_units ralt next (proj2 (rnext_stops next Hn)) (map rapair l) [] _).
    + cbn [pbind rev app]. unfold run_val. rewrite map_map. cbn [rapair snd map]. reflexivity.
    + intros pre x post E. apply map_eq_app in E as (pre0 & post0 & -> & _ & E2).
      destruct post0 as [|x0 post0]; [discriminate|]. cbn [map] in E2. injection E2 as <- <-.
      cbn [rapair fst snd]. apply ralt_atom; [|exact (rachain_split (a :: pre0) x0 post0 Hc) | exact Hn].
      rewrite Forall_forall in Hl. apply Hl. apply in_or_app. right. now left.
    + rewrite Forall_map. eapply Forall_impl; [|exact Hl]. intros x Hx. exact (rasrc_nonempty x Hx).
    + lia.
Qed.

(** plain text is the special case of a single plain run *)
Corollary plain_text_is_one_piece c p : plain (String c p) -> lit_ok (String c p) (String c p).
Proof.
  intros Hp. assert (Hf : Forall ratom_ok [RPlain c p]) by (constructor; [exact Hp | constructor]).
  pose proof (escaped_run_is_one_piece (RPlain c p) [] Hf I) as H.
  unfold run_src, run_val in H. cbn [map srcs rapair fst rasrc raval concat_str] in H.
  now rewrite !app_empty_r in H.
Qed.

(** * whole strings *)
Inductive funit :=
| FPlain (c : ascii) (p : string)
| FOpen | FInv | FBs
| FRef (ts : list gtree).

Definition fsrc (u : funit) : string :=
  match u with
  | FPlain c p => String c p
  | FOpen => (bs ++ "${")%string
  | FInv => (bs ++ "$[")%string
  | FBs => (bs ++ bs)%string
  | FRef ts => gsrc (GRef ts)
  end.
Definition ftok (u : funit) : token :=
  match u with
  | FPlain c p => TLit (String c p)
  | FOpen => TLit "${"
  | FInv => TLit "$["
  | FBs => TLit bs
  | FRef ts => TRef (map gtok ts)
  end.
Definition funit_ok (d : nat) (u : funit) : Prop :=
  match u with
  | FPlain c p => plain (String c p)
  | FRef ts => gwf (S d) (GRef ts)
  | _ => True
  end.
Fixpoint fchain (us : list funit) : Prop :=
  match us with
  | [] => True
  | FPlain _ _ :: ((FPlain _ _ :: _) as r) => False
  | FBs :: ((FRef _ :: _) as r) => fchain r
  | FBs :: _ => False
  | _ :: r => fchain r
  end.
Definition fpair (u : funit) : string * token := (fsrc u, ftok u).

Lemma fchain_tail u us : fchain (u :: us) -> fchain us.
Proof. destruct u, us as [|[] us]; cbn; tauto. Qed.
Lemma fchain_split pre u post : fchain (pre ++ u :: post) -> fchain (u :: post).
Proof. induction pre as [|x pre IH]; [auto|]. intros H. apply IH. exact (fchain_tail _ _ H). Qed.

Lemma text_ends_funits us : fchain us -> match us with FPlain _ _ :: _ => False | _ => True end ->
  text_ends (srcs (map fpair us) ++ "")%string.
Proof.
  destruct us as [|u us]; intros Hc Hh; [exact text_ends_nil|]. cbn [map srcs fpair fst].
  destruct u as [c p | | | | ts]; [destruct Hh | | | |].
  - cbn [fsrc]. rewrite !str_app_assoc. split; reflexivity.
  - cbn [fsrc]. rewrite !str_app_assoc. split; reflexivity.
  - destruct us as [|[| | | |ts] us]; cbn [fchain] in Hc; try (destruct Hc; fail).
    cbn [map srcs fpair fst fsrc]. rewrite gsrc_ref, !str_app_assoc. split; reflexivity.
  - cbn [fsrc]. rewrite gsrc_ref, !str_app_assoc. apply text_ends_open.
Qed.

Lemma item_funit d b u post :
  d <= b -> funit_ok d u -> fchain (u :: post) ->
  item (S b) (fsrc u ++ srcs (map fpair post) ++ "")%string = POk (srcs (map fpair post) ++ "")%string (ftok u).
Proof.
  intros Hb Hok Hc. destruct u as [c p | | | | ts]; cbn [fsrc ftok funit_ok] in *.
  - apply item_plain; [exact Hok|]. apply text_ends_funits; [exact (fchain_tail _ _ Hc)|].
    destruct post as [|[] post]; cbn [fchain] in Hc; tauto.
  - rewrite !str_app_assoc. reflexivity.
  - rewrite !str_app_assoc. reflexivity.
  - destruct post as [|[| | | |ts] post]; cbn [fchain] in Hc; try (destruct Hc; fail).
    cbn [map srcs fpair fst fsrc]. rewrite gsrc_ref, !str_app_assoc. reflexivity.
  - destruct Hok as (Hne & Hna & Hf). unfold item. cbn [alt]. rewrite gsrc_ref, !str_app_assoc.
    now rewrite (general_reference_parses_back d b ts _ Hb Hne Hna Hf).
Qed.

Lemma fsrc_nonempty d u : funit_ok d u -> 1 <= String.length (fsrc u).
Proof. destruct u; cbn [fsrc funit_ok]; intros H; try (cbn; lia); rewrite gsrc_ref; cbn [append String.length]; lia. Qed.

(** The grammar with its escapes: the parse of any sequence of plain texts, escaped markers and
    reference trees (whose pieces may hold escapes too) is the sequence of decoded pieces,
    adjacent texts joined by the parser's coalescing. *)
Theorem strings_with_escapes_parse d u us :
  d <= MAX_REF_NESTING -> Forall (funit_ok d) (u :: us) -> fchain (u :: us) ->
  has_marker (srcs (map fpair (u :: us))) = true ->
  token_parse (srcs (map fpair (u :: us))) =
    Parsed (match coalesce (ftok u, map ftok us) with [t] => t | ts => TComb ts end).
Proof.
  intros Hd Hok Hc Hm. unfold token_parse. rewrite Hm. unfold parse_ref, parse_ref_fuel.
  inversion Hok as [|? ? Hu Hus]; subst.
  rewrite <- (app_empty_r (srcs (map fpair (u :: us)))). unfold many1. cbn [map srcs fpair fst]. rewrite str_app_assoc.
  rewrite (item_funit d MAX_REF_NESTING u us Hd Hu Hc). cbn [pbind].
  rewrite (many1_rest_units (item (S MAX_REF_NESTING)) "" (item_at_end _) (map fpair us) [] _).
  - cbn [pbind rev app]. rewrite map_map. cbn [fpair snd]. destruct (coalesce (ftok u, map ftok us)) as [|t [|t2 r]]; reflexivity.
  - intros pre x post E. apply map_eq_app in E as (pre0 & post0 & -> & _ & E2).
    destruct post0 as [|x0 post0]; [discriminate|]. cbn [map] in E2. injection E2 as <- <-.
    cbn [fpair fst snd]. apply (item_funit d MAX_REF_NESTING x0 post0 Hd).
    + rewrite Forall_forall in Hus. apply Hus. apply in_or_app. right. now left.
    + exact (fchain_split (u :: pre0) x0 post0 Hc).
  - rewrite Forall_map. eapply Forall_impl; [|exact Hus]. intros x Hx. exact (fsrc_nonempty d x Hx).
  - lia.
Qed.

(** two texts in a row are joined into one *)
Lemma coalesce_two a b ts : coalesce (TLit a, TLit b :: ts) = coalesce (TLit (a ++ b), ts).
Proof. reflexivity. Qed.

(* C18: the metadata is delivered.  Whatever a node defines itself (nothing at all, applications only,
   classes, parameters), the parameters of the rendered node hold the key `_reclass_`: it is the first
   thing inserted, merging only adds keys, and rendering keeps the keys of a mapping. *)
From RV Require Import Model.Node Proofs.ValueFacts Proofs.MappingFacts Proofs.WfFacts Proofs.InterpFacts Proofs.NodeFacts.

Lemma insert_has_key m k v fc fo m' : insert_impl m k v fc fo = Ok m' -> In (stripped k) (keys m').
Proof.
  intros H. apply insert_ok_cases in H as [[_ ->] | (e & f & Hf & _ & -> & Hk & _)].
  - unfold keys. rewrite map_app. apply in_or_app. right. left. reflexivity.
  - unfold keys. rewrite (m_set_keys (stripped k) f m (fun e0 _ => Hk e0)). apply in_map_iff. exists e. split; [exact (m_find_key _ _ _ Hf) | exact (m_find_In _ _ _ Hf)].
Qed.

Lemma insert_keeps_keys m k v fc fo m' x : insert_impl m k v fc fo = Ok m' -> In x (keys m) -> In x (keys m').
Proof.
  intros H Hx. unfold keys in *. destruct (insert_keys _ _ _ _ _ _ H) as [-> | ->]; [exact Hx | apply in_or_app; now left].
Qed.

Lemma merge_keeps_keys o : forall m m' x, mapping_merge m o = Ok m' -> In x (keys m) -> In x (keys m').
Proof.
  unfold mapping_merge. induction o as [|e o IH]; intros m m' x H Hx; cbn [foldM] in H.
  - injection H as <-. exact Hx.
  - destruct (insert_impl m (e_key e) (e_val e) (e_const e) (e_over e)) as [m1| | |] eqn:E; cbn [bind] in H; try discriminate.
    exact (IH m1 m' x H (insert_keeps_keys _ _ _ _ _ _ x E Hx)).
Qed.

Lemma merge_adds_keys o : forall m m' e, mapping_merge m o = Ok m' -> In e o -> In (stripped (e_key e)) (keys m').
Proof.
  unfold mapping_merge. induction o as [|e0 o IH]; intros m m' e H He; [destruct He|]. cbn [foldM] in H.
  destruct (insert_impl m (e_key e0) (e_val e0) (e_const e0) (e_over e0)) as [m1| | |] eqn:E; cbn [bind] in H; try discriminate.
  destruct He as [-> | He].
  - exact (merge_keeps_keys o m1 m' _ H (insert_has_key _ _ _ _ _ _ E)).
  - exact (IH m1 m' e H He).
Qed.

Lemma m_get_of_key (k : value) m : In k (keys m) -> exists v, m_get k m = Some v.
Proof.
  unfold keys, m_get. induction m as [|e m IH]; intros H; [destruct H|]. cbn [m_find map] in *.
  destruct (value_eqb (e_key e) k) eqn:E; [eexists; reflexivity|].
  destruct H as [H | H]; [|exact (IH H)]. subst k. now rewrite value_eqb_refl in E.
Qed.

Theorem rendered_node_holds_the_metadata f fi cfg tbl n meta r :
  clean_table tbl -> wf (VMap (n_params n)) ->
  node_render f fi cfg tbl n meta = Ok r ->
  exists v, m_get (VStr "_reclass_") (n_params r) = Some v.
Proof.
  intros Ht Hn H. unfold node_render in H.
  destruct (as_reclass cfg meta) as [rc| | |] eqn:Er; cbn [bind] in H; try discriminate.
  pose proof (as_reclass_wf _ _ _ Er) as Hrc.
  assert (Hp0 : m_insert [] (VStr "_reclass_") (VMap rc) = Ok [mk_entry (VStr "_reclass_") (VMap rc) false false]) by reflexivity.
  rewrite Hp0 in H. cbn [bind] in H.
  assert (Hb : wf (VMap [mk_entry (VStr "_reclass_") (VMap rc) false false])).
  { apply wf_map_iff. split; [cbn; repeat constructor; cbn; tauto | split; [cbn; repeat constructor | constructor; [exact Hrc | constructor]]]. }
  set (base := {| n_apps := r_empty; n_classes := n_classes n; n_params := [mk_entry (VStr "_reclass_") (VMap rc) false false]; n_loc := [] |}) in *.
  assert (He : wf (VMap (n_params empty_node))) by (cbn; repeat split; constructor).
  destruct (render_impl_facts fi cfg tbl Ht f base [] [] empty_node Hb He) as [_ Hw].
  destruct (render_impl f fi cfg tbl base [] [] empty_node) as [[[base1 seen1] root1]| | |] eqn:E1; cbn [bind] in H; try discriminate.
  destruct (Hw _ _ _ eq_refl) as [Hb1 _].
  (* the key is in base1 *)
  assert (K1 : In (VStr "_reclass_") (keys (n_params base1))).
  { destruct f as [|f']; [discriminate|]. cbn [render_impl] in E1.
    destruct (include_loop fi cfg tbl (render_impl f' fi cfg tbl) (n_loc base) [] (n_classes base) [] empty_node) as [[sn rt]| | |]; cbn [bind] in E1; try discriminate.
    unfold merge_into in E1. destruct (mapping_merge (n_params rt) (n_params base)) as [ps| | |] eqn:Em; cbn [bind] in E1; try discriminate.
    injection E1 as <- _ _. cbn [n_params].
    exact (merge_adds_keys _ _ _ (mk_entry (VStr "_reclass_") (VMap rc) false false) Em (or_introl eq_refl)). }
  destruct (merge_into_facts n base1 Hn Hb1) as [_ Mw].
  destruct (merge_into n base1) as [[n1 b1]| | |] eqn:Em; cbn [bind] in H; try discriminate.
  destruct (Mw _ _ eq_refl) as [Hn1 _].
  assert (K2 : In (VStr "_reclass_") (keys (n_params n1))).
  { unfold merge_into in Em. destruct (mapping_merge (n_params base1) (n_params n)) as [ps| | |] eqn:Em2; cbn [bind] in Em; try discriminate.
    injection Em as <- _. cbn [n_params]. exact (merge_keeps_keys _ _ _ _ Em2 K1). }
  unfold render_params in H.
  destruct (render_with_self fi (VMap (n_params n1))) as [v| | |] eqn:Ev; cbn [bind] in H; try discriminate.
  destruct v as [| | | | | m | |]; try discriminate. injection H as <-. cbn [n_params].
  apply m_get_of_key.
  (* rendering keeps the keys *)
  unfold render_with_self, rendered in Ev.
  destruct (interp fi (n_params n1) (VMap (n_params n1)) st0) as [[v' st']| | |] eqn:Ei; cbn [map_err bind] in Ev; try discriminate.
  destruct (interp_closed _ _ _ _ _ _ Hn1 Hn1 Ei) as [Hc Hw'].
  rewrite (flattened_closed_id _ v' Hc Hw') in Ev. injection Ev as ->.
  destruct fi as [|fi']; [discriminate|]. cbn [interp] in Ei.
  destruct (mapping_interp fi' (n_params n1) (n_params n1) st0) as [m'| | |] eqn:Emi; cbn [bind] in Ei; try discriminate.
  injection Ei as <- _. rewrite (mapping_interp_keys _ _ _ _ _ Hn1 Hn1 Emi). exact K2.
Qed.

(* C08: chains of whole-value references.  k0: ${k1}, k1: ${k2}, ..., kn: target -- acyclic by
   construction.  For every length: the head renders to the target when the chain fits within the
   documented depth of 64 (counted from the depth at which the head is met), and to the depth
   error -- never a loop error, never a value -- when it does not. *)
From RV Require Import Model.Interp Proofs.ValueFacts Proofs.MappingFacts Proofs.WfFacts Proofs.InterpFacts Proofs.FixedPoint Proofs.ParserShape Proofs.TemplateRender.

Definition refs (k : string) : string := ("${" ++ k ++ "}")%string.

Fixpoint links (root : mapping) (ks : list string) (target : value) : Prop :=
  match ks with
  | [] => False
  | [k] => m_get (VStr k) root = Some target
  | k :: ((k' :: _) as r) => m_get (VStr k) root = Some (VStr (refs k')) /\ links root r target
  end.

(** a key that can be written as a reference path of one segment *)
Definition key_ok (k : string) : Prop := k <> ""%string /\ plain k /\ split_on ":" k = [k].

(** what a chain may end in: rendered (closed) data of any kind and shape *)
Definition plain_data (v : value) : Prop := closed v /\ wf v /\ simple_keys v.

Lemma refs_parse k : key_ok k -> token_parse (refs k) = Parsed (TRef [TLit k]).
Proof. intros (Hne & Hp & _). destruct k as [|c r]; [congruence|]. exact (ref_parse c r Hp). Qed.

Lemma data_interp v f root st : plain_data v -> 2 * vdepth v < f -> interp f root v st = Ok (v, st).
Proof. intros (Hc & Hw & Hs) Hf. exact (interp_closed_id root f v st Hf Hc Hw Hs). Qed.

Lemma data_not_string v : plain_data v -> is_string v || is_vlist v = false.
Proof. intros (Hc & _). destruct v; cbn in *; try destruct Hc; reflexivity. Qed.

Section Chain.
  Variable root : mapping.
  Variable target : value.
  Hypothesis Htarget : plain_data target.

  Lemma chain_renders : forall ks st,
    links root ks target -> Forall key_ok ks -> NoDup ks -> Forall (fun k => mem k (seen st) = false) ks ->
    exists F, forall f, F <= f ->
      match ks with
      | [] => True
      | k0 :: _ =>
          if Nat.leb (depth st + List.length ks) RESOLVE_MAX_DEPTH
          then exists st', interp f root (VStr (refs k0)) st = Ok (target, st')
          else exists ck sn, interp f root (VStr (refs k0)) st = Err (EDepth ck sn)
      end.
  Proof.
    induction ks as [|k ks IH]; intros st Hl Hk Hnd Hs; [exists 0; auto|].
    inversion Hk as [|? ? Hk0 Hks]; subst. inversion Hnd as [|? ? Hnotin Hnd']; subst.
    inversion Hs as [|? ? Hs0 Hss]; subst.
    pose proof (refs_parse k Hk0) as Hparse. destruct Hk0 as (Hne & Hplain & Hsplit).
    set (st1 := with_depth st (S (depth st))). set (st2 := add_seen st1 k).
    (* the tail of the chain, met at st2 *)
    assert (Htail : exists F, forall f, F <= f ->
              match ks with
              | [] => True
              | k' :: _ => if Nat.leb (depth st2 + List.length ks) RESOLVE_MAX_DEPTH
                           then exists st', interp f root (VStr (refs k')) st2 = Ok (target, st')
                           else exists ck sn, interp f root (VStr (refs k')) st2 = Err (EDepth ck sn)
              end).
    { destruct ks as [|k' ks']; [exists 0; auto|]. apply IH.
      - exact (proj2 Hl).
      - exact Hks.
      - exact Hnd'.
      - apply Forall_forall. intros x Hx. cbn [st2 st1 add_seen with_depth seen mem].
        rewrite Forall_forall in Hss. rewrite (Hss x Hx), Bool.orb_false_r.
        apply String.eqb_neq. intros ->. exact (Hnotin Hx). }
    destruct Htail as [F1 H1]. exists (F1 + 2 * vdepth target + 8). intros f Hf.
    destruct f as [|[|[|[|[|[|[|[|f8]]]]]]]]; try lia.
    cbn [interp]. rewrite Hparse. cbn [token_render]. cbn [token_resolve]. fold st1.
    assert (Ed : depth st1 = S (depth st)) by reflexivity.
    cbn [List.length]. unfold RESOLVE_MAX_DEPTH in *.
    destruct (Nat.ltb 64 (depth st1)) eqn:Elt.
    - (* too deep already at this link *)
      apply Nat.ltb_lt in Elt. replace (Nat.leb (depth st + S (List.length ks)) 64) with false.
      + eexists. eexists. reflexivity.
      + symmetry. apply Nat.leb_gt. lia.
    - apply Nat.ltb_ge in Elt.
      assert (Esl : token_slice (S (S (S (S (S f8))))) root [TLit k] st1 = Ok k).
      { cbn [token_slice slice_loop token_resolve]. cbn [bind interp_while_str is_string is_mapping is_sequence orb raw_string].
        now rewrite app_empty_r. }
      rewrite Esl. cbn [bind]. change (seen st1) with (seen st). rewrite Hs0. fold st2. rewrite Hsplit.
      destruct ks as [|k' ks'].
      + (* the last link: the target itself *)
        cbn [links] in Hl. rewrite Hl. cbn [walk_loop bind]. cbn [interp_while]. rewrite (data_not_string target Htarget). cbn [bind].
        rewrite (data_interp target _ root st2 Htarget) by lia.
        cbn [List.length]. replace (Nat.leb (depth st + 1) 64) with true; [eexists; reflexivity|].
        symmetry. apply Nat.leb_le. rewrite Ed in Elt. lia.
      + destruct Hl as [Hget Hl']. rewrite Hget. cbn [walk_loop bind]. cbn [interp_while is_string is_vlist orb].
        specialize (H1 (S (S (S (S f8)))) ltac:(lia)). cbn beta iota in H1.
        assert (Ed2 : depth st2 + List.length (k' :: ks') = depth st + S (List.length (k' :: ks'))) by (cbn; lia).
        rewrite Ed2 in H1.
        destruct (Nat.leb (depth st + S (List.length (k' :: ks'))) 64).
        * destruct H1 as [st' H1]. rewrite H1. cbn [bind]. cbn [interp_while]. rewrite (data_not_string target Htarget). cbn [bind].
          rewrite (data_interp target _ root st' Htarget) by lia. eexists. reflexivity.
        * destruct H1 as (ck & sn & H1). rewrite H1. cbn [bind]. eexists. eexists. reflexivity.
  Qed.
End Chain.

(** from the top level: a chain of at most 64 references renders to its target ... *)
Theorem chains_within_the_limit_render root target k0 ks :
  plain_data target -> links root (k0 :: ks) target -> Forall key_ok (k0 :: ks) -> NoDup (k0 :: ks) ->
  List.length (k0 :: ks) <= RESOLVE_MAX_DEPTH ->
  exists F, forall f, F <= f -> exists st', interp f root (VStr (refs k0)) st0 = Ok (target, st').
Proof.
  intros Ht Hl Hk Hnd Hlen.
  destruct (chain_renders root target Ht (k0 :: ks) st0 Hl Hk Hnd) as [F H].
  { apply Forall_forall. intros x _. reflexivity. }
  exists F. intros f Hf. specialize (H f Hf). cbn beta iota in H.
  replace (Nat.leb (depth st0 + List.length (k0 :: ks)) RESOLVE_MAX_DEPTH) with true in H; [exact H|].
  symmetry. apply Nat.leb_le. cbn [depth st0]. lia.
Qed.

(** ... and a longer one is reported as exceeding the depth, not as a loop and not as a value *)
Theorem chains_beyond_the_limit_are_depth_errors root target k0 ks :
  plain_data target -> links root (k0 :: ks) target -> Forall key_ok (k0 :: ks) -> NoDup (k0 :: ks) ->
  RESOLVE_MAX_DEPTH < List.length (k0 :: ks) ->
  exists F, forall f, F <= f -> exists ck sn, interp f root (VStr (refs k0)) st0 = Err (EDepth ck sn).
Proof.
  intros Ht Hl Hk Hnd Hlen.
  destruct (chain_renders root target Ht (k0 :: ks) st0 Hl Hk Hnd) as [F H].
  { apply Forall_forall. intros x _. reflexivity. }
  exists F. intros f Hf. specialize (H f Hf). cbn beta iota in H.
  replace (Nat.leb (depth st0 + List.length (k0 :: ks)) RESOLVE_MAX_DEPTH) with false in H; [exact H|].
  symmetry. apply Nat.leb_gt. cbn [depth st0]. lia.
Qed.

(* C01: the include walk is a fold.  The node accumulated by Node::render_impl is exactly the
   starting accumulator merged, in order, with every class the walk newly records (each once, in
   the order of the record, i.e. post-order) and then with the walking entity itself. *)
From RV Require Import Model.Node Proofs.NodeFacts.

(** merging a sequence of entities into an accumulator, in order (Node::merge_into each) *)
Fixpoint merge_seq (root : node) (ns : list node) : res node :=
  match ns with
  | [] => Ok root
  | n :: ns' => '(_, root') <- merge_into n root ;; merge_seq root' ns'
  end.

Lemma merge_seq_app root a b :
  merge_seq root (a ++ b) = (r <- merge_seq root a ;; merge_seq r b).
Proof.
  revert root. induction a as [|n a IH]; intros root; cbn [merge_seq app]; [reflexivity|].
  destruct (merge_into n root) as [[x r1]| | |]; cbn [bind]; try reflexivity. apply IH.
Qed.

Section Fold.
  Variable fi : nat.
  Variable cfg : ncfg.
  Variable tbl : list cls_entry.

  (** [name] is the class [cn]: reading it (from whichever including entity) yields [cn] *)
  Definition is_class (name : string) (cn : node) : Prop :=
    exists loc, read_class cfg tbl loc name = Ok (Some cn).

  Definition walker_fold (recur : walker) : Prop :=
    forall cn seen loading root c' seen1 root1,
      recur cn seen loading root = Ok (c', seen1, root1) ->
      exists new nodes, seen1 = seen ++ new /\ Forall2 is_class new nodes /\
                        merge_seq root (nodes ++ [cn]) = Ok root1.

  Lemma include_loop_fold recur self_loc loading :
    walker_fold recur ->
    forall cs seen root seen' root',
      include_loop fi cfg tbl recur self_loc loading cs seen root = Ok (seen', root') ->
      exists new nodes, seen' = seen ++ new /\ Forall2 is_class new nodes /\ merge_seq root nodes = Ok root'.
  Proof.
    intros Hrec. induction cs as [|c cs IH]; intros seen root seen' root' H; cbn [include_loop] in H.
    - injection H as <- <-. exists [], []. split; [now rewrite app_nil_r | split; [constructor | reflexivity]].
    - destruct (include_name fi (n_params root) c) as [name0| | |]; cbn [bind] in H; try discriminate.
      destruct (mem (abs_class_name self_loc name0) seen); [exact (IH _ _ _ _ H)|].
      destruct (mem (abs_class_name self_loc name0) loading); [discriminate|].
      destruct (read_class cfg tbl self_loc (abs_class_name self_loc name0)) as [[cn|]| | |] eqn:Er; cbn [bind] in H; try discriminate.
      2:{ exact (IH _ _ _ _ H). }
      destruct (recur cn seen (loading ++ [abs_class_name self_loc name0]) root) as [[[c1 seen1] root1]| | |] eqn:E;
        cbn [bind] in H; try discriminate.
      destruct (Hrec _ _ _ _ _ _ _ E) as (new1 & nodes1 & -> & Hf1 & Hm1).
      destruct (IH _ _ _ _ H) as (new2 & nodes2 & -> & Hf2 & Hm2).
      exists (new1 ++ [abs_class_name self_loc name0] ++ new2), (nodes1 ++ [cn] ++ nodes2).
      split; [now rewrite !app_assoc | split].
      + apply Forall2_app; [exact Hf1|]. apply Forall2_app; [|exact Hf2].
        constructor; [|constructor]. exists self_loc. exact Er.
      + rewrite app_assoc, merge_seq_app, Hm1. cbn [bind]. exact Hm2.
  Qed.

  Lemma render_impl_fold : forall f, walker_fold (render_impl f fi cfg tbl).
  Proof.
    induction f as [|f IH]; intros self seen loading root c' seen' root' H; cbn [render_impl] in H; [discriminate|].
    destruct (include_loop fi cfg tbl (render_impl f fi cfg tbl) (n_loc self) loading (n_classes self) seen root)
      as [[seen1 root1]| | |] eqn:E; cbn [bind] in H; try discriminate.
    destruct (merge_into self root1) as [[a b]| | |] eqn:Em; cbn [bind] in H; try discriminate.
    injection H as _ <- <-.
    destruct (include_loop_fold _ _ _ IH _ _ _ _ _ E) as (new & nodes & -> & Hf & Hm).
    exists new, nodes. split; [reflexivity | split; [exact Hf|]].
    rewrite merge_seq_app, Hm. cbn [bind merge_seq]. rewrite Em. reflexivity.
  Qed.

  (** The whole walk of an entity from an empty record: the result is the empty accumulator
      merged with the recorded classes, each once (NoDup), in the order of the record, then with
      the entity itself. *)
  Theorem walk_is_ordered_merge f self c' seen' root' :
    render_impl f fi cfg tbl self [] [] empty_node = Ok (c', seen', root') ->
    NoDup seen' /\
    exists nodes, Forall2 is_class seen' nodes /\ merge_seq empty_node (nodes ++ [self]) = Ok root'.
  Proof.
    intros H. split; [exact (classes_merged_once _ _ _ _ _ _ _ _ H)|].
    destruct (render_impl_fold f _ _ _ _ _ _ _ H) as (new & nodes & E & Hf & Hm). cbn [app] in E. subst new.
    exists nodes. split; assumption.
  Qed.
End Fold.

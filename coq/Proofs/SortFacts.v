(* Sorting strings by String.leb: total order facts, insertion sort is a permutation, sorted,
   and canonical (two sorted permutations of each other are equal). *)
From RV Require Import Model.Node.
From Coq Require Import Permutation Sorted OrderedTypeEx.

Lemma compare_refl s : String.compare s s = Eq.
Proof. apply (proj2 (String_as_OT.cmp_eq s s)). reflexivity. Qed.

Lemma leb_refl s : String.leb s s = true.
Proof. unfold String.leb. now rewrite compare_refl. Qed.

Lemma leb_trans a b c : String.leb a b = true -> String.leb b c = true -> String.leb a c = true.
Proof.
  unfold String.leb.
  destruct (String.compare a b) eqn:Eab; try discriminate; intros _;
  destruct (String.compare b c) eqn:Ebc; try discriminate; intros _.
  - apply String.compare_eq_iff in Eab, Ebc. subst. now rewrite compare_refl.
  - apply String.compare_eq_iff in Eab. subst. now rewrite Ebc.
  - apply String.compare_eq_iff in Ebc. subst. now rewrite Eab.
  - apply String_as_OT.cmp_lt in Eab, Ebc.
    assert (H : String_as_OT.lt a c) by (eapply String_as_OT.lt_trans; eauto).
    apply String_as_OT.cmp_lt in H. unfold String_as_OT.cmp in H. now rewrite H.
Qed.

Lemma leb_antisym a b : String.leb a b = true -> String.leb b a = true -> a = b.
Proof. apply String.leb_antisym. Qed.

Lemma insert_sorted_perm x l : Permutation (insert_sorted x l) (x :: l).
Proof.
  induction l as [|y l IH]; cbn [insert_sorted]; [reflexivity|].
  destruct (String.leb x y); [reflexivity|].
  rewrite IH. apply perm_swap.
Qed.

Lemma sort_perm l : Permutation (sort_strings l) l.
Proof.
  induction l as [|x l IH]; cbn [sort_strings fold_right]; [reflexivity|].
  fold (sort_strings l). rewrite insert_sorted_perm. now constructor.
Qed.

Definition sorted (l : list string) : Prop := StronglySorted (fun a b => String.leb a b = true) l.

Lemma insert_sorted_sorted x l : sorted l -> sorted (insert_sorted x l).
Proof.
  unfold sorted. induction 1 as [|y l Hs IH Hall]; cbn [insert_sorted]; [repeat constructor|].
  destruct (String.leb x y) eqn:E.
  - constructor; [constructor; assumption|]. constructor; [assumption|].
    eapply Forall_impl; [|exact Hall]. intros z Hz. eapply leb_trans; eauto.
  - constructor; [assumption|].
    assert (Hyx : String.leb y x = true) by (destruct (String.leb_total x y); congruence).
    assert (P : Permutation (insert_sorted x l) (x :: l)) by apply insert_sorted_perm.
    rewrite Forall_forall. intros z Hz. eapply Permutation_in in Hz; [|exact P].
    destruct Hz as [<-|Hz]; [assumption|]. rewrite Forall_forall in Hall. auto.
Qed.

Lemma sort_sorted l : sorted (sort_strings l).
Proof.
  induction l as [|x l IH]; cbn [sort_strings fold_right]; [constructor|].
  apply insert_sorted_sorted, IH.
Qed.

Lemma sorted_perm_eq l : forall l', sorted l -> sorted l' -> Permutation l l' -> l = l'.
Proof.
  unfold sorted. induction l as [|x l IH]; intros l' Hs Hs' P.
  - apply Permutation_nil in P. now subst.
  - destruct l' as [|y l']; [apply Permutation_sym, Permutation_nil in P; discriminate|].
    inversion Hs as [|? ? Hs1 Hall]; subst. inversion Hs' as [|? ? Hs1' Hall']; subst.
    assert (x = y).
    { assert (Hx : In x (y :: l')) by (eapply Permutation_in; [exact P | now left]).
      assert (Hy : In y (x :: l)) by (eapply Permutation_in; [apply Permutation_sym; exact P | now left]).
      destruct Hx as [->|Hx]; [reflexivity|]. destruct Hy as [->|Hy]; [reflexivity|].
      rewrite Forall_forall in Hall, Hall'. apply leb_antisym; auto. }
    subst y. f_equal. apply IH; try assumption. eapply Permutation_cons_inv; eauto.
Qed.

Lemma sort_perm_eq l l' : Permutation l l' -> sort_strings l = sort_strings l'.
Proof.
  intros P. apply sorted_perm_eq; try apply sort_sorted.
  rewrite sort_perm, P. symmetry. apply sort_perm.
Qed.

Lemma sort_In x l : In x (sort_strings l) <-> In x l.
Proof. split; apply Permutation_in; [apply sort_perm | apply Permutation_sym, sort_perm]. Qed.

Lemma sort_length l : List.length (sort_strings l) = List.length l.
Proof. apply Permutation_length, sort_perm. Qed.

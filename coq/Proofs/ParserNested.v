(* C06: references nested in references.  Every token tree built from plain text and
   references -- references inside references to any depth up to the documented limit, any
   number of pieces at every level -- is parsed back from its text to exactly that tree. *)
From RV Require Import Model.Parser Proofs.ParserFacts Proofs.ParserShape.

(** the text of a token tree *)
Fixpoint unparse (t : token) : string :=
  match t with
  | TLit s => s
  | TRef ts =>
      ("${" ++ (fix cat (ts : list token) : string := match ts with [] => "" | x :: r => unparse x ++ cat r end) ts ++ "}")%string
  | TComb ts =>
      ((fix cat (ts : list token) : string := match ts with [] => "" | x :: r => unparse x ++ cat r end) ts)%string
  end.

Fixpoint cat (ts : list token) : string :=
  match ts with [] => ""%string | x :: r => (unparse x ++ cat r)%string end.

Lemma unparse_ref ts : unparse (TRef ts) = ("${" ++ cat ts ++ "}")%string.
Proof.
  assert (G : forall l, (fix cat0 (ts0 : list token) : string := match ts0 with [] => ""%string | x :: r => (unparse x ++ cat0 r)%string end) l = cat l).
  { induction l as [|x r IH]; cbn [cat]; [reflexivity | now rewrite IH]. }
  cbn [unparse]. now rewrite G.
Qed.

(** trees of nesting depth at most [d]: literals are non-empty plain text, a reference holds a
    non-empty list of trees of depth < d without two literals in a row *)
Fixpoint wft (d : nat) (t : token) : Prop :=
  match t with
  | TLit s => match s with String _ _ => plain s | EmptyString => False end
  | TRef ts => match d with 0 => False | S d' => ts <> [] /\ noadj ts /\ Forall (wft d') ts end
  | TComb _ => False
  end.

Definition rstop (next : string) : Prop := stops next /\ ralt next = PFail.

Lemma rstop_close rest : rstop ("}" ++ rest)%string.
Proof. split; reflexivity. Qed.
Lemma rstop_open rest : rstop ("${" ++ rest)%string.
Proof. split; reflexivity. Qed.

Lemma ref_content_run' c k next :
  plain (String c k) -> stops next -> ref_content (String c k ++ next)%string = POk next (String c k).
Proof.
  intros Hp Hs. pose proof Hp as [Hc _]. destruct (plain_char c Hc) as (Hb & Hd & _ & Hcl).
  unfold ref_content, pmap. unfold pseq at 1. cbn [append]. rewrite (ref_not_open_plain c _ Hb Hd). cbn [pbind].
  unfold pseq at 1. rewrite (ref_not_close_plain c _ Hb Hcl). cbn [pbind].
  change (String c (k ++ next)) with (String c k ++ next)%string.
  rewrite (ref_text_run c k next Hp Hs). reflexivity.
Qed.

Lemma ref_string_run' c k next :
  plain (String c k) -> rstop next -> ref_string (String c k ++ next)%string = POk next (String c k).
Proof.
  intros Hp [Hs Hf]. pose proof Hp as [Hc _]. destruct (plain_char c Hc) as (Hb & Hd & _ & Hcl).
  unfold ref_string, pmap, many1. fold ralt.
  assert (R : ralt (String c k ++ next)%string = POk next (String c k)).
  { unfold ralt. cbn [alt append].
    rewrite (double_escape_plain c _ Hb), (ref_escape_open_plain c _ Hb), (ref_escape_close_plain c _ Hb), (inv_escape_open_plain c _ Hb).
    change (String c (k ++ next)) with (String c k ++ next)%string. now rewrite (ref_content_run' c k next Hp Hs). }
  rewrite R. cbn [pbind]. cbn [many1_rest]. rewrite Hf. cbn [pbind rev concat_str]. now rewrite app_empty_r.
Qed.

Definition ritem (b : nat) : parser token := alt [reference b; pmap ref_string TLit].

Lemma wft_mono : forall d t, wft d t -> wft (S d) t.
Proof.
  induction d as [|d IH]; intros t H; destruct t as [s | ts | ts]; try exact H; try (destruct H; fail).
  destruct H as (Hne & Hna & Hf). cbn [wft]. split; [exact Hne | split; [exact Hna|]].
  eapply Forall_impl; [|exact Hf]. intros x Hx. apply IH, Hx.
Qed.

Lemma unparse_nonempty d t : wft d t -> 1 <= String.length (unparse t).
Proof.
  destruct d; destruct t as [[|c p] | ts | ts]; cbn [wft]; try tauto; intros _;
    try (cbn [unparse String.length]; lia); rewrite unparse_ref; cbn [append String.length]; lia.
Qed.

Lemma noadj_tail t ts : noadj (t :: ts) -> noadj ts.
Proof. intros H pre a b post E. apply (H (t :: pre) a b post). cbn [app]. now rewrite E. Qed.

Lemma wft_lit d c p : wft d (TLit (String c p)) -> plain (String c p).
Proof. destruct d; intros H; exact H. Qed.
Lemma wft_lit_empty d : wft d (TLit "") -> False.
Proof. destruct d; intros H; exact H. Qed.
Lemma wft_comb d ts : wft d (TComb ts) -> False.
Proof. destruct d; intros H; exact H. Qed.
Lemma wft_ref d ts : wft d (TRef ts) -> exists d', d = S d' /\ ts <> [] /\ noadj ts /\ Forall (wft d') ts.
Proof. destruct d as [|d']; intros H; [destruct H|]. exists d'. split; [reflexivity | exact H]. Qed.

(** inside a reference, what follows a literal piece is the closing brace or a nested reference *)
Lemma next_rstop d s ts rest :
  noadj (TLit s :: ts) -> Forall (wft d) ts -> rstop (cat ts ++ "}" ++ rest)%string.
Proof.
  intros Hn Hf. destruct ts as [|x r]; [apply rstop_close|]. cbn [cat]. inversion Hf as [|? ? Hx _]; subst.
  destruct x as [s2 | ts2 | ts2].
  - exfalso. exact (Hn [] s s2 r eq_refl).
  - rewrite unparse_ref, !str_app_assoc. apply rstop_open.
  - destruct (wft_comb d ts2 Hx).
Qed.

Section Depth.
  Variable d : nat.
  (** references of smaller depth parse back *)
  Hypothesis IHR : forall d', d' < d -> forall b, d' <= b -> forall ts rest,
    ts <> [] -> noadj ts -> Forall (wft d') ts ->
    reference (S b) ("${" ++ cat ts ++ "}" ++ rest)%string = POk rest (TRef ts).

  Lemma ritem_one b x next :
    d <= b -> wft d x -> (forall s, x = TLit s -> rstop next) ->
    ritem b (unparse x ++ next)%string = POk next x.
  Proof.
    intros Hb Hx Hnext. destruct x as [[|c p] | ts | ts].
    - destruct (wft_lit_empty d Hx).
    - apply wft_lit in Hx. pose proof Hx as [Hc _]. destruct (plain_char c Hc) as (Hbs & Hd & _ & _).
      unfold ritem. cbn [unparse alt append]. rewrite (reference_plain c _ Hd b). unfold pmap.
      change (String c (p ++ next)) with (String c p ++ next)%string.
      rewrite (ref_string_run' c p next Hx (Hnext _ eq_refl)). reflexivity.
    - destruct (wft_ref d ts Hx) as (d' & Ed & Hne & Hna & Hf).
      destruct b as [|b1]; [lia|]. unfold ritem. cbn [alt]. rewrite unparse_ref, !str_app_assoc.
      rewrite (IHR d' ltac:(lia) b1 ltac:(lia) ts next Hne Hna Hf). reflexivity.
    - destruct (wft_comb d ts Hx).
  Qed.

  Lemma ritem_at_close b rest : ritem b ("}" ++ rest)%string = PFail.
  Proof. unfold ritem. cbn [alt]. rewrite (reference_at_close b rest). unfold pmap. now rewrite (ref_string_at_close rest). Qed.

  Lemma items_run b rest : d <= b -> forall ts acc n,
    noadj ts -> Forall (wft d) ts -> String.length (cat ts ++ "}" ++ rest)%string < n ->
    many1_rest n (ritem b) (cat ts ++ "}" ++ rest)%string acc = POk ("}" ++ rest)%string (rev acc ++ ts).
  Proof.
    intros Hb. induction ts as [|x ts IH]; intros acc n Hna Hf Hn.
    - destruct n as [|n]; [cbn in Hn; lia|]. cbn [cat append many1_rest].
      change (String "}" rest) with ("}" ++ rest)%string. rewrite (ritem_at_close b rest). now rewrite app_nil_r.
    - destruct n as [|n]; [cbn in Hn; lia|]. inversion Hf as [|? ? Hx Hfs]; subst.
      cbn [cat many1_rest]. rewrite str_app_assoc.
      rewrite (ritem_one b x (cat ts ++ "}" ++ rest)%string Hb Hx).
      2:{ intros s ->. exact (next_rstop d s ts rest Hna Hfs). }
      pose proof (unparse_nonempty d x Hx) as Hl.
      assert (E : Nat.eqb (String.length (cat ts ++ "}" ++ rest)%string) (String.length (unparse x ++ cat ts ++ "}" ++ rest)%string) = false).
      { apply Nat.eqb_neq. rewrite (length_app_str (unparse x)). lia. }
      rewrite E. rewrite (IH (x :: acc) n (noadj_tail x ts Hna) Hfs).
      + cbn [rev]. now rewrite <- app_assoc.
      + cbn [cat] in Hn. rewrite str_app_assoc, (length_app_str (unparse x)) in Hn. lia.
  Qed.

  Lemma reference_run_nested b ts rest :
    d <= b -> ts <> [] -> noadj ts -> Forall (wft d) ts ->
    reference (S b) ("${" ++ cat ts ++ "}" ++ rest)%string = POk rest (TRef ts).
  Proof.
    intros Hb Hne Hna Hf. destruct ts as [|x ts]; [congruence|]. inversion Hf as [|? ? Hx Hfs]; subst.
    cbn [reference]. unfold ref_open at 1. unfold tag at 1. cbn [append strip Ascii.eqb Bool.eqb]. cbn [pbind].
    fold (ritem b). unfold many1. cbn [cat]. rewrite str_app_assoc.
    change (String "}" rest) with ("}" ++ rest)%string.
    rewrite (ritem_one b x (cat ts ++ "}" ++ rest)%string Hb Hx).
    2:{ intros s ->. exact (next_rstop d s ts rest Hna Hfs). }
    cbn [pbind]. rewrite (items_run b rest Hb ts [] _ (noadj_tail x ts Hna) Hfs); [|lia].
    cbn [pbind rev app]. unfold ref_close, tag. cbn [append strip Ascii.eqb Bool.eqb pbind].
    unfold coalesce. cbn [fst snd]. rewrite (coalesce_rev_noadj ts [x]); [reflexivity | exact Hna].
  Qed.
End Depth.

(** every reference tree of depth at most [d <= b] parses back *)
Theorem nested_reference_parses_back : forall d b ts rest,
  d <= b -> ts <> [] -> noadj ts -> Forall (wft d) ts ->
  reference (S b) ("${" ++ cat ts ++ "}" ++ rest)%string = POk rest (TRef ts).
Proof.
  induction d as [d IH] using lt_wf_ind. intros b ts rest Hb Hne Hna Hf.
  apply (reference_run_nested d); try assumption.
  intros d' Hd' b' Hb' ts' rest' Hne' Hna' Hf'. exact (IH d' Hd' b' ts' rest' Hb' Hne' Hna' Hf').
Qed.

(** * whole strings: text and reference trees in any number and order *)
Lemma text_ends_next d s ts bad :
  noadj (TLit s :: ts) -> Forall (wft d) ts -> text_ends bad -> text_ends (cat ts ++ bad)%string.
Proof.
  intros Hn Hf Hb. destruct ts as [|x r]; [exact Hb|]. cbn [cat]. inversion Hf as [|? ? Hx _]; subst.
  destruct x as [s2 | ts2 | ts2].
  - exfalso. exact (Hn [] s s2 r eq_refl).
  - rewrite unparse_ref, !str_app_assoc. apply text_ends_open.
  - destruct (wft_comb d ts2 Hx).
Qed.

Lemma item_tok d b t rest :
  d <= b -> wft (S d) t -> (forall s, t = TLit s -> text_ends rest) ->
  item (S b) (unparse t ++ rest)%string = POk rest t.
Proof.
  intros Hb Ht Hnext. destruct t as [[|c p] | ts | ts].
  - destruct (wft_lit_empty _ Ht).
  - apply wft_lit in Ht. cbn [unparse]. exact (item_plain (S b) c p rest Ht (Hnext _ eq_refl)).
  - destruct Ht as (Hne & Hna & Hf). unfold item. cbn [alt]. rewrite unparse_ref, !str_app_assoc.
    now rewrite (nested_reference_parses_back d b ts rest Hb Hne Hna Hf).
  - destruct Ht.
Qed.

Lemma many1_rest_toks d b bad : d <= b -> text_ends bad -> item (S b) bad = PFail -> forall ts acc n,
  noadj ts -> Forall (wft (S d)) ts -> String.length (cat ts ++ bad)%string < n ->
  many1_rest n (item (S b)) (cat ts ++ bad)%string acc = POk bad (rev acc ++ ts).
Proof.
  intros Hb Hbad Hfail. induction ts as [|x ts IH]; intros acc n Hna Hf Hn.
  - destruct n as [|n]; [cbn in Hn; lia|]. cbn [cat append many1_rest]. rewrite Hfail. now rewrite app_nil_r.
  - destruct n as [|n]; [cbn in Hn; lia|]. inversion Hf as [|? ? Hx Hfs]; subst.
    cbn [cat many1_rest]. rewrite str_app_assoc.
    rewrite (item_tok d b x (cat ts ++ bad)%string Hb Hx).
    2:{ intros s ->. exact (text_ends_next (S d) s ts bad Hna Hfs Hbad). }
    pose proof (unparse_nonempty (S d) x Hx) as Hl.
    assert (E : Nat.eqb (String.length (cat ts ++ bad)%string) (String.length (unparse x ++ cat ts ++ bad)%string) = false).
    { apply Nat.eqb_neq. rewrite (length_app_str (unparse x)). lia. }
    rewrite E. rewrite (IH (x :: acc) n (noadj_tail x ts Hna) Hfs).
    + cbn [rev]. now rewrite <- app_assoc.
    + cbn [cat] in Hn. rewrite str_app_assoc, (length_app_str (unparse x)) in Hn. lia.
Qed.

Lemma cat_app l1 l2 : cat (l1 ++ l2) = (cat l1 ++ cat l2)%string.
Proof. induction l1 as [|x l1 IH]; cbn [cat app]; [reflexivity|]. now rewrite IH, str_app_assoc. Qed.

Lemma has_marker_cat l ts : In (TRef ts) l -> has_marker (cat l) = true.
Proof.
  intros Hin. apply in_split in Hin as (l1 & l2 & ->). unfold has_marker.
  rewrite cat_app. cbn [cat]. rewrite unparse_ref, !str_app_assoc.
  now rewrite (contains_app (cat l1) "${" _).
Qed.

(** every string spelled by a list of plain texts and reference trees (nesting depth within the
    documented limit of 128, no two texts in a row at any level) parses to exactly that list *)
Theorem token_trees_parse_back d t tops rs :
  d <= MAX_REF_NESTING -> noadj (t :: tops) -> Forall (wft (S d)) (t :: tops) -> In (TRef rs) (t :: tops) ->
  token_parse (cat (t :: tops)) = Parsed (match tops with [] => t | _ => TComb (t :: tops) end).
Proof.
  intros Hd Hna Hf Hin. unfold token_parse. rewrite (has_marker_cat _ rs Hin).
  unfold parse_ref, parse_ref_fuel. inversion Hf as [|? ? Ht Hfs]; subst.
  rewrite <- (app_empty_r (cat (t :: tops))). unfold many1. cbn [cat]. rewrite str_app_assoc.
  rewrite (item_tok d MAX_REF_NESTING t (cat tops ++ "")%string Hd Ht).
  2:{ intros s ->. exact (text_ends_next (S d) s tops "" Hna Hfs text_ends_nil). }
  cbn [pbind]. rewrite (many1_rest_toks d MAX_REF_NESTING "" Hd text_ends_nil (item_at_end _) tops [] _ (noadj_tail t tops Hna) Hfs); [|lia].
  cbn [pbind rev app]. unfold coalesce. cbn [fst snd].
  rewrite (coalesce_rev_noadj tops [t]); [|exact Hna]. cbn [rev app]. destruct tops; reflexivity.
Qed.

(** a decidable form of "no two texts in a row" *)
Fixpoint noadjb (ts : list token) : bool :=
  match ts with
  | TLit _ :: ((TLit _ :: _) as r) => false
  | _ :: r => noadjb r
  | [] => true
  end.

Lemma noadjb_ok : forall ts, noadjb ts = true -> noadj ts.
Proof.
  intros ts H pre a b post E. subst ts. induction pre as [|x pre IH].
  - cbn in H. discriminate.
  - apply IH. cbn [app noadjb] in H. destruct x; try exact H.
    destruct (pre ++ TLit a :: TLit b :: post) as [|y r] eqn:Ey; [destruct pre; discriminate|].
    destruct y; try exact H. discriminate.
Qed.

(* The parameter mappings the code builds are "layered": every entry is free of ValueLists or is
   one ValueList of such values (Mapping::insert splices a ValueList's layers, it never nests
   them).  This is the hypothesis of the path theorem of Proofs/PathFacts.v; here: it holds for
   converted clean YAML and is preserved by Mapping::merge. *)
From RV Require Import Model.Yaml Model.Interp Proofs.ValueFacts Proofs.MappingFacts Proofs.WfFacts Proofs.YamlFacts
     Proofs.PathFacts Proofs.Refinement.

Definition layered (m : mapping) : Prop := Forall (fun e => lay (e_val e)) m.

Lemma lay_layers v : lay v -> Forall vfree (layers_of v).
Proof. destruct v; cbn [lay layers_of]; intros H; try (constructor; [exact H | constructor]). exact H. Qed.

Lemma insert_layered m k v fc fo m' :
  layered m -> lay v -> insert_impl m k v fc fo = Ok m' -> layered m'.
Proof.
  intros Hm Hv. unfold insert_impl. destruct (strip_prefix k) as [k' p].
  destruct (m_find k' m) as [e|] eqn:Hf.
  - destruct (e_const e); [discriminate|].
    assert (He : lay (e_val e)).
    { apply m_find_In in Hf. unfold layered in Hm. rewrite Forall_forall in Hm. apply Hm, Hf. }
    destruct (fo || is_pover p); intros H; injection H as <-.
    + apply (m_set_vals k' _ m lay Hm). intros e0 _ _. exact Hv.
    + apply (m_set_vals k' _ m lay Hm). intros e0 _ _. cbn [mk_entry e_val fst snd].
      destruct (e_val e) eqn:Eo; cbn [lay];
        try (constructor; [exact He | apply lay_layers, Hv]).
      apply Forall_app. split; [exact He | apply lay_layers, Hv].
  - intros H; injection H as <-. apply Forall_app. split; [exact Hm | constructor; [exact Hv | constructor]].
Qed.

Lemma merge_layered : forall o m m', layered m -> layered o -> mapping_merge m o = Ok m' -> layered m'.
Proof.
  unfold mapping_merge. induction o as [|e o IH]; intros m m' Hm Ho H; cbn [foldM] in H; [injection H as <-; exact Hm|].
  inversion Ho as [|? ? He Ho']; subst.
  destruct (insert_impl m (e_key e) (e_val e) (e_const e) (e_over e)) as [m1| | |] eqn:Hi; cbn [bind] in H; try discriminate.
  apply (IH m1 m'); [exact (insert_layered _ _ _ _ _ _ Hm He Hi) | exact Ho' | exact H].
Qed.

(** converted clean YAML holds no ValueList at all *)
Lemma conv_vfree : forall y, clean_yaml y -> vfree (conv y).
Proof.
  induction y as [| b | n | s0 | l IH | l IH | t y IH] using yaml_ind'; intros Hc; try exact I.
  - rewrite (conv_seq l Hc). cbn [vfree]. cbn [clean_yaml] in Hc.
    revert IH Hc. induction l as [|x l IHl]; intros IH Hc; [exact I|].
    inversion IH as [|? ? Hx IHr]; subst. destruct Hc as [Hcx Hcl]. cbn [map]. split; [exact (Hx Hcx) | exact (IHl IHr Hcl)].
  - rewrite (conv_map l Hc). apply vfree_map_iff. rewrite Forall_map.
    destruct (clean_layer_facts l Hc) as (_ & Hv & _ & _).
    revert IH Hv. clear Hc. induction l as [|[k v] l IHl]; intros IH Hv; constructor.
    + inversion IH as [|? ? [_ Hx] _]; subst. cbn [entry_of mk_entry e_val fst snd]. apply Hx, Hv.
    + inversion IH; subst. apply IHl; [assumption | apply Hv].
Qed.

Lemma conv_layer_layered es : clean_yaml (YMap es) -> layered (map (entry_of conv) es).
Proof.
  intros Hc. pose proof (conv_vfree (YMap es) Hc) as Hv. rewrite (conv_map es Hc) in Hv.
  apply vfree_map_iff in Hv. unfold layered. eapply Forall_impl; [|exact Hv]. intros e He. apply vfree_lay, He.
Qed.

(** the merge of any stack of clean layers is layered *)
Theorem stack_layered : forall ys m0 m,
  Forall clean_layer ys -> layered m0 ->
  foldM (fun acc y => m <- try_mapping_of_yaml y ;; mapping_merge acc m) ys m0 = Ok m -> layered m.
Proof.
  induction ys as [|y ys IH]; intros m0 m Hc H0 H; cbn [foldM] in H; [injection H as <-; exact H0|].
  inversion Hc as [|? ? Hy Hys]; subst. destruct y as [| | | | | es |]; try (exfalso; exact Hy). cbn [clean_layer] in Hy.
  destruct (clean_layer_facts es Hy) as (Hk & Hv & Hnd & _).
  assert (El : try_mapping_of_yaml (YMap es) = Ok (map (entry_of conv) es)).
  { unfold try_mapping_of_yaml. rewrite try_map_eq. unfold rmap. rewrite (try_map_clean es [] Hk Hv); [reflexivity | exact Hnd]. }
  rewrite El in H. cbn [bind] in H.
  destruct (mapping_merge m0 (map (entry_of conv) es)) as [m1| | |] eqn:Em; cbn [bind] in H; try discriminate.
  apply (IH m1 m Hys); [|exact H]. exact (merge_layered _ _ _ H0 (conv_layer_layered es Hy) Em).
Qed.

(* The fallible YAML conversion used for inventory files (Value::try_from_yaml): never panics;
   on YAML whose mapping keys are scalars carrying at most one marker and pairwise distinct
   after stripping it ("clean keys") the result is well-formed. *)
From RV Require Import Model.Yaml Proofs.ValueFacts Proofs.MappingFacts Proofs.WfFacts.

Definition ykey (k : yaml) : option value :=
  match k with
  | YNull => Some VNull
  | YBool b => Some (VBool b)
  | YNum n => Some (VNum n)
  | YStr s => Some (VStr s)
  | _ => None
  end.

Fixpoint ykeys (l : list (yaml * yaml)) : option (list value) :=
  match l with
  | [] => Some []
  | (k, _) :: l' => match ykey k, ykeys l' with Some a, Some b => Some (a :: b) | _, _ => None end
  end.

Definition clean_keys (l : list (yaml * yaml)) : Prop :=
  exists ks, ykeys l = Some ks /\ NoDup (map stripped ks) /\ Forall (fun k => unmarked (stripped k)) ks.

Fixpoint clean_yaml (y : yaml) : Prop :=
  match y with
  | YMap l =>
      clean_keys l /\
      (fix go (l : list (yaml * yaml)) : Prop :=
         match l with [] => True | (_, v) :: l' => clean_yaml v /\ go l' end) l
  | YSeq l =>
      (fix go (l : list yaml) : Prop := match l with [] => True | x :: l' => clean_yaml x /\ go l' end) l
  | YTagged _ _ => False
  | _ => True
  end.

Section YamlInd.
  Variable P : yaml -> Prop.
  Hypothesis HNull : P YNull.
  Hypothesis HBool : forall b, P (YBool b).
  Hypothesis HNum : forall n, P (YNum n).
  Hypothesis HStr : forall s, P (YStr s).
  Hypothesis HSeq : forall l, Forall P l -> P (YSeq l).
  Hypothesis HMap : forall l, Forall (fun kv => P (fst kv) /\ P (snd kv)) l -> P (YMap l).
  Hypothesis HTag : forall t y, P y -> P (YTagged t y).

  Fixpoint yaml_ind' (y : yaml) : P y :=
    match y with
    | YNull => HNull
    | YBool b => HBool b
    | YNum n => HNum n
    | YStr s => HStr s
    | YSeq l => HSeq l ((fix go (l : list yaml) : Forall P l :=
                           match l with [] => Forall_nil _ | x :: xs => Forall_cons _ (yaml_ind' x) (go xs) end) l)
    | YMap l => HMap l ((fix go (l : list (yaml * yaml)) : Forall (fun kv => P (fst kv) /\ P (snd kv)) l :=
                           match l with
                           | [] => Forall_nil _
                           | kv :: xs => Forall_cons kv (match kv as p return P (fst p) /\ P (snd p) with
                                                         | (k, v) => conj (yaml_ind' k) (yaml_ind' v) end) (go xs)
                           end) l)
    | YTagged t y => HTag t y (yaml_ind' y)
    end.
End YamlInd.

Fixpoint try_seq (l : list yaml) : res (list value) :=
  match l with
  | [] => Ok []
  | x :: xs => v <- try_value_of_yaml x ;; vs <- try_seq xs ;; Ok (v :: vs)
  end.

Fixpoint try_map (l : list (yaml * yaml)) (acc : mapping) : res mapping :=
  match l with
  | [] => Ok acc
  | (k, v) :: l' =>
      kv <- try_value_of_yaml k ;; vv <- try_value_of_yaml v ;; acc' <- m_insert acc kv vv ;; try_map l' acc'
  end.

Lemma try_seq_eq l : try_value_of_yaml (YSeq l) = rmap VSeq (try_seq l).
Proof. reflexivity. Qed.

Lemma try_map_eq l : try_value_of_yaml (YMap l) = rmap VMap (try_map l []).
Proof. reflexivity. Qed.

(** the conversion used for inventory files never panics and never needs fuel *)
Theorem try_value_no_panic : forall y s, try_value_of_yaml y <> Panic s /\ try_value_of_yaml y <> OutOfFuel.
Proof.
  induction y as [| b | n | s0 | l IH | l IH | t y IH] using yaml_ind'; intros s; try (split; discriminate).
  - rewrite try_seq_eq. unfold rmap.
    assert (G : try_seq l <> Panic s /\ try_seq l <> OutOfFuel).
    { induction l as [|x l IHl]; cbn [try_seq]; [split; discriminate|].
      inversion IH as [|? ? Hx IHr]; subst. destruct (Hx s) as [H1 H2].
      destruct (try_value_of_yaml x); cbn [bind]; try (split; congruence).
      destruct (IHl IHr) as [H3 H4]. destruct (try_seq l); cbn [bind]; split; congruence. }
    destruct G as [G1 G2]. destruct (try_seq l); cbn [bind]; split; congruence.
  - rewrite try_map_eq. unfold rmap.
    assert (G : forall acc, try_map l acc <> Panic s /\ try_map l acc <> OutOfFuel).
    { induction l as [|[k v] l IHl]; intros acc; cbn [try_map]; [split; discriminate|].
      inversion IH as [|? ? [Hk Hv] IHr]; subst. cbn [fst snd] in Hk, Hv.
      destruct (Hk s) as [H1 H2]. destruct (try_value_of_yaml k) as [kv| | |]; cbn [bind]; try (split; congruence).
      destruct (Hv s) as [H3 H4]. destruct (try_value_of_yaml v) as [vv| | |]; cbn [bind]; try (split; congruence).
      unfold m_insert. destruct (insert_total acc kv vv false false) as [[m' ->] | ->]; cbn [bind]; [apply IHl, IHr | split; discriminate]. }
    destruct (G []) as [G1 G2]. destruct (try_map l []); cbn [bind]; split; congruence.
Qed.

Lemma ykey_try k a : ykey k = Some a -> try_value_of_yaml k = Ok a.
Proof. destruct k; cbn; intros H; try discriminate; injection H as <-; reflexivity. Qed.

(** clean YAML converts to well-formed values *)
Theorem try_value_wf : forall y, clean_yaml y -> exists v, try_value_of_yaml y = Ok v /\ wf v.
Proof.
  induction y as [| b | n | s0 | l IH | l IH | t y IH] using yaml_ind'; intros Hc;
    try (eexists; split; [reflexivity | exact I]).
  - rewrite try_seq_eq.
    assert (G : exists vs, try_seq l = Ok vs /\ Forall wf vs).
    { cbn [clean_yaml] in Hc. induction l as [|x l IHl]; [exists []; split; [reflexivity | constructor]|].
      inversion IH as [|? ? Hx IHr]; subst. destruct Hc as [Hcx Hcl].
      destruct (Hx Hcx) as (v & Ev & Hv). destruct (IHl IHr Hcl) as (vs & Evs & Hvs).
      exists (v :: vs). cbn [try_seq]. rewrite Ev, Evs. split; [reflexivity | constructor; assumption]. }
    destruct G as (vs & -> & Hvs). eexists. split; [reflexivity | now apply wf_seq_iff].
  - rewrite try_map_eq. cbn [clean_yaml] in Hc. destruct Hc as [(ks & Hks & Hnd & Hum) Hvals].
    assert (G : forall l ks (acc : mapping),
               Forall (fun kv => (clean_yaml (fst kv) -> exists v, try_value_of_yaml (fst kv) = Ok v /\ wf v) /\
                                 (clean_yaml (snd kv) -> exists v, try_value_of_yaml (snd kv) = Ok v /\ wf v)) l ->
               ykeys l = Some ks ->
               (fix go (l : list (yaml * yaml)) : Prop := match l with [] => True | (_, v) :: l' => clean_yaml v /\ go l' end) l ->
               wf (VMap acc) -> NoDup (keys acc ++ map stripped ks) -> Forall (fun k => unmarked (stripped k)) ks ->
               exists m, try_map l acc = Ok m /\ wf (VMap m)).
    { clear. induction l as [|[k v] l IHl]; intros ks acc IH Hks Hvals Ha Hnd Hum; cbn [try_map].
      - exists acc. split; [reflexivity | exact Ha].
      - inversion IH as [|? ? [_ Hv] IHr]; subst. cbn [fst snd] in Hv. destruct Hvals as [Hcv Hvals].
        cbn [ykeys] in Hks. destruct (ykey k) as [a|] eqn:Ek; [|discriminate].
        destruct (ykeys l) as [ks'|] eqn:Eks; [|discriminate]. injection Hks as <-.
        rewrite (ykey_try _ _ Ek). cbn [bind]. destruct (Hv Hcv) as (vv & -> & Hwv). cbn [bind].
        inversion Hum as [|? ? Hua Hum']; subst. cbn [map] in Hnd.
        assert (Habs : m_find (stripped a) acc = None).
        { apply m_find_none_keys. apply NoDup_remove_2 in Hnd. intros Hin. apply Hnd, in_or_app. now left. }
        unfold m_insert. rewrite (insert_absent _ _ _ _ _ Habs). cbn [bind].
        apply (IHl ks'); try assumption; try reflexivity.
        + apply wf_map_iff in Ha as (Hn1 & Hu1 & Hw1). apply wf_map_iff. unfold keys in *. rewrite map_app. cbn [map mk_entry e_key e_val fst snd].
          split; [|split].
          * apply NoDup_remove_1 in Hnd as Hnd1. apply NoDup_remove_2 in Hnd.
            clear - Hn1 Hnd. induction (map e_key acc) as [|y l0 IHl0]; cbn; [constructor; [tauto | constructor]|].
            inversion Hn1; subst. constructor.
            -- rewrite in_app_iff. cbn. intros [Hy|[Hy|[]]]; [tauto|]. subst. apply Hnd. now left.
            -- apply IHl0; [assumption|]. intro Hy. apply Hnd. cbn. rewrite in_app_iff in *. tauto.
          * apply Forall_app. split; [assumption | constructor; [exact Hua | constructor]].
          * apply Forall_app. split; [assumption | constructor; [exact Hwv | constructor]].
        + unfold keys in *. rewrite map_app. cbn [map mk_entry e_key fst]. rewrite <- app_assoc. exact Hnd. }
    destruct (G l ks (@nil entry) IH Hks Hvals) as (m & Em & Hm); try assumption.
    + apply wf_map_iff. repeat split; constructor.
    + exists (VMap m). split; [|exact Hm]. unfold rmap. change (@nil (value * value * bool * bool)) with (@nil entry). rewrite Em. reflexivity.
  - destruct Hc.
Qed.

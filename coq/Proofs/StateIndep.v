(* Successful results of the interpreter do not depend on the resolution state: the state
   (recorded paths, depth, current parameter name) only ever turns a result into an error or
   changes an error text.  Basis of C03 (a reference yields the value its target renders to)
   and C04 (a reference layer merges like the inline value). *)
From RV Require Import Model.Interp Proofs.ValueFacts Proofs.MappingFacts Proofs.WfFacts.

(** * the current-key text only appears in errors *)
Lemma merge_core_ck ck ck' a b r : merge_core ck a b = Ok r -> merge_core ck' a b = Ok r.
Proof.
  destruct a as [| ? | ? | ? | ? | es | l | l]; cbn [merge_core]; try (intros H; exact H); try discriminate.
  - destruct (is_mapping b || is_sequence b); [discriminate | auto].
  - destruct (is_mapping b || is_sequence b); [discriminate | auto].
  - destruct (is_mapping b || is_sequence b); [discriminate | auto].
  - destruct b; try discriminate; auto.
  - destruct b; try discriminate; auto.
Qed.

Lemma flattened_ck ck ck' : forall v r, flattened ck v = Ok r -> flattened ck' v = Ok r.
Proof.
  induction v as [| b | s | s | n | es IH | vs IH | vs IH] using value_ind'; intros r H; try exact H; try discriminate.
  - rewrite flattened_vmap in *. unfold rmap in *.
    destruct (flat_entries ck es []) as [m| | |] eqn:E; cbn [bind] in H; try discriminate. injection H as <-.
    assert (G : forall acc m, flat_entries ck es acc = Ok m -> flat_entries ck' es acc = Ok m).
    { clear E. induction es as [|[[[k v] c] o] es IHes]; intros acc m0 Hm; cbn [flat_entries] in *; [exact Hm|].
      inversion IH as [|? ? [_ Hx] IHr]; subst. cbn [e_val fst snd] in Hx.
      destruct (flattened ck v) as [fv| | |] eqn:Ef; cbn [bind] in Hm; try discriminate.
      rewrite (Hx fv eq_refl). cbn [bind].
      destruct (insert_impl acc k fv c o) as [acc'| | |]; cbn [bind] in *; try discriminate. exact (IHes IHr _ _ Hm). }
    rewrite (G [] m E). reflexivity.
  - rewrite flattened_vseq in *. unfold rmap in *.
    destruct (flat_seq ck vs) as [l| | |] eqn:E; cbn [bind] in H; try discriminate. injection H as <-.
    assert (G : forall l, flat_seq ck vs = Ok l -> flat_seq ck' vs = Ok l).
    { clear E. induction vs as [|x vs IHvs]; intros l0 Hl; cbn [flat_seq] in *; [exact Hl|].
      inversion IH as [|? ? Hx IHr]; subst.
      destruct (flattened ck x) as [y| | |] eqn:Ey; cbn [bind] in Hl; try discriminate. rewrite (Hx y eq_refl). cbn [bind].
      destruct (flat_seq ck vs) as [ys| | |] eqn:Eys; cbn [bind] in Hl; try discriminate.
      rewrite (IHvs IHr ys eq_refl). exact Hl. }
    rewrite (G l E). reflexivity.
  - rewrite flattened_vlist in *.
    assert (G : forall base r, flat_fold ck vs base = Ok r -> flat_fold ck' vs base = Ok r).
    { clear H. induction vs as [|x vs IHvs]; intros base r0 Hf; cbn [flat_fold] in *; [exact Hf|].
      inversion IH as [|? ? Hx IHr]; subst.
      destruct (is_null x); cbn [bind] in *; [exact (IHvs IHr _ _ Hf)|].
      destruct (match x with VList _ => flattened ck x | _ => Ok x end) as [x'| | |] eqn:Ex; cbn [bind] in Hf; try discriminate.
      assert (Ex' : match x with VList _ => flattened ck' x | _ => Ok x end = Ok x').
      { destruct x; try exact Ex. apply Hx, Ex. }
      rewrite Ex'. cbn [bind].
      destruct (merge_core ck base x') as [b'| | |] eqn:Em; cbn [bind] in Hf; try discriminate.
      rewrite (merge_core_ck ck ck' _ _ _ Em). cbn [bind]. exact (IHvs IHr _ _ Hf). }
    apply G, H.
Qed.

Lemma value_merge_ck ck ck' a b r : value_merge ck a b = Ok r -> value_merge ck' a b = Ok r.
Proof.
  unfold value_merge. destruct (is_null b); [auto|]. destruct (is_vlist b).
  - destruct (flattened ck b) as [b'| | |] eqn:E; cbn [bind]; try discriminate. rewrite (flattened_ck ck ck' _ _ E). cbn [bind].
    apply merge_core_ck.
  - cbn [bind]. apply merge_core_ck.
Qed.

Lemma push_mapping_key_ok st st' k s1 : push_mapping_key st k = Ok s1 -> exists s2, push_mapping_key st' k = Ok s2.
Proof.
  unfold push_mapping_key. destruct (raw_string k); try discriminate.
  - intros _. eexists; reflexivity.
  - destruct k; try discriminate. intros _. eexists; reflexivity.
Qed.

(** * loops *)
Definition cb_indep (call : callback) : Prop :=
  forall v sa sb ra sa' rb sb', call v sa = Ok (ra, sa') -> call v sb = Ok (rb, sb') -> ra = rb.

Lemma seq_loop_indep call : cb_indep call -> forall s idx st1 st2 l1 l2,
  seq_loop call st1 s idx = Ok l1 -> seq_loop call st2 s idx = Ok l2 -> l1 = l2.
Proof.
  intros Hc. induction s as [|x s IH]; intros idx st1 st2 l1 l2 H1 H2; cbn [seq_loop] in *; [congruence|].
  destruct (call x (push_list_index st1 idx)) as [[e1 s1]| | |] eqn:E1; cbn [bind] in H1; try discriminate.
  destruct (call x (push_list_index st2 idx)) as [[e2 s2]| | |] eqn:E2; cbn [bind] in H2; try discriminate.
  destruct (seq_loop call st1 s (S idx)) as [r1| | |] eqn:R1; cbn [bind] in H1; try discriminate.
  destruct (seq_loop call st2 s (S idx)) as [r2| | |] eqn:R2; cbn [bind] in H2; try discriminate.
  injection H1 as <-. injection H2 as <-. f_equal; [eapply Hc; eauto | eapply IH; eauto].
Qed.

Lemma vlist_loop_indep call : cb_indep call -> forall l r st1 st2 r1 r2,
  vlist_loop call st1 l r = Ok r1 -> vlist_loop call st2 l r = Ok r2 -> r1 = r2.
Proof.
  intros Hc. induction l as [|x l IH]; intros r st1 st2 r1 r2 H1 H2; cbn [vlist_loop] in *; [congruence|].
  destruct (call x st1) as [[iv1 s1]| | |] eqn:E1; cbn [bind] in H1; try discriminate.
  destruct (call x st2) as [[iv2 s2]| | |] eqn:E2; cbn [bind] in H2; try discriminate.
  assert (iv1 = iv2) by (eapply Hc; eauto). subst iv2.
  destruct (value_merge (current_key s1) r iv1) as [m1| | |] eqn:M1; cbn [bind] in H1; try discriminate.
  rewrite (value_merge_ck _ (current_key s2) _ _ _ M1) in H2. cbn [bind] in H2. eapply IH; eauto.
Qed.

Lemma map_loop_indep call : cb_indep call -> forall es acc st1 st2 m1 m2,
  map_loop call st1 es acc = Ok m1 -> map_loop call st2 es acc = Ok m2 -> m1 = m2.
Proof.
  intros Hc. induction es as [|[[[k v] c] o] es IH]; intros acc st1 st2 m1 m2 H1 H2; cbn [map_loop] in *; [congruence|].
  destruct (push_mapping_key st1 k) as [p1| | |]; cbn [bind] in H1; try discriminate.
  destruct (push_mapping_key st2 k) as [p2| | |]; cbn [bind] in H2; try discriminate.
  destruct (call v p1) as [[v1 s1]| | |] eqn:E1; cbn [bind] in H1; try discriminate.
  destruct (call v p2) as [[v2 s2]| | |] eqn:E2; cbn [bind] in H2; try discriminate.
  assert (v1 = v2) by (eapply Hc; eauto). subst v2.
  destruct (flattened (current_key s1) v1) as [fv| | |] eqn:F1; cbn [bind] in H1; try discriminate.
  rewrite (flattened_ck _ (current_key s2) _ _ F1) in H2. cbn [bind] in H2.
  destruct (insert_impl acc k fv c o); cbn [bind] in *; try discriminate. eapply IH; eauto.
Qed.

Lemma walk_loop_indep sov path : cb_indep sov -> forall segs v st1 st2 trav1 trav2 r1 s1 r2 s2,
  walk_loop sov path segs v st1 trav1 = Ok (r1, s1) -> walk_loop sov path segs v st2 trav2 = Ok (r2, s2) -> r1 = r2.
Proof.
  intros Hc. induction segs as [|key segs IH]; intros v st1 st2 trav1 trav2 r1 s1 r2 s2 H1 H2; cbn [walk_loop] in *; [congruence|].
  destruct (sov v st1) as [[n1 t1]| | |] eqn:E1; cbn [bind] in H1; try discriminate.
  destruct (sov v st2) as [[n2 t2]| | |] eqn:E2; cbn [bind] in H2; try discriminate.
  assert (n1 = n2) by (eapply Hc; eauto). subst n2.
  destruct n1; try discriminate. destruct (m_get (VStr key) es); [|discriminate]. eapply IH; eauto.
Qed.

Lemma sov_loop_indep call : cb_indep call -> forall l st1 st2 l1 l2,
  sov_loop call st1 l = Ok l1 -> sov_loop call st2 l = Ok l2 -> l1 = l2.
Proof.
  intros Hc. induction l as [|x l IH]; intros st1 st2 l1 l2 H1 H2; cbn [sov_loop] in *; [congruence|].
  destruct (is_string x).
  - destruct (call x st1) as [[y1 s1]| | |] eqn:E1; cbn [bind] in H1; try discriminate.
    destruct (call x st2) as [[y2 s2]| | |] eqn:E2; cbn [bind] in H2; try discriminate.
    destruct (sov_loop call st1 l) as [r1| | |] eqn:R1; cbn [bind] in H1; try discriminate.
    destruct (sov_loop call st2 l) as [r2| | |] eqn:R2; cbn [bind] in H2; try discriminate.
    injection H1 as <-. injection H2 as <-. f_equal; [eapply Hc; eauto | eapply IH; eauto].
  - cbn [bind] in *.
    destruct (sov_loop call st1 l) as [r1| | |] eqn:R1; cbn [bind] in H1; try discriminate.
    destruct (sov_loop call st2 l) as [r2| | |] eqn:R2; cbn [bind] in H2; try discriminate.
    injection H1 as <-. injection H2 as <-. f_equal. eapply IH; eauto.
Qed.

Lemma slice_loop_indep resolve ws call :
  (forall t sa sb ra sa' rb sb', resolve t sa = Ok (ra, sa') -> resolve t sb = Ok (rb, sb') -> ra = rb) ->
  cb_indep ws -> cb_indep call -> forall ts st1 st2 s1 s2,
  slice_loop resolve ws call st1 ts = Ok s1 -> slice_loop resolve ws call st2 ts = Ok s2 -> s1 = s2.
Proof.
  intros Hr Hw Hc. induction ts as [|t ts IH]; intros st1 st2 s1 s2 H1 H2; cbn [slice_loop] in *; [congruence|].
  destruct (resolve t st1) as [[v1 a1]| | |] eqn:E1; cbn [bind] in H1; try discriminate.
  destruct (resolve t st2) as [[v2 a2]| | |] eqn:E2; cbn [bind] in H2; try discriminate.
  assert (v1 = v2) by (eapply Hr; eauto). subst v2.
  destruct (ws v1 a1) as [[w1 b1]| | |] eqn:W1; cbn [bind] in H1; try discriminate.
  destruct (ws v1 a2) as [[w2 b2]| | |] eqn:W2; cbn [bind] in H2; try discriminate.
  assert (w1 = w2) by (eapply Hw; eauto). subst w2.
  destruct (is_mapping w1 || is_sequence w1).
  - destruct (call w1 b1) as [[x1 c1]| | |] eqn:C1; cbn [bind] in H1; try discriminate.
    destruct (call w1 b2) as [[x2 c2]| | |] eqn:C2; cbn [bind] in H2; try discriminate.
    assert (x1 = x2) by (eapply Hc; eauto). subst x2.
    destruct (raw_string x1); cbn [bind] in *; try discriminate.
    destruct (slice_loop resolve ws call st1 ts) as [r1| | |] eqn:R1; cbn [bind] in H1; try discriminate.
    destruct (slice_loop resolve ws call st2 ts) as [r2| | |] eqn:R2; cbn [bind] in H2; try discriminate.
    injection H1 as <-. injection H2 as <-. f_equal. eapply IH; eauto.
  - cbn [bind] in *. destruct (raw_string w1); cbn [bind] in *; try discriminate.
    destruct (slice_loop resolve ws call st1 ts) as [r1| | |] eqn:R1; cbn [bind] in H1; try discriminate.
    destruct (slice_loop resolve ws call st2 ts) as [r2| | |] eqn:R2; cbn [bind] in H2; try discriminate.
    injection H1 as <-. injection H2 as <-. f_equal. eapply IH; eauto.
Qed.

Section Main.
Variable root : mapping.

Definition I_interp f := cb_indep (interp f root).
Definition I_map f := forall m st1 st2 m1 m2, mapping_interp f root m st1 = Ok m1 -> mapping_interp f root m st2 = Ok m2 -> m1 = m2.
Definition I_render f := forall t sa sb ra sa' rb sb', token_render f root t sa = Ok (ra, sa') -> token_render f root t sb = Ok (rb, sb') -> ra = rb.
Definition I_resolve f := forall t sa sb ra sa' rb sb', token_resolve f root t sa = Ok (ra, sa') -> token_resolve f root t sb = Ok (rb, sb') -> ra = rb.
Definition I_slice f := forall ts st1 st2 s1 s2, token_slice f root ts st1 = Ok s1 -> token_slice f root ts st2 = Ok s2 -> s1 = s2.
Definition I_sov f := cb_indep (interp_sov f root).
Definition I_while f := cb_indep (interp_while f root).
Definition I_while_str f := cb_indep (interp_while_str f root).
Definition I_all f := I_interp f /\ I_map f /\ I_render f /\ I_resolve f /\ I_slice f /\ I_sov f /\ I_while f /\ I_while_str f.

Lemma indep_facts : forall f, I_all f.
Proof.
  induction f as [|f (Hi & Hm & Hr & Hs & Hsl & Hv & Hw & Hws)].
  - unfold I_all, I_interp, I_map, I_render, I_resolve, I_slice, I_sov, I_while, I_while_str, cb_indep.
    repeat split; intros *; cbn; discriminate.
  - split; [|split; [|split; [|split; [|split; [|split; [|split]]]]]].
    + (* interp *)
      intros v sa sb ra sa' rb sb' H1 H2. cbn [interp] in *. destruct v as [| b | s | s | n | es | l | l]; try congruence.
      * destruct (token_parse s); try discriminate; [congruence | eapply Hr; eauto].
      * destruct (mapping_interp f root es sa) as [m1| | |] eqn:E1; cbn [bind] in H1; try discriminate.
        destruct (mapping_interp f root es sb) as [m2| | |] eqn:E2; cbn [bind] in H2; try discriminate.
        injection H1 as <- _. injection H2 as <- _. f_equal. exact (Hm _ _ _ _ _ E1 E2).
      * destruct (seq_loop (interp f root) sa l 0) as [l1| | |] eqn:E1; cbn [bind] in H1; try discriminate.
        destruct (seq_loop (interp f root) sb l 0) as [l2| | |] eqn:E2; cbn [bind] in H2; try discriminate.
        injection H1 as <- _. injection H2 as <- _. f_equal. exact (seq_loop_indep _ Hi _ _ _ _ _ _ E1 E2).
      * destruct (vlist_loop (interp f root) sa l VNull) as [r1| | |] eqn:E1; cbn [bind] in H1; try discriminate.
        destruct (vlist_loop (interp f root) sb l VNull) as [r2| | |] eqn:E2; cbn [bind] in H2; try discriminate.
        assert (r1 = r2) by exact (vlist_loop_indep _ Hi _ _ _ _ _ _ E1 E2). subst r2. exact (Hi _ _ _ _ _ _ _ H1 H2).
    + (* mapping_interp *)
      intros m st1 st2 m1 m2 H1 H2. cbn [mapping_interp] in *. exact (map_loop_indep _ Hi _ _ _ _ _ _ H1 H2).
    + (* token_render *)
      intros t sa sb ra sa' rb sb' H1 H2. cbn [token_render] in *. destruct t as [s | ts | ts].
      * destruct (token_resolve f root (TLit s) sa) as [[v1 a1]| | |] eqn:E1; cbn [bind] in H1; try discriminate.
        destruct (token_resolve f root (TLit s) sb) as [[v2 a2]| | |] eqn:E2; cbn [bind] in H2; try discriminate.
        assert (v1 = v2) by (eapply Hs; eauto). subst v2.
        destruct (raw_string v1); cbn [bind] in *; try discriminate. congruence.
      * destruct (token_resolve f root (TRef ts) sa) as [[v1 a1]| | |] eqn:E1; cbn [bind] in H1; try discriminate.
        destruct (token_resolve f root (TRef ts) sb) as [[v2 a2]| | |] eqn:E2; cbn [bind] in H2; try discriminate.
        assert (v1 = v2) by (eapply Hs; eauto). subst v2. eapply Hi; eauto.
      * destruct (token_resolve f root (TComb ts) sa) as [[v1 a1]| | |] eqn:E1; cbn [bind] in H1; try discriminate.
        destruct (token_resolve f root (TComb ts) sb) as [[v2 a2]| | |] eqn:E2; cbn [bind] in H2; try discriminate.
        assert (v1 = v2) by (eapply Hs; eauto). subst v2.
        destruct (raw_string v1); cbn [bind] in *; try discriminate. congruence.
    + (* token_resolve *)
      intros t sa sb ra sa' rb sb' H1 H2. cbn [token_resolve] in *. destruct t as [s | parts | ts]; try congruence.
      * destruct (Nat.ltb RESOLVE_MAX_DEPTH (depth (with_depth sa (S (depth sa))))); [discriminate|].
        destruct (Nat.ltb RESOLVE_MAX_DEPTH (depth (with_depth sb (S (depth sb))))); [discriminate|].
        destruct (token_slice f root parts (with_depth sa (S (depth sa)))) as [p1| | |] eqn:P1; cbn [bind] in H1; try discriminate.
        destruct (token_slice f root parts (with_depth sb (S (depth sb)))) as [p2| | |] eqn:P2; cbn [bind] in H2; try discriminate.
        assert (p1 = p2) by (eapply Hsl; eauto). subst p2.
        destruct (mem p1 (seen (with_depth sa (S (depth sa))))); [discriminate|].
        destruct (mem p1 (seen (with_depth sb (S (depth sb))))); [discriminate|].
        destruct (split_on ":" p1) as [|k0 segs]; [discriminate|].
        destruct (m_get (VStr k0) root) as [v0|]; [|discriminate].
        destruct (walk_loop (interp_sov f root) p1 segs v0 (add_seen (with_depth sa (S (depth sa))) p1) [k0]) as [[w1 a1]| | |] eqn:W1; cbn [bind] in H1; try discriminate.
        destruct (walk_loop (interp_sov f root) p1 segs v0 (add_seen (with_depth sb (S (depth sb))) p1) [k0]) as [[w2 a2]| | |] eqn:W2; cbn [bind] in H2; try discriminate.
        assert (w1 = w2) by exact (walk_loop_indep _ _ Hv _ _ _ _ _ _ _ _ _ _ W1 W2). subst w2. exact (Hw _ _ _ _ _ _ _ H1 H2).
      * destruct (token_slice f root ts sa) as [s1| | |] eqn:S1; cbn [bind] in H1; try discriminate.
        destruct (token_slice f root ts sb) as [s2| | |] eqn:S2; cbn [bind] in H2; try discriminate.
        assert (s1 = s2) by (eapply Hsl; eauto). congruence.
    + (* token_slice *)
      intros ts st1 st2 s1 s2 H1 H2. cbn [token_slice] in *. exact (slice_loop_indep _ _ _ Hs Hws Hi _ _ _ _ _ H1 H2).
    + (* interp_sov *)
      intros v sa sb ra sa' rb sb' H1 H2. cbn [interp_sov] in *. destruct v as [| b | s | s | n | es | l | l]; try congruence.
      * eapply Hi; eauto.
      * destruct (sov_loop (interp f root) sa l) as [i1| | |] eqn:E1; cbn [bind] in H1; try discriminate.
        destruct (sov_loop (interp f root) sb l) as [i2| | |] eqn:E2; cbn [bind] in H2; try discriminate.
        assert (i1 = i2) by exact (sov_loop_indep _ Hi _ _ _ _ _ E1 E2). subst i2.
        destruct (flattened (current_key sa) (VList i1)) as [r1| | |] eqn:F1; cbn [bind] in H1; try discriminate.
        rewrite (flattened_ck _ (current_key sb) _ _ F1) in H2. cbn [bind] in H2. congruence.
    + (* interp_while *)
      intros v sa sb ra sa' rb sb' H1 H2. cbn [interp_while] in *. destruct (is_string v || is_vlist v); [|congruence].
      destruct (interp f root v sa) as [[v1 a1]| | |] eqn:E1; cbn [bind] in H1; try discriminate.
      destruct (interp f root v sb) as [[v2 a2]| | |] eqn:E2; cbn [bind] in H2; try discriminate.
      assert (v1 = v2) by (eapply Hi; eauto). subst v2. eapply Hw; eauto.
    + (* interp_while_str *)
      intros v sa sb ra sa' rb sb' H1 H2. cbn [interp_while_str] in *. destruct (is_string v); [|congruence].
      destruct (interp f root v sa) as [[v1 a1]| | |] eqn:E1; cbn [bind] in H1; try discriminate.
      destruct (interp f root v sb) as [[v2 a2]| | |] eqn:E2; cbn [bind] in H2; try discriminate.
      assert (v1 = v2) by (eapply Hi; eauto). subst v2. eapply Hws; eauto.
Qed.

End Main.

Theorem interp_state_independent f root v sa sb ra sa' rb sb' :
  interp f root v sa = Ok (ra, sa') -> interp f root v sb = Ok (rb, sb') -> ra = rb.
Proof. exact (proj1 (indep_facts root f) v sa sb ra sa' rb sb'). Qed.

(* C02 with C04, end to end on stacks of YAML layers that do contain references: the render of
   the stack is the render of its inlined twin -- the stack in which, anywhere, reference strings
   are replaced by the YAML of what they render to -- and therefore, when that twin is
   reference-free, the deep merge (Spec/DeepMerge.v) of the twin. *)
From RV Require Import Model.Yaml Model.Interp Model.Node Spec.DeepMerge Proofs.ValueFacts Proofs.MappingFacts Proofs.WfFacts
     Proofs.YamlFacts Proofs.SemiClean Proofs.InterpFacts Proofs.Mono Proofs.Refinement Proofs.NodeRefines Proofs.Twin Proofs.Unrender Proofs.Inline.

Section TS.
  Variable root : mapping.

  (** the twin relation on YAML documents: equal up to reference strings replaced by a document
      that spells what the reference renders to against [root] -- it converts to the rendered value
      [w] with (some of) its literal strings as plain strings, as a document holds them *)
  Fixpoint ytw (y y' : yaml) : Prop :=
    match y with
    | YStr s => y' = YStr s \/ exists w b, try_value_of_yaml y' = Ok b /\ denotes root (VStr s) w /\ lw w b
    | YSeq l =>
        exists l', y' = YSeq l' /\
          (fix go (l l' : list yaml) : Prop :=
             match l, l' with [], [] => True | x :: r, x' :: r' => ytw x x' /\ go r r' | _, _ => False end) l l'
    | YMap l =>
        exists l', y' = YMap l' /\
          (fix go (l l' : list (yaml * yaml)) : Prop :=
             match l, l' with
             | [], [] => True
             | (k, v) :: r, (k', v') :: r' => (k' = k /\ ytw v v') /\ go r r'
             | _, _ => False
             end) l l'
    | _ => y' = y
    end.

  Definition ytwe (kv kv' : yaml * yaml) : Prop := fst kv' = fst kv /\ ytw (snd kv) (snd kv').

  Lemma ytw_seq_iff l y' : ytw (YSeq l) y' <-> exists l', y' = YSeq l' /\ Forall2 ytw l l'.
  Proof.
    cbn [ytw]. split; intros (l' & -> & H); exists l'; (split; [reflexivity|]).
    - revert l' H. induction l as [|x l IH]; intros [|x' l'] H; try (destruct H; fail); constructor; [exact (proj1 H) | exact (IH _ (proj2 H))].
    - induction H as [|x x' l l' Hx _ IH]; [exact I | split; assumption].
  Qed.

  Lemma ytw_map_iff l y' : ytw (YMap l) y' <-> exists l', y' = YMap l' /\ Forall2 ytwe l l'.
  Proof.
    cbn [ytw]. split; intros (l' & -> & H); exists l'; (split; [reflexivity|]).
    - revert l' H. induction l as [|[k v] l IH]; intros [|[k' v'] l'] H; try (destruct H; fail); constructor; [exact (proj1 H) | exact (IH _ (proj2 H))].
    - induction H as [|[k v] [k' v'] l l' He _ IH]; [exact I | split; [exact He | exact IH]].
  Qed.

  Lemma ytw_refl : forall y, ytw y y.
  Proof.
    induction y as [| b | n | s | l IH | l IH | t y IH] using yaml_ind'; try reflexivity.
    - left. reflexivity.
    - apply ytw_seq_iff. exists l. split; [reflexivity|]. induction IH; constructor; assumption.
    - apply ytw_map_iff. exists l. split; [reflexivity|]. induction IH as [|kv l [_ Hv] _ IHl]; constructor; [split; [reflexivity | exact Hv] | exact IHl].
  Qed.

  (** conversion respects the relation *)
  Lemma conv_tw : forall y y' v, ytw y y' -> try_value_of_yaml y = Ok v ->
    exists v', try_value_of_yaml y' = Ok v' /\ inl root v v'.
  Proof.
    induction y as [| b | n | s | l IH | l IH | t y IH] using yaml_ind'; intros y' v Hy H.
    - cbn [ytw] in Hy. subst y'. exists v. split; [exact H | apply inl_refl].
    - cbn [ytw] in Hy. subst y'. exists v. split; [exact H | apply inl_refl].
    - cbn [ytw] in Hy. subst y'. exists v. split; [exact H | apply inl_refl].
    - cbn [try_value_of_yaml] in H. injection H as <-. cbn [ytw] in Hy. destruct Hy as [-> | (w & b & Hb & Hd & Hl)].
      + exists (VStr s). split; [reflexivity | apply inl_refl].
      + exists b. split; [exact Hb|]. exists w. split; [right; exact Hd | exact Hl].
    - apply ytw_seq_iff in Hy as (l' & -> & Hl). rewrite try_seq_eq in *. unfold rmap in *.
      destruct (try_seq l) as [vs| | |] eqn:E; cbn [bind] in H; try discriminate. injection H as <-.
      assert (G : exists vs', try_seq l' = Ok vs' /\ Forall2 (inl root) vs vs').
      { revert vs E IH. induction Hl as [|x x' l l' Hx _ IHl]; intros vs E IH; cbn [try_seq] in *.
        - injection E as <-. exists []. split; [reflexivity | constructor].
        - inversion IH as [|? ? Px Pl]; subst.
          destruct (try_value_of_yaml x) as [vx| | |] eqn:Ex; cbn [bind] in E; try discriminate.
          destruct (try_seq l) as [vl| | |] eqn:El; cbn [bind] in E; try discriminate. injection E as <-.
          destruct (Px x' vx Hx eq_refl) as (vx' & Ex' & Hvx). destruct (IHl vl eq_refl Pl) as (vl' & El' & Hvl).
          rewrite Ex'. cbn [bind]. rewrite El'. cbn [bind]. exists (vx' :: vl'). split; [reflexivity | constructor; assumption]. }
      destruct G as (vs' & E' & Hvs). rewrite E'. cbn [bind]. exists (VSeq vs'). split; [reflexivity | exact (inl_seq root _ _ Hvs)].
    - apply ytw_map_iff in Hy as (l' & -> & Hl). rewrite try_map_eq in *. unfold rmap in *.
      destruct (try_map l []) as [m| | |] eqn:E; cbn [bind] in H; try discriminate. injection H as <-.
      assert (G : forall acc acc' m, inle root acc acc' -> try_map l acc = Ok m ->
                    exists m', try_map l' acc' = Ok m' /\ inle root m m').
      { clear E. induction Hl as [|[k x] [k' x'] l l' [Hk Hx] _ IHl]; intros acc acc' m0 Ha E; cbn [try_map] in *.
        - injection E as <-. exists acc'. split; [reflexivity | exact Ha].
        - cbn [fst snd] in Hk, Hx. subst k'. inversion IH as [|? ? [_ Px] Pl]; subst. cbn [snd] in Px.
          destruct (try_value_of_yaml k) as [kv| | |]; cbn [bind] in *; try discriminate.
          destruct (try_value_of_yaml x) as [vx| | |] eqn:Ex; cbn [bind] in E; try discriminate.
          destruct (Px x' vx Hx eq_refl) as (vx' & Ex' & Hvx). rewrite Ex'. cbn [bind].
          unfold m_insert in *.
          destruct (insert_impl acc kv vx false false) as [acc2| | |] eqn:Ei; cbn [bind] in E; try discriminate.
          destruct (inle_insert root _ _ _ _ _ _ _ _ Ha Hvx Ei) as (acc2' & Ei' & Ha2). rewrite Ei'. cbn [bind].
          exact (IHl Pl _ _ _ Ha2 E). }
      destruct (G [] [] m (inle_nil root) E) as (m' & E' & Hm). rewrite E'. cbn [bind]. exists (VMap m'). split; [reflexivity | exact (inl_map root _ _ Hm)].
    - cbn [ytw] in Hy. subst y'. exists v. split; [exact H | apply inl_refl].
  Qed.

  (** merging the layers respects it *)
  Lemma layers_tw : forall ys ys', Forall2 ytw ys ys' -> forall acc acc' m,
    inle root acc acc' ->
    foldM (fun a y => x <- try_mapping_of_yaml y ;; mapping_merge a x) ys acc = Ok m ->
    exists m', foldM (fun a y => x <- try_mapping_of_yaml y ;; mapping_merge a x) ys' acc' = Ok m' /\ inle root m m'.
  Proof.
    induction 1 as [|y y' ys ys' Hy _ IH]; intros acc acc' m Ha H; cbn [foldM] in *.
    - injection H as <-. exists acc'. split; [reflexivity | exact Ha].
    - unfold try_mapping_of_yaml in *.
      destruct (try_value_of_yaml y) as [v| | |] eqn:Ev; cbn [bind] in H; try discriminate.
      destruct (conv_tw _ _ _ Hy Ev) as (v' & Ev' & Hv). rewrite Ev'. cbn [bind].
      destruct v as [| b | s | s | n | a | l | l]; cbn [bind] in H; try discriminate.
      apply inl_map_inv in Hv as (a' & -> & Haa). cbn [bind] in *.
      destruct (mapping_merge acc a) as [acc2| | |] eqn:Em; cbn [bind] in H; try discriminate.
      destruct (inle_merge root _ _ _ _ _ Haa Ha Em) as (acc2' & Em' & Ha2). rewrite Em'. cbn [bind].
      exact (IH _ _ _ Ha2 H).
  Qed.
End TS.

(** layers: mappings with scalar keys carrying at most one marker (a key may be spelled twice) *)
Definition sclean_layer (y : yaml) : Prop := match y with YMap _ => sclean_yaml y | _ => False end.

Lemma clean_layer_sclean y : clean_layer y -> sclean_layer y.
Proof. destruct y; cbn [clean_layer sclean_layer]; try tauto. apply clean_sclean. Qed.

(** merged layers are well-formed parameters *)
Lemma merge_layers_try_wf : forall ys acc m,
  Forall sclean_layer ys -> wf (VMap acc) ->
  foldM (fun a y => x <- try_mapping_of_yaml y ;; mapping_merge a x) ys acc = Ok m -> wf (VMap m).
Proof.
  induction ys as [|y ys IH]; intros acc m Hc Ha H; cbn [foldM] in H.
  - injection H as <-. exact Ha.
  - inversion Hc as [|? ? Hy Hys]; subst. unfold try_mapping_of_yaml in H.
    destruct y as [| | | | | es |]; try (exfalso; exact Hy). cbn [sclean_layer] in Hy.
    destruct (try_value_of_yaml (YMap es)) as [v| | |] eqn:Ev; cbn [bind] in H; try discriminate.
    pose proof (try_value_wf_gen _ _ Hy Ev) as Hwv.
    destruct v as [| b | s | s | n | a | l | l]; cbn [bind] in H; try discriminate.
    destruct (mapping_merge acc a) as [acc2| | |] eqn:Em; cbn [bind] in H; try discriminate.
    exact (IH _ _ Hys (mapping_merge_wf _ _ _ Ha Hwv Em) H).
Qed.

(** the render of a stack (references allowed) is the render of its inlined twin *)
Theorem stack_renders_as_its_inlined_twin F ys ys' m r :
  Forall sclean_layer ys -> Forall sclean_layer ys' ->
  merge_layers_try ys = Ok m -> Forall2 (ytw m) ys ys' ->
  render_with_self F (VMap m) = Ok r ->
  exists m', merge_layers_try ys' = Ok m' /\ render_with_self (S F) (VMap m') = Ok r.
Proof.
  intros Hc Hc' Hm Hy Hr. unfold merge_layers_try in *.
  destruct (layers_tw m ys ys' Hy [] [] m (inle_nil m) Hm) as (m' & Hm' & Hmm).
  exists m'. split; [exact Hm'|].
  assert (Hw : wf (VMap m)) by (apply (merge_layers_try_wf ys [] m Hc); [repeat constructor | exact Hm]).
  assert (Hw' : wf (VMap m')) by (apply (merge_layers_try_wf ys' [] m' Hc'); [repeat constructor | exact Hm']).
  exact (inlined_parameters_render_the_same m m' Hw Hw' Hmm F r Hr).
Qed.

(** ... and, when the twin is reference-free, the deep merge of the twin *)
Theorem stack_with_references_is_the_deep_merge_of_its_inlined_twin f F ys ys' m r :
  Forall sclean_layer ys -> ys' <> [] -> Forall layer_ok ys' ->
  merge_layers_try ys = Ok m -> Forall2 (ytw m) ys ys' ->
  render_with_self F (VMap m) = Ok r ->
  match deep_merge (S f) ys' with
  | SOk v => unflag r = v
  | SFuel => True
  | SErr _ => False
  end.
Proof.
  intros Hc Hne Hl Hm Hy Hr.
  assert (Hc' : Forall sclean_layer ys') by (eapply Forall_impl; [|exact Hl]; intros y Hyy; apply clean_layer_sclean, Hyy).
  destruct (stack_renders_as_its_inlined_twin F ys ys' m r Hc Hc' Hm Hy Hr) as (m' & Hm' & Hr').
  destruct (render_refines_deep_merge f ys' Hne Hl) as [F0 HF].
  specialize (HF (Nat.max F0 (S F)) (Nat.le_max_l _ _)). unfold render_stack in HF. rewrite Hm' in HF. cbn [bind] in HF.
  rewrite (render_with_self_mono (S F) (Nat.max F0 (S F)) (VMap m') r (Nat.le_max_r _ _) Hr') in HF.
  destruct (deep_merge (S f) ys') as [v | e |]; cbn [stack_rel] in HF.
  - destruct HF as (v' & E & Hu). injection E as <-. exact Hu.
  - destruct e as [k | | p]; [destruct HF as [E|E]; discriminate | destruct HF as (ck & a & b & E); discriminate | exact HF].
  - exact I.
Qed.

(** C01 + C02 + C04: the rendered parameters of a node are the deep merge of the stack
    [parameter documents of the recorded classes in walk order; metadata; the node's own
    parameters] in which every reference is replaced by what it renders to. *)
Theorem node_params_are_the_deep_merge_of_the_inlined_walk fi cfg tbl f n ndoc loc meta rc r :
  node_of_yaml loc ndoc = Ok n -> as_reclass cfg meta = Ok rc ->
  node_render f fi cfg tbl n meta = Ok r ->
  exists seen docs ry m,
    NoDup seen /\ Forall2 (class_params cfg tbl) seen docs /\ reclass_doc cfg meta = Some ry /\
    merge_layers_try (docs ++ [ry; params_doc ndoc]) = Ok m /\
    (Forall sclean_layer (docs ++ [ry; params_doc ndoc]) ->
     forall ys', Forall layer_ok ys' -> Forall2 (ytw m) (docs ++ [ry; params_doc ndoc]) ys' ->
     forall g, match deep_merge (S g) ys' with
               | SOk v => unflag (VMap (n_params r)) = v
               | SFuel => True
               | SErr _ => False
               end).
Proof.
  intros Hn Hrc H.
  destruct (node_params_are_the_merged_stack fi cfg tbl f n ndoc loc meta rc Hn Hrc r H) as (seen & docs & ry & m & Hnd & Hcp & Hry & Hm & Hr).
  exists seen, docs, ry, m. split; [exact Hnd | split; [exact Hcp | split; [exact Hry | split; [exact Hm|]]]].
  intros Hc ys' Hok Hy g.
  assert (Hne : ys' <> []).
  { intros ->. inversion Hy as [E1 E2|]. destruct docs; discriminate. }
  exact (stack_with_references_is_the_deep_merge_of_its_inlined_twin g fi _ ys' m _ Hc Hne Hok Hm Hy Hr).
Qed.

(* The resolution state along the interpreter (C08, C04): the current parameter name is never
   changed by a call, the depth counter never decreases, recorded reference paths are never
   forgotten. *)
From RV Require Import Model.Interp.

Definition st_le (a b : rstate) : Prop :=
  keys b = keys a /\ depth a <= depth b /\ incl (seen a) (seen b).

Lemma st_le_refl a : st_le a a.
Proof. repeat split; [lia | apply incl_refl]. Qed.

Lemma st_le_trans a b c : st_le a b -> st_le b c -> st_le a c.
Proof. intros (H1 & H2 & H3) (H4 & H5 & H6). repeat split; [congruence | lia | eapply incl_tran; eauto]. Qed.

Definition cb_le (call : callback) : Prop := forall v st v' st', call v st = Ok (v', st') -> st_le st st'.

Lemma walk_loop_le sov path : cb_le sov -> forall segs v st trav v' st',
  walk_loop sov path segs v st trav = Ok (v', st') -> st_le st st'.
Proof.
  intros Hs. induction segs as [|key segs IH]; intros v st trav v' st' H; cbn [walk_loop] in H.
  - injection H as _ <-. apply st_le_refl.
  - destruct (sov v st) as [[newv st1]| | |] eqn:E; cbn [bind] in H; try discriminate.
    destruct newv; try discriminate. destruct (m_get (VStr key) es); [|discriminate].
    eapply st_le_trans; [eapply Hs; eauto | eapply IH; eauto].
Qed.

Section Main.
Variable root : mapping.

Definition S_interp f := cb_le (interp f root).
Definition S_render f := forall t st v' st', token_render f root t st = Ok (v', st') -> st_le st st'.
Definition S_resolve f := forall t st v' st', token_resolve f root t st = Ok (v', st') -> st_le st st'.
Definition S_sov f := cb_le (interp_sov f root).
Definition S_while f := cb_le (interp_while f root).
Definition S_while_str f := cb_le (interp_while_str f root).
Definition S_all f := S_interp f /\ S_render f /\ S_resolve f /\ S_sov f /\ S_while f /\ S_while_str f.

Lemma state_facts : forall f, S_all f.
Proof.
  induction f as [|f (Hi & Hr & Hs & Hv & Hw & Hws)].
  - unfold S_all, S_interp, S_render, S_resolve, S_sov, S_while, S_while_str, cb_le.
    repeat split; intros *; cbn; discriminate.
  - split; [|split; [|split; [|split; [|split]]]].
    + intros v st v' st' H. cbn [interp] in H. destruct v as [| b | s | s | n | es | l | l];
        try (injection H as _ <-; apply st_le_refl).
      * destruct (token_parse s); try discriminate; [injection H as _ <-; apply st_le_refl | eapply Hr; eauto].
      * destruct (mapping_interp f root es st); cbn [bind] in H; try discriminate. injection H as _ <-. apply st_le_refl.
      * destruct (seq_loop (interp f root) st l 0); cbn [bind] in H; try discriminate. injection H as _ <-. apply st_le_refl.
      * destruct (vlist_loop (interp f root) st l VNull); cbn [bind] in H; try discriminate. eapply Hi; eauto.
    + intros t st v' st' H. cbn [token_render] in H. destruct t as [s | ts | ts].
      * destruct (token_resolve f root (TLit s) st) as [[v st1]| | |] eqn:E; cbn [bind] in H; try discriminate.
        destruct (raw_string v); cbn [bind] in H; try discriminate. injection H as _ <-. eapply Hs; eauto.
      * destruct (token_resolve f root (TRef ts) st) as [[v st1]| | |] eqn:E; cbn [bind] in H; try discriminate.
        exact (st_le_trans _ _ _ (Hs _ _ _ _ E) (Hi _ _ _ _ H)).
      * destruct (token_resolve f root (TComb ts) st) as [[v st1]| | |] eqn:E; cbn [bind] in H; try discriminate.
        destruct (raw_string v); cbn [bind] in H; try discriminate. injection H as _ <-. eapply Hs; eauto.
    + intros t st v' st' H. cbn [token_resolve] in H. destruct t as [s | parts | ts].
      * injection H as _ <-. apply st_le_refl.
      * set (st1 := with_depth st (S (depth st))) in *.
        destruct (Nat.ltb RESOLVE_MAX_DEPTH (depth st1)); [discriminate|].
        destruct (token_slice f root parts st1) as [path| | |]; cbn [bind] in H; try discriminate.
        destruct (mem path (seen st1)); [discriminate|].
        destruct (split_on ":" path) as [|k0 segs]; [discriminate|].
        destruct (m_get (VStr k0) root) as [v0|]; [|discriminate].
        destruct (walk_loop (interp_sov f root) path segs v0 (add_seen st1 path) [k0]) as [[v st3]| | |] eqn:Ew; cbn [bind] in H; try discriminate.
        assert (H0 : st_le st (add_seen st1 path)).
        { repeat split; cbn; [lia | intros x Hx; now right]. }
        exact (st_le_trans _ _ _ H0 (st_le_trans _ _ _ (walk_loop_le _ path Hv _ _ _ _ _ _ Ew) (Hw _ _ _ _ H))).
      * destruct (token_slice f root ts st); cbn [bind] in H; try discriminate. injection H as _ <-. apply st_le_refl.
    + intros v st v' st' H. cbn [interp_sov] in H. destruct v as [| b | s | s | n | es | l | l];
        try (injection H as _ <-; apply st_le_refl).
      * eapply Hi; eauto.
      * destruct (sov_loop (interp f root) st l) as [i| | |]; cbn [bind] in H; try discriminate.
        destruct (flattened (current_key st) (VList i)); cbn [bind] in H; try discriminate. injection H as _ <-. apply st_le_refl.
    + intros v st v' st' H. cbn [interp_while] in H. destruct (is_string v || is_vlist v).
      * destruct (interp f root v st) as [[v1 st1]| | |] eqn:E; cbn [bind] in H; try discriminate.
        exact (st_le_trans _ _ _ (Hi _ _ _ _ E) (Hw _ _ _ _ H)).
      * injection H as _ <-. apply st_le_refl.
    + intros v st v' st' H. cbn [interp_while_str] in H. destruct (is_string v).
      * destruct (interp f root v st) as [[v1 st1]| | |] eqn:E; cbn [bind] in H; try discriminate.
        exact (st_le_trans _ _ _ (Hi _ _ _ _ E) (Hws _ _ _ _ H)).
      * injection H as _ <-. apply st_le_refl.
Qed.

End Main.

Theorem interp_state_le f root v st v' st' : interp f root v st = Ok (v', st') -> st_le st st'.
Proof. exact (proj1 (state_facts root f) v st v' st'). Qed.

(** C08: a reference met at depth 64 is rejected with the depth error, whatever it refers to *)
Theorem depth_limit f root parts st :
  RESOLVE_MAX_DEPTH <= depth st ->
  token_resolve (S f) root (TRef parts) st =
    Err (EDepth (current_key (with_depth st (S (depth st)))) (seen (with_depth st (S (depth st))))).
Proof.
  intros H. cbn [token_resolve]. cbn [depth with_depth].
  assert (E : Nat.ltb RESOLVE_MAX_DEPTH (S (depth st)) = true) by (apply Nat.ltb_lt; lia). now rewrite E.
Qed.

(** C08: the loop error is raised exactly when the resolved path is already recorded in the state
    handed to this resolution (and never for a path that is not) *)
Theorem loop_error_iff_path_recorded f root parts st path :
  depth st < RESOLVE_MAX_DEPTH ->
  token_slice f root parts (with_depth st (S (depth st))) = Ok path ->
  (mem path (seen st) = true -> token_resolve (S f) root (TRef parts) st = Err (ELoop (seen st))) /\
  (mem path (seen st) = false -> forall ps, token_resolve (S f) root (TRef parts) st <> Err (ELoop ps) \/
       exists v0, m_get (VStr (hd "" (split_on ":" path))) root = Some v0).
Proof.
  intros Hd Hp. cbn [token_resolve]. cbn [depth with_depth seen].
  assert (E : Nat.ltb RESOLVE_MAX_DEPTH (S (depth st)) = false) by (apply Nat.ltb_ge; unfold RESOLVE_MAX_DEPTH in *; lia).
  rewrite E, Hp. cbn [bind]. split.
  - intros ->. reflexivity.
  - intros ->. intros ps. destruct (split_on ":" path) as [|k0 segs]; [left; discriminate|]. cbn [hd].
    destruct (m_get (VStr k0) root) as [v0|]; [right; eexists; reflexivity | left; discriminate].
Qed.

(* C11 / C01: rendering a node always comes back.  For every inventory whose files have clean
   keys there are fuels (include depth, interpreter) from which on render_node returns one and
   the same value or error -- never a panic, never out of fuel -- whatever the include graph
   (cyclic ones included) and whatever references the include names and parameters hold. *)
From RV Require Import Model.Node Proofs.ValueFacts Proofs.MappingFacts Proofs.WfFacts Proofs.InterpFacts Proofs.Mono
     Proofs.NoPanic Proofs.YamlFacts Proofs.ListsFacts Proofs.NamesFacts Proofs.NodeFacts Proofs.Termination.

(** * more interpreter fuel never changes a result of the include walk *)
Lemma include_name_mono fi fi' params c r :
  fi <= fi' -> include_name fi params c = r -> r <> OutOfFuel -> include_name fi' params c = r.
Proof.
  intros Hle. unfold include_name. destruct (contains c "${"); [|auto].
  destruct (token_parse c) as [| t | |]; auto.
  destruct (token_render fi params t st0) as [[v s]| e | p |] eqn:E; cbn [bind]; intros H Hn;
    try (rewrite (fm_render params fi fi' Hle t st0 _ E) by discriminate; exact H).
  subst r. congruence.
Qed.

Definition walker_mono (w w' : walker) : Prop :=
  forall cn seen loading root r, w cn seen loading root = r -> r <> OutOfFuel -> w' cn seen loading root = r.

Lemma include_loop_mono fi fi' cfg tbl recur recur' self_loc loading :
  fi <= fi' -> walker_mono recur recur' ->
  forall cs seen root r,
    include_loop fi cfg tbl recur self_loc loading cs seen root = r -> r <> OutOfFuel ->
    include_loop fi' cfg tbl recur' self_loc loading cs seen root = r.
Proof.
  intros Hle Hrec. induction cs as [|c cs IH]; intros seen root r H Hn; cbn [include_loop] in *; [exact H|].
  destruct (include_name fi (n_params root) c) as [name0| e | p |] eqn:En; cbn [bind] in H;
    try (rewrite (include_name_mono fi fi' _ _ _ Hle En) by discriminate; exact H).
  2:{ subst r. congruence. }
  rewrite (include_name_mono fi fi' _ _ _ Hle En) by discriminate. cbn [bind].
  destruct (mem (abs_class_name self_loc name0) seen); [exact (IH _ _ _ H Hn)|].
  destruct (mem (abs_class_name self_loc name0) loading); [exact H|].
  destruct (read_class cfg tbl self_loc (abs_class_name self_loc name0)) as [[cn|]| | |]; cbn [bind] in *; try exact H.
  - destruct (recur cn seen (loading ++ [abs_class_name self_loc name0]) root) as [[[c1 seen1] root1]| e | p |] eqn:Er; cbn [bind] in H;
      try (rewrite (Hrec _ _ _ _ _ Er) by discriminate; exact H).
    + rewrite (Hrec _ _ _ _ _ Er) by discriminate. cbn [bind]. exact (IH _ _ _ H Hn).
    + subst r. congruence.
  - exact (IH _ _ _ H Hn).
Qed.

Lemma render_impl_mono cfg tbl : forall f f' fi fi', f <= f' -> fi <= fi' ->
  walker_mono (render_impl f fi cfg tbl) (render_impl f' fi' cfg tbl).
Proof.
  induction f as [|f IH]; intros f' fi fi' Hf Hfi cn seen loading root r H Hn; [cbn in H; subst r; congruence|].
  destruct f' as [|f']; [lia|]. cbn [render_impl] in *.
  destruct (include_loop fi cfg tbl (render_impl f fi cfg tbl) (n_loc cn) loading (n_classes cn) seen root) as [[seen' root']| e | p |] eqn:E;
    cbn [bind] in H;
    try (rewrite (include_loop_mono fi fi' cfg tbl _ (render_impl f' fi' cfg tbl) _ _ Hfi (IH f' fi fi' ltac:(lia) Hfi) _ _ _ _ E) by discriminate; exact H).
  subst r. congruence.
Qed.

Section Total.
  Variables (cfg : ncfg) (tbl : list cls_entry).
  Hypothesis Htbl : clean_table tbl.
  Hypothesis Hloc : Forall (fun ce => loc_ok (ce_loc ce)) tbl.

  (** a call of the walk comes back with the same outcome from some pair of fuels on *)
  Definition settles (self : node) (seen loading : list string) (root : node) : Prop :=
    exists f0 fi0 r, r <> OutOfFuel /\
      forall f fi, f0 <= f -> fi0 <= fi -> render_impl f fi cfg tbl self seen loading root = r.

  Lemma include_name_settles params c :
    wf (VMap params) -> exists fi0 r, r <> OutOfFuel /\ forall fi, fi0 <= fi -> include_name fi params c = r.
  Proof.
    intros Hw. unfold include_name. destruct (contains c "${"); [|exists 0, (Ok c); split; [discriminate | reflexivity]].
    destruct (token_parse c) as [| t | |] eqn:Ep.
    - exists 0, (Ok c). split; [discriminate | reflexivity].
    - assert (Hb : bud st0 <= bud st0) by lia.
      destruct (T_at _ t st0 (fm_render params) (A_render _ _ (all_budgets params Hw (bud st0)) t st0 Hb)) as (F & r & Hn & H).
      exists F. destruct r as [[v s]| e | p |]; [| | |congruence].
      + exists (raw_string v). split; [apply raw_string_no_fuel|]. intros fi Hfi. now rewrite (H fi Hfi).
      + exists (Err e). split; [discriminate|]. intros fi Hfi. now rewrite (H fi Hfi).
      + exists (Panic p). split; [discriminate|]. intros fi Hfi. now rewrite (H fi Hfi).
    - exists 0, (Err (EParse c)). split; [discriminate | reflexivity].
    - exfalso. exact (Proofs.ParserFacts.token_parse_terminates c Ep).
  Qed.

  (** the loop over the include entries, given that every recursive call with a longer loading
      chain settles *)
  Lemma include_loop_settles self_loc loading :
    loc_ok self_loc ->
    (forall cn name seen root, wf (VMap (n_params cn)) -> wf (VMap (n_params root)) -> loc_ok (n_loc cn) ->
       In name (names tbl) -> ~ In name loading -> settles cn seen (loading ++ [name]) root) ->
    forall cs seen root, wf (VMap (n_params root)) ->
    exists f0 fi0 r, r <> OutOfFuel /\
      forall f fi, f0 <= f -> fi0 <= fi ->
        include_loop fi cfg tbl (render_impl f fi cfg tbl) self_loc loading cs seen root = r.
  Proof.
    intros Hsl Hrec. induction cs as [|c cs IH]; intros seen root Hr.
    - exists 0, 0, (Ok (seen, root)). split; [discriminate | reflexivity].
    - destruct (include_name_settles (n_params root) c Hr) as (fi1 & rn & Hn1 & H1).
      destruct rn as [name0| e | p |]; [| | |congruence].
      2:{ exists 0, fi1, (Err e). split; [discriminate|]. intros f fi _ Hfi. cbn [include_loop]. now rewrite (H1 fi Hfi). }
      2:{ exists 0, fi1, (Panic p). split; [discriminate|]. intros f fi _ Hfi. cbn [include_loop]. now rewrite (H1 fi Hfi). }
      set (name := abs_class_name self_loc name0).
      destruct (mem name seen) eqn:Es.
      { destruct (IH seen root Hr) as (f2 & fi2 & r & Hn & H2). exists f2, (Nat.max fi1 fi2), r. split; [exact Hn|].
        intros f fi Hf Hfi. cbn [include_loop]. rewrite (H1 fi ltac:(lia)). cbn [bind]. fold name. rewrite Es. apply H2; lia. }
      destruct (mem name loading) eqn:El.
      { exists 0, fi1, (Err (EIncludeLoop loading name)). split; [discriminate|]. intros f fi _ Hfi. cbn [include_loop].
        rewrite (H1 fi Hfi). cbn [bind]. fold name. now rewrite Es, El. }
      destruct (read_class_facts cfg tbl self_loc name Htbl) as [_ Hrw].
      destruct (read_class cfg tbl self_loc name) as [[cn|]| e | p |] eqn:Erc.
      + (* the class exists: recursive call, then the rest of the entries *)
        assert (Eabs : abs_class_name self_loc name = name) by (apply abs_idempotent, Hsl).
        assert (Hfind : exists ce, find_class name tbl = Some ce /\ node_of_yaml (ce_loc ce) (ce_doc ce) = Ok cn).
        { unfold read_class in Erc. rewrite Eabs in Erc. destruct (find_class name tbl) as [ce|] eqn:F.
          - exists ce. split; [reflexivity|]. destruct (node_of_yaml (ce_loc ce) (ce_doc ce)); cbn [map_err bind] in Erc; try discriminate. now injection Erc as ->.
          - destruct (c_ignore cfg && mem name (c_matches cfg)); discriminate. }
        destruct Hfind as (ce & F & En).
        assert (Hin : In name (names tbl)) by (eapply find_class_names; eauto).
        assert (Hcl : loc_ok (n_loc cn)).
        { rewrite (node_of_yaml_loc _ _ _ En). apply find_class_name in F as [_ Hce]. rewrite Forall_forall in Hloc. apply Hloc, Hce. }
        destruct (Hrec cn name seen root (Hrw cn eq_refl) Hr Hcl Hin (proj1 (mem_false _ _) El)) as (f3 & fi3 & r3 & Hn3 & H3).
        destruct r3 as [[[c1 seen1] root1]| e | p |]; [| | |congruence].
        * assert (Hr1 : wf (VMap (n_params root1))).
          { destruct (render_impl_facts fi3 cfg tbl Htbl f3 cn seen (loading ++ [name]) root (Hrw cn eq_refl) Hr) as [_ Hw].
            apply (proj2 (Hw _ _ _ (H3 f3 fi3 (Nat.le_refl _) (Nat.le_refl _)))). }
          destruct (IH (seen1 ++ [name]) root1 Hr1) as (f4 & fi4 & r & Hn & H4).
          exists (Nat.max f3 f4), (Nat.max fi1 (Nat.max fi3 fi4)), r. split; [exact Hn|].
          intros f fi Hf Hfi. cbn [include_loop]. rewrite (H1 fi ltac:(lia)). cbn [bind]. fold name. rewrite Es, El, Erc. cbn [bind].
          rewrite (H3 f fi ltac:(lia) ltac:(lia)). cbn [bind]. apply H4; lia.
        * exists f3, (Nat.max fi1 fi3), (Err e). split; [discriminate|].
          intros f fi Hf Hfi. cbn [include_loop]. rewrite (H1 fi ltac:(lia)). cbn [bind]. fold name. rewrite Es, El, Erc. cbn [bind].
          now rewrite (H3 f fi ltac:(lia) ltac:(lia)).
        * exists f3, (Nat.max fi1 fi3), (Panic p). split; [discriminate|].
          intros f fi Hf Hfi. cbn [include_loop]. rewrite (H1 fi ltac:(lia)). cbn [bind]. fold name. rewrite Es, El, Erc. cbn [bind].
          now rewrite (H3 f fi ltac:(lia) ltac:(lia)).
      + (* ignored *)
        destruct (IH seen root Hr) as (f2 & fi2 & r & Hn & H2). exists f2, (Nat.max fi1 fi2), r. split; [exact Hn|].
        intros f fi Hf Hfi. cbn [include_loop]. rewrite (H1 fi ltac:(lia)). cbn [bind]. fold name. rewrite Es, El, Erc. cbn [bind]. apply H2; lia.
      + exists 0, fi1, (Err e). split; [discriminate|]. intros f fi _ Hfi. cbn [include_loop]. rewrite (H1 fi Hfi). cbn [bind]. fold name. now rewrite Es, El, Erc.
      + exists 0, fi1, (Panic p). split; [discriminate|]. intros f fi _ Hfi. cbn [include_loop]. rewrite (H1 fi Hfi). cbn [bind]. fold name. now rewrite Es, El, Erc.
      + exfalso. unfold read_class in Erc. destruct (find_class (abs_class_name self_loc name) tbl) as [ce|].
        * pose proof (node_of_yaml_no_fuel (ce_loc ce) (ce_doc ce)). destruct (node_of_yaml (ce_loc ce) (ce_doc ce)); cbn [map_err bind] in Erc; congruence.
        * destruct (c_ignore cfg && mem (abs_class_name self_loc name) (c_matches cfg)); discriminate.
  Qed.

  (** every call of the walk settles: induction on the number of classes not yet on the chain *)
  Lemma walk_settles : forall b self seen loading root,
    List.length (names tbl) - List.length loading <= b ->
    wf (VMap (n_params self)) -> wf (VMap (n_params root)) -> loc_ok (n_loc self) ->
    NoDup loading -> incl loading (names tbl) ->
    settles self seen loading root.
  Proof.
    induction b as [b IHb] using lt_wf_ind. intros self seen loading root Hb Hs Hr Hl Hnd Hincl.
    destruct (include_loop_settles (n_loc self) loading Hl) with (cs := n_classes self) (seen := seen) (root := root)
      as (f1 & fi1 & r1 & Hn1 & H1); [|exact Hr|].
    { intros cn name seen' root' Hcn Hroot' Hcl Hin Hnotin.
      assert (Hnd' : NoDup (loading ++ [name])) by (apply NoDup_snoc; assumption).
      assert (Hincl' : incl (loading ++ [name]) (names tbl)).
      { intros x Hx. apply in_app_iff in Hx as [Hx|[<-|[]]]; [apply Hincl, Hx | exact Hin]. }
      assert (Hlen : List.length (loading ++ [name]) <= List.length (names tbl)) by (apply NoDup_incl_length; assumption).
      rewrite app_length in Hlen. cbn [List.length] in Hlen.
      apply (IHb (List.length (names tbl) - List.length (loading ++ [name]))); try assumption; try lia.
      rewrite app_length. cbn [List.length]. lia. }
    destruct r1 as [[seen' root']| e | p |]; [| | |congruence].
    - assert (Hr' : wf (VMap (n_params root'))).
      { destruct (include_loop_facts fi1 cfg tbl Htbl (render_impl f1 fi1 cfg tbl) (n_loc self) loading (render_impl_facts fi1 cfg tbl Htbl f1)
                    (n_classes self) seen root Hr) as [_ Hw]. apply (Hw _ _ (H1 f1 fi1 (Nat.le_refl _) (Nat.le_refl _))). }
      exists (S f1), fi1. destruct (merge_into self root') as [[a b0]| e | p |] eqn:Em.
      + exists (Ok (a, seen', b0)). split; [discriminate|]. intros f fi Hf Hfi. destruct f as [|f]; [lia|]. cbn [render_impl].
        rewrite (H1 f fi ltac:(lia) Hfi). cbn [bind]. now rewrite Em.
      + exists (Err e). split; [discriminate|]. intros f fi Hf Hfi. destruct f as [|f]; [lia|]. cbn [render_impl].
        rewrite (H1 f fi ltac:(lia) Hfi). cbn [bind]. now rewrite Em.
      + exists (Panic p). split; [discriminate|]. intros f fi Hf Hfi. destruct f as [|f]; [lia|]. cbn [render_impl].
        rewrite (H1 f fi ltac:(lia) Hfi). cbn [bind]. now rewrite Em.
      + exfalso. revert Em. unfold merge_into. destruct (merge_total (n_params self) (n_params root')) as [[m ->] | [k ->]]; discriminate.
    - exists (S f1), fi1, (Err e). split; [discriminate|]. intros f fi Hf Hfi. destruct f as [|f]; [lia|]. cbn [render_impl].
      now rewrite (H1 f fi ltac:(lia) Hfi).
    - exists (S f1), fi1, (Panic p). split; [discriminate|]. intros f fi Hf Hfi. destruct f as [|f]; [lia|]. cbn [render_impl].
      now rewrite (H1 f fi ltac:(lia) Hfi).
  Qed.

  (** Node::render always comes back *)
  Theorem node_render_total n meta :
    wf (VMap (n_params n)) ->
    exists f0 fi0 r, (forall f fi, f0 <= f -> fi0 <= fi -> node_render f fi cfg tbl n meta = r) /\
                     ((exists v, r = Ok v) \/ (exists e, r = Err e)).
  Proof.
    intros Hn. unfold node_render.
    destruct (as_reclass cfg meta) as [rc| e | p |] eqn:Er.
    2:{ exists 0, 0, (Err e). split; [reflexivity | right; eexists; reflexivity]. }
    2,3: exfalso; unfold as_reclass in Er; destruct (m_parts meta); discriminate.
    pose proof (as_reclass_wf _ _ _ Er) as Hrc. cbn [bind].
    assert (Hp0 : m_insert [] (VStr "_reclass_") (VMap rc) = Ok [mk_entry (VStr "_reclass_") (VMap rc) false false]) by reflexivity.
    rewrite Hp0. cbn [bind].
    assert (Hb : wf (VMap [mk_entry (VStr "_reclass_") (VMap rc) false false])).
    { apply wf_map_iff. split; [cbn; repeat constructor; cbn; tauto | split; [cbn; repeat constructor | constructor; [exact Hrc | constructor]]]. }
    set (base := {| n_apps := r_empty; n_classes := n_classes n; n_params := [mk_entry (VStr "_reclass_") (VMap rc) false false]; n_loc := [] |}).
    assert (He : wf (VMap (n_params empty_node))) by (cbn; repeat split; constructor).
    destruct (walk_settles (List.length (names tbl)) base [] [] empty_node) as (f1 & fi1 & r1 & Hn1 & H1);
      try assumption; try (cbn; lia); try constructor; try (intros x []).
    destruct r1 as [[[base1 seen1] root1]| e | p |]; [| | |congruence].
    2:{ exists f1, fi1, (Err e). split; [|right; eexists; reflexivity]. intros f fi Hf Hfi. now rewrite (H1 f fi Hf Hfi). }
    2:{ exfalso. destruct (render_impl_facts fi1 cfg tbl Htbl f1 base [] [] empty_node Hb He) as [Hp _].
        exact (Hp p (H1 f1 fi1 (Nat.le_refl _) (Nat.le_refl _))). }
    destruct (render_impl_facts fi1 cfg tbl Htbl f1 base [] [] empty_node Hb He) as [_ Hw].
    destruct (Hw _ _ _ (H1 f1 fi1 (Nat.le_refl _) (Nat.le_refl _))) as [Hb1 _].
    destruct (merge_into_facts n base1 Hn Hb1) as [Mp Mw].
    destruct (merge_into n base1) as [[n1 b1]| e | p |] eqn:Em.
    2:{ exists f1, fi1, (Err e). split; [|right; eexists; reflexivity]. intros f fi Hf Hfi. rewrite (H1 f fi Hf Hfi). cbn [bind]. now rewrite Em. }
    2:{ exfalso. exact (Mp p eq_refl). }
    2:{ exfalso. revert Em. unfold merge_into. destruct (merge_total (n_params n) (n_params base1)) as [[m ->] | [k ->]]; discriminate. }
    destruct (Mw _ _ eq_refl) as [Hn1' _].
    destruct (render_with_self_total (n_params n1) Hn1') as (F & rr & Hnr & Hr).
    exists f1, (Nat.max fi1 F).
    eexists. split.
    - intros f fi Hf Hfi. rewrite (H1 f fi Hf ltac:(lia)). cbn [bind]. rewrite Em. cbn [bind]. unfold render_params.
      rewrite (Hr fi ltac:(lia)). reflexivity.
    - destruct rr as [v| e | p |]; cbn [bind]; [| right; eexists; reflexivity | | congruence].
      + destruct v; try (right; eexists; reflexivity). left; eexists; reflexivity.
      + exfalso. exact (render_with_self_no_panic F (VMap (n_params n1)) p Hn1' (Hr F (Nat.le_refl _))).
  Qed.
End Total.

(** Reclass::render_node always comes back: a value or an error, the same from some fuels on *)
Theorem render_node_total cfg root ntbl ctbl name :
  clean_table ctbl -> Forall (fun ce => loc_ok (ce_loc ce)) ctbl ->
  Forall (fun ne => clean_doc (ne_doc ne)) ntbl ->
  exists f0 fi0 r, (forall f fi, f0 <= f -> fi0 <= fi -> render_node f fi cfg root ntbl ctbl name = r) /\
                   ((exists v, r = Ok v) \/ (exists e, r = Err e)).
Proof.
  intros Hc Hl Hn. unfold render_node. destruct (find_node name ntbl) as [ne|] eqn:F.
  2:{ exists 0, 0, (Err (EUnknownNode name)). split; [reflexivity | right; eexists; reflexivity]. }
  assert (Hin : In ne ntbl).
  { clear - F. induction ntbl as [|x l IH]; cbn [find_node] in F; [discriminate|].
    destruct (String.eqb (ne_name x) name); [injection F as <-; now left | right; auto]. }
  rewrite Forall_forall in Hn. specialize (Hn ne Hin).
  pose proof (node_of_yaml_no_panic [] (ne_doc ne)) as Hnp. pose proof (node_of_yaml_no_fuel [] (ne_doc ne)) as Hnf.
  destruct (node_of_yaml [] (ne_doc ne)) as [n| e | p |] eqn:E; cbn [bind].
  2:{ exists 0, 0, (Err e). split; [reflexivity | right; eexists; reflexivity]. }
  2:{ exfalso. exact (Hnp p eq_refl). }
  2:{ congruence. }
  pose proof (node_of_yaml_wf _ _ _ Hn E) as Hw.
  match goal with |- context [node_render _ _ cfg ctbl n ?m] => destruct (node_render_total cfg ctbl Hc Hl n m Hw) as (f0 & fi0 & r & Hr & Hk) end.
  exists f0, fi0. eexists. split.
  - intros f fi Hf Hfi. rewrite (Hr f fi Hf Hfi). reflexivity.
  - destruct Hk as [[v ->] | [e ->]]; cbn [bind]; [left | right]; eexists; reflexivity.
Qed.

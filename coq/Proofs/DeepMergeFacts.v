(* Facts about the specification Spec/DeepMerge.v itself: it says what the property texts of
   C02 / C09 / C10 say. *)
From RV Require Import Model.Yaml Spec.DeepMerge Proofs.ValueFacts Proofs.MappingFacts.

Fixpoint slot_find (k : value) (slots : list slot) : option slot :=
  match slots with
  | [] => None
  | s :: rest => if value_eqb (sl_key s) k then Some s else slot_find k rest
  end.

(** C09: once a key is marked constant, every later write at that position is an error naming
    the key, whatever its marker and value *)
Lemma spec_const_rejects k p v slots s :
  slot_find k slots = Some s -> sl_const s = true -> slot_write k p v slots = SErr (SConst k).
Proof.
  induction slots as [|x slots IH]; cbn [slot_find slot_write]; [discriminate|].
  destruct (value_eqb (sl_key x) k) eqn:E.
  - intros H Hc. injection H as ->. now rewrite Hc.
  - intros H Hc. rewrite (IH H Hc). reflexivity.
Qed.

(** C10: an override empties what the key has collected; a plain write appends; both keep the
    other keys untouched *)
Lemma spec_write_present k p v slots s :
  slot_find k slots = Some s -> sl_const s = false ->
  exists slots', slot_write k p v slots = SOk slots' /\
    slot_find k slots' = Some {| sl_key := k;
                                 sl_pending := if is_pover p then [v] else sl_pending s ++ [v];
                                 sl_const := is_pconst p |} /\
    (forall k2, k2 <> k -> slot_find k2 slots' = slot_find k2 slots) /\
    map sl_key slots' = map sl_key slots.
Proof.
  induction slots as [|x slots IH]; cbn [slot_find slot_write]; [discriminate|].
  destruct (value_eqb (sl_key x) k) eqn:E.
  - intros H Hc. injection H as ->. rewrite Hc. eexists. split; [reflexivity|].
    apply value_eqb_eq in E. cbn [slot_find sl_key]. rewrite value_eqb_refl. repeat split.
    + intros k2 Hne. assert (value_eqb k k2 = false) as -> by (apply value_eqb_neq; congruence).
      rewrite E. assert (value_eqb k k2 = false) as -> by (apply value_eqb_neq; congruence). reflexivity.
    + cbn [map sl_key]. now rewrite E.
  - intros H Hc. destruct (IH H Hc) as (slots' & -> & Hf & Ho & Hk). cbn [sbind].
    eexists. split; [reflexivity|]. cbn [slot_find]. rewrite E. repeat split.
    + exact Hf.
    + intros k2 Hne. destruct (value_eqb (sl_key x) k2); [reflexivity | apply Ho, Hne].
    + cbn [map]. now rewrite Hk.
Qed.

Lemma spec_write_absent k p v slots :
  slot_find k slots = None ->
  slot_write k p v slots = SOk (slots ++ [{| sl_key := k; sl_pending := [v]; sl_const := is_pconst p |}]).
Proof.
  induction slots as [|x slots IH]; cbn [slot_find slot_write app]; [reflexivity|].
  destruct (value_eqb (sl_key x) k); [discriminate|]. intros H. now rewrite (IH H).
Qed.

(** C02: one step of the fold at a position, spelled out: null replaces anything *)
Lemma spec_null_replaces a : combine a YNull = SOk ANull.
Proof. reflexivity. Qed.

(** ... anything replaces null *)
Lemma spec_over_null_scalar y v : scalar_of y = Some v -> y <> YNull -> combine ANull y = SOk (AScalar v).
Proof. destruct y; cbn; intros H Hn; try discriminate; try congruence; injection H as <-; reflexivity. Qed.

Lemma spec_over_null_seq l : combine ANull (YSeq l) = SOk (ASeq l).
Proof. reflexivity. Qed.

(** a scalar replaces a scalar *)
Lemma spec_scalar_replaces v0 y v : scalar_of y = Some v -> y <> YNull -> combine (AScalar v0) y = SOk (AScalar v).
Proof. destruct y; cbn; intros H Hn; try discriminate; try congruence; injection H as <-; reflexivity. Qed.

(** lists are concatenated *)
Lemma spec_lists_append l0 l : combine (ASeq l0) (YSeq l) = SOk (ASeq (l0 ++ l)).
Proof. reflexivity. Qed.

(** a mapping or a list combined with a non-null value of another kind is a conflict, in either
    order: never resolved in favour of one side *)
Lemma spec_conflicts :
  (forall s y v, scalar_of y = Some v -> y <> YNull -> combine (AMaps s) y = SErr SConflict) /\
  (forall s l, combine (AMaps s) (YSeq l) = SErr SConflict) /\
  (forall l0 y v, scalar_of y = Some v -> y <> YNull -> combine (ASeq l0) y = SErr SConflict) /\
  (forall l0 es, combine (ASeq l0) (YMap es) = SErr SConflict) /\
  (forall v0 es, combine (AScalar v0) (YMap es) = SErr SConflict) /\
  (forall v0 l, combine (AScalar v0) (YSeq l) = SErr SConflict).
Proof.
  repeat split; intros; try reflexivity.
  - destruct y; cbn in *; try discriminate; congruence || reflexivity.
  - destruct y; cbn in *; try discriminate; congruence || reflexivity.
Qed.

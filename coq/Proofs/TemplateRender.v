(* C05 end to end: a string that mixes text and references `pre ${a} mid ${b:c} post` (any
   number of pieces) renders to the concatenation, in order, of its literal pieces and of the
   text forms of the values its references render to as whole values -- at the same state, so
   with the same view of the parameters as a parameter `p: ${a}` has. *)
From RV Require Import Model.Interp Spec.TextOf Proofs.ValueFacts Proofs.WfFacts Proofs.InterpFacts Proofs.JsonFacts
     Proofs.Mono Proofs.Termination Proofs.ParserShape.

Fixpoint sconcat (l : list string) : string :=
  match l with [] => ""%string | s :: l' => (s ++ sconcat l')%string end.

Definition ref_str (c : ascii) (k : string) : string := ("${" ++ String c k ++ "}")%string.

Section TR.
  Variable root : mapping.
  Hypothesis Hroot : wf (VMap root).

  (** what a piece contributes: a literal piece its text; a reference the text form of the
      value `${path}` renders to as a whole value at this state *)
  Definition piece (f : nat) (st : rstate) (g : seg) (t : string) : Prop :=
    match g with
    | SText c p => t = String c p
    | SRef c k => exists v st', interp f root (VStr (ref_str c k)) st = Ok (v, st') /\ raw_string v = Ok t
    end.

  Lemma ref_parse c k : plain (String c k) -> token_parse (ref_str c k) = Parsed (TRef [TLit (String c k)]).
  Proof.
    intros Hp. pose proof (template_parse (SRef c k) [] c k) as H. cbn [segs_str seg_str map seg_tok] in H.
    unfold ref_str. replace ("${" ++ String c k ++ "}")%string with (("${" ++ String c k ++ "}") ++ "")%string.
    - apply H; [constructor; [exact Hp | constructor] | exact I | left; reflexivity].
    - generalize ("${" ++ String c k ++ "}")%string. intros s. induction s as [|a s IH]; cbn; [reflexivity | now rewrite IH].
  Qed.

  Lemma scalar_interp_id f v st v' st' :
    is_string v = false -> is_vlist v = false -> is_mapping v || is_sequence v = false ->
    interp f root v st = Ok (v', st') -> v' = v.
  Proof.
    intros H1 H2 H3 H. destruct f as [|f]; [discriminate|].
    destruct v as [| b | s | s | n | es | l | l]; cbn in H1, H2, H3; try discriminate; cbn [interp] in H; injection H as <- _; reflexivity.
  Qed.

  (** one reference piece inside a template = the whole-value render of that reference *)
  Lemma ref_piece_step f st c k v st' t :
    plain (String c k) ->
    interp f root (VStr (ref_str c k)) st = Ok (v, st') -> raw_string v = Ok t ->
    exists F, forall f', F <= f' ->
      exists v1 st1 st3,
        token_resolve f' root (TRef [TLit (String c k)]) st = Ok (v1, st1) /\
        interp_while_str f' root v1 st1 = Ok (v1, st1) /\
        (if is_mapping v1 || is_sequence v1 then interp f' root v1 st1 else Ok (v1, st1)) = Ok (v, st3).
  Proof.
    intros Hp H Ht. destruct f as [|f1]; [discriminate|]. cbn [interp] in H. rewrite (ref_parse c k Hp) in H.
    destruct f1 as [|f2]; [discriminate|]. cbn [token_render] in H.
    destruct (token_resolve f2 root (TRef [TLit (String c k)]) st) as [[v1 st1]| | |] eqn:Er; cbn [bind] in H; try discriminate.
    destruct (P_resolve_at root Hroot _ _ _ _ _ Er) as [_ [Hs Hv]].
    exists (S (S f2)). intros f' Hle. exists v1, st1.
    assert (R : token_resolve f' root (TRef [TLit (String c k)]) st = Ok (v1, st1)).
    { apply (fm_resolve root f2 f'); [lia | exact Er | discriminate]. }
    assert (W : interp_while_str f' root v1 st1 = Ok (v1, st1)).
    { destruct f' as [|f'']; [lia|]. cbn [interp_while_str]. now rewrite Hs. }
    destruct (is_mapping v1 || is_sequence v1) eqn:Ec.
    - exists st'. split; [exact R | split; [exact W|]]. apply (fm_interp root f2 f'); [lia | exact H | discriminate].
    - exists st1. split; [exact R | split; [exact W|]]. now rewrite (scalar_interp_id _ _ _ _ _ Hs Hv Ec H).
  Qed.

  Lemma slice_pieces f st : forall segs texts,
    Forall seg_ok segs -> Forall2 (piece f st) segs texts ->
    exists F, forall f', F <= f' ->
      slice_loop (token_resolve f' root) (interp_while_str f' root) (interp f' root) st (map seg_tok segs) = Ok (sconcat texts).
  Proof.
    induction segs as [|g segs IH]; intros texts Hok Hp; inversion Hp as [|? t ? texts' Hg Hrest]; subst.
    - exists 0. intros f' _. reflexivity.
    - inversion Hok as [|? ? Hg_ok Hok']; subst. destruct (IH texts' Hok' Hrest) as [F1 H1].
      destruct g as [c p | c k]; cbn [piece] in Hg.
      + subst t. exists (S F1). intros f' Hle. destruct f' as [|f'']; [lia|].
        assert (R : token_resolve (S f'') root (TLit (String c p)) st = Ok (VLit (String c p), st)) by reflexivity.
        assert (W : interp_while_str (S f'') root (VLit (String c p)) st = Ok (VLit (String c p), st)) by reflexivity.
        cbn [map seg_tok slice_loop]. rewrite R. cbn [bind]. rewrite W. cbn [bind is_mapping is_sequence orb raw_string].
        rewrite (H1 (S f'')) by lia. reflexivity.
      + destruct Hg as (v & st' & Hi & Ht).
        destruct (ref_piece_step f st c k v st' t Hg_ok Hi Ht) as [F2 H2].
        exists (Nat.max F1 F2). intros f' Hle.
        destruct (H2 f' ltac:(lia)) as (v1 & st1 & st3 & R & W & Cc).
        cbn [map seg_tok slice_loop]. rewrite R. cbn [bind]. rewrite W. cbn [bind]. rewrite Cc. cbn [bind]. rewrite Ht. cbn [bind].
        rewrite (H1 f') by lia. reflexivity.
  Qed.

  Theorem template_renders_as_text f st g1 g2 l texts :
    Forall seg_ok (g1 :: g2 :: l) -> alternating (g1 :: g2 :: l) -> (exists c k, In (SRef c k) (g1 :: g2 :: l)) ->
    Forall2 (piece f st) (g1 :: g2 :: l) texts ->
    exists F, forall f', F <= f' ->
      interp f' root (VStr (segs_str (g1 :: g2 :: l))) st = Ok (VLit (sconcat texts), st).
  Proof.
    intros Hok Halt (c & k & Hin) Hp.
    destruct (slice_pieces f st _ _ Hok Hp) as [F HF].
    exists (S (S (S (S F)))). intros f' Hle.
    destruct f' as [|[|[|[|f4]]]]; try lia.
    cbn [interp]. rewrite (template_parse g1 (g2 :: l) c k Hok Halt Hin). cbn [map].
    cbn [token_render]. cbn [token_resolve]. cbn [token_slice].
    change (seg_tok g1 :: seg_tok g2 :: map seg_tok l) with (map seg_tok (g1 :: g2 :: l)).
    rewrite (HF f4) by lia. cbn [bind raw_string]. reflexivity.
  Qed.

  (** the same with the specification of the text form *)
  Definition piece_spec (f : nat) (st : rstate) (g : seg) (t : string) : Prop :=
    match g with
    | SText c p => t = String c p
    | SRef c k => exists v st', interp f root (VStr (ref_str c k)) st = Ok (v, st') /\ text_of v = Some t
    end.

  Corollary template_renders_as_specified_text f st g1 g2 l texts :
    Forall seg_ok (g1 :: g2 :: l) -> alternating (g1 :: g2 :: l) -> (exists c k, In (SRef c k) (g1 :: g2 :: l)) ->
    Forall2 (piece_spec f st) (g1 :: g2 :: l) texts ->
    exists F, forall f', F <= f' ->
      interp f' root (VStr (segs_str (g1 :: g2 :: l))) st = Ok (VLit (sconcat texts), st).
  Proof.
    intros Hok Halt Hin Hp. apply (template_renders_as_text f st g1 g2 l texts Hok Halt Hin).
    clear - Hp. induction Hp as [|g t segs texts Hg _ IH]; constructor; [|exact IH].
    destruct g as [c p | c k]; cbn [piece piece_spec] in *; [exact Hg|].
    destruct Hg as (v & st' & Hi & Ht). exists v, st'. split; [exact Hi | exact (raw_string_is_text_of v t Ht)].
  Qed.
End TR.

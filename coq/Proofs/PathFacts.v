(* C03, multi-segment paths: a reference ${k0:k1:...:kn} yields the value found by looking the
   segments up in the *rendered* value of k0 -- "lookup after full interpolation = interpolation
   after on-the-fly lookup" -- through plain mappings, through references and through
   multiply-defined (layered) mappings. *)
From RV Require Import Model.Interp Proofs.ValueFacts Proofs.MappingFacts Proofs.WfFacts Proofs.InterpFacts
     Proofs.StateFacts Proofs.StateIndep Proofs.Mono Proofs.RefFacts.

(** lookup of a segment list in a (rendered) value *)
Fixpoint lookup (segs : list string) (v : value) : option value :=
  match segs with
  | [] => Some v
  | k :: segs' =>
      match v with
      | VMap m => match m_get (VStr k) m with Some v1 => lookup segs' v1 | None => None end
      | _ => None
      end
  end.

(** [vfree v]: no ValueList anywhere inside [v] *)
Fixpoint vfree (v : value) : Prop :=
  match v with
  | VList _ => False
  | VMap es =>
      (fix go (es : list entry) : Prop :=
         match es with [] => True | (_, x, _, _) :: es' => vfree x /\ go es' end) es
  | VSeq l => (fix go (l : list value) : Prop := match l with [] => True | x :: l' => vfree x /\ go l' end) l
  | _ => True
  end.

Lemma vfree_map_iff es : vfree (VMap es) <-> Forall (fun e => vfree (e_val e)) es.
Proof.
  cbn [vfree]. split.
  - induction es as [|[[[k x] c] o] es IH]; intros H; constructor; [apply H | apply IH, H].
  - induction 1 as [|[[[k x] c] o] es Hx H IH]; [exact I | split; [exact Hx | exact IH]].
Qed.

Lemma closed_vfree : forall v, closed v -> vfree v.
Proof.
  induction v as [| | | | | es IH | vs IH | vs IH] using value_ind'; intros Hc; try exact I; try (destruct Hc).
  - apply vfree_map_iff. apply closed_map_iff in Hc. rewrite Forall_forall in *. intros e He. apply (proj2 (IH e He)), Hc, He.
  - cbn [vfree]. apply closed_seq_iff in Hc. revert IH Hc. induction vs as [|x vs IHvs]; intros IH Hc; [exact I|].
    inversion IH as [|? ? Hx IHr]; subst. inversion Hc as [|? ? Hcx Hcr]; subst. split; [exact (Hx Hcx) | exact (IHvs IHr Hcr)].
Qed.

(** the value on a reference path: free of ValueLists, or one ValueList of such values (what
    merging class parameters produces: layers are spliced, never nested) *)
Definition lay (v : value) : Prop :=
  match v with VList l => Forall vfree l | _ => vfree v end.

Lemma vfree_lay v : vfree v -> lay v.
Proof. destruct v; cbn; tauto. Qed.

Lemma vfree_get k es v : vfree (VMap es) -> m_get k es = Some v -> vfree v.
Proof.
  rewrite vfree_map_iff. unfold m_get. destruct (m_find k es) as [e|] eqn:F; [|discriminate].
  intros H E; injection E as <-. rewrite Forall_forall in H. apply H. eapply m_find_In; eauto.
Qed.

Lemma closed_get k es v : closed (VMap es) -> m_get k es = Some v -> closed v.
Proof.
  rewrite closed_map_iff. unfold m_get. destruct (m_find k es) as [e|] eqn:F; [|discriminate].
  intros H E; injection E as <-. rewrite Forall_forall in H. apply H. eapply m_find_In; eauto.
Qed.

Section Path.
  Variable root : mapping.
  Hypothesis Hroot : wf (VMap root).

  (** [ren x s y]: [x] renders to [y] when rendered in state [s] *)
  Definition ren (x : value) (s : rstate) (y : value) : Prop :=
    exists F s', interp F root x s = Ok (y, s').

  Lemma ren_unique x s1 y1 s2 y2 : ren x s1 y1 -> ren x s2 y2 -> y1 = y2.
  Proof. intros (F1 & t1 & H1) (F2 & t2 & H2). exact (interp_result_unique root x _ _ _ _ _ _ _ _ H1 H2). Qed.

  Lemma ren_closed x s y : wf x -> ren x s y -> closed y /\ wf y.
  Proof. intros Hw (F & t & H). exact (interp_closed _ _ _ _ _ _ Hroot Hw H). Qed.

  Lemma ren_closed_id x s y : closed x -> wf x -> ren x s y -> y = x.
  Proof. intros Hc Hw (F & t & H). exact (proj1 (interp_closed_ok_id root F x s y t Hc Hw H)). Qed.

  (** * what rendering a mapping does, entry by entry *)
  Definition entry_ren (s : rstate) (e e' : entry) : Prop :=
    e_key e' = e_key e /\ e_const e' = e_const e /\ e_over e' = e_over e /\
    exists s1, push_mapping_key s (e_key e) = Ok s1 /\ ren (e_val e) s1 (e_val e').

  Lemma map_loop_entries f s : forall es acc m',
    Forall (fun e => wf (e_val e)) es -> Forall unmarked (keys es) -> NoDup (keys acc ++ keys es) ->
    map_loop (interp f root) s es acc = Ok m' ->
    exists es', m' = acc ++ es' /\ Forall2 (entry_ren s) es es'.
  Proof.
    induction es as [|[[[k v] c] o] es IH]; intros acc m' Hw Hum Hnd H; cbn [map_loop] in H.
    - injection H as <-. exists []. split; [now rewrite app_nil_r | constructor].
    - inversion Hw as [|? ? Hwv Hws]; subst. inversion Hum as [|? ? Hk Hks]; subst. cbn [e_key e_val fst snd] in *.
      destruct (push_mapping_key s k) as [s1| | |] eqn:Ep; cbn [bind] in H; try discriminate.
      destruct (interp f root v s1) as [[v' s2]| | |] eqn:E; cbn [bind] in H; try discriminate.
      destruct (interp_closed _ _ _ _ _ _ Hroot Hwv E) as [Hc Hwv'].
      rewrite (flattened_closed_id _ v' Hc Hwv') in H. cbn [bind] in H.
      assert (Hins : insert_impl acc k v' c o = Ok (acc ++ [mk_entry k v' c o])).
      { destruct (unmarked_stripped k Hk) as [Es Em]. rewrite insert_absent; [now rewrite Es, Em|].
        rewrite Es. apply m_find_none_keys. cbn [keys map e_key fst] in Hnd. apply NoDup_remove_2 in Hnd.
        intros Hin. apply Hnd, in_or_app. now left. }
      rewrite Hins in H. cbn [bind] in H.
      destruct (IH (acc ++ [mk_entry k v' c o]) m' Hws Hks) as (es' & -> & Hf); [|exact H|].
      + unfold keys in *. rewrite map_app, <- app_assoc. exact Hnd.
      + exists (mk_entry k v' c o :: es'). split; [now rewrite <- app_assoc|].
        constructor; [|exact Hf]. unfold entry_ren. cbn [mk_entry e_key e_val e_const e_over fst snd].
        repeat split. exists s1. split; [exact Ep|]. exists f, s2. exact E.
  Qed.

  Lemma ren_map a s y : wf (VMap a) -> ren (VMap a) s y -> exists ra, y = VMap ra /\ Forall2 (entry_ren s) a ra.
  Proof.
    intros Hw (F & t & H). destruct F as [|[|f]]; try discriminate. cbn [interp mapping_interp] in H.
    destruct (map_loop (interp f root) s a []) as [m'| | |] eqn:E; cbn [bind] in H; try discriminate. injection H as <- _.
    apply wf_map_iff in Hw as (Hnd & Hum & Hv).
    destruct (map_loop_entries f s a [] m' Hv Hum Hnd E) as (es' & -> & Hf). exists es'. split; [reflexivity | exact Hf].
  Qed.

  Lemma entries_get s : forall a ra k v1,
    Forall2 (entry_ren s) a ra -> m_get k a = Some v1 ->
    exists rv1 s1, m_get k ra = Some rv1 /\ push_mapping_key s k = Ok s1 /\ ren v1 s1 rv1.
  Proof.
    unfold m_get. induction 1 as [|e e' a ra (Hk & _ & _ & s1 & Hp & Hr) _ IH]; cbn [m_find]; [discriminate|].
    rewrite Hk. destruct (value_eqb (e_key e) k) eqn:E.
    - apply value_eqb_eq in E. cbn [option_map]. intros E'; injection E' as <-. exists (e_val e'), s1.
      split; [reflexivity | split; [rewrite <- E; exact Hp | exact Hr]].
    - exact IH.
  Qed.

  (** * walking through closed data is plain lookup *)
  Lemma walk_closed f path : forall segs v st trav v' st',
    closed v -> wf v -> walk_loop (interp_sov f root) path segs v st trav = Ok (v', st') ->
    lookup segs v = Some v' /\ closed v' /\ wf v'.
  Proof.
    induction segs as [|key segs IH]; intros v st trav v' st' Hc Hw H; cbn [walk_loop] in H.
    - injection H as <- _. split; [reflexivity | split; assumption].
    - destruct f as [|f']; [discriminate|].
      assert (Es : interp_sov (S f') root v st = Ok (v, st)).
      { cbn [interp_sov]. destruct v; try reflexivity; destruct Hc. }
      rewrite Es in H. cbn [bind] in H.
      destruct v as [| | | | | m | |]; try discriminate.
      destruct (m_get (VStr key) m) as [v1|] eqn:G; [|discriminate].
      cbn [lookup]. rewrite G. exact (IH v1 st _ v' st' (closed_get _ _ _ Hc G) (wf_get _ _ _ Hw G) H).
  Qed.

  (** * the layers of a ValueList: rendered on the fly (sov) and rendered in full *)
  Fixpoint merge_fold (ck : string) (b : value) (ys : list value) : res value :=
    match ys with
    | [] => Ok b
    | y :: ys' => b' <- value_merge ck b y ;; merge_fold ck b' ys'
    end.

  Lemma sov_loop_char f st : forall l i,
    sov_loop (interp f root) st l = Ok i ->
    Forall2 (fun x ix => if is_string x then ren x st ix else ix = x) l i.
  Proof.
    induction l as [|x l IH]; intros i H; cbn [sov_loop] in H; [injection H as <-; constructor|].
    destruct (is_string x) eqn:Es.
    - destruct (interp f root x st) as [[y s1]| | |] eqn:E; cbn [bind] in H; try discriminate.
      destruct (sov_loop (interp f root) st l) as [r| | |] eqn:E2; cbn [bind] in H; try discriminate. injection H as <-.
      constructor; [rewrite Es; exists f, s1; exact E | apply IH; reflexivity].
    - cbn [bind] in H. destruct (sov_loop (interp f root) st l) as [r| | |] eqn:E2; cbn [bind] in H; try discriminate. injection H as <-.
      constructor; [rewrite Es; reflexivity | apply IH; reflexivity].
  Qed.

  Lemma vlist_loop_char F s : forall l b r,
    vlist_loop (interp F root) s l b = Ok r ->
    exists ys, Forall2 (fun x y => ren x s y) l ys /\ merge_fold (current_key s) b ys = Ok r.
  Proof.
    induction l as [|x l IH]; intros b r H; cbn [vlist_loop] in H.
    - injection H as <-. exists []. split; [constructor | reflexivity].
    - destruct (interp F root x s) as [[iv s1]| | |] eqn:E; cbn [bind] in H; try discriminate.
      destruct (value_merge (current_key s1) b iv) as [b'| | |] eqn:Em; cbn [bind] in H; try discriminate.
      destruct (IH b' r H) as (ys & Hf & Hm). exists (iv :: ys). split; [constructor; [exists F, s1; exact E | exact Hf]|].
      cbn [merge_fold]. assert (Ek : current_key s1 = current_key s).
      { unfold current_key. now rewrite (proj1 (interp_state_le _ _ _ _ _ _ E)). }
      rewrite <- Ek, Em. cbn [bind]. rewrite Ek. exact Hm.
  Qed.

  Lemma flat_fold_merge_fold ck : forall i b,
    Forall (fun x => is_vlist x = false) i -> flat_fold ck i b = merge_fold ck b i.
  Proof.
    induction i as [|x i IH]; intros b Hi; cbn [flat_fold merge_fold]; [reflexivity|].
    inversion Hi as [|? ? Hx Hi']; subst. unfold value_merge. rewrite Hx.
    destruct (is_null x); cbn [bind]; [apply IH, Hi'|].
    assert (E : match x with VList _ => flattened ck x | _ => Ok x end = Ok x) by (destruct x; try reflexivity; discriminate).
    rewrite E. cbn [bind]. destruct (merge_core ck b x); cbn [bind]; try reflexivity. apply IH, Hi'.
  Qed.

  (** kinds *)
  Definition kind (v : value) : nat :=
    match v with VNull => 0 | VBool _ | VLit _ | VNum _ => 1 | VMap _ => 2 | VSeq _ => 3 | VStr _ => 4 | VList _ => 5 end.

  Lemma ren_kind x s y : wf x -> is_string x = false -> is_vlist x = false -> ren x s y -> kind y = kind x.
  Proof.
    intros Hw Hs Hl (F & t & H). destruct F as [|f]; [discriminate|]. cbn [interp] in H.
    destruct x as [| b | st | st | n | es | l | l]; try discriminate; try (injection H as <- _; reflexivity).
    - destruct (mapping_interp f root es s); cbn [bind] in H; try discriminate. injection H as <- _. reflexivity.
    - destruct (seq_loop (interp f root) s l 0); cbn [bind] in H; try discriminate. injection H as <- _. reflexivity.
  Qed.

  Definition kmerge (kb kx : nat) : nat :=
    if Nat.eqb kx 0 then 0 else if Nat.eqb kb 0 then kx else if Nat.eqb kb 1 then kx else kb.

  Lemma value_merge_kind ck b x b2 :
    is_vlist x = false -> value_merge ck b x = Ok b2 -> kind b2 = kmerge (kind b) (kind x).
  Proof.
    intros Hl. unfold value_merge. rewrite Hl.
    destruct x as [| bx | sx | sx | nx | ex | lx | lx]; try discriminate; cbn [is_null bind];
      try (intros H; injection H as <-; reflexivity);
      destruct b as [| bb | sb | sb | nb | eb | lb | lb]; cbn [merge_core is_mapping is_sequence orb];
      try discriminate; try (intros H; injection H as <-; reflexivity).
    unfold rmap. destruct (mapping_merge eb ex); cbn [bind]; try discriminate. intros H; injection H as <-; reflexivity.
  Qed.

  (** * merging raw layers and merging their renders run in lockstep *)
  Definition ER (s : rstate) (k x y : value) : Prop :=
    wf x /\ vfree x /\ ((closed x /\ y = x) \/ (exists s1, push_mapping_key s k = Ok s1 /\ ren x s1 y)).

  Definition EEe (s : rstate) (e e' : entry) : Prop :=
    e_key e' = e_key e /\ e_const e' = e_const e /\ e_over e' = e_over e /\
    is_vlist (e_val e') = is_vlist (e_val e) /\
    Forall2 (ER s (e_key e)) (layers_of (e_val e)) (layers_of (e_val e')).

  Definition EE (s : rstate) (m rm : mapping) : Prop := Forall2 (EEe s) m rm.

  Lemma EE_find s k m rm :
    EE s m rm ->
    match m_find k m, m_find k rm with
    | Some e, Some e' => EEe s e e'
    | None, None => True
    | _, _ => False
    end.
  Proof.
    induction 1 as [|e e' m rm He _ IH]; cbn [m_find]; [exact I|].
    pose proof He as (Hk & _). rewrite Hk. destruct (value_eqb (e_key e) k); [exact He | exact IH].
  Qed.

  Lemma EE_set s k f g m rm :
    EE s m rm -> (forall e e', EEe s e e' -> e_key e = k -> EEe s (f e) (g e')) ->
    EE s (m_set k f m) (m_set k g rm).
  Proof.
    intros H Hfg. induction H as [|e e' m rm He Hr IH]; cbn [m_set]; [constructor|].
    pose proof He as (Hk & _). rewrite Hk. destruct (value_eqb (e_key e) k) eqn:E.
    - apply value_eqb_eq in E. constructor; [apply Hfg; assumption | exact Hr].
    - constructor; [exact He | exact IH].
  Qed.

  Lemma layers_snoc old x : is_vlist x = false ->
    layers_of (match old with VList l => VList (l ++ layers_of x) | _ => VList (old :: layers_of x) end) = layers_of old ++ [x].
  Proof. intros Hx. assert (layers_of x = [x]) as -> by (destruct x; try reflexivity; discriminate). destruct old; reflexivity. Qed.

  Lemma insert_param s m rm k x y c o m2 rm2 :
    EE s m rm -> unmarked k -> ER s k x y -> is_vlist x = false -> is_vlist y = false ->
    insert_impl m k x c o = Ok m2 -> insert_impl rm k y c o = Ok rm2 -> EE s m2 rm2.
  Proof.
    intros Hee Hu Her Hx Hy. unfold insert_impl. rewrite Hu.
    pose proof (EE_find s k m rm Hee) as Hf.
    assert (Lx : layers_of x = [x]) by (destruct x; try reflexivity; discriminate).
    assert (Ly : layers_of y = [y]) by (destruct y; try reflexivity; discriminate).
    destruct (m_find k m) as [e|] eqn:Fm; destruct (m_find k rm) as [e'|] eqn:Fr; try contradiction.
    - destruct Hf as (Hk & Hc & Ho & Hl & Hlay). pose proof (m_find_key _ _ _ Fm) as Eke.
      rewrite Hc. destruct (e_const e); [discriminate|].
      cbn [is_pover orb]. rewrite Bool.orb_false_r. destruct o.
      + intros H1 H2. injection H1 as <-. injection H2 as <-. apply EE_set; [exact Hee|].
        intros e0 e0' (Hk0 & Hc0 & Ho0 & Hl0 & Hlay0) Hke. unfold EEe. cbn [mk_entry e_key e_val e_const e_over fst snd].
        rewrite Lx, Ly. repeat split; try assumption; try congruence. constructor; [exact Her | constructor].
      + intros H1 H2. injection H1 as <-. injection H2 as <-. apply EE_set; [exact Hee|].
        intros e0 e0' (Hk0 & Hc0 & Ho0 & Hl0 & Hlay0) Hke. unfold EEe. cbn [mk_entry e_key e_val e_const e_over fst snd].
        split; [reflexivity | split; [reflexivity | split; [exact Ho0 | split]]].
        * destruct (e_val e'), (e_val e); reflexivity.
        * rewrite (layers_snoc (e_val e) x Hx), (layers_snoc (e_val e') y Hy).
          apply Forall2_app; [rewrite <- Eke; exact Hlay | constructor; [exact Her | constructor]].
    - intros H1 H2. injection H1 as <-. injection H2 as <-. apply Forall2_app; [exact Hee|]. constructor; [|constructor].
      unfold EEe. cbn [mk_entry e_key e_val e_const e_over fst snd]. rewrite Lx, Ly. repeat split; try congruence.
      constructor; [exact Her | constructor].
  Qed.

  (** entries of two corresponding layers (a raw mapping and its render, or a closed mapping and itself) *)
  Definition LE (s : rstate) (e e' : entry) : Prop :=
    e_key e' = e_key e /\ e_const e' = e_const e /\ e_over e' = e_over e /\
    ER s (e_key e) (e_val e) (e_val e') /\ is_vlist (e_val e) = false /\ is_vlist (e_val e') = false.

  Lemma EE_of_LE s a ra : Forall2 (LE s) a ra -> EE s a ra.
  Proof.
    induction 1 as [|e e' a ra (Hk & Hc & Ho & Her & Hx & Hy) _ IH]; constructor; [|exact IH].
    unfold EEe. repeat split; try assumption; [congruence|].
    assert (layers_of (e_val e) = [e_val e]) as -> by (destruct (e_val e); try reflexivity; discriminate).
    assert (layers_of (e_val e') = [e_val e']) as -> by (destruct (e_val e'); try reflexivity; discriminate).
    constructor; [exact Her | constructor].
  Qed.

  Lemma merge_param s : forall a ra m rm m2 rm2,
    Forall2 (LE s) a ra -> Forall unmarked (keys a) -> EE s m rm ->
    mapping_merge m a = Ok m2 -> mapping_merge rm ra = Ok rm2 -> EE s m2 rm2.
  Proof.
    unfold mapping_merge. intros a ra m rm m2 rm2 H. revert m rm m2 rm2.
    induction H as [|e e' a ra (Hk & Hc & Ho & Her & Hx & Hy) _ IH]; intros m rm m2 rm2 Hum Hee H1 H2; cbn [foldM] in *.
    - injection H1 as <-. injection H2 as <-. exact Hee.
    - inversion Hum as [|? ? Hu Hum']; subst.
      destruct (insert_impl m (e_key e) (e_val e) (e_const e) (e_over e)) as [m1| | |] eqn:E1; cbn [bind] in H1; try discriminate.
      rewrite Hk, Hc, Ho in H2.
      destruct (insert_impl rm (e_key e) (e_val e') (e_const e) (e_over e)) as [rm1| | |] eqn:E2; cbn [bind] in H2; try discriminate.
      apply (IH m1 rm1 m2 rm2 Hum' (insert_param s m rm _ _ _ _ _ m1 rm1 Hee Hu Her Hx Hy E1 E2) H1 H2).
  Qed.

  (** two corresponding layers *)
  Definition LR (s : rstate) (x y : value) : Prop :=
    wf x /\ vfree x /\ ((closed x /\ y = x) \/ (is_string x = false /\ ren x s y)).

  Lemma vfree_not_vlist x : vfree x -> is_vlist x = false.
  Proof. destruct x; cbn; tauto. Qed.

  Lemma LR_kind s x y : LR s x y -> kind y = kind x /\ is_vlist x = false /\ is_vlist y = false.
  Proof.
    intros (Hw & Hv & [[Hc ->] | [Hs Hr]]).
    - repeat split; apply vfree_not_vlist, Hv.
    - pose proof (vfree_not_vlist x Hv) as Hl. pose proof (ren_kind x s y Hw Hs Hl Hr) as Hk. repeat split; try assumption.
      destruct (ren_closed x s y Hw Hr) as [Hc _]. apply (closed_top _ Hc).
  Qed.

  Lemma LR_map s a y : LR s (VMap a) y -> exists ra, y = VMap ra /\ Forall2 (LE s) a ra /\ Forall unmarked (keys a).
  Proof.
    intros (Hw & Hv & H). pose proof (proj1 (wf_map_iff a) Hw) as (_ & Hum & Hwv).
    pose proof (proj1 (vfree_map_iff a) Hv) as Hvf.
    destruct H as [[Hc ->] | [_ Hr]].
    - exists a. split; [reflexivity | split; [|exact Hum]]. apply closed_map_iff in Hc.
      clear Hum Hw Hv. induction a as [|e a IH]; constructor.
      + inversion Hwv; subst. inversion Hc; subst. inversion Hvf; subst. unfold LE, ER. repeat split; try assumption; try (now apply vfree_not_vlist).
        left. split; [assumption | reflexivity].
      + inversion Hwv; subst. inversion Hc; subst. inversion Hvf; subst. apply IH; assumption.
    - destruct (ren_map a s y Hw Hr) as (ra & -> & Hf). exists ra. split; [reflexivity | split; [|exact Hum]].
      clear Hum Hw Hv Hr. induction Hf as [|e e' a ra (Hk & Hc & Ho & s1 & Hp & Hre) _ IH]; constructor.
      + inversion Hwv; subst. inversion Hvf; subst. unfold LE, ER. repeat split; try assumption; try (now apply vfree_not_vlist).
        * right. exists s1. split; assumption.
        * destruct (ren_closed _ _ _ H1 Hre) as [Hcl _]. apply (closed_top _ Hcl).
      + inversion Hwv; subst. inversion Hvf; subst. apply IH; assumption.
  Qed.

  Definition Inv (s : rstate) (b rb : value) : Prop :=
    kind rb = kind b /\ (forall m, b = VMap m -> exists rm, rb = VMap rm /\ EE s m rm).

  Lemma fold_param s ck ck' : forall i ys b rb M r,
    Forall2 (LR s) i ys -> Inv s b rb ->
    merge_fold ck b i = Ok M -> merge_fold ck' rb ys = Ok r -> Inv s M r.
  Proof.
    intros i ys b rb M r H. revert b rb M r.
    induction H as [|x y i ys Hlr _ IH]; intros b rb M r Hinv H1 H2; cbn [merge_fold] in *.
    - injection H1 as <-. injection H2 as <-. exact Hinv.
    - destruct (value_merge ck b x) as [b2| | |] eqn:E1; cbn [bind] in H1; try discriminate.
      destruct (value_merge ck' rb y) as [rb2| | |] eqn:E2; cbn [bind] in H2; try discriminate.
      apply (IH b2 rb2 M r); [|exact H1 | exact H2].
      destruct (LR_kind s x y Hlr) as (Hk & Hxl & Hyl). destruct Hinv as [Hkb Hmaps].
      split.
      + rewrite (value_merge_kind _ _ _ _ Hyl E2), (value_merge_kind _ _ _ _ Hxl E1). now rewrite Hk, Hkb.
      + intros m2 ->. revert E1 E2. unfold value_merge. rewrite Hxl, Hyl.
        destruct (is_null x) eqn:Enx; [discriminate|].
        assert (Eny : is_null y = false) by (destruct x, y; cbn in Hk, Enx |- *; try discriminate; reflexivity).
        rewrite Eny. cbn [bind].
        destruct b as [| bb | sb | sb | nb | m | lb | lb]; cbn [merge_core]; try discriminate.
        * (* base null *)
          intros E1; injection E1 as ->. destruct rb; cbn in Hkb; try discriminate. cbn [merge_core].
          intros E2; injection E2 as <-. destruct (LR_map s m2 y Hlr) as (ra & -> & Hle & _).
          exists ra. split; [reflexivity | exact (EE_of_LE s m2 ra Hle)].
        * destruct (is_mapping x || is_sequence x) eqn:Ex; [discriminate|]. intros E1; injection E1 as ->. discriminate.
        * destruct (is_mapping x || is_sequence x) eqn:Ex; [discriminate|]. intros E1; injection E1 as ->. discriminate.
        * destruct (is_mapping x || is_sequence x) eqn:Ex; [discriminate|]. intros E1; injection E1 as ->. discriminate.
        * (* mapping over mapping *)
          destruct x as [| | | | | a | |]; try discriminate. unfold rmap.
          destruct (mapping_merge m a) as [mm| | |] eqn:Em; cbn [bind]; try discriminate. intros E1; injection E1 as <-.
          destruct (Hmaps m eq_refl) as (rm & -> & Hee). destruct (LR_map s a y Hlr) as (ra & -> & Hle & Hum).
          cbn [merge_core]. unfold rmap. destruct (mapping_merge rm ra) as [rmm| | |] eqn:Erm; cbn [bind]; try discriminate.
          intros E2; injection E2 as <-. exists rmm. split; [reflexivity | exact (merge_param s a ra m rm mm rmm Hle Hum Hee Em Erm)].
        * destruct x; discriminate.
  Qed.

  (** * from the layers of the merged render back to a render of the merged layers *)
  Lemma vlist_loop_build s1 : forall xs ys b r,
    Forall2 (fun x y => ren x s1 y) xs ys -> merge_fold (current_key s1) b ys = Ok r ->
    exists G0, forall G, G0 <= G -> vlist_loop (interp G root) s1 xs b = Ok r.
  Proof.
    intros xs ys b r H. revert b r. induction H as [|x y xs ys (F1 & t1 & H1) _ IH]; intros b r Hm; cbn [merge_fold] in Hm.
    - injection Hm as <-. exists 0. reflexivity.
    - destruct (value_merge (current_key s1) b y) as [b'| | |] eqn:Em; cbn [bind] in Hm; try discriminate.
      destruct (IH b' r Hm) as [G2 H2]. exists (Nat.max F1 G2). intros G HG. cbn [vlist_loop].
      rewrite (interp_fuel_mono root F1 G x s1 _ ltac:(lia) H1) by discriminate. cbn [bind].
      assert (Ek : current_key t1 = current_key s1).
      { unfold current_key. now rewrite (proj1 (interp_state_le _ _ _ _ _ _ H1)). }
      rewrite Ek, Em. cbn [bind]. apply H2. lia.
  Qed.

  Lemma ER_closed s k x y : ER s k x y -> closed y /\ wf y.
  Proof.
    intros (Hw & _ & [[Hc ->] | (s1 & _ & Hr)]); [split; assumption | exact (ren_closed x s1 y Hw Hr)].
  Qed.

  Lemma ER_transfer s k s1 x y rv1 :
    push_mapping_key s k = Ok s1 -> ER s k x y -> ren y s1 rv1 -> ren x s1 rv1.
  Proof.
    intros Hp (Hw & _ & [[Hc ->] | (s1' & Hp' & Hx)]) Hr; [exact Hr|].
    rewrite Hp in Hp'. injection Hp' as <-. destruct (ren_closed _ _ _ Hw Hx) as [Hcy Hwy].
    rewrite (ren_closed_id _ _ _ Hcy Hwy Hr). exact Hx.
  Qed.

  (** the entry of the merged renders renders to [rv1]: so do the merged raw layers *)
  Lemma entry_transfer s k s1 v1 w rv1 :
    push_mapping_key s k = Ok s1 ->
    is_vlist w = is_vlist v1 -> Forall2 (ER s k) (layers_of v1) (layers_of w) ->
    ren w s1 rv1 -> ren v1 s1 rv1.
  Proof.
    intros Hp Hl Hf Hr. destruct (is_vlist v1) eqn:Ev1.
    2:{ assert (L1 : layers_of v1 = [v1]) by (destruct v1; try reflexivity; discriminate).
        assert (L2 : layers_of w = [w]) by (destruct w; try reflexivity; discriminate).
        rewrite L1, L2 in Hf. inversion Hf as [|? ? ? ? Her _]; subst. exact (ER_transfer s k s1 v1 w rv1 Hp Her Hr). }
    destruct v1 as [| | | | | | | xs]; try discriminate. destruct w as [| | | | | | | ys]; try discriminate.
    cbn [layers_of] in Hf.
    (* both are ValueLists *)
    destruct Hr as (G & t & H). destruct G as [|g]; [discriminate|]. cbn [interp] in H.
    destruct (vlist_loop (interp g root) s1 ys VNull) as [r2| | |] eqn:Ev; cbn [bind] in H; try discriminate.
    destruct (vlist_loop_char g s1 ys VNull r2 Ev) as (ys' & Hys & Hm).
    assert (Eys : ys' = ys).
    { clear - Hf Hys Hroot. revert ys' Hys. induction Hf as [|x y xs ys Her _ IH]; intros ys' Hys; inversion Hys as [|? y' ? ys2 Hy Hr]; subst; [reflexivity|].
      destruct (ER_closed _ _ _ _ Her) as [Hc Hw]. rewrite (ren_closed_id _ _ _ Hc Hw Hy). f_equal. apply IH, Hr. }
    subst ys'.
    assert (Hxs : Forall2 (fun x y => ren x s1 y) xs ys).
    { clear - Hf Hys Hp. induction Hf as [|x y xs ys (Hw & _ & [[Hc ->] | (s1' & Hp' & Hx)]) _ IH]; inversion Hys as [|? ? ? ? Hy Hr]; subst; constructor; try (apply IH, Hr).
      - exact Hy.
      - rewrite Hp in Hp'. injection Hp' as <-. exact Hx. }
    destruct (vlist_loop_build s1 xs ys VNull r2 Hxs Hm) as [G0 HG0].
    exists (S (Nat.max g G0)), t. cbn [interp]. rewrite (HG0 (Nat.max g G0) (Nat.le_max_r _ _)). cbn [bind].
    apply (interp_fuel_mono root g (Nat.max g G0) r2 s1 _ (Nat.le_max_l _ _) H). discriminate.
  Qed.

  (** * one step of the walk through a layered value *)
  Lemma layers_LR (st s : rstate) : forall l i ys,
    Forall (fun x => wf x /\ vfree x) l ->
    Forall2 (fun x ix => if is_string x then ren x st ix else ix = x) l i ->
    Forall2 (fun x y => ren x s y) l ys ->
    Forall2 (LR s) i ys.
  Proof.
    intros l i ys Hl H1. revert ys. induction H1 as [|x ix l i Hx _ IH]; intros ys H2; inversion H2 as [|? y ? ys' Hy H2']; subst; [constructor|].
    inversion Hl as [|? ? [Hw Hv] Hl']; subst. constructor; [|apply IH; assumption].
    destruct (is_string x) eqn:Es.
    - destruct (ren_closed _ _ _ Hw Hx) as [Hc Hwi]. rewrite (ren_unique _ _ _ _ _ Hy Hx).
      split; [exact Hwi | split; [exact (closed_vfree _ Hc) | left; split; [exact Hc | reflexivity]]].
    - subst ix. split; [exact Hw | split; [exact Hv | right; split; [exact Es | exact Hy]]].
  Qed.

  Lemma K_list f st l m st1 key v1 s rv :
    wf (VList l) -> Forall vfree l ->
    interp_sov f root (VList l) st = Ok (VMap m, st1) -> m_get (VStr key) m = Some v1 ->
    ren (VList l) s rv ->
    exists out rv1 s1, rv = VMap out /\ m_get (VStr key) out = Some rv1 /\ ren v1 s1 rv1 /\ wf v1 /\ lay v1.
  Proof.
    intros Hw Hvf Hsov Hget (F & s' & Hren).
    pose proof (proj1 (wf_list_iff l) Hw) as Hwl.
    assert (Hl : Forall (fun x => wf x /\ vfree x) l).
    { rewrite Forall_forall in *. intros x Hx. split; [apply Hwl, Hx | apply Hvf, Hx]. }
    (* on the fly *)
    destruct f as [|f']; [discriminate|]. cbn [interp_sov] in Hsov.
    destruct (sov_loop (interp f' root) st l) as [i| | |] eqn:Ei; cbn [bind] in Hsov; try discriminate.
    destruct (flattened (current_key st) (VList i)) as [r0| | |] eqn:Ef; cbn [bind] in Hsov; try discriminate.
    injection Hsov as -> _.
    (* in full *)
    destruct F as [|F0]; [discriminate|]. cbn [interp] in Hren.
    destruct (vlist_loop (interp F0 root) s l VNull) as [r| | |] eqn:Ev; cbn [bind] in Hren; try discriminate.
    destruct (vlist_loop_char F0 s l VNull r Ev) as (ys & Hys & Hm).
    pose proof (layers_LR st s l i ys Hl (sov_loop_char f' st l i Ei) Hys) as Hlr.
    assert (Hil : Forall (fun x => is_vlist x = false) i).
    { clear - Hlr. induction Hlr as [|x y i ys (_ & Hv & _) _ IH]; constructor; [apply vfree_not_vlist, Hv | exact IH]. }
    rewrite flattened_vlist, (flat_fold_merge_fold _ i VNull Hil) in Ef.
    assert (Hinv0 : Inv s VNull VNull) by (split; [reflexivity | intros m0 E; discriminate]).
    destruct (fold_param s _ _ i ys VNull VNull (VMap m) r Hlr Hinv0 Ef Hm) as [_ Hmaps].
    destruct (Hmaps m eq_refl) as (rm & -> & Hee).
    (* the merged renders are rendered again, entry by entry *)
    assert (Hwr : wf (VMap rm)).
    { apply (vlist_loop_inv (interp F0 root) s (proj1 (interp_facts root Hroot F0)) l VNull (VMap rm)); try exact Ev.
      - eapply Forall_impl; [|exact Hwl]. intros x Hx. apply Hx.
      - exact I.
      - split; reflexivity. }
    destruct (ren_map rm s rv Hwr (ex_intro _ F0 (ex_intro _ s' Hren))) as (out & -> & Hout).
    (* the entry for the key *)
    pose proof (EE_find s (VStr key) m rm Hee) as Hf. unfold m_get in Hget.
    destruct (m_find (VStr key) m) as [e|] eqn:Fm; [|discriminate]. cbn [option_map] in Hget. injection Hget as <-.
    destruct (m_find (VStr key) rm) as [e'|] eqn:Frm; [|contradiction].
    destruct Hf as (Hk & _ & _ & Hvl & Hlay). pose proof (m_find_key _ _ _ Fm) as Eke. rewrite Eke in Hlay.
    destruct (entries_get s rm out (VStr key) (e_val e') Hout) as (rv1 & s1 & Hg & Hp & Hr1); [unfold m_get; now rewrite Frm|].
    exists out, rv1, s1. split; [reflexivity | split; [exact Hg | split; [exact (entry_transfer s (VStr key) s1 (e_val e) (e_val e') rv1 Hp Hvl Hlay Hr1) | split]]].
    - (* wf *)
      assert (Hwi : wf (VList i)).
      { apply wf_list_iff. clear - Hlr. induction Hlr as [|x y i ys (Hw & Hv & _) _ IH]; constructor; [split; [exact Hw | apply vfree_not_vlist, Hv] | exact IH]. }
      assert (Hwm : wf (VMap m)).
      { apply (flattened_wf (current_key st) (VList i) (VMap m) Hwi). rewrite flattened_vlist, (flat_fold_merge_fold _ i VNull Hil). exact Ef. }
      apply (wf_get (VStr key) m (e_val e) Hwm). unfold m_get. now rewrite Fm.
    - (* layered *)
      unfold lay. destruct (e_val e) as [| | | | | | | xs] eqn:Eve; cbn [layers_of] in Hlay;
        try (inversion Hlay as [|? ? ? ? (_ & Hv & _) _]; subst; exact Hv).
      clear - Hlay. induction Hlay as [|x y xs ys (_ & Hv & _) _ IH]; constructor; assumption.
  Qed.

  (** * the walk: on-the-fly lookup agrees with lookup in the rendered value *)
  Lemma walk_lookup f path : forall segs v st trav v' st',
    wf v -> lay v -> walk_loop (interp_sov f root) path segs v st trav = Ok (v', st') ->
    forall s rv, ren v s rv -> forall s2 r', ren v' s2 r' -> lookup segs rv = Some r'.
  Proof.
    induction segs as [|key segs IH]; intros v st trav v' st' Hw Hl H s rv Hrv s2 r' Hr'; cbn [walk_loop] in H.
    - injection H as <- _. cbn [lookup]. now rewrite (ren_unique _ _ _ _ _ Hrv Hr').
    - destruct (interp_sov f root v st) as [[newv st1]| | |] eqn:Es; cbn [bind] in H; try discriminate.
      destruct newv as [| | | | | m | |]; try discriminate.
      destruct (m_get (VStr key) m) as [v1|] eqn:G; [|discriminate].
      destruct f as [|f']; [discriminate|].
      destruct v as [| b | str | str | n | a | l | l]; cbn [interp_sov] in Es; try (injection Es as E _; discriminate).
      + (* a reference: everything below is closed data *)
        assert (Hrm : ren (VStr str) st (VMap m)) by (exists f', st1; exact Es).
        rewrite (ren_unique _ _ _ _ _ Hrv Hrm). destruct (ren_closed _ _ _ Hw Hrm) as [Hc Hwm].
        destruct (walk_closed (S f') path segs v1 st1 _ v' st' (closed_get _ _ _ Hc G) (wf_get _ _ _ Hwm G) H) as (Hlk & Hc' & Hw').
        cbn [lookup]. rewrite G, Hlk. now rewrite (ren_closed_id _ _ _ Hc' Hw' Hr').
      + (* a plain mapping *)
        injection Es as <- <-. destruct (ren_map a s rv Hw Hrv) as (ra & -> & Hf).
        destruct (entries_get s a ra (VStr key) v1 Hf G) as (rv1 & s1 & Hg & _ & Hr1).
        cbn [lookup]. rewrite Hg.
        apply (IH v1 st _ v' st' (wf_get _ _ _ Hw G) (vfree_lay _ (vfree_get _ _ _ Hl G)) H s1 rv1 Hr1 s2 r' Hr').
      + (* a layered value *)
        destruct (K_list (S f') st l m st1 key v1 s rv Hw Hl Es G Hrv) as (out & rv1 & s1 & -> & Hg & Hr1 & Hw1 & Hl1).
        cbn [lookup]. rewrite Hg.
        apply (IH v1 st1 _ v' st' Hw1 Hl1 H s1 rv1 Hr1 s2 r' Hr').
  Qed.

  (** * the theorem *)
  Theorem reference_is_lookup_in_rendered F parts st r st' F' out :
    Forall (fun e => lay (e_val e)) root ->
    token_render F root (TRef parts) st = Ok (r, st') ->
    render_with_self F' (VMap root) = Ok (VMap out) ->
    exists f path, token_slice f root parts (with_depth st (S (depth st))) = Ok path /\
                   lookup (split_on ":" path) (VMap out) = Some r.
  Proof.
    intros Hlay H Hout.
    (* the rendered parameters, entry by entry *)
    assert (Hro : ren (VMap root) st0 (VMap out)).
    { cbn [render_with_self] in Hout. unfold rendered in Hout.
      destruct (interp F' root (VMap root) st0) as [[v' sx]| | |] eqn:E; cbn [map_err bind] in Hout; try discriminate.
      destruct (interp_closed _ _ _ _ _ _ Hroot Hroot E) as [Hc Hw]. rewrite (flattened_closed_id _ v' Hc Hw) in Hout.
      injection Hout as ->. exists F', sx. exact E. }
    destruct (ren_map root st0 (VMap out) Hroot Hro) as (ra & Era & Hf). injection Era as <-.
    (* the reference *)
    destruct F as [|f1]; [discriminate|]. cbn [token_render] in H.
    destruct (token_resolve f1 root (TRef parts) st) as [[w s4]| | |] eqn:E1; cbn [bind] in H; try discriminate.
    destruct f1 as [|f2]; [discriminate|]. cbn [token_resolve] in E1.
    destruct (Nat.ltb RESOLVE_MAX_DEPTH (depth (with_depth st (S (depth st))))); [discriminate|].
    destruct (token_slice f2 root parts (with_depth st (S (depth st)))) as [path| | |] eqn:Ep; cbn [bind] in E1; try discriminate.
    destruct (mem path (seen (with_depth st (S (depth st))))); [discriminate|].
    destruct (split_on ":" path) as [|k0 segs] eqn:Esp; [discriminate|].
    destruct (m_get (VStr k0) root) as [v0|] eqn:Eg; [|discriminate].
    destruct (walk_loop (interp_sov f2 root) path segs v0 (add_seen (with_depth st (S (depth st))) path) [k0]) as [[v st3]| | |] eqn:Ew;
      cbn [bind] in E1; try discriminate.
    exists f2, path. split; [exact Ep|]. rewrite Esp. cbn [lookup].
    destruct (entries_get st0 root out (VStr k0) v0 Hf Eg) as (rv0 & s1 & Hg & _ & Hr0). rewrite Hg.
    assert (Hw0 : wf v0) by (eapply wf_get; eauto).
    assert (Hl0 : lay v0).
    { unfold m_get in Eg. destruct (m_find (VStr k0) root) as [e|] eqn:Fe; [|discriminate]. injection Eg as <-.
      rewrite Forall_forall in Hlay. apply Hlay. eapply m_find_In; eauto. }
    assert (Hwv : wf v).
    { eapply (walk_loop_wf (interp_sov f2 root) path); [|exact Hw0 | exact Ew].
      intros x sa x' sb Hx Hr. exact (proj1 (proj2 (proj2 (proj2 (proj2 (interp_facts root Hroot f2))))) x sa x' sb Hx Hr). }
    (* what the walk delivers renders to r *)
    assert (Hrv : exists s2, ren v s2 r).
    { destruct f2 as [|f3]; [discriminate|]. cbn [interp_while] in E1.
      destruct (is_string v || is_vlist v) eqn:Eb.
      - destruct (interp f3 root v st3) as [[c sx]| | |] eqn:Ec; cbn [bind] in E1; try discriminate.
        destruct (interp_closed _ _ _ _ _ _ Hroot Hwv Ec) as [Hcc Hcw].
        destruct f3 as [|f4]; [discriminate|]. cbn [interp_while] in E1.
        destruct (closed_top _ Hcc) as [Hs1 Hs2]. rewrite Hs1, Hs2 in E1. cbn [orb] in E1. injection E1 as <- <-.
        destruct (interp_closed_ok_id root _ _ _ _ _ Hcc Hcw H) as [-> _]. exists st3, (S f4), sx. exact Ec.
      - injection E1 as <- <-. exists st3, (S (S f3)), st'. exact H. }
    destruct Hrv as [s2 Hrv].
    exact (walk_lookup f2 path segs v0 _ _ v st3 Hw0 Hl0 Ew s1 rv0 Hr0 s2 r Hrv).
  Qed.
End Path.

(* C06: reference trees whose literal pieces are any text the in-reference string parser takes
   as one piece -- plain text, or text with escapes (Proofs/ParserFull.v) --, to any depth
   within the limit, parse back to exactly that tree. *)
From RV Require Import Model.Parser Proofs.ParserFacts Proofs.ParserShape Proofs.ParserNested Proofs.ParserEscapes.

(** inside a reference a piece is followed by the closing brace or by a nested reference *)
Definition rnext (next : string) : Prop := exists r, next = ("}" ++ r)%string \/ next = ("${" ++ r)%string.

(** [src] is taken, inside a reference, as the one literal piece [val] *)
Definition lit_ok (src val : string) : Prop :=
  1 <= String.length src /\
  forall b next, rnext next -> ritem b (src ++ next)%string = POk next (TLit val).

Inductive gtree := GLit (src val : string) | GRef (ts : list gtree).

Fixpoint gsrc (t : gtree) : string :=
  match t with
  | GLit src _ => src
  | GRef ts => ("${" ++ (fix go (ts : list gtree) : string := match ts with [] => "" | x :: r => gsrc x ++ go r end) ts ++ "}")%string
  end.
Fixpoint gcat (ts : list gtree) : string := match ts with [] => ""%string | x :: r => (gsrc x ++ gcat r)%string end.
Lemma gsrc_ref ts : gsrc (GRef ts) = ("${" ++ gcat ts ++ "}")%string.
Proof.
  assert (G : forall l, (fix go (ts0 : list gtree) : string := match ts0 with [] => ""%string | x :: r => (gsrc x ++ go r)%string end) l = gcat l).
  { induction l as [|x r IH]; cbn [gcat]; [reflexivity | now rewrite IH]. }
  cbn [gsrc]. now rewrite G.
Qed.

Fixpoint gtok (t : gtree) : token :=
  match t with
  | GLit _ val => TLit val
  | GRef ts => TRef ((fix go (ts : list gtree) : list token := match ts with [] => [] | x :: r => gtok x :: go r end) ts)
  end.
Lemma gtok_ref ts : gtok (GRef ts) = TRef (map gtok ts).
Proof.
  assert (G : forall l, (fix go (ts0 : list gtree) : list token := match ts0 with [] => [] | x :: r => gtok x :: go r end) l = map gtok l).
  { induction l as [|x r IH]; cbn [map]; [reflexivity | now rewrite IH]. }
  cbn [gtok]. now rewrite G.
Qed.

Definition is_glit (t : gtree) : bool := match t with GLit _ _ => true | _ => false end.

Fixpoint galt (ts : list gtree) : Prop :=
  match ts with
  | GLit _ _ :: ((GLit _ _ :: _) as r) => False
  | _ :: r => galt r
  | [] => True
  end.

Lemma galt_tail t ts : galt (t :: ts) -> galt ts.
Proof. destruct t, ts as [|[] ts]; cbn; tauto. Qed.

Fixpoint gwf (d : nat) (t : gtree) : Prop :=
  match t with
  | GLit src val => lit_ok src val
  | GRef ts => match d with 0 => False | S d' => ts <> [] /\ galt ts /\ Forall (gwf d') ts end
  end.

Lemma gwf_lit d src val : gwf d (GLit src val) -> lit_ok src val.
Proof. destruct d; intros H; exact H. Qed.
Lemma gwf_ref d ts : gwf d (GRef ts) -> exists d', d = S d' /\ ts <> [] /\ galt ts /\ Forall (gwf d') ts.
Proof. destruct d as [|d']; intros H; [destruct H|]. exists d'. split; [reflexivity | exact H]. Qed.

Lemma gtoks_noadj : forall ts, galt ts -> noadj (map gtok ts).
Proof.
  intros ts Halt pre a b0 post E. revert ts Halt E.
  induction pre as [|x pre IH]; intros ts Halt E.
  - destruct ts as [|[s1 v1|ts1] [|[s2 v2|ts2] ts]]; cbn [map app] in E; try discriminate; try (rewrite gtok_ref in E; discriminate).
    exact Halt.
  - destruct ts as [|g ts]; [discriminate|]. cbn [map app] in E. injection E as _ E.
    exact (IH ts (galt_tail g ts Halt) E).
Qed.

Lemma gsrc_nonempty d t : gwf d t -> 1 <= String.length (gsrc t).
Proof.
  destruct t as [src val | ts]; intros H.
  - apply gwf_lit in H. exact (proj1 H).
  - rewrite gsrc_ref. cbn [append String.length]. lia.
Qed.

Lemma gnext d t ts rest : galt (t :: ts) -> is_glit t = true -> Forall (gwf d) ts -> rnext (gcat ts ++ "}" ++ rest)%string.
Proof.
  intros Ha Hl Hf. destruct ts as [|x r]; [exists rest; left; reflexivity|]. cbn [gcat].
  destruct t as [s v|]; [|discriminate]. destruct x as [s2 v2 | ts2]; [destruct Ha|].
  rewrite gsrc_ref, !str_app_assoc. eexists. right. reflexivity.
Qed.

Section Depth.
  Variable d : nat.
  Hypothesis IHR : forall d', d' < d -> forall b, d' <= b -> forall ts rest,
    ts <> [] -> galt ts -> Forall (gwf d') ts ->
    reference (S b) ("${" ++ gcat ts ++ "}" ++ rest)%string = POk rest (TRef (map gtok ts)).

  Lemma gitem_one b x next :
    d <= b -> gwf d x -> (is_glit x = true -> rnext next) ->
    ritem b (gsrc x ++ next)%string = POk next (gtok x).
  Proof.
    intros Hb Hx Hnext. destruct x as [src val | ts].
    - apply gwf_lit in Hx. cbn [gsrc gtok]. exact (proj2 Hx b next (Hnext eq_refl)).
    - destruct (gwf_ref d ts Hx) as (d' & Ed & Hne & Hna & Hf).
      destruct b as [|b1]; [lia|]. unfold ritem. cbn [alt]. rewrite gsrc_ref, gtok_ref, !str_app_assoc.
      rewrite (IHR d' ltac:(lia) b1 ltac:(lia) ts next Hne Hna Hf). reflexivity.
  Qed.

  Lemma gitems_run b rest : d <= b -> forall ts acc n,
    galt ts -> Forall (gwf d) ts -> String.length (gcat ts ++ "}" ++ rest)%string < n ->
    many1_rest n (ritem b) (gcat ts ++ "}" ++ rest)%string acc = POk ("}" ++ rest)%string (rev acc ++ map gtok ts).
  Proof.
    intros Hb. induction ts as [|x ts IH]; intros acc n Hna Hf Hn.
    - destruct n as [|n]; [cbn in Hn; lia|]. cbn [gcat append many1_rest map].
      change (String "}" rest) with ("}" ++ rest)%string. rewrite (ritem_at_close b rest). now rewrite app_nil_r.
    - destruct n as [|n]; [cbn in Hn; lia|]. inversion Hf as [|? ? Hx Hfs]; subst.
      cbn [gcat many1_rest]. rewrite str_app_assoc.
      rewrite (gitem_one b x (gcat ts ++ "}" ++ rest)%string Hb Hx).
      2:{ intros Hl. exact (gnext d x ts rest Hna Hl Hfs). }
      pose proof (gsrc_nonempty d x Hx) as Hl.
      assert (E : Nat.eqb (String.length (gcat ts ++ "}" ++ rest)%string) (String.length (gsrc x ++ gcat ts ++ "}" ++ rest)%string) = false).
      { apply Nat.eqb_neq. rewrite (length_app_str (gsrc x)). lia. }
      rewrite E. rewrite (IH (gtok x :: acc) n (galt_tail x ts Hna) Hfs).
      + cbn [rev map]. now rewrite <- app_assoc.
      + cbn [gcat] in Hn. rewrite str_app_assoc, (length_app_str (gsrc x)) in Hn. lia.
  Qed.

  Lemma greference_run b ts rest :
    d <= b -> ts <> [] -> galt ts -> Forall (gwf d) ts ->
    reference (S b) ("${" ++ gcat ts ++ "}" ++ rest)%string = POk rest (TRef (map gtok ts)).
  Proof.
    intros Hb Hne Hna Hf. destruct ts as [|x ts]; [congruence|]. inversion Hf as [|? ? Hx Hfs]; subst.
    cbn [reference]. unfold ref_open at 1. unfold tag at 1. cbn [append strip Ascii.eqb Bool.eqb]. cbn [pbind].
    fold (ritem b). unfold many1. cbn [gcat]. rewrite str_app_assoc.
    change (String "}" rest) with ("}" ++ rest)%string.
    rewrite (gitem_one b x (gcat ts ++ "}" ++ rest)%string Hb Hx).
    2:{ intros Hl. exact (gnext d x ts rest Hna Hl Hfs). }
    cbn [pbind]. rewrite (gitems_run b rest Hb ts [] _ (galt_tail x ts Hna) Hfs); [|lia].
    cbn [pbind rev app]. unfold ref_close, tag. cbn [append strip Ascii.eqb Bool.eqb pbind].
    unfold coalesce. cbn [fst snd]. rewrite (coalesce_rev_noadj (map gtok ts) [gtok x]); [reflexivity|].
    exact (gtoks_noadj (x :: ts) Hna).
  Qed.
End Depth.

Theorem general_reference_parses_back : forall d b ts rest,
  d <= b -> ts <> [] -> galt ts -> Forall (gwf d) ts ->
  reference (S b) ("${" ++ gcat ts ++ "}" ++ rest)%string = POk rest (TRef (map gtok ts)).
Proof.
  induction d as [d IH] using lt_wf_ind. intros b ts rest Hb Hne Hna Hf.
  apply (greference_run d); try assumption.
  intros d' Hd' b' Hb' ts' rest' Hne' Hna' Hf'. exact (IH d' Hd' b' ts' rest' Hb' Hne' Hna' Hf').
Qed.

(* The configuration state machine (C20) on the model. *)
From RV Require Import Model.Config.

Section Facts.
Variable compiles : string -> bool.
Variable matches : string -> string -> bool.

(** the instance applies exactly the pattern list it reports *)
Definition consistent (c : config) : Prop := cf_compiled c = cf_reported c.

Lemma compile_consistent c c' : compile compiles c = Ok c' -> consistent c'.
Proof.
  unfold compile. destruct (forallb compiles (cf_reported c)); [|discriminate].
  intros H; injection H as <-. reflexivity.
Qed.

Lemma config_new_consistent i n cl g c : config_new i n cl g = Ok c -> consistent c.
Proof.
  unfold config_new. destruct i, n, cl; try discriminate;
    repeat match goal with |- context [if ?b then _ else _] => destruct b end;
    try discriminate; intros H; injection H as <-; reflexivity.
Qed.

Lemma step_consistent c o : consistent c -> consistent (fst (cfg_step compiles c o)).
Proof.
  intros Hc. destruct o; cbn [cfg_step fst]; try exact Hc.
  - destruct (config_new inv nodes classes ign) eqn:E; cbn [fst]; try exact Hc. eapply config_new_consistent; eauto.
  - unfold load_from_file. destruct (set_options c _ es) as [c1| | |]; cbn [bind fst]; try exact Hc.
    destruct (compile compiles c1) eqn:E; cbn [fst]; try exact Hc. eapply compile_consistent; eauto.
  - unfold from_dict. destruct (config_new (Some inv) None None None) as [c0| | |]; cbn [bind fst]; try exact Hc.
    destruct (set_options c0 _ es) as [c1| | |]; cbn [bind fst]; try exact Hc.
    destruct (compile compiles c1) eqn:E; cbn [fst]; try exact Hc. eapply compile_consistent; eauto.
  - unfold set_regexp. destruct (compile compiles (upd_reported c ps)) eqn:E; cbn [fst]; try exact Hc.
    eapply compile_consistent; eauto.
Qed.

(** after any history of calls, successful or failed, reported = applied *)
Theorem history_consistent ops : forall c,
  consistent c -> consistent (fold_left (fun c o => fst (cfg_step compiles c o)) ops c).
Proof.
  induction ops as [|o ops IH]; intros c H; cbn [fold_left]; [exact H|].
  apply IH, step_consistent, H.
Qed.

(** ... so the behaviour is the one the reported settings describe *)
Theorem behaviour_is_reported c cls :
  consistent c ->
  is_class_ignored matches c cls = cf_ignore c && existsb (fun p => matches p cls) (cf_reported c).
Proof. unfold consistent, is_class_ignored. now intros ->. Qed.

(** a failed call leaves the instance exactly as it was *)
Theorem failed_call_changes_nothing c o : snd (cfg_step compiles c o) = false -> fst (cfg_step compiles c o) = c.
Proof.
  destruct o; cbn [cfg_step]; try discriminate;
  match goal with |- context [match ?r with _ => _ end] => destruct r end; cbn; congruence.
Qed.

(** patterns that do not compile are rejected *)
Theorem bad_pattern_rejected c ps :
  forallb compiles ps = false -> set_regexp compiles c ps = Err (EConfig "pattern does not compile").
Proof. unfold set_regexp, compile. cbn. now intros ->. Qed.

(** * set_option: wrong types rejected, unknown options ignored *)
Definition known_key (k : string) : bool :=
  String.eqb k "nodes_uri" || String.eqb k "classes_uri" || String.eqb k "ignore_class_notfound" ||
  String.eqb k "ignore_class_notfound_regexp" || String.eqb k "compose_node_name" ||
  String.eqb k "reclass_rs_compat_flags".

Theorem unknown_option_ignored c p k v : known_key k = false -> set_option c p k v = Ok c.
Proof.
  unfold known_key, set_option. rewrite !orb_false_iff. intros [[[[[-> ->] ->] ->] ->] ->]. reflexivity.
Qed.

Theorem wrong_type_rejected c p :
  (forall v, (forall b, v <> YBool b) -> exists e, set_option c p "ignore_class_notfound" v = Err e) /\
  (forall v, (forall b, v <> YBool b) -> exists e, set_option c p "compose_node_name" v = Err e) /\
  (forall v, (forall l, v <> YSeq l) -> exists e, set_option c p "ignore_class_notfound_regexp" v = Err e) /\
  (forall l, all_strings l = None -> exists e, set_option c p "ignore_class_notfound_regexp" (YSeq l) = Err e) /\
  (forall v, (forall l, v <> YSeq l) -> exists e, set_option c p "reclass_rs_compat_flags" v = Err e) /\
  (forall l, all_strings l = None -> exists e, set_option c p "reclass_rs_compat_flags" (YSeq l) = Err e).
Proof.
  repeat split; intros; unfold set_option; cbn.
  - destruct v; try (eexists; reflexivity). exfalso. eapply H; reflexivity.
  - destruct v; try (eexists; reflexivity). exfalso. eapply H; reflexivity.
  - destruct v; try (eexists; reflexivity). exfalso. eapply H; reflexivity.
  - rewrite H. eexists; reflexivity.
  - destruct v; try (eexists; reflexivity). exfalso. eapply H; reflexivity.
  - rewrite H. eexists; reflexivity.
Qed.

(** * Entry points: a config file and a dict give the same settings.  The two differ only in the
    pretended config file path, which only the two directory options read. *)
Definition same_settings (a b : config) : Prop :=
  cf_ignore a = cf_ignore b /\ cf_compose a = cf_compose b /\ cf_reported a = cf_reported b /\
  cf_compiled a = cf_compiled b /\ cf_dots a = cf_dots b.

Lemma set_option_same_settings a b p q k v :
  same_settings a b ->
  match set_option a p k v, set_option b q k v with
  | Ok a', Ok b' => same_settings a' b'
  | Err _, Err _ => True
  | _, _ => False
  end.
Proof.
  intros (H1 & H2 & H3 & H4 & H5). unfold set_option.
  repeat match goal with |- context [if String.eqb k ?s then _ else _] => destruct (String.eqb k s) end;
    try (destruct (value_text v); [|exact I]);
    try (destruct v; try exact I);
    try (destruct (all_strings l); [|exact I]);
    try (destruct (existsb is_flag_name l0));
    unfold same_settings; cbn; repeat split; assumption.
Qed.

Lemma set_options_same_settings es : forall a b p q,
  same_settings a b ->
  match set_options a p es, set_options b q es with
  | Ok a', Ok b' => same_settings a' b'
  | Err _, Err _ => True
  | _, _ => False
  end.
Proof.
  induction es as [|[k v] es IH]; intros a b p q H; cbn [set_options]; [exact H|].
  pose proof (set_option_same_settings a b p q k v H) as Hs.
  destruct (set_option a p k v), (set_option b q k v); cbn [bind]; try contradiction; try exact I.
  apply IH, Hs.
Qed.

Theorem file_and_dict_agree inv file es c0 :
  config_new (Some inv) None None None = Ok c0 ->
  match load_from_file compiles c0 file es, from_dict compiles inv es with
  | Ok a, Ok b => same_settings a b
  | Err _, Err _ => True
  | _, _ => False
  end.
Proof.
  intros Hn. unfold load_from_file, from_dict. rewrite Hn. cbn [bind].
  pose proof (set_options_same_settings es c0 c0 (path_push (cf_inv c0) file) (path_push inv "dummy")
                (conj eq_refl (conj eq_refl (conj eq_refl (conj eq_refl eq_refl))))) as Hs.
  destruct (set_options c0 (path_push (cf_inv c0) file) es) as [a| | |],
           (set_options c0 (path_push inv "dummy") es) as [b| | |]; cbn [bind]; try contradiction; try exact I.
  destruct Hs as (H1 & H2 & H3 & H4 & H5). unfold compile. rewrite H3.
  destruct (forallb compiles (cf_reported b)); [|exact I].
  unfold same_settings; cbn. repeat split; assumption.
Qed.

End Facts.

(* C15: every entry of an include list is made absolute on its own, against the location of the class
   that holds the list -- what one entry resolves to does not depend on the entries before it. *)
From RV Require Import Model.Names Model.Node Proofs.ListsFacts.

Theorem include_entries_resolve_independently loc doc n :
  node_of_yaml loc doc = Ok n ->
  exists fields cs,
    doc = YMap fields /\ y_string_list "classes" (y_field "classes" fields) = Ok cs /\
    NoDup (n_classes n) /\
    forall x, In x (n_classes n) <-> exists c, In c cs /\ x = abs_class_name loc c.
Proof.
  intros H. destruct doc as [| | | | l | fields|]; try discriminate. cbn [node_of_yaml] in H.
  destruct (y_string_list "applications" (y_field "applications" fields)) as [apps| | |]; cbn [bind] in H; try discriminate.
  destruct (y_string_list "classes" (y_field "classes" fields)) as [cs| | |] eqn:Ec; cbn [bind] in H; try discriminate.
  match type of H with bind ?X _ = _ => destruct X as [pdoc| | |]; cbn [bind] in H; try discriminate end.
  destruct (try_mapping_of_yaml pdoc) as [ps| | |]; cbn [bind] in H; try discriminate.
  injection H as <-. cbn [n_classes]. exists fields, cs. split; [reflexivity|]. split; [exact Ec|]. split.
  - apply u_fold_NoDup. constructor.
  - intros x. rewrite u_fold_In. split.
    + intros [[] | Hin]. apply in_map_iff in Hin as (c & <- & Hc). exists c. split; [|reflexivity].
      unfold u_from in Hc. apply u_fold_In in Hc as [[] | Hc]. exact Hc.
    + intros (c & Hc & ->). right. apply in_map_iff. exists c. split; [reflexivity|].
      unfold u_from. apply u_fold_In. right. exact Hc.
Qed.

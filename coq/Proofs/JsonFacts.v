(* C05: the model's text form (raw_string: conversion to a serde_json tree with BTreeMap
   ordering, then compact printing) equals the specification Spec/TextOf.v on closed values. *)
From RV Require Import Model.Json Spec.TextOf Proofs.ValueFacts.

Definition pr (p : string * jvalue) : string * string := (fst p, print_json (snd p)).

Lemma bt_sorted_insert k j acc :
  map pr (bt_insert k j acc) = sorted_insert k (print_json j) (map pr acc).
Proof.
  induction acc as [|[k' j'] acc IH]; cbn [bt_insert sorted_insert map pr fst snd]; [reflexivity|].
  destruct (String.eqb k k'); [reflexivity|]. destruct (String.ltb k k'); [reflexivity|].
  cbn [map pr fst snd]. now rewrite IH.
Qed.

Definition obj_body (l : list (string * string)) : string :=
  join "," (map (fun '(k, t) => (json_string k ++ ":" ++ t)%string) l).

Lemma str_app_assoc (a b c : string) : ((a ++ b) ++ c = a ++ (b ++ c))%string.
Proof. induction a as [|x a IH]; cbn; [reflexivity | now rewrite IH]. Qed.

Lemma print_obj_body l :
  (fix go (l : list (string * jvalue)) : string :=
     match l with
     | [] => ""
     | [(k, x)] => (json_string k ++ ":" ++ print_json x)%string
     | (k, x) :: xs => (json_string k ++ ":" ++ print_json x ++ "," ++ go xs)%string
     end) l = obj_body (map pr l).
Proof.
  unfold obj_body. induction l as [|[k x] l IH]; [reflexivity|]. destruct l as [|[k2 x2] l]; [reflexivity|].
  rewrite IH. cbn [map pr fst snd join]. rewrite !str_app_assoc. reflexivity.
Qed.

Lemma print_obj l : print_json (JObj l) = ("{" ++ obj_body (map pr l) ++ "}")%string.
Proof. cbn [print_json]. now rewrite print_obj_body. Qed.

Fixpoint arr_body (l : list string) : string :=
  match l with [] => "" | [x] => x | x :: xs => (x ++ "," ++ arr_body xs)%string end.

Lemma print_arr_body l :
  (fix go (l : list jvalue) : string :=
     match l with
     | [] => ""
     | [x] => print_json x
     | x :: xs => (print_json x ++ "," ++ go xs)%string
     end) l = arr_body (map print_json l).
Proof.
  induction l as [|x l IH]; [reflexivity|]. destruct l as [|y l]; [reflexivity|].
  rewrite IH. reflexivity.
Qed.

Lemma print_arr l : print_json (JArr l) = ("[" ++ arr_body (map print_json l) ++ "]")%string.
Proof. cbn [print_json]. now rewrite print_arr_body. Qed.

Lemma spec_num_json n : print_json (num_to_json n) = spec_num n.
Proof. destruct n as [z|f]; [reflexivity|]. unfold num_to_json, spec_num. destruct (fk f); reflexivity. Qed.

Lemma spec_key_json k ks : spec_key k = Some ks -> json_key k = Ok ks.
Proof. destruct k as [| [|] | | | | | |]; cbn; intros H; try discriminate; injection H as <-; reflexivity. Qed.

Fixpoint spec_seq_body (l : list value) : option string :=
  match l with
  | [] => Some ""
  | [x] => spec_json x
  | x :: xs => match spec_json x, spec_seq_body xs with
               | Some a, Some b => Some (a ++ "," ++ b)%string
               | _, _ => None
               end
  end.

Lemma spec_seq_body_cons x y vs :
  spec_seq_body (x :: y :: vs) = match spec_json x, spec_seq_body (y :: vs) with
                                 | Some a, Some b => Some (a ++ "," ++ b)%string
                                 | _, _ => None
                                 end.
Proof. reflexivity. Qed.

Lemma spec_json_seq l : spec_json (VSeq l) = option_map (fun body => ("[" ++ body ++ "]")%string) (spec_seq_body l).
Proof. reflexivity. Qed.

Fixpoint to_json_seq (s : list value) : res (list jvalue) :=
  match s with [] => Ok [] | x :: xs => y <- to_json x ;; ys <- to_json_seq xs ;; Ok (y :: ys) end.

Lemma to_json_seq_eq l : to_json (VSeq l) = rmap JArr (to_json_seq l).
Proof. reflexivity. Qed.

Fixpoint check_seq (l : list value) : res unit :=
  match l with [] => Ok tt | x :: xs => _ <- check_json x ;; check_seq xs end.

Lemma check_seq_eq l : check_json (VSeq l) = check_seq l.
Proof. reflexivity. Qed.

(** on every value for which the specification defines a JSON text, the model's conversion
    succeeds and prints exactly that text *)
Theorem to_json_is_spec : forall v t, spec_json v = Some t -> exists j, to_json v = Ok j /\ print_json j = t.
Proof.
  induction v as [| b | s | s | n | es IH | vs IH | vs IH] using value_ind'; intros t H; cbn [spec_json] in H; try discriminate.
  - injection H as <-. eexists; split; reflexivity.
  - destruct b; injection H as <-; eexists; split; reflexivity.
  - injection H as <-. eexists; split; reflexivity.
  - injection H as <-. eexists; split; [reflexivity | apply spec_num_json].
  - (* mapping *)
    assert (G : forall acc kvs,
               (fix go (es : list entry) (acc : list (string * string)) : option (list (string * string)) :=
                  match es with
                  | [] => Some acc
                  | (k, x, _, _) :: es' =>
                      match spec_key k, spec_json x with
                      | Some ks, Some t => go es' (sorted_insert ks t acc)
                      | _, _ => None
                      end
                  end) es (map pr acc) = Some kvs ->
               exists l, (fix go (es : list entry) (acc : list (string * jvalue)) : res (list (string * jvalue)) :=
                            match es with
                            | [] => Ok acc
                            | (k, v, _, _) :: es' => ks <- json_key k ;; jv <- to_json v ;; go es' (bt_insert ks jv acc)
                            end) es acc = Ok l /\ map pr l = kvs).
    { clear H. induction es as [|[[[k x] c] o] es IHes]; intros acc kvs Hg.
      - injection Hg as <-. exists acc. split; reflexivity.
      - inversion IH as [|? ? [_ Hx] IHr]; subst. cbn [e_val fst snd] in Hx.
        destruct (spec_key k) as [ks|] eqn:Ek; [|discriminate]. destruct (spec_json x) as [tx|] eqn:Ex; [|discriminate].
        rewrite (spec_key_json _ _ Ek). cbn [bind]. destruct (Hx tx eq_refl) as (jx & -> & Hp). cbn [bind].
        apply (IHes IHr (bt_insert ks jx acc) kvs). rewrite bt_sorted_insert, Hp. exact Hg. }
    destruct ((fix go (es0 : list entry) (acc : list (string * string)) : option (list (string * string)) := _) es []) as [kvs|] eqn:E; [|discriminate].
    cbn [option_map] in H. injection H as <-.
    destruct (G [] kvs E) as (l & Hl & Hm). exists (JObj l). cbn [to_json]. unfold rmap. rewrite Hl. cbn [bind].
    split; [reflexivity|]. rewrite print_obj, Hm. reflexivity.
  - (* sequence *)
    change (option_map (fun body => ("[" ++ body ++ "]")%string) (spec_seq_body vs) = Some t) in H.
    destruct (spec_seq_body vs) as [body|] eqn:E; [|discriminate].
    cbn [option_map] in H. injection H as <-.
    assert (G : exists l, to_json_seq vs = Ok l /\ arr_body (map print_json l) = body /\ List.length l = List.length vs).
    { revert body E. induction vs as [|x vs IHvs]; intros body E.
      - injection E as <-. exists []. repeat split.
      - inversion IH as [|? ? Hx IHr]; subst. destruct vs as [|y vs].
        + cbn [spec_seq_body] in E. destruct (Hx body E) as (j & Hj & Hp). exists [j]. cbn [to_json_seq]. rewrite Hj. repeat split. exact Hp.
        + rewrite spec_seq_body_cons in E. destruct (spec_json x) as [a|] eqn:Ex; [|discriminate].
          destruct (spec_seq_body (y :: vs)) as [b|] eqn:Eb; [|discriminate]. injection E as <-.
          destruct (Hx a eq_refl) as (j & Hj & Hp). destruct (IHvs IHr b eq_refl) as (l & Hl & Hb & Hlen).
          exists (j :: l). change (to_json_seq (x :: y :: vs)) with (y0 <- to_json x ;; ys <- to_json_seq (y :: vs) ;; Ok (y0 :: ys)).
          rewrite Hj. cbn [bind]. rewrite Hl. cbn [bind]. split; [reflexivity|]. split; [|cbn; now rewrite Hlen].
          destruct l as [|j2 l]; [discriminate Hlen|]. cbn [map arr_body] in *. rewrite Hp, Hb. reflexivity. }
    destruct G as (l & Hl & Hb & _). exists (JArr l). rewrite to_json_seq_eq. unfold rmap. rewrite Hl. cbn [bind].
    split; [reflexivity|]. rewrite print_arr, Hb. reflexivity.
Qed.

(** spec_json only accepts scalar keys and no ValueList: the JSON check passes *)
Lemma spec_json_check : forall v t, spec_json v = Some t -> check_json v = Ok tt.
Proof.
  induction v as [| b | s | s | n | es IH | vs IH | vs IH] using value_ind'; intros t H; cbn [spec_json] in H; try discriminate; try reflexivity.
  - cbn [check_json].
    assert (G : forall acc kvs,
               (fix go (es : list entry) (acc : list (string * string)) : option (list (string * string)) :=
                  match es with
                  | [] => Some acc
                  | (k, x, _, _) :: es' =>
                      match spec_key k, spec_json x with
                      | Some ks, Some t => go es' (sorted_insert ks t acc)
                      | _, _ => None
                      end
                  end) es acc = Some kvs ->
               (fix go (es : list entry) : res unit :=
                  match es with
                  | [] => Ok tt
                  | (k, x, _, _) :: es' =>
                      if is_mapping k || is_sequence k || is_vlist k then Err (EJsonKey (variant k))
                      else _ <- check_json x ;; go es'
                  end) es = Ok tt).
    { clear H. induction es as [|[[[k x] c] o] es IHes]; intros acc kvs Hg; [reflexivity|].
      inversion IH as [|? ? [_ Hx] IHr]; subst. cbn [e_val fst snd] in Hx.
      destruct (spec_key k) as [ks|] eqn:Ek; [|discriminate]. destruct (spec_json x) as [tx|] eqn:Ex; [|discriminate].
      assert (Hk : is_mapping k || is_sequence k || is_vlist k = false) by (destruct k as [| [|] | | | | | |]; cbn in *; try discriminate; reflexivity).
      rewrite Hk, (Hx tx eq_refl). cbn [bind]. eapply IHes; eauto. }
    destruct ((fix go (es0 : list entry) (acc : list (string * string)) : option (list (string * string)) := _) es []) as [kvs|] eqn:E; [|discriminate].
    eapply G; eauto.
  - rewrite check_seq_eq. change (option_map (fun body => ("[" ++ body ++ "]")%string) (spec_seq_body vs) = Some t) in H.
    destruct (spec_seq_body vs) as [body|] eqn:E; [|discriminate]. clear H.
    revert body E. induction vs as [|x vs IHvs]; intros body E; [reflexivity|].
    inversion IH as [|? ? Hx IHr]; subst. cbn [check_seq]. destruct vs as [|y vs].
    + cbn [spec_seq_body] in E. rewrite (Hx body E). reflexivity.
    + rewrite spec_seq_body_cons in E. destruct (spec_json x) as [a|] eqn:Ex; [|discriminate].
      destruct (spec_seq_body (y :: vs)) as [b|] eqn:Eb; [|discriminate].
      rewrite (Hx a eq_refl). cbn [bind]. eapply IHvs; eauto.
Qed.

(** C05: the text form of a rendered value is the specified text *)
Theorem raw_string_is_text_of v t : text_of v = Some t -> raw_string v = Ok t.
Proof.
  destruct v as [| [|] | s | s | n | es | vs | vs]; cbn [text_of raw_string]; intros H; try discriminate;
    try (injection H as <-; reflexivity).
  - rewrite (spec_json_check _ _ H). cbn [bind]. destruct (to_json_is_spec _ _ H) as (j & -> & Hp). cbn [bind]. now rewrite Hp.
  - rewrite (spec_json_check _ _ H). cbn [bind]. destruct (to_json_is_spec _ _ H) as (j & -> & Hp). cbn [bind]. now rewrite Hp.
Qed.

(* NodeInfoMeta::as_reclass (C18) on the model. *)
From RV Require Import Model.Node.

Definition meta_parts (cfg : ncfg) (meta : nmeta) : list string :=
  match m_parts meta with
  | [] => []
  | part0 :: _ =>
      if c_compose cfg && c_literal_dots cfg then split_on "." (m_name meta)
      else if starts_with_underscore part0 then [last_seg (m_parts meta)]
      else m_parts meta
  end.

Definition reclass_of (name : string) (parts : list string) : mapping :=
  [ mk_entry (VStr "environment") (VStr "base") false false;
    mk_entry (VStr "name")
      (VMap [ mk_entry (VStr "full") (VStr name) false false;
              mk_entry (VStr "parts") (VSeq (map VStr parts)) false false;
              mk_entry (VStr "path") (VStr (join "/" parts)) false false;
              mk_entry (VStr "short") (VStr (last_seg parts)) false false ]) false false ].

Lemma as_reclass_spec cfg meta :
  m_parts meta <> [] -> as_reclass cfg meta = Ok (reclass_of (m_name meta) (meta_parts cfg meta)).
Proof. unfold as_reclass, meta_parts, reclass_of. destruct (m_parts meta); [congruence|]. reflexivity. Qed.

Lemma as_reclass_fails_only_without_parts cfg meta :
  m_parts meta = [] -> as_reclass cfg meta = Err EMetaParts.
Proof. unfold as_reclass. now intros ->. Qed.

Lemma parts_literal_dots cfg meta :
  m_parts meta <> [] -> c_compose cfg = true -> c_literal_dots cfg = true ->
  meta_parts cfg meta = split_on "." (m_name meta).
Proof. unfold meta_parts. destruct (m_parts meta); [congruence|]. now intros _ -> ->. Qed.

Lemma parts_underscore cfg meta p0 rest :
  m_parts meta = p0 :: rest -> c_compose cfg && c_literal_dots cfg = false ->
  starts_with_underscore p0 = true -> meta_parts cfg meta = [last_seg (p0 :: rest)].
Proof. unfold meta_parts. now intros -> -> ->. Qed.

Lemma parts_plain cfg meta p0 rest :
  m_parts meta = p0 :: rest -> c_compose cfg && c_literal_dots cfg = false ->
  starts_with_underscore p0 = false -> meta_parts cfg meta = p0 :: rest.
Proof. unfold meta_parts. now intros -> -> ->. Qed.

(** without composition the parts are the name alone (render_node passes [name]) *)
Lemma split_on_nonempty c s : split_on c s <> [].
Proof.
  induction s as [|a s IH]; cbn [split_on]; [discriminate|].
  destruct (Ascii.eqb a c); [discriminate|]. destruct (split_on c s); [congruence | discriminate].
Qed.

(* C01 with C02: the parameters of a rendered node are the render of a stack of YAML layers --
   the parameter documents of the classes the walk records, in the order of the record (each
   once, post-order), then the node's metadata, then the node's own parameter document.  With
   the refinement theorem of C02: for reference-free clean documents they are the deep merge of
   that stack. *)
From RV Require Import Model.Node Model.Run Spec.DeepMerge Proofs.ValueFacts Proofs.MappingFacts Proofs.WfFacts Proofs.YamlFacts
     Proofs.NodeFacts Proofs.WalkFold Proofs.Refinement.

(** the parameter document of a class / node document *)
Definition params_doc (doc : yaml) : yaml :=
  match doc with
  | YMap fields =>
      match y_field "parameters" fields with
      | Some (YMap m) => YMap m
      | _ => YMap []
      end
  | _ => YMap []
  end.

Lemma node_of_yaml_params loc doc n :
  node_of_yaml loc doc = Ok n -> try_mapping_of_yaml (params_doc doc) = Ok (n_params n).
Proof.
  unfold node_of_yaml, params_doc. destruct doc as [| | | | | fields |]; try discriminate.
  destruct (y_string_list "applications" (y_field "applications" fields)); cbn [bind]; try discriminate.
  destruct (y_string_list "classes" (y_field "classes" fields)); cbn [bind]; try discriminate.
  destruct (y_field "parameters" fields) as [[| | | | | m |]|]; cbn [bind]; try discriminate.
  - destruct (try_mapping_of_yaml (YMap m)) as [params| | |] eqn:E; cbn [bind]; try discriminate.
    intros H; injection H as <-. reflexivity.
  - destruct (try_mapping_of_yaml (YMap [])) as [params| | |] eqn:E; cbn [bind]; try discriminate.
    intros H; injection H as <-. reflexivity.
Qed.

Lemma foldM_app {A B} (f : A -> B -> res A) : forall l1 l2 a,
  foldM f (l1 ++ l2) a = (r <- foldM f l1 a ;; foldM f l2 r).
Proof.
  induction l1 as [|x l1 IH]; intros l2 a; cbn [app foldM bind]; [reflexivity|].
  destruct (f a x); cbn [bind]; try reflexivity. apply IH.
Qed.

(** merging entities merges their parameters with Mapping::merge, in order *)
Definition merge_docs (ys : list yaml) (m0 : mapping) : res mapping :=
  foldM (fun acc y => m <- try_mapping_of_yaml y ;; mapping_merge acc m) ys m0.

Lemma merge_seq_params : forall ns ys root root',
  Forall2 (fun n y => try_mapping_of_yaml y = Ok (n_params n)) ns ys ->
  merge_seq root ns = Ok root' -> merge_docs ys (n_params root) = Ok (n_params root').
Proof.
  unfold merge_docs. induction ns as [|n ns IH]; intros ys root root' Hf H; inversion Hf as [|? y ? ys' Hy Hf']; subst; cbn [merge_seq foldM] in *.
  - injection H as <-. reflexivity.
  - unfold merge_into in H. rewrite Hy. cbn [bind].
    destruct (mapping_merge (n_params root) (n_params n)) as [params| | |] eqn:E; cbn [bind] in *; try discriminate.
    exact (IH ys' _ root' Hf' H).
Qed.

Section Refines.
  Variables (fi : nat) (cfg : ncfg) (tbl : list cls_entry).

  (** [name] is a class whose parameter document is [y] *)
  Definition class_params (name : string) (y : yaml) : Prop :=
    exists loc cn, read_class cfg tbl loc name = Ok (Some cn) /\ try_mapping_of_yaml y = Ok (n_params cn).

  Lemma is_class_params name cn : is_class cfg tbl name cn -> exists y, try_mapping_of_yaml y = Ok (n_params cn) /\ class_params name y.
  Proof.
    intros [loc H]. pose proof H as H0. unfold read_class in H.
    destruct (find_class (abs_class_name loc name) tbl) as [ce|]; [|destruct (c_ignore cfg && mem (abs_class_name loc name) (c_matches cfg)); discriminate].
    destruct (node_of_yaml (ce_loc ce) (ce_doc ce)) as [n| | |] eqn:En; cbn [map_err bind] in H; try discriminate. injection H as <-.
    exists (params_doc (ce_doc ce)). pose proof (node_of_yaml_params _ _ _ En) as Hp. split; [exact Hp|].
    exists loc, n. split; [exact H0 | exact Hp].
  Qed.

  (** the metadata parameter as a YAML layer *)
  Definition reclass_doc (cfg0 : ncfg) (meta : nmeta) : option yaml :=
    match m_parts meta with
    | [] => None
    | part0 :: _ =>
        let parts :=
          if c_compose cfg0 && c_literal_dots cfg0 then split_on "." (m_name meta)
          else if starts_with_underscore part0 then [last_seg (m_parts meta)]
          else m_parts meta in
        Some (YMap [(YStr "_reclass_",
                YMap [(YStr "environment", YStr "base");
                      (YStr "name", YMap [(YStr "full", YStr (m_name meta));
                                          (YStr "parts", YSeq (map YStr parts));
                                          (YStr "path", YStr (join "/" parts));
                                          (YStr "short", YStr (last_seg parts))])])])
    end.

  Lemma try_strs l : try_value_of_yaml (YSeq (map YStr l)) = Ok (VSeq (map VStr l)).
  Proof.
    rewrite try_seq_eq. assert (G : try_seq (map YStr l) = Ok (map VStr l)).
    { induction l as [|x l IH]; [reflexivity|]. cbn [map try_seq try_value_of_yaml bind]. now rewrite IH. }
    unfold rmap. now rewrite G.
  Qed.

  Lemma try_map_cons k v l acc :
    try_map ((k, v) :: l) acc =
      (kv <- try_value_of_yaml k ;; vv <- try_value_of_yaml v ;; acc' <- m_insert acc kv vv ;; try_map l acc').
  Proof. reflexivity. Qed.

  Lemma try_str s : try_value_of_yaml (YStr s) = Ok (VStr s).
  Proof. reflexivity. Qed.

  Lemma m_insert_fresh acc k v :
    unmarked k -> ~ In k (keys acc) -> m_insert acc k v = Ok (acc ++ [mk_entry k v false false]).
  Proof. intros Hu Hn. unfold m_insert. exact (insert_fresh acc k v false false Hu Hn). Qed.

  Ltac ins := rewrite m_insert_fresh by (first [reflexivity | cbn; intuition discriminate]); cbn [bind app].

  Lemma reclass_yaml_conv (name : string) (parts : list string) :
    try_mapping_of_yaml
      (YMap [(YStr "_reclass_",
              YMap [(YStr "environment", YStr "base");
                    (YStr "name", YMap [(YStr "full", YStr name); (YStr "parts", YSeq (map YStr parts));
                                        (YStr "path", YStr (join "/" parts)); (YStr "short", YStr (last_seg parts))])])]) =
    Ok [mk_entry (VStr "_reclass_")
          (VMap [mk_entry (VStr "environment") (VStr "base") false false;
                 mk_entry (VStr "name") (VMap [mk_entry (VStr "full") (VStr name) false false;
                                               mk_entry (VStr "parts") (VSeq (map VStr parts)) false false;
                                               mk_entry (VStr "path") (VStr (join "/" parts)) false false;
                                               mk_entry (VStr "short") (VStr (last_seg parts)) false false]) false false])
          false false].
  Proof.
    assert (A1 : try_value_of_yaml (YMap [(YStr "full", YStr name); (YStr "parts", YSeq (map YStr parts));
                                          (YStr "path", YStr (join "/" parts)); (YStr "short", YStr (last_seg parts))]) =
                 Ok (VMap [mk_entry (VStr "full") (VStr name) false false;
                           mk_entry (VStr "parts") (VSeq (map VStr parts)) false false;
                           mk_entry (VStr "path") (VStr (join "/" parts)) false false;
                           mk_entry (VStr "short") (VStr (last_seg parts)) false false])).
    { rewrite try_map_eq. unfold rmap. rewrite try_map_cons, !try_str. cbn [bind]. ins.
      rewrite try_map_cons, try_str, try_strs. cbn [bind]. ins.
      rewrite try_map_cons, !try_str. cbn [bind]. ins.
      rewrite try_map_cons, !try_str. cbn [bind]. ins. reflexivity. }
    assert (A2 : try_value_of_yaml (YMap [(YStr "environment", YStr "base");
                   (YStr "name", YMap [(YStr "full", YStr name); (YStr "parts", YSeq (map YStr parts));
                                       (YStr "path", YStr (join "/" parts)); (YStr "short", YStr (last_seg parts))])]) =
                 Ok (VMap [mk_entry (VStr "environment") (VStr "base") false false;
                           mk_entry (VStr "name") (VMap [mk_entry (VStr "full") (VStr name) false false;
                                                         mk_entry (VStr "parts") (VSeq (map VStr parts)) false false;
                                                         mk_entry (VStr "path") (VStr (join "/" parts)) false false;
                                                         mk_entry (VStr "short") (VStr (last_seg parts)) false false]) false false])).
    { rewrite try_map_eq. unfold rmap. rewrite try_map_cons, !try_str. cbn [bind]. ins.
      rewrite try_map_cons, try_str, A1. cbn [bind]. ins. reflexivity. }
    unfold try_mapping_of_yaml. rewrite try_map_eq. unfold rmap. rewrite try_map_cons, try_str, A2. cbn [bind]. ins. reflexivity.
  Qed.

  Lemma reclass_doc_params meta rc y :
    as_reclass cfg meta = Ok rc -> reclass_doc cfg meta = Some y ->
    try_mapping_of_yaml y = Ok [mk_entry (VStr "_reclass_") (VMap rc) false false].
  Proof.
    unfold as_reclass, reclass_doc. destruct (m_parts meta) as [|p0 ps]; [discriminate|].
    intros H1 H2. injection H1 as <-. injection H2 as <-. apply reclass_yaml_conv.
  Qed.

  (** the parameters a node renders from: the stack of documents, merged in order *)
  Theorem node_params_are_the_merged_stack f n ndoc loc meta rc :
    node_of_yaml loc ndoc = Ok n -> as_reclass cfg meta = Ok rc ->
    forall r, node_render f fi cfg tbl n meta = Ok r ->
    exists seen docs ry m,
      NoDup seen /\ Forall2 class_params seen docs /\ reclass_doc cfg meta = Some ry /\
      merge_docs (docs ++ [ry; params_doc ndoc]) [] = Ok m /\
      render_with_self fi (VMap m) = Ok (VMap (n_params r)).
  Proof.
    intros Hn Hrc r H. unfold node_render in H. rewrite Hrc in H. cbn [bind] in H.
    assert (Hp0 : m_insert [] (VStr "_reclass_") (VMap rc) = Ok [mk_entry (VStr "_reclass_") (VMap rc) false false]) by reflexivity.
    rewrite Hp0 in H. cbn [bind] in H.
    set (base := {| n_apps := r_empty; n_classes := n_classes n; n_params := [mk_entry (VStr "_reclass_") (VMap rc) false false]; n_loc := [] |}) in *.
    destruct (render_impl f fi cfg tbl base [] [] empty_node) as [[[base1 seen1] root1]| | |] eqn:E1; cbn [bind] in H; try discriminate.
    destruct (merge_into n base1) as [[n1 b1]| | |] eqn:Em; cbn [bind] in H; try discriminate.
    unfold render_params in H. destruct (render_with_self fi (VMap (n_params n1))) as [v| | |] eqn:Er; cbn [bind] in H; try discriminate.
    destruct v as [| | | | | mm | |]; try discriminate. injection H as <-. cbn [n_params].
    destruct (walk_is_ordered_merge fi cfg tbl f base base1 seen1 root1 E1) as (Hnd & nodes & Hf & Hm).
    (* documents of the recorded classes *)
    assert (Hdocs : exists docs, Forall2 class_params seen1 docs /\ Forall2 (fun cn y => try_mapping_of_yaml y = Ok (n_params cn)) nodes docs).
    { clear - Hf. induction Hf as [|name cn seen nodes Hc _ (docs & H1 & H2)]; [exists []; split; constructor|].
      destruct (is_class_params name cn Hc) as (y & Hy & Hcp). exists (y :: docs). split; constructor; assumption. }
    destruct Hdocs as (docs & Hcp & Hnp).
    assert (Hry : exists ry, reclass_doc cfg meta = Some ry).
    { unfold as_reclass in Hrc. unfold reclass_doc. destruct (m_parts meta); [discriminate | eexists; reflexivity]. }
    destruct Hry as [ry Hry].
    exists seen1, docs, ry, (n_params n1). split; [exact Hnd | split; [exact Hcp | split; [exact Hry | split; [|exact Er]]]].
    (* base1 = root1 merged values; n1 = base1 merged with n *)
    assert (Hb1 : n_params base1 = n_params root1).
    { clear - E1. destruct f as [|f]; [discriminate|]. cbn [render_impl] in E1.
      destruct (include_loop fi cfg tbl (render_impl f fi cfg tbl) (n_loc base) [] (n_classes base) [] empty_node) as [[s r]| | |]; cbn [bind] in E1; try discriminate.
      unfold merge_into in E1. destruct (mapping_merge (n_params r) (n_params base)); cbn [bind] in E1; try discriminate.
      injection E1 as <- _ <-. reflexivity. }
    assert (Hstack : merge_docs (docs ++ [ry]) [] = Ok (n_params root1)).
    { change (@nil entry) with (n_params empty_node). apply (merge_seq_params (nodes ++ [base])); [|exact Hm].
      apply Forall2_app; [exact Hnp|]. constructor; [|constructor]. cbn [n_params base]. exact (reclass_doc_params meta rc ry Hrc Hry). }
    unfold merge_docs in *. replace (docs ++ [ry; params_doc ndoc]) with ((docs ++ [ry]) ++ [params_doc ndoc]) by (now rewrite <- app_assoc).
    rewrite foldM_app, Hstack. cbn [bind foldM]. rewrite (node_of_yaml_params _ _ _ Hn). cbn [bind].
    unfold merge_into in Em. rewrite Hb1 in Em.
    destruct (mapping_merge (n_params root1) (n_params n)) as [pp| | |]; cbn [bind] in *; try discriminate.
    injection Em as <- _. reflexivity.
  Qed.
End Refines.

Lemma render_with_self_mono f f' v r : f <= f' -> render_with_self f v = Ok r -> render_with_self f' v = Ok r.
Proof.
  intros Hle. destruct v as [| | | | | m | |]; try discriminate. cbn [render_with_self]. unfold rendered.
  destruct (interp f m (VMap m) st0) as [[v' st]| | |] eqn:E; cbn [map_err bind]; try discriminate.
  rewrite (Mono.interp_fuel_mono m f f' (VMap m) st0 _ Hle E) by discriminate. cbn [map_err bind]. auto.
Qed.

(** C01 + C02: for reference-free clean documents, the rendered parameters of a node are the
    deep merge (Spec/DeepMerge.v) of the parameter documents of the recorded classes in the order
    of the record, then the metadata, then the node's own parameters -- up to the flags. *)
Theorem node_params_are_the_deep_merge fi cfg tbl f n ndoc loc meta rc r :
  node_of_yaml loc ndoc = Ok n -> as_reclass cfg meta = Ok rc ->
  node_render f fi cfg tbl n meta = Ok r ->
  exists seen docs ry,
    NoDup seen /\ Forall2 (class_params cfg tbl) seen docs /\ reclass_doc cfg meta = Some ry /\
    (Forall layer_ok (docs ++ [ry; params_doc ndoc]) ->
     forall g v, deep_merge (S g) (docs ++ [ry; params_doc ndoc]) = SOk v -> unflag (VMap (n_params r)) = v).
Proof.
  intros Hn Hrc H.
  destruct (node_params_are_the_merged_stack fi cfg tbl f n ndoc loc meta rc Hn Hrc r H) as (seen & docs & ry & m & Hnd & Hcp & Hry & Hm & Hr).
  exists seen, docs, ry. split; [exact Hnd | split; [exact Hcp | split; [exact Hry|]]].
  intros Hok g v Hdm.
  assert (Hne : docs ++ [ry; params_doc ndoc] <> []) by (destruct docs; discriminate).
  destruct (render_refines_deep_merge g _ Hne Hok) as [F0 HF].
  specialize (HF (Nat.max F0 fi) (Nat.le_max_l _ _)). rewrite Hdm in HF. unfold render_stack, merge_layers_try in HF.
  unfold merge_docs in Hm. rewrite Hm in HF. cbn [bind] in HF.
  rewrite (render_with_self_mono fi (Nat.max F0 fi) _ _ (Nat.le_max_r _ _) Hr) in HF.
  destruct HF as (v' & E & Hu). injection E as <-. exact Hu.
Qed.

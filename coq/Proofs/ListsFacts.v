(* Facts about the list models (UniqueList, RemovableList): C17, and used by C01/C13. *)
From RV Require Import Model.Lists.
From Coq Require Import Permutation.

Lemma mem_In x l : mem x l = true <-> In x l.
Proof.
  induction l as [|y l IH]; cbn [mem In].
  - split; [discriminate | tauto].
  - rewrite orb_true_iff, String.eqb_eq, IH. tauto.
Qed.

Lemma mem_false x l : mem x l = false <-> ~ In x l.
Proof. rewrite <- mem_In. destruct (mem x l); split; congruence. Qed.

Lemma remove_first_In x y l : In y (remove_first x l) -> In y l.
Proof.
  induction l as [|z l IH]; cbn [remove_first]; [tauto|].
  destruct (String.eqb z x); cbn [In]; tauto.
Qed.

Lemma remove_first_other x y l : y <> x -> In y l -> In y (remove_first x l).
Proof.
  intros Hne. induction l as [|z l IH]; cbn [remove_first In]; [tauto|].
  destruct (String.eqb_spec z x) as [->|Hzx]; cbn [In]; intuition congruence.
Qed.

Lemma remove_first_NoDup x l : NoDup l -> NoDup (remove_first x l).
Proof.
  induction 1 as [|z l Hz Hnd IH]; cbn [remove_first]; [constructor|].
  destruct (String.eqb z x); [assumption|].
  constructor; [|assumption]. intro Hin. apply Hz. eapply remove_first_In; eauto.
Qed.

Lemma remove_first_gone x l : NoDup l -> ~ In x (remove_first x l).
Proof.
  induction 1 as [|z l Hz Hnd IH]; cbn [remove_first]; [tauto|].
  destruct (String.eqb_spec z x) as [->|Hzx]; [assumption|].
  cbn [In]. intuition congruence.
Qed.

Lemma remove_first_notin x l : ~ In x l -> remove_first x l = l.
Proof.
  induction l as [|z l IH]; cbn [remove_first In]; [reflexivity|].
  intros H. destruct (String.eqb_spec z x) as [->|Hzx]; [tauto|]. f_equal. apply IH. tauto.
Qed.

(** remove_first keeps the relative order of everything else: it is the list with one
    occurrence cut out. *)
Lemma remove_first_split x l :
  In x l -> exists a b, l = a ++ x :: b /\ ~ In x a /\ remove_first x l = a ++ b.
Proof.
  induction l as [|z l IH]; cbn [In remove_first]; [tauto|].
  intros H. destruct (String.eqb_spec z x) as [->|Hzx].
  - exists [], l. cbn. tauto.
  - destruct H as [H|H]; [congruence|]. destruct (IH H) as (a & b & -> & Ha & Hr).
    exists (z :: a), b. cbn [app In]. rewrite Hr. intuition congruence.
Qed.

(** * UniqueList *)

Lemma NoDup_snoc (l : list string) x : NoDup l -> ~ In x l -> NoDup (l ++ [x]).
Proof.
  intros Hnd Hx. induction Hnd as [|z l Hz Hnd IH]; cbn [app].
  - constructor; [tauto|constructor].
  - constructor.
    + rewrite in_app_iff. cbn [In]. intros [H|[H|[]]]; [tauto|]. subst. apply Hx. left; reflexivity.
    + apply IH. intro H. apply Hx. right; assumption.
Qed.


Lemma u_append_NoDup l x : NoDup l -> NoDup (u_append l x).
Proof.
  unfold u_append. intros H. destruct (mem x l) eqn:E; [assumption|].
  apply mem_false in E. apply NoDup_snoc; assumption.
Qed.

Lemma u_append_In l x y : In y (u_append l x) <-> In y l \/ y = x.
Proof.
  unfold u_append. destruct (mem x l) eqn:E.
  - apply mem_In in E. split; [tauto|]. intros [H| ->]; assumption.
  - rewrite in_app_iff. cbn [In]. intuition congruence.
Qed.

Lemma u_fold_NoDup xs l : NoDup l -> NoDup (fold_left u_append xs l).
Proof.
  revert l. induction xs as [|x xs IH]; cbn [fold_left]; intros l H; [assumption|].
  apply IH, u_append_NoDup, H.
Qed.

Lemma u_fold_In xs l y : In y (fold_left u_append xs l) <-> In y l \/ In y xs.
Proof.
  revert l. induction xs as [|x xs IH]; cbn [fold_left In]; intros l; [tauto|].
  rewrite IH, u_append_In. intuition congruence.
Qed.

(** earlier elements keep their position: the old list is a prefix of the new one *)
Lemma u_fold_prefix xs l : exists t, fold_left u_append xs l = l ++ t.
Proof.
  revert l. induction xs as [|x xs IH]; cbn [fold_left]; intros l.
  - exists []. now rewrite app_nil_r.
  - destruct (IH (u_append l x)) as (t & ->). unfold u_append.
    destruct (mem x l); [exists t; reflexivity|]. exists ([x] ++ t). now rewrite app_assoc.
Qed.

Lemma u_from_NoDup xs : NoDup (u_from xs).
Proof. apply u_fold_NoDup. constructor. Qed.

Lemma u_merge_NoDup l o : NoDup l -> NoDup (u_merge l o).
Proof. apply u_fold_NoDup. Qed.

Lemma u_merge_In l o y : In y (u_merge l o) <-> In y l \/ In y o.
Proof. apply u_fold_In. Qed.

(** * RemovableList *)
Definition not_tilde (s : string) : Prop :=
  match s with String "~" _ => False | _ => True end.

Definition RInv (l : rlist) : Prop :=
  NoDup (r_items l) /\ NoDup (r_negs l) /\
  (forall x, In x (r_items l) -> ~ In x (r_negs l)) /\
  Forall not_tilde (r_items l).

Lemma RInv_empty : RInv r_empty.
Proof. repeat split; cbn; try constructor; tauto. Qed.

Lemma Forall_remove_first (P : string -> Prop) x l : Forall P l -> Forall P (remove_first x l).
Proof.
  rewrite !Forall_forall. intros H y Hy. apply H. eapply remove_first_In; eauto.
Qed.

Lemma r_handle_negation_inv l n : RInv l -> RInv (r_handle_negation l n).
Proof.
  intros (Hi & Hn & Hd & Ht). unfold r_handle_negation.
  destruct (mem n (r_items l)) eqn:Ei.
  - repeat split; cbn [r_items r_negs].
    + apply remove_first_NoDup, Hi.
    + exact Hn.
    + intros x Hx. apply Hd. eapply remove_first_In; eauto.
    + apply Forall_remove_first, Ht.
  - destruct (mem n (r_negs l)) eqn:En; [repeat split; assumption|].
    apply mem_false in Ei, En.
    repeat split; cbn [r_items r_negs]; try assumption.
    + apply NoDup_snoc; assumption.
    + intros x Hx. rewrite in_app_iff. cbn [In]. intros [H|[H|[]]]; [eapply Hd; eauto|]. subst. tauto.
Qed.

Lemma r_append_plain l x :
  not_tilde x ->
  r_append l x =
    if mem x (r_negs l) then {| r_items := r_items l; r_negs := remove_first x (r_negs l) |}
    else if mem x (r_items l) then l
    else {| r_items := r_items l ++ [x]; r_negs := r_negs l |}.
Proof.
  unfold r_append, not_tilde. destruct x as [|c x]; [reflexivity|].
  destruct c as [b0 b1 b2 b3 b4 b5 b6 b7].
  destruct b0, b1, b2, b3, b4, b5, b6, b7; try reflexivity. tauto.
Qed.

Lemma r_append_neg l n : r_append l (String "~" n) = r_handle_negation l n.
Proof. reflexivity. Qed.

Lemma tilde_dec x : {n | x = String "~" n} + {not_tilde x}.
Proof.
  destruct x as [|c x]; [right; exact I|].
  destruct (Ascii.eqb_spec c "~"%char) as [->|Hc]; [left; eexists; reflexivity|].
  right. unfold not_tilde.
  destruct c as [b0 b1 b2 b3 b4 b5 b6 b7].
  destruct b0, b1, b2, b3, b4, b5, b6, b7; try exact I. congruence.
Qed.

Lemma r_append_inv l x : RInv l -> RInv (r_append l x).
Proof.
  intros H. destruct (tilde_dec x) as [[n ->]|Hx].
  - rewrite r_append_neg. apply r_handle_negation_inv, H.
  - rewrite r_append_plain by assumption. destruct H as (Hi & Hn & Hd & Ht).
    destruct (mem x (r_negs l)) eqn:En.
    + repeat split; cbn [r_items r_negs]; try assumption.
      * apply remove_first_NoDup, Hn.
      * intros y Hy Hy'. eapply Hd; eauto. eapply remove_first_In; eauto.
    + destruct (mem x (r_items l)) eqn:Ei; [repeat split; assumption|].
      apply mem_false in En, Ei.
      repeat split; cbn [r_items r_negs]; try assumption.
      * apply NoDup_snoc; assumption.
      * intros y. rewrite in_app_iff. cbn [In]. intros [Hy|[Hy|[]]]; [apply Hd, Hy|]. subst; assumption.
      * apply Forall_app. split; [assumption|]. constructor; [assumption|constructor].
Qed.

Lemma r_fold_append_inv xs l : RInv l -> RInv (fold_left r_append xs l).
Proof.
  revert l. induction xs as [|x xs IH]; cbn [fold_left]; intros l H; [assumption|].
  apply IH, r_append_inv, H.
Qed.

Lemma r_fold_neg_inv ns l : RInv l -> RInv (fold_left r_handle_negation ns l).
Proof.
  revert l. induction ns as [|n ns IH]; cbn [fold_left]; intros l H; [assumption|].
  apply IH, r_handle_negation_inv, H.
Qed.

Lemma r_from_inv xs : RInv (r_from xs).
Proof. apply r_fold_append_inv, RInv_empty. Qed.

Lemma r_merge_inv l o : RInv l -> RInv (r_merge l o).
Proof. intros H. unfold r_merge. apply r_fold_append_inv, r_fold_neg_inv, H. Qed.

(** Every state reachable by loading lists and merging them in any order satisfies the
    invariant. *)
Theorem r_merge_all_inv (ls : list (list string)) :
  RInv (fold_left (fun acc l => r_merge acc (r_from l)) ls r_empty).
Proof.
  assert (G : forall acc, RInv acc -> RInv (fold_left (fun acc l => r_merge acc (r_from l)) ls acc)).
  { induction ls as [|l ls IH]; cbn [fold_left]; intros acc H; [assumption|].
    apply IH, r_merge_inv, H. }
  apply G, RInv_empty.
Qed.

(** The two sentences of C17 as exact post-conditions of one step. *)
Lemma r_neg_present l x :
  RInv l -> In x (r_items l) ->
  exists a b, r_items l = a ++ x :: b /\
              r_items (r_append l (String "~" x)) = a ++ b /\
              ~ In x (r_items (r_append l (String "~" x))) /\
              r_negs (r_append l (String "~" x)) = r_negs l.
Proof.
  intros (Hi & _) Hx. rewrite r_append_neg. unfold r_handle_negation.
  assert (E : mem x (r_items l) = true) by now apply mem_In. rewrite E. cbn [r_items r_negs].
  destruct (remove_first_split x (r_items l) Hx) as (a & b & Hl & Ha & Hr).
  exists a, b. rewrite Hr. repeat split; try assumption.
  rewrite <- Hr. apply remove_first_gone, Hi.
Qed.

Lemma r_neg_absent l x :
  ~ In x (r_items l) ->
  r_items (r_append l (String "~" x)) = r_items l /\
  (In x (r_negs l) -> r_negs (r_append l (String "~" x)) = r_negs l) /\
  (~ In x (r_negs l) -> r_negs (r_append l (String "~" x)) = r_negs l ++ [x]).
Proof.
  intros Hx. rewrite r_append_neg. unfold r_handle_negation.
  apply mem_false in Hx. rewrite Hx.
  destruct (mem x (r_negs l)) eqn:En.
  - apply mem_In in En. repeat split; tauto.
  - apply mem_false in En. cbn [r_items r_negs]. repeat split; tauto.
Qed.

(** A remembered negation cancels exactly the next addition and is consumed. *)
Lemma r_add_cancelled l x :
  RInv l -> not_tilde x -> In x (r_negs l) ->
  r_items (r_append l x) = r_items l /\
  ~ In x (r_negs (r_append l x)) /\
  (forall y, y <> x -> (In y (r_negs (r_append l x)) <-> In y (r_negs l))).
Proof.
  intros (_ & Hn & _) Ht Hx. rewrite r_append_plain by assumption.
  assert (E : mem x (r_negs l) = true) by now apply mem_In. rewrite E. cbn [r_items r_negs].
  repeat split.
  - apply remove_first_gone, Hn.
  - apply remove_first_In.
  - apply remove_first_other; assumption.
Qed.

Lemma r_add_plain l x :
  not_tilde x -> ~ In x (r_negs l) ->
  r_negs (r_append l x) = r_negs l /\
  (In x (r_items l) -> r_items (r_append l x) = r_items l) /\
  (~ In x (r_items l) -> r_items (r_append l x) = r_items l ++ [x]).
Proof.
  intros Ht Hx. rewrite r_append_plain by assumption.
  apply mem_false in Hx. rewrite Hx.
  destruct (mem x (r_items l)) eqn:Ei.
  - apply mem_In in Ei. repeat split; tauto.
  - apply mem_false in Ei. cbn [r_items r_negs]. repeat split; tauto.
Qed.

(** merge = replaying the other list's pending negations (as ~entries) and then its items *)
Lemma fold_neg_as_append ns l :
  fold_left r_handle_negation ns l = fold_left r_append (map (String "~"%char) ns) l.
Proof.
  revert l. induction ns as [|n ns IH]; cbn [fold_left map]; intros l; [reflexivity|].
  rewrite r_append_neg. apply IH.
Qed.

Theorem r_merge_is_fold l o :
  r_merge l o = fold_left r_append (map (String "~"%char) (r_negs o) ++ r_items o) l.
Proof. unfold r_merge. rewrite fold_left_app, fold_neg_as_append. reflexivity. Qed.

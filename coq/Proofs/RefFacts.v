(* References (C03, C04): a whole-value reference to a parameter yields what that parameter
   renders to; a reference used as a layer merges like the inline value. *)
From RV Require Import Model.Interp Proofs.ValueFacts Proofs.MappingFacts Proofs.WfFacts Proofs.InterpFacts
     Proofs.StateFacts Proofs.StateIndep Proofs.Mono.

(** interpolating closed data, when it succeeds, returns the data and the state unchanged *)
Lemma seq_loop_ok_id call st : forall s idx l,
  (forall x st1 r st2, In x s -> call x st1 = Ok (r, st2) -> r = x) ->
  seq_loop call st s idx = Ok l -> l = s.
Proof.
  induction s as [|x s IH]; intros idx l Hc H; cbn [seq_loop] in H; [congruence|].
  destruct (call x (push_list_index st idx)) as [[e s1]| | |] eqn:E; cbn [bind] in H; try discriminate.
  destruct (seq_loop call st s (S idx)) as [es| | |] eqn:E2; cbn [bind] in H; try discriminate.
  injection H as <-. f_equal; [eapply Hc; [now left | exact E] | eapply IH; [|exact E2]].
  intros y st1 r st2 Hy. apply Hc. now right.
Qed.

Lemma map_loop_ok_id call st : forall es acc m,
  (forall k x c o st1 r st2, In (k, x, c, o) es -> call x st1 = Ok (r, st2) -> r = x) ->
  Forall (fun e => closed (e_val e) /\ wf (e_val e)) es -> Forall unmarked (keys es) -> NoDup (keys acc ++ keys es) ->
  map_loop call st es acc = Ok m -> m = acc ++ es.
Proof.
  induction es as [|[[[k x] c] o] es IH]; intros acc m Hc Hes Hum Hnd H; cbn [map_loop] in H; [injection H as <-; now rewrite app_nil_r|].
  inversion Hes as [|? ? [Hcx Hwx] Hes']; subst. inversion Hum as [|? ? Hk Hks]; subst. cbn [e_key e_val fst snd] in *.
  destruct (push_mapping_key st k) as [st1| | |]; cbn [bind] in H; try discriminate.
  destruct (call x st1) as [[v' st2]| | |] eqn:E; cbn [bind] in H; try discriminate.
  assert (v' = x) by (eapply Hc; [now left | exact E]). subst v'.
  rewrite (flattened_closed_id _ x Hcx Hwx) in H. cbn [bind] in H.
  assert (Ha : m_find (stripped k) acc = None).
  { destruct (unmarked_stripped k Hk) as [-> _]. apply m_find_none_keys.
    cbn [keys map e_key fst] in Hnd. apply NoDup_remove_2 in Hnd. intros Hin. apply Hnd, in_or_app. now left. }
  rewrite (insert_absent _ _ _ _ _ Ha) in H. destruct (unmarked_stripped k Hk) as [Es Em]. rewrite Es, Em in H.
  cbn [bind is_pconst is_pover orb] in H.
  assert (Hm : m = (acc ++ [mk_entry k x c o]) ++ es).
  { apply IH; try assumption.
    - intros k' x' c' o' st1' r st2' Hin. apply (Hc k' x' c' o' st1' r st2'). now right.
    - unfold keys in *. rewrite map_app, <- app_assoc. exact Hnd. }
  rewrite Hm. now rewrite <- app_assoc.
Qed.

Lemma interp_closed_ok_id root : forall f v st r st',
  closed v -> wf v -> interp f root v st = Ok (r, st') -> r = v /\ st' = st.
Proof.
  induction f as [f IHf] using lt_wf_ind. intros v st r st' Hc Hw H.
  destruct f as [|f]; [discriminate|]. cbn [interp] in H.
  destruct v as [| b | s | s | n | es | l | l]; try (injection H as <- <-; split; reflexivity); try (destruct Hc).
  - destruct f as [|f]; [discriminate|]. cbn [mapping_interp] in H.
    destruct (map_loop (interp f root) st es []) as [m| | |] eqn:E; cbn [bind] in H; try discriminate.
    injection H as <- <-. split; [|reflexivity]. f_equal.
    apply closed_map_iff in Hc. apply wf_map_iff in Hw as (Hnd & Hum & Hv).
    rewrite (map_loop_ok_id (interp f root) st es [] m); [reflexivity | | | exact Hum | exact Hnd | exact E].
    + intros k x c o st1 r st2 Hin Hr. rewrite Forall_forall in Hc, Hv.
      assert (Hlt : f < S (S f)) by lia. apply (IHf f Hlt x st1 r st2 (Hc _ Hin) (Hv _ Hin) Hr).
    + rewrite Forall_forall in *. intros e He. split; [apply Hc, He | apply Hv, He].
  - destruct (seq_loop (interp f root) st l 0) as [l'| | |] eqn:E; cbn [bind] in H; try discriminate.
    injection H as <- <-. split; [|reflexivity]. f_equal.
    apply closed_seq_iff in Hc. apply wf_seq_iff in Hw. rewrite Forall_forall in Hc, Hw.
    apply (seq_loop_ok_id (interp f root) st l 0 l'); [|exact E].
    intros x st1 r st2 Hin Hr. assert (Hlt : f < S f) by lia. apply (IHf f Hlt x st1 r st2 (Hc _ Hin) (Hw _ Hin) Hr).
Qed.

(** any two successful interpolations of the same value agree, whatever their fuel and state *)
Theorem interp_result_unique root v f1 f2 s1 s2 r1 t1 r2 t2 :
  interp f1 root v s1 = Ok (r1, t1) -> interp f2 root v s2 = Ok (r2, t2) -> r1 = r2.
Proof.
  intros H1 H2.
  assert (G1 : interp (Nat.max f1 f2) root v s1 = Ok (r1, t1)) by (apply (interp_fuel_mono root f1 (Nat.max f1 f2) v s1 _ (Nat.le_max_l _ _) H1); discriminate).
  assert (G2 : interp (Nat.max f1 f2) root v s2 = Ok (r2, t2)) by (apply (interp_fuel_mono root f2 (Nat.max f1 f2) v s2 _ (Nat.le_max_r _ _) H2); discriminate).
  eapply interp_state_independent; eauto.
Qed.

(** * C04 *)
Lemma vlist_loop_transparent call st pre x post v s1 s2 :
  call x st = Ok (v, s1) -> call v st = Ok (v, s2) -> current_key s1 = current_key s2 ->
  forall r, vlist_loop call st (pre ++ x :: post) r = vlist_loop call st (pre ++ v :: post) r.
Proof.
  intros Hx Hv Hk. induction pre as [|p pre IH]; intros r; cbn [app vlist_loop].
  - rewrite Hx, Hv. cbn [bind]. now rewrite Hk.
  - destruct (call p st) as [[iv sp]| | |]; cbn [bind]; try reflexivity.
    destruct (value_merge (current_key sp) r iv); cbn [bind]; try reflexivity. apply IH.
Qed.

Theorem layer_reference_transparent f root st pre x post v s1 v2 s2 :
  wf (VMap root) -> wf x ->
  interp f root x st = Ok (v, s1) ->          (* the reference layer renders to v *)
  interp f root v st = Ok (v2, s2) ->         (* the inline twin renders at all *)
  interp (S f) root (VList (pre ++ x :: post)) st = interp (S f) root (VList (pre ++ v :: post)) st.
Proof.
  intros Hr Hx H E. destruct (interp_closed _ _ _ _ _ _ Hr Hx H) as [Hc Hw].
  assert (Hk : Interp.keys s1 = Interp.keys st) by (apply (interp_state_le _ _ _ _ _ _ H)).
  destruct (interp_closed_ok_id root f v st v2 s2 Hc Hw E) as [-> ->].
  cbn [interp].
  rewrite (vlist_loop_transparent (interp f root) st pre x post v s1 st H E); [reflexivity|].
  unfold current_key. now rewrite Hk.
Qed.

(** * C03 *)
(** a reference to a missing top-level key is an error naming the reference and the key *)
Theorem missing_key_error f root parts st path k0 segs :
  depth st < RESOLVE_MAX_DEPTH ->
  token_slice f root parts (with_depth st (S (depth st))) = Ok path ->
  mem path (seen st) = false -> split_on ":" path = k0 :: segs -> m_get (VStr k0) root = None ->
  token_resolve (S f) root (TRef parts) st = Err (EMissingKey path k0 (current_key st)).
Proof.
  intros Hd Hp Hm Hs Hg. cbn [token_resolve]. cbn [depth with_depth seen].
  assert (E : Nat.ltb RESOLVE_MAX_DEPTH (S (depth st)) = false) by (apply Nat.ltb_ge; unfold RESOLVE_MAX_DEPTH in *; lia).
  rewrite E, Hp. cbn [bind]. rewrite Hm, Hs, Hg. reflexivity.
Qed.

Lemma str_app_nil (s : string) : (s ++ "")%string = s.
Proof. induction s as [|c s IH]; cbn; [reflexivity | now rewrite IH]. Qed.

(** A parameter whose whole value is a reference to a top-level key renders to exactly what that
    key's own value renders to (same kind, same data), independently of the state and fuel with
    which either is rendered. *)
Theorem whole_reference_is_target_render root k v0 F st r st' F' st0 rk st0' :
  wf (VMap root) ->
  split_on ":" k = [k] -> m_get (VStr k) root = Some v0 ->
  token_render F root (TRef [TLit k]) st = Ok (r, st') ->
  interp F' root v0 st0 = Ok (rk, st0') ->
  r = rk.
Proof.
  intros Hr Hs Hg H Hk.
  assert (Hw0 : wf v0) by (eapply wf_get; eauto).
  destruct F as [|f1]; [discriminate|]. cbn [token_render] in H.
  destruct (token_resolve f1 root (TRef [TLit k]) st) as [[v s1]| | |] eqn:E1; cbn [bind] in H; try discriminate.
  destruct f1 as [|f2]; [discriminate|]. cbn [token_resolve] in E1.
  destruct (Nat.ltb RESOLVE_MAX_DEPTH (depth (with_depth st (S (depth st))))); [discriminate|].
  destruct (token_slice f2 root [TLit k] (with_depth st (S (depth st)))) as [path| | |] eqn:Ep; cbn [bind] in E1; try discriminate.
  assert (path = k).
  { destruct f2 as [|f3]; [discriminate|]. cbn [token_slice slice_loop] in Ep.
    destruct f3 as [|f4]; [discriminate|].
    cbn [token_resolve bind interp_while_str is_string is_mapping is_sequence orb raw_string] in Ep.
    injection Ep as <-. apply str_app_nil. }
  subst path. destruct (mem k (seen (with_depth st (S (depth st))))); [discriminate|].
  rewrite Hs, Hg in E1. cbn [walk_loop bind] in E1.
  destruct f2 as [|f3]; [discriminate|]. cbn [interp_while] in E1.
  destruct (is_string v0 || is_vlist v0) eqn:Eb.
  - destruct (interp f3 root v0 (add_seen (with_depth st (S (depth st))) k)) as [[c sx]| | |] eqn:Ec; cbn [bind] in E1; try discriminate.
    destruct (interp_closed _ _ _ _ _ _ Hr Hw0 Ec) as [Hcc Hcw].
    destruct f3 as [|f4]; [discriminate|]. cbn [interp_while] in E1.
    destruct (closed_top _ Hcc) as [Hs1 Hs2]. rewrite Hs1, Hs2 in E1. cbn [orb] in E1. injection E1 as <- <-.
    destruct (interp_closed_ok_id root _ _ _ _ _ Hcc Hcw H) as [-> _].
    exact (interp_result_unique root v0 _ _ _ _ _ _ _ _ Ec Hk).
  - injection E1 as <- <-. exact (interp_result_unique root v0 _ _ _ _ _ _ _ _ H Hk).
Qed.

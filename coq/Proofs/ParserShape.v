(* C06: the shape of what the parser accepts, for every string built from plain text (no
   backslash, dollar or brace) and simple references ${path} with a plain non-empty path:
   the token list is exactly the pieces in order; an unclosed or empty reference is a parse
   error; an escaped opening marker is literal text. *)
From RV Require Import Model.Parser Proofs.ParserFacts.

Fixpoint plain (s : string) : Prop :=
  match s with
  | EmptyString => True
  | String c s' => in_set c specials = false /\ plain s'
  end.

(** where a run of plain characters ends: at the end of the input or at a special character *)
Definition stops (rest : string) : Prop :=
  match rest with EmptyString => True | String c _ => in_set c specials = true end.

Fixpoint chars (s : string) : list ascii :=
  match s with EmptyString => [] | String c s' => c :: chars s' end.

Lemma string_of_chars_chars s : string_of_chars (chars s) = s.
Proof. induction s as [|c s IH]; cbn; [reflexivity | now rewrite IH]. Qed.

Lemma length_app_str (a b : string) : String.length (a ++ b) = String.length a + String.length b.
Proof. induction a as [|c a IH]; cbn; [reflexivity | now rewrite IH]. Qed.

Lemma many1_rest_run : forall q rest acc n,
  plain q -> stops rest -> String.length q < n ->
  many1_rest n (none_of specials) (q ++ rest)%string acc = POk rest (rev acc ++ chars q).
Proof.
  induction q as [|c q IH]; intros rest acc n Hp Hs Hn.
  - destruct n as [|n]; [cbn in Hn; lia|]. cbn [append many1_rest chars]. rewrite app_nil_r.
    destruct rest as [|d rest]; cbn [none_of]; [reflexivity|]. cbn [stops] in Hs. now rewrite Hs.
  - destruct n as [|n]; [cbn in Hn; lia|]. destruct Hp as [Hc Hq]. cbn [append many1_rest none_of]. rewrite Hc.
    assert (E : Nat.eqb (String.length (q ++ rest)) (String.length (String c (q ++ rest))) = false).
    { apply Nat.eqb_neq. cbn [String.length]. lia. }
    rewrite E. rewrite (IH rest (c :: acc) n Hq Hs); [|cbn in Hn; lia].
    cbn [rev chars]. now rewrite <- app_assoc.
Qed.

Lemma none_of_run c p rest :
  plain (String c p) -> stops rest ->
  many1 (none_of specials) (String c p ++ rest)%string = POk rest (c, chars p).
Proof.
  intros [Hc Hp] Hs. unfold many1. cbn [append none_of]. rewrite Hc. cbn [pbind].
  rewrite (many1_rest_run p rest [] _ Hp Hs); [reflexivity|]. rewrite length_app_str. lia.
Qed.

Lemma text_run c p rest :
  plain (String c p) -> stops rest -> text (String c p ++ rest)%string = POk rest (String c p).
Proof.
  intros Hp Hs. unfold text. cbn [alt]. unfold pmap at 1. rewrite (none_of_run c p rest Hp Hs). cbn [pbind string_of_chars].
  now rewrite string_of_chars_chars.
Qed.

Lemma ref_text_run c p rest :
  plain (String c p) -> stops rest -> ref_text (String c p ++ rest)%string = POk rest (String c p).
Proof.
  intros Hp Hs. unfold ref_text. cbn [alt]. unfold pmap at 1. rewrite (none_of_run c p rest Hp Hs). cbn [pbind string_of_chars].
  now rewrite string_of_chars_chars.
Qed.

(** a plain character is none of the four special ones *)
Lemma plain_char c : in_set c specials = false ->
  Ascii.eqb "\"%char c = false /\ Ascii.eqb "$"%char c = false /\ Ascii.eqb "{"%char c = false /\ Ascii.eqb "}"%char c = false.
Proof.
  unfold specials, bs. cbn [append in_set]. intros H.
  apply Bool.orb_false_elim in H as [H1 H]. apply Bool.orb_false_elim in H as [H2 H].
  apply Bool.orb_false_elim in H as [H3 H]. apply Bool.orb_false_elim in H as [H4 _]. repeat split; assumption.
Qed.

Lemma app_empty_r (s : string) : (s ++ "")%string = s.
Proof. induction s as [|c s IH]; cbn; [reflexivity | now rewrite IH]. Qed.

Lemma tag_fail t0 t c s : Ascii.eqb t0 c = false -> tag (String t0 t) (String c s) = PFail.
Proof. intros H. unfold tag. cbn [strip]. now rewrite H. Qed.

Lemma tag_fail_empty t0 t : tag (String t0 t) "" = PFail.
Proof. reflexivity. Qed.

(** on a character that is neither a backslash nor a dollar *)
Section PlainStart.
  Variables (c : ascii) (s : string).
  Hypothesis Hb : Ascii.eqb "\"%char c = false.
  Hypothesis Hd : Ascii.eqb "$"%char c = false.

  Lemma ref_not_open_plain : ref_not_open (String c s) = POk (String c s) tt.
  Proof.
    unfold ref_not_open, pmap, pseq, pnot, bs. cbn [append].
    rewrite (tag_fail _ _ c s Hd). cbn [pbind]. rewrite (tag_fail _ _ c s Hb). cbn [pbind].
    rewrite (tag_fail _ _ c s Hb). cbn [pbind]. rewrite (tag_fail _ _ c s Hb). reflexivity.
  Qed.

  Lemma double_escape_plain : double_escape (String c s) = PFail.
  Proof. unfold double_escape, pmap, pseq, bs. cbn [append]. now rewrite (tag_fail _ _ c s Hb). Qed.
  Lemma ref_escape_open_plain : ref_escape_open (String c s) = PFail.
  Proof. unfold ref_escape_open, preceded, pmap, pseq, bs. now rewrite (tag_fail _ _ c s Hb). Qed.
  Lemma inv_escape_open_plain : inv_escape_open (String c s) = PFail.
  Proof. unfold inv_escape_open, preceded, pmap, pseq, bs. now rewrite (tag_fail _ _ c s Hb). Qed.
  Lemma ref_escape_close_plain : ref_escape_close (String c s) = PFail.
  Proof. unfold ref_escape_close, preceded, pmap, pseq, bs. now rewrite (tag_fail _ _ c s Hb). Qed.

  Lemma reference_plain b : reference b (String c s) = PFail.
  Proof. destruct b; [reflexivity|]. cbn [reference]. unfold ref_open. now rewrite (tag_fail _ _ c s Hd). Qed.
End PlainStart.

Lemma ref_not_close_plain c s :
  Ascii.eqb "\"%char c = false -> Ascii.eqb "}"%char c = false -> ref_not_close (String c s) = POk (String c s) tt.
Proof.
  intros Hb Hc. unfold ref_not_close, pmap, pseq, pnot, bs. cbn [append].
  rewrite (tag_fail _ _ c s Hc). cbn [pbind]. rewrite (tag_fail _ _ c s Hb). cbn [pbind].
  rewrite (tag_fail _ _ c s Hb). reflexivity.
Qed.

(** where a piece of literal text ends: at a special character where the text parser cannot
    continue (the end of the input, an opening marker, an escaped opening marker) *)
Definition text_ends (rest : string) : Prop := stops rest /\ pseq ref_not_open text rest = PFail.

Lemma text_ends_nil : text_ends "".
Proof. split; [exact I | reflexivity]. Qed.
Lemma text_ends_open r : text_ends ("${" ++ r).
Proof. split; reflexivity. Qed.
Lemma text_ends_esc_open r : text_ends ("\${" ++ r).
Proof. split; reflexivity. Qed.

Lemma text_ends_stops rest : text_ends rest -> stops rest.
Proof. intros [H _]; exact H. Qed.

Lemma content_stops rest : text_ends rest -> pseq ref_not_open text rest = PFail.
Proof. intros [_ H]; exact H. Qed.

Lemma content_run c p rest :
  plain (String c p) -> text_ends rest -> content (String c p ++ rest)%string = POk rest (String c p).
Proof.
  intros Hp He. pose proof Hp as [Hc _]. destruct (plain_char c Hc) as (Hb & Hd & _ & _).
  unfold content, pmap, many1. cbn [append].
  unfold pseq at 1. rewrite (ref_not_open_plain c _ Hb Hd). cbn [pbind].
  change (String c (p ++ rest)) with (String c p ++ rest)%string.
  rewrite (text_run c p rest Hp (text_ends_stops rest He)). cbn [pbind].
  cbn [many1_rest]. rewrite (content_stops rest He). cbn [pbind rev map snd concat_str].
  now rewrite app_empty_r.
Qed.

Lemma item_plain f c p rest :
  plain (String c p) -> text_ends rest -> item f (String c p ++ rest)%string = POk rest (TLit (String c p)).
Proof.
  intros Hp He. pose proof Hp as [Hc _]. destruct (plain_char c Hc) as (Hb & Hd & _ & _).
  unfold item. cbn [alt append]. rewrite (reference_plain c _ Hd f).
  unfold pmap, pstring. cbn [alt]. rewrite (double_escape_plain c _ Hb), (ref_escape_open_plain c _ Hb), (inv_escape_open_plain c _ Hb).
  change (String c (p ++ rest)) with (String c p ++ rest)%string.
  rewrite (content_run c p rest Hp He). reflexivity.
Qed.

(** * a simple reference ${path} with a plain, non-empty path *)
Definition ralt : parser string :=
  alt [double_escape; ref_escape_open; ref_escape_close; inv_escape_open; ref_content].

Lemma ralt_at_close rest : ralt ("}" ++ rest)%string = PFail.
Proof. reflexivity. Qed.

Lemma ref_content_run c k rest :
  plain (String c k) -> ref_content (String c k ++ "}" ++ rest)%string = POk ("}" ++ rest)%string (String c k).
Proof.
  intros Hp. pose proof Hp as [Hc _]. destruct (plain_char c Hc) as (Hb & Hd & _ & Hcl).
  unfold ref_content, pmap. unfold pseq at 1. cbn [append]. rewrite (ref_not_open_plain c _ Hb Hd). cbn [pbind].
  unfold pseq at 1. rewrite (ref_not_close_plain c _ Hb Hcl). cbn [pbind].
  change (String c (k ++ String "}" rest)) with (String c k ++ ("}" ++ rest))%string.
  rewrite (ref_text_run c k ("}" ++ rest)%string Hp eq_refl). reflexivity.
Qed.

Lemma ralt_run c k rest :
  plain (String c k) -> ralt (String c k ++ "}" ++ rest)%string = POk ("}" ++ rest)%string (String c k).
Proof.
  intros Hp. pose proof Hp as [Hc _]. destruct (plain_char c Hc) as (Hb & Hd & _ & Hcl).
  unfold ralt. cbn [alt append].
  rewrite (double_escape_plain c _ Hb), (ref_escape_open_plain c _ Hb), (ref_escape_close_plain c _ Hb), (inv_escape_open_plain c _ Hb).
  change (String c (k ++ String "}" rest)) with (String c k ++ ("}" ++ rest))%string.
  now rewrite (ref_content_run c k rest Hp).
Qed.

Lemma ref_string_run c k rest :
  plain (String c k) -> ref_string (String c k ++ "}" ++ rest)%string = POk ("}" ++ rest)%string (String c k).
Proof.
  intros Hp. unfold ref_string, pmap, many1. fold ralt. rewrite (ralt_run c k rest Hp). cbn [pbind].
  cbn [many1_rest]. rewrite ralt_at_close. cbn [pbind rev concat_str]. now rewrite app_empty_r.
Qed.

Lemma ref_string_at_close rest : ref_string ("}" ++ rest)%string = PFail.
Proof. reflexivity. Qed.

Lemma reference_at_close b rest : reference b ("}" ++ rest)%string = PFail.
Proof. destruct b; reflexivity. Qed.

Lemma reference_run b c k rest :
  plain (String c k) ->
  reference (S b) ("${" ++ String c k ++ "}" ++ rest)%string = POk rest (TRef [TLit (String c k)]).
Proof.
  intros Hp. pose proof Hp as [Hc _]. destruct (plain_char c Hc) as (Hb & Hd & _ & Hcl).
  cbn [reference]. unfold ref_open at 1. unfold tag at 1. cbn [append strip Ascii.eqb Bool.eqb]. cbn [pbind].
  unfold many1. cbn [alt]. rewrite (reference_plain c _ Hd b). unfold pmap at 1.
  change (String c (k ++ String "}" rest)) with (String c k ++ ("}" ++ rest))%string.
  rewrite (ref_string_run c k rest Hp). cbn [pbind].
  cbn [many1_rest alt]. rewrite (reference_at_close b rest). unfold pmap at 1. rewrite (ref_string_at_close rest). cbn [pbind].
  reflexivity.
Qed.

(** * templates: plain text and simple references, in any number and order *)
Inductive seg := SText (c : ascii) (p : string) | SRef (c : ascii) (k : string).

Definition seg_ok (g : seg) : Prop :=
  match g with SText c p => plain (String c p) | SRef c k => plain (String c k) end.
Definition seg_str (g : seg) : string :=
  match g with SText c p => String c p | SRef c k => ("${" ++ String c k ++ "}")%string end.
Definition seg_tok (g : seg) : token :=
  match g with SText c p => TLit (String c p) | SRef c k => TRef [TLit (String c k)] end.
Fixpoint segs_str (l : list seg) : string :=
  match l with [] => ""%string | g :: l' => (seg_str g ++ segs_str l')%string end.

(** two pieces of text in a row are one piece of text: templates are written without that *)
Fixpoint alternating (l : list seg) : Prop :=
  match l with
  | SText _ _ :: ((SText _ _ :: _) as r) => False
  | _ :: r => alternating r
  | [] => True
  end.

Lemma alternating_tail g l : alternating (g :: l) -> alternating l.
Proof. destruct g, l as [|[] l]; cbn; tauto. Qed.

Lemma str_app_assoc_pre (a b c : string) : ((a ++ b) ++ c)%string = (a ++ (b ++ c))%string.
Proof. induction a as [|x a IH]; cbn; [reflexivity | now rewrite IH]. Qed.

Lemma text_ends_after_text c p l : alternating (SText c p :: l) -> text_ends (segs_str l).
Proof.
  destruct l as [|[c2 p2|c2 k2] l]; cbn [alternating segs_str seg_str]; [intros _; exact text_ends_nil | tauto |].
  intros _. rewrite !str_app_assoc_pre. apply text_ends_open.
Qed.

Lemma str_app_assoc (a b c : string) : ((a ++ b) ++ c)%string = (a ++ (b ++ c))%string.
Proof. induction a as [|x a IH]; cbn; [reflexivity | now rewrite IH]. Qed.

Lemma text_ends_tail c p l bad :
  alternating (SText c p :: l) -> text_ends bad -> text_ends (segs_str l ++ bad)%string.
Proof.
  destruct l as [|[c2 p2|c2 k2] l]; cbn [alternating segs_str seg_str]; [intros _ H; exact H | tauto |].
  intros _ _. rewrite !str_app_assoc. apply text_ends_open.
Qed.

(** one piece, whatever follows ([bad]: the unparsed tail, empty for a whole template) *)
Lemma item_seg b g l bad :
  seg_ok g -> alternating (g :: l) -> text_ends bad ->
  item (S b) (segs_str (g :: l) ++ bad)%string = POk (segs_str l ++ bad)%string (seg_tok g).
Proof.
  intros Hok Halt Hbad. destruct g as [c p | c k]; cbn [segs_str seg_str seg_tok]; rewrite !str_app_assoc.
  - apply item_plain; [exact Hok | exact (text_ends_tail c p l bad Halt Hbad)].
  - unfold item. cbn [alt]. now rewrite (reference_run b c k (segs_str l ++ bad)%string Hok).
Qed.

Lemma seg_str_nonempty g : 1 <= String.length (seg_str g).
Proof. destruct g; cbn; lia. Qed.

Lemma item_at_end f : item f "" = PFail.
Proof. destruct f; reflexivity. Qed.

Lemma many1_rest_segs b bad : text_ends bad -> item (S b) bad = PFail -> forall l acc n,
  Forall seg_ok l -> alternating l -> String.length (segs_str l ++ bad)%string < n ->
  many1_rest n (item (S b)) (segs_str l ++ bad)%string acc = POk bad (rev acc ++ map seg_tok l).
Proof.
  intros Hbad Hfail. induction l as [|g l IH]; intros acc n Hok Halt Hn.
  - destruct n as [|n]; [cbn in Hn; lia|]. cbn [segs_str append many1_rest map]. rewrite Hfail. now rewrite app_nil_r.
  - destruct n as [|n]; [cbn in Hn; lia|]. inversion Hok as [|? ? Hg Hl]; subst.
    cbn [many1_rest]. rewrite (item_seg b g l bad Hg Halt Hbad).
    assert (Hlen : String.length (segs_str (g :: l) ++ bad)%string = String.length (seg_str g) + String.length (segs_str l ++ bad)%string).
    { cbn [segs_str]. rewrite str_app_assoc. apply length_app_str. }
    pose proof (seg_str_nonempty g).
    assert (E : Nat.eqb (String.length (segs_str l ++ bad)%string) (String.length (segs_str (g :: l) ++ bad)%string) = false) by (apply Nat.eqb_neq; lia).
    rewrite E. rewrite (IH (seg_tok g :: acc) n Hl (alternating_tail g l Halt)); [|lia].
    cbn [rev map]. now rewrite <- app_assoc.
Qed.

Lemma many1_segs b g l bad :
  text_ends bad -> item (S b) bad = PFail ->
  Forall seg_ok (g :: l) -> alternating (g :: l) ->
  many1 (item (S b)) (segs_str (g :: l) ++ bad)%string = POk bad (seg_tok g, map seg_tok l).
Proof.
  intros Hbad Hfail Hok Halt. inversion Hok as [|? ? Hg Hl]; subst. unfold many1.
  rewrite (item_seg b g l bad Hg Halt Hbad). cbn [pbind].
  rewrite (many1_rest_segs b bad Hbad Hfail l [] _ Hl (alternating_tail g l Halt)); [reflexivity | lia].
Qed.

(** no two literal tokens in a row: coalescing changes nothing *)
Definition noadj (ts : list token) : Prop :=
  forall pre a b post, ts <> pre ++ TLit a :: TLit b :: post.

Lemma coalesce_rev_noadj : forall ts acc, noadj (rev acc ++ ts) -> coalesce_rev acc ts = rev acc ++ ts.
Proof.
  induction ts as [|t ts IH]; intros acc Hn; cbn [coalesce_rev]; [now rewrite app_nil_r|].
  assert (Hstep : coalesce_rev (t :: acc) ts = rev acc ++ t :: ts).
  { rewrite IH; cbn [rev]; rewrite <- app_assoc; [reflexivity | exact Hn]. }
  destruct acc as [|[a|ra|ca] acc']; try exact Hstep.
  destruct t as [b0|rb|cb]; try exact Hstep.
  exfalso. apply (Hn (rev acc') a b0 ts). cbn [rev]. now rewrite <- app_assoc.
Qed.

Lemma seg_toks_noadj : forall l, alternating l -> noadj (map seg_tok l).
Proof.
  intros l Halt pre a b0 post E. revert l Halt E.
  induction pre as [|x pre IH]; intros l Halt E.
  - destruct l as [|[c1 p1|c1 k1] [|[c2 p2|c2 k2] l]]; cbn in E; try discriminate. exact Halt.
  - destruct l as [|g l]; [discriminate|]. cbn [map app] in E. injection E as _ E.
    exact (IH l (alternating_tail g l Halt) E).
Qed.

Lemma prefixb_app p s : prefixb p (p ++ s) = true.
Proof. induction p as [|c p IH]; cbn; [reflexivity|]. now rewrite Ascii.eqb_refl, IH. Qed.

Lemma contains_app a sub s : contains (a ++ sub ++ s) sub = true.
Proof.
  induction a as [|c a IH].
  - cbn [append]. destruct (sub ++ s)%string eqn:E; cbn [contains]; rewrite <- E, prefixb_app; reflexivity.
  - cbn [append contains]. rewrite IH. apply Bool.orb_true_r.
Qed.

Lemma segs_str_app l1 l2 : segs_str (l1 ++ l2) = (segs_str l1 ++ segs_str l2)%string.
Proof. induction l1 as [|g l1 IH]; cbn [segs_str app]; [reflexivity|]. now rewrite IH, str_app_assoc. Qed.

Lemma has_marker_segs l c k : In (SRef c k) l -> has_marker (segs_str l) = true.
Proof.
  intros Hin. apply in_split in Hin as (l1 & l2 & ->). unfold has_marker.
  rewrite segs_str_app. cbn [segs_str seg_str]. rewrite !str_app_assoc.
  now rewrite (contains_app (segs_str l1) "${" _).
Qed.

(** The parse of a template: exactly its pieces, in order. *)
Theorem template_parse g l c k :
  Forall seg_ok (g :: l) -> alternating (g :: l) -> In (SRef c k) (g :: l) ->
  token_parse (segs_str (g :: l)) =
    Parsed (match map seg_tok (g :: l) with [t] => t | ts => TComb ts end).
Proof.
  intros Hok Halt Hin. unfold token_parse. rewrite (has_marker_segs _ c k Hin).
  unfold parse_ref, parse_ref_fuel. rewrite <- (app_empty_r (segs_str (g :: l))).
  rewrite (many1_segs _ g l "" text_ends_nil (item_at_end _) Hok Halt).
  unfold coalesce. cbn [fst snd].
  rewrite (coalesce_rev_noadj (map seg_tok l) [seg_tok g]); [|exact (seg_toks_noadj (g :: l) Halt)].
  cbn [rev app map]. destruct (map seg_tok l) as [|t ts]; reflexivity.
Qed.

(** * unclosed and empty references are parse errors *)
Lemma ralt_at_end : ralt "" = PFail.
Proof. reflexivity. Qed.

Lemma ref_string_run_end c k :
  plain (String c k) -> ref_string (String c k) = POk ""%string (String c k).
Proof.
  intros Hp. pose proof Hp as [Hc _]. destruct (plain_char c Hc) as (Hb & Hd & _ & Hcl).
  unfold ref_string, pmap, many1. fold ralt.
  assert (E : ralt (String c k) = POk ""%string (String c k)).
  { unfold ralt. cbn [alt].
    rewrite (double_escape_plain c _ Hb), (ref_escape_open_plain c _ Hb), (ref_escape_close_plain c _ Hb), (inv_escape_open_plain c _ Hb).
    unfold ref_content, pmap. unfold pseq at 1. rewrite (ref_not_open_plain c _ Hb Hd). cbn [pbind].
    unfold pseq at 1. rewrite (ref_not_close_plain c _ Hb Hcl). cbn [pbind].
    rewrite <- (app_empty_r (String c k)) at 1. rewrite (ref_text_run c k ""%string Hp I). reflexivity. }
  rewrite E. cbn [pbind many1_rest]. rewrite ralt_at_end. cbn [pbind rev concat_str]. now rewrite app_empty_r.
Qed.

Lemma pstring_at_open r : pstring ("${" ++ r)%string = PFail.
Proof. reflexivity. Qed.

Lemma item_unclosed b k : plain k -> item (S b) ("${" ++ k)%string = PFail.
Proof.
  intros Hp. unfold item. cbn [alt]. unfold pmap. rewrite (pstring_at_open k).
  assert (E : reference (S b) ("${" ++ k)%string = PFail); [|now rewrite E].
  cbn [reference]. unfold ref_open at 1. unfold tag at 1. cbn [append strip Ascii.eqb Bool.eqb pbind].
  destruct k as [|c k].
  - unfold many1. cbn [alt]. destruct b; reflexivity.
  - pose proof Hp as [Hc _]. destruct (plain_char c Hc) as (Hb & Hd & _ & Hcl).
    unfold many1. cbn [alt]. rewrite (reference_plain c _ Hd b). unfold pmap at 1.
    rewrite (ref_string_run_end c k Hp). cbn [pbind many1_rest alt].
    assert (E0 : reference b "" = PFail) by (destruct b; reflexivity). rewrite E0.
    reflexivity.
Qed.

Lemma item_empty_ref b rest : item (S b) ("${}" ++ rest)%string = PFail.
Proof.
  unfold item. cbn [alt]. unfold pmap.
  change ("${}" ++ rest)%string with ("${" ++ ("}" ++ rest))%string. rewrite (pstring_at_open ("}" ++ rest)%string).
  assert (E : reference (S b) ("${" ++ ("}" ++ rest))%string = PFail); [|now rewrite E].
  cbn [reference]. unfold ref_open at 1. unfold tag at 1. cbn [append strip Ascii.eqb Bool.eqb pbind].
  unfold many1. cbn [alt]. change (String "}" rest) with ("}" ++ rest)%string.
  rewrite (reference_at_close b rest). unfold pmap. rewrite (ref_string_at_close rest). reflexivity.
Qed.

Lemma contains_open a r : has_marker (a ++ "${" ++ r) = true.
Proof. unfold has_marker. now rewrite (contains_app a "${" r). Qed.

(** any template followed by something the parser cannot take is rejected as a whole *)
Lemma stuck_is_error l bad :
  Forall seg_ok l -> alternating l -> text_ends bad -> bad <> ""%string ->
  item (S MAX_REF_NESTING) bad = PFail -> has_marker (segs_str l ++ bad) = true ->
  token_parse (segs_str l ++ bad) = ParseError.
Proof.
  intros Hok Halt Hte Hne Hfail Hm. unfold token_parse. rewrite Hm. unfold parse_ref, parse_ref_fuel.
  destruct l as [|g l].
  - cbn [segs_str append]. unfold many1. rewrite Hfail. reflexivity.
  - rewrite (many1_segs _ g l bad Hte Hfail Hok Halt). destruct bad; [congruence | reflexivity].
Qed.

Theorem unclosed_reference_is_error l k :
  Forall seg_ok l -> alternating l -> plain k ->
  token_parse (segs_str l ++ "${" ++ k) = ParseError.
Proof.
  intros Hok Halt Hk. apply stuck_is_error; try assumption.
  - apply text_ends_open.
  - discriminate.
  - apply item_unclosed, Hk.
  - apply contains_open.
Qed.

Theorem empty_reference_is_error l rest :
  Forall seg_ok l -> alternating l ->
  token_parse (segs_str l ++ "${}" ++ rest) = ParseError.
Proof.
  intros Hok Halt. apply stuck_is_error; try assumption.
  - exact (text_ends_open ("}" ++ rest)).
  - discriminate.
  - apply item_empty_ref.
  - exact (contains_open (segs_str l) ("}" ++ rest)).
Qed.

(** * an escaped opening marker is literal text *)
Lemma item_escaped_open b rest : item (S b) ("\${" ++ rest)%string = POk rest (TLit "${").
Proof. reflexivity. Qed.

Lemma many1_rest_step {A} (p : parser A) n s r a acc :
  p s = POk r a -> String.length r <> String.length s ->
  many1_rest (S n) p s acc = many1_rest n p r (a :: acc).
Proof. intros E Hl. cbn [many1_rest]. rewrite E. apply Nat.eqb_neq in Hl. now rewrite Hl. Qed.

Lemma many1_rest_stop {A} (p : parser A) n s acc :
  p s = PFail -> many1_rest (S n) p s acc = POk s (rev acc).
Proof. intros E. cbn [many1_rest]. now rewrite E. Qed.

Lemma plain_tail_items b p2 acc n :
  plain p2 -> String.length p2 <= n ->
  many1_rest (S n) (item (S b)) p2 acc =
    POk ""%string (rev acc ++ match p2 with EmptyString => [] | _ => [TLit p2] end).
Proof.
  intros Hp Hn. destruct p2 as [|c p].
  - rewrite many1_rest_stop by apply item_at_end. now rewrite app_nil_r.
  - destruct n as [|n]; [cbn in Hn; lia|].
    rewrite (many1_rest_step _ _ _ ""%string (TLit (String c p))).
    + rewrite many1_rest_stop by apply item_at_end. cbn [rev]. reflexivity.
    + rewrite <- (app_empty_r (String c p)) at 1. apply item_plain; [exact Hp | exact text_ends_nil].
    + cbn. lia.
Qed.

Theorem escaped_marker_is_literal p1 p2 :
  plain p1 -> plain p2 ->
  token_parse (p1 ++ "\${" ++ p2) = Parsed (TLit (p1 ++ "${" ++ p2)).
Proof.
  intros H1 H2. unfold token_parse.
  assert (Hm : has_marker (p1 ++ "\${" ++ p2) = true).
  { change (p1 ++ "\${" ++ p2)%string with (p1 ++ "\" ++ ("${" ++ p2))%string. rewrite <- str_app_assoc. apply contains_open. }
  rewrite Hm. unfold parse_ref, parse_ref_fuel, many1.
  destruct p1 as [|c p].
  - cbn [append]. change (String "\" (String "$" (String "{" p2))) with ("\${" ++ p2)%string.
    rewrite item_escaped_open. cbn [pbind].
    rewrite (plain_tail_items _ p2 [] _ H2) by lia. cbn [pbind rev app].
    destruct p2 as [|c2 p2']; reflexivity.
  - rewrite (item_plain _ c p ("\${" ++ p2)%string H1 (text_ends_esc_open p2)). cbn [pbind].
    rewrite (many1_rest_step _ _ _ p2 (TLit "${")); [|apply item_escaped_open | cbn; lia].
    cbn [String.length append].
    rewrite (plain_tail_items _ p2 [TLit "${"] _ H2) by lia. cbn [pbind rev app].
    destruct p2 as [|c2 p2']; cbn [coalesce fst snd coalesce_rev rev app]; [reflexivity | now rewrite str_app_assoc].
Qed.

(** non-vacuity: concrete templates *)
Example template_example :
  token_parse "pre-${a:b}-mid-${c}" =
    Parsed (TComb [TLit "pre-"; TRef [TLit "a:b"]; TLit "-mid-"; TRef [TLit "c"]]).
Proof.
  change "pre-${a:b}-mid-${c}"%string with
    (segs_str [SText "p" "re-"; SRef "a" ":b"; SText "-" "mid-"; SRef "c" ""]).
  rewrite (template_parse _ _ "c"%char ""%string); [reflexivity | | exact I | cbn; tauto].
  repeat constructor.
Qed.

(* C04, both halves composed: a reference string may be replaced, anywhere in the parameters, by
   what it renders to *as one writes it in a document* -- literal strings as plain strings -- and
   everything renders as before. *)
From RV Require Import Model.Interp Proofs.ValueFacts Proofs.MappingFacts Proofs.WfFacts Proofs.InterpFacts Proofs.Twin Proofs.Unrender.

Lemma Forall2_compose_ex {A B C} (R : A -> B -> Prop) (S : B -> C -> Prop) : forall l l'',
  Forall2 (fun a c => exists b, R a b /\ S b c) l l'' -> exists l', Forall2 R l l' /\ Forall2 S l' l''.
Proof.
  induction 1 as [|a c l l'' (b & Hr & Hs) _ (l' & H1 & H2)]; [exists []; split; constructor|].
  exists (b :: l'). split; constructor; assumption.
Qed.

Section Inline.
  Variable root : mapping.

  (** the twin of a well-formed value is well-formed *)
  Lemma tw_wf : forall a b, wf a -> tw root a b -> wf b.
  Proof.
    induction a as [| b0 | s | s | n | es IH | vs IH | vs IH] using value_ind'; intros b Hw H; try (cbn in H; subst b; exact Hw).
    - cbn [tw] in H. destruct H as [-> | (_ & Hwb & _)]; [exact I | exact Hwb].
    - apply tw_map_iff in H as (es' & -> & H). apply wf_map_iff in Hw as (Hnd & Hum & Hv). apply wf_map_iff.
      assert (Hk : keys es' = keys es).
      { clear - H. unfold keys. induction H as [|e e' es es' (Hk & _) _ IHes]; [reflexivity|]. cbn [map]. now rewrite Hk, IHes. }
      rewrite Hk. split; [exact Hnd | split; [exact Hum|]].
      clear Hk Hnd Hum. revert IH Hv. induction H as [|e e' es es' (_ & _ & _ & He) _ IHes]; intros IH Hv; constructor.
      + inversion IH as [|? ? [_ IHe] _]; subst. inversion Hv; subst. exact (IHe _ ltac:(assumption) He).
      + inversion IH; subst. inversion Hv; subst. apply IHes; assumption.
    - apply tw_seq_iff in H as (l' & -> & H). apply wf_seq_iff in Hw. apply wf_seq_iff.
      revert IH Hw. induction H as [|x x' l l' Hx _ IHl]; intros IH Hw; constructor.
      + inversion IH; subst. inversion Hw; subst. eauto.
      + inversion IH; subst. inversion Hw; subst. apply IHl; assumption.
    - apply tw_list_iff in H as (l' & -> & H). apply wf_list_iff in Hw. apply wf_list_iff.
      revert IH Hw. induction H as [|x x' l l' Hx _ IHl]; intros IH Hw; constructor.
      + inversion IH as [|? ? IHx _]; subst. inversion Hw as [|? ? [Hwx Hlx] _]; subst. split; [exact (IHx _ Hwx Hx)|].
        rewrite (tw_is_vlist _ _ _ Hx). exact Hlx.
      + inversion IH; subst. inversion Hw; subst. apply IHl; assumption.
  Qed.

  (** [a] with reference strings replaced by what they render to, written as in a document *)
  Definition inl (a c : value) : Prop := exists b, tw root a b /\ lw b c.
  Definition inle (m m'' : mapping) : Prop := exists m', Forall2 (twe root) m m' /\ Forall2 lwe m' m''.

  Lemma inl_refl a : inl a a.
  Proof. exists a. split; [apply tw_refl | apply lw_refl]. Qed.

  Lemma inl_map m m'' : inle m m'' -> inl (VMap m) (VMap m'').
  Proof.
    intros (m' & H1 & H2). exists (VMap m'). split; [apply tw_map_iff | apply lw_map_iff]; eexists; (split; [reflexivity | assumption]).
  Qed.

  Lemma inl_map_inv m c : inl (VMap m) c -> exists m'', c = VMap m'' /\ inle m m''.
  Proof.
    intros (b & H1 & H2). apply tw_map_iff in H1 as (m' & -> & H1). apply lw_map_iff in H2 as (m'' & -> & H2).
    exists m''. split; [reflexivity|]. exists m'. split; assumption.
  Qed.

  Lemma inl_seq l l'' : Forall2 inl l l'' -> inl (VSeq l) (VSeq l'').
  Proof.
    intros H. destruct (Forall2_compose_ex _ _ _ _ H) as (l' & H1 & H2). exists (VSeq l').
    split; [apply tw_seq_iff | apply lw_seq_iff]; eexists; (split; [reflexivity | assumption]).
  Qed.

  Lemma inle_nil : inle [] [].
  Proof. exists []. split; constructor. Qed.

  Lemma inle_insert m m'' k v v'' c o m2 :
    inle m m'' -> inl v v'' -> insert_impl m k v c o = Ok m2 ->
    exists m2'', insert_impl m'' k v'' c o = Ok m2'' /\ inle m2 m2''.
  Proof.
    intros (m' & H1 & H2) (v' & Hv1 & Hv2) H.
    destruct (insert_impl_tw root _ _ _ _ _ _ _ _ H1 Hv1 H) as (m2' & E' & G1).
    destruct (insert_impl_lw _ _ _ _ _ _ _ _ H2 Hv2 E') as (m2'' & E'' & G2).
    exists m2''. split; [exact E''|]. exists m2'. split; assumption.
  Qed.

  Lemma inle_merge a a'' b b'' m :
    inle b b'' -> inle a a'' -> mapping_merge a b = Ok m -> exists m'', mapping_merge a'' b'' = Ok m'' /\ inle m m''.
  Proof.
    intros (b' & Hb1 & Hb2) (a' & Ha1 & Ha2) H.
    destruct (mapping_merge_tw root _ _ _ _ _ Hb1 Ha1 H) as (m' & E' & G1).
    destruct (mapping_merge_lw _ _ _ _ _ Hb2 Ha2 E') as (m'' & E'' & G2).
    exists m''. split; [exact E''|]. exists m'. split; assumption.
  Qed.

  (** the inlined parameters render, with one more unit of fuel, to the same result *)
  Theorem inlined_parameters_render_the_same root'' :
    wf (VMap root) -> wf (VMap root'') -> inle root root'' ->
    forall f r, render_with_self f (VMap root) = Ok r -> render_with_self (S f) (VMap root'') = Ok r.
  Proof.
    intros Hw Hw'' (root' & H1 & H2) f r Hr.
    assert (Hw' : wf (VMap root')).
    { apply (tw_wf (VMap root) (VMap root') Hw). apply tw_map_iff. exists root'. split; [reflexivity | exact H1]. }
    pose proof (twin_renders_the_same root root' Hw Hw' H1 f r Hr) as Hr'.
    exact (unrendered_parameters_render_the_same root' root'' Hw' Hw'' H2 f r Hr').
  Qed.
End Inline.

(* The reference parser model (C06): strings without a marker are untouched; the parser always
   terminates within its local fuel (PFuel is never returned). *)
From RV Require Import Model.Parser.

Definition nonincr {A} (p : parser A) : Prop := forall s r a, p s = POk r a -> length r <= length s.
Definition nofuel {A} (p : parser A) : Prop := forall s, p s <> PFuel.
Definition good {A} (p : parser A) : Prop := nonincr p /\ nofuel p.

Lemma strip_length t s r : strip t s = Some r -> length r <= length s.
Proof.
  revert s. induction t as [|a t IH]; intros s; cbn [strip].
  - intros H; injection H as <-. lia.
  - destruct s as [|b s]; [discriminate|]. destruct (Ascii.eqb a b); [|discriminate].
    intros H. apply IH in H. cbn [length]. lia.
Qed.

Lemma good_tag t : good (tag t).
Proof.
  split; intros s; unfold tag.
  - intros r a. destruct (strip t s) eqn:E; [|discriminate]. intros H; injection H as <- _. eapply strip_length; eauto.
  - destruct (strip t s); discriminate.
Qed.

Lemma good_pmap {A B} (p : parser A) (f : A -> B) : good p -> good (pmap p f).
Proof.
  intros [Hn Hf]. split; intros s; unfold pmap, pbind.
  - intros r b. destruct (p s) eqn:E; try discriminate. intros H; injection H as <- _. eapply Hn; eauto.
  - specialize (Hf s). destruct (p s); congruence.
Qed.

Lemma good_pnot {A} (p : parser A) : nofuel p -> good (pnot p).
Proof.
  intros Hf. split; intros s; unfold pnot.
  - intros r a. destruct (p s); try discriminate. intros H; injection H as <- _. lia.
  - specialize (Hf s). destruct (p s); congruence.
Qed.

Lemma good_ppeek {A} (p : parser A) : good p -> good (ppeek p).
Proof.
  intros [Hn Hf]. split; intros s; unfold ppeek.
  - intros r a. destruct (p s); try discriminate. intros H; injection H as <- _. lia.
  - specialize (Hf s). destruct (p s); congruence.
Qed.

Lemma good_alt {A} (ps : list (parser A)) : Forall good ps -> good (alt ps).
Proof.
  induction 1 as [|p ps [Hn Hf] Hall [IHn IHf]]; split; intros s; cbn [alt].
  - discriminate.
  - discriminate.
  - intros r a. destruct (p s) eqn:E; [apply IHn | discriminate | intros H; injection H as <- <-; eapply Hn; eauto].
  - specialize (Hf s). destruct (p s) eqn:E; [apply IHf | congruence | discriminate].
Qed.

Lemma good_pseq {A B} (p : parser A) (q : parser B) : good p -> good q -> good (pseq p q).
Proof.
  intros [Hpn Hpf] [Hqn Hqf]. split; intros s; unfold pseq, pbind.
  - intros r ab. destruct (p s) as [| |r1 a] eqn:E1; try discriminate.
    destruct (q r1) as [| |r2 b] eqn:E2; try discriminate. intros H; injection H as <- _.
    apply Hpn in E1. apply Hqn in E2. lia.
  - specialize (Hpf s). destruct (p s) as [| |r1 a]; try congruence.
    specialize (Hqf r1). destruct (q r1); congruence.
Qed.

Lemma good_preceded {A B} (p : parser A) (q : parser B) : good p -> good q -> good (preceded p q).
Proof. intros. unfold preceded. apply good_pmap, good_pseq; assumption. Qed.

Lemma good_none_of set : good (none_of set).
Proof.
  split; intros s; unfold none_of.
  - intros r a. destruct s as [|c s]; [discriminate|]. destruct (in_set c set); [discriminate|].
    intros H; injection H as <- _. cbn [length]. lia.
  - destruct s as [|c s]; [discriminate|]. destruct (in_set c set); discriminate.
Qed.

Lemma good_take1 : good take1.
Proof.
  split; intros s; unfold take1.
  - intros r a. destruct s; [discriminate|]. intros H; injection H as <- _. cbn [length]. lia.
  - destruct s; discriminate.
Qed.

(** many1 never exhausts its local fuel S (length r) *)
Lemma many1_rest_good {A} (p : parser A) : good p ->
  forall n s acc, length s < n ->
    many1_rest n p s acc <> PFuel /\
    (forall r l, many1_rest n p s acc = POk r l -> length r <= length s).
Proof.
  intros [Hn Hf]. induction n as [|n IH]; intros s acc Hlt; [lia|].
  cbn [many1_rest]. specialize (Hf s). destruct (p s) as [| |r a] eqn:E; try congruence.
  - split; [discriminate|]. intros r l H; injection H as <- _. lia.
  - apply Hn in E. destruct (Nat.eqb_spec (length r) (length s)) as [Heq|Hne].
    + split; [discriminate | intros ? ? H; discriminate].
    + destruct (IH r (a :: acc)) as [H1 H2]; [lia|]. split; [assumption|].
      intros r' l H. apply H2 in H. lia.
Qed.

Lemma good_many1 {A} (p : parser A) : good p -> good (many1 p).
Proof.
  intros Hg. pose proof Hg as [Hn Hf]. split; intros s; unfold many1, pbind.
  - intros r al. destruct (p s) as [| |r1 a] eqn:E; try discriminate.
    destruct (many1_rest (S (length r1)) p r1 []) as [| |r2 l] eqn:E2; try discriminate.
    intros H; injection H as <- _. apply Hn in E.
    destruct (many1_rest_good p Hg (S (length r1)) r1 []) as [_ H2]; [lia|]. apply H2 in E2. lia.
  - specialize (Hf s). destruct (p s) as [| |r1 a] eqn:E; try congruence.
    destruct (many1_rest_good p Hg (S (length r1)) r1 []) as [H1 _]; [lia|].
    destruct (many1_rest (S (length r1)) p r1 []); congruence.
Qed.

Lemma nofuel_tag t : nofuel (tag t).
Proof. apply good_tag. Qed.

Ltac goodness :=
  repeat first
    [ apply good_tag | apply good_take1 | apply good_none_of | apply good_many1
    | apply good_preceded | apply good_pseq | apply good_ppeek | apply good_pmap
    | apply good_pnot; apply nofuel_tag
    | apply good_alt; repeat (apply Forall_cons || apply Forall_nil) ].

Lemma good_ref_open : good ref_open. Proof. unfold ref_open. goodness. Qed.
Lemma good_ref_close : good ref_close. Proof. unfold ref_close. goodness. Qed.
Lemma good_double_escape : good double_escape.
Proof. unfold double_escape, ref_open, ref_close. goodness. Qed.
Lemma good_ref_escape_open : good ref_escape_open. Proof. unfold ref_escape_open, ref_open. goodness. Qed.
Lemma good_inv_escape_open : good inv_escape_open. Proof. unfold inv_escape_open, inv_open. goodness. Qed.
Lemma good_ref_escape_close : good ref_escape_close. Proof. unfold ref_escape_close, ref_close. goodness. Qed.
Lemma good_ref_not_open : good ref_not_open. Proof. unfold ref_not_open. goodness. Qed.
Lemma good_ref_not_close : good ref_not_close. Proof. unfold ref_not_close. goodness. Qed.
Lemma good_ref_text : good ref_text. Proof. unfold ref_text. goodness. Qed.
Lemma good_ref_content : good ref_content.
Proof. unfold ref_content. goodness. Qed.
Lemma good_ref_string : good ref_string.
Proof. unfold ref_string. goodness. Qed.
Lemma good_text : good text. Proof. unfold text. goodness. Qed.
Lemma good_content : good content.
Proof. unfold content. goodness. Qed.
Lemma good_pstring : good pstring.
Proof. unfold pstring. goodness. Qed.

Lemma good_reference b : good (reference b).
Proof.
  induction b as [|b IH]; cbn [reference].
  - split; intros s; [intros r a H; discriminate | discriminate].
  - assert (Hitem : good (alt [reference b; pmap ref_string TLit])).
    { apply good_alt. constructor; [exact IH|]. constructor; [|constructor]. apply good_pmap, good_ref_string. }
    pose proof (good_many1 _ Hitem) as [Hmn Hmf].
    destruct good_ref_open as [Hon Hof]. destruct good_ref_close as [Hcn Hcf].
    split; intros s; unfold pbind.
    + intros r a. destruct (ref_open s) as [| |r1 x] eqn:E1; try discriminate.
      destruct (many1 (alt [reference b; pmap ref_string TLit]) r1) as [| |r2 toks] eqn:E2; try discriminate.
      destruct (ref_close r2) as [| |r3 y] eqn:E3; try discriminate.
      intros H; injection H as <- _. apply Hon in E1. apply Hmn in E2. apply Hcn in E3. lia.
    + specialize (Hof s). destruct (ref_open s) as [| |r1 x]; try congruence.
      specialize (Hmf r1). destruct (many1 (alt [reference b; pmap ref_string TLit]) r1) as [| |r2 toks]; try congruence.
      specialize (Hcf r2). destruct (ref_close r2); congruence.
Qed.

Lemma good_item b : good (item b).
Proof. unfold item. apply good_alt. constructor; [apply good_reference|]. constructor; [|constructor]. apply good_pmap, good_pstring. Qed.

(** the parser terminates: fuel exhaustion is never an outcome *)
Theorem parse_ref_terminates s : parse_ref s <> PFuel.
Proof.
  unfold parse_ref, parse_ref_fuel.
  pose proof (good_many1 _ (good_item (S MAX_REF_NESTING))) as [_ Hf]. specialize (Hf s).
  destruct (many1 (item (S MAX_REF_NESTING)) s) as [| |rest toks]; try congruence.
  destruct rest; [|discriminate]. destruct (coalesce toks) as [|t [|t2 ts]]; discriminate.
Qed.

Theorem token_parse_terminates s : token_parse s <> ParseFuel.
Proof.
  unfold token_parse. destruct (has_marker s); [|discriminate].
  pose proof (parse_ref_terminates s). destruct (parse_ref s); congruence.
Qed.

(** strings without a reference marker are not parsed at all *)
Theorem no_marker_no_parse s : has_marker s = false -> token_parse s = NoRef.
Proof. unfold token_parse. now intros ->. Qed.

(** a parse result consumes the whole input: trailing data is a parse error, never dropped *)
Theorem parse_ref_all_consumed s r t : parse_ref s = POk r t -> r = "".
Proof.
  unfold parse_ref, parse_ref_fuel.
  destruct (many1 (item (S MAX_REF_NESTING)) s) as [| |rest toks]; try discriminate.
  destruct rest; [|discriminate]. destruct (coalesce toks) as [|t0 [|t2 ts]]; intros H; injection H as <- _; reflexivity.
Qed.

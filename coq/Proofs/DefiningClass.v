(* C03 "... or on which class defines the target": a parameter definition may be moved from one
   class to a later one (no class in between touching that parameter) without changing what the
   node renders to: the merged parameters are a permutation of each other, and rendering does
   not depend on the order of the parameters (Proofs/OrderIndep.v). *)
From Coq Require Import Permutation.
From RV Require Import Model.Interp Proofs.ValueFacts Proofs.MappingFacts Proofs.WfFacts Proofs.OrderIndep.

(** Mapping::merge inserts the entries of the other mapping one by one *)
Definition ins (m : mapping) (x : entry) : res mapping :=
  insert_impl m (e_key x) (e_val x) (e_const x) (e_over x).

Definition kx (x : entry) : value := stripped (e_key x).

Definition fresh (x : entry) : entry :=
  mk_entry (kx x) (e_val x) (is_pconst (marker (e_key x)) || e_const x) (is_pover (marker (e_key x)) || e_over x).

Definition newfun (x e : entry) : entry -> entry :=
  if e_over x || is_pover (marker (e_key x))
  then (fun e0 => mk_entry (kx x) (e_val x) (e_const x || is_pconst (marker (e_key x))) (e_over e0))
  else (fun e0 => mk_entry (kx x)
                    (match e_val e with VList l => VList (l ++ layers_of (e_val x)) | _ => VList (e_val e :: layers_of (e_val x)) end)
                    (e_const x || is_pconst (marker (e_key x))) (e_over e0)).

Lemma ins_unfold m x :
  ins m x = match m_find (kx x) m with
            | None => Ok (m ++ [fresh x])
            | Some e => if e_const e then Err (EConst (kx x)) else Ok (m_set (kx x) (newfun x e) m)
            end.
Proof.
  unfold ins, insert_impl, kx, fresh, newfun. rewrite strip_prefix_eta.
  destruct (m_find (stripped (e_key x)) m) as [e|]; [|reflexivity].
  destruct (e_const e); [reflexivity|]. destruct (e_over x || is_pover (marker (e_key x))); reflexivity.
Qed.

Lemma newfun_key x e e0 : e_key (newfun x e e0) = kx x.
Proof. unfold newfun. destruct (e_over x || is_pover (marker (e_key x))); reflexivity. Qed.

Lemma NoDup_app_one {A} (l : list A) x : NoDup l -> ~ In x l -> NoDup (l ++ [x]).
Proof.
  intros Hl Hx. induction l as [|y l IH]; cbn [app]; [constructor; [intros [] | constructor]|].
  inversion Hl; subst. constructor.
  - intros Hin. apply in_app_or in Hin as [Hin|[->|[]]]; [contradiction|]. apply Hx. now left.
  - apply IH; [assumption|]. intros Hin. apply Hx. now right.
Qed.

(** * permuted mappings *)
Lemma m_set_perm k f : (forall e, e_key e = k -> e_key (f e) = k) ->
  forall m m', NoDup (keys m) -> Permutation m m' -> Permutation (m_set k f m) (m_set k f m').
Proof.
  intros Hf m m' Hnd Hp. induction Hp as [|x l l' Hp IH | x y l | l l2 l3 Hp1 IH1 Hp2 IH2].
  - constructor.
  - cbn [m_set]. inversion Hnd; subst. destruct (value_eqb (e_key x) k); [now constructor | constructor; auto].
  - cbn [m_set]. destruct (value_eqb (e_key y) k) eqn:Ey, (value_eqb (e_key x) k) eqn:Ex; try apply perm_swap.
    exfalso. apply value_eqb_eq in Ey, Ex. inversion Hnd as [|? ? Hn _]; subst. apply Hn. cbn [keys map]. left. congruence.
  - eapply Permutation_trans; [exact (IH1 Hnd)|]. apply IH2. unfold keys in *.
    eapply Permutation_NoDup; [apply Permutation_map; exact Hp1 | exact Hnd].
Qed.

Lemma ins_perm m m' x r : NoDup (keys m) -> Permutation m m' -> ins m x = Ok r ->
  exists r', ins m' x = Ok r' /\ Permutation r r'.
Proof.
  intros Hnd Hp. rewrite !ins_unfold. rewrite <- (m_find_perm (kx x) m m' Hnd Hp).
  destruct (m_find (kx x) m) as [e|].
  - destruct (e_const e); [discriminate|]. intros H; injection H as <-. eexists. split; [reflexivity|].
    apply m_set_perm; [intros; apply newfun_key | exact Hnd | exact Hp].
  - intros H; injection H as <-. eexists. split; [reflexivity|]. apply Permutation_app_tail, Hp.
Qed.

Lemma ins_nodup m x r : NoDup (keys m) -> ins m x = Ok r -> NoDup (keys r).
Proof.
  intros Hnd. rewrite ins_unfold. destruct (m_find (kx x) m) as [e|] eqn:F.
  - destruct (e_const e); [discriminate|]. intros H; injection H as <-. unfold keys.
    rewrite m_set_keys; [exact Hnd | intros; apply newfun_key].
  - intros H; injection H as <-. unfold keys in *. rewrite map_app. cbn [map fresh mk_entry e_key fst].
    apply NoDup_app_one; [exact Hnd|]. apply m_find_none_keys in F. exact F.
Qed.

Lemma m_set_app_found k f m l e : m_find k m = Some e -> m_set k f (m ++ l) = m_set k f m ++ l.
Proof.
  induction m as [|x m IH]; cbn [m_find m_set app]; [discriminate|].
  destruct (value_eqb (e_key x) k); [reflexivity|]. intros H. now rewrite (IH H).
Qed.

Lemma m_set_comm k1 k2 f1 f2 m :
  k1 <> k2 -> (forall e, e_key (f1 e) = k1) -> (forall e, e_key (f2 e) = k2) ->
  m_set k2 f2 (m_set k1 f1 m) = m_set k1 f1 (m_set k2 f2 m).
Proof.
  intros Hne H1 H2. induction m as [|x m IH]; [reflexivity|]. cbn [m_set].
  destruct (value_eqb (e_key x) k1) eqn:E1, (value_eqb (e_key x) k2) eqn:E2.
  - apply value_eqb_eq in E1, E2. congruence.
  - cbn [m_set]. rewrite H1, E1.
    assert (value_eqb k1 k2 = false) as -> by (apply value_eqb_neq; exact Hne). reflexivity.
  - cbn [m_set]. rewrite H2, E2.
    assert (value_eqb k2 k1 = false) as -> by (apply value_eqb_neq; congruence). reflexivity.
  - cbn [m_set]. rewrite E1, E2. now rewrite IH.
Qed.

Lemma m_find_ins_other m x r k : ins m x = Ok r -> k <> kx x -> m_find k r = m_find k m.
Proof. intros H Hne. exact (insert_other_key _ _ _ _ _ _ k H Hne). Qed.

(** two insertions of different keys commute up to the order of newly appended entries *)
Lemma ins_commute m x y r1 r12 :
  kx x <> kx y -> ins m x = Ok r1 -> ins r1 y = Ok r12 ->
  exists r2 r21, ins m y = Ok r2 /\ ins r2 x = Ok r21 /\ Permutation r12 r21.
Proof.
  intros Hne H1 H2.
  pose proof (m_find_ins_other m x r1 (kx y) H1 (fun E => Hne (eq_sym E))) as Fy.
  rewrite ins_unfold in H1, H2. rewrite Fy in H2. rewrite (ins_unfold m y).
  destruct (m_find (kx x) m) as [ex|] eqn:Fx, (m_find (kx y) m) as [ey|] eqn:Fy0.
  - destruct (e_const ex) eqn:Ecx; [discriminate|]. injection H1 as <-.
    destruct (e_const ey) eqn:Ecy; [discriminate|]. injection H2 as <-.
    eexists. eexists. split; [reflexivity|]. rewrite ins_unfold.
    rewrite (m_find_set_other (kx y) (kx x) (newfun y ey) m Hne (fun e _ => newfun_key y ey e)), Fx, Ecx.
    split; [reflexivity|].
    rewrite (m_set_comm (kx x) (kx y) (newfun x ex) (newfun y ey) m Hne (newfun_key x ex) (newfun_key y ey)). apply Permutation_refl.
  - destruct (e_const ex) eqn:Ecx; [discriminate|]. injection H1 as <-. injection H2 as <-.
    eexists. eexists. split; [reflexivity|]. rewrite ins_unfold, m_find_app, Fx, Ecx. split; [reflexivity|].
    rewrite (m_set_app_found _ _ _ _ _ Fx). apply Permutation_refl.
  - injection H1 as <-. destruct (e_const ey) eqn:Ecy; [discriminate|]. injection H2 as <-.
    eexists. eexists. split; [reflexivity|]. rewrite ins_unfold.
    rewrite (m_find_set_other (kx y) (kx x) (newfun y ey) m Hne (fun e _ => newfun_key y ey e)), Fx. split; [reflexivity|].
    rewrite (m_set_app_found _ _ _ _ _ Fy0). apply Permutation_refl.
  - injection H1 as <-. injection H2 as <-.
    eexists. eexists. split; [reflexivity|]. rewrite ins_unfold, m_find_app, Fx. cbn [m_find fresh mk_entry e_key fst].
    assert (value_eqb (kx y) (kx x) = false) as -> by (apply value_eqb_neq; congruence). split; [reflexivity|].
    rewrite <- !app_assoc. apply Permutation_app_head. cbn [app]. apply perm_swap.
Qed.

Lemma foldM_app' {A B} (f : A -> B -> res A) : forall l1 l2 a,
  foldM f (l1 ++ l2) a = (r <- foldM f l1 a ;; foldM f l2 r).
Proof.
  induction l1 as [|x l1 IH]; intros l2 a; cbn [app foldM bind]; [reflexivity|].
  destruct (f a x); cbn [bind]; try reflexivity. apply IH.
Qed.

Lemma fold_nodup : forall es m r, NoDup (keys m) -> foldM ins es m = Ok r -> NoDup (keys r).
Proof.
  induction es as [|x es IH]; intros m r Hnd H; cbn [foldM] in H; [injection H as <-; exact Hnd|].
  destruct (ins m x) as [m1| | |] eqn:E; cbn [bind] in H; try discriminate. exact (IH _ _ (ins_nodup _ _ _ Hnd E) H).
Qed.

Lemma fold_perm : forall es m m' r, NoDup (keys m) -> Permutation m m' -> foldM ins es m = Ok r ->
  exists r', foldM ins es m' = Ok r' /\ Permutation r r'.
Proof.
  induction es as [|x es IH]; intros m m' r Hnd Hp H; cbn [foldM] in *.
  - injection H as <-. exists m'. split; [reflexivity | exact Hp].
  - destruct (ins m x) as [m1| | |] eqn:E; cbn [bind] in H; try discriminate.
    destruct (ins_perm m m' x m1 Hnd Hp E) as (m1' & E' & Hp1). rewrite E'. cbn [bind].
    exact (IH _ _ _ (ins_nodup _ _ _ Hnd E) Hp1 H).
Qed.

(** an insertion may be moved behind insertions of other keys *)
Lemma move_past : forall es e m r,
  NoDup (keys m) -> Forall (fun y => kx y <> kx e) es -> foldM ins (e :: es) m = Ok r ->
  exists r', foldM ins (es ++ [e]) m = Ok r' /\ Permutation r r'.
Proof.
  induction es as [|y es IH]; intros e m r Hnd Hk H.
  - exists r. split; [exact H | apply Permutation_refl].
  - inversion Hk as [|? ? Hy Hes]; subst. cbn [foldM] in H.
    destruct (ins m e) as [r1| | |] eqn:E1; cbn [bind] in H; try discriminate.
    destruct (ins r1 y) as [r12| | |] eqn:E2; cbn [bind] in H; try discriminate.
    destruct (ins_commute m e y r1 r12 (fun E => Hy (eq_sym E)) E1 E2) as (r2 & r21 & Ey & Ee & Hp).
    pose proof (ins_nodup _ _ _ Hnd E1) as Hn1. pose proof (ins_nodup _ _ _ Hn1 E2) as Hn12.
    destruct (fold_perm es r12 r21 r Hn12 Hp H) as (r'' & H'' & Hp'').
    pose proof (ins_nodup _ _ _ Hnd Ey) as Hn2.
    assert (G : foldM ins (e :: es) r2 = Ok r'') by (cbn [foldM]; rewrite Ee; exact H'').
    destruct (IH e r2 r'' Hn2 Hes G) as (r3 & H3 & Hp3).
    exists r3. split; [cbn [app foldM]; rewrite Ey; exact H3 | exact (Permutation_trans Hp'' Hp3)].
Qed.

Lemma move_later pre e mid post m r :
  NoDup (keys m) -> Forall (fun y => kx y <> kx e) mid ->
  foldM ins (pre ++ e :: mid ++ post) m = Ok r ->
  exists r', foldM ins (pre ++ mid ++ e :: post) m = Ok r' /\ Permutation r r'.
Proof.
  intros Hnd Hk H. rewrite foldM_app' in *.
  destruct (foldM ins pre m) as [m1| | |] eqn:E1; cbn [bind] in *; try discriminate.
  pose proof (fold_nodup _ _ _ Hnd E1) as Hn1.
  change (e :: mid ++ post) with ((e :: mid) ++ post) in H. rewrite foldM_app' in H.
  destruct (foldM ins (e :: mid) m1) as [m2| | |] eqn:E2; cbn [bind] in H; try discriminate.
  destruct (move_past mid e m1 m2 Hn1 Hk E2) as (m2' & E2' & Hp2).
  pose proof (fold_nodup _ _ _ Hn1 E2) as Hn2.
  destruct (fold_perm post m2 m2' r Hn2 Hp2 H) as (r' & H' & Hp').
  exists r'. split; [|exact Hp'].
  replace (mid ++ e :: post) with ((mid ++ [e]) ++ post) by (now rewrite <- app_assoc).
  rewrite foldM_app', E2'. exact H'.
Qed.

(** * classes *)
Definition merge_classes (ls : list mapping) (m : mapping) : res mapping := foldM mapping_merge ls m.

Lemma merge_classes_flat : forall ls m, merge_classes ls m = foldM ins (List.concat ls) m.
Proof.
  unfold merge_classes. induction ls as [|l ls IH]; intros m; cbn [foldM List.concat]; [reflexivity|].
  rewrite foldM_app'. change (mapping_merge m l) with (foldM ins l m).
  destruct (foldM ins l m); cbn [bind]; try reflexivity. apply IH.
Qed.

(** the definition [e] of a parameter moves from one class to a later one; no class in between
    (nor the rest of the two classes) touches that parameter *)
Theorem defining_class_may_change ls1 a e b ls2 c ls3 m :
  Forall (fun y => kx y <> kx e) (b ++ List.concat ls2 ++ c) ->
  merge_classes (ls1 ++ (a ++ e :: b) :: ls2 ++ c :: ls3) [] = Ok m ->
  exists m', merge_classes (ls1 ++ (a ++ b) :: ls2 ++ (c ++ [e]) :: ls3) [] = Ok m' /\ Permutation m m'.
Proof.
  intros Hk H. rewrite merge_classes_flat in *.
  rewrite concat_app in *. cbn [List.concat] in *. rewrite concat_app in *. cbn [List.concat] in *.
  replace (List.concat ls1 ++ (a ++ e :: b) ++ List.concat ls2 ++ c ++ List.concat ls3)
    with ((List.concat ls1 ++ a) ++ e :: (b ++ List.concat ls2 ++ c) ++ List.concat ls3) in H
    by (repeat (rewrite <- ?app_assoc; cbn [app]); reflexivity).
  destruct (move_later _ e _ _ [] m (NoDup_nil _) Hk H) as (m' & H' & Hp).
  exists m'. split; [|exact Hp]. rewrite <- H'. f_equal.
  repeat (rewrite <- ?app_assoc; cbn [app]). reflexivity.
Qed.

(** ... and the node renders to the same parameters, key by key *)
Theorem render_does_not_depend_on_the_defining_class ls1 a e b ls2 c ls3 m f r :
  Forall (fun y => kx y <> kx e) (b ++ List.concat ls2 ++ c) ->
  merge_classes (ls1 ++ (a ++ e :: b) :: ls2 ++ c :: ls3) [] = Ok m ->
  wf (VMap m) -> render_with_self f (VMap m) = Ok r ->
  exists m' mm mm',
    merge_classes (ls1 ++ (a ++ b) :: ls2 ++ (c ++ [e]) :: ls3) [] = Ok m' /\
    r = VMap mm /\ render_with_self f (VMap m') = Ok (VMap mm') /\ forall k, m_get k mm = m_get k mm'.
Proof.
  intros Hk Hm Hw Hr. destruct (defining_class_may_change ls1 a e b ls2 c ls3 m Hk Hm) as (m' & Hm' & Hp).
  destruct (render_is_order_independent m Hw f m' r Hp Hr) as (mm & mm' & -> & Hr' & _ & Hget).
  exists m', mm, mm'. repeat split; assumption.
Qed.

(* Well-formedness (clean, duplicate-free keys) and closedness (no String, no ValueList) of
   values; how insert_impl, Mapping::merge, Value::merge and flattened act on them.
   Basis of C07 (closed output), C11 (unreachable panics) and C02. *)
From RV Require Import Model.Mapping Proofs.ValueFacts Proofs.MappingFacts.

Definition unmarked (k : value) : Prop := strip_prefix k = (k, None).

Definition keys (es : list entry) : list value := map e_key es.

(** [wf v]: every mapping in a value position of [v] has duplicate-free keys without a leading
    marker (what Mapping::from produces from YAML whose keys carry at most one marker). *)
Fixpoint wf (v : value) : Prop :=
  match v with
  | VMap es =>
      NoDup (keys es) /\ Forall unmarked (keys es) /\
      (fix go (es : list entry) : Prop :=
         match es with [] => True | (_, x, _, _) :: es' => wf x /\ go es' end) es
  | VSeq l | VList l =>
      (fix go (l : list value) : Prop := match l with [] => True | x :: l' => wf x /\ go l' end) l
  | _ => True
  end.

(** [nostr v]: no unparsed String in a value position; [closed v]: additionally no ValueList. *)
Fixpoint nostr (v : value) : Prop :=
  match v with
  | VStr _ => False
  | VMap es =>
      (fix go (es : list entry) : Prop :=
         match es with [] => True | (_, x, _, _) :: es' => nostr x /\ go es' end) es
  | VSeq l | VList l =>
      (fix go (l : list value) : Prop := match l with [] => True | x :: l' => nostr x /\ go l' end) l
  | _ => True
  end.

Fixpoint closed (v : value) : Prop :=
  match v with
  | VStr _ | VList _ => False
  | VMap es =>
      (fix go (es : list entry) : Prop :=
         match es with [] => True | (_, x, _, _) :: es' => closed x /\ go es' end) es
  | VSeq l =>
      (fix go (l : list value) : Prop := match l with [] => True | x :: l' => closed x /\ go l' end) l
  | _ => True
  end.

Definition wf_map (es : list entry) : Prop := wf (VMap es).
Definition closed_map (es : list entry) : Prop := closed (VMap es).

Lemma wf_map_iff es :
  wf (VMap es) <-> NoDup (keys es) /\ Forall unmarked (keys es) /\ Forall (fun e => wf (e_val e)) es.
Proof.
  cbn [wf]. split; intros (H1 & H2 & H3); repeat split; try assumption; clear H1 H2.
  - induction es as [|[[[k x] c] o] es IH]; constructor; [apply H3 | apply IH, H3].
  - induction H3 as [|[[[k x] c] o] es Hx H IH]; [exact I | split; [exact Hx | exact IH]].
Qed.

Lemma wf_list_iff l : wf (VList l) <-> Forall wf l.
Proof.
  cbn [wf]. split.
  - induction l as [|x l IH]; intros H; constructor; [apply H | apply IH, H].
  - induction 1; [exact I | split; assumption].
Qed.

Lemma wf_seq_iff l : wf (VSeq l) <-> Forall wf l.
Proof. exact (wf_list_iff l). Qed.

Lemma closed_map_iff es : closed (VMap es) <-> Forall (fun e => closed (e_val e)) es.
Proof.
  cbn [closed]. split.
  - induction es as [|[[[k x] c] o] es IH]; intros H; constructor; [apply H | apply IH, H].
  - induction 1 as [|[[[k x] c] o] es Hx H IH]; [exact I | split; [exact Hx | exact IH]].
Qed.

Lemma closed_seq_iff l : closed (VSeq l) <-> Forall closed l.
Proof.
  cbn [closed]. split.
  - induction l as [|x l IH]; intros H; constructor; [apply H | apply IH, H].
  - induction 1; [exact I | split; assumption].
Qed.

Lemma nostr_map_iff es : nostr (VMap es) <-> Forall (fun e => nostr (e_val e)) es.
Proof.
  cbn [nostr]. split.
  - induction es as [|[[[k x] c] o] es IH]; intros H; constructor; [apply H | apply IH, H].
  - induction 1 as [|[[[k x] c] o] es Hx H IH]; [exact I | split; [exact Hx | exact IH]].
Qed.

Lemma nostr_list_iff l : nostr (VList l) <-> Forall nostr l.
Proof.
  cbn [nostr]. split.
  - induction l as [|x l IH]; intros H; constructor; [apply H | apply IH, H].
  - induction 1; [exact I | split; assumption].
Qed.

Lemma nostr_seq_iff l : nostr (VSeq l) <-> Forall nostr l.
Proof. exact (nostr_list_iff l). Qed.

Lemma closed_nostr : forall v, closed v -> nostr v.
Proof.
  induction v as [| | | | | es IH | vs IH | vs IH] using value_ind'; try (cbn; tauto).
  - rewrite closed_map_iff, nostr_map_iff. intros H. rewrite Forall_forall in *.
    intros e He. apply (proj2 (IH e He)), H, He.
  - rewrite closed_seq_iff, nostr_seq_iff. intros H. rewrite Forall_forall in *. intros x Hx. apply IH; auto.
Qed.

Lemma closed_top v : closed v -> is_string v = false /\ is_vlist v = false.
Proof. destruct v; cbn; tauto. Qed.

(** values stored in a well-formed mapping are well-formed *)
Lemma wf_get k es v : wf (VMap es) -> m_get k es = Some v -> wf v.
Proof.
  rewrite wf_map_iff. intros (_ & _ & H). unfold m_get.
  destruct (m_find k es) as [e|] eqn:F; [|discriminate]. intros E; injection E as <-.
  rewrite Forall_forall in H. apply H. eapply m_find_In; eauto.
Qed.

Lemma unmarked_stripped k : unmarked k -> stripped k = k /\ marker k = None.
Proof. unfold unmarked, stripped, marker. intros ->. split; reflexivity. Qed.

Lemma m_find_none_keys k es : m_find k es = None <-> ~ In k (keys es).
Proof.
  unfold keys. induction es as [|e es IH]; cbn [m_find map In]; [tauto|].
  destruct (value_eqb (e_key e) k) eqn:E.
  - apply value_eqb_eq in E. split; [discriminate | tauto].
  - apply value_eqb_neq in E. rewrite IH. tauto.
Qed.

Lemma keys_m_set k f es : (forall e, e_key e = k -> e_key (f e) = k) -> keys (m_set k f es) = keys es.
Proof. apply m_set_keys. Qed.

Lemma m_set_vals k f es (P : value -> Prop) :
  Forall (fun e => P (e_val e)) es -> (forall e, In e es -> P (e_val e) -> P (e_val (f e))) ->
  Forall (fun e => P (e_val e)) (m_set k f es).
Proof.
  intros H Hf. induction es as [|e es IH]; cbn [m_set]; [constructor|].
  inversion H as [|? ? He Hes]; subst.
  destruct (value_eqb (e_key e) k).
  - constructor; [apply Hf; [now left | assumption] | assumption].
  - constructor; [assumption|]. apply IH; [assumption|]. intros e' Hin. apply Hf. now right.
Qed.

(** * insert_impl keeps mappings well-formed when the key is unmarked *)
Lemma insert_wf es k v fc fo es' :
  wf (VMap es) -> wf v -> unmarked k -> insert_impl es k v fc fo = Ok es' -> wf (VMap es').
Proof.
  rewrite !wf_map_iff. intros (Hnd & Hum & Hv) Hwv Hk Hi.
  destruct (unmarked_stripped k Hk) as [Hs Hm].
  unfold insert_impl in Hi. rewrite strip_prefix_eta, Hs, Hm in Hi.
  destruct (m_find k es) as [e|] eqn:Hn.
  2:{ injection Hi as <-. unfold keys in *. rewrite map_app. cbn [map mk_entry e_key fst]. repeat split.
    + apply m_find_none_keys in Hn. unfold keys in Hn.
      clear - Hnd Hn. induction (map e_key es) as [|x l IH]; cbn; [constructor; [tauto | constructor]|].
      inversion Hnd; subst. constructor.
      * rewrite in_app_iff. cbn. intros [H|[H|[]]]; [tauto|]. subst. apply Hn. now left.
      * apply IH; [assumption|]. intro H. apply Hn. now right.
    + apply Forall_app. split; [assumption | constructor; [assumption | constructor]].
    + apply Forall_app. split; [assumption | constructor; [exact Hwv | constructor]].
  }
  assert (Hin : In e es) by (eapply m_find_In; eauto).
  assert (Hwe : wf (e_val e)) by (rewrite Forall_forall in Hv; auto).
  destruct (e_const e); [discriminate|].
  destruct (fo || is_pover None); injection Hi as <-.
  - rewrite keys_m_set by (intros; reflexivity). repeat split; try assumption.
    apply m_set_vals; [assumption|]. intros e0 _ _. exact Hwv.
  - rewrite keys_m_set by (intros; reflexivity). repeat split; try assumption.
    apply m_set_vals; [assumption|]. intros e0 _ _. cbn [mk_entry e_val fst snd].
    assert (Hl : Forall wf (layers_of v)).
    { destruct v; cbn [layers_of]; try (constructor; [assumption | constructor]). now apply wf_list_iff. }
    destruct (e_val e) eqn:Ev; try (apply wf_list_iff; constructor; [exact Hwe | exact Hl]).
    apply wf_list_iff. apply Forall_app. split; [now apply wf_list_iff | exact Hl].
Qed.

(* Well-formedness (clean, duplicate-free keys) and closedness (no String, no ValueList) of
   values; how insert_impl, Mapping::merge, Value::merge and flattened act on them.
   Basis of C07 (closed output), C11 (unreachable panics) and C02. *)
From RV Require Import Model.Mapping Proofs.ValueFacts Proofs.MappingFacts.

Definition unmarked (k : value) : Prop := strip_prefix k = (k, None).

Definition keys (es : list entry) : list value := map e_key es.

(** [wf v]: every mapping in a value position of [v] has duplicate-free keys without a leading
    marker (what Mapping::from produces from YAML whose keys carry at most one marker). *)
Fixpoint wf (v : value) : Prop :=
  match v with
  | VMap es =>
      NoDup (keys es) /\ Forall unmarked (keys es) /\
      (fix go (es : list entry) : Prop :=
         match es with [] => True | (_, x, _, _) :: es' => wf x /\ go es' end) es
  | VSeq l =>
      (fix go (l : list value) : Prop := match l with [] => True | x :: l' => wf x /\ go l' end) l
  | VList l =>      (* layers are never ValueLists themselves: insert_impl splices *)
      (fix go (l : list value) : Prop :=
         match l with [] => True | x :: l' => (wf x /\ is_vlist x = false) /\ go l' end) l
  | _ => True
  end.

(** [nostr v]: no unparsed String in a value position; [closed v]: additionally no ValueList. *)
Fixpoint nostr (v : value) : Prop :=
  match v with
  | VStr _ => False
  | VMap es =>
      (fix go (es : list entry) : Prop :=
         match es with [] => True | (_, x, _, _) :: es' => nostr x /\ go es' end) es
  | VSeq l | VList l =>
      (fix go (l : list value) : Prop := match l with [] => True | x :: l' => nostr x /\ go l' end) l
  | _ => True
  end.

Fixpoint closed (v : value) : Prop :=
  match v with
  | VStr _ | VList _ => False
  | VMap es =>
      (fix go (es : list entry) : Prop :=
         match es with [] => True | (_, x, _, _) :: es' => closed x /\ go es' end) es
  | VSeq l =>
      (fix go (l : list value) : Prop := match l with [] => True | x :: l' => closed x /\ go l' end) l
  | _ => True
  end.

Definition wf_map (es : list entry) : Prop := wf (VMap es).
Definition closed_map (es : list entry) : Prop := closed (VMap es).

Lemma wf_map_iff es :
  wf (VMap es) <-> NoDup (keys es) /\ Forall unmarked (keys es) /\ Forall (fun e => wf (e_val e)) es.
Proof.
  cbn [wf]. split; intros (H1 & H2 & H3); repeat split; try assumption; clear H1 H2.
  - induction es as [|[[[k x] c] o] es IH]; constructor; [apply H3 | apply IH, H3].
  - induction H3 as [|[[[k x] c] o] es Hx H IH]; [exact I | split; [exact Hx | exact IH]].
Qed.

Lemma wf_list_iff l : wf (VList l) <-> Forall (fun x => wf x /\ is_vlist x = false) l.
Proof.
  cbn [wf]. split.
  - induction l as [|x l IH]; intros H; constructor; [apply H | apply IH, H].
  - induction 1; [exact I | split; assumption].
Qed.

Lemma wf_seq_iff l : wf (VSeq l) <-> Forall wf l.
Proof.
  cbn [wf]. split.
  - induction l as [|x l IH]; intros H; constructor; [apply H | apply IH, H].
  - induction 1; [exact I | split; assumption].
Qed.

Lemma wf_list_elems l : wf (VList l) -> Forall wf l.
Proof. rewrite wf_list_iff. apply Forall_impl. tauto. Qed.

Lemma closed_map_iff es : closed (VMap es) <-> Forall (fun e => closed (e_val e)) es.
Proof.
  cbn [closed]. split.
  - induction es as [|[[[k x] c] o] es IH]; intros H; constructor; [apply H | apply IH, H].
  - induction 1 as [|[[[k x] c] o] es Hx H IH]; [exact I | split; [exact Hx | exact IH]].
Qed.

Lemma closed_seq_iff l : closed (VSeq l) <-> Forall closed l.
Proof.
  cbn [closed]. split.
  - induction l as [|x l IH]; intros H; constructor; [apply H | apply IH, H].
  - induction 1; [exact I | split; assumption].
Qed.

Lemma nostr_map_iff es : nostr (VMap es) <-> Forall (fun e => nostr (e_val e)) es.
Proof.
  cbn [nostr]. split.
  - induction es as [|[[[k x] c] o] es IH]; intros H; constructor; [apply H | apply IH, H].
  - induction 1 as [|[[[k x] c] o] es Hx H IH]; [exact I | split; [exact Hx | exact IH]].
Qed.

Lemma nostr_list_iff l : nostr (VList l) <-> Forall nostr l.
Proof.
  cbn [nostr]. split.
  - induction l as [|x l IH]; intros H; constructor; [apply H | apply IH, H].
  - induction 1; [exact I | split; assumption].
Qed.

Lemma nostr_seq_iff l : nostr (VSeq l) <-> Forall nostr l.
Proof. exact (nostr_list_iff l). Qed.

Lemma closed_nostr : forall v, closed v -> nostr v.
Proof.
  induction v as [| | | | | es IH | vs IH | vs IH] using value_ind'; try (cbn; tauto).
  - rewrite closed_map_iff, nostr_map_iff. intros H. rewrite Forall_forall in *.
    intros e He. apply (proj2 (IH e He)), H, He.
  - rewrite closed_seq_iff, nostr_seq_iff. intros H. rewrite Forall_forall in *. intros x Hx. apply IH; auto.
Qed.

Lemma closed_top v : closed v -> is_string v = false /\ is_vlist v = false.
Proof. destruct v; cbn; tauto. Qed.

(** values stored in a well-formed mapping are well-formed *)
Lemma wf_get k es v : wf (VMap es) -> m_get k es = Some v -> wf v.
Proof.
  rewrite wf_map_iff. intros (_ & _ & H). unfold m_get.
  destruct (m_find k es) as [e|] eqn:F; [|discriminate]. intros E; injection E as <-.
  rewrite Forall_forall in H. apply H. eapply m_find_In; eauto.
Qed.

Lemma unmarked_stripped k : unmarked k -> stripped k = k /\ marker k = None.
Proof. unfold unmarked, stripped, marker. intros ->. split; reflexivity. Qed.

Lemma m_find_none_keys k es : m_find k es = None <-> ~ In k (keys es).
Proof.
  unfold keys. induction es as [|e es IH]; cbn [m_find map In]; [tauto|].
  destruct (value_eqb (e_key e) k) eqn:E.
  - apply value_eqb_eq in E. split; [discriminate | tauto].
  - apply value_eqb_neq in E. rewrite IH. tauto.
Qed.

Lemma keys_m_set k f es : (forall e, e_key e = k -> e_key (f e) = k) -> keys (m_set k f es) = keys es.
Proof. apply m_set_keys. Qed.

Lemma m_set_vals k f es (P : value -> Prop) :
  Forall (fun e => P (e_val e)) es -> (forall e, In e es -> P (e_val e) -> P (e_val (f e))) ->
  Forall (fun e => P (e_val e)) (m_set k f es).
Proof.
  intros H Hf. induction es as [|e es IH]; cbn [m_set]; [constructor|].
  inversion H as [|? ? He Hes]; subst.
  destruct (value_eqb (e_key e) k).
  - constructor; [apply Hf; [now left | assumption] | assumption].
  - constructor; [assumption|]. apply IH; [assumption|]. intros e' Hin. apply Hf. now right.
Qed.

(** * insert_impl keeps mappings well-formed when the key is unmarked *)
Lemma insert_wf es k v fc fo es' :
  wf (VMap es) -> wf v -> unmarked k -> insert_impl es k v fc fo = Ok es' -> wf (VMap es').
Proof.
  rewrite !wf_map_iff. intros (Hnd & Hum & Hv) Hwv Hk Hi.
  destruct (unmarked_stripped k Hk) as [Hs Hm].
  unfold insert_impl in Hi. rewrite strip_prefix_eta, Hs, Hm in Hi.
  destruct (m_find k es) as [e|] eqn:Hn.
  2:{ injection Hi as <-. unfold keys in *. rewrite map_app. cbn [map mk_entry e_key fst]. repeat split.
    + apply m_find_none_keys in Hn. unfold keys in Hn.
      clear - Hnd Hn. induction (map e_key es) as [|x l IH]; cbn; [constructor; [tauto | constructor]|].
      inversion Hnd; subst. constructor.
      * rewrite in_app_iff. cbn. intros [H|[H|[]]]; [tauto|]. subst. apply Hn. now left.
      * apply IH; [assumption|]. intro H. apply Hn. now right.
    + apply Forall_app. split; [assumption | constructor; [assumption | constructor]].
    + apply Forall_app. split; [assumption | constructor; [exact Hwv | constructor]].
  }
  assert (Hin : In e es) by (eapply m_find_In; eauto).
  assert (Hwe : wf (e_val e)) by (rewrite Forall_forall in Hv; auto).
  destruct (e_const e); [discriminate|].
  destruct (fo || is_pover None); injection Hi as <-.
  - rewrite keys_m_set by (intros; reflexivity). repeat split; try assumption.
    apply m_set_vals; [assumption|]. intros e0 _ _. exact Hwv.
  - rewrite keys_m_set by (intros; reflexivity). repeat split; try assumption.
    apply m_set_vals; [assumption|]. intros e0 _ _. cbn [mk_entry e_val fst snd].
    assert (Hl : Forall (fun x => wf x /\ is_vlist x = false) (layers_of v)).
    { destruct v; cbn [layers_of]; try (constructor; [split; [assumption | reflexivity] | constructor]). now apply wf_list_iff. }
    destruct (e_val e) eqn:Ev; try (apply wf_list_iff; constructor; [split; [exact Hwe | reflexivity] | exact Hl]).
    apply wf_list_iff. apply Forall_app. split; [now apply wf_list_iff | exact Hl].
Qed.

(** * Mapping::merge keeps mappings well-formed *)
Lemma mapping_merge_wf o : forall m m',
  wf (VMap m) -> wf (VMap o) -> mapping_merge m o = Ok m' -> wf (VMap m').
Proof.
  unfold mapping_merge. induction o as [|e o IH]; intros m m' Hm Ho H; cbn [foldM] in H.
  - injection H as <-. exact Hm.
  - destruct (insert_impl m (e_key e) (e_val e) (e_const e) (e_over e)) as [m1| | |] eqn:Hi; cbn [bind] in H; try discriminate.
    apply wf_map_iff in Ho as (Hnd & Hum & Hv). cbn [keys map] in Hnd, Hum.
    inversion Hnd; subst. inversion Hum; subst. inversion Hv; subst.
    apply (IH m1 m'); [|apply wf_map_iff; repeat split; assumption | exact H].
    eapply insert_wf; eauto.
Qed.

Definition top_ok (v : value) : Prop := is_string v = false /\ is_vlist v = false.

Lemma merge_core_wf ck self other r :
  wf self -> wf other -> merge_core ck self other = Ok r -> wf r.
Proof.
  intros Hs Ho. destruct self as [| b | s | s | n | es | l | l]; cbn [merge_core].
  - intros H; injection H as <-; assumption.
  - destruct (is_mapping other || is_sequence other); [discriminate | intros H; injection H as <-; assumption].
  - discriminate.
  - destruct (is_mapping other || is_sequence other); [discriminate | intros H; injection H as <-; assumption].
  - destruct (is_mapping other || is_sequence other); [discriminate | intros H; injection H as <-; assumption].
  - destruct other; try discriminate. unfold rmap.
    destruct (mapping_merge es es0) as [m'| | |] eqn:E; cbn [bind]; try discriminate.
    intros H; injection H as <-. exact (mapping_merge_wf es0 es m' Hs Ho E).
  - destruct other; try discriminate. intros H; injection H as <-.
    apply wf_seq_iff. apply Forall_app. split; now apply wf_seq_iff.
  - discriminate.
Qed.

Lemma merge_core_top ck self other r :
  top_ok other -> merge_core ck self other = Ok r -> top_ok r.
Proof.
  intros Ho. destruct self as [| b | s | s | n | es | l | l]; cbn [merge_core].
  - intros H; injection H as <-; assumption.
  - destruct (is_mapping other || is_sequence other); [discriminate | intros H; injection H as <-; assumption].
  - discriminate.
  - destruct (is_mapping other || is_sequence other); [discriminate | intros H; injection H as <-; assumption].
  - destruct (is_mapping other || is_sequence other); [discriminate | intros H; injection H as <-; assumption].
  - destruct other; try discriminate. unfold rmap. destruct (mapping_merge es es0); cbn [bind]; try discriminate.
    intros H; injection H as <-. split; reflexivity.
  - destruct other; try discriminate. intros H; injection H as <-. split; reflexivity.
  - discriminate.
Qed.

(** merge_core panics only on a String / ValueList target *)
Lemma merge_core_no_panic ck self other s :
  top_ok self -> merge_core ck self other <> Panic s.
Proof.
  intros [H1 H2]. destruct self as [| b | s0 | s0 | n | es | l | l]; cbn in *; try discriminate.
  - destruct (is_mapping other || is_sequence other); discriminate.
  - destruct (is_mapping other || is_sequence other); discriminate.
  - destruct (is_mapping other || is_sequence other); discriminate.
  - destruct other; try discriminate. unfold rmap.
    destruct (merge_total es0 es) as [[m' ->] | [k ->]]; cbn; discriminate.
  - destruct other; discriminate.
Qed.

(** * flattened *)
Lemma flattened_list_fold ck l : forall base,
  flattened ck (VList l) = Ok base -> True.
Proof. trivial. Qed.

(** the loop of flattened on a ValueList, as a top-level function *)
Fixpoint flat_fold (ck : string) (l : list value) (base : value) : res value :=
  match l with
  | [] => Ok base
  | x :: xs =>
      b' <- (if is_null x then Ok VNull
             else x' <- (match x with VList _ => flattened ck x | _ => Ok x end) ;;
                  merge_core ck base x') ;;
      flat_fold ck xs b'
  end.

Lemma flattened_vlist ck l : flattened ck (VList l) = flat_fold ck l VNull.
Proof.
  cbn [flattened]. generalize VNull at 2 3. induction l as [|x l IH]; intros base; cbn [flat_fold]; [reflexivity|].
  destruct (is_null x); cbn [bind]; [apply IH|].
  destruct (match x with VList _ => flattened ck x | _ => Ok x end); cbn [bind]; try reflexivity.
  destruct (merge_core ck base a); cbn [bind]; try reflexivity. apply IH.
Qed.

Fixpoint flat_entries (ck : string) (es : list entry) (acc : mapping) : res mapping :=
  match es with
  | [] => Ok acc
  | (k, v, c, o) :: es' =>
      fv <- flattened ck v ;;
      acc' <- insert_impl acc k fv c o ;;
      flat_entries ck es' acc'
  end.

Lemma flattened_vmap ck es : flattened ck (VMap es) = rmap VMap (flat_entries ck es []).
Proof.
  cbn [flattened]. f_equal. generalize (@nil entry). induction es as [|[[[k v] c] o] es IH]; intros acc; cbn [flat_entries]; [reflexivity|].
  destruct (flattened ck v); cbn [bind]; try reflexivity.
  destruct (insert_impl acc k a c o); cbn [bind]; try reflexivity. apply IH.
Qed.

Fixpoint flat_seq (ck : string) (s : list value) : res (list value) :=
  match s with
  | [] => Ok []
  | x :: xs => y <- flattened ck x ;; ys <- flat_seq ck xs ;; Ok (y :: ys)
  end.

Lemma flattened_vseq ck s : flattened ck (VSeq s) = rmap VSeq (flat_seq ck s).
Proof.
  cbn [flattened]. f_equal. induction s as [|x s IH]; cbn [flat_seq]; [reflexivity|].
  destruct (flattened ck x); cbn [bind]; try reflexivity. rewrite IH. reflexivity.
Qed.

(** flattening closed, well-formed data is the identity *)
Lemma flattened_closed_id ck : forall v, closed v -> wf v -> flattened ck v = Ok v.
Proof.
  induction v as [| | | | | es IH | vs IH | vs IH] using value_ind'; intros Hc Hw; try reflexivity; try (destruct Hc).
  - rewrite flattened_vmap.
    apply closed_map_iff in Hc. apply wf_map_iff in Hw as (Hnd & Hum & Hv).
    assert (G : forall acc, NoDup (keys acc ++ keys es) -> flat_entries ck es acc = Ok (acc ++ es)).
    { clear Hnd. induction es as [|[[[k v] c] o] es IHes]; intros acc Hn; cbn [flat_entries]; [now rewrite app_nil_r|].
      inversion IH as [|? ? [_ Hx] IHr]; subst. inversion Hc; subst. inversion Hv; subst. inversion Hum; subst.
      cbn [e_val fst snd] in *. rewrite Hx by assumption. cbn [bind].
      assert (Ha : m_find (stripped k) acc = None).
      { destruct (unmarked_stripped k) as [-> _]; [assumption|]. apply m_find_none_keys.
        cbn [keys map e_key fst] in Hn. apply NoDup_remove_2 in Hn. intros Hin. apply Hn, in_or_app. now left. }
      rewrite (insert_absent _ _ _ _ _ Ha). cbn [bind].
      destruct (unmarked_stripped k) as [-> ->]; [assumption|]. cbn [is_pconst is_pover orb].
      rewrite IHes; try assumption.
      - now rewrite <- app_assoc.
      - unfold keys in *. rewrite map_app, <- app_assoc. exact Hn. }
    rewrite (G []); [reflexivity | exact Hnd].
  - rewrite flattened_vseq. apply closed_seq_iff in Hc. apply wf_seq_iff in Hw.
    assert (G : flat_seq ck vs = Ok vs).
    { induction vs as [|x vs IHvs]; [reflexivity|]. cbn [flat_seq].
      inversion IH; subst. inversion Hc; subst. inversion Hw; subst.
      rewrite H1 by assumption. cbn [bind]. rewrite IHvs by assumption. reflexivity. }
    now rewrite G.
Qed.

(** flattened keeps well-formedness, never yields a ValueList at the top, and a String only
    from a String *)
Lemma flattened_wf ck : forall v v', wf v -> flattened ck v = Ok v' -> wf v' /\ is_vlist v' = false.
Proof.
  induction v as [| | | | | es IH | vs IH | vs IH] using value_ind'; intros v' Hw H;
    try (cbn in H; injection H as <-; split; [exact I | reflexivity]); try discriminate.
  - rewrite flattened_vmap in H. unfold rmap in H.
    destruct (flat_entries ck es []) as [m'| | |] eqn:E; cbn [bind] in H; try discriminate.
    injection H as <-. split; [|reflexivity].
    apply wf_map_iff in Hw as (Hnd & Hum & Hv).
    assert (G : forall es' acc m2, (forall e, In e es' -> In e es) -> Forall unmarked (keys es') -> wf (VMap acc) ->
                flat_entries ck es' acc = Ok m2 -> wf (VMap m2)).
    { induction es' as [|[[[k v] c] o] es' IHes]; intros acc m2 Hsub Hum' Ha H; cbn [flat_entries] in H.
      - injection H as <-; exact Ha.
      - destruct (flattened ck v) as [fv| | |] eqn:Ef; cbn [bind] in H; try discriminate.
        destruct (insert_impl acc k fv c o) as [acc'| | |] eqn:Ei; cbn [bind] in H; try discriminate.
        assert (Hin : In (k, v, c, o) es) by (apply Hsub; now left).
        rewrite Forall_forall in IH, Hv. destruct (IH _ Hin) as [_ Hx]. cbn [e_val fst snd] in Hx.
        inversion Hum' as [|? ? Hk Hum'']; subst.
        apply (IHes acc' m2); [intros; apply Hsub; now right | exact Hum'' | | exact H].
        eapply insert_wf; [exact Ha | apply (Hx fv); [apply (Hv _ Hin) | exact Ef] | exact Hk | exact Ei]. }
    apply (G es [] m'); [auto | exact Hum | | exact E]. apply wf_map_iff. repeat split; constructor.
  - rewrite flattened_vseq in H. unfold rmap in H.
    destruct (flat_seq ck vs) as [l| | |] eqn:E; cbn [bind] in H; try discriminate.
    injection H as <-. split; [|reflexivity]. apply wf_seq_iff. apply wf_seq_iff in Hw.
    revert l E. induction vs as [|x vs IHvs]; intros l E; cbn [flat_seq] in E; [injection E as <-; constructor|].
    inversion IH as [|? ? Hx IHr]; subst. inversion Hw as [|? ? Hwx Hwr]; subst.
    destruct (flattened ck x) as [y| | |] eqn:Ey; cbn [bind] in E; try discriminate.
    destruct (flat_seq ck vs) as [ys| | |] eqn:Eys; cbn [bind] in E; try discriminate.
    injection E as <-. constructor; [apply (proj1 (Hx y Hwx eq_refl)) | apply IHvs; auto].
  - rewrite flattened_vlist in H. apply wf_list_elems in Hw.
    assert (G : forall base r, wf base -> is_vlist base = false -> flat_fold ck vs base = Ok r -> wf r /\ is_vlist r = false).
    { clear H. induction vs as [|x vs IHvs]; intros base r Hb Hbl Hf; cbn [flat_fold] in Hf; [injection Hf as <-; split; assumption|].
      inversion IH as [|? ? Hx IHr]; subst. inversion Hw as [|? ? Hwx Hwr]; subst.
      destruct (is_null x) eqn:En; cbn [bind] in Hf.
      - apply (IHvs IHr Hwr VNull r); [exact I | reflexivity | exact Hf].
      - destruct (match x with VList _ => flattened ck x | _ => Ok x end) as [x'| | |] eqn:Ex; cbn [bind] in Hf; try discriminate.
        assert (Hx' : wf x' /\ is_vlist x' = false).
        { destruct x; try (injection Ex as <-; split; [assumption | reflexivity]). apply (Hx x'); assumption. }
        destruct (merge_core ck base x') as [b'| | |] eqn:Em; cbn [bind] in Hf; try discriminate.
        apply (IHvs IHr Hwr b' r); [eapply merge_core_wf; [exact Hb | apply Hx' | exact Em] | | exact Hf].
        destruct Hx' as [_ Hxl]. clear - Em Hbl Hxl.
        destruct base; cbn [merge_core] in Em; try discriminate;
          try (injection Em as <-; assumption);
          try (destruct (is_mapping x' || is_sequence x'); [discriminate | injection Em as <-; assumption]).
        + destruct x'; try discriminate. unfold rmap in Em. destruct (mapping_merge es es0); cbn in Em; try discriminate. now injection Em as <-.
        + destruct x'; try discriminate. now injection Em as <-. }
    apply (G VNull v'); [exact I | reflexivity | exact H].
Qed.

Lemma value_merge_wf ck self other r :
  wf self -> wf other -> value_merge ck self other = Ok r -> wf r.
Proof.
  intros Hs Ho. unfold value_merge. destruct (is_null other); [intros H; injection H as <-; exact I|].
  destruct (is_vlist other) eqn:El.
  - destruct (flattened ck other) as [o'| | |] eqn:Ef; cbn [bind]; try discriminate.
    intros H. destruct (flattened_wf ck other o' Ho Ef) as [Ho' _].
    exact (merge_core_wf ck self o' r Hs Ho' H).
  - cbn [bind]. intros H. exact (merge_core_wf ck self other r Hs Ho H).
Qed.

Lemma value_merge_top ck self other r :
  top_ok other -> value_merge ck self other = Ok r -> top_ok r.
Proof.
  intros [Hs Hl]. unfold value_merge. destruct (is_null other); [intros H; injection H as <-; split; reflexivity|].
  rewrite Hl. cbn [bind]. apply merge_core_top. split; assumption.
Qed.

Lemma value_merge_no_panic ck self other s :
  top_ok self -> top_ok other -> value_merge ck self other <> Panic s.
Proof.
  intros Hs [_ Hl]. unfold value_merge. destruct (is_null other); [discriminate|]. rewrite Hl. cbn [bind].
  apply merge_core_no_panic, Hs.
Qed.

(** flattening a ValueList whose layers are neither Strings nor ValueLists: never a panic, and
    the result is neither a String nor a ValueList *)
Lemma flat_fold_layers ck : forall l base,
  Forall (fun x => wf x /\ top_ok x) l -> top_ok base ->
  (forall s, flat_fold ck l base <> Panic s) /\
  (forall r, flat_fold ck l base = Ok r -> top_ok r).
Proof.
  induction l as [|x l IH]; intros base Hl Hb; cbn [flat_fold].
  - split; [discriminate | intros r H; injection H as <-; exact Hb].
  - inversion Hl as [|? ? [Hx [Hxs Hxl]] Hl']; subst.
    destruct (is_null x) eqn:En; cbn [bind].
    + apply IH; [exact Hl' | split; reflexivity].
    + assert (Ex : match x with VList _ => flattened ck x | _ => Ok x end = Ok x).
      { destruct x; try reflexivity. discriminate. }
      rewrite Ex. cbn [bind].
      destruct (merge_core ck base x) as [b'| | |] eqn:Em; cbn [bind].
      * apply IH; [exact Hl' | eapply merge_core_top; [split; eassumption | exact Em]].
      * split; discriminate.
      * exfalso. eapply merge_core_no_panic; [exact Hb | exact Em].
      * split; discriminate.
Qed.

Lemma flattened_layers ck l :
  Forall (fun x => wf x /\ top_ok x) l ->
  (forall s, flattened ck (VList l) <> Panic s) /\
  (forall r, flattened ck (VList l) = Ok r -> top_ok r).
Proof. intros H. rewrite flattened_vlist. apply flat_fold_layers; [exact H | split; reflexivity]. Qed.

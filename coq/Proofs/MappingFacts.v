(* Local laws of Mapping::insert_impl and Mapping::merge (C09, C10; used by C02, C07). *)
From RV Require Import Model.Mapping Proofs.ValueFacts.

Definition stripped (k : value) : value := fst (strip_prefix k).
Definition marker (k : value) : option prefix := snd (strip_prefix k).

Lemma strip_prefix_eta k : strip_prefix k = (stripped k, marker k).
Proof. unfold stripped, marker. destruct (strip_prefix k); reflexivity. Qed.

Lemma m_find_key k m e : m_find k m = Some e -> e_key e = k.
Proof.
  induction m as [|x m IH]; cbn [m_find]; [discriminate|].
  destruct (value_eqb (e_key x) k) eqn:E.
  - intros H; injection H as <-. now apply value_eqb_eq.
  - exact IH.
Qed.

Lemma m_find_In k m e : m_find k m = Some e -> In e m.
Proof.
  induction m as [|x m IH]; cbn [m_find]; [discriminate|].
  destruct (value_eqb (e_key x) k); [intros H; injection H as <-; now left | intros H; right; auto].
Qed.

Lemma m_find_app k m l :
  m_find k (m ++ l) = match m_find k m with Some e => Some e | None => m_find k l end.
Proof.
  induction m as [|x m IH]; cbn [m_find app]; [reflexivity|].
  destruct (value_eqb (e_key x) k); [reflexivity | exact IH].
Qed.

Lemma m_find_set_same k f m e :
  m_find k m = Some e -> e_key (f e) = k -> m_find k (m_set k f m) = Some (f e).
Proof.
  intros H Hk. induction m as [|x m IH]; cbn [m_find m_set] in *; [discriminate|].
  destruct (value_eqb (e_key x) k) eqn:E.
  - injection H as <-. cbn [m_find]. rewrite Hk, value_eqb_refl. reflexivity.
  - cbn [m_find]. rewrite E. apply IH, H.
Qed.

Lemma m_find_set_other k k2 f m :
  k2 <> k -> (forall e, e_key e = k -> e_key (f e) = k) -> m_find k2 (m_set k f m) = m_find k2 m.
Proof.
  intros Hne Hf. induction m as [|x m IH]; cbn [m_find m_set]; [reflexivity|].
  destruct (value_eqb (e_key x) k) eqn:E.
  - apply value_eqb_eq in E. cbn [m_find]. rewrite (Hf x E).
    assert (value_eqb k k2 = false) as -> by (apply value_eqb_neq; congruence).
    rewrite E. assert (value_eqb k k2 = false) as -> by (apply value_eqb_neq; congruence). reflexivity.
  - cbn [m_find]. destruct (value_eqb (e_key x) k2); [reflexivity | exact IH].
Qed.

(** m_set keeps the keys and their order *)
Lemma m_set_keys k f m :
  (forall e, e_key e = k -> e_key (f e) = k) -> map e_key (m_set k f m) = map e_key m.
Proof.
  intros Hf. induction m as [|x m IH]; cbn [m_set map]; [reflexivity|].
  destruct (value_eqb (e_key x) k) eqn:E.
  - apply value_eqb_eq in E. cbn [map]. now rewrite (Hf x E), E.
  - cbn [map]. now rewrite IH.
Qed.

(** * insert_impl, case by case *)
Lemma insert_absent m k v fc fo :
  m_find (stripped k) m = None ->
  insert_impl m k v fc fo =
    Ok (m ++ [mk_entry (stripped k) v (is_pconst (marker k) || fc) (is_pover (marker k) || fo)]).
Proof. intros H. unfold insert_impl. rewrite strip_prefix_eta, H. reflexivity. Qed.

(** C09: a present constant key rejects every write, whatever the value, marker or force flags *)
Lemma insert_const_rejects m k v fc fo e :
  m_find (stripped k) m = Some e -> e_const e = true ->
  insert_impl m k v fc fo = Err (EConst (stripped k)).
Proof. intros H Hc. unfold insert_impl. rewrite strip_prefix_eta, H, Hc. reflexivity. Qed.

(** C10: an override (marker or force flag) on a present, non-constant key replaces the value in place *)
Lemma insert_override_replaces m k v fc fo e :
  m_find (stripped k) m = Some e -> e_const e = false ->
  fo || is_pover (marker k) = true ->
  insert_impl m k v fc fo =
    Ok (m_set (stripped k) (fun e => mk_entry (stripped k) v (fc || is_pconst (marker k)) (e_over e)) m).
Proof. intros H Hc Ho. unfold insert_impl. rewrite strip_prefix_eta, H, Hc, Ho. reflexivity. Qed.

(** plain write on a present, non-constant key: the value joins the key's layer list *)
Lemma insert_appends m k v fc fo e :
  m_find (stripped k) m = Some e -> e_const e = false ->
  fo || is_pover (marker k) = false ->
  insert_impl m k v fc fo =
    Ok (m_set (stripped k)
          (fun e0 => mk_entry (stripped k)
                       (match e_val e with
                        | VList l => VList (l ++ layers_of v)
                        | _ => VList (e_val e :: layers_of v)
                        end) (fc || is_pconst (marker k)) (e_over e0)) m).
Proof. intros H Hc Ho. unfold insert_impl. rewrite strip_prefix_eta, H, Hc, Ho. reflexivity. Qed.

Lemma insert_ok_cases m k v fc fo m' :
  insert_impl m k v fc fo = Ok m' ->
  (m_find (stripped k) m = None /\
   m' = m ++ [mk_entry (stripped k) v (is_pconst (marker k) || fc) (is_pover (marker k) || fo)])
  \/ (exists e f, m_find (stripped k) m = Some e /\ e_const e = false /\
                  m' = m_set (stripped k) f m /\ (forall e0, e_key (f e0) = stripped k) /\
                  (forall e0, e_over (f e0) = e_over e0)).
Proof.
  unfold insert_impl. rewrite strip_prefix_eta.
  destruct (m_find (stripped k) m) as [e|] eqn:Hf.
  - destruct (e_const e) eqn:Hc; [discriminate|].
    destruct (fo || is_pover (marker k)); intros H; injection H as <-; right; eexists e, _;
      (split; [reflexivity|]; split; [exact Hc|]; split; [reflexivity|]; split; intros; reflexivity).
  - intros H; injection H as <-. left. split; reflexivity.
Qed.

(** C09 / C10: a write to one key never touches another key's entry (value, flags) ... *)
Lemma insert_other_key m k v fc fo m' k2 :
  insert_impl m k v fc fo = Ok m' -> k2 <> stripped k -> m_find k2 m' = m_find k2 m.
Proof.
  intros H Hne. apply insert_ok_cases in H as [[Hn ->] | (e & f & Hf & Hc & -> & Hk & _)].
  - rewrite m_find_app. destruct (m_find k2 m); [reflexivity|]. cbn [m_find mk_entry e_key fst].
    assert (value_eqb (stripped k) k2 = false) as -> by (apply value_eqb_neq; congruence). reflexivity.
  - apply m_find_set_other; [assumption | intros; apply Hk].
Qed.

(** ... and never changes the order of the keys already present (new keys go last) *)
Lemma insert_keys m k v fc fo m' :
  insert_impl m k v fc fo = Ok m' ->
  map e_key m' = map e_key m \/ map e_key m' = map e_key m ++ [stripped k].
Proof.
  intros H. apply insert_ok_cases in H as [[Hn ->] | (e & f & Hf & Hc & -> & Hk & _)].
  - right. rewrite map_app. reflexivity.
  - left. apply m_set_keys. intros; apply Hk.
Qed.

(** * Mapping::merge *)
(** C09: a constant key of the target survives any successful merge unchanged, and the merged
    mapping did not write it. *)
Lemma merge_preserves_const o : forall m m' k e,
  mapping_merge m o = Ok m' -> m_find k m = Some e -> e_const e = true ->
  m_find k m' = Some e /\ Forall (fun e' => stripped (e_key e') <> k) o.
Proof.
  unfold mapping_merge. induction o as [|x o IH]; cbn [foldM]; intros m m' k e H Hf Hc.
  - injection H as <-. split; [assumption | constructor].
  - destruct (insert_impl m (e_key x) (e_val x) (e_const x) (e_over x)) as [m1| | |] eqn:Hi; cbn [bind] in H; try discriminate.
    assert (Hne : stripped (e_key x) <> k).
    { intros <-. rewrite (insert_const_rejects _ _ _ _ _ _ Hf Hc) in Hi. discriminate. }
    assert (Hf1 : m_find k m1 = Some e) by (rewrite (insert_other_key _ _ _ _ _ _ _ Hi); [assumption | congruence]).
    destruct (IH _ _ _ _ H Hf1 Hc) as [Hr Hall]. split; [assumption | constructor; assumption].
Qed.

(** C09: conversely, a merged mapping that writes a constant key of the target fails, naming it *)
Lemma merge_const_conflict o : forall m k e,
  m_find k m = Some e -> e_const e = true ->
  Exists (fun e' => stripped (e_key e') = k) o ->
  exists k', mapping_merge m o = Err (EConst k').
Proof.
  unfold mapping_merge. induction o as [|x o IH]; intros m k e Hf Hc Hex; [inversion Hex|].
  cbn [foldM].
  destruct (insert_impl m (e_key x) (e_val x) (e_const x) (e_over x)) as [m1|er| |] eqn:Hi; cbn [bind].
  - destruct (value_eqb (stripped (e_key x)) k) eqn:E.
    + apply value_eqb_eq in E. subst k. rewrite (insert_const_rejects _ _ _ _ _ _ Hf Hc) in Hi. discriminate.
    + apply value_eqb_neq in E. inversion Hex as [? ? Hx | ? ? Hx]; subst; [congruence|].
      apply (IH m1 k e); [|assumption|assumption].
      rewrite (insert_other_key _ _ _ _ _ _ _ Hi); [assumption | congruence].
  - unfold insert_impl in Hi. rewrite strip_prefix_eta in Hi.
    destruct (m_find (stripped (e_key x)) m) as [e0|]; [|discriminate].
    destruct (e_const e0); [injection Hi as <-; eexists; reflexivity|].
    destruct (e_over x || is_pover (marker (e_key x))); discriminate.
  - unfold insert_impl in Hi. rewrite strip_prefix_eta in Hi.
    destruct (m_find (stripped (e_key x)) m) as [e0|]; [|discriminate].
    destruct (e_const e0); [discriminate|]. destruct (e_over x || is_pover (marker (e_key x))); discriminate.
  - unfold insert_impl in Hi. rewrite strip_prefix_eta in Hi.
    destruct (m_find (stripped (e_key x)) m) as [e0|]; [|discriminate].
    destruct (e_const e0); [discriminate|]. destruct (e_over x || is_pover (marker (e_key x))); discriminate.
Qed.

(** insert_impl never panics and never runs out of fuel: only Ok or EConst *)
Lemma insert_total m k v fc fo :
  (exists m', insert_impl m k v fc fo = Ok m') \/ insert_impl m k v fc fo = Err (EConst (stripped k)).
Proof.
  unfold insert_impl. rewrite strip_prefix_eta.
  destruct (m_find (stripped k) m) as [e|]; [|left; eexists; reflexivity].
  destruct (e_const e); [right; reflexivity|].
  destruct (fo || is_pover (marker k)); left; eexists; reflexivity.
Qed.

Lemma merge_total o : forall m,
  (exists m', mapping_merge m o = Ok m') \/ (exists k, mapping_merge m o = Err (EConst k)).
Proof.
  unfold mapping_merge. induction o as [|x o IH]; intros m; cbn [foldM]; [left; eexists; reflexivity|].
  destruct (insert_total m (e_key x) (e_val x) (e_const x) (e_over x)) as [[m1 ->] | ->]; cbn [bind].
  - apply IH.
  - right. eexists; reflexivity.
Qed.

(* C08: rendering always comes back.  For every well-formed parameter mapping [root], every
   well-formed value and every resolution state there is a fuel with which the interpreter
   returns a value or an error (never OutOfFuel); by fuel monotonicity every larger fuel returns
   the same.  Since fuel is the model's only bound on the call depth, this is termination of
   Value::interpolate / Token::render / Token::resolve on all inputs, cyclic reference graphs
   included.

   Measure: the reference nesting budget (64 - depth of the state) decreases at every
   Token::resolve of a reference; at a fixed budget the recursion is structural on tokens and on
   values, except that a ValueList's merged result is interpolated again.  That result is built
   from rendered (closed) layers, so it holds no String, and on String-free values the
   interpreter descends on the measure 2 * (mapping/sequence depth) + (1 for a ValueList),
   which merging does not increase. *)
From RV Require Import Model.Interp Proofs.ValueFacts Proofs.MappingFacts Proofs.WfFacts Proofs.InterpFacts
     Proofs.StateFacts Proofs.Mono Proofs.ParserFacts Proofs.NoPanic.

(** * depth of mappings and sequences; a ValueList costs nothing *)
Fixpoint lmax (l : list nat) : nat := match l with [] => 0 | x :: l' => Nat.max x (lmax l') end.

Lemma lmax_le l n : lmax l <= n <-> Forall (fun x => x <= n) l.
Proof.
  induction l as [|x l IH]; cbn [lmax].
  - split; [constructor | lia].
  - split.
    + intros H. constructor; [lia | apply IH; lia].
    + intros H. inversion H as [|? ? Hx Hl]; subst. apply IH in Hl. lia.
Qed.

Lemma lmax_app a b : lmax (a ++ b) = Nat.max (lmax a) (lmax b).
Proof. induction a as [|x a IH]; cbn [lmax app]; [reflexivity | rewrite IH; lia]. Qed.

Fixpoint md (v : value) : nat :=
  match v with
  | VMap es => S ((fix go (es : list entry) : nat :=
                     match es with [] => 0 | (_, x, _, _) :: es' => Nat.max (md x) (go es') end) es)
  | VSeq l => S ((fix go (l : list value) : nat := match l with [] => 0 | x :: l' => Nat.max (md x) (go l') end) l)
  | VList l => (fix go (l : list value) : nat := match l with [] => 0 | x :: l' => Nat.max (md x) (go l') end) l
  | _ => 0
  end.

Definition mdl (l : list value) : nat := lmax (map md l).

Lemma md_seq l : md (VSeq l) = S (mdl l).
Proof. cbn [md]. f_equal. induction l as [|x l IH]; [reflexivity|]. unfold mdl in *. cbn [map lmax]. now rewrite IH. Qed.
Lemma md_list l : md (VList l) = mdl l.
Proof. cbn [md]. induction l as [|x l IH]; [reflexivity|]. unfold mdl in *. cbn [map lmax]. now rewrite IH. Qed.
Lemma md_map es : md (VMap es) = S (mdl (map e_val es)).
Proof.
  cbn [md]. f_equal. induction es as [|[[[k x] c] o] es IH]; [reflexivity|]. unfold mdl in *. cbn [map lmax e_val fst snd]. now rewrite IH.
Qed.

(** [PB B v]: no String anywhere in [v], depth at most [B] *)
Definition PB (B : nat) (v : value) : Prop := nostr v /\ md v <= B.

Lemma PB_list B l : PB B (VList l) <-> Forall (PB B) l.
Proof.
  unfold PB. rewrite nostr_list_iff, md_list. unfold mdl. rewrite lmax_le, Forall_map.
  rewrite !Forall_forall. firstorder.
Qed.

Lemma PB_seq B l : PB (S B) (VSeq l) <-> Forall (PB B) l.
Proof.
  unfold PB. rewrite nostr_seq_iff, md_seq. unfold mdl.
  split.
  - intros [Hn Hm]. assert (Hm' : lmax (map md l) <= B) by lia. rewrite lmax_le, Forall_map in Hm'.
    rewrite Forall_forall in *. firstorder.
  - intros H. split; [rewrite Forall_forall in *; firstorder|].
    assert (lmax (map md l) <= B); [|lia]. rewrite lmax_le, Forall_map. rewrite Forall_forall in *. firstorder.
Qed.

Lemma PB_map B es : PB (S B) (VMap es) <-> Forall (fun e => PB B (e_val e)) es.
Proof.
  unfold PB. rewrite nostr_map_iff, md_map. unfold mdl.
  split.
  - intros [Hn Hm]. assert (Hm' : lmax (map md (map e_val es)) <= B) by lia. rewrite lmax_le, !Forall_map in Hm'.
    rewrite Forall_forall in *. firstorder.
  - intros H. split; [rewrite Forall_forall in *; firstorder|].
    assert (lmax (map md (map e_val es)) <= B); [|lia]. rewrite lmax_le, !Forall_map. rewrite Forall_forall in *. firstorder.
Qed.

Lemma PB_zero_container B v : PB B v -> (is_mapping v || is_sequence v = true) -> exists B', B = S B'.
Proof.
  intros [_ Hm] Hc. destruct v; try discriminate.
  - rewrite md_map in Hm. destruct B; [lia | eexists; reflexivity].
  - rewrite md_seq in Hm. destruct B; [lia | eexists; reflexivity].
Qed.

Lemma PB_mono B B' v : B <= B' -> PB B v -> PB B' v.
Proof. intros Hle [Hn Hm]. split; [exact Hn | lia]. Qed.

Lemma PB_layers B v : PB B v -> Forall (PB B) (layers_of v).
Proof.
  intros H. destruct v; cbn [layers_of]; try (constructor; [exact H | constructor]).
  now apply PB_list.
Qed.

Lemma insert_PB B m k v fc fo m' :
  Forall (fun e => PB B (e_val e)) m -> PB B v -> insert_impl m k v fc fo = Ok m' ->
  Forall (fun e => PB B (e_val e)) m'.
Proof.
  intros Hm Hv. unfold insert_impl. destruct (strip_prefix k) as [k' p].
  destruct (m_find k' m) as [e|] eqn:Hf.
  - destruct (e_const e); [discriminate|].
    assert (He : PB B (e_val e)).
    { apply m_find_In in Hf. rewrite Forall_forall in Hm. apply Hm, Hf. }
    destruct (fo || is_pover p); intros H; injection H as <-.
    + apply (m_set_vals k' _ m (PB B) Hm). intros e0 _ _. exact Hv.
    + apply (m_set_vals k' _ m (PB B) Hm). intros e0 _ _. cbn [mk_entry e_val fst snd].
      destruct (e_val e) eqn:Eo; apply PB_list;
        try (constructor; [exact He | apply PB_layers, Hv]).
      apply Forall_app. split; [apply PB_list, He | apply PB_layers, Hv].
  - intros H; injection H as <-. apply Forall_app. split; [exact Hm | constructor; [exact Hv | constructor]].
Qed.

Lemma merge_PB B : forall o m m',
  Forall (fun e => PB B (e_val e)) m -> Forall (fun e => PB B (e_val e)) o -> mapping_merge m o = Ok m' ->
  Forall (fun e => PB B (e_val e)) m'.
Proof.
  unfold mapping_merge. induction o as [|e o IH]; intros m m' Hm Ho H; cbn [foldM] in H; [injection H as <-; exact Hm|].
  inversion Ho as [|? ? He Ho']; subst.
  destruct (insert_impl m (e_key e) (e_val e) (e_const e) (e_over e)) as [m1| | |] eqn:Hi; cbn [bind] in H; try discriminate.
  apply (IH m1 m'); [exact (insert_PB B _ _ _ _ _ _ Hm He Hi) | exact Ho' | exact H].
Qed.

Lemma value_merge_PB B ck r iv r' :
  PB B r -> PB B iv -> is_vlist iv = false -> value_merge ck r iv = Ok r' -> PB B r'.
Proof.
  intros Hr Hi Hl. unfold value_merge. destruct (is_null iv); [intros H; injection H as <-; split; [exact I | cbn; lia]|].
  rewrite Hl. cbn [bind].
  destruct r as [| b | s | s | n | es | l | l]; cbn [merge_core].
  - intros H; injection H as <-; exact Hi.
  - destruct (is_mapping iv || is_sequence iv); [discriminate | intros H; injection H as <-; exact Hi].
  - discriminate.
  - destruct (is_mapping iv || is_sequence iv); [discriminate | intros H; injection H as <-; exact Hi].
  - destruct (is_mapping iv || is_sequence iv); [discriminate | intros H; injection H as <-; exact Hi].
  - destruct iv as [| | | | | o | |]; try discriminate. unfold rmap.
    destruct (mapping_merge es o) as [m'| | |] eqn:E; cbn [bind]; try discriminate. intros H; injection H as <-.
    destruct (PB_zero_container B (VMap es) Hr eq_refl) as [B' ->].
    apply PB_map. apply PB_map in Hr. apply PB_map in Hi. exact (merge_PB B' o es m' Hr Hi E).
  - destruct iv as [| | | | | | o |]; try discriminate. intros H; injection H as <-.
    destruct (PB_zero_container B (VSeq l) Hr eq_refl) as [B' ->].
    apply PB_seq. apply PB_seq in Hr. apply PB_seq in Hi. apply Forall_app. split; assumption.
  - discriminate.
Qed.

(** * the merge machinery needs no fuel *)
Lemma insert_nofuel m k v fc fo : insert_impl m k v fc fo <> OutOfFuel.
Proof. destruct (insert_total m k v fc fo) as [[m' ->] | ->]; discriminate. Qed.

Lemma mapping_merge_nofuel m o : mapping_merge m o <> OutOfFuel.
Proof. destruct (merge_total o m) as [[m' ->] | [k ->]]; discriminate. Qed.

Lemma merge_core_nofuel ck a b : merge_core ck a b <> OutOfFuel.
Proof.
  destruct a; cbn [merge_core]; try discriminate; try (destruct (_ || _); discriminate).
  - destruct b; try discriminate. unfold rmap. pose proof (mapping_merge_nofuel es es0). destruct (mapping_merge es es0); cbn [bind]; congruence.
  - destruct b; discriminate.
Qed.

Lemma flattened_nofuel ck : forall v, flattened ck v <> OutOfFuel.
Proof.
  induction v as [| | | | | es IHv | vs IHv | vs IHv] using value_ind'; try discriminate.
  - rewrite flattened_vmap. unfold rmap.
    assert (G : forall acc, flat_entries ck es acc <> OutOfFuel).
    { induction es as [|[[[k0 x] c] o] es IHes]; intros acc; cbn [flat_entries]; [discriminate|].
      inversion IHv as [|? ? [_ Hx] Hr]; subst. cbn [e_val fst snd] in Hx.
      destruct (flattened ck x) as [fx| | |]; cbn [bind]; try discriminate; [|congruence].
      pose proof (insert_nofuel acc k0 fx c o). destruct (insert_impl acc k0 fx c o); cbn [bind]; try discriminate; [|congruence].
      apply IHes, Hr. }
    specialize (G []). destruct (flat_entries ck es []); cbn [bind]; congruence.
  - rewrite flattened_vseq. unfold rmap.
    assert (G : flat_seq ck vs <> OutOfFuel).
    { induction vs as [|x vs IHvs]; cbn [flat_seq]; [discriminate|]. inversion IHv as [|? ? Hx Hr]; subst.
      destruct (flattened ck x); cbn [bind]; try discriminate; [|congruence].
      specialize (IHvs Hr). destruct (flat_seq ck vs); cbn [bind]; congruence. }
    destruct (flat_seq ck vs); cbn [bind]; congruence.
  - rewrite flattened_vlist. generalize VNull.
    induction vs as [|x vs IHvs]; intros base; cbn [flat_fold]; [discriminate|]. inversion IHv as [|? ? Hx Hr]; subst.
    destruct (is_null x); cbn [bind]; [apply IHvs, Hr|].
    assert (G : forall y, (x' <- y ;; merge_core ck base x') <> OutOfFuel \/ y = OutOfFuel).
    { intros y. destruct y; cbn [bind]; try (left; discriminate); [left; apply merge_core_nofuel | right; reflexivity]. }
    destruct x; cbn [bind];
      try (pose proof (merge_core_nofuel ck base) as Hmc;
           match goal with |- context [merge_core ck base ?o] => specialize (Hmc o); destruct (merge_core ck base o); cbn [bind]; try discriminate; [apply IHvs, Hr | congruence] end).
    destruct (flattened ck (VList vs0)) as [fx| | |]; cbn [bind]; try discriminate; [|congruence].
    pose proof (merge_core_nofuel ck base fx) as Hmc. destruct (merge_core ck base fx); cbn [bind]; try discriminate; [apply IHvs, Hr | congruence].
Qed.

Lemma value_merge_nofuel ck a b : value_merge ck a b <> OutOfFuel.
Proof.
  unfold value_merge. destruct (is_null b); [discriminate|]. destruct (is_vlist b).
  - pose proof (flattened_nofuel ck b). destruct (flattened ck b); cbn [bind]; try discriminate; [apply merge_core_nofuel | congruence].
  - cbn [bind]. apply merge_core_nofuel.
Qed.

(** * termination of the loops, given termination of the calls they make *)
Definition T {A B} (fam : nat -> A -> rstate -> res B) (x : A) (st : rstate) : Prop :=
  exists F, fam F x st <> OutOfFuel.

Definition fam_mono {A B} (fam : nat -> A -> rstate -> res B) : Prop :=
  forall f f', f <= f' -> cb_mono (fam f) (fam f').

Lemma fam_mono_of_step {A B} (fam : nat -> A -> rstate -> res B) :
  (forall f, cb_mono (fam f) (fam (S f))) -> fam_mono fam.
Proof.
  intros Hs f f' Hle. induction Hle as [|f' Hle IH]; intros v st r H Hn; [exact H|].
  apply Hs; [apply IH; assumption | assumption].
Qed.

Lemma T_at {A B} (fam : nat -> A -> rstate -> res B) x st :
  fam_mono fam -> T fam x st -> exists F r, r <> OutOfFuel /\ forall F', F <= F' -> fam F' x st = r.
Proof.
  intros Hm [F H]. exists F, (fam F x st). split; [exact H|]. intros F' Hle. exact (Hm F F' Hle x st _ eq_refl H).
Qed.

Section Loops.
  Variable fam : nat -> callback.
  Hypothesis Hm : fam_mono fam.

  Lemma seq_loop_T st : forall l idx,
    (forall x i, In x l -> T fam x (push_list_index st i)) -> exists F, seq_loop (fam F) st l idx <> OutOfFuel.
  Proof.
    induction l as [|x l IH]; intros idx H; [exists 0; discriminate|].
    destruct (T_at fam x _ Hm (H x idx (or_introl eq_refl))) as (F1 & r1 & Hn1 & H1).
    destruct (IH (S idx) (fun y i Hy => H y i (or_intror Hy))) as [F2 H2].
    exists (Nat.max F1 F2). cbn [seq_loop]. rewrite (H1 _ (Nat.le_max_l _ _)).
    destruct r1 as [[e s1]| | |]; cbn [bind]; try discriminate; try congruence.
    rewrite (seq_loop_mono _ _ (Hm F2 _ (Nat.le_max_r _ _)) _ _ _ _ eq_refl H2).
    destruct (seq_loop (fam F2) st l (S idx)); cbn [bind]; try discriminate; congruence.
  Qed.

  Lemma vlist_loop_T st : forall l r,
    (forall x, In x l -> T fam x st) -> exists F, vlist_loop (fam F) st l r <> OutOfFuel.
  Proof.
    induction l as [|x l IH]; intros r H; [exists 0; discriminate|].
    destruct (T_at fam x _ Hm (H x (or_introl eq_refl))) as (F1 & r1 & Hn1 & H1).
    destruct r1 as [[iv s1]| e | p |]; try (exists F1; cbn [vlist_loop]; rewrite (H1 _ (Nat.le_refl _)); discriminate); [|congruence].
    pose proof (value_merge_nofuel (current_key s1) r iv) as Hvm.
    destruct (value_merge (current_key s1) r iv) as [r'| | |] eqn:Em;
      try (exists F1; cbn [vlist_loop]; rewrite (H1 _ (Nat.le_refl _)); cbn [bind]; rewrite Em; discriminate); [|congruence].
    destruct (IH r' (fun y Hy => H y (or_intror Hy))) as [F2 H2].
    exists (Nat.max F1 F2). cbn [vlist_loop]. rewrite (H1 _ (Nat.le_max_l _ _)). cbn [bind]. rewrite Em. cbn [bind].
    rewrite (vlist_loop_mono _ _ (Hm F2 _ (Nat.le_max_r _ _)) _ _ _ _ eq_refl H2). exact H2.
  Qed.

  Lemma map_loop_T st : forall es acc,
    (forall e st1, In e es -> push_mapping_key st (e_key e) = Ok st1 -> T fam (e_val e) st1) ->
    exists F, map_loop (fam F) st es acc <> OutOfFuel.
  Proof.
    induction es as [|[[[k v] c] o] es IH]; intros acc H; [exists 0; discriminate|].
    cbn [map_loop].
    destruct (push_mapping_key st k) as [st1| | |] eqn:Ep; cbn [bind]; try (exists 0; discriminate).
    2:{ exfalso. revert Ep. unfold push_mapping_key. pose proof (raw_string_no_fuel k). destruct (raw_string k); try discriminate; [|congruence].
        destruct k; discriminate. }
    destruct (T_at fam v st1 Hm (H (k, v, c, o) st1 (or_introl eq_refl) Ep)) as (F1 & r1 & Hn1 & H1).
    destruct r1 as [[v' s2]| e | p |]; try (exists F1; rewrite (H1 _ (Nat.le_refl _)); discriminate); [|congruence].
    pose proof (flattened_nofuel (current_key s2) v') as Hfl.
    destruct (flattened (current_key s2) v') as [fv| | |] eqn:Ef;
      try (exists F1; rewrite (H1 _ (Nat.le_refl _)); cbn [bind]; rewrite Ef; discriminate); [|congruence].
    pose proof (insert_nofuel acc k fv c o) as Hin.
    destruct (insert_impl acc k fv c o) as [acc'| | |] eqn:Ei;
      try (exists F1; rewrite (H1 _ (Nat.le_refl _)); cbn [bind]; rewrite Ef; cbn [bind]; rewrite Ei; discriminate); [|congruence].
    destruct (IH acc' (fun e s Hin' => H e s (or_intror Hin'))) as [F2 H2].
    exists (Nat.max F1 F2). rewrite (H1 _ (Nat.le_max_l _ _)). cbn [bind]. rewrite Ef. cbn [bind]. rewrite Ei. cbn [bind].
    rewrite (map_loop_mono _ _ (Hm F2 _ (Nat.le_max_r _ _)) _ _ _ _ eq_refl H2). exact H2.
  Qed.

  Lemma sov_loop_T st : forall l,
    (forall x, In x l -> is_string x = true -> T fam x st) -> exists F, sov_loop (fam F) st l <> OutOfFuel.
  Proof.
    induction l as [|x l IH]; intros H; [exists 0; discriminate|].
    destruct (IH (fun y Hy => H y (or_intror Hy))) as [F2 H2].
    cbn [sov_loop]. destruct (is_string x) eqn:Es.
    - destruct (T_at fam x st Hm (H x (or_introl eq_refl) Es)) as (F1 & r1 & Hn1 & H1).
      exists (Nat.max F1 F2). rewrite (H1 _ (Nat.le_max_l _ _)).
      destruct r1 as [[y s1]| | |]; cbn [bind]; try discriminate; try congruence.
      rewrite (sov_loop_mono _ _ (Hm F2 _ (Nat.le_max_r _ _)) _ _ _ eq_refl H2).
      destruct (sov_loop (fam F2) st l); cbn [bind]; try discriminate; congruence.
    - exists F2. cbn [bind]. destruct (sov_loop (fam F2) st l); cbn [bind]; try discriminate; congruence.
  Qed.

  (** the descent through a reference path: [Inv] is any invariant under which the callee
      terminates and which lookups in its results preserve *)
  Lemma walk_loop_T (Inv : value -> rstate -> Prop) path :
    (forall v st, Inv v st -> T fam v st) ->
    (forall F v st m st' key v', Inv v st -> fam F v st = Ok (VMap m, st') -> m_get (VStr key) m = Some v' -> Inv v' st') ->
    forall segs v st trav, Inv v st -> exists F, walk_loop (fam F) path segs v st trav <> OutOfFuel.
  Proof.
    intros HT Hp. induction segs as [|key segs IH]; intros v st trav Hi; [exists 0; discriminate|].
    destruct (T_at fam v st Hm (HT v st Hi)) as (F1 & r1 & Hn1 & H1).
    destruct r1 as [[nv s1]| e | p |]; try (exists F1; cbn [walk_loop]; rewrite (H1 _ (Nat.le_refl _)); discriminate); [|congruence].
    destruct nv as [| b | s | s | n | m | l | l]; try (exists F1; cbn [walk_loop]; rewrite (H1 _ (Nat.le_refl _)); discriminate).
    destruct (m_get (VStr key) m) as [v'|] eqn:G; [|exists F1; cbn [walk_loop]; rewrite (H1 _ (Nat.le_refl _)); cbn [bind]; rewrite G; discriminate].
    destruct (IH v' s1 (trav ++ [key]) (Hp F1 v st m s1 key v' Hi (H1 _ (Nat.le_refl _)) G)) as [F2 H2].
    exists (Nat.max F1 F2). cbn [walk_loop]. rewrite (H1 _ (Nat.le_max_l _ _)). cbn [bind]. rewrite G.
    rewrite (walk_loop_mono _ _ path (Hm F2 _ (Nat.le_max_r _ _)) _ _ _ _ _ eq_refl H2). exact H2.
  Qed.
End Loops.

(** * what the loops preserve *)
Lemma seq_loop_PB B call st : forall l idx l',
  (forall x st1 v' st2, In x l -> call x st1 = Ok (v', st2) -> PB B v') ->
  seq_loop call st l idx = Ok l' -> Forall (PB B) l'.
Proof.
  induction l as [|x l IH]; intros idx l' Hc H; cbn [seq_loop] in H; [injection H as <-; constructor|].
  destruct (call x (push_list_index st idx)) as [[e s1]| | |] eqn:E; cbn [bind] in H; try discriminate.
  destruct (seq_loop call st l (S idx)) as [es| | |] eqn:E2; cbn [bind] in H; try discriminate.
  injection H as <-. constructor; [exact (Hc x _ e s1 (or_introl eq_refl) E)|].
  apply (IH (S idx) es); [|exact E2]. intros y s v' s' Hy. apply Hc. now right.
Qed.

Lemma vlist_loop_PB B call st : forall l r r',
  PB B r ->
  (forall x st1 v' st2, In x l -> call x st1 = Ok (v', st2) -> PB B v' /\ is_vlist v' = false) ->
  vlist_loop call st l r = Ok r' -> PB B r'.
Proof.
  induction l as [|x l IH]; intros r r' Hr Hc H; cbn [vlist_loop] in H; [injection H as <-; exact Hr|].
  destruct (call x st) as [[iv s1]| | |] eqn:E; cbn [bind] in H; try discriminate.
  destruct (value_merge (current_key s1) r iv) as [r1| | |] eqn:Em; cbn [bind] in H; try discriminate.
  destruct (Hc x st iv s1 (or_introl eq_refl) E) as [Hi Hl].
  apply (IH r1 r'); [exact (value_merge_PB B _ r iv r1 Hr Hi Hl Em) | | exact H].
  intros y s v' s' Hy. apply Hc. now right.
Qed.

Lemma map_loop_PB B call st : forall es acc m',
  Forall (fun e => PB B (e_val e)) acc ->
  (forall e st1 v' st2, In e es -> call (e_val e) st1 = Ok (v', st2) -> PB B v' /\ closed v' /\ wf v') ->
  map_loop call st es acc = Ok m' -> Forall (fun e => PB B (e_val e)) m'.
Proof.
  induction es as [|[[[k v] c] o] es IH]; intros acc m' Ha Hc H; cbn [map_loop] in H; [injection H as <-; exact Ha|].
  destruct (push_mapping_key st k) as [st1| | |]; cbn [bind] in H; try discriminate.
  destruct (call v st1) as [[v' s2]| | |] eqn:E; cbn [bind] in H; try discriminate.
  destruct (Hc (k, v, c, o) st1 v' s2 (or_introl eq_refl) E) as (Hp & Hcl & Hw).
  rewrite (flattened_closed_id _ v' Hcl Hw) in H. cbn [bind] in H.
  destruct (insert_impl acc k v' c o) as [acc'| | |] eqn:Ei; cbn [bind] in H; try discriminate.
  apply (IH acc' m'); [exact (insert_PB B _ _ _ _ _ _ Ha Hp Ei) | | exact H].
  intros e s x s' He. apply Hc. now right.
Qed.

Section Term.
  Variable root : mapping.
  Hypothesis Hroot : wf (VMap root).

  Lemma fm_interp : fam_mono (fun F => interp F root).
  Proof. apply fam_mono_of_step. intros f. exact (proj1 (mono_facts root f)). Qed.

  (** String-free values: the result is never deeper than the input ... *)
  Lemma nostr_md : forall F v st v' st',
    nostr v -> wf v -> interp F root v st = Ok (v', st') -> md v' <= md v.
  Proof.
    induction F as [F IHF] using lt_wf_ind. intros v st v' st' Hn Hw H.
    destruct F as [|f]; [discriminate|]. cbn [interp] in H.
    destruct v as [| b | s | s | n | es | l | l]; try (injection H as <- <-; lia); try (destruct Hn).
    - (* mapping *)
      destruct (mapping_interp f root es st) as [m'| | |] eqn:E; cbn [bind] in H; try discriminate. injection H as <- <-.
      destruct f as [|f']; [discriminate|]. cbn [mapping_interp] in E.
      rewrite !md_map. apply le_n_S.
      apply nostr_map_iff in Hn. apply wf_map_iff in Hw as (_ & _ & Hwv).
      assert (G : Forall (fun e => PB (mdl (map e_val es)) (e_val e)) m').
      { apply (map_loop_PB _ (interp f' root) st es [] m'); [constructor | | exact E].
        intros e st1 x st2 He Hx. rewrite Forall_forall in Hn, Hwv.
        destruct (interp_closed _ _ _ _ _ _ Hroot (Hwv e He) Hx) as [Hc Hwx].
        split; [|split; assumption]. split; [now apply closed_nostr|].
        assert (md x <= md (e_val e)) by (apply (IHF f' ltac:(lia) (e_val e) st1 x st2 (Hn e He) (Hwv e He) Hx)).
        assert (md (e_val e) <= mdl (map e_val es)); [|lia].
        unfold mdl. assert (Hle := proj1 (lmax_le (map md (map e_val es)) _) (Nat.le_refl _)).
        rewrite Forall_forall in Hle. apply Hle. apply in_map, in_map, He. }
      unfold mdl at 1. apply lmax_le. rewrite !Forall_map. eapply Forall_impl; [|exact G]. intros e He. apply He.
    - (* sequence *)
      destruct (seq_loop (interp f root) st l 0) as [l'| | |] eqn:E; cbn [bind] in H; try discriminate. injection H as <- <-.
      rewrite !md_seq. apply le_n_S.
      apply nostr_seq_iff in Hn. apply wf_seq_iff in Hw.
      assert (G : Forall (PB (mdl l)) l').
      { apply (seq_loop_PB _ (interp f root) st l 0 l'); [|exact E].
        intros x st1 x' st2 Hx Hr. rewrite Forall_forall in Hn, Hw.
        destruct (interp_closed _ _ _ _ _ _ Hroot (Hw x Hx) Hr) as [Hc _].
        split; [now apply closed_nostr|].
        assert (md x' <= md x) by (apply (IHF f ltac:(lia) x st1 x' st2 (Hn x Hx) (Hw x Hx) Hr)).
        assert (md x <= mdl l); [|lia].
        unfold mdl. assert (Hle := proj1 (lmax_le (map md l) _) (Nat.le_refl _)).
        rewrite Forall_forall in Hle. apply Hle. apply in_map, Hx. }
      unfold mdl at 1. apply lmax_le. rewrite Forall_map. eapply Forall_impl; [|exact G]. intros e He. apply He.
    - (* ValueList *)
      destruct (vlist_loop (interp f root) st l VNull) as [r| | |] eqn:E; cbn [bind] in H; try discriminate.
      apply nostr_list_iff in Hn. pose proof (proj1 (wf_list_iff l) Hw) as Hwl.
      assert (Hr : PB (mdl l) r).
      { apply (vlist_loop_PB _ (interp f root) st l VNull r); [split; [exact I | cbn; lia] | | exact E].
        intros x st1 x' st2 Hx Hrx. rewrite Forall_forall in Hn, Hwl. destruct (Hwl x Hx) as [Hwx _].
        destruct (interp_closed _ _ _ _ _ _ Hroot Hwx Hrx) as [Hc _].
        split; [|apply (closed_top _ Hc)]. split; [now apply closed_nostr|].
        assert (md x' <= md x) by (apply (IHF f ltac:(lia) x st1 x' st2 (Hn x Hx) Hwx Hrx)).
        assert (md x <= mdl l); [|lia].
        unfold mdl. assert (Hle := proj1 (lmax_le (map md l) _) (Nat.le_refl _)).
        rewrite Forall_forall in Hle. apply Hle. apply in_map, Hx. }
      assert (Hwr : wf r).
      { apply (vlist_loop_inv (interp f root) st (proj1 (interp_facts root Hroot f)) l VNull r); try exact E.
        - eapply Forall_impl; [|exact Hwl]. intros x Hx. apply Hx.
        - exact I.
        - split; reflexivity. }
      rewrite md_list. destruct Hr as [Hnr Hmr].
      assert (md v' <= md r) by (apply (IHF f ltac:(lia) r st v' st' Hnr Hwr H)). lia.
  Qed.

  Lemma md_in_mdl x l : In x l -> md x <= mdl l.
  Proof.
    intros Hx. unfold mdl. assert (Hle := proj1 (lmax_le (map md l) _) (Nat.le_refl _)).
    rewrite Forall_forall in Hle. apply Hle. apply in_map, Hx.
  Qed.

  Lemma vlist_result_facts f st l r :
    nostr (VList l) -> wf (VList l) -> vlist_loop (interp f root) st l VNull = Ok r ->
    PB (mdl l) r /\ wf r /\ top_ok r.
  Proof.
    intros Hn Hw E. apply nostr_list_iff in Hn. pose proof (proj1 (wf_list_iff l) Hw) as Hwl.
    split.
    - apply (vlist_loop_PB _ (interp f root) st l VNull r); [split; [exact I | cbn; lia] | | exact E].
      intros x st1 x' st2 Hx Hrx. rewrite Forall_forall in Hn, Hwl. destruct (Hwl x Hx) as [Hwx _].
      destruct (interp_closed _ _ _ _ _ _ Hroot Hwx Hrx) as [Hc _].
      split; [|apply (closed_top _ Hc)]. split; [now apply closed_nostr|].
      pose proof (nostr_md f x st1 x' st2 (Hn x Hx) Hwx Hrx). pose proof (md_in_mdl x l Hx). lia.
    - apply (vlist_loop_inv (interp f root) st (proj1 (interp_facts root Hroot f)) l VNull r); try exact E.
      + eapply Forall_impl; [|exact Hwl]. intros x Hx. apply Hx.
      + exact I.
      + split; reflexivity.
  Qed.

  (** ... and the interpreter comes back on them, by the measure 2 * depth + (1 for a ValueList) *)
  Lemma nostr_T : forall n v st,
    2 * md v + (if is_vlist v then 1 else 0) <= n -> nostr v -> wf v -> T (fun F => interp F root) v st.
  Proof.
    induction n as [n IHn] using lt_wf_ind. intros v st Hmu Hn Hw.
    destruct v as [| b | s | s | k | es | l | l]; try (exists 1; cbn; discriminate); try (destruct Hn).
    - (* mapping *)
      rewrite md_map in Hmu. cbn [is_vlist] in Hmu.
      apply nostr_map_iff in Hn. apply wf_map_iff in Hw as (_ & _ & Hwv). rewrite Forall_forall in Hn, Hwv.
      destruct (map_loop_T (fun F => interp F root) fm_interp st es []) as [F0 H0].
      { intros e st1 He _. pose proof (md_in_mdl (e_val e) (map e_val es) (in_map e_val es e He)).
        apply (IHn (2 * md (e_val e) + 1)); [lia | destruct (is_vlist (e_val e)); lia | apply Hn, He | apply Hwv, He]. }
      exists (S (S F0)). cbn [interp mapping_interp]. destruct (map_loop (interp F0 root) st es []); cbn [bind]; try discriminate. congruence.
    - (* sequence *)
      rewrite md_seq in Hmu. cbn [is_vlist] in Hmu.
      apply nostr_seq_iff in Hn. apply wf_seq_iff in Hw. rewrite Forall_forall in Hn, Hw.
      destruct (seq_loop_T (fun F => interp F root) fm_interp st l 0) as [F0 H0].
      { intros x i Hx. pose proof (md_in_mdl x l Hx).
        apply (IHn (2 * md x + 1)); [lia | destruct (is_vlist x); lia | apply Hn, Hx | apply Hw, Hx]. }
      exists (S F0). cbn [interp]. destruct (seq_loop (interp F0 root) st l 0); cbn [bind]; try discriminate. congruence.
    - (* ValueList *)
      rewrite md_list in Hmu. cbn [is_vlist] in Hmu.
      pose proof (proj1 (nostr_list_iff l) Hn) as Hnl. pose proof (proj1 (wf_list_iff l) Hw) as Hwl. rewrite Forall_forall in Hnl, Hwl.
      destruct (vlist_loop_T (fun F => interp F root) fm_interp st l VNull) as [F1 H1].
      { intros x Hx. pose proof (md_in_mdl x l Hx). destruct (Hwl x Hx) as [Hwx Hxl].
        apply (IHn (2 * md x)); [lia | rewrite Hxl; lia | apply Hnl, Hx | exact Hwx]. }
      destruct (vlist_loop (interp F1 root) st l VNull) as [r| e | p |] eqn:E1; [| | |congruence].
      + destruct (vlist_result_facts F1 st l r Hn Hw E1) as ([Hnr Hmr] & Hwr & [_ Hrl]).
        destruct (IHn (2 * md r) ltac:(lia) r st) as [F2 H2]; [rewrite Hrl; lia | exact Hnr | exact Hwr|].
        exists (S (Nat.max F1 F2)). cbn [interp].
        rewrite (vlist_loop_mono _ _ (fm_interp F1 _ (Nat.le_max_l _ _)) _ _ _ _ E1) by discriminate. cbn [bind].
        rewrite (fm_interp F2 _ (Nat.le_max_r _ _) r st _ eq_refl H2). exact H2.
      + exists (S F1). cbn [interp]. rewrite E1. discriminate.
      + exists (S F1). cbn [interp]. rewrite E1. discriminate.
  Qed.
End Term.

Section TokenInd.
  Variable P : token -> Prop.
  Hypothesis HLit : forall s, P (TLit s).
  Hypothesis HRef : forall ts, Forall P ts -> P (TRef ts).
  Hypothesis HComb : forall ts, Forall P ts -> P (TComb ts).

  Fixpoint token_ind' (t : token) : P t :=
    match t with
    | TLit s => HLit s
    | TRef ts => HRef ts ((fix go (l : list token) : Forall P l :=
                             match l with [] => Forall_nil _ | x :: xs => Forall_cons _ (token_ind' x) (go xs) end) ts)
    | TComb ts => HComb ts ((fix go (l : list token) : Forall P l :=
                               match l with [] => Forall_nil _ | x :: xs => Forall_cons _ (token_ind' x) (go xs) end) ts)
    end.
End TokenInd.

(** interpolate_token_slice: three families of callees *)
Lemma slice_loop_T (rs : nat -> token -> rstate -> res (value * rstate)) (ws call : nat -> callback) st :
  fam_mono rs -> fam_mono ws -> fam_mono call ->
  forall ts,
  (forall t, In t ts -> T rs t st) ->
  (forall t F v st1, In t ts -> rs F t st = Ok (v, st1) -> T ws v st1) ->
  (forall t F v st1 F' v' st2, In t ts -> rs F t st = Ok (v, st1) -> ws F' v st1 = Ok (v', st2) ->
     is_mapping v' || is_sequence v' = true -> T call v' st2) ->
  exists F, slice_loop (rs F) (ws F) (call F) st ts <> OutOfFuel.
Proof.
  intros Hmr Hmw Hmc. induction ts as [|t ts IH]; intros Hr Hw Hc; [exists 0; discriminate|].
  destruct (IH (fun y Hy => Hr y (or_intror Hy)) (fun y F v s Hy => Hw y F v s (or_intror Hy))
               (fun y F v s F' v' s' Hy => Hc y F v s F' v' s' (or_intror Hy))) as [F4 H4].
  destruct (T_at rs t st Hmr (Hr t (or_introl eq_refl))) as (F1 & r1 & Hn1 & H1).
  destruct r1 as [[v s1]| e | p |]; try (exists F1; cbn [slice_loop]; rewrite (H1 _ (Nat.le_refl _)); discriminate); [|congruence].
  destruct (T_at ws v s1 Hmw (Hw t F1 v s1 (or_introl eq_refl) (H1 _ (Nat.le_refl _)))) as (F2 & r2 & Hn2 & H2).
  destruct r2 as [[v' s2]| e | p |];
    try (exists (Nat.max F1 F2); cbn [slice_loop]; rewrite (H1 _ (Nat.le_max_l _ _)); cbn [bind]; rewrite (H2 _ (Nat.le_max_r _ _)); discriminate); [|congruence].
  assert (G : exists F3 r3, r3 <> OutOfFuel /\ forall F', F3 <= F' ->
             (if is_mapping v' || is_sequence v' then call F' v' s2 else Ok (v', s2)) = r3).
  { destruct (is_mapping v' || is_sequence v') eqn:Eb.
    - destruct (T_at call v' s2 Hmc (Hc t F1 v s1 F2 v' s2 (or_introl eq_refl) (H1 _ (Nat.le_refl _)) (H2 _ (Nat.le_refl _)) Eb)) as (F3 & r3 & Hn3 & H3).
      exists F3, r3. split; assumption.
    - exists 0, (Ok (v', s2)). split; [discriminate | reflexivity]. }
  destruct G as (F3 & r3 & Hn3 & H3).
  set (F := Nat.max (Nat.max F1 F2) (Nat.max F3 F4)).
  exists F. cbn [slice_loop]. rewrite (H1 F) by (unfold F; lia). cbn [bind]. rewrite (H2 F) by (unfold F; lia). cbn [bind].
  rewrite (H3 F) by (unfold F; lia).
  destruct r3 as [[v'' s3]| | |]; cbn [bind]; try discriminate; try congruence.
  pose proof (raw_string_no_fuel v'') as Hrs. destruct (raw_string v''); cbn [bind]; try discriminate; try congruence.
  assert (E4 : slice_loop (rs F) (ws F) (call F) st ts = slice_loop (rs F4) (ws F4) (call F4) st ts).
  { apply (slice_loop_mono (rs F4) (rs F) (ws F4) (ws F) (call F4) (call F)); try (apply Hmr || apply Hmw || apply Hmc); try (unfold F; lia); [reflexivity | exact H4]. }
  rewrite E4. destruct (slice_loop (rs F4) (ws F4) (call F4) st ts); cbn [bind]; try discriminate; congruence.
Qed.

Definition bud (st : rstate) : nat := RESOLVE_MAX_DEPTH - depth st.

Lemma bud_le a b : st_le a b -> bud b <= bud a.
Proof. intros (_ & H & _). unfold bud. lia. Qed.

Lemma push_key_depth st k st1 : push_mapping_key st k = Ok st1 -> depth st1 = depth st.
Proof.
  unfold push_mapping_key. destruct (raw_string k); try discriminate.
  - intros H; injection H as <-; reflexivity.
  - destruct k; try discriminate; intros H; injection H as <-; reflexivity.
Qed.

Section Main.
  Variable root : mapping.
  Hypothesis Hroot : wf (VMap root).

  Lemma fm_render : fam_mono (fun F => token_render F root).
  Proof. apply fam_mono_of_step. intros f. exact (proj1 (proj2 (proj2 (mono_facts root f)))). Qed.
  Lemma fm_resolve : fam_mono (fun F => token_resolve F root).
  Proof. apply fam_mono_of_step. intros f. exact (proj1 (proj2 (proj2 (proj2 (mono_facts root f))))). Qed.
  Lemma fm_slice : fam_mono (fun F => token_slice F root).
  Proof. apply fam_mono_of_step. intros f. exact (proj1 (proj2 (proj2 (proj2 (proj2 (mono_facts root f)))))). Qed.
  Lemma fm_sov : fam_mono (fun F => interp_sov F root).
  Proof. apply fam_mono_of_step. intros f. exact (proj1 (proj2 (proj2 (proj2 (proj2 (proj2 (mono_facts root f))))))). Qed.
  Lemma fm_while : fam_mono (fun F => interp_while F root).
  Proof. apply fam_mono_of_step. intros f. exact (proj1 (proj2 (proj2 (proj2 (proj2 (proj2 (proj2 (mono_facts root f)))))))). Qed.
  Lemma fm_wstr : fam_mono (fun F => interp_while_str F root).
  Proof. apply fam_mono_of_step. intros f. exact (proj2 (proj2 (proj2 (proj2 (proj2 (proj2 (proj2 (mono_facts root f)))))))). Qed.

  Lemma P_resolve_at f t st v st1 : token_resolve f root t st = Ok (v, st1) -> wf v /\ top_ok v.
  Proof. exact (proj1 (proj2 (proj2 (proj2 (interp_facts root Hroot f)))) t st v st1). Qed.
  Lemma P_sov_at f v st v' st1 : wf v -> interp_sov f root v st = Ok (v', st1) -> wf v' /\ top_ok v'.
  Proof. exact (proj1 (proj2 (proj2 (proj2 (proj2 (interp_facts root Hroot f))))) v st v' st1). Qed.
  Lemma S_sov_at f : cb_le (interp_sov f root).
  Proof. exact (proj1 (proj2 (proj2 (proj2 (state_facts root f))))). Qed.
  Lemma S_while_at f : cb_le (interp_while f root).
  Proof. exact (proj1 (proj2 (proj2 (proj2 (proj2 (state_facts root f)))))). Qed.

  Lemma resolve_ref_depth F parts st v st1 :
    token_resolve F root (TRef parts) st = Ok (v, st1) -> depth st < depth st1 /\ depth st < RESOLVE_MAX_DEPTH.
  Proof.
    destruct F as [|f]; [discriminate|]. cbn [token_resolve].
    destruct (Nat.ltb RESOLVE_MAX_DEPTH (depth (with_depth st (S (depth st))))) eqn:El; [discriminate|].
    apply Nat.ltb_ge in El. cbn [depth with_depth] in El.
    destruct (token_slice f root parts (with_depth st (S (depth st)))) as [path| | |]; cbn [bind]; try discriminate.
    destruct (mem path (seen (with_depth st (S (depth st))))); [discriminate|].
    destruct (split_on ":" path) as [|k0 segs]; [discriminate|].
    destruct (m_get (VStr k0) root) as [v0|]; [|discriminate].
    destruct (walk_loop (interp_sov f root) path segs v0 (add_seen (with_depth st (S (depth st))) path) [k0]) as [[v2 st3]| | |] eqn:Ew;
      cbn [bind]; try discriminate.
    intros H. pose proof (walk_loop_le _ path (S_sov_at f) _ _ _ _ _ _ Ew) as (_ & H1 & _).
    pose proof (S_while_at f _ _ _ _ H) as (_ & H2 & _). cbn [depth add_seen with_depth] in H1. split; lia.
  Qed.

  Record ALL (b : nat) : Prop := {
    A_interp : forall v st, wf v -> bud st <= b -> T (fun F => interp F root) v st;
    A_resolve : forall t st, bud st <= b -> T (fun F => token_resolve F root) t st;
    A_slice : forall ts st, bud st <= b -> T (fun F => token_slice F root) ts st;
    A_sov : forall v st, wf v -> bud st <= b -> T (fun F => interp_sov F root) v st;
    A_while : forall v st, wf v -> bud st <= b -> T (fun F => interp_while F root) v st;
    A_wstr : forall v st, wf v -> bud st <= b -> T (fun F => interp_while_str F root) v st;
    A_render : forall t st, bud st <= b -> T (fun F => token_render F root) t st
  }.

  Section Step.
    Variable b : nat.
    Hypothesis IHb : forall b', b' < b -> ALL b'.

    Lemma slice_from_resolve ts :
      (forall t, In t ts -> forall st, bud st <= b -> T (fun F => token_resolve F root) t st) ->
      forall st, bud st <= b -> T (fun F => token_slice F root) ts st.
    Proof.
      intros Hr st Hb.
      destruct (slice_loop_T (fun F => token_resolve F root) (fun F => interp_while_str F root) (fun F => interp F root) st
                  fm_resolve fm_wstr (fm_interp root) ts) as [F0 H0].
      - intros t Ht. apply Hr; assumption.
      - intros t F v st1 Ht Hres. destruct (P_resolve_at _ _ _ _ _ Hres) as [_ [Hs _]].
        exists 1. cbn [interp_while_str]. rewrite Hs. discriminate.
      - intros t F v st1 F' v' st2 Ht Hres Hws Hc. destruct (P_resolve_at _ _ _ _ _ Hres) as [Hwv [Hs _]].
        destruct F' as [|f']; [discriminate|]. cbn [interp_while_str] in Hws. rewrite Hs in Hws. injection Hws as <- <-.
        destruct t as [s | parts | ts'].
        + destruct F as [|f]; [discriminate|]. cbn [token_resolve] in Hres. injection Hres as <- _. discriminate.
        + destruct (resolve_ref_depth _ _ _ _ _ Hres) as [Hd Hlt].
          assert (Hb1 : bud st1 <= b - 1) by (unfold bud in *; lia).
          assert (Hlt' : b - 1 < b) by (unfold bud in *; lia).
          exact (A_interp _ (IHb _ Hlt') v st1 Hwv Hb1).
        + destruct F as [|f]; [discriminate|]. cbn [token_resolve] in Hres.
          destruct (token_slice f root ts' st); cbn [bind] in Hres; try discriminate. injection Hres as <- _. discriminate.
      - exists (S F0). cbn [token_slice]. exact H0.
    Qed.

    Lemma resolve_step : forall t st, bud st <= b -> T (fun F => token_resolve F root) t st.
    Proof.
      induction t as [s | parts IH | ts IH] using token_ind'; intros st Hb.
      - exists 1. discriminate.
      - (* a reference: everything below runs with a smaller budget *)
        destruct (Nat.ltb RESOLVE_MAX_DEPTH (depth (with_depth st (S (depth st))))) eqn:El.
        { exists 1. cbn [token_resolve]. rewrite El. discriminate. }
        pose proof El as El'. apply Nat.ltb_ge in El'. cbn [depth with_depth] in El'.
        set (st1 := with_depth st (S (depth st))) in *.
        assert (Hlt : b - 1 < b) by (unfold bud in *; lia).
        pose proof (IHb _ Hlt) as A.
        assert (Hb1 : bud st1 <= b - 1) by (unfold bud, st1 in *; cbn [depth with_depth]; lia).
        destruct (T_at _ parts st1 fm_slice (A_slice _ A parts st1 Hb1)) as (F1 & r1 & Hn1 & H1).
        destruct r1 as [path| e | p |]; try (exists (S F1); cbn [token_resolve]; fold st1; rewrite El, (H1 _ (Nat.le_refl _)); discriminate); [|congruence].
        destruct (mem path (seen st1)) eqn:Em.
        { exists (S F1). cbn [token_resolve]. fold st1. rewrite El, (H1 _ (Nat.le_refl _)). cbn [bind]. rewrite Em. discriminate. }
        destruct (split_on ":" path) as [|k0 segs] eqn:Es.
        { exists (S F1). cbn [token_resolve]. fold st1. rewrite El, (H1 _ (Nat.le_refl _)). cbn [bind]. rewrite Em, Es. discriminate. }
        destruct (m_get (VStr k0) root) as [v0|] eqn:Eg.
        2:{ exists (S F1). cbn [token_resolve]. fold st1. rewrite El, (H1 _ (Nat.le_refl _)). cbn [bind]. rewrite Em, Es, Eg. discriminate. }
        assert (Hw0 : wf v0) by (eapply wf_get; eauto).
        set (st2 := add_seen st1 path) in *.
        destruct (walk_loop_T (fun F => interp_sov F root) fm_sov (fun v s => wf v /\ bud s <= b - 1) path) with (segs := segs) (v := v0) (st := st2) (trav := [k0]) as [F2 H2].
        { intros v s [Hv Hs]. exact (A_sov _ A v s Hv Hs). }
        { intros F v s m s' key v' [Hv Hs] Hr Hg. destruct (P_sov_at _ _ _ _ _ Hv Hr) as [Hwm _].
          split; [eapply wf_get; eauto|]. pose proof (bud_le _ _ (S_sov_at F _ _ _ _ Hr)). lia. }
        { split; [exact Hw0 | exact Hb1]. }
        destruct (walk_loop (interp_sov F2 root) path segs v0 st2 [k0]) as [[v st3]| e | p |] eqn:Ew; [| | |congruence].
        2,3: exists (S (Nat.max F1 F2)); cbn [token_resolve]; fold st1; rewrite El, (H1 _ (Nat.le_max_l _ _)); cbn [bind]; rewrite Em, Es, Eg; fold st2;
             rewrite (walk_loop_mono _ _ path (fm_sov F2 _ (Nat.le_max_r _ _)) _ _ _ _ _ Ew) by discriminate; discriminate.
        assert (Hwv : wf v).
        { eapply (walk_loop_wf (interp_sov F2 root) path); [|exact Hw0 | exact Ew]. intros x s x' s' Hx Hr. exact (P_sov_at _ _ _ _ _ Hx Hr). }
        assert (Hb3 : bud st3 <= b - 1).
        { pose proof (bud_le _ _ (walk_loop_le _ path (S_sov_at F2) _ _ _ _ _ _ Ew)). assert (bud st2 = bud st1) by reflexivity. lia. }
        destruct (T_at _ v st3 fm_while (A_while _ A v st3 Hwv Hb3)) as (F3 & r3 & Hn3 & H3).
        exists (S (Nat.max F1 (Nat.max F2 F3))). cbn [token_resolve]. fold st1. rewrite El, (H1 _ (Nat.le_max_l _ _)). cbn [bind]. rewrite Em, Es, Eg. fold st2.
        rewrite (walk_loop_mono _ _ path (fm_sov F2 (Nat.max F1 (Nat.max F2 F3)) ltac:(lia)) _ _ _ _ _ Ew) by discriminate. cbn [bind].
        rewrite (H3 (Nat.max F1 (Nat.max F2 F3)) ltac:(lia)). exact Hn3.
      - (* a combination of tokens *)
        destruct (slice_from_resolve ts) with (st := st) as [F0 H0]; [|exact Hb|].
        + rewrite Forall_forall in IH. intros t Ht. apply IH, Ht.
        + exists (S F0). cbn [token_resolve]. destruct (token_slice F0 root ts st); cbn [bind]; try discriminate. congruence.
    Qed.

    Lemma render_step : forall t st, bud st <= b -> T (fun F => token_render F root) t st.
    Proof.
      intros t st Hb. destruct (T_at _ t st fm_resolve (resolve_step t st Hb)) as (F1 & r1 & Hn1 & H1).
      destruct r1 as [[v st1]| e | p |]; [| | |congruence].
      2,3: exists (S F1); cbn [token_render]; destruct t; rewrite (H1 _ (Nat.le_refl _)); discriminate.
      destruct t as [s | parts | ts].
      - exists (S F1). cbn [token_render]. rewrite (H1 _ (Nat.le_refl _)). cbn [bind].
        pose proof (raw_string_no_fuel v). destruct (raw_string v); cbn [bind]; try discriminate. congruence.
      - destruct (resolve_ref_depth _ _ _ _ _ (H1 _ (Nat.le_refl _))) as [Hd Hlt].
        destruct (P_resolve_at _ _ _ _ _ (H1 _ (Nat.le_refl _))) as [Hwv _].
        assert (Hb1 : bud st1 <= b - 1) by (unfold bud in *; lia).
        assert (Hlt' : b - 1 < b) by (unfold bud in *; lia).
        destruct (T_at _ v st1 (fm_interp root) (A_interp _ (IHb _ Hlt') v st1 Hwv Hb1)) as (F2 & r2 & Hn2 & H2).
        exists (S (Nat.max F1 F2)). cbn [token_render]. rewrite (H1 _ (Nat.le_max_l _ _)). cbn [bind].
        rewrite (H2 _ (Nat.le_max_r _ _)). exact Hn2.
      - exists (S F1). cbn [token_render]. rewrite (H1 _ (Nat.le_refl _)). cbn [bind].
        pose proof (raw_string_no_fuel v). destruct (raw_string v); cbn [bind]; try discriminate. congruence.
    Qed.

    Lemma value_merge_nostr ck r iv r' :
      nostr r -> nostr iv -> is_vlist iv = false -> value_merge ck r iv = Ok r' -> nostr r'.
    Proof.
      intros Hr Hi Hl H.
      apply (value_merge_PB (Nat.max (md r) (md iv)) ck r iv r'); try assumption; split; try assumption; lia.
    Qed.

    Lemma vlist_loop_nostr f st : forall l r r',
      Forall wf l -> nostr r -> vlist_loop (interp f root) st l r = Ok r' -> nostr r'.
    Proof.
      induction l as [|x l IH]; intros r r' Hw Hr H; cbn [vlist_loop] in H; [injection H as <-; exact Hr|].
      inversion Hw as [|? ? Hx Hl]; subst.
      destruct (interp f root x st) as [[iv s1]| | |] eqn:E; cbn [bind] in H; try discriminate.
      destruct (value_merge (current_key s1) r iv) as [r1| | |] eqn:Em; cbn [bind] in H; try discriminate.
      destruct (interp_closed _ _ _ _ _ _ Hroot Hx E) as [Hc _].
      apply (IH r1 r' Hl); [|exact H].
      exact (value_merge_nostr _ r iv r1 Hr (closed_nostr _ Hc) (proj2 (closed_top _ Hc)) Em).
    Qed.

    Lemma interp_step : forall v, wf v -> forall st, bud st <= b -> T (fun F => interp F root) v st.
    Proof.
      induction v as [| bb | s | s | n | es IH | l IH | l IH] using value_ind'; intros Hw st Hb;
        try (exists 1; cbn; discriminate).
      - (* a string: parse, render the token *)
        destruct (token_parse s) as [| t | |] eqn:Ep.
        + exists 1. cbn [interp]. rewrite Ep. discriminate.
        + destruct (render_step t st Hb) as [F0 H0]. exists (S F0). cbn [interp]. rewrite Ep. exact H0.
        + exists 1. cbn [interp]. rewrite Ep. discriminate.
        + exfalso. exact (token_parse_terminates s Ep).
      - (* mapping *)
        apply wf_map_iff in Hw as (_ & _ & Hwv). rewrite Forall_forall in IH, Hwv.
        destruct (map_loop_T (fun F => interp F root) (fm_interp root) st es []) as [F0 H0].
        { intros e st1 He Hp. apply (proj2 (IH e He)); [apply Hwv, He|]. unfold bud in *. rewrite (push_key_depth _ _ _ Hp). exact Hb. }
        exists (S (S F0)). cbn [interp mapping_interp]. destruct (map_loop (interp F0 root) st es []); cbn [bind]; try discriminate. congruence.
      - (* sequence *)
        apply wf_seq_iff in Hw. rewrite Forall_forall in IH, Hw.
        destruct (seq_loop_T (fun F => interp F root) (fm_interp root) st l 0) as [F0 H0].
        { intros x i Hx. apply (IH x Hx); [apply Hw, Hx | exact Hb]. }
        exists (S F0). cbn [interp]. destruct (seq_loop (interp F0 root) st l 0); cbn [bind]; try discriminate. congruence.
      - (* ValueList: render the layers, merge, interpolate the String-free result *)
        pose proof (proj1 (wf_list_iff l) Hw) as Hwl. rewrite Forall_forall in IH, Hwl.
        destruct (vlist_loop_T (fun F => interp F root) (fm_interp root) st l VNull) as [F1 H1].
        { intros x Hx. apply (IH x Hx); [apply Hwl, Hx | exact Hb]. }
        destruct (vlist_loop (interp F1 root) st l VNull) as [r| e | p |] eqn:E1; [| | |congruence].
        2,3: exists (S F1); cbn [interp]; rewrite E1; discriminate.
        assert (Hwl' : Forall wf l) by (rewrite Forall_forall; intros x Hx; apply Hwl, Hx).
        assert (Hnr : nostr r) by (exact (vlist_loop_nostr F1 st l VNull r Hwl' I E1)).
        assert (Hwr : wf r).
        { apply (vlist_loop_inv (interp F1 root) st (proj1 (interp_facts root Hroot F1)) l VNull r); try exact E1; try exact Hwl'; [exact I | split; reflexivity]. }
        destruct (nostr_T root Hroot _ r st (Nat.le_refl _) Hnr Hwr) as [F2 H2].
        exists (S (Nat.max F1 F2)). cbn [interp].
        rewrite (vlist_loop_mono _ _ (fm_interp root F1 _ (Nat.le_max_l _ _)) _ _ _ _ E1) by discriminate. cbn [bind].
        rewrite (fm_interp root F2 _ (Nat.le_max_r _ _) r st _ eq_refl H2). exact H2.
    Qed.

    Lemma sov_step : forall v st, wf v -> bud st <= b -> T (fun F => interp_sov F root) v st.
    Proof.
      intros v st Hw Hb. destruct v as [| bb | s | s | n | es | l | l]; try (exists 1; cbn; discriminate).
      - destruct (interp_step (VStr s) Hw st Hb) as [F0 H0]. exists (S F0). cbn [interp_sov]. exact H0.
      - pose proof (proj1 (wf_list_iff l) Hw) as Hwl. rewrite Forall_forall in Hwl.
        destruct (sov_loop_T (fun F => interp F root) (fm_interp root) st l) as [F0 H0].
        { intros x Hx _. apply interp_step; [apply Hwl, Hx | exact Hb]. }
        exists (S F0). cbn [interp_sov]. destruct (sov_loop (interp F0 root) st l) as [i| | |]; cbn [bind]; try discriminate; [|congruence].
        pose proof (flattened_nofuel (current_key st) (VList i)). destruct (flattened (current_key st) (VList i)); cbn [bind]; try discriminate. congruence.
    Qed.

    Lemma while_step : forall v st, wf v -> bud st <= b -> T (fun F => interp_while F root) v st.
    Proof.
      intros v st Hw Hb. destruct (is_string v || is_vlist v) eqn:Eb.
      - destruct (T_at _ v st (fm_interp root) (interp_step v Hw st Hb)) as (F1 & r1 & Hn1 & H1).
        destruct r1 as [[v' st']| e | p |]; [| | |congruence].
        2,3: exists (S F1); cbn [interp_while]; rewrite Eb, (H1 _ (Nat.le_refl _)); discriminate.
        destruct (interp_closed _ _ _ _ _ _ Hroot Hw (H1 _ (Nat.le_refl _))) as [Hc _].
        destruct (closed_top _ Hc) as [Hs Hl].
        exists (S (S F1)). cbn [interp_while]. rewrite Eb, (H1 (S F1) ltac:(lia)). cbn [bind]. rewrite Hs, Hl. discriminate.
      - exists 1. cbn [interp_while]. rewrite Eb. discriminate.
    Qed.

    Lemma wstr_step : forall v st, wf v -> bud st <= b -> T (fun F => interp_while_str F root) v st.
    Proof.
      intros v st Hw Hb. destruct (is_string v) eqn:Eb.
      - destruct (T_at _ v st (fm_interp root) (interp_step v Hw st Hb)) as (F1 & r1 & Hn1 & H1).
        destruct r1 as [[v' st']| e | p |]; [| | |congruence].
        2,3: exists (S F1); cbn [interp_while_str]; rewrite Eb, (H1 _ (Nat.le_refl _)); discriminate.
        destruct (interp_closed _ _ _ _ _ _ Hroot Hw (H1 _ (Nat.le_refl _))) as [Hc _].
        destruct (closed_top _ Hc) as [Hs Hl].
        exists (S (S F1)). cbn [interp_while_str]. rewrite Eb, (H1 (S F1) ltac:(lia)). cbn [bind]. rewrite Hs. discriminate.
      - exists 1. cbn [interp_while_str]. rewrite Eb. discriminate.
    Qed.

    Lemma all_step : ALL b.
    Proof.
      constructor.
      - intros v st Hw Hb. exact (interp_step v Hw st Hb).
      - exact resolve_step.
      - intros ts st Hb. apply (slice_from_resolve ts); [|exact Hb]. intros t _ s Hs. exact (resolve_step t s Hs).
      - exact sov_step.
      - exact while_step.
      - exact wstr_step.
      - exact render_step.
    Qed.
  End Step.

  Theorem all_budgets : forall b, ALL b.
  Proof. induction b as [b IH] using lt_wf_ind. exact (all_step b IH). Qed.

  (** Rendering always comes back: every well-formed value under every state. *)
  Theorem interp_terminates v st : wf v -> exists F, interp F root v st <> OutOfFuel.
  Proof. intros Hw. exact (A_interp _ (all_budgets (bud st)) v st Hw (Nat.le_refl _)). Qed.

  Theorem interp_total v st :
    wf v -> exists F r, r <> OutOfFuel /\ forall F', F <= F' -> interp F' root v st = r.
  Proof. intros Hw. exact (T_at _ v st (fm_interp root) (interp_terminates v st Hw)). Qed.
End Main.

(** Value::render_with_self on a well-formed mapping: a fuel from which on the outcome is the
    same value or the same error. *)
Theorem render_with_self_total m :
  wf (VMap m) -> exists F r, r <> OutOfFuel /\ forall F', F <= F' -> render_with_self F' (VMap m) = r.
Proof.
  intros Hw. destruct (interp_total m Hw (VMap m) st0 Hw) as (F & r & Hn & H).
  exists F. eexists. split; [|intros F' HF; cbn [render_with_self]; unfold rendered; rewrite (H F' HF); reflexivity].
  destruct r as [[v' st]| | |]; cbn [map_err bind]; try discriminate; [|congruence].
  apply flattened_nofuel.
Qed.

(* The fuelled interpreter (Model/Interp.v): on well-formed input every successful result is
   closed data (C07); used for the unreachability of the merge panics (C11). *)
From RV Require Import Model.Interp Proofs.ValueFacts Proofs.MappingFacts Proofs.WfFacts.

Definition cb_closed (call : callback) : Prop :=
  forall v st v' st', wf v -> call v st = Ok (v', st') -> closed v' /\ wf v'.

Lemma closed_top_ok v : closed v -> top_ok v.
Proof. intros H. apply closed_top in H. exact H. Qed.

Lemma seq_loop_closed call st : cb_closed call -> forall s idx l,
  Forall wf s -> seq_loop call st s idx = Ok l -> Forall closed l /\ Forall wf l.
Proof.
  intros Hc. induction s as [|x s IH]; intros idx l Hw H; cbn [seq_loop] in H.
  - injection H as <-. split; constructor.
  - inversion Hw as [|? ? Hx Hs]; subst.
    destruct (call x (push_list_index st idx)) as [[e st1]| | |] eqn:E; cbn [bind] in H; try discriminate.
    destruct (seq_loop call st s (S idx)) as [es| | |] eqn:E2; cbn [bind] in H; try discriminate.
    injection H as <-. destruct (Hc _ _ _ _ Hx E) as [H1 H2]. destruct (IH _ _ Hs E2) as [H3 H4].
    split; constructor; assumption.
Qed.

Lemma vlist_loop_inv call st : cb_closed call -> forall l r r',
  Forall wf l -> wf r -> top_ok r -> vlist_loop call st l r = Ok r' -> wf r' /\ top_ok r'.
Proof.
  intros Hc. induction l as [|x l IH]; intros r r' Hw Hr Ht H; cbn [vlist_loop] in H.
  - injection H as <-. split; assumption.
  - inversion Hw as [|? ? Hx Hl]; subst.
    destruct (call x st) as [[iv st1]| | |] eqn:E; cbn [bind] in H; try discriminate.
    destruct (value_merge (current_key st1) r iv) as [r1| | |] eqn:Em; cbn [bind] in H; try discriminate.
    destruct (Hc _ _ _ _ Hx E) as [Hic Hiw].
    exact (IH r1 r' Hl (value_merge_wf _ _ _ _ Hr Hiw Em) (value_merge_top _ _ _ _ (closed_top_ok _ Hic) Em) H).
Qed.

Lemma map_loop_closed call st : cb_closed call -> forall es acc m',
  Forall (fun e => wf (e_val e)) es -> Forall unmarked (keys es) -> NoDup (keys acc ++ keys es) ->
  closed (VMap acc) -> wf (VMap acc) ->
  map_loop call st es acc = Ok m' ->
  closed (VMap m') /\ wf (VMap m') /\ keys m' = keys acc ++ keys es.
Proof.
  intros Hc. induction es as [|[[[k v] c] o] es IH]; intros acc m' Hv Hum Hnd Hca Hwa H; cbn [map_loop] in H.
  - injection H as <-. split; [exact Hca | split; [exact Hwa|]]. unfold keys. cbn [map]. now rewrite app_nil_r.
  - inversion Hv as [|? ? Hvx Hvs]; subst. inversion Hum as [|? ? Hk Hks]; subst. cbn [e_val e_key fst snd] in *.
    destruct (push_mapping_key st k) as [st1| | |]; cbn [bind] in H; try discriminate.
    destruct (call v st1) as [[v' st2]| | |] eqn:E; cbn [bind] in H; try discriminate.
    destruct (Hc _ _ _ _ Hvx E) as [Hvc Hvw].
    rewrite (flattened_closed_id _ v' Hvc Hvw) in H. cbn [bind] in H.
    assert (Ha : m_find (stripped k) acc = None).
    { destruct (unmarked_stripped k Hk) as [-> _]. apply m_find_none_keys.
      cbn [keys map e_key fst] in Hnd. apply NoDup_remove_2 in Hnd. intros Hin. apply Hnd, in_or_app. now left. }
    assert (Hins : insert_impl acc k v' c o = Ok (acc ++ [mk_entry k v' c o])).
    { rewrite (insert_absent _ _ _ _ _ Ha). destruct (unmarked_stripped k Hk) as [-> ->]. reflexivity. }
    rewrite Hins in H. cbn [bind] in H.
    destruct (IH (acc ++ [mk_entry k v' c o]) m' Hvs Hks) as (H1 & H2 & H3); try exact H.
    + unfold keys in *. rewrite map_app, <- app_assoc. exact Hnd.
    + apply closed_map_iff. apply Forall_app. split; [now apply closed_map_iff | constructor; [exact Hvc | constructor]].
    + exact (insert_wf _ _ _ _ _ _ Hwa Hvw Hk Hins).
    + split; [exact H1 | split; [exact H2|]]. rewrite H3. unfold keys. rewrite map_app, <- app_assoc. reflexivity.
Qed.

Lemma walk_loop_wf sov path :
  (forall v st v' st', wf v -> sov v st = Ok (v', st') -> wf v' /\ top_ok v') ->
  forall segs v st trav v' st', wf v -> walk_loop sov path segs v st trav = Ok (v', st') -> wf v'.
Proof.
  intros Hs. induction segs as [|key segs IH]; intros v st trav v' st' Hw H; cbn [walk_loop] in H.
  - injection H as <- _. exact Hw.
  - destruct (sov v st) as [[newv st1]| | |] eqn:E; cbn [bind] in H; try discriminate.
    destruct (Hs _ _ _ _ Hw E) as [Hn _].
    destruct newv; try discriminate.
    destruct (m_get (VStr key) es) as [v1|] eqn:G; [|discriminate].
    eapply IH; [|exact H]. eapply wf_get; eauto.
Qed.

Lemma sov_loop_wf call st : cb_closed call -> forall l l',
  Forall (fun x => wf x /\ is_vlist x = false) l -> sov_loop call st l = Ok l' ->
  Forall (fun x => wf x /\ top_ok x) l'.
Proof.
  intros Hc. induction l as [|x l IH]; intros l' Hw H; cbn [sov_loop] in H.
  - injection H as <-. constructor.
  - inversion Hw as [|? ? [Hx Hxl] Hl]; subst.
    destruct (is_string x) eqn:Es.
    + destruct (call x st) as [[y st1]| | |] eqn:E; cbn [bind] in H; try discriminate.
      destruct (sov_loop call st l) as [r| | |] eqn:E2; cbn [bind] in H; try discriminate.
      injection H as <-. destruct (Hc _ _ _ _ Hx E) as [Hyc Hyw].
      constructor; [split; [exact Hyw | apply closed_top_ok, Hyc] | apply IH; auto].
    + cbn [bind] in H. destruct (sov_loop call st l) as [r| | |] eqn:E2; cbn [bind] in H; try discriminate.
      injection H as <-. constructor; [split; [exact Hx | split; assumption] | apply IH; auto].
Qed.

Section Main.
Variable root : mapping.
Hypothesis Hroot : wf (VMap root).

Definition P_interp f := forall v st v' st', wf v -> interp f root v st = Ok (v', st') -> closed v' /\ wf v'.
Definition P_map f := forall m st m', wf (VMap m) -> mapping_interp f root m st = Ok m' -> closed (VMap m') /\ wf (VMap m') /\ keys m' = keys m.
Definition P_render f := forall t st v' st', token_render f root t st = Ok (v', st') -> closed v' /\ wf v'.
Definition P_resolve f := forall t st v' st', token_resolve f root t st = Ok (v', st') -> wf v' /\ top_ok v'.
Definition P_sov f := forall v st v' st', wf v -> interp_sov f root v st = Ok (v', st') -> wf v' /\ top_ok v'.
Definition P_while f := forall v st v' st', wf v -> interp_while f root v st = Ok (v', st') -> wf v' /\ top_ok v'.
Definition P_while_str f := forall v st v' st', wf v -> interp_while_str f root v st = Ok (v', st') -> wf v'.

Definition P_all f := P_interp f /\ P_map f /\ P_render f /\ P_resolve f /\ P_sov f /\ P_while f /\ P_while_str f.

Lemma interp_facts : forall f, P_all f.
Proof.
  induction f as [|f (Hi & Hm & Hr & Hs & Hv & Hw & Hws)].
  - unfold P_all, P_interp, P_map, P_render, P_resolve, P_sov, P_while, P_while_str.
    split; [|split; [|split; [|split; [|split; [|split]]]]]; intros *; cbn; try discriminate; intros; discriminate.
  - assert (Hcb : cb_closed (interp f root)) by exact Hi.
    split; [|split; [|split; [|split; [|split; [|split]]]]].
    + (* interp *)
      intros v st v' st' Hwv H. cbn [interp] in H. destruct v as [| b | s | s | n | es | l | l].
      * injection H as <- _. split; exact I.
      * injection H as <- _. split; exact I.
      * destruct (token_parse s); try discriminate.
        -- injection H as <- _. split; exact I.
        -- eapply Hr; eauto.
      * injection H as <- _. split; exact I.
      * injection H as <- _. split; exact I.
      * destruct (mapping_interp f root es st) as [m'| | |] eqn:E; cbn [bind] in H; try discriminate.
        injection H as <- _. destruct (Hm _ _ _ Hwv E) as (H1 & H2 & _). split; assumption.
      * destruct (seq_loop (interp f root) st l 0) as [l'| | |] eqn:E; cbn [bind] in H; try discriminate.
        injection H as <- _. apply wf_seq_iff in Hwv.
        destruct (seq_loop_closed _ _ Hcb _ _ _ Hwv E) as [H1 H2].
        split; [now apply closed_seq_iff | now apply wf_seq_iff].
      * destruct (vlist_loop (interp f root) st l VNull) as [r| | |] eqn:E; cbn [bind] in H; try discriminate.
        apply wf_list_elems in Hwv.
        destruct (vlist_loop_inv _ _ Hcb l VNull r Hwv I (conj eq_refl eq_refl) E) as [Hrw _].
        eapply Hi; eauto.
    + (* mapping_interp *)
      intros m st m' Hwm H. cbn [mapping_interp] in H.
      apply wf_map_iff in Hwm as (Hnd & Hum & Hvs).
      destruct (map_loop_closed _ st Hcb m [] m' Hvs Hum Hnd I) as (H1 & H2 & H3); try exact H.
      -- apply wf_map_iff. repeat split; constructor.
      -- split; [exact H1 | split; [exact H2|]]. rewrite H3. reflexivity.
    + (* token_render *)
      intros t st v' st' H. cbn [token_render] in H. destruct t as [s | ts | ts].
      * destruct (token_resolve f root (TLit s) st) as [[v st1]| | |]; cbn [bind] in H; try discriminate.
        destruct (raw_string v); cbn [bind] in H; try discriminate. injection H as <- _. split; exact I.
      * destruct (token_resolve f root (TRef ts) st) as [[v st1]| | |] eqn:E; cbn [bind] in H; try discriminate.
        destruct (Hs _ _ _ _ E) as [Hwv _]. eapply Hi; eauto.
      * destruct (token_resolve f root (TComb ts) st) as [[v st1]| | |]; cbn [bind] in H; try discriminate.
        destruct (raw_string v); cbn [bind] in H; try discriminate. injection H as <- _. split; exact I.
    + (* token_resolve *)
      intros t st v' st' H. cbn [token_resolve] in H. destruct t as [s | parts | ts].
      * injection H as <- _. split; [exact I | split; reflexivity].
      * destruct (Nat.ltb RESOLVE_MAX_DEPTH (depth (with_depth st (S (depth st))))); [discriminate|].
        destruct (token_slice f root parts (with_depth st (S (depth st)))) as [path| | |]; cbn [bind] in H; try discriminate.
        destruct (mem path (seen (with_depth st (S (depth st))))); [discriminate|].
        destruct (split_on ":" path) as [|k0 segs]; [discriminate|].
        destruct (m_get (VStr k0) root) as [v0|] eqn:G; [|discriminate].
        destruct (walk_loop (interp_sov f root) path segs v0 (add_seen (with_depth st (S (depth st))) path) [k0])
          as [[v st3]| | |] eqn:Ew; cbn [bind] in H; try discriminate.
        assert (Hwv : wf v).
        { eapply walk_loop_wf; [exact Hv | | exact Ew]. eapply wf_get; eauto. }
        eapply Hw; eauto.
      * destruct (token_slice f root ts st); cbn [bind] in H; try discriminate.
        injection H as <- _. split; [exact I | split; reflexivity].
    + (* interp_sov *)
      intros v st v' st' Hwv H. cbn [interp_sov] in H. destruct v as [| b | s | s | n | es | l | l];
        try (injection H as <- _; split; [exact Hwv | split; reflexivity]).
      * destruct (Hi _ _ _ _ Hwv H) as [Hc1 Hw1]. split; [exact Hw1 | apply closed_top_ok, Hc1].
      * destruct (sov_loop (interp f root) st l) as [i| | |] eqn:E; cbn [bind] in H; try discriminate.
        destruct (flattened (current_key st) (VList i)) as [r| | |] eqn:Ef; cbn [bind] in H; try discriminate.
        injection H as <- _. apply wf_list_iff in Hwv.
        pose proof (sov_loop_wf _ _ Hcb _ _ Hwv E) as Hwi. split.
        -- eapply flattened_wf; [|exact Ef]. apply wf_list_iff.
           eapply Forall_impl; [|exact Hwi]. intros a [Ha [_ Hb]]. split; assumption.
        -- exact (proj2 (flattened_layers _ _ Hwi) _ Ef).
    + (* interp_while *)
      intros v st v' st' Hwv H. cbn [interp_while] in H.
      destruct (is_string v || is_vlist v) eqn:Eb.
      * destruct (interp f root v st) as [[v1 st1]| | |] eqn:E; cbn [bind] in H; try discriminate.
        destruct (Hi _ _ _ _ Hwv E) as [_ Hw1]. eapply Hw; eauto.
      * injection H as <- _. apply orb_false_iff in Eb. split; [exact Hwv | exact Eb].
    + (* interp_while_str *)
      intros v st v' st' Hwv H. cbn [interp_while_str] in H.
      destruct (is_string v).
      * destruct (interp f root v st) as [[v1 st1]| | |] eqn:E; cbn [bind] in H; try discriminate.
        destruct (Hi _ _ _ _ Hwv E) as [_ Hw1]. eapply Hws; eauto.
      * injection H as <- _. exact Hwv.
Qed.

End Main.

(** C07: successfully rendered values are closed data, and well-formed *)
Theorem interp_closed f root v st v' st' :
  wf (VMap root) -> wf v -> interp f root v st = Ok (v', st') -> closed v' /\ wf v'.
Proof. intros Hr Hv H. exact (proj1 (interp_facts root Hr f) v st v' st' Hv H). Qed.

Theorem rendered_closed f root v r :
  wf (VMap root) -> wf v -> rendered f root v = Ok r -> closed r /\ wf r.
Proof.
  intros Hr Hv. unfold rendered.
  destruct (interp f root v st0) as [[v' st]| | |] eqn:E; cbn [map_err bind]; try discriminate.
  destruct (interp_closed _ _ _ _ _ _ Hr Hv E) as [Hc Hw].
  rewrite (flattened_closed_id _ v' Hc Hw). intros H; injection H as <-. split; assumption.
Qed.

Theorem render_with_self_closed f v r :
  wf v -> render_with_self f v = Ok r -> closed r /\ wf r.
Proof.
  intros Hv. unfold render_with_self. destruct v; try discriminate. intros H. eapply rendered_closed; eauto.
Qed.

(** C07: the keys of a rendered mapping are the keys as written (markers were stripped when the
    YAML mapping was converted), in the same order *)
Theorem mapping_interp_keys f root m st m' :
  wf (VMap root) -> wf (VMap m) -> mapping_interp f root m st = Ok m' -> keys m' = keys m.
Proof. intros Hr Hm H. exact (proj2 (proj2 (proj1 (proj2 (interp_facts root Hr f)) m st m' Hm H))). Qed.

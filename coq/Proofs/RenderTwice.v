(* C07 end to end: the rendered parameters are a fixed point of rendering -- rendering what a
   render returned again, against itself or against any other parameters, with the same fuel,
   returns it unchanged.  No hypothesis on the shape of keys or on the fuel: a rendered value
   renders to itself within the fuel that produced it (Proofs/Twin.v, result_self). *)
From RV Require Import Model.Interp Proofs.ValueFacts Proofs.MappingFacts Proofs.WfFacts Proofs.InterpFacts Proofs.Twin.

Theorem render_result_is_a_fixed_point f root r :
  wf (VMap root) -> render_with_self f (VMap root) = Ok r ->
  (forall R, rendered f R r = Ok r) /\ render_with_self f r = Ok r.
Proof.
  intros Hroot H. cbn [render_with_self] in H. unfold rendered in H.
  destruct (interp f root (VMap root) st0) as [[v s1]| | |] eqn:E; cbn [map_err bind] in H; try discriminate.
  destruct (interp_closed _ _ _ _ _ _ Hroot Hroot E) as [Hc Hw].
  rewrite (flattened_closed_id _ v Hc Hw) in H. injection H as <-.
  assert (G : forall R, rendered f R v = Ok v).
  { intros R. unfold rendered. rewrite (result_self root Hroot f (VMap root) st0 v s1 Hroot E R st0). cbn [map_err bind].
    exact (flattened_closed_id _ v Hc Hw). }
  split; [exact G|].
  assert (Hm : exists m, v = VMap m).
  { destruct f as [|f1]; [discriminate|]. cbn [interp] in E.
    destruct (mapping_interp f1 root root st0); cbn [bind] in E; try discriminate. injection E as <- _. eexists; reflexivity. }
  destruct Hm as [m ->]. cbn [render_with_self]. apply G.
Qed.

(** the same for any value rendered anywhere (a class-name entry, a member) *)
Theorem rendered_value_is_a_fixed_point f root v st w st1 :
  wf (VMap root) -> wf v -> interp f root v st = Ok (w, st1) -> forall R st2, interp f R w st2 = Ok (w, st2).
Proof. intros Hroot Hw H. exact (result_self root Hroot f v st w st1 Hw H). Qed.

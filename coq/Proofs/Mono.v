(* Fuel monotonicity: once the interpreter returns anything but OutOfFuel, more fuel returns
   the same.  So "the" result of rendering is well defined: fuel is only the model's bound on
   the call depth, never an input of the code. *)
From RV Require Import Model.Interp.

Definition cb_mono {A B} (call call' : A -> rstate -> res B) : Prop :=
  forall v st r, call v st = r -> r <> OutOfFuel -> call' v st = r.

Ltac nofuel H := let X := fresh in intro X; apply H; rewrite X; reflexivity.

Lemma seq_loop_mono call call' : cb_mono call call' -> forall s idx st r,
  seq_loop call st s idx = r -> r <> OutOfFuel -> seq_loop call' st s idx = r.
Proof.
  intros Hc. induction s as [|x s IH]; intros idx st r H Hn; cbn [seq_loop] in *; [exact H|].
  destruct (call x (push_list_index st idx)) as [[e s1]| | |] eqn:E; cbn [bind] in H.
  - rewrite (Hc _ _ _ E) by discriminate. cbn [bind].
    destruct (seq_loop call st s (S idx)) as [es| | |] eqn:E2; cbn [bind] in H.
    + rewrite (IH _ _ _ E2) by discriminate. exact H.
    + rewrite (IH _ _ _ E2) by discriminate. exact H.
    + rewrite (IH _ _ _ E2) by discriminate. exact H.
    + subst r. congruence.
  - rewrite (Hc _ _ _ E) by discriminate. exact H.
  - rewrite (Hc _ _ _ E) by discriminate. exact H.
  - subst r. congruence.
Qed.

Lemma vlist_loop_mono call call' : cb_mono call call' -> forall l b st r,
  vlist_loop call st l b = r -> r <> OutOfFuel -> vlist_loop call' st l b = r.
Proof.
  intros Hc. induction l as [|x l IH]; intros b st r H Hn; cbn [vlist_loop] in *; [exact H|].
  destruct (call x st) as [[iv s1]| | |] eqn:E; cbn [bind] in H; try (rewrite (Hc _ _ _ E) by discriminate; exact H).
  - rewrite (Hc _ _ _ E) by discriminate. cbn [bind].
    destruct (value_merge (current_key s1) b iv); cbn [bind] in *; try exact H. apply IH; assumption.
  - subst r. congruence.
Qed.

Lemma map_loop_mono call call' : cb_mono call call' -> forall es acc st r,
  map_loop call st es acc = r -> r <> OutOfFuel -> map_loop call' st es acc = r.
Proof.
  intros Hc. induction es as [|[[[k v] c] o] es IH]; intros acc st r H Hn; cbn [map_loop] in *; [exact H|].
  destruct (push_mapping_key st k) as [s1| | |]; cbn [bind] in *; try exact H.
  destruct (call v s1) as [[v' s2]| | |] eqn:E; cbn [bind] in H; try (rewrite (Hc _ _ _ E) by discriminate; exact H).
  - rewrite (Hc _ _ _ E) by discriminate. cbn [bind].
    destruct (flattened (current_key s2) v'); cbn [bind] in *; try exact H.
    destruct (insert_impl acc k a c o); cbn [bind] in *; try exact H. apply IH; assumption.
  - subst r. congruence.
Qed.

Lemma walk_loop_mono sov sov' path : cb_mono sov sov' -> forall segs v st trav r,
  walk_loop sov path segs v st trav = r -> r <> OutOfFuel -> walk_loop sov' path segs v st trav = r.
Proof.
  intros Hc. induction segs as [|key segs IH]; intros v st trav r H Hn; cbn [walk_loop] in *; [exact H|].
  destruct (sov v st) as [[nv s1]| | |] eqn:E; cbn [bind] in H; try (rewrite (Hc _ _ _ E) by discriminate; exact H).
  - rewrite (Hc _ _ _ E) by discriminate. cbn [bind]. destruct nv; try exact H.
    destruct (m_get (VStr key) es); [apply IH; assumption | exact H].
  - subst r. congruence.
Qed.

Lemma sov_loop_mono call call' : cb_mono call call' -> forall l st r,
  sov_loop call st l = r -> r <> OutOfFuel -> sov_loop call' st l = r.
Proof.
  intros Hc. induction l as [|x l IH]; intros st r H Hn; cbn [sov_loop] in *; [exact H|].
  destruct (is_string x).
  - destruct (call x st) as [[y s1]| | |] eqn:E; cbn [bind] in H; try (rewrite (Hc _ _ _ E) by discriminate; exact H).
    + rewrite (Hc _ _ _ E) by discriminate. cbn [bind].
      destruct (sov_loop call st l) as [rr| | |] eqn:E2; cbn [bind] in H; try (rewrite (IH _ _ E2) by discriminate; exact H).
      subst r. congruence.
    + subst r. congruence.
  - cbn [bind] in *. destruct (sov_loop call st l) as [rr| | |] eqn:E2; cbn [bind] in H; try (rewrite (IH _ _ E2) by discriminate; exact H).
    subst r. congruence.
Qed.

Lemma slice_loop_mono resolve resolve' ws ws' call call' :
  cb_mono resolve resolve' -> cb_mono ws ws' -> cb_mono call call' -> forall ts st r,
  slice_loop resolve ws call st ts = r -> r <> OutOfFuel -> slice_loop resolve' ws' call' st ts = r.
Proof.
  intros Hr Hw Hc. induction ts as [|t ts IH]; intros st r H Hn; cbn [slice_loop] in *; [exact H|].
  destruct (resolve t st) as [[v s1]| | |] eqn:E; cbn [bind] in H; try (rewrite (Hr _ _ _ E) by discriminate; exact H).
  2:{ subst r. congruence. }
  rewrite (Hr _ _ _ E) by discriminate. cbn [bind].
  destruct (ws v s1) as [[v' s2]| | |] eqn:E2; cbn [bind] in H; try (rewrite (Hw _ _ _ E2) by discriminate; exact H).
  2:{ subst r. congruence. }
  rewrite (Hw _ _ _ E2) by discriminate. cbn [bind].
  assert (E3' : forall x, (if is_mapping v' || is_sequence v' then call v' s2 else Ok (v', s2)) = x -> x <> OutOfFuel ->
                      (if is_mapping v' || is_sequence v' then call' v' s2 else Ok (v', s2)) = x).
  { intros x Hx Hnx. destruct (is_mapping v' || is_sequence v'); [apply Hc; assumption | exact Hx]. }
  destruct (if is_mapping v' || is_sequence v' then call v' s2 else Ok (v', s2)) as [[v'' s3]| | |] eqn:E3; cbn [bind] in H;
    try (rewrite (E3' _ eq_refl) by discriminate; exact H).
  2:{ subst r. congruence. }
  rewrite (E3' _ eq_refl) by discriminate. cbn [bind].
  destruct (raw_string v''); cbn [bind] in *; try exact H.
  destruct (slice_loop resolve ws call st ts) as [rest| | |] eqn:E4; cbn [bind] in H; try (rewrite (IH _ _ E4) by discriminate; exact H).
  subst r. congruence.
Qed.

Section Main.
Variable root : mapping.

Definition M_all f :=
  cb_mono (interp f root) (interp (S f) root) /\
  cb_mono (mapping_interp f root) (mapping_interp (S f) root) /\
  cb_mono (token_render f root) (token_render (S f) root) /\
  cb_mono (token_resolve f root) (token_resolve (S f) root) /\
  cb_mono (token_slice f root) (token_slice (S f) root) /\
  cb_mono (interp_sov f root) (interp_sov (S f) root) /\
  cb_mono (interp_while f root) (interp_while (S f) root) /\
  cb_mono (interp_while_str f root) (interp_while_str (S f) root).

Lemma mono_facts : forall f, M_all f.
Proof.
  induction f as [|f (Hi & Hm & Hr & Hs & Hsl & Hv & Hw & Hws)].
  - unfold M_all, cb_mono. repeat split; intros v st r H Hn; cbn in H; subst r; congruence.
  - split; [|split; [|split; [|split; [|split; [|split; [|split]]]]]].
    + (* interp *)
      intros v st r H Hn. remember (S f) as g. cbn [interp]. rewrite Heqg in H. cbn [interp] in H.
      destruct v as [| b | s | s | n | es | l | l]; try exact H.
      * destruct (token_parse s); try exact H. apply Hr; assumption.
      * destruct (mapping_interp f root es st) as [m| | |] eqn:E; cbn [bind] in H; try (rewrite (Hm _ _ _ E) by discriminate; exact H).
        subst r. congruence.
      * destruct (seq_loop (interp f root) st l 0) as [l'| | |] eqn:E; cbn [bind] in H;
          try (rewrite (seq_loop_mono _ _ Hi _ _ _ _ E) by discriminate; exact H).
        subst r. congruence.
      * destruct (vlist_loop (interp f root) st l VNull) as [b| | |] eqn:E; cbn [bind] in H;
          try (rewrite (vlist_loop_mono _ _ Hi _ _ _ _ E) by discriminate; exact H).
        -- rewrite (vlist_loop_mono _ _ Hi _ _ _ _ E) by discriminate. cbn [bind]. apply Hi; assumption.
        -- subst r. congruence.
    + (* mapping_interp *)
      intros m st r H Hn. remember (S f) as g. cbn [mapping_interp]. rewrite Heqg in H. cbn [mapping_interp] in H.
      apply (map_loop_mono _ _ Hi); assumption.
    + (* token_render *)
      intros t st r H Hn. remember (S f) as g. cbn [token_render]. rewrite Heqg in H. cbn [token_render] in H.
      destruct t as [s | ts | ts].
      * destruct (token_resolve f root (TLit s) st) as [[v s1]| | |] eqn:E; cbn [bind] in H; try (rewrite (Hs _ _ _ E) by discriminate; exact H).
        subst r. congruence.
      * destruct (token_resolve f root (TRef ts) st) as [[v s1]| | |] eqn:E; cbn [bind] in H; try (rewrite (Hs _ _ _ E) by discriminate; exact H).
        -- rewrite (Hs _ _ _ E) by discriminate. cbn [bind]. apply Hi; assumption.
        -- subst r. congruence.
      * destruct (token_resolve f root (TComb ts) st) as [[v s1]| | |] eqn:E; cbn [bind] in H; try (rewrite (Hs _ _ _ E) by discriminate; exact H).
        subst r. congruence.
    + (* token_resolve *)
      intros t st r H Hn. remember (S f) as g. cbn [token_resolve]. rewrite Heqg in H. cbn [token_resolve] in H.
      destruct t as [s | parts | ts]; try exact H.
      * destruct (Nat.ltb RESOLVE_MAX_DEPTH (depth (with_depth st (S (depth st))))); [exact H|].
        destruct (token_slice f root parts (with_depth st (S (depth st)))) as [path| | |] eqn:E; cbn [bind] in H;
          try (rewrite (Hsl _ _ _ E) by discriminate; exact H).
        2:{ subst r. congruence. }
        rewrite (Hsl _ _ _ E) by discriminate. cbn [bind].
        destruct (mem path (seen (with_depth st (S (depth st))))); [exact H|].
        destruct (split_on ":" path) as [|k0 segs]; [exact H|].
        destruct (m_get (VStr k0) root) as [v0|]; [|exact H].
        destruct (walk_loop (interp_sov f root) path segs v0 (add_seen (with_depth st (S (depth st))) path) [k0]) as [[v s3]| | |] eqn:Ew;
          cbn [bind] in H; try (rewrite (walk_loop_mono _ _ _ Hv _ _ _ _ _ Ew) by discriminate; exact H).
        -- rewrite (walk_loop_mono _ _ _ Hv _ _ _ _ _ Ew) by discriminate. cbn [bind]. apply Hw; assumption.
        -- subst r. congruence.
      * destruct (token_slice f root ts st) as [s| | |] eqn:E; cbn [bind] in H; try (rewrite (Hsl _ _ _ E) by discriminate; exact H).
        subst r. congruence.
    + (* token_slice *)
      intros ts st r H Hn. remember (S f) as g. cbn [token_slice]. rewrite Heqg in H. cbn [token_slice] in H.
      apply (slice_loop_mono _ _ _ _ _ _ Hs Hws Hi); assumption.
    + (* interp_sov *)
      intros v st r H Hn. remember (S f) as g. cbn [interp_sov]. rewrite Heqg in H. cbn [interp_sov] in H.
      destruct v as [| b | s | s | n | es | l | l]; try exact H.
      * apply Hi; assumption.
      * destruct (sov_loop (interp f root) st l) as [i| | |] eqn:E; cbn [bind] in H;
          try (rewrite (sov_loop_mono _ _ Hi _ _ _ E) by discriminate; exact H).
        subst r. congruence.
    + (* interp_while *)
      intros v st r H Hn. remember (S f) as g. cbn [interp_while]. rewrite Heqg in H. cbn [interp_while] in H.
      destruct (is_string v || is_vlist v); [|exact H].
      destruct (interp f root v st) as [[v1 s1]| | |] eqn:E; cbn [bind] in H; try (rewrite (Hi _ _ _ E) by discriminate; exact H).
      -- rewrite (Hi _ _ _ E) by discriminate. cbn [bind]. apply Hw; assumption.
      -- subst r. congruence.
    + (* interp_while_str *)
      intros v st r H Hn. remember (S f) as g. cbn [interp_while_str]. rewrite Heqg in H. cbn [interp_while_str] in H.
      destruct (is_string v); [|exact H].
      destruct (interp f root v st) as [[v1 s1]| | |] eqn:E; cbn [bind] in H; try (rewrite (Hi _ _ _ E) by discriminate; exact H).
      -- rewrite (Hi _ _ _ E) by discriminate. cbn [bind]. apply Hws; assumption.
      -- subst r. congruence.
Qed.

End Main.

Theorem interp_fuel_mono root : forall f f' v st r,
  f <= f' -> interp f root v st = r -> r <> OutOfFuel -> interp f' root v st = r.
Proof.
  intros f f' v st r Hle. induction Hle as [|f' Hle IH]; intros H Hn; [exact H|].
  apply (proj1 (mono_facts root f')); [apply IH; assumption | assumption].
Qed.

(* C11: on well-formed input, no panic site of the interpreter is reachable. *)
From RV Require Import Model.Interp Proofs.ValueFacts Proofs.MappingFacts Proofs.WfFacts Proofs.InterpFacts.

(** once check_json accepts a value, the JSON conversion cannot hit its todo!/panic! arms *)
Lemma to_json_no_panic : forall v, check_json v = Ok tt -> forall s, to_json v <> Panic s.
Proof.
  induction v as [| b | s0 | s0 | n | es IH | vs IH | vs IH] using value_ind'; intros Hc s; try discriminate.
  - cbn [to_json]. unfold rmap.
    assert (G : forall acc, (fix go (es : list entry) (acc : list (string * jvalue)) : res (list (string * jvalue)) :=
                  match es with
                  | [] => Ok acc
                  | (k, v, _, _) :: es' => ks <- json_key k ;; jv <- to_json v ;; go es' (bt_insert ks jv acc)
                  end) es acc <> Panic s).
    { cbn [check_json] in Hc. induction es as [|[[[k x] c] o] es IHes]; intros acc; [discriminate|].
      inversion IH as [|? ? [_ Hx] IHr]; subst. cbn [e_val fst snd] in Hx.
      destruct (is_mapping k || is_sequence k || is_vlist k) eqn:Ek; [discriminate|].
      destruct (check_json x) as [[]| | |] eqn:Ex; cbn [bind] in Hc; try discriminate.
      assert (Hk : exists ks, json_key k = Ok ks).
      { destruct k as [| [|] | | | | | |]; cbn in Ek; try discriminate; eexists; reflexivity. }
      destruct Hk as [ks ->]. cbn [bind].
      destruct (to_json x) as [jv| | |] eqn:Ej; cbn [bind]; try discriminate.
      - apply IHes; assumption.
      - exfalso. eapply Hx; eauto. }
    specialize (G []). destruct ((fix go (es0 : list entry) (acc : list (string * jvalue)) : res (list (string * jvalue)) := _) es []);
      cbn [bind]; congruence.
  - cbn [to_json]. unfold rmap.
    assert (G : (fix go (s : list value) : res (list jvalue) :=
                  match s with [] => Ok [] | x :: xs => y <- to_json x ;; ys <- go xs ;; Ok (y :: ys) end) vs <> Panic s).
    { cbn [check_json] in Hc. induction vs as [|x vs IHvs]; [discriminate|].
      inversion IH as [|? ? Hx IHr]; subst.
      destruct (check_json x) as [[]| | |] eqn:Ex; cbn [bind] in Hc; try discriminate.
      destruct (to_json x) as [jv| | |] eqn:Ej; cbn [bind]; try discriminate.
      - specialize (IHvs IHr Hc).
        destruct ((fix go (s : list value) : res (list jvalue) := _) vs); cbn [bind]; congruence.
      - exfalso. eapply Hx; eauto. }
    destruct ((fix go (s0 : list value) : res (list jvalue) := _) vs); cbn [bind]; congruence.
Qed.

Lemma check_json_no_panic : forall v s, check_json v <> Panic s.
Proof.
  induction v as [| b | s0 | s0 | n | es IH | vs IH | vs IH] using value_ind'; intros s; try discriminate.
  - cbn [check_json]. induction es as [|[[[k x] c] o] es IHes]; [discriminate|].
    inversion IH as [|? ? [_ Hx] IHr]; subst. cbn [e_val fst snd] in Hx.
    destruct (is_mapping k || is_sequence k || is_vlist k); [discriminate|].
    specialize (Hx s). destruct (check_json x) as [[]| | |]; cbn [bind]; try congruence. apply IHes, IHr.
  - cbn [check_json]. induction vs as [|x vs IHvs]; [discriminate|].
    inversion IH as [|? ? Hx IHr]; subst. specialize (Hx s).
    destruct (check_json x) as [[]| | |]; cbn [bind]; try congruence. apply IHvs, IHr.
Qed.

Lemma raw_string_no_panic v s : raw_string v <> Panic s.
Proof.
  destruct v as [| [|] | s0 | s0 | n | es | vs | vs]; cbn [raw_string]; try discriminate.
  - pose proof (check_json_no_panic (VMap es) s). destruct (check_json (VMap es)) as [[]| | |] eqn:E; cbn [bind]; try congruence.
    pose proof (to_json_no_panic _ E s). destruct (to_json (VMap es)); cbn [bind]; congruence.
  - pose proof (check_json_no_panic (VSeq vs) s). destruct (check_json (VSeq vs)) as [[]| | |] eqn:E; cbn [bind]; try congruence.
    pose proof (to_json_no_panic _ E s). destruct (to_json (VSeq vs)); cbn [bind]; congruence.
Qed.

Lemma raw_string_no_fuel v : raw_string v <> OutOfFuel.
Proof.
  assert (C : forall v, check_json v <> OutOfFuel).
  { induction v0 as [| b | s0 | s0 | n | es IH | vs IH | vs IH] using value_ind'; try discriminate.
    - cbn [check_json]. induction es as [|[[[k x] c] o] es IHes]; [discriminate|].
      inversion IH as [|? ? [_ Hx] IHr]; subst. cbn [e_val fst snd] in Hx.
      destruct (is_mapping k || is_sequence k || is_vlist k); [discriminate|].
      destruct (check_json x) as [[]| | |]; cbn [bind]; try congruence. apply IHes, IHr.
    - cbn [check_json]. induction vs as [|x vs IHvs]; [discriminate|].
      inversion IH as [|? ? Hx IHr]; subst.
      destruct (check_json x) as [[]| | |]; cbn [bind]; try congruence. apply IHvs, IHr. }
  assert (T : forall v, to_json v <> OutOfFuel).
  { induction v0 as [| b | s0 | s0 | n | es IH | vs IH | vs IH] using value_ind'; try discriminate.
    - cbn [to_json]. unfold rmap.
      assert (G : forall acc, (fix go (es : list entry) (acc : list (string * jvalue)) : res (list (string * jvalue)) :=
                    match es with
                    | [] => Ok acc
                    | (k, v, _, _) :: es' => ks <- json_key k ;; jv <- to_json v ;; go es' (bt_insert ks jv acc)
                    end) es acc <> OutOfFuel).
      { induction es as [|[[[k x] c] o] es IHes]; intros acc; [discriminate|].
        inversion IH as [|? ? [_ Hx] IHr]; subst. cbn [e_val fst snd] in Hx.
        destruct (json_key k) eqn:Ek; cbn [bind]; try discriminate.
        - destruct (to_json x); cbn [bind]; try congruence. apply IHes, IHr.
        - destruct k as [| [|] | | | | | |]; discriminate. }
      specialize (G []). destruct ((fix go (es0 : list entry) (acc : list (string * jvalue)) : res (list (string * jvalue)) := _) es []);
        cbn [bind]; congruence.
    - cbn [to_json]. unfold rmap.
      assert (G : (fix go (s : list value) : res (list jvalue) :=
                    match s with [] => Ok [] | x :: xs => y <- to_json x ;; ys <- go xs ;; Ok (y :: ys) end) vs <> OutOfFuel).
      { induction vs as [|x vs IHvs]; [discriminate|]. inversion IH as [|? ? Hx IHr]; subst.
        destruct (to_json x); cbn [bind]; try congruence. specialize (IHvs IHr).
        destruct ((fix go (s : list value) : res (list jvalue) := _) vs); cbn [bind]; congruence. }
      destruct ((fix go (s0 : list value) : res (list jvalue) := _) vs); cbn [bind]; congruence. }
  destruct v as [| [|] | s0 | s0 | n | es | vs | vs]; cbn [raw_string]; try discriminate.
  - pose proof (C (VMap es)). destruct (check_json (VMap es)) as [[]| | |]; cbn [bind]; try congruence.
    pose proof (T (VMap es)). destruct (to_json (VMap es)); cbn [bind]; congruence.
  - pose proof (C (VSeq vs)). destruct (check_json (VSeq vs)) as [[]| | |]; cbn [bind]; try congruence.
    pose proof (T (VSeq vs)). destruct (to_json (VSeq vs)); cbn [bind]; congruence.
Qed.

Lemma push_mapping_key_no_panic st k s : push_mapping_key st k <> Panic s.
Proof.
  unfold push_mapping_key. pose proof (raw_string_no_panic k s) as Hp.
  destruct (raw_string k) eqn:E; try discriminate; try congruence.
  destruct k as [| [|] | s0 | s0 | n | es | vs | vs]; cbn [raw_string] in E; try discriminate.
Qed.

Definition cb_nopanic (call : callback) : Prop := forall v st s, wf v -> call v st <> Panic s.

Lemma seq_loop_no_panic call st : cb_closed call -> cb_nopanic call -> forall s idx p,
  Forall wf s -> seq_loop call st s idx <> Panic p.
Proof.
  intros Hc Hn. induction s as [|x s IH]; intros idx p Hw; cbn [seq_loop]; [discriminate|].
  inversion Hw as [|? ? Hx Hs]; subst. specialize (Hn x (push_list_index st idx) p Hx).
  destruct (call x (push_list_index st idx)) as [[e st1]| | |]; cbn [bind]; try congruence.
  specialize (IH (S idx) p Hs). destruct (seq_loop call st s (S idx)); cbn [bind]; congruence.
Qed.

Lemma vlist_loop_no_panic call st : cb_closed call -> cb_nopanic call -> forall l r p,
  Forall wf l -> wf r -> top_ok r -> vlist_loop call st l r <> Panic p.
Proof.
  intros Hc Hn. induction l as [|x l IH]; intros r p Hw Hr Ht; cbn [vlist_loop]; [discriminate|].
  inversion Hw as [|? ? Hx Hl]; subst. specialize (Hn x st p Hx).
  destruct (call x st) as [[iv st1]| | |] eqn:E; cbn [bind]; try congruence.
  destruct (Hc _ _ _ _ Hx E) as [Hic Hiw].
  pose proof (value_merge_no_panic (current_key st1) r iv p Ht (closed_top_ok _ Hic)) as Hm.
  destruct (value_merge (current_key st1) r iv) as [r1| | |] eqn:Em; cbn [bind]; try congruence.
  exact (IH r1 p Hl (value_merge_wf _ _ _ _ Hr Hiw Em) (value_merge_top _ _ _ _ (closed_top_ok _ Hic) Em)).
Qed.

Lemma insert_no_panic m k v fc fo s : insert_impl m k v fc fo <> Panic s.
Proof. destruct (insert_total m k v fc fo) as [[m' ->] | ->]; discriminate. Qed.

Lemma map_loop_no_panic call st : cb_closed call -> cb_nopanic call -> forall es acc p,
  Forall (fun e => wf (e_val e)) es -> map_loop call st es acc <> Panic p.
Proof.
  intros Hc Hn. induction es as [|[[[k v] c] o] es IH]; intros acc p Hv; cbn [map_loop]; [discriminate|].
  inversion Hv as [|? ? Hvx Hvs]; subst. cbn [e_val fst snd] in Hvx.
  pose proof (push_mapping_key_no_panic st k p).
  destruct (push_mapping_key st k) as [st1| | |]; cbn [bind]; try congruence.
  specialize (Hn v st1 p Hvx). destruct (call v st1) as [[v' st2]| | |] eqn:E; cbn [bind]; try congruence.
  destruct (Hc _ _ _ _ Hvx E) as [Hvc Hvw]. rewrite (flattened_closed_id _ v' Hvc Hvw). cbn [bind].
  pose proof (insert_no_panic acc k v' c o p). destruct (insert_impl acc k v' c o); cbn [bind]; try congruence.
  apply IH, Hvs.
Qed.

Lemma walk_loop_no_panic sov path :
  (forall v st v' st', wf v -> sov v st = Ok (v', st') -> wf v' /\ top_ok v') ->
  (forall v st s, wf v -> sov v st <> Panic s) ->
  forall segs v st trav p, wf v -> walk_loop sov path segs v st trav <> Panic p.
Proof.
  intros Hs Hn. induction segs as [|key segs IH]; intros v st trav p Hw; cbn [walk_loop]; [discriminate|].
  specialize (Hn v st p Hw). destruct (sov v st) as [[newv st1]| | |] eqn:E; cbn [bind]; try congruence.
  destruct (Hs _ _ _ _ Hw E) as [Hnw [Hns Hnl]].
  destruct newv; cbn in Hns, Hnl; try discriminate.
  destruct (m_get (VStr key) es) as [v1|] eqn:G; [|discriminate].
  apply IH. eapply wf_get; eauto.
Qed.

Lemma sov_loop_no_panic call st : cb_nopanic call -> forall l p,
  Forall (fun x => wf x /\ is_vlist x = false) l -> sov_loop call st l <> Panic p.
Proof.
  intros Hn. induction l as [|x l IH]; intros p Hw; cbn [sov_loop]; [discriminate|].
  inversion Hw as [|? ? [Hx _] Hl]; subst. specialize (IH p Hl).
  destruct (is_string x).
  - specialize (Hn x st p Hx). destruct (call x st) as [[y st1]| | |]; cbn [bind]; try congruence.
    destruct (sov_loop call st l); cbn [bind]; congruence.
  - cbn [bind]. destruct (sov_loop call st l); cbn [bind]; congruence.
Qed.

Section Main.
Variable root : mapping.
Hypothesis Hroot : wf (VMap root).

Definition N_interp f := forall v st s, wf v -> interp f root v st <> Panic s.
Definition N_map f := forall m st s, wf (VMap m) -> mapping_interp f root m st <> Panic s.
Definition N_render f := forall t st s, token_render f root t st <> Panic s.
Definition N_resolve f := forall t st s, token_resolve f root t st <> Panic s.
Definition N_slice f := forall ts st s, token_slice f root ts st <> Panic s.
Definition N_sov f := forall v st s, wf v -> interp_sov f root v st <> Panic s.
Definition N_while f := forall v st s, wf v -> interp_while f root v st <> Panic s.
Definition N_while_str f := forall v st s, wf v -> interp_while_str f root v st <> Panic s.
Definition N_all f := N_interp f /\ N_map f /\ N_render f /\ N_resolve f /\ N_slice f /\ N_sov f /\ N_while f /\ N_while_str f.

Lemma slice_loop_no_panic f : N_resolve f -> N_while_str f -> N_interp f -> forall ts st p,
  slice_loop (token_resolve f root) (interp_while_str f root) (interp f root) st ts <> Panic p.
Proof.
  intros Hr Hws Hi. pose proof (interp_facts root Hroot f) as (Fi & _ & _ & Fr & _ & _ & Fws).
  induction ts as [|t ts IH]; intros st p; cbn [slice_loop]; [discriminate|].
  specialize (Hr t st p). destruct (token_resolve f root t st) as [[v st1]| | |] eqn:E; cbn [bind]; try congruence.
  destruct (Fr _ _ _ _ E) as [Hwv _].
  specialize (Hws v st1 p Hwv). destruct (interp_while_str f root v st1) as [[v' st2]| | |] eqn:E2; cbn [bind]; try congruence.
  pose proof (Fws _ _ _ _ Hwv E2) as Hwv'.
  assert (H3 : (if is_mapping v' || is_sequence v' then interp f root v' st2 else Ok (v', st2)) <> Panic p).
  { destruct (is_mapping v' || is_sequence v'); [apply Hi, Hwv' | discriminate]. }
  destruct (if is_mapping v' || is_sequence v' then interp f root v' st2 else Ok (v', st2)) as [[v'' st3]| | |]; cbn [bind]; try congruence.
  pose proof (raw_string_no_panic v'' p). destruct (raw_string v''); cbn [bind]; try congruence.
  specialize (IH st p). destruct (slice_loop _ _ _ st ts); cbn [bind]; congruence.
Qed.

Lemma no_panic_facts : forall f, N_all f.
Proof.
  induction f as [|f (Ni & Nm & Nr & Ns & Nsl & Nv & Nw & Nws)].
  - unfold N_all, N_interp, N_map, N_render, N_resolve, N_slice, N_sov, N_while, N_while_str.
    repeat split; intros; cbn; discriminate.
  - pose proof (interp_facts root Hroot f) as (Fi & Fm & Fr & Fs & Fv & Fw & Fws).
    assert (Hcb : cb_closed (interp f root)) by exact Fi.
    assert (Hnp : cb_nopanic (interp f root)) by exact Ni.
    split; [|split; [|split; [|split; [|split; [|split; [|split]]]]]].
    + (* interp *)
      intros v st s Hwv. cbn [interp]. destruct v as [| b | s0 | s0 | n | es | l | l]; try discriminate.
      * destruct (token_parse s0); try discriminate. apply Nr.
      * specialize (Nm es st s Hwv). destruct (mapping_interp f root es st); cbn [bind]; congruence.
      * apply wf_seq_iff in Hwv. pose proof (seq_loop_no_panic _ st Hcb Hnp l 0 s Hwv).
        destruct (seq_loop (interp f root) st l 0); cbn [bind]; congruence.
      * apply wf_list_elems in Hwv.
        pose proof (vlist_loop_no_panic _ st Hcb Hnp l VNull s Hwv I (conj eq_refl eq_refl)).
        destruct (vlist_loop (interp f root) st l VNull) as [r| | |] eqn:E; cbn [bind]; try congruence.
        destruct (vlist_loop_inv _ _ Hcb l VNull r Hwv I (conj eq_refl eq_refl) E) as [Hrw _]. apply Ni, Hrw.
    + (* mapping_interp *)
      intros m st s Hwm. cbn [mapping_interp]. apply wf_map_iff in Hwm as (_ & _ & Hvs).
      apply map_loop_no_panic; assumption.
    + (* token_render *)
      intros t st s. cbn [token_render]. destruct t as [s0 | ts | ts].
      * specialize (Ns (TLit s0) st s). destruct (token_resolve f root (TLit s0) st) as [[v st1]| | |]; cbn [bind]; try congruence.
        pose proof (raw_string_no_panic v s). destruct (raw_string v); cbn [bind]; congruence.
      * specialize (Ns (TRef ts) st s). destruct (token_resolve f root (TRef ts) st) as [[v st1]| | |] eqn:E; cbn [bind]; try congruence.
        destruct (Fs _ _ _ _ E) as [Hwv _]. apply Ni, Hwv.
      * specialize (Ns (TComb ts) st s). destruct (token_resolve f root (TComb ts) st) as [[v st1]| | |]; cbn [bind]; try congruence.
        pose proof (raw_string_no_panic v s). destruct (raw_string v); cbn [bind]; congruence.
    + (* token_resolve *)
      intros t st s. cbn [token_resolve]. destruct t as [s0 | parts | ts]; try discriminate.
      * destruct (Nat.ltb RESOLVE_MAX_DEPTH (depth (with_depth st (S (depth st))))); [discriminate|].
        specialize (Nsl parts (with_depth st (S (depth st))) s).
        destruct (token_slice f root parts (with_depth st (S (depth st)))) as [path| | |]; cbn [bind]; try congruence.
        destruct (mem path (seen (with_depth st (S (depth st))))); [discriminate|].
        destruct (split_on ":" path) as [|k0 segs]; [discriminate|].
        destruct (m_get (VStr k0) root) as [v0|] eqn:G; [|discriminate].
        assert (Hw0 : wf v0) by (eapply wf_get; eauto).
        pose proof (walk_loop_no_panic (interp_sov f root) path Fv Nv segs v0
                      (add_seen (with_depth st (S (depth st))) path) [k0] s Hw0) as Hwp.
        destruct (walk_loop (interp_sov f root) path segs v0 (add_seen (with_depth st (S (depth st))) path) [k0])
          as [[v st3]| | |] eqn:Ew; cbn [bind]; try congruence.
        apply Nw. eapply walk_loop_wf; [exact Fv | exact Hw0 | exact Ew].
      * specialize (Nsl ts st s). destruct (token_slice f root ts st); cbn [bind]; congruence.
    + (* token_slice *)
      intros ts st s. cbn [token_slice]. apply slice_loop_no_panic; assumption.
    + (* interp_sov *)
      intros v st s Hwv. cbn [interp_sov]. destruct v as [| b | s0 | s0 | n | es | l | l]; try discriminate.
      * apply Ni, Hwv.
      * apply wf_list_iff in Hwv. pose proof (sov_loop_no_panic _ st Hnp l s Hwv).
        destruct (sov_loop (interp f root) st l) as [i| | |] eqn:E; cbn [bind]; try congruence.
        pose proof (sov_loop_wf _ _ Hcb _ _ Hwv E) as Hwi.
        pose proof (proj1 (flattened_layers (current_key st) _ Hwi) s).
        destruct (flattened (current_key st) (VList i)); cbn [bind]; congruence.
    + (* interp_while *)
      intros v st s Hwv. cbn [interp_while]. destruct (is_string v || is_vlist v); [|discriminate].
      specialize (Ni v st s Hwv). destruct (interp f root v st) as [[v1 st1]| | |] eqn:E; cbn [bind]; try congruence.
      apply Nw. apply (Fi _ _ _ _ Hwv E).
    + (* interp_while_str *)
      intros v st s Hwv. cbn [interp_while_str]. destruct (is_string v); [|discriminate].
      specialize (Ni v st s Hwv). destruct (interp f root v st) as [[v1 st1]| | |] eqn:E; cbn [bind]; try congruence.
      apply Nws. apply (Fi _ _ _ _ Hwv E).
Qed.

End Main.

Theorem interp_no_panic f root v st s :
  wf (VMap root) -> wf v -> interp f root v st <> Panic s.
Proof. intros Hr Hv. exact (proj1 (no_panic_facts root Hr f) v st s Hv). Qed.

Theorem render_with_self_no_panic f v s : wf v -> render_with_self f v <> Panic s.
Proof.
  intros Hv. unfold render_with_self. destruct v; try discriminate. unfold rendered.
  pose proof (interp_no_panic f es (VMap es) st0 s Hv Hv).
  destruct (interp f es (VMap es) st0) as [[v' st]| | |] eqn:E; cbn [map_err bind]; try congruence.
  destruct (interp_closed _ _ _ _ _ _ Hv Hv E) as [Hc Hw]. rewrite (flattened_closed_id _ v' Hc Hw). discriminate.
Qed.

(* Value::merge, kind by kind (C02), on the model. *)
From RV Require Import Model.Mapping Proofs.ValueFacts Proofs.MappingFacts.

Definition scalar (v : value) : Prop :=
  match v with VLit _ | VBool _ | VNum _ => True | _ => False end.

Lemma merge_null_replaces ck self : value_merge ck self VNull = Ok VNull.
Proof. reflexivity. Qed.

Lemma merge_over_null ck other :
  is_vlist other = false -> value_merge ck VNull other = Ok other.
Proof. intros H. unfold value_merge. destruct other; cbn in *; try reflexivity; discriminate. Qed.

Lemma merge_scalar_replaces ck self other :
  scalar self -> scalar other -> value_merge ck self other = Ok other.
Proof. destruct self, other; cbn; try tauto; reflexivity. Qed.

Lemma merge_lists_append ck a b : value_merge ck (VSeq a) (VSeq b) = Ok (VSeq (a ++ b)).
Proof. reflexivity. Qed.

Lemma merge_maps ck a b : value_merge ck (VMap a) (VMap b) = rmap VMap (mapping_merge a b).
Proof. reflexivity. Qed.

(** a mapping or list combined with a non-null value of another kind: an error naming the
    parameter [ck], in either order *)
Lemma merge_conflict_on_map ck a other :
  is_null other = false -> is_vlist other = false -> is_mapping other = false ->
  value_merge ck (VMap a) other = Err (EMerge ck (variant other) "mapping").
Proof. destruct other; cbn; intros; try discriminate; reflexivity. Qed.

Lemma merge_conflict_on_seq ck a other :
  is_null other = false -> is_vlist other = false -> is_sequence other = false ->
  value_merge ck (VSeq a) other = Err (EMerge ck (variant other) "sequence").
Proof. destruct other; cbn; intros; try discriminate; reflexivity. Qed.

Lemma merge_conflict_on_scalar ck self other :
  scalar self -> is_mapping other || is_sequence other = true ->
  value_merge ck self other = Err (EMerge ck (variant other) (variant self)).
Proof. destruct self, other; cbn; try tauto; intros; try discriminate; reflexivity. Qed.

(* C06, arbitrary text.  The earlier files take literal text to be free of the four special
   characters (backslash, dollar, braces).  Here a piece of text is any characters at all:

   - at the top level any non-empty text none of whose positions begins an opening marker or an
     escaped opening marker (${, \${, \\${, \$[) is one literal piece, taken as it stands: lone
     dollars, backslashes and braces (as in JSON-like templates) are ordinary characters;
   - inside a reference a piece is any sequence of plain runs, escapes, and lone `$`, `{`, `\`
     where these do not form a marker or an escape with what follows.

   Any string spelled by such texts, escapes and reference trees parses to the decoded pieces. *)
From RV Require Import Model.Parser Proofs.ParserFacts Proofs.ParserShape Proofs.ParserNested Proofs.ParserEscapes Proofs.ParserGen Proofs.ParserFull.

(** [starts p s]: [s] begins with [p] (the test made by nom's [tag]) *)
Definition starts (p s : string) : bool := match strip p s with Some _ => true | None => false end.

Lemma strip_app p q s : strip (p ++ q) s = match strip p s with Some r => strip q r | None => None end.
Proof.
  revert s. induction p as [|a p IH]; intros s; [reflexivity|].
  destruct s as [|b s]; [reflexivity|]. cbn [append strip]. destruct (Ascii.eqb a b); [apply IH | reflexivity].
Qed.

Lemma strip_eq p s r : strip p s = Some r -> s = (p ++ r)%string.
Proof.
  revert s. induction p as [|a p IH]; intros s H; [cbn in H; now injection H as ->|].
  destruct s as [|b s]; [discriminate|]. cbn [strip] in H. destruct (Ascii.eqb_spec a b) as [->|]; [|discriminate].
  cbn [append]. now rewrite (IH s H).
Qed.

Lemma strip_self p r : strip p (p ++ r) = Some r.
Proof. induction p as [|a p IH]; [reflexivity|]. cbn [append strip]. now rewrite Ascii.eqb_refl. Qed.

Lemma starts_true p s : starts p s = true -> exists r, s = (p ++ r)%string.
Proof. unfold starts. destruct (strip p s) as [r|] eqn:E; [|discriminate]. intros _. exists r. exact (strip_eq p s r E). Qed.

Lemma starts_app p r : starts p (p ++ r) = true.
Proof. unfold starts. now rewrite strip_self. Qed.

Lemma tag_not_starts p s : starts p s = false -> tag p s = PFail.
Proof. unfold starts, tag. now destruct (strip p s). Qed.

(** * text at the top level *)
Definition nostopb (x : string) : bool :=
  negb (starts "${" x || starts (bs ++ "${") x || starts (bs ++ bs ++ "${") x || starts (bs ++ "$[") x).

Fixpoint freeb (s rest : string) : bool :=
  match s with
  | EmptyString => true
  | String c s' => nostopb (String c s' ++ rest) && freeb s' rest
  end.

(** the text ends at the end of the input or where an (escaped) opening marker begins *)
Definition endb (rest : string) : bool := match rest with EmptyString => true | _ => negb (nostopb rest) end.

Lemma pnot_tag_false p s : starts p s = false -> pnot (tag p) s = POk s tt.
Proof. intros H. unfold pnot. now rewrite (tag_not_starts p s H). Qed.
Lemma pnot_tag_true p s : starts p s = true -> pnot (tag p) s = PFail.
Proof. unfold starts, pnot, tag. now destruct (strip p s). Qed.

Lemma nostopb_false x : nostopb x = true ->
  starts "${" x = false /\ starts (bs ++ "${") x = false /\ starts (bs ++ bs ++ "${") x = false /\ starts (bs ++ "$[") x = false.
Proof.
  unfold nostopb. intros Hn. apply Bool.negb_true_iff in Hn.
  apply Bool.orb_false_elim in Hn as [Hn H4]. apply Bool.orb_false_elim in Hn as [Hn H3]. apply Bool.orb_false_elim in Hn as [H1 H2].
  repeat split; assumption.
Qed.

Lemma ref_not_open_nostop x : nostopb x = true -> ref_not_open x = POk x tt.
Proof.
  intros Hn. destruct (nostopb_false x Hn) as (H1 & H2 & H3 & H4).
  unfold ref_not_open, pmap, pseq. rewrite (pnot_tag_false _ _ H1). cbn [pbind].
  rewrite (pnot_tag_false _ _ H2). cbn [pbind]. rewrite (pnot_tag_false _ _ H3). cbn [pbind].
  rewrite (pnot_tag_false _ _ H4). reflexivity.
Qed.

Lemma ref_not_open_stop x : nostopb x = false -> ref_not_open x = PFail.
Proof.
  unfold nostopb. intros Hn. unfold ref_not_open, pmap, pseq.
  destruct (starts "${" x) eqn:H1; [now rewrite (pnot_tag_true _ _ H1)|]. rewrite (pnot_tag_false _ _ H1). cbn [pbind].
  destruct (starts (bs ++ "${") x) eqn:H2; [now rewrite (pnot_tag_true _ _ H2)|]. rewrite (pnot_tag_false _ _ H2). cbn [pbind].
  destruct (starts (bs ++ bs ++ "${") x) eqn:H3; [now rewrite (pnot_tag_true _ _ H3)|]. rewrite (pnot_tag_false _ _ H3). cbn [pbind].
  destruct (starts (bs ++ "$[") x) eqn:H4; [now rewrite (pnot_tag_true _ _ H4)|]. discriminate.
Qed.

Lemma nostop_plain c s : in_set c specials = false -> nostopb (String c s) = true.
Proof.
  intros Hc. destruct (plain_char c Hc) as (Hb & Hd & _ & _).
  unfold nostopb, starts, bs. cbn [append strip]. now rewrite Hb, Hd.
Qed.

Lemma endb_stops rest : endb rest = true -> stops rest.
Proof.
  destruct rest as [|c r]; [intros _; exact I|]. cbn [endb stops]. intros H.
  destruct (in_set c specials) eqn:Hc; [reflexivity|]. now rewrite (nostop_plain c r Hc) in H.
Qed.

Lemma text_at_end rest : endb rest = true -> pseq ref_not_open text rest = PFail.
Proof.
  destruct rest as [|c r]; [intros _; reflexivity|]. cbn [endb]. intros H.
  unfold pseq. rewrite (ref_not_open_stop (String c r)); [reflexivity|]. now destruct (nostopb (String c r)).
Qed.

(** the longest prefix of plain characters *)
Fixpoint span (s : string) : string * string :=
  match s with
  | EmptyString => (EmptyString, EmptyString)
  | String c s' => if in_set c specials then (EmptyString, s) else let (a, b) := span s' in (String c a, b)
  end.

Lemma span_eq s : s = (fst (span s) ++ snd (span s))%string.
Proof.
  induction s as [|c s IH]; [reflexivity|]. cbn [span]. destruct (in_set c specials); [reflexivity|].
  destruct (span s) as [a b]. cbn [fst snd append] in *. now rewrite <- IH.
Qed.

Lemma span_plain s : plain (fst (span s)).
Proof.
  induction s as [|c s IH]; [exact I|]. cbn [span]. destruct (in_set c specials) eqn:Hc; [exact I|].
  destruct (span s) as [a b]. cbn [fst plain] in *. now split.
Qed.

Lemma span_stops s rest : stops rest -> stops (snd (span s) ++ rest).
Proof.
  intros Hr. induction s as [|c s IH]; [exact Hr|]. cbn [span]. destruct (in_set c specials) eqn:Hc; [exact Hc|].
  destruct (span s) as [a b]. exact IH.
Qed.

Lemma span_length s : String.length (snd (span s)) <= String.length s.
Proof.
  induction s as [|c s IH]; [cbn; lia|]. cbn [span]. destruct (in_set c specials); [cbn; lia|].
  destruct (span s) as [a b]. cbn [snd String.length] in *. lia.
Qed.

Lemma freeb_app a b rest : freeb (a ++ b) rest = true -> freeb b rest = true.
Proof.
  induction a as [|c a IH]; [auto|]. cbn [append freeb]. intros H. apply andb_prop in H as [_ H]. exact (IH H).
Qed.

(** one round of the text loop *)
Lemma text_step c s rest :
  freeb (String c s) rest = true -> stops rest ->
  exists k s2, pseq ref_not_open text (String c s ++ rest)%string = POk (s2 ++ rest)%string (tt, k) /\
               (k ++ s2)%string = String c s /\ String.length s2 <= String.length s /\ freeb s2 rest = true.
Proof.
  intros Hf Hs. cbn [freeb] in Hf. apply andb_prop in Hf as [Hn Hf].
  unfold pseq. rewrite (ref_not_open_nostop _ Hn). cbn [pbind append].
  destruct (in_set c specials) eqn:Hc.
  - exists (String c ""), s. split; [|split; [reflexivity | split; [lia | exact Hf]]].
    unfold text. cbn [alt]. unfold pmap at 1. unfold many1. cbn [none_of]. rewrite Hc. cbn [pbind]. reflexivity.
  - exists (String c (fst (span s))), (snd (span s)).
    assert (Es : String c (s ++ rest) = (String c (fst (span s)) ++ (snd (span s) ++ rest))%string).
    { cbn [append]. rewrite <- str_app_assoc, <- span_eq. reflexivity. }
    split; [|split; [|split]].
    + rewrite Es. rewrite (text_run c (fst (span s)) (snd (span s) ++ rest)%string).
      * reflexivity.
      * split; [exact Hc | apply span_plain].
      * apply span_stops. exact Hs.
    + cbn [append]. now rewrite <- span_eq.
    + apply span_length.
    + apply (freeb_app (fst (span s))). now rewrite <- span_eq.
Qed.

Lemma text_loop rest : endb rest = true -> forall m s acc n,
  String.length s <= m -> freeb s rest = true -> String.length (s ++ rest)%string < n ->
  exists l, many1_rest n (pseq ref_not_open text) (s ++ rest)%string acc = POk rest (rev acc ++ l) /\
            concat_str (map snd l) = s.
Proof.
  intros He. induction m as [|m IH]; intros s acc n Hm Hf Hn.
  - destruct s; [|cbn in Hm; lia]. destruct n as [|n]; [cbn in Hn; lia|]. cbn [append many1_rest].
    rewrite (text_at_end rest He). exists []. now rewrite app_nil_r.
  - destruct s as [|c s].
    + destruct n as [|n]; [cbn in Hn; lia|]. cbn [append many1_rest].
      rewrite (text_at_end rest He). exists []. now rewrite app_nil_r.
    + destruct n as [|n]; [cbn in Hn; lia|].
      destruct (text_step c s rest Hf (endb_stops rest He)) as (k & s2 & Ep & Ek & Hl & Hf2).
      cbn [many1_rest]. rewrite Ep.
      assert (Hk : 1 <= String.length k).
      { destruct k; [|cbn; lia]. cbn [append] in Ek. subst s2. cbn [String.length] in Hl. lia. }
      assert (E : Nat.eqb (String.length (s2 ++ rest)%string) (String.length (String c s ++ rest)%string) = false).
      { apply Nat.eqb_neq. rewrite <- Ek, str_app_assoc, (length_app_str k). lia. }
      rewrite E. destruct (IH s2 ((tt, k) :: acc) n) as (l & El & Ec).
      * cbn [String.length] in Hm. lia.
      * exact Hf2.
      * rewrite <- Ek, str_app_assoc, (length_app_str k) in Hn. lia.
      * exists ((tt, k) :: l). split.
        -- rewrite El. cbn [rev]. now rewrite <- app_assoc.
        -- cbn [map snd concat_str]. now rewrite Ec.
Qed.

(** a text free of opening markers is one piece of content *)
Lemma content_free c s rest :
  freeb (String c s) rest = true -> endb rest = true -> content (String c s ++ rest)%string = POk rest (String c s).
Proof.
  intros Hf He. unfold content, pmap, many1.
  destruct (text_step c s rest Hf (endb_stops rest He)) as (k & s2 & Ep & Ek & Hl & Hf2).
  rewrite Ep. cbn [pbind].
  destruct (text_loop rest He (String.length s2) s2 [] (S (String.length (s2 ++ rest)%string)) (le_n _) Hf2 (Nat.lt_succ_diag_r _)) as (l & El & Ec).
  rewrite El. cbn [pbind rev app map snd concat_str]. now rewrite Ec, Ek.
Qed.

Lemma item_text b c s rest :
  freeb (String c s) rest = true -> endb rest = true -> starts (bs ++ bs ++ "}") (String c s ++ rest) = false ->
  item (S b) (String c s ++ rest)%string = POk rest (TLit (String c s)).
Proof.
  intros Hf He Hd. pose proof Hf as Hf'. cbn [freeb] in Hf'. apply andb_prop in Hf' as [Hn _].
  destruct (nostopb_false _ Hn) as (H1 & H2 & H3 & H4).
  set (x := (String c s ++ rest)%string) in *.
  unfold item. cbn [alt]. assert (Er : reference (S b) x = PFail).
  { cbn [reference]. unfold ref_open. now rewrite (tag_not_starts _ _ H1). }
  rewrite Er. unfold pmap at 1. unfold pstring. cbn [alt].
  assert (E1 : double_escape x = PFail).
  { unfold double_escape, pmap, pseq, ppeek. unfold tag at 1. destruct (strip (bs ++ bs) x) as [r|] eqn:Es; [|reflexivity].
    cbn [pbind alt]. unfold ref_open, ref_close, tag.
    unfold starts in H3, Hd. change (bs ++ bs ++ "${")%string with ((bs ++ bs) ++ "${")%string in H3.
    change (bs ++ bs ++ "}")%string with ((bs ++ bs) ++ "}")%string in Hd.
    rewrite strip_app, Es in H3, Hd. destruct (strip "${" r); [discriminate|]. destruct (strip "}" r); [discriminate|]. reflexivity. }
  assert (E2 : ref_escape_open x = PFail).
  { unfold ref_escape_open, preceded, pmap, pseq. unfold tag at 1. destruct (strip bs x) as [r|] eqn:Es; [|reflexivity].
    cbn [pbind]. unfold ref_open, tag. unfold starts in H2. rewrite strip_app, Es in H2. destruct (strip "${" r); [discriminate|]. reflexivity. }
  assert (E3 : inv_escape_open x = PFail).
  { unfold inv_escape_open, preceded, pmap, pseq. unfold tag at 1. destruct (strip bs x) as [r|] eqn:Es; [|reflexivity].
    cbn [pbind]. unfold inv_open, tag. unfold starts in H4. rewrite strip_app, Es in H4. destruct (strip "$[" r); [discriminate|]. reflexivity. }
  rewrite E1, E2, E3. unfold x. rewrite (content_free c s rest Hf He). reflexivity.
Qed.

(** * text inside a reference *)
Local Open Scope string_scope.
Inductive xatom :=
| XPlain (c : ascii) (p : string)   (* a run of plain characters, as long as it goes *)
| XOpen | XInv | XClose | XBs        (* \${  \$[  \}  and \\ at the end of the piece *)
| XDollar | XBrace | XBack.          (* a lone $, {, \ *)

Definition xsrc (a : xatom) : string :=
  match a with
  | XPlain c p => String c p
  | XOpen => (bs ++ "${")%string
  | XInv => (bs ++ "$[")%string
  | XClose => (bs ++ "}")%string
  | XBs => (bs ++ bs)%string
  | XDollar => "$"%string
  | XBrace => "{"%string
  | XBack => bs
  end.
Definition xval (a : xatom) : string :=
  match a with
  | XPlain c p => String c p
  | XOpen => "${"%string
  | XInv => "$["%string
  | XClose => "}"%string
  | XBs => bs
  | XDollar => "$"%string
  | XBrace => "{"%string
  | XBack => bs
  end.

(** what must hold of the text [rest] that follows the atom *)
Definition xok (a : xatom) (rest : string) : Prop :=
  match a with
  | XPlain c p => plain (String c p) /\ stops rest
  | XBs => starts "}" rest = true \/ starts "${" rest = true
  | XDollar => starts "{" rest = false
  | XBack => starts "${" rest = false /\ starts "$[" rest = false /\ starts "}" rest = false /\
             starts (bs ++ "${") rest = false /\ starts (bs ++ "}") rest = false
  | _ => True
  end.

Definition xpair (a : xatom) : string * string := (xsrc a, xval a).
Definition xrun_src (l : list xatom) : string := srcs (map xpair l).
Definition xrun_val (l : list xatom) : string := concat_str (map xval l).

Fixpoint xrun_ok (l : list xatom) (next : string) : Prop :=
  match l with
  | [] => True
  | a :: r => xok a (xrun_src r ++ next) /\ xrun_ok r next
  end.

Lemma starts_cons_false a p c s : Ascii.eqb a c = false -> starts (String a p) (String c s) = false.
Proof. intros H. unfold starts. cbn [strip]. now rewrite H. Qed.

Lemma ralt_xatom a rest : xok a rest -> ralt (xsrc a ++ rest)%string = POk rest (xval a).
Proof.
  destruct a as [c p | | | | | | |]; cbn [xok xsrc xval]; intros H.
  - destruct H as [Hp Hs]. exact (ralt_plain_run c p rest Hp Hs).
  - rewrite !str_app_assoc. reflexivity.
  - rewrite !str_app_assoc. reflexivity.
  - rewrite !str_app_assoc. reflexivity.
  - destruct H as [H | H]; apply starts_true in H as (r & ->); reflexivity.
  - unfold ralt. cbn [alt].
    assert (N1 : ref_not_open ("$" ++ rest)%string = POk ("$" ++ rest)%string tt).
    { apply ref_not_open_nostop. unfold nostopb.
      assert (A1 : starts "${" ("$" ++ rest)%string = false) by exact H.
      now rewrite A1. }
    change (double_escape ("$" ++ rest)%string) with (@PFail string). change (ref_escape_open ("$" ++ rest)%string) with (@PFail string).
    change (ref_escape_close ("$" ++ rest)%string) with (@PFail string). change (inv_escape_open ("$" ++ rest)%string) with (@PFail string).
    unfold ref_content, pmap. unfold pseq at 1. rewrite N1. cbn [pbind]. reflexivity.
  - reflexivity.
  - destruct H as (H1 & H2 & H3 & H4 & H5).
    unfold ralt. cbn [alt].
    assert (E1 : double_escape (bs ++ rest) = PFail).
    { unfold double_escape, pmap, pseq, ppeek. unfold tag at 1. change (strip (bs ++ bs) (bs ++ rest)) with (strip bs rest).
      destruct (strip bs rest) as [r|] eqn:Es; [|reflexivity]. cbn [pbind alt]. unfold ref_open, ref_close.
      unfold starts in H4, H5. rewrite strip_app, Es in H4, H5.
      unfold tag. destruct (strip "${" r); [discriminate|]. destruct (strip "}" r); [discriminate|]. reflexivity. }
    assert (E2 : ref_escape_open (bs ++ rest) = PFail).
    { unfold ref_escape_open, preceded, pmap, pseq. unfold tag at 1. change (strip bs (bs ++ rest)) with (Some rest). cbn [pbind].
      unfold ref_open. now rewrite (tag_not_starts _ _ H1). }
    assert (E3 : ref_escape_close (bs ++ rest) = PFail).
    { unfold ref_escape_close, preceded, pmap, pseq. unfold tag at 1. change (strip bs (bs ++ rest)) with (Some rest). cbn [pbind].
      unfold ref_close. now rewrite (tag_not_starts _ _ H3). }
    assert (E4 : inv_escape_open (bs ++ rest) = PFail).
    { unfold inv_escape_open, preceded, pmap, pseq. unfold tag at 1. change (strip bs (bs ++ rest)) with (Some rest). cbn [pbind].
      unfold inv_open. now rewrite (tag_not_starts _ _ H2). }
    rewrite E1, E2, E3, E4.
    assert (N1 : ref_not_open (bs ++ rest) = POk (bs ++ rest)%string tt).
    { apply ref_not_open_nostop. unfold nostopb.
      assert (A1 : starts "${" (bs ++ rest) = false) by reflexivity.
      assert (A2 : starts (bs ++ "${") (bs ++ rest) = false) by exact H1.
      assert (A3 : starts (bs ++ bs ++ "${") (bs ++ rest) = false) by exact H4.
      assert (A4 : starts (bs ++ "$[") (bs ++ rest) = false) by exact H2.
      now rewrite A1, A2, A3, A4. }
    assert (N2 : ref_not_close (bs ++ rest) = POk (bs ++ rest)%string tt).
    { unfold ref_not_close, pmap, pseq.
      assert (A1 : starts "}" (bs ++ rest) = false) by reflexivity.
      assert (A2 : starts (bs ++ "}") (bs ++ rest) = false) by exact H3.
      assert (A3 : starts (bs ++ bs ++ "}") (bs ++ rest) = false) by exact H5.
      rewrite (pnot_tag_false _ _ A1). cbn [pbind]. rewrite (pnot_tag_false _ _ A2). cbn [pbind]. rewrite (pnot_tag_false _ _ A3). reflexivity. }
    unfold ref_content, pmap. unfold pseq at 1. rewrite N1. cbn [pbind]. unfold pseq at 1. rewrite N2. cbn [pbind].
    reflexivity.
Qed.

Lemma xsrc_nonempty a : 1 <= String.length (xsrc a).
Proof. destruct a; cbn; lia. Qed.

Lemma xrun_ok_split pre a post next : xrun_ok (pre ++ a :: post)%list next -> xok a (xrun_src post ++ next).
Proof. induction pre as [|x pre IH]; cbn [app xrun_ok]; intros [H1 H2]; [exact H1 | exact (IH H2)]. Qed.

Lemma reference_xatom a rest b : xok a rest -> reference b (xsrc a ++ rest) = PFail.
Proof.
  destruct a as [c p | | | | | | |]; cbn [xok xsrc]; intros H; try (destruct b; reflexivity).
  - destruct H as [[Hc _] _]. destruct (plain_char c Hc) as (_ & Hd & _ & _). cbn [append]. exact (reference_plain c _ Hd b).
  - destruct b; [reflexivity|]. cbn [reference]. unfold ref_open. rewrite (tag_not_starts "${" ("$" ++ rest)); [reflexivity | exact H].
Qed.

(** any run of atoms, each in a position where it cannot be read together with what follows as
    a marker or an escape, is taken inside a reference as one literal piece *)
Lemma xrun_item a l next b :
  xrun_ok (a :: l) next -> rnext next ->
  ritem b (xrun_src (a :: l) ++ next) = POk next (TLit (xrun_val (a :: l))).
Proof.
  intros Hok Hn. pose proof Hok as [Ha Hl]. unfold ritem. cbn [alt].
  unfold xrun_src. cbn [map srcs xpair fst]. rewrite str_app_assoc. fold (xrun_src l).
  rewrite (reference_xatom a _ b Ha).
  unfold pmap, ref_string, pmap, many1. fold ralt.
  rewrite (ralt_xatom a _ Ha). cbn [pbind].
  unfold xrun_src. rewrite (many1_rest_units ralt next (proj2 (rnext_stops next Hn)) (map xpair l) [] _).
  - cbn [pbind rev app]. unfold xrun_val. rewrite map_map. cbn [xpair snd map]. reflexivity.
  - intros pre x post E. apply map_eq_app in E as (pre0 & post0 & -> & _ & E2).
    destruct post0 as [|x0 post0]; [discriminate|]. cbn [map] in E2. injection E2 as <- <-.
    cbn [xpair fst snd]. apply ralt_xatom. exact (xrun_ok_split (a :: pre0) x0 post0 next Hok).
  - rewrite Forall_map. apply Forall_forall. intros x _. exact (xsrc_nonempty x).
  - lia.
Qed.

(** ** the conditions only look at what is written before the end of the piece *)
Lemma starts_more p X r : starts p X = true -> starts p (X ++ r) = true.
Proof. intros H. apply starts_true in H as (q & ->). rewrite str_app_assoc. apply starts_app. Qed.

Lemma starts_ext p : forall X r, starts p X = false -> (forall q, q <> "" -> p <> X ++ q) -> starts p (X ++ r) = false.
Proof.
  induction p as [|a p IH]; intros X r H Hq; [discriminate|].
  destruct X as [|b X].
  - exfalso. apply (Hq (String a p)); [discriminate | reflexivity].
  - unfold starts in *. cbn [append strip] in *. destruct (Ascii.eqb_spec a b) as [->|]; [|reflexivity].
    apply IH; [exact H|]. intros q Hne E. apply (Hq q Hne). cbn [append]. now rewrite E.
Qed.

Lemma stops_more S T r : T <> "" -> stops (S ++ T) -> stops (S ++ T ++ r).
Proof. intros HT. destruct S as [|c S]; [|auto]. destruct T as [|c T]; [congruence|auto]. Qed.

Ltac no_prefix S E :=
  repeat (destruct S as [|? S]; cbn [append] in E;
          [ try discriminate; try (injection E as E; congruence) | try discriminate; injection E as ? E ]).

Lemma xok_more a S r : xok a (S ++ "}") -> xok a (S ++ "${") -> xok a (S ++ "}" ++ r) /\ xok a (S ++ "${" ++ r).
Proof.
  destruct a as [c p | | | | | | |]; cbn [xok]; try tauto.
  - intros [Hp H1] [_ H2]. split; (split; [exact Hp | apply stops_more; [discriminate | assumption]]).
  - intros H1 H2. rewrite <- !str_app_assoc. split.
    + destruct H1 as [H1 | H1]; [left | right]; now apply starts_more.
    + destruct H2 as [H2 | H2]; [left | right]; now apply starts_more.
  - intros H1 H2. rewrite <- !str_app_assoc. split; apply starts_ext; try assumption; intros q Hq E; no_prefix S E.
  - intros (A1 & A2 & A3 & A4 & A5) (B1 & B2 & B3 & B4 & B5). rewrite <- !str_app_assoc.
    repeat split; apply starts_ext; try assumption; intros q Hq E; unfold bs in E; cbn [append] in E; no_prefix S E.
Qed.

Lemma xrun_ok_more l r : xrun_ok l "}" -> xrun_ok l "${" -> xrun_ok l ("}" ++ r) /\ xrun_ok l ("${" ++ r).
Proof.
  induction l as [|a l IH]; [cbn; tauto|]. cbn [xrun_ok]. intros [A1 A2] [B1 B2].
  destruct (IH A2 B2) as [I1 I2]. destruct (xok_more a (xrun_src l) r A1 B1) as [O1 O2]. tauto.
Qed.

(** The conditions are checked against the two ways a piece can end (the closing brace, a nested
    reference); they then hold whatever follows. *)
Theorem any_text_inside_a_reference_is_one_piece a l :
  xrun_ok (a :: l) "}" -> xrun_ok (a :: l) "${" -> lit_ok (xrun_src (a :: l)) (xrun_val (a :: l)).
Proof.
  intros H1 H2. split.
  - unfold xrun_src. cbn [map srcs xpair fst]. rewrite length_app_str. pose proof (xsrc_nonempty a). lia.
  - intros b next Hn. apply xrun_item; [|exact Hn].
    destruct Hn as (r & [-> | ->]); [exact (proj1 (xrun_ok_more _ r H1 H2)) | exact (proj2 (xrun_ok_more _ r H1 H2))].
Qed.

(** * whole strings *)
Inductive hunit :=
| HText (c : ascii) (s : string)
| HOpen | HInv | HBs
| HRef (ts : list gtree).

Definition hsrc (u : hunit) : string :=
  match u with
  | HText c s => String c s
  | HOpen => bs ++ "${"
  | HInv => bs ++ "$["
  | HBs => bs ++ bs
  | HRef ts => gsrc (GRef ts)
  end.
Definition htok (u : hunit) : token :=
  match u with
  | HText c s => TLit (String c s)
  | HOpen => TLit "${"
  | HInv => TLit "$["
  | HBs => TLit bs
  | HRef ts => TRef (map gtok ts)
  end.
(** what must hold of a unit and the text [rest] that follows it *)
Definition hok (d : nat) (u : hunit) (rest : string) : Prop :=
  match u with
  | HText c s => freeb (String c s) rest = true /\ endb rest = true /\ starts (bs ++ bs ++ "}") (String c s ++ rest) = false
  | HBs => starts "${" rest = true \/ starts "}" rest = true
  | HRef ts => gwf (S d) (GRef ts)
  | _ => True
  end.
Definition hpair (u : hunit) : string * token := (hsrc u, htok u).
Definition hstr (us : list hunit) : string := srcs (map hpair us).

(** [tail] is what follows the units ("" for a whole string) *)
Fixpoint hunits_ok_t (d : nat) (us : list hunit) (tail : string) : Prop :=
  match us with
  | [] => True
  | u :: r => hok d u (hstr r ++ tail) /\ hunits_ok_t d r tail
  end.
Definition hunits_ok (d : nat) (us : list hunit) : Prop := hunits_ok_t d us "".

Lemma hunits_ok_split d pre u post tail : hunits_ok_t d (pre ++ u :: post)%list tail -> hok d u (hstr post ++ tail).
Proof. induction pre as [|x pre IH]; cbn [app hunits_ok_t]; intros [H1 H2]; [exact H1 | exact (IH H2)]. Qed.

Lemma item_hunit d b u rest :
  d <= b -> hok d u rest -> item (S b) (hsrc u ++ rest) = POk rest (htok u).
Proof.
  intros Hb Hok. destruct u as [c s | | | | ts]; cbn [hsrc htok hok] in *.
  - destruct Hok as (Hf & He & Hd). exact (item_text b c s rest Hf He Hd).
  - rewrite !str_app_assoc. reflexivity.
  - rewrite !str_app_assoc. reflexivity.
  - destruct Hok as [H | H]; apply starts_true in H as (r & ->); reflexivity.
  - destruct Hok as (Hne & Hna & Hf). unfold item. cbn [alt]. rewrite gsrc_ref, !str_app_assoc.
    now rewrite (general_reference_parses_back d b ts _ Hb Hne Hna Hf).
Qed.

Lemma hsrc_nonempty d u rest : hok d u rest -> 1 <= String.length (hsrc u).
Proof. destruct u; cbn [hsrc hok]; intros H; try (rewrite gsrc_ref); cbn; lia. Qed.

(** the item loop takes the units one by one and stops where [item] fails *)
Lemma hunits_run d u us bad :
  d <= MAX_REF_NESTING -> hunits_ok_t d (u :: us) bad -> item (S MAX_REF_NESTING) bad = PFail ->
  many1 (item (S MAX_REF_NESTING)) (hstr (u :: us) ++ bad) = POk bad (htok u, map htok us).
Proof.
  intros Hd Hok Hbad. pose proof Hok as [Hu Hus].
  unfold many1. change (hstr (u :: us)) with (hsrc u ++ hstr us). rewrite str_app_assoc.
  rewrite (item_hunit d MAX_REF_NESTING u _ Hd Hu). cbn [pbind]. unfold hstr.
  rewrite (many1_rest_units (item (S MAX_REF_NESTING)) bad Hbad (map hpair us) [] _).
  - cbn [pbind rev app]. rewrite map_map. reflexivity.
  - intros pre x post E. apply map_eq_app in E as (pre0 & post0 & -> & _ & E2).
    destruct post0 as [|x0 post0]; [discriminate|]. cbn [map] in E2. injection E2 as <- <-.
    cbn [hpair fst snd]. apply (item_hunit d MAX_REF_NESTING x0 _ Hd).
    exact (hunits_ok_split d (u :: pre0) x0 post0 bad Hok).
  - rewrite Forall_map. apply Forall_forall. intros x Hx. apply in_split in Hx as (l1 & l2 & ->).
    exact (hsrc_nonempty d x _ (hunits_ok_split d (u :: l1) x l2 bad Hok)).
  - lia.
Qed.

(** Every string spelled by arbitrary texts, escaped markers and reference trees -- each text
    free of opening markers and ending where one begins -- parses to the decoded pieces, adjacent
    texts joined by the parser's coalescing. *)
Theorem any_string_parses d u us :
  d <= MAX_REF_NESTING -> hunits_ok d (u :: us) -> has_marker (hstr (u :: us)) = true ->
  token_parse (hstr (u :: us)) =
    Parsed (match coalesce (htok u, map htok us) with [t] => t | ts => TComb ts end).
Proof.
  intros Hd Hok Hm. unfold token_parse. rewrite Hm. unfold parse_ref, parse_ref_fuel.
  rewrite <- (app_empty_r (hstr (u :: us))).
  rewrite (hunits_run d u us "" Hd Hok (item_at_end _)).
  destruct (coalesce (htok u, map htok us)) as [|t [|t2 r]]; reflexivity.
Qed.

(** ... and when such a string is followed by something the parser cannot take, the whole string
    is rejected: nothing is passed through or split off. *)
Theorem stuck_after_any_string_is_error d us bad :
  d <= MAX_REF_NESTING -> hunits_ok_t d us bad -> bad <> "" ->
  item (S MAX_REF_NESTING) bad = PFail -> has_marker (hstr us ++ bad) = true ->
  token_parse (hstr us ++ bad) = ParseError.
Proof.
  intros Hd Hok Hne Hbad Hm. unfold token_parse. rewrite Hm. unfold parse_ref, parse_ref_fuel.
  destruct us as [|u us].
  - cbn [hstr map srcs append]. unfold many1. now rewrite Hbad.
  - rewrite (hunits_run d u us bad Hd Hok Hbad). destruct bad; [congruence | reflexivity].
Qed.

Lemma has_marker_open a r : has_marker (a ++ "${" ++ r) = true.
Proof. exact (contains_open a r). Qed.

(** an empty reference after any string, whatever follows it, is an error *)
Theorem empty_reference_after_any_string_is_error d us rest :
  d <= MAX_REF_NESTING -> hunits_ok_t d us ("${}" ++ rest) ->
  token_parse (hstr us ++ "${}" ++ rest) = ParseError.
Proof.
  intros Hd Hok. apply (stuck_after_any_string_is_error d); try assumption.
  - discriminate.
  - apply item_empty_ref.
  - exact (has_marker_open (hstr us) ("}" ++ rest)).
Qed.

(** a reference that is never closed, after any string, is an error *)
Theorem unclosed_reference_after_any_string_is_error d us k :
  d <= MAX_REF_NESTING -> plain k -> hunits_ok_t d us ("${" ++ k) ->
  token_parse (hstr us ++ "${" ++ k) = ParseError.
Proof.
  intros Hd Hk Hok. apply (stuck_after_any_string_is_error d); try assumption.
  - discriminate.
  - apply item_unclosed, Hk.
  - apply has_marker_open.
Qed.

(** * non-vacuity: a JSON-like template with lone braces, dollars and backslashes, and a
    reference whose path holds a lone dollar, brace and backslash *)
Definition ex_path : list xatom := [XPlain "a" "b"; XDollar; XPlain "c" ""; XBrace; XBack; XPlain "d" ""; XOpen; XBs].
Example ex_path_ok : lit_ok (xrun_src ex_path) (xrun_val ex_path).
Proof. apply any_text_inside_a_reference_is_one_piece; cbn; unfold starts; cbn; intuition reflexivity. Qed.

Definition ex_units : list hunit :=
  [HText "{" """a"": "; HRef [GLit (xrun_src ex_path) (xrun_val ex_path)]; HText "," " ""b"": ""$5 \ }{ "; HBs;
   HRef [GLit "x" "x"]; HText "}" "}"].
Example ex_units_parse :
  token_parse (hstr ex_units) =
    Parsed (TComb [TLit "{""a"": "; TRef [TLit (xrun_val ex_path)]; TLit (", ""b"": ""$5 \ }{ " ++ bs); TRef [TLit "x"]; TLit "}}"]).
Proof.
  apply (any_string_parses 0); [unfold MAX_REF_NESTING; lia | | reflexivity].
  unfold hunits_ok. cbn [hunits_ok_t ex_units hok].
  split; [repeat split; reflexivity|].
  split; [cbn [gwf]; split; [discriminate | split; [exact I | constructor; [exact ex_path_ok | constructor]]]|].
  split; [repeat split; reflexivity|].
  split; [left; reflexivity|].
  split; [cbn [gwf]; split; [discriminate | split; [exact I | constructor; [exact (plain_text_is_one_piece "x" "" (conj eq_refl I)) | constructor]]]|].
  split; [repeat split; reflexivity | exact I].
Qed.

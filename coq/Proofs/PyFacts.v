(* C19: the conversion to Python objects (Model/Py.v) on rendered data. *)
From RV Require Import Model.Py Proofs.ValueFacts Proofs.WfFacts.

(** the shape Python sees *)
Inductive same_data : value -> pyobj -> Prop :=
| SDNull : same_data VNull PyNone
| SDBool b : same_data (VBool b) (PyBool b)
| SDInt z : same_data (VNum (NInt z)) (PyInt z)
| SDFloat f : same_data (VNum (NFloat f)) (PyFloat f)
| SDLit s : same_data (VLit s) (PyStr s)
| SDStr s : same_data (VStr s) (PyStr s)
| SDSeq l l' : Forall2 same_data l l' -> same_data (VSeq l) (PyList l')
| SDMap es d :
    Forall2 (fun (e : entry) (p : pyobj * pyobj) => same_data (e_key e) (fst p) /\ same_data (e_val e) (snd p)) es d ->
    same_data (VMap es) (PyDict d).

Fixpoint as_py_seq (l : list value) : pyres (list pyobj) :=
  match l with
  | [] => PyOk []
  | x :: xs => pybind (as_py_obj x) (fun y => pybind (as_py_seq xs) (fun ys => PyOk (y :: ys)))
  end.

Fixpoint as_py_entries (es : list entry) (acc : list (pyobj * pyobj)) : pyres (list (pyobj * pyobj)) :=
  match es with
  | [] => PyOk acc
  | (k, x, _, _) :: es' =>
      pybind (as_py_obj k) (fun pk =>
      pybind (as_py_obj x) (fun pv =>
      if py_hashable pk then as_py_entries es' (py_set_item acc pk pv) else PyTypeError))
  end.

Lemma as_py_seq_eq l : as_py_obj (VSeq l) = pybind (as_py_seq l) (fun l' => PyOk (PyList l')).
Proof. reflexivity. Qed.
Lemma as_py_map_eq es : as_py_obj (VMap es) = pybind (as_py_entries es []) (fun d => PyOk (PyDict d)).
Proof. reflexivity. Qed.

(** closed data never reaches the unreachable!() of as_py_obj; keys are values too *)
Fixpoint closed_keys (v : value) : Prop :=
  match v with
  | VMap es =>
      (fix go (es : list entry) : Prop :=
         match es with [] => True | (k, x, _, _) :: es' => (closed k /\ closed_keys k /\ closed_keys x) /\ go es' end) es
  | VSeq l | VList l =>
      (fix go (l : list value) : Prop := match l with [] => True | x :: l' => closed_keys x /\ go l' end) l
  | _ => True
  end.

Lemma as_py_no_panic : forall v, closed v -> closed_keys v -> as_py_obj v <> PyPanic.
Proof.
  induction v as [| b | s | s | n | es IH | vs IH | vs IH] using value_ind'; intros Hc Hk; try discriminate.
  - destruct n; discriminate.
  - rewrite as_py_map_eq.
    assert (G : forall acc, as_py_entries es acc <> PyPanic).
    { apply closed_map_iff in Hc. cbn [closed_keys] in Hk.
      induction es as [|[[[k x] c] o] es IHes]; intros acc; cbn [as_py_entries]; [discriminate|].
      inversion IH as [|? ? [Hkk Hx] IHr]; subst. inversion Hc as [|? ? Hcx Hcr]; subst. cbn [e_key e_val fst snd] in *.
      destruct Hk as [(Hck & Hkk2 & Hkx) Hkr].
      specialize (Hkk Hck Hkk2). destruct (as_py_obj k) as [pk| |]; cbn [pybind]; try congruence; try discriminate.
      specialize (Hx Hcx Hkx). destruct (as_py_obj x) as [pv| |]; cbn [pybind]; try congruence; try discriminate.
      destruct (py_hashable pk); [apply IHes; assumption | discriminate]. }
    specialize (G []). destruct (as_py_entries es []); cbn [pybind]; congruence.
  - rewrite as_py_seq_eq. apply closed_seq_iff in Hc. cbn [closed_keys] in Hk.
    assert (G : as_py_seq vs <> PyPanic).
    { induction vs as [|x vs IHvs]; cbn [as_py_seq]; [discriminate|].
      inversion IH as [|? ? Hx IHr]; subst. inversion Hc as [|? ? Hcx Hcr]; subst. destruct Hk as [Hkx Hkr].
      specialize (Hx Hcx Hkx). destruct (as_py_obj x); cbn [pybind]; try congruence; try discriminate.
      specialize (IHvs IHr Hcr Hkr). destruct (as_py_seq vs); cbn [pybind]; congruence. }
    destruct (as_py_seq vs); cbn [pybind]; congruence.
  - destruct Hc.
Qed.

(** scalars keep their kind: bool stays bool, integers stay (unbounded) integers, other numbers
    floats, strings str, null None *)
Lemma as_py_scalars :
  as_py_obj VNull = PyOk PyNone /\
  (forall b, as_py_obj (VBool b) = PyOk (PyBool b)) /\
  (forall z, as_py_obj (VNum (NInt z)) = PyOk (PyInt z)) /\
  (forall f, as_py_obj (VNum (NFloat f)) = PyOk (PyFloat f)) /\
  (forall s, as_py_obj (VLit s) = PyOk (PyStr s)) /\
  (forall s, as_py_obj (VStr s) = PyOk (PyStr s)).
Proof. repeat split. Qed.

(** dict insertion with a key different (under Python ==) from all present keys appends *)
Definition py_fresh (d : list (pyobj * pyobj)) (k : pyobj) : Prop :=
  Forall (fun p => py_key_eqb (fst p) k = false) d.

Lemma py_set_item_fresh d k v : py_fresh d k -> py_set_item d k v = d ++ [(k, v)].
Proof.
  induction 1 as [|[k' v'] d Hk Hd IH]; cbn [py_set_item app]; [reflexivity|].
  cbn [fst] in Hk. rewrite Hk. now rewrite IH.
Qed.

(** keys pairwise different under Python's == and all hashable: the condition under which a
    mapping survives as a dict entry by entry *)
Fixpoint py_distinct (v : value) : Prop :=
  match v with
  | VMap es =>
      (fix go (es : list entry) (seen : list pyobj) : Prop :=
         match es with
         | [] => True
         | (k, x, _, _) :: es' =>
             (exists pk, as_py_obj k = PyOk pk /\ py_hashable pk = true /\
                         Forall (fun q => py_key_eqb q pk = false) seen /\ go es' (seen ++ [pk])) /\ py_distinct x
         end) es []
  | VSeq l => (fix go (l : list value) : Prop := match l with [] => True | x :: l' => py_distinct x /\ go l' end) l
  | _ => True
  end.

Fixpoint py_distinct_from (es : list entry) (seen : list pyobj) : Prop :=
  match es with
  | [] => True
  | (k, x, _, _) :: es' =>
      (exists pk, as_py_obj k = PyOk pk /\ py_hashable pk = true /\
                  Forall (fun q => py_key_eqb q pk = false) seen /\ py_distinct_from es' (seen ++ [pk])) /\ py_distinct x
  end.

Lemma py_distinct_map es : py_distinct (VMap es) = py_distinct_from es [].
Proof. reflexivity. Qed.

Lemma key_same_data k pk : as_py_obj k = PyOk pk -> py_hashable pk = true -> same_data k pk.
Proof.
  destruct k as [| b | s | s | [z|f] | es | l | l]; intros H Hh.
  - injection H as <-; constructor.
  - injection H as <-; constructor.
  - injection H as <-; constructor.
  - injection H as <-; constructor.
  - injection H as <-; constructor.
  - injection H as <-; constructor.
  - rewrite as_py_map_eq in H. destruct (as_py_entries es []); cbn [pybind] in H; try discriminate. injection H as <-. discriminate.
  - rewrite as_py_seq_eq in H. destruct (as_py_seq l); cbn [pybind] in H; try discriminate. injection H as <-. discriminate.
  - discriminate.
Qed.

(** C19: lossless conversion, entry by entry and in the same key order *)
Theorem as_py_lossless : forall v, closed v -> py_distinct v -> exists o, as_py_obj v = PyOk o /\ same_data v o.
Proof.
  induction v as [| b | s | s | n | es IH | vs IH | vs IH] using value_ind'; intros Hc Hd;
    try (eexists; split; [reflexivity | constructor]).
  - destruct n; eexists; split; try reflexivity; constructor.
  - rewrite as_py_map_eq. apply closed_map_iff in Hc. rewrite py_distinct_map in Hd.
    assert (G : forall acc, py_distinct_from es (map fst acc) ->
               exists d, as_py_entries es acc = PyOk (acc ++ d) /\
                 Forall2 (fun (e : entry) (p : pyobj * pyobj) => same_data (e_key e) (fst p) /\ same_data (e_val e) (snd p)) es d).
    { clear Hd. induction es as [|[[[k x] c] o] es IHes]; intros acc Hd; cbn [as_py_entries].
      - exists []. rewrite app_nil_r. split; [reflexivity | constructor].
      - inversion IH as [|? ? [_ Hx] IHr]; subst. inversion Hc as [|? ? Hcx Hcr]; subst. cbn [e_key e_val fst snd] in *.
        destruct Hd as [(pk & Hpk & Hh & Hfresh & Hrest) Hdx]. rewrite Hpk. cbn [pybind].
        destruct (Hx Hcx Hdx) as (pv & -> & Hsv). cbn [pybind]. rewrite Hh.
        assert (Hf : py_fresh acc pk).
        { unfold py_fresh. clear - Hfresh. induction acc as [|[a b] acc IHa]; [constructor|].
          cbn [map fst] in Hfresh. inversion Hfresh; subst. constructor; [assumption | apply IHa; assumption]. }
        rewrite (py_set_item_fresh _ _ _ Hf).
        destruct (IHes IHr Hcr (acc ++ [(pk, pv)])) as (d & Hd' & Hf2).
        + rewrite map_app. cbn [map fst]. exact Hrest.
        + exists ((pk, pv) :: d). rewrite Hd', <- app_assoc. split; [reflexivity|].
          constructor; [|exact Hf2]. cbn [e_key e_val fst snd]. split; [apply key_same_data; assumption | exact Hsv]. }
    destruct (G [] Hd) as (d & -> & Hf). cbn [pybind app]. eexists. split; [reflexivity | now constructor].
  - rewrite as_py_seq_eq. apply closed_seq_iff in Hc. cbn [py_distinct] in Hd.
    assert (G : exists l', as_py_seq vs = PyOk l' /\ Forall2 same_data vs l').
    { induction vs as [|x vs IHvs]; cbn [as_py_seq]; [exists []; split; [reflexivity | constructor]|].
      inversion IH as [|? ? Hx IHr]; subst. inversion Hc as [|? ? Hcx Hcr]; subst. destruct Hd as [Hdx Hdr].
      destruct (Hx Hcx Hdx) as (y & -> & Hy). cbn [pybind]. destruct (IHvs IHr Hcr Hdr) as (l' & -> & Hl'). cbn [pybind].
      exists (y :: l'). split; [reflexivity | constructor; assumption]. }
    destruct G as (l' & -> & Hl'). cbn [pybind]. eexists. split; [reflexivity | now constructor].
  - destruct Hc.
Qed.

(** C19, the known finding: keys that are equal in Python collapse *)
Example py_key_collision :
  as_py_obj (VMap [mk_entry (VBool true) (VLit "a") false false; mk_entry (VNum (NInt 1)) (VLit "b") false false])
  = PyOk (PyDict [(PyBool true, PyStr "b")]).
Proof. reflexivity. Qed.

(** a list or mapping used as key cannot be hashed: TypeError *)
Example py_unhashable_key :
  as_py_obj (VMap [mk_entry (VSeq [VNum (NInt 1)]) (VLit "a") false false]) = PyTypeError.
Proof. reflexivity. Qed.

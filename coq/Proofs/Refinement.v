(* C02: the render of a stack of layers refines the specification Spec/DeepMerge.v.
   Part 1 (any clean YAML): merging the layers' mappings (Mapping::from + Mapping::merge) is the
   specification's key-by-key collection: same keys in the same order, each entry holding the
   collected layer values (one value, or a ValueList of them), same constant-key errors.
   Part 2 (clean YAML without reference markers in string values, any nesting): interpolating
   the merged mapping is the specification's collect-then-recurse: a ValueList's layers are
   rendered, merged from null with Value::merge (= the specification's combine), and the result
   is interpolated again (= the specification's recursion into the collected slots); errors
   correspond (constant key: same key; type conflict: a merge error).
   Final theorems: render_refines_deep_merge, run_value_refines_deep_merge. *)
From RV Require Import Model.Yaml Model.Interp Model.Run Spec.DeepMerge Proofs.ValueFacts Proofs.MappingFacts Proofs.WfFacts
     Proofs.YamlFacts Proofs.DeepMergeFacts.

(** the value an entry holds for the collected layer values *)
Definition pack (l : list value) : value :=
  match l with
  | [x] => x
  | _ => VList l
  end.

(** conversion of a layer value (value_of_yaml, total on untagged clean YAML) *)
Definition conv (y : yaml) : value :=
  match try_value_of_yaml y with Ok v => v | _ => VNull end.

Lemma conv_not_vlist y : is_vlist (conv y) = false.
Proof.
  unfold conv. destruct y; cbn [try_value_of_yaml]; try reflexivity.
  - unfold rmap. destruct ((fix go (l0 : list yaml) : res (list value) := _) l); reflexivity.
  - unfold rmap. destruct ((fix go (l0 : list (yaml * yaml)) (acc : mapping) : res mapping := _) l []); reflexivity.
Qed.

(** * a clean layer, explicitly *)
Definition kval (k : yaml) : value := match ykey k with Some v => v | None => VNull end.

Section Sim.
  Variable cv : yaml -> value.
  Hypothesis cv_not_vlist : forall y, is_vlist (cv y) = false.

Definition slot_entry_ok (s : slot) (e : entry) : Prop :=
  e_key e = sl_key s /\ e_const e = sl_const s /\ sl_pending s <> [] /\
  e_val e = pack (map cv (sl_pending s)).

Definition slots_ok (slots : list slot) (m : mapping) : Prop := Forall2 slot_entry_ok slots m.

Lemma slot_find_m_find k slots m :
  slots_ok slots m ->
  match slot_find k slots, m_find k m with
  | Some s, Some e => slot_entry_ok s e
  | None, None => True
  | _, _ => False
  end.
Proof.
  induction 1 as [|s e slots m (Hk & Hc & Hp & Hv) Hrest IH]; cbn [slot_find m_find]; [exact I|].
  rewrite Hk. destruct (value_eqb (sl_key s) k); [repeat split; assumption | exact IH].
Qed.

Lemma layers_of_cv y : layers_of (cv y) = [cv y].
Proof. pose proof (cv_not_vlist y). destruct (cv y); try reflexivity. discriminate. Qed.

Lemma pack_snoc l x : l <> [] -> (forall a, In a l -> is_vlist a = false) ->
  match pack l with VList l0 => VList (l0 ++ [x]) | _ => VList [pack l; x] end = pack (l ++ [x]).
Proof.
  intros Hne Hnv. destruct l as [|a [|b l]]; [congruence| |].
  - cbn [pack app]. specialize (Hnv a (or_introl eq_refl)). destruct a; try reflexivity. discriminate.
  - cbn [pack app]. reflexivity.
Qed.

Fixpoint slot_set (k : value) (g : slot -> slot) (slots : list slot) : list slot :=
  match slots with
  | [] => []
  | s :: rest => if value_eqb (sl_key s) k then g s :: rest else s :: slot_set k g rest
  end.

Lemma slot_write_present k p y slots s :
  slot_find k slots = Some s -> sl_const s = false ->
  slot_write k p y slots =
    SOk (slot_set k (fun s => {| sl_key := k; sl_pending := if is_pover p then [y] else sl_pending s ++ [y];
                                 sl_const := is_pconst p |}) slots).
Proof.
  induction slots as [|x slots IH]; cbn [slot_find slot_write slot_set]; [discriminate|].
  destruct (value_eqb (sl_key x) k).
  - intros H Hc; injection H as ->. now rewrite Hc.
  - intros H Hc. now rewrite (IH H Hc).
Qed.

Lemma set_sim k g f slots m :
  slots_ok slots m ->
  (forall s e, slot_find k slots = Some s -> m_find k m = Some e -> slot_entry_ok s e -> slot_entry_ok (g s) (f e)) ->
  slots_ok (slot_set k g slots) (m_set k f m).
Proof.
  intros Hok. induction Hok as [|s e slots m Hse Hrest IH]; intros Hgf; cbn [slot_set m_set]; [constructor|].
  pose proof Hse as (Hke & Hc & Hp & Hv). cbn [slot_find m_find] in Hgf. rewrite Hke in *.
  destruct (value_eqb (sl_key s) k) eqn:E.
  - constructor; [apply Hgf; auto | exact Hrest].
  - constructor; [exact Hse | apply IH; exact Hgf].
Qed.

(** one write: insert_impl with an unmarked key and forced flags vs. the specification's slot_write *)
Lemma write_sim slots m k p y :
  slots_ok slots m -> unmarked k ->
  match slot_write k p y slots, insert_impl m k (cv y) (is_pconst p) (is_pover p) with
  | SOk slots', Ok m' => slots_ok slots' m'
  | SErr (SConst k1), Err (EConst k2) => k1 = k /\ k2 = k
  | _, _ => False
  end.
Proof.
  intros Hok Hk. destruct (unmarked_stripped k Hk) as [Es Em].
  pose proof (slot_find_m_find k slots m Hok) as Hf.
  destruct (slot_find k slots) as [s|] eqn:Fs; destruct (m_find k m) as [e|] eqn:Fm; try contradiction.
  - destruct Hf as (Hke & Hc & Hp & Hv).
    destruct (sl_const s) eqn:Ec.
    + rewrite (spec_const_rejects _ p y _ _ Fs Ec).
      rewrite <- Es in Fm. rewrite (insert_const_rejects _ _ _ _ _ _ Fm) by congruence. rewrite Es. split; reflexivity.
    + rewrite (slot_write_present _ p y _ _ Fs Ec).
      assert (Hec : e_const e = false) by congruence. rewrite <- Es in Fm.
      destruct (is_pover p) eqn:Eo.
      * rewrite (insert_override_replaces _ _ _ _ _ _ Fm Hec) by reflexivity. rewrite Es, Em.
        apply set_sim; [exact Hok|]. intros s0 e0 _ _ _. repeat split; cbn; try discriminate.
        destruct p as [[|]|]; reflexivity.
      * rewrite (insert_appends _ _ _ _ _ _ Fm Hec) by (rewrite Em; reflexivity). rewrite Es, Em.
        apply set_sim; [exact Hok|]. intros s0 e0 Hs0 He0 _. rewrite Es in Fm.
        assert (s0 = s) by congruence. assert (e0 = e) by congruence. subst s0 e0.
        repeat split; cbn [mk_entry e_key e_const e_val sl_key sl_const sl_pending fst snd].
        -- destruct p as [[|]|]; reflexivity.
        -- destruct (sl_pending s); discriminate.
        -- rewrite Hv, layers_of_cv, map_app. cbn [map]. apply pack_snoc.
           ++ destruct (sl_pending s); [congruence | discriminate].
           ++ intros a Ha. apply in_map_iff in Ha as (y0 & <- & _). apply cv_not_vlist.
  - rewrite (spec_write_absent _ p y _ Fs). rewrite <- Es in Fm. rewrite (insert_absent _ _ _ _ _ Fm). rewrite Es, Em.
    apply Forall2_app; [exact Hok|]. constructor; [|constructor].
    repeat split; cbn; try discriminate; try (destruct p as [[|]|]; reflexivity).
Qed.

Definition entry_of (kv : yaml * yaml) : entry :=
  mk_entry (stripped (kval (fst kv))) (cv (snd kv)) (is_pconst (marker (kval (fst kv)))) (is_pover (marker (kval (fst kv)))).

(** the specification's collection of one layer vs. Mapping::merge of the converted layer *)
Lemma layer_sim : forall l slots m,
  slots_ok slots m ->
  (forall kv, In kv l -> exists a, ykey (fst kv) = Some a) ->
  Forall (fun kv => unmarked (stripped (kval (fst kv)))) l ->
  match collect l slots, mapping_merge m (map entry_of l) with
  | SOk slots', Ok m' => slots_ok slots' m'
  | SErr (SConst k1), Err (EConst k2) => k1 = k2
  | _, _ => False
  end.
Proof.
  unfold mapping_merge.
  induction l as [|[k v] l IH]; intros slots m Hok Hk Hum; cbn [collect map foldM]; [exact Hok|].
  destruct (Hk (k, v) (or_introl eq_refl)) as [a Ea]. cbn [fst] in Ea.
  assert (Hkey : key_of k = SOk (stripped a, marker a)).
  { destruct k; cbn in Ea; try discriminate; injection Ea as <-; cbn [key_of]; try reflexivity.
    now rewrite strip_prefix_eta. }
  rewrite Hkey. cbn [sbind].
  assert (Ee : entry_of (k, v) = mk_entry (stripped a) (cv v) (is_pconst (marker a)) (is_pover (marker a))).
  { unfold entry_of. cbn [fst snd]. unfold kval. now rewrite Ea. }
  rewrite Ee. cbn [mk_entry e_key e_val e_const e_over fst snd].
  inversion Hum as [|? ? Hua Hum']; subst. cbn [fst] in Hua. unfold kval in Hua. rewrite Ea in Hua.
  pose proof (write_sim slots m (stripped a) (marker a) v Hok Hua) as Hw.
  destruct (slot_write (stripped a) (marker a) v slots) as [slots'|[k1| |]|]; cbn [sbind];
    destruct (insert_impl m (stripped a) (cv v) (is_pconst (marker a)) (is_pover (marker a))) as [m'|[]| |]; cbn [bind];
    try contradiction; try (destruct Hw; congruence).
  apply IH; [exact Hw | intros kv Hin; apply Hk; now right | exact Hum'].
Qed.

End Sim.

Fixpoint clean_vals (l : list (yaml * yaml)) : Prop :=
  match l with [] => True | (_, v) :: l' => clean_yaml v /\ clean_vals l' end.

Lemma ykeys_kval l ks : ykeys l = Some ks -> ks = map (fun kv => kval (fst kv)) l.
Proof.
  revert ks. induction l as [|[k v] l IH]; intros ks H; cbn [ykeys] in H; [injection H as <-; reflexivity|].
  destruct (ykey k) as [a|] eqn:Ek; [|discriminate]. destruct (ykeys l) as [ks'|]; [|discriminate].
  injection H as <-. cbn [map fst]. unfold kval at 1. rewrite Ek. f_equal. apply IH. reflexivity.
Qed.

Lemma conv_clean y : clean_yaml y -> try_value_of_yaml y = Ok (conv y).
Proof. intros H. destruct (try_value_wf y H) as (v & E & _). unfold conv. now rewrite E. Qed.

Lemma try_map_clean : forall l (acc : mapping),
  (forall kv, In kv l -> exists a, ykey (fst kv) = Some a) -> clean_vals l ->
  NoDup (keys acc ++ map (fun kv => stripped (kval (fst kv))) l) ->
  try_map l acc = Ok (acc ++ map (entry_of conv) l).
Proof.
  induction l as [|[k v] l IH]; intros acc Hk Hv Hnd; cbn [try_map map]; [now rewrite app_nil_r|].
  destruct (Hk (k, v) (or_introl eq_refl)) as [a Ea]. cbn [fst] in Ea.
  rewrite (ykey_try _ _ Ea). cbn [bind]. destruct Hv as [Hcv Hvl]. rewrite (conv_clean v Hcv). cbn [bind].
  assert (Habs : m_find (stripped a) acc = None).
  { apply m_find_none_keys. cbn [map fst] in Hnd. unfold kval in Hnd at 1. rewrite Ea in Hnd.
    apply NoDup_remove_2 in Hnd. intros Hin. apply Hnd, in_or_app. now left. }
  unfold m_insert. rewrite (insert_absent _ _ _ _ _ Habs). cbn [bind].
  rewrite IH.
  - rewrite <- app_assoc. cbn [app]. f_equal. f_equal. unfold entry_of. cbn [fst snd]. unfold kval. rewrite Ea.
    rewrite !orb_false_r. reflexivity.
  - intros kv Hin. apply Hk. now right.
  - exact Hvl.
  - unfold keys in *. rewrite map_app. cbn [map mk_entry e_key fst]. rewrite <- app_assoc. cbn [app map fst] in *.
    unfold kval in Hnd at 1. rewrite Ea in Hnd. exact Hnd.
Qed.

(** * the whole stack: Part 1 *)
Fixpoint collect_layers (ys : list yaml) (slots : list slot) : sres (list slot) :=
  match ys with
  | [] => SOk slots
  | YMap es :: ys' => s <~ collect es slots ;; collect_layers ys' s
  | _ :: _ => SErr SConflict
  end.

Definition merge_layers_try (ys : list yaml) : res mapping :=
  foldM (fun acc y => m <- try_mapping_of_yaml y ;; mapping_merge acc m) ys [].

Definition clean_layer (y : yaml) : Prop := match y with YMap _ => clean_yaml y | _ => False end.

Lemma clean_layer_facts es :
  clean_yaml (YMap es) ->
  (forall kv, In kv es -> exists a, ykey (fst kv) = Some a) /\ clean_vals es /\
  NoDup (map (fun kv => stripped (kval (fst kv))) es) /\
  Forall (fun kv => unmarked (stripped (kval (fst kv)))) es.
Proof.
  cbn [clean_yaml]. intros [(ks & Hks & Hnd & Hum) Hv].
  pose proof (ykeys_kval _ _ Hks) as ->. repeat split.
  - clear - Hks. revert Hks. generalize (map (fun kv : yaml * yaml => kval (fst kv)) es). induction es as [|[k v] es IH]; intros l Hks kv Hin; [destruct Hin|].
    cbn [ykeys] in Hks. destruct (ykey k) as [a|] eqn:Ek; [|discriminate]. destruct (ykeys es) as [ks'|] eqn:E; [|discriminate].
    destruct Hin as [<-|Hin]; [exists a; exact Ek | eapply IH; eauto].
  - clear - Hv. induction es as [|[k v] es IH]; [exact I | split; [apply Hv | apply IH, Hv]].
  - rewrite map_map in Hnd. exact Hnd.
  - rewrite Forall_map in Hum. exact Hum.
Qed.

Theorem stack_merge_refines_collection : forall ys slots m,
  Forall clean_layer ys -> slots_ok conv slots m ->
  match collect_layers ys slots, foldM (fun acc y => m <- try_mapping_of_yaml y ;; mapping_merge acc m) ys m with
  | SOk slots', Ok m' => slots_ok conv slots' m'
  | SErr (SConst k1), Err (EConst k2) => k1 = k2
  | _, _ => False
  end.
Proof.
  induction ys as [|y ys IH]; intros slots m Hc Hok; cbn [collect_layers foldM]; [exact Hok|].
  inversion Hc as [|? ? Hy Hys]; subst. destruct y as [| | | | | es |]; try (exfalso; exact Hy).
  cbn [clean_layer] in Hy. destruct (clean_layer_facts es Hy) as (Hk & Hv & Hnd & Hum).
  assert (El : try_mapping_of_yaml (YMap es) = Ok (map (entry_of conv) es)).
  { unfold try_mapping_of_yaml. rewrite try_map_eq. unfold rmap.
    rewrite (try_map_clean es [] Hk Hv); [reflexivity | exact Hnd]. }
  rewrite El. cbn [bind].
  pose proof (layer_sim conv conv_not_vlist es slots m Hok Hk Hum) as Hl.
  destruct (collect es slots) as [slots'|[k1| |]|]; cbn [sbind];
    destruct (mapping_merge m (map (entry_of conv) es)) as [m'|[]| |]; cbn [bind]; try contradiction; try exact Hl.
  apply IH; assumption.
Qed.

(** * Part 2: rendering.  Domain: clean layers without reference markers in string values. *)
From RV Require Import Proofs.ParserFacts Proofs.InterpFacts Proofs.Mono Proofs.MergeFacts.

Fixpoint refless (y : yaml) : Prop :=
  match y with
  | YStr s => has_marker s = false
  | YSeq l => (fix go (l : list yaml) : Prop := match l with [] => True | x :: l' => refless x /\ go l' end) l
  | YMap l => (fix go (l : list (yaml * yaml)) : Prop := match l with [] => True | (_, v) :: l' => refless v /\ go l' end) l
  | YTagged _ _ => False
  | _ => True
  end.

Definition good (y : yaml) : Prop := clean_yaml y /\ refless y.

Lemma good_seq l : good (YSeq l) <-> Forall good l.
Proof.
  unfold good. cbn [clean_yaml refless]. induction l as [|x l IH]; split.
  - constructor.
  - intros _. split; exact I.
  - intros [[Hc Hcl] [Hr Hrl]]. constructor; [split; assumption | apply IH; split; assumption].
  - intros H. inversion H as [|? ? [Hc Hr] Hl]; subst. apply IH in Hl as [Hcl Hrl]. repeat split; assumption.
Qed.

Lemma good_map es : good (YMap es) -> clean_yaml (YMap es) /\ Forall (fun kv => good (snd kv)) es.
Proof.
  intros [Hc Hr]. split; [exact Hc|]. cbn [clean_yaml] in Hc. destruct Hc as [_ Hc]. cbn [refless] in Hr.
  induction es as [|[k v] es IH]; constructor.
  - cbn [snd]. split; [apply Hc | apply Hr].
  - apply IH; [apply Hc | apply Hr].
Qed.

(** the rendered form of a layer value *)
Fixpoint rv (y : yaml) : value :=
  match y with
  | YNull => VNull
  | YBool b => VBool b
  | YNum n => VNum n
  | YStr s => VLit s
  | YSeq l => VSeq (map rv l)
  | YMap es => VMap (map (fun kv => mk_entry (stripped (kval (fst kv))) (rv (snd kv))
                                      (is_pconst (marker (kval (fst kv)))) (is_pover (marker (kval (fst kv))))) es)
  | YTagged _ _ => VNull
  end.

Lemma rv_map es : rv (YMap es) = VMap (map (entry_of rv) es).
Proof. reflexivity. Qed.

Lemma rv_not_vlist y : is_vlist (rv y) = false.
Proof. destruct y; reflexivity. Qed.

Lemma conv_seq l : clean_yaml (YSeq l) -> conv (YSeq l) = VSeq (map conv l).
Proof.
  intros Hc. unfold conv at 1. rewrite try_seq_eq.
  assert (G : try_seq l = Ok (map conv l)).
  { cbn [clean_yaml] in Hc. induction l as [|x l IH]; [reflexivity|]. destruct Hc as [Hx Hl].
    cbn [try_seq map]. rewrite (conv_clean x Hx), (IH Hl). reflexivity. }
  unfold rmap. rewrite G. reflexivity.
Qed.

Lemma conv_map es : clean_yaml (YMap es) -> conv (YMap es) = VMap (map (entry_of conv) es).
Proof.
  intros Hc. destruct (clean_layer_facts es Hc) as (Hk & Hv & Hnd & Hum).
  unfold conv at 1. rewrite try_map_eq. unfold rmap. rewrite (try_map_clean es [] Hk Hv); [reflexivity | exact Hnd].
Qed.

Definition scalar_key (k : value) : Prop :=
  match k with VMap _ | VSeq _ | VList _ => False | _ => True end.

Lemma push_key_ok st k : scalar_key k -> exists st1, push_mapping_key st k = Ok st1.
Proof.
  destruct k as [| [|] | s | s | n | | |]; cbn; intros H; try destruct H; eexists; reflexivity.
Qed.

Lemma kval_scalar k a : ykey k = Some a -> scalar_key (stripped a).
Proof.
  destruct k; cbn; intros H; try discriminate; injection H as <-; try exact I.
  unfold stripped, strip_prefix. destruct s as [|c s]; [exact I|].
  repeat match goal with |- context [if ?b then _ else _] => destruct b end; exact I.
Qed.

Lemma rv_closed_wf : forall y, good y -> closed (rv y) /\ wf (rv y).
Proof.
  induction y as [| b | n | s0 | l IH | l IH | t y IH] using yaml_ind'; intros Hg; try (split; exact I).
  - apply good_seq in Hg. cbn [rv]. split; [apply closed_seq_iff | apply wf_seq_iff]; rewrite Forall_map;
      rewrite Forall_forall in *; intros x Hx; apply (IH x Hx (Hg x Hx)).
  - destruct (good_map _ Hg) as [Hc Hvs]. destruct (clean_layer_facts l Hc) as (Hk & _ & Hnd & Hum).
    rewrite rv_map. split; [apply closed_map_iff | apply wf_map_iff; split; [|split]].
    + rewrite Forall_map. rewrite Forall_forall in *. intros kv Hin. cbn [entry_of mk_entry e_val fst snd].
      apply (proj2 (IH kv Hin)), Hvs, Hin.
    + unfold keys. rewrite map_map. exact Hnd.
    + unfold keys. rewrite map_map, Forall_map. exact Hum.
    + rewrite Forall_map. rewrite Forall_forall in *. intros kv Hin. cbn [entry_of mk_entry e_val fst snd].
      apply (proj2 (IH kv Hin)), Hvs, Hin.
Qed.

Section Render.
  Variable root : mapping.

  Definition renders_to (x v' : value) : Prop :=
    exists F0, forall F st, F0 <= F -> interp F root x st = Ok (v', st).

  Lemma seq_loop_renders l l' :
    Forall2 renders_to l l' ->
    exists F0, forall F st idx, F0 <= F -> seq_loop (interp F root) st l idx = Ok l'.
  Proof.
    induction 1 as [|x x' l l' [F1 H1] _ [F2 IH]]; [exists 0; reflexivity|].
    exists (Nat.max F1 F2). intros F st idx HF. cbn [seq_loop].
    rewrite (H1 F _ (Nat.le_trans _ _ _ (Nat.le_max_l _ _) HF)). cbn [bind].
    rewrite (IH F st (S idx) (Nat.le_trans _ _ _ (Nat.le_max_r _ _) HF)). reflexivity.
  Qed.

  Definition entry_renders (e e' : entry) : Prop :=
    e_key e' = e_key e /\ e_const e' = e_const e /\ e_over e' = e_over e /\
    renders_to (e_val e) (e_val e') /\ closed (e_val e') /\ wf (e_val e').

  Lemma insert_fresh acc k v c o :
    unmarked k -> ~ In k (keys acc) -> insert_impl acc k v c o = Ok (acc ++ [mk_entry k v c o]).
  Proof.
    intros Hu Hn. destruct (unmarked_stripped k Hu) as [Es Em].
    rewrite insert_absent; [rewrite Es, Em; reflexivity | rewrite Es; now apply m_find_none_keys].
  Qed.

  Lemma map_loop_renders es es' :
    Forall2 entry_renders es es' -> Forall unmarked (keys es) -> Forall scalar_key (keys es) ->
    exists F0, forall F st acc, F0 <= F -> NoDup (keys acc ++ keys es) ->
      map_loop (interp F root) st es acc = Ok (acc ++ es').
  Proof.
    induction 1 as [|e e' es es' (Hk & Hc & Ho & [F1 H1] & Hcl & Hwf) _ IH]; intros Hum Hsk.
    - exists 0. intros. cbn [map_loop]. now rewrite app_nil_r.
    - inversion Hum as [|? ? Hu Hum']; subst. inversion Hsk as [|? ? Hs Hsk']; subst.
      destruct (IH Hum' Hsk') as [F2 IH2]. exists (Nat.max F1 F2). intros F st acc HF Hnd.
      destruct e as [[[k v] c] o]. destruct e' as [[[k' v'] c'] o']. cbn [e_key e_val e_const e_over fst snd] in *. subst k' c' o'.
      cbn [map_loop]. destruct (push_key_ok st k Hs) as [st1 ->]. cbn [bind].
      rewrite (H1 F st1 (Nat.le_trans _ _ _ (Nat.le_max_l _ _) HF)). cbn [bind].
      rewrite (flattened_closed_id _ v' Hcl Hwf). cbn [bind].
      cbn [keys map e_key fst] in Hnd.
      rewrite insert_fresh; [|exact Hu|].
      + cbn [bind]. rewrite (IH2 F st _ (Nat.le_trans _ _ _ (Nat.le_max_r _ _) HF)).
        * rewrite <- app_assoc. reflexivity.
        * unfold keys in *. rewrite map_app, <- app_assoc. exact Hnd.
      + apply NoDup_remove_2 in Hnd. intros Hin. apply Hnd, in_or_app. now left.
  Qed.

  (** a layer value, converted either way, renders to its rendered form *)
  Section Layer.
    Variable cv : yaml -> value.
    Hypothesis cv_null : cv YNull = VNull.
    Hypothesis cv_bool : forall b, cv (YBool b) = VBool b.
    Hypothesis cv_num : forall n, cv (YNum n) = VNum n.
    Hypothesis cv_str : forall s, has_marker s = false -> renders_to (cv (YStr s)) (VLit s).
    Hypothesis cv_seq : forall l, clean_yaml (YSeq l) -> cv (YSeq l) = VSeq (map cv l).
    Hypothesis cv_map : forall es, clean_yaml (YMap es) -> cv (YMap es) = VMap (map (entry_of cv) es).

    Lemma layer_renders : forall y, good y -> renders_to (cv y) (rv y).
    Proof.
      induction y as [| b | n | s0 | l IH | l IH | t y IH] using yaml_ind'; intros Hg.
      - rewrite cv_null. exists 1. intros [|F] st HF; [lia | reflexivity].
      - rewrite cv_bool. exists 1. intros [|F] st HF; [lia | reflexivity].
      - rewrite cv_num. exists 1. intros [|F] st HF; [lia | reflexivity].
      - apply cv_str. apply Hg.
      - rewrite (cv_seq l (proj1 Hg)). apply good_seq in Hg.
        assert (G : Forall2 renders_to (map cv l) (map rv l)).
        { clear cv_seq. induction l as [|x l IHl]; [constructor|]. inversion IH; subst. inversion Hg; subst.
          cbn [map]. constructor; [auto | apply IHl; assumption]. }
        destruct (seq_loop_renders _ _ G) as [F0 H0]. exists (S F0). intros [|F] st HF; [lia|].
        cbn [interp rv]. rewrite (H0 F st 0) by lia. reflexivity.
      - rewrite (cv_map l (proj1 Hg)). destruct (good_map _ Hg) as [Hc Hvs].
        destruct (clean_layer_facts l Hc) as (Hk & _ & Hnd & Hum).
        assert (G : Forall2 entry_renders (map (entry_of cv) l) (map (entry_of rv) l)).
        { clear cv_map Hnd Hum Hc Hg. induction l as [|kv l IHl]; [constructor|]. inversion IH as [|? ? [_ Hx] IHr]; subst. inversion Hvs; subst.
          cbn [map]. constructor; [|apply IHl; try assumption; intros kv' Hin; apply Hk; now right].
          unfold entry_renders, entry_of. cbn [mk_entry e_key e_val e_const e_over fst snd].
          repeat split; try reflexivity; [auto | apply rv_closed_wf; assumption | apply rv_closed_wf; assumption]. }
        destruct (map_loop_renders _ _ G) as [F0 H0].
        + unfold keys. rewrite map_map, Forall_map. exact Hum.
        + unfold keys. rewrite map_map, Forall_map. rewrite Forall_forall. intros kv Hin.
          destruct (Hk kv Hin) as [a Ea]. cbn [entry_of mk_entry e_key fst]. unfold kval. rewrite Ea. exact (kval_scalar _ _ Ea).
        + exists (S (S F0)). intros [|[|F]] st HF; try lia. rewrite rv_map. cbn [interp mapping_interp].
          rewrite (H0 F st []) by (try lia; cbn [app keys map]; unfold keys; rewrite map_map; exact Hnd). reflexivity.
      - destruct Hg as [[] _].
    Qed.
  End Layer.

  Lemma conv_renders y : good y -> renders_to (conv y) (rv y).
  Proof.
    apply layer_renders; try reflexivity.
    - intros s Hs. exists 1. intros [|F] st HF; [lia|]. change (conv (YStr s)) with (VStr s). cbn [interp].
      now rewrite (no_marker_no_parse s Hs).
    - exact conv_seq.
    - exact conv_map.
  Qed.

  Lemma rv_renders y : good y -> renders_to (rv y) (rv y).
  Proof.
    apply layer_renders; try reflexivity.
    intros s Hs. exists 1. intros [|F] st HF; [lia | reflexivity].
  Qed.
End Render.

(** * the specification, with its inner loops named *)
Definition dm_seq (rec : list yaml -> sres value) :=
  fix go (l : list yaml) : sres (list value) :=
    match l with
    | [] => SOk []
    | x :: xs => v <~ rec [x] ;; vs <~ go xs ;; SOk (v :: vs)
    end.

Definition dm_slots (rec : list yaml -> sres value) :=
  fix go (slots : list slot) : sres (list entry) :=
    match slots with
    | [] => SOk []
    | s :: rest => v <~ rec (sl_pending s) ;; es <~ go rest ;; SOk ((sl_key s, v, false, false) :: es)
    end.

Definition finish (rec : list yaml -> sres value) (a : acc) : sres value :=
  match a with
  | ANull => SOk VNull
  | AScalar v => SOk v
  | ASeq l => vs <~ dm_seq rec l ;; SOk (VSeq vs)
  | AMaps slots => es <~ dm_slots rec slots ;; SOk (VMap es)
  end.

Lemma deep_merge_S f ys : deep_merge (S f) ys = (a <~ combine_all ANull ys ;; finish (deep_merge f) a).
Proof. reflexivity. Qed.

(** data of a rendered value, constant/override flags dropped *)
Fixpoint unflag (v : value) : value :=
  match v with
  | VMap es => VMap (map (fun e : entry => match e with (k, x, _, _) => (k, unflag x, false, false) end) es)
  | VSeq l => VSeq (map unflag l)
  | VList l => VList (map unflag l)
  | _ => v
  end.

Definition unflag_entry (e : entry) : entry := (e_key e, unflag (e_val e), false, false).

Lemma unflag_map es : unflag (VMap es) = VMap (map unflag_entry es).
Proof. cbn [unflag]. f_equal. apply map_ext. intros [[[k x] c] o]. reflexivity. Qed.

(** how a specification outcome and an interpreter outcome correspond *)
Definition rel_err {A} (e : serr) (r : res A) : Prop :=
  match e with
  | SConst k => r = Err (EConst k)
  | SConflict => exists ck a b, r = Err (EMerge ck a b)
  | SPanic _ => False
  end.

Definition rel (s : sres value) (st : rstate) (r : res (value * rstate)) : Prop :=
  match s with
  | SOk v => exists v', r = Ok (v', st) /\ unflag v' = v /\ closed v' /\ wf v'
  | SErr e => rel_err e r
  | SFuel => True
  end.

Definition rel_seq (s : sres (list value)) (r : res (list value)) : Prop :=
  match s with
  | SOk xs => exists xs', r = Ok xs' /\ map unflag xs' = xs /\ Forall closed xs' /\ Forall wf xs'
  | SErr e => rel_err e r
  | SFuel => True
  end.

Definition rel_map (acc es : mapping) (s : sres (list entry)) (r : res mapping) : Prop :=
  match s with
  | SOk xs => exists es', r = Ok (acc ++ es') /\ map unflag_entry es' = xs /\ keys es' = keys es /\
                          Forall (fun e => closed (e_val e) /\ wf (e_val e)) es'
  | SErr e => rel_err e r
  | SFuel => True
  end.

Section Sim2.
  Variable root : mapping.

  Definition evals (x : value) (P : rstate -> res (value * rstate) -> Prop) : Prop :=
    exists F0, forall F st, F0 <= F -> P st (interp F root x st).

  Lemma seq_loop_rel rec l vs :
    Forall2 (fun x v => evals v (rel (rec [x]))) l vs ->
    exists F0, forall F st idx, F0 <= F -> rel_seq (dm_seq rec l) (seq_loop (interp F root) st vs idx).
  Proof.
    induction 1 as [|x v l vs [F1 H1] _ [F2 IH]].
    - exists 0. intros. cbn. exists []. repeat split; constructor.
    - exists (Nat.max F1 F2). intros F st idx HF.
      specialize (H1 F (push_list_index st idx) (Nat.le_trans _ _ _ (Nat.le_max_l _ _) HF)).
      specialize (IH F st (S idx) (Nat.le_trans _ _ _ (Nat.le_max_r _ _) HF)).
      cbn [dm_seq seq_loop]. fold (dm_seq rec). destruct (rec [x]) as [a|e|]; cbn [sbind rel] in *.
      + destruct H1 as (v' & -> & Hu & Hc & Hw). cbn [bind].
        destruct (dm_seq rec l) as [xs|e|]; cbn [sbind rel_seq] in *.
        * destruct IH as (xs' & -> & Hxs & Hcs & Hws). cbn [bind]. exists (v' :: xs'). cbn [map]. rewrite Hu, Hxs.
          repeat split; constructor; assumption.
        * destruct e as [k| |p]; cbn [rel_err] in *; [rewrite IH; reflexivity | destruct IH as (ck & a0 & b & ->); repeat eexists | exact IH].
        * exact I.
      + destruct e as [k| |p]; cbn [rel_err] in *; [rewrite H1; reflexivity | destruct H1 as (ck & a0 & b & ->); repeat eexists | exact H1].
      + exact I.
  Qed.

  Lemma map_loop_rel rec slots es :
    Forall2 (fun s e => e_key e = sl_key s /\ evals (e_val e) (rel (rec (sl_pending s)))) slots es ->
    Forall unmarked (keys es) -> Forall scalar_key (keys es) ->
    exists F0, forall F st acc, F0 <= F -> NoDup (keys acc ++ keys es) ->
      rel_map acc es (dm_slots rec slots) (map_loop (interp F root) st es acc).
  Proof.
    induction 1 as [|s e slots es [Hk [F1 H1]] _ IH]; intros Hum Hsk.
    - exists 0. intros. cbn. exists []. rewrite app_nil_r. repeat split; constructor.
    - inversion Hum as [|? ? Hu Hum']; subst. inversion Hsk as [|? ? Hs Hsk']; subst.
      destruct (IH Hum' Hsk') as [F2 IH2]. exists (Nat.max F1 F2). intros F st acc HF Hnd.
      destruct e as [[[k v] c] o]. cbn [e_key e_val fst snd] in *. subst k.
      cbn [dm_slots map_loop]. fold (dm_slots rec). destruct (push_key_ok st (sl_key s) Hs) as [st1 ->]. cbn [bind].
      specialize (H1 F st1 (Nat.le_trans _ _ _ (Nat.le_max_l _ _) HF)).
      destruct (rec (sl_pending s)) as [a|e|]; cbn [sbind rel] in *.
      + destruct H1 as (v' & -> & Hu' & Hc & Hw). cbn [bind].
        rewrite (flattened_closed_id _ v' Hc Hw). cbn [bind]. cbn [keys map e_key fst] in Hnd.
        rewrite insert_fresh; [|exact Hu | apply NoDup_remove_2 in Hnd; intros Hin; apply Hnd, in_or_app; now left].
        cbn [bind].
        assert (Hnd' : NoDup (keys (acc ++ [mk_entry (sl_key s) v' c o]) ++ keys es)).
        { unfold keys in *. rewrite map_app, <- app_assoc. exact Hnd. }
        specialize (IH2 F st _ (Nat.le_trans _ _ _ (Nat.le_max_r _ _) HF) Hnd').
        destruct (dm_slots rec slots) as [xs|e|]; cbn [sbind rel_map] in *.
        * destruct IH2 as (es' & -> & Hxs & Hks & Hcw). exists (mk_entry (sl_key s) v' c o :: es').
          rewrite <- app_assoc. cbn [app map keys]. repeat split.
          -- unfold unflag_entry at 1. cbn [mk_entry e_key e_val fst snd]. rewrite Hu', Hxs. reflexivity.
          -- cbn [mk_entry e_key fst]. f_equal. exact Hks.
          -- constructor; [split; assumption | exact Hcw].
        * destruct e as [k| |p]; cbn [rel_err] in *; [rewrite IH2; reflexivity | destruct IH2 as (ck & a0 & b & ->); repeat eexists | exact IH2].
        * exact I.
      + destruct e as [k| |p]; cbn [rel_err] in *; [rewrite H1; reflexivity | destruct H1 as (ck & a0 & b & ->); repeat eexists | exact H1].
      + exact I.
  Qed.
End Sim2.

(** * invariants of the specification's slots on the domain *)
Definition slot_inv (s : slot) : Prop :=
  unmarked (sl_key s) /\ scalar_key (sl_key s) /\ Forall good (sl_pending s).
Definition slots_inv (slots : list slot) : Prop :=
  NoDup (map sl_key slots) /\ Forall slot_inv slots.

Lemma slot_find_none_keys k slots : slot_find k slots = None <-> ~ In k (map sl_key slots).
Proof.
  induction slots as [|s slots IH]; cbn [slot_find map]; [tauto|].
  destruct (value_eqb (sl_key s) k) eqn:E.
  - apply value_eqb_eq in E. split; [discriminate | intros H; exfalso; apply H; now left].
  - apply value_eqb_neq in E. rewrite IH. cbn [In]. tauto.
Qed.

Lemma slot_set_keys k g slots :
  (forall s, sl_key (g s) = k) -> map sl_key (slot_set k g slots) = map sl_key slots.
Proof.
  intros Hg. induction slots as [|s slots IH]; cbn [slot_set map]; [reflexivity|].
  destruct (value_eqb (sl_key s) k) eqn:E; cbn [map].
  - apply value_eqb_eq in E. now rewrite Hg, E.
  - now rewrite IH.
Qed.

Lemma slot_set_forall (P : slot -> Prop) k g slots :
  Forall P slots -> (forall s, P s -> sl_key s = k -> P (g s)) -> Forall P (slot_set k g slots).
Proof.
  intros H Hg. induction H as [|s slots Hs Hr IH]; cbn [slot_set]; [constructor|].
  destruct (value_eqb (sl_key s) k) eqn:E.
  - apply value_eqb_eq in E. constructor; [apply Hg; assumption | exact Hr].
  - constructor; assumption.
Qed.

Lemma slot_write_inv k p y slots slots' :
  slots_inv slots -> unmarked k -> scalar_key k -> good y ->
  slot_write k p y slots = SOk slots' -> slots_inv slots'.
Proof.
  intros [Hnd Hall] Hu Hs Hg H.
  destruct (slot_find k slots) as [s|] eqn:Fs.
  - destruct (sl_const s) eqn:Ec.
    + rewrite (spec_const_rejects _ p y _ _ Fs Ec) in H. discriminate.
    + rewrite (slot_write_present _ p y _ _ Fs Ec) in H. injection H as <-. split.
      * rewrite slot_set_keys; [exact Hnd | reflexivity].
      * apply slot_set_forall; [exact Hall|]. intros s0 (Hu0 & Hs0 & Hp0) Hk0. repeat split; cbn; try assumption.
        destruct (is_pover p); [constructor; [exact Hg | constructor] | apply Forall_app; split; [exact Hp0 | constructor; [exact Hg | constructor]]].
  - rewrite (spec_write_absent _ p y _ Fs) in H. injection H as <-. split.
    + rewrite map_app. cbn [map sl_key]. apply slot_find_none_keys in Fs.
      clear - Hnd Fs. induction (map sl_key slots) as [|a l IH]; cbn; [constructor; [tauto | constructor]|].
      inversion Hnd; subst. constructor.
      * rewrite in_app_iff. cbn. intros [Ha|[Ha|[]]]; [tauto | subst; apply Fs; now left].
      * apply IH; [assumption | intro Ha; apply Fs; now right].
    + apply Forall_app. split; [exact Hall|]. constructor; [|constructor].
      repeat split; cbn; try assumption. constructor; [exact Hg | constructor].
Qed.

Lemma collect_inv : forall es slots slots',
  slots_inv slots ->
  (forall kv, In kv es -> exists a, ykey (fst kv) = Some a) ->
  Forall (fun kv => unmarked (stripped (kval (fst kv)))) es ->
  Forall (fun kv => good (snd kv)) es ->
  collect es slots = SOk slots' -> slots_inv slots'.
Proof.
  induction es as [|[k v] es IH]; intros slots slots' Hinv Hk Hum Hgs H; cbn [collect] in H; [injection H as <-; exact Hinv|].
  destruct (Hk (k, v) (or_introl eq_refl)) as [a Ea]. cbn [fst] in Ea.
  assert (Hkey : key_of k = SOk (stripped a, marker a)).
  { destruct k; cbn in Ea; try discriminate; injection Ea as <-; cbn [key_of]; try reflexivity.
    now rewrite strip_prefix_eta. }
  rewrite Hkey in H. cbn [sbind] in H.
  inversion Hum as [|? ? Hua Hum']; subst. cbn [fst] in Hua. unfold kval in Hua. rewrite Ea in Hua.
  inversion Hgs as [|? ? Hgv Hgs']; subst. cbn [snd] in Hgv.
  destruct (slot_write (stripped a) (marker a) v slots) as [s1|e|] eqn:Ew; cbn [sbind] in H; try discriminate.
  apply (IH s1 slots'); try assumption.
  - exact (slot_write_inv _ _ _ _ _ Hinv Hua (kval_scalar _ _ Ea) Hgv Ew).
  - intros kv Hin. apply Hk. now right.
Qed.

Lemma slots_ok_keys cv slots m : slots_ok cv slots m -> keys m = map sl_key slots.
Proof. induction 1 as [|s e slots m (Hk & _) _ IH]; cbn [keys map]; [reflexivity|]. unfold keys in IH. now rewrite Hk, IH. Qed.

(** * one layer value arriving at a position: Value::merge vs. the specification's combine *)
Definition Rv (a : acc) (r : value) : Prop :=
  match a with
  | ANull => r = VNull
  | AScalar v => r = v /\ match v with VBool _ | VNum _ | VLit _ => True | _ => False end
  | ASeq l => r = VSeq (map rv l) /\ Forall good l
  | AMaps slots => exists m, r = VMap m /\ slots_ok rv slots m /\ slots_inv slots
  end.

Definition rel_acc (s : sres acc) (r : res value) : Prop :=
  match s with
  | SOk a => exists r', r = Ok r' /\ Rv a r'
  | SErr e => rel_err e r
  | SFuel => True
  end.

Lemma merge_fresh : forall o acc,
  Forall unmarked (keys o) -> NoDup (keys acc ++ keys o) -> mapping_merge acc o = Ok (acc ++ o).
Proof.
  unfold mapping_merge. induction o as [|[[[k v] c] o0] o IH]; intros acc Hum Hnd; cbn [foldM]; [now rewrite app_nil_r|].
  inversion Hum as [|? ? Hu Hum']; subst. cbn [e_key e_val e_const e_over fst snd keys map] in *.
  rewrite insert_fresh; [|exact Hu | apply NoDup_remove_2 in Hnd; intros Hin; apply Hnd, in_or_app; now left].
  cbn [bind]. rewrite IH; [now rewrite <- app_assoc | exact Hum'|].
  unfold keys in *. rewrite map_app, <- app_assoc. exact Hnd.
Qed.

Lemma combine_sim ck a r y :
  Rv a r -> good y -> rel_acc (combine a y) (value_merge ck r (rv y)).
Proof.
  intros HR Hg. destruct y as [| b | n | s | l | es | t y].
  - cbn. exists VNull. split; reflexivity.
  - destruct a as [|v|l0|slots]; cbn [Rv] in HR.
    + subst r. cbn. eexists. split; [reflexivity|]. split; [reflexivity | exact I].
    + destruct HR as [-> Hv]. destruct v; try destruct Hv; cbn; eexists; (split; [reflexivity|]); split; (reflexivity || exact I).
    + destruct HR as [-> _]. cbn. repeat eexists.
    + destruct HR as (m & -> & _). cbn. repeat eexists.
  - destruct a as [|v|l0|slots]; cbn [Rv] in HR.
    + subst r. cbn. eexists. split; [reflexivity|]. split; [reflexivity | exact I].
    + destruct HR as [-> Hv]. destruct v; try destruct Hv; cbn; eexists; (split; [reflexivity|]); split; (reflexivity || exact I).
    + destruct HR as [-> _]. cbn. repeat eexists.
    + destruct HR as (m & -> & _). cbn. repeat eexists.
  - destruct a as [|v|l0|slots]; cbn [Rv] in HR.
    + subst r. cbn. eexists. split; [reflexivity|]. split; [reflexivity | exact I].
    + destruct HR as [-> Hv]. destruct v; try destruct Hv; cbn; eexists; (split; [reflexivity|]); split; (reflexivity || exact I).
    + destruct HR as [-> _]. cbn. repeat eexists.
    + destruct HR as (m & -> & _). cbn. repeat eexists.
  - apply good_seq in Hg. destruct a as [|v|l0|slots]; cbn [Rv] in HR.
    + subst r. cbn. eexists. split; [reflexivity|]. split; [reflexivity | exact Hg].
    + destruct HR as [-> Hv]. destruct v; try destruct Hv; cbn; repeat eexists.
    + destruct HR as [-> Hl0]. cbn. eexists. split; [reflexivity|]. split; [now rewrite map_app | apply Forall_app; split; assumption].
    + destruct HR as (m & -> & _). cbn. repeat eexists.
  - destruct (good_map _ Hg) as [Hc Hvs]. destruct (clean_layer_facts es Hc) as (Hk & _ & Hnd & Hum).
    rewrite rv_map.
    assert (Hfresh : slots_inv [] ) by (split; constructor).
    destruct a as [|v|l0|slots]; cbn [Rv] in HR.
    + subst r. cbn [combine]. change (value_merge ck VNull (VMap (map (entry_of rv) es))) with (@Ok value (VMap (map (entry_of rv) es))).
      pose proof (layer_sim rv rv_not_vlist es [] [] (Forall2_nil _) Hk Hum) as Hl.
      rewrite merge_fresh in Hl.
      2:{ unfold keys. rewrite map_map, Forall_map. exact Hum. }
      2:{ cbn [app keys map]. unfold keys. rewrite map_map. exact Hnd. }
      cbn [app] in Hl. destruct (collect es []) as [s1|e|] eqn:Ec; cbn [sbind rel_acc]; try contradiction.
      * eexists. split; [reflexivity|]. exists (map (entry_of rv) es). repeat split; try exact Hl.
        -- exact (proj1 (collect_inv es [] s1 Hfresh Hk Hum Hvs Ec)).
        -- exact (proj2 (collect_inv es [] s1 Hfresh Hk Hum Hvs Ec)).
      * destruct e; contradiction.
    + destruct HR as [-> Hv]. destruct v; try destruct Hv; cbn; repeat eexists.
    + destruct HR as [-> _]. cbn. repeat eexists.
    + destruct HR as (m & -> & Hok & Hinv). cbn [combine]. rewrite merge_maps.
      pose proof (layer_sim rv rv_not_vlist es slots m Hok Hk Hum) as Hl.
      destruct (collect es slots) as [s1|e|] eqn:Ec; cbn [sbind rel_acc];
        destruct (mapping_merge m (map (entry_of rv) es)) as [m'|e'| |]; cbn [rmap bind]; try contradiction.
      * eexists. split; [reflexivity|]. exists m'. repeat split; try exact Hl.
        -- exact (proj1 (collect_inv es slots s1 Hinv Hk Hum Hvs Ec)).
        -- exact (proj2 (collect_inv es slots s1 Hinv Hk Hum Hvs Ec)).
      * destruct e; contradiction.
      * destruct e as [k| |p]; destruct e'; try contradiction. cbn. now subst.
      * destruct e; contradiction.
      * destruct e; contradiction.
  - destruct Hg as [[] _].
Qed.

(** * all the layer values of a position *)
Fixpoint merge_all (ck : string) (r : value) (ys : list yaml) : res value :=
  match ys with
  | [] => Ok r
  | y :: ys' => r' <- value_merge ck r (rv y) ;; merge_all ck r' ys'
  end.

Lemma combine_all_sim ck : forall ys a r,
  Rv a r -> Forall good ys -> rel_acc (combine_all a ys) (merge_all ck r ys).
Proof.
  induction ys as [|y ys IH]; intros a r HR Hg; cbn [combine_all merge_all].
  - exists r. split; [reflexivity | exact HR].
  - inversion Hg as [|? ? Hy Hys]; subst. pose proof (combine_sim ck a r y HR Hy) as Hc.
    destruct (combine a y) as [a'|e|]; cbn [sbind rel_acc] in *.
    + destruct Hc as (r' & -> & HR'). cbn [bind]. apply IH; assumption.
    + destruct e as [k| |p]; cbn [rel_err] in *; [rewrite Hc; reflexivity | destruct Hc as (c0 & a0 & b0 & ->); repeat eexists | exact Hc].
    + exact I.
Qed.

Section Main.
  Variable root : mapping.

  Lemma vlist_loop_merge_all (cv : yaml -> value) ys :
    Forall (fun y => renders_to root (cv y) (rv y)) ys ->
    exists F0, forall F st r, F0 <= F ->
      vlist_loop (interp F root) st (map cv ys) r = merge_all (current_key st) r ys.
  Proof.
    induction 1 as [|y ys [F1 H1] _ [F2 IH]]; [exists 0; reflexivity|].
    exists (Nat.max F1 F2). intros F st r HF. cbn [map vlist_loop merge_all].
    rewrite (H1 F st (Nat.le_trans _ _ _ (Nat.le_max_l _ _) HF)). cbn [bind].
    destruct (value_merge (current_key st) r (rv y)); cbn [bind]; try reflexivity.
    apply IH. exact (Nat.le_trans _ _ _ (Nat.le_max_r _ _) HF).
  Qed.

  (** the pending values of a key, stored as one value or as a ValueList, render like the
      ValueList of their rendered forms merged from null *)
  Lemma pack_evals (cv : yaml -> value) ys (P : rstate -> res (value * rstate) -> Prop) :
    ys <> [] -> Forall (fun y => renders_to root (cv y) (rv y)) ys ->
    (forall st, exists F0, forall F, F0 <= F ->
       P st (r <- merge_all (current_key st) VNull ys ;; interp F root r st)) ->
    True.
  Proof. trivial. Qed.

  (** finishing a position, given the claim for the positions below it *)
  Definition main_at (f : nat) : Prop :=
    forall ys, ys <> [] -> Forall good ys -> evals root (pack (map rv ys)) (rel (deep_merge f ys)).

  Lemma finish_sim f a r :
    main_at f -> Rv a r -> evals root r (rel (finish (deep_merge f) a)).
  Proof.
    intros IHf HR. destruct a as [|v|l|slots]; cbn [Rv] in HR.
    - subst r. exists 1. intros [|F] st HF; [lia|]. cbn. exists VNull. repeat split.
    - destruct HR as [-> Hv]. exists 1. intros [|F] st HF; [lia|].
      destruct v; try destruct Hv; cbn; eexists; repeat split.
    - destruct HR as [-> Hl].
      assert (G : Forall2 (fun x v => evals root v (rel (deep_merge f [x]))) l (map rv l)).
      { induction Hl as [|x l Hx Hl IH]; [constructor|]. cbn [map]. constructor; [|exact IH].
        apply (IHf [x]); [discriminate | constructor; [exact Hx | constructor]]. }
      destruct (seq_loop_rel root (deep_merge f) l (map rv l) G) as [F0 H0].
      exists (S F0). intros [|F] st HF; [lia|]. specialize (H0 F st 0 ltac:(lia)).
      cbn [interp finish]. destruct (dm_seq (deep_merge f) l) as [xs|e|]; cbn [sbind rel rel_seq] in *.
      + destruct H0 as (xs' & -> & Hxs & Hcs & Hws). cbn [bind]. exists (VSeq xs'). split; [reflexivity | split; [|split]].
        * cbn [unflag]. now rewrite Hxs.
        * now apply closed_seq_iff.
        * now apply wf_seq_iff.
      + destruct e as [k| |p]; cbn [rel_err] in *; [rewrite H0; reflexivity | destruct H0 as (c0 & a0 & b0 & ->); repeat eexists | exact H0].
      + exact I.
    - destruct HR as (m & -> & Hok & Hnd & Hall).
      pose proof (slots_ok_keys _ _ _ Hok) as Hkeys.
      assert (G : Forall2 (fun s e => e_key e = sl_key s /\ evals root (e_val e) (rel (deep_merge f (sl_pending s)))) slots m).
      { clear Hnd Hkeys. induction Hok as [|s e slots m (Hk & _ & Hp & Hv) _ IH]; [constructor|].
        inversion Hall as [|? ? (_ & _ & Hgs) Hall']; subst. constructor; [|apply IH; exact Hall'].
        split; [exact Hk|]. rewrite Hv. apply IHf; assumption. }
      destruct (map_loop_rel root (deep_merge f) slots m G) as [F0 H0].
      + rewrite Hkeys, Forall_map. eapply Forall_impl; [|exact Hall]. intros s Hs. apply Hs.
      + rewrite Hkeys, Forall_map. eapply Forall_impl; [|exact Hall]. intros s Hs. apply Hs.
      + exists (S (S F0)). intros [|[|F]] st HF; try lia.
        specialize (H0 F st [] ltac:(lia)). cbn [app] in H0. rewrite Hkeys in H0. specialize (H0 Hnd).
        cbn [interp mapping_interp finish].
        destruct (dm_slots (deep_merge f) slots) as [xs|e|]; cbn [sbind rel rel_map] in *.
        * destruct H0 as (es' & -> & Hxs & Hks & Hcw). cbn [bind app]. exists (VMap es'). split; [reflexivity | split; [|split]].
          -- rewrite unflag_map, Hxs. reflexivity.
          -- apply closed_map_iff. eapply Forall_impl; [|exact Hcw]. intros e He. apply He.
          -- apply wf_map_iff. rewrite Hks, Hkeys. repeat split; [exact Hnd | | ].
             ++ rewrite Forall_map. eapply Forall_impl; [|exact Hall]. intros s Hs. apply Hs.
             ++ eapply Forall_impl; [|exact Hcw]. intros e He. apply He.
        * destruct e as [k| |p]; cbn [rel_err] in *; [rewrite H0; reflexivity | destruct H0 as (c0 & a0 & b0 & ->); repeat eexists | exact H0].
        * exact I.
  Qed.
End Main.

(** the current key only appears in error messages *)
Lemma value_merge_ck ck ck' a y r : value_merge ck a (rv y) = Ok r -> value_merge ck' a (rv y) = Ok r.
Proof.
  unfold value_merge. rewrite rv_not_vlist. destruct (is_null (rv y)); [trivial|]. cbn [bind].
  destruct a as [| b | s | s | n | es | l | l]; cbn [merge_core]; trivial.
  - destruct (is_mapping (rv y) || is_sequence (rv y)); [discriminate | trivial].
  - destruct (is_mapping (rv y) || is_sequence (rv y)); [discriminate | trivial].
  - destruct (is_mapping (rv y) || is_sequence (rv y)); [discriminate | trivial].
  - destruct (rv y); try discriminate; trivial.
  - destruct (rv y); try discriminate; trivial.
Qed.

Lemma merge_all_ck ck ck' : forall ys a r, merge_all ck a ys = Ok r -> merge_all ck' a ys = Ok r.
Proof.
  induction ys as [|y ys IH]; intros a r H; cbn [merge_all] in *; [exact H|].
  destruct (value_merge ck a (rv y)) as [a'| | |] eqn:E; cbn [bind] in H; try discriminate.
  rewrite (value_merge_ck ck ck' a y a' E). cbn [bind]. apply IH, H.
Qed.

Section Main2.
  Variable root : mapping.

  Lemma main_step f : main_at root f -> main_at root (S f).
  Proof.
    intros IHf ys Hne Hg. rewrite deep_merge_S.
    assert (Hrs : Forall (fun y => renders_to root (rv y) (rv y)) ys).
    { eapply Forall_impl; [|exact Hg]. intros y Hy. apply rv_renders, Hy. }
    destruct ys as [|y1 [|y2 ys]]; [congruence| |].
    - (* one value *)
      cbn [map pack combine_all]. inversion Hg as [|? ? Hy _]; subst.
      pose proof (combine_sim "" ANull VNull y1 eq_refl Hy) as Hc. rewrite (merge_over_null _ _ (rv_not_vlist y1)) in Hc.
      destruct (combine ANull y1) as [a|e|]; cbn [sbind rel_acc] in *.
      + destruct Hc as (r' & Er & HR). injection Er as <-. exact (finish_sim root f a (rv y1) IHf HR).
      + destruct e as [k| |p]; cbn [rel_err] in Hc; [discriminate | destruct Hc as (? & ? & ? & ?); discriminate | destruct Hc].
      + exists 0. intros; exact I.
    - (* several values: a ValueList *)
      set (l := y1 :: y2 :: ys) in *. change (pack (map rv l)) with (VList (map rv l)).
      destruct (vlist_loop_merge_all root rv l Hrs) as [F2 H2].
      destruct (combine_all ANull l) as [a|e|] eqn:Ec; cbn [sbind].
      + pose proof (combine_all_sim "" l ANull VNull eq_refl Hg) as Hs. rewrite Ec in Hs. cbn [rel_acc] in Hs.
        destruct Hs as (r' & E0 & HR). destruct (finish_sim root f a r' IHf HR) as [F1 H1].
        exists (S (Nat.max F1 F2)). intros [|F] st HF; [lia|]. cbn [interp].
        rewrite (H2 F st VNull) by lia. rewrite (merge_all_ck "" (current_key st) l VNull r' E0). cbn [bind].
        apply H1. lia.
      + exists (S F2). intros [|F] st HF; [lia|]. cbn [interp]. rewrite (H2 F st VNull) by lia.
        pose proof (combine_all_sim (current_key st) l ANull VNull eq_refl Hg) as Hs. rewrite Ec in Hs. cbn [rel_acc rel] in *.
        destruct e as [k| |p]; cbn [rel_err] in *; [rewrite Hs; reflexivity | destruct Hs as (c0 & a0 & b0 & ->); repeat eexists | exact Hs].
      + exists 0. intros; exact I.
  Qed.

  Theorem main_all : forall f, main_at root f.
  Proof.
    induction f as [|f IH]; [|exact (main_step f IH)].
    intros ys _ _. exists 0. intros; exact I.
  Qed.

  (** the same for the layer values as converted from YAML (strings not yet parsed) *)
  Theorem main_conv f ys :
    ys <> [] -> Forall good ys -> evals root (pack (map conv ys)) (rel (deep_merge f ys)).
  Proof.
    intros Hne Hg. destruct (main_all f ys Hne Hg) as [F1 H1].
    assert (Hrs : Forall (fun y => renders_to root (rv y) (rv y)) ys).
    { eapply Forall_impl; [|exact Hg]. intros y Hy. apply rv_renders, Hy. }
    assert (Hcs : Forall (fun y => renders_to root (conv y) (rv y)) ys).
    { eapply Forall_impl; [|exact Hg]. intros y Hy. apply conv_renders, Hy. }
    destruct ys as [|y1 [|y2 ys]]; [congruence| |].
    - cbn [map pack] in *. inversion Hrs as [|? ? [F2 H2] _]; subst. inversion Hcs as [|? ? [F3 H3] _]; subst.
      exists (Nat.max F1 (Nat.max F2 F3)). intros F st HF.
      rewrite (H3 F st) by lia. rewrite <- (H2 F st) by lia. apply H1. lia.
    - set (l := y1 :: y2 :: ys) in *. change (pack (map conv l)) with (VList (map conv l)).
      change (pack (map rv l)) with (VList (map rv l)) in H1.
      destruct (vlist_loop_merge_all root rv l Hrs) as [F2 H2].
      destruct (vlist_loop_merge_all root conv l Hcs) as [F3 H3].
      exists (S (Nat.max F1 (Nat.max F2 F3))). intros [|F] st HF; [lia|].
      specialize (H1 (S F) st ltac:(lia)). cbn [interp] in *.
      rewrite (H3 F st VNull) by lia. rewrite (H2 F st VNull) in H1 by lia. exact H1.
  Qed.
End Main2.

(** * the whole stack of layers *)
Definition layer_ok (y : yaml) : Prop := clean_layer y /\ good y.

Lemma combine_all_maps : forall ys slots,
  Forall clean_layer ys ->
  combine_all (AMaps slots) ys = (s <~ collect_layers ys slots ;; SOk (AMaps s)).
Proof.
  induction ys as [|y ys IH]; intros slots Hc; cbn [combine_all collect_layers]; [reflexivity|].
  inversion Hc as [|? ? Hy Hys]; subst. destruct y as [| | | | | es |]; try (exfalso; exact Hy).
  cbn [combine]. destruct (collect es slots) as [s|e|]; cbn [sbind]; try reflexivity. apply IH, Hys.
Qed.

Lemma combine_all_stack ys :
  ys <> [] -> Forall clean_layer ys ->
  combine_all ANull ys = (s <~ collect_layers ys [] ;; SOk (AMaps s)).
Proof.
  intros Hne Hc. destruct ys as [|y ys]; [congruence|]. inversion Hc as [|? ? Hy Hys]; subst.
  destruct y as [| | | | | es |]; try (exfalso; exact Hy). cbn [combine_all collect_layers combine].
  destruct (collect es []) as [s|e|]; cbn [sbind]; try reflexivity. apply combine_all_maps, Hys.
Qed.

Lemma collect_layers_inv : forall ys slots slots',
  Forall layer_ok ys -> slots_inv slots -> collect_layers ys slots = SOk slots' -> slots_inv slots'.
Proof.
  induction ys as [|y ys IH]; intros slots slots' Hl Hinv H; cbn [collect_layers] in H; [injection H as <-; exact Hinv|].
  inversion Hl as [|? ? [Hy Hgy] Hys]; subst. destruct y as [| | | | | es |]; try (exfalso; exact Hy).
  destruct (collect es slots) as [s|e|] eqn:Ec; cbn [sbind] in H; try discriminate.
  destruct (good_map _ Hgy) as [Hc Hvs]. destruct (clean_layer_facts es Hc) as (Hk & _ & _ & Hum).
  apply (IH s slots' Hys); [|exact H]. exact (collect_inv es slots s Hinv Hk Hum Hvs Ec).
Qed.

Section Top.
  Variable root : mapping.

  Lemma maps_finish cv f slots m :
    slots_ok cv slots m -> slots_inv slots ->
    (forall ys, ys <> [] -> Forall good ys -> evals root (pack (map cv ys)) (rel (deep_merge f ys))) ->
    exists F0, forall F st, F0 <= F ->
      rel_map [] m (dm_slots (deep_merge f) slots) (map_loop (interp F root) st m []).
  Proof.
    intros Hok [Hnd Hall] IHf. pose proof (slots_ok_keys _ _ _ Hok) as Hkeys.
    assert (G : Forall2 (fun s e => e_key e = sl_key s /\ evals root (e_val e) (rel (deep_merge f (sl_pending s)))) slots m).
    { clear Hnd Hkeys. induction Hok as [|s e slots m (Hk & _ & Hp & Hv) _ IH]; [constructor|].
      inversion Hall as [|? ? (_ & _ & Hgs) Hall']; subst. constructor; [|apply IH; exact Hall'].
      split; [exact Hk|]. rewrite Hv. apply IHf; assumption. }
    destruct (map_loop_rel root (deep_merge f) slots m G) as [F0 H0].
    - rewrite Hkeys, Forall_map. eapply Forall_impl; [|exact Hall]. intros s Hs. apply Hs.
    - rewrite Hkeys, Forall_map. eapply Forall_impl; [|exact Hall]. intros s Hs. apply Hs.
    - exists F0. intros F st HF. apply H0; [exact HF|]. cbn [app]. rewrite Hkeys. exact Hnd.
  Qed.
End Top.

(** Outcome of merging and rendering the stack, as the inventory code does it
    (Mapping::try_from_yaml, Mapping::merge per layer, render_with_self). *)
Definition render_stack (F : nat) (ys : list yaml) : res value :=
  m <- merge_layers_try ys ;; render_with_self F (VMap m).

Definition stack_rel (s : sres value) (r : res value) : Prop :=
  match s with
  | SOk v => exists v', r = Ok v' /\ unflag v' = v
  | SErr (SConst k) => r = Err (EConst k) \/ r = Err (EResolving (EConst k))
  | SErr SConflict => exists ck a b, r = Err (EResolving (EMerge ck a b))
  | SErr (SPanic _) => False
  | SFuel => True
  end.

Theorem render_refines_deep_merge f ys :
  ys <> [] -> Forall layer_ok ys ->
  exists F0, forall F, F0 <= F -> stack_rel (deep_merge (S f) ys) (render_stack F ys).
Proof.
  intros Hne Hl.
  assert (Hc : Forall clean_layer ys) by (eapply Forall_impl; [|exact Hl]; intros y Hy; apply Hy).
  rewrite deep_merge_S, (combine_all_stack ys Hne Hc). unfold render_stack, merge_layers_try.
  pose proof (stack_merge_refines_collection ys [] [] Hc (Forall2_nil _)) as Hs.
  set (rm := foldM (fun (acc : mapping) (y : yaml) => m <- try_mapping_of_yaml y ;; mapping_merge acc m) ys []) in *.
  clearbody rm.
  destruct (collect_layers ys []) as [slots|e|] eqn:Ec; cbn [sbind].
  - destruct rm as [m| | |]; try contradiction. cbn [bind render_with_self].
    assert (Hinv : slots_inv slots) by (apply (collect_layers_inv ys [] slots Hl); [split; constructor | exact Ec]).
    destruct (maps_finish m conv f slots m Hs Hinv (fun l Hn Hg => main_conv m f l Hn Hg)) as [F0 H0].
    exists (S (S F0)). intros [|[|F]] HF; try lia. specialize (H0 F st0 ltac:(lia)).
    unfold rendered. cbn [interp mapping_interp finish].
    destruct (dm_slots (deep_merge f) slots) as [xs|e|]; cbn [sbind stack_rel rel_map] in *.
    + destruct H0 as (es' & -> & Hxs & Hks & Hcw). cbn [app bind map_err].
      assert (Hcl : closed (VMap es')) by (apply closed_map_iff; eapply Forall_impl; [|exact Hcw]; intros e He; apply He).
      assert (Hwf : wf (VMap es')).
      { apply wf_map_iff. rewrite Hks, (slots_ok_keys _ _ _ Hs). destruct Hinv as [Hnd Hall]. split; [exact Hnd | split].
        - rewrite Forall_map. eapply Forall_impl; [|exact Hall]. intros s Hsl. apply Hsl.
        - eapply Forall_impl; [|exact Hcw]. intros e He. apply He. }
      rewrite (flattened_closed_id _ _ Hcl Hwf). exists (VMap es'). split; [reflexivity|].
      rewrite unflag_map, Hxs. reflexivity.
    + destruct e as [k| |p]; cbn [rel_err] in H0.
      * rewrite H0. right. reflexivity.
      * destruct H0 as (c0 & a0 & b0 & ->). repeat eexists.
      * exact H0.
    + exact I.
  - destruct e as [k| |p]; destruct rm as [m|e'| |]; try contradiction; destruct e'; try contradiction.
    subst. exists 0. intros F _. left. reflexivity.
  - destruct rm; contradiction.
Qed.

(** The infallible conversion (From<serde_yaml::Value>, which the value-level API uses) agrees
    with the fallible one wherever the latter succeeds; so the theorem also speaks about
    Run.merge_layers, the pipeline the correspondence check executes. *)
Fixpoint from_seq (l : list yaml) : res (list value) :=
  match l with
  | [] => Ok []
  | x :: xs => v <- value_of_yaml x ;; vs <- from_seq xs ;; Ok (v :: vs)
  end.

Fixpoint from_map (l : list (yaml * yaml)) (acc : mapping) : res mapping :=
  match l with
  | [] => Ok acc
  | (k, v) :: l' =>
      kv <- value_of_yaml k ;; vv <- value_of_yaml v ;;
      match m_insert acc kv vv with
      | Ok acc' => from_map l' acc'
      | Err _ => Panic PMappingFromUnwrap
      | Panic p => Panic p
      | OutOfFuel => OutOfFuel
      end
  end.

Lemma from_seq_eq l : value_of_yaml (YSeq l) = rmap VSeq (from_seq l).
Proof. reflexivity. Qed.
Lemma from_map_eq l : value_of_yaml (YMap l) = rmap VMap (from_map l []).
Proof. reflexivity. Qed.

Lemma from_agrees_with_try : forall y v, try_value_of_yaml y = Ok v -> value_of_yaml y = Ok v.
Proof.
  induction y as [| b | n | s0 | l IH | l IH | t y IH] using yaml_ind'; intros v H; try exact H.
  - rewrite try_seq_eq in H. rewrite from_seq_eq. unfold rmap in *.
    destruct (try_seq l) as [vs| | |] eqn:E; cbn [bind] in H; try discriminate. injection H as <-.
    assert (G : from_seq l = Ok vs).
    { revert vs E. induction l as [|x l IHl]; intros vs E; cbn [try_seq from_seq] in *; [exact E|].
      inversion IH as [|? ? Hx IHr]; subst.
      destruct (try_value_of_yaml x) as [vx| | |] eqn:Ex; cbn [bind] in E; try discriminate.
      destruct (try_seq l) as [vl| | |] eqn:El; cbn [bind] in E; try discriminate.
      rewrite (Hx vx eq_refl), (IHl IHr vl eq_refl). exact E. }
    rewrite G. reflexivity.
  - rewrite try_map_eq in H. rewrite from_map_eq. unfold rmap in *.
    destruct (try_map l []) as [m| | |] eqn:E; cbn [bind] in H; try discriminate. injection H as <-.
    assert (G : forall acc m, try_map l acc = Ok m -> from_map l acc = Ok m).
    { clear E m. induction l as [|[k x] l IHl]; intros acc m E; cbn [try_map from_map] in *; [exact E|].
      inversion IH as [|? ? [Hk Hx] IHr]; subst. cbn [fst snd] in *.
      destruct (try_value_of_yaml k) as [vk| | |] eqn:Ek; cbn [bind] in E; try discriminate.
      destruct (try_value_of_yaml x) as [vx| | |] eqn:Ex; cbn [bind] in E; try discriminate.
      rewrite (Hk vk eq_refl), (Hx vx eq_refl). cbn [bind].
      destruct (m_insert acc vk vx) as [acc'| | |]; cbn [bind] in E; try discriminate.
      apply IHl; assumption. }
    rewrite (G [] m E). reflexivity.
  - discriminate.
Qed.

Lemma foldM_ext_in {A B} (f g : A -> B -> res A) : forall l a,
  (forall a y, In y l -> f a y = g a y) -> foldM f l a = foldM g l a.
Proof.
  induction l as [|y l IH]; intros a H; cbn [foldM]; [reflexivity|].
  rewrite (H a y (or_introl eq_refl)). destruct (g a y); cbn [bind]; try reflexivity.
  apply IH. intros a' y' Hin. apply H. now right.
Qed.

Lemma merge_layers_agree ys :
  Forall clean_layer ys -> Run.merge_layers ys = merge_layers_try ys.
Proof.
  intros Hc. unfold Run.merge_layers, merge_layers_try. apply foldM_ext_in.
  intros acc y Hin. rewrite Forall_forall in Hc. specialize (Hc y Hin).
  destruct y as [| | | | | es |]; try (exfalso; exact Hc). cbn [clean_layer] in Hc.
  unfold mapping_of_yaml, try_mapping_of_yaml.
  now rewrite (conv_clean _ Hc), (from_agrees_with_try _ _ (conv_clean _ Hc)).
Qed.

Theorem run_value_refines_deep_merge f ys :
  ys <> [] -> Forall layer_ok ys ->
  exists F0, forall F, F0 <= F ->
    stack_rel (deep_merge (S f) ys) (m <- Run.merge_layers ys ;; render_with_self F (VMap m)).
Proof.
  intros Hne Hl. destruct (render_refines_deep_merge f ys Hne Hl) as [F0 H0]. exists F0. intros F HF.
  rewrite merge_layers_agree; [exact (H0 F HF)|]. eapply Forall_impl; [|exact Hl]. intros y Hy. apply Hy.
Qed.

(** * non-vacuity: a concrete stack in the domain with a non-trivial outcome *)
Definition ex_l1 : yaml :=
  YMap [(YStr "a", YMap [(YStr "x", YNum (NInt 1)); (YStr "l", YSeq [YStr "p"])]); (YStr "=c", YStr "fixed")].
Definition ex_l2 : yaml :=
  YMap [(YStr "a", YMap [(YStr "l", YSeq [YStr "q"]); (YStr "~x", YNull)]); (YStr "b", YNull)].
Definition ex_l3 : yaml := YMap [(YStr "a", YMap [(YStr "l", YStr "not-a-list")])].
Definition ex_l4 : yaml := YMap [(YStr "c", YStr "again")].

Ltac nodup_values :=
  repeat (constructor; [cbn; intuition discriminate|]); constructor.

Ltac prove_layer_ok :=
  repeat match goal with
         | |- Forall _ (_ :: _) => constructor
         | |- Forall _ [] => constructor
         | |- layer_ok _ => split
         | |- good _ => split
         | |- clean_layer _ => cbn [clean_layer]
         | |- clean_yaml _ => cbn [clean_yaml]
         | |- refless _ => cbn [refless]
         | |- clean_keys _ => eexists; split; [reflexivity | split; [cbn [map]; nodup_values | repeat constructor]]
         | |- _ /\ _ => split
         | |- True => exact I
         | |- has_marker _ = false => reflexivity
         end.

Example ex_domain : Forall layer_ok [ex_l1; ex_l2; ex_l3; ex_l4].
Proof. unfold ex_l1, ex_l2, ex_l3, ex_l4. prove_layer_ok. Qed.

Example ex_value :
  deep_merge 6 [ex_l1; ex_l2] =
    SOk (VMap [(VStr "a", VMap [(VStr "x", VNull, false, false); (VStr "l", VSeq [VLit "p"; VLit "q"], false, false)], false, false);
               (VStr "c", VLit "fixed", false, false); (VStr "b", VNull, false, false)])
  /\ (exists v', render_stack 40 [ex_l1; ex_l2] = Ok v' /\ unflag v' = 
        VMap [(VStr "a", VMap [(VStr "x", VNull, false, false); (VStr "l", VSeq [VLit "p"; VLit "q"], false, false)], false, false);
              (VStr "c", VLit "fixed", false, false); (VStr "b", VNull, false, false)]).
Proof. split; [vm_compute; reflexivity | eexists; split; vm_compute; reflexivity]. Qed.

Example ex_conflict :
  deep_merge 6 [ex_l1; ex_l2; ex_l3] = SErr SConflict /\
  exists ck a b, render_stack 40 [ex_l1; ex_l2; ex_l3] = Err (EResolving (EMerge ck a b)).
Proof. split; [vm_compute; reflexivity | repeat eexists; vm_compute; reflexivity]. Qed.

Example ex_constant :
  deep_merge 6 [ex_l1; ex_l4] = SErr (SConst (VStr "c")) /\
  render_stack 40 [ex_l1; ex_l4] = Err (EConst (VStr "c")).
Proof. split; vm_compute; reflexivity. Qed.

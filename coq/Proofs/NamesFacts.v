(* abs_class_name (C15) and entity discovery (C14) on the model. *)
From RV Require Import Model.Names Proofs.ListsFacts.

(** * C15 *)
Definition no_leading_dot (s : string) : Prop :=
  match s with String "." _ => False | _ => True end.

Fixpoint dots (n : nat) : string :=
  match n with 0 => "" | S n' => String "." (dots n') end.

Lemma count_dots_no_dot s : no_leading_dot s -> count_dots s = (0, s).
Proof.
  destruct s as [|c s]; [reflexivity|]. cbn [no_leading_dot count_dots].
  destruct c as [b0 b1 b2 b3 b4 b5 b6 b7].
  destruct b0, b1, b2, b3, b4, b5, b6, b7; try reflexivity. tauto.
Qed.

Lemma count_dots_dots n rest : no_leading_dot rest -> count_dots (dots n ++ rest) = (n, rest).
Proof.
  intros H. induction n as [|n IH]; cbn [dots String.append].
  - apply count_dots_no_dot, H.
  - cbn [count_dots]. now rewrite IH.
Qed.

(** every class name is [dots n ++ rest] for exactly one n and dot-free-headed rest *)
Lemma count_dots_spec s : let '(n, rest) := count_dots s in s = (dots n ++ rest)%string /\ no_leading_dot rest.
Proof.
  induction s as [|c s IH]; [cbn; auto|].
  destruct (Ascii.eqb_spec c "."%char) as [->|Hc].
  - cbn [count_dots]. destruct (count_dots s) as [n rest]. destruct IH as [-> Hr]. split; [reflexivity | assumption].
  - assert (E : count_dots (String c s) = (0, String c s)).
    { apply count_dots_no_dot. cbn. destruct c as [b0 b1 b2 b3 b4 b5 b6 b7].
      destruct b0, b1, b2, b3, b4, b5, b6, b7; try exact I. congruence. }
    rewrite E. split; [reflexivity|].
    cbn. destruct c as [b0 b1 b2 b3 b4 b5 b6 b7]. destruct b0, b1, b2, b3, b4, b5, b6, b7; try exact I. congruence.
Qed.

Definition dotted (l : list string) : string := concat_str (map (fun p => (p ++ ".")%string) l).

(** names without a leading dot are absolute already *)
Lemma abs_absolute loc cls : no_leading_dot cls -> abs_class_name loc cls = cls.
Proof. intros H. unfold abs_class_name. now rewrite count_dots_no_dot. Qed.

(** one dot: the including class's directory; each further dot one level up *)
Lemma abs_relative loc n rest :
  no_leading_dot rest ->
  abs_class_name loc (dots (S n) ++ rest) = (dotted (drop_last n loc) ++ rest)%string.
Proof. intros H. unfold abs_class_name. rewrite count_dots_dots by assumption. reflexivity. Qed.

(** never above the classes root: beyond the depth of the location the name is anchored at the root *)
Lemma abs_saturates loc n rest :
  no_leading_dot rest -> List.length loc <= n -> abs_class_name loc (dots (S n) ++ rest) = rest.
Proof.
  intros H Hn. rewrite abs_relative by assumption. unfold drop_last.
  assert (E : Datatypes.length loc - n = 0) by lia. rewrite E. reflexivity.
Qed.

(** nodes resolve relative to the root *)
Lemma abs_from_node n rest : no_leading_dot rest -> abs_class_name [] (dots (S n) ++ rest) = rest.
Proof. intros H. apply abs_saturates; [assumption | cbn; lia]. Qed.

(** the directory part is always a prefix of the including class's location *)
Lemma abs_prefix loc n rest :
  no_leading_dot rest ->
  exists k, k <= List.length loc /\ abs_class_name loc (dots (S n) ++ rest) = (dotted (firstn k loc) ++ rest)%string.
Proof.
  intros H. exists (List.length loc - n). split; [lia|]. now rewrite abs_relative.
Qed.

Lemma no_leading_dot_append a b : a <> "" -> no_leading_dot a -> no_leading_dot (a ++ b).
Proof. destruct a; [congruence|]. cbn. auto. Qed.

Lemma dotted_no_leading_dot l rest :
  Forall (fun s => s <> "" /\ no_leading_dot s) l -> no_leading_dot rest -> no_leading_dot (dotted l ++ rest).
Proof.
  intros Hl Hr. destruct l as [|x l]; [exact Hr|].
  inversion Hl as [|? ? [Hx Hd] _]; subst. unfold dotted. cbn [map concat_str].
  destruct x as [|c x]; [congruence|]. cbn in *. exact Hd.
Qed.

Lemma Forall_firstn {A} (P : A -> Prop) k l : Forall P l -> Forall P (firstn k l).
Proof. intros H. revert k. induction H; intros [|k]; cbn; constructor; auto. Qed.

(** resolving twice is resolving once (locations never have empty or dot-leading segments) *)
Lemma abs_idempotent loc cls :
  Forall (fun s => s <> "" /\ no_leading_dot s) loc ->
  abs_class_name loc (abs_class_name loc cls) = abs_class_name loc cls.
Proof.
  intros Hl. pose proof (count_dots_spec cls) as Hs. destruct (count_dots cls) as [n rest] eqn:E.
  destruct Hs as [-> Hr]. destruct n as [|n].
  - change (dots 0 ++ rest)%string with rest. rewrite !(abs_absolute loc rest Hr). reflexivity.
  - rewrite abs_relative by assumption. apply abs_absolute.
    apply dotted_no_leading_dot; [|assumption]. apply Forall_firstn, Hl.
Qed.

(** * C14 *)
Fixpoint entities (kind : ekind) (compose : bool) (entries : list (list string)) : list entity :=
  match entries with
  | [] => []
  | p :: rest => match entity_of kind compose p with
                 | Some e => e :: entities kind compose rest
                 | None => entities kind compose rest
                 end
  end.

Lemma find_entity_In n es e : find_entity n es = Some e -> In e es /\ en_name e = n.
Proof.
  induction es as [|x es IH]; cbn [find_entity]; [discriminate|].
  destruct (String.eqb_spec (en_name x) n) as [E|E].
  - intros H; injection H as <-. split; [now left | assumption].
  - intros H. destruct (IH H). split; [now right | assumption].
Qed.

Lemma find_entity_none n es : find_entity n es = None <-> ~ In n (map en_name es).
Proof.
  induction es as [|x es IH]; cbn [find_entity map In]; [tauto|].
  destruct (String.eqb_spec (en_name x) n) as [E|E]; [split; [discriminate | tauto]|].
  rewrite IH. tauto.
Qed.

(** Success: every YAML file defines exactly one entity, in walk order, and the names are
    pairwise distinct. *)
Lemma discover_from_ok kind compose entries : forall acc m,
  discover_from kind compose entries acc = Ok m ->
  NoDup (map en_name acc) ->
  m = acc ++ entities kind compose entries /\ NoDup (map en_name m).
Proof.
  induction entries as [|p entries IH]; intros acc m H Hnd; cbn [discover_from entities] in *.
  - injection H as <-. now rewrite app_nil_r.
  - destruct (entity_of kind compose p) as [e|]; [|apply IH; assumption].
    destruct (find_entity (en_name e) acc) eqn:F.
    + destruct (String.ltb _ _); discriminate.
    + apply find_entity_none in F.
      destruct (IH (acc ++ [e]) m H) as [-> Hm].
      * rewrite map_app. cbn [map]. apply NoDup_snoc; assumption.
      * split; [now rewrite <- app_assoc | assumption].
Qed.

(** Failure: the error names two different entries that yield the same name. *)
Lemma discover_from_err kind compose entries : forall acc er,
  discover_from kind compose entries acc = Err er ->
  exists n p q e1 e2,
    er = EDuplicate (kind_name kind) n p q /\
    In e1 (acc ++ entities kind compose entries) /\ In e2 (entities kind compose entries) /\
    en_name e1 = n /\ en_name e2 = n /\
    ((p = join "/" (en_path e1) /\ q = join "/" (en_path e2)) \/ (p = join "/" (en_path e2) /\ q = join "/" (en_path e1))).
Proof.
  induction entries as [|p entries IH]; intros acc er H; cbn [discover_from entities] in *; [discriminate|].
  destruct (entity_of kind compose p) as [e|] eqn:Ee.
  - destruct (find_entity (en_name e) acc) as [prev|] eqn:F.
    + apply find_entity_In in F as [Hin Hn].
      assert (Hp : en_path e = p).
      { unfold entity_of in Ee. destruct (rev p); [discriminate|]. destruct (split_ext s) as [stem ext].
        destruct (is_yaml_ext ext); [|discriminate].
        destruct (String.eqb stem "init"); destruct kind;
          try destruct (starts_with_underscore _ || negb compose); injection Ee as <-; reflexivity. }
      exists (en_name e), (if String.ltb (join "/" (en_path prev)) (join "/" p) then join "/" (en_path prev) else join "/" p),
             (if String.ltb (join "/" (en_path prev)) (join "/" p) then join "/" p else join "/" (en_path prev)), prev, e.
      destruct (String.ltb (join "/" (en_path prev)) (join "/" p)); injection H as <-;
        (split; [reflexivity|]; split; [apply in_or_app; now left|]; split; [now left|]; split; [assumption|]; split; [reflexivity|]);
        rewrite Hp; [left | right]; split; reflexivity.
    + destruct (IH _ _ H) as (n & a & b & e1 & e2 & -> & H1 & H2 & Hn1 & Hn2 & Hab).
      exists n, a, b, e1, e2. split; [reflexivity|]. rewrite <- app_assoc in H1. cbn [app] in H1.
      split; [assumption|]. split; [now right|]. tauto.
  - apply IH, H.
Qed.

Theorem discover_exact kind compose entries m :
  discover kind compose entries = Ok m ->
  m = entities kind compose entries /\ NoDup (map en_name m).
Proof. intros H. apply (discover_from_ok kind compose entries [] m H). constructor. Qed.

Theorem discover_collision kind compose entries er :
  discover kind compose entries = Err er ->
  exists n p q e1 e2,
    er = EDuplicate (kind_name kind) n p q /\
    In e1 (entities kind compose entries) /\ In e2 (entities kind compose entries) /\
    en_name e1 = n /\ en_name e2 = n /\
    ((p = join "/" (en_path e1) /\ q = join "/" (en_path e2)) \/ (p = join "/" (en_path e2) /\ q = join "/" (en_path e1))).
Proof. intros H. exact (discover_from_err kind compose entries [] er H). Qed.

(** Conversely, distinct names always succeed (no spurious rejection) *)
Lemma discover_from_nodup kind compose entries : forall acc,
  NoDup (map en_name (acc ++ entities kind compose entries)) ->
  discover_from kind compose entries acc = Ok (acc ++ entities kind compose entries).
Proof.
  induction entries as [|p entries IH]; intros acc H; cbn [discover_from entities] in *; [now rewrite app_nil_r|].
  destruct (entity_of kind compose p) as [e|]; [|apply IH, H].
  assert (F : find_entity (en_name e) acc = None).
  { apply find_entity_none. rewrite map_app in H. cbn [map] in H. apply NoDup_remove_2 in H.
    intros Hin. apply H. apply in_or_app. now left. }
  rewrite F. replace (acc ++ e :: entities kind compose entries) with ((acc ++ [e]) ++ entities kind compose entries)
    by now rewrite <- app_assoc.
  apply IH. now rewrite <- app_assoc.
Qed.

Theorem discover_succeeds_iff_distinct kind compose entries :
  (exists m, discover kind compose entries = Ok m) <-> NoDup (map en_name (entities kind compose entries)).
Proof.
  split.
  - intros [m H]. destruct (discover_exact _ _ _ _ H) as [-> Hn]. exact Hn.
  - intros H. eexists. apply (discover_from_nodup kind compose entries []). exact H.
Qed.

(** looking a discovered name up returns the entity produced by exactly one entry *)
Theorem discover_lookup kind compose entries m n e :
  discover kind compose entries = Ok m -> find_entity n m = Some e ->
  In e (entities kind compose entries) /\ en_name e = n /\
  (forall e', In e' m -> en_name e' = n -> e' = e).
Proof.
  intros H F. destruct (discover_exact _ _ _ _ H) as [-> Hnd]. apply find_entity_In in F as [Hin Hn].
  repeat split; try assumption.
  intros e' Hin' Hn'. clear H. induction (entities kind compose entries) as [|x l IH]; [destruct Hin|].
  cbn [map] in Hnd. inversion Hnd as [|? ? Hx Hl]; subst.
  destruct Hin as [->|Hin], Hin' as [->|Hin']; try reflexivity.
  - exfalso. apply Hx. rewrite <- Hn'. now apply in_map.
  - exfalso. apply Hx. rewrite Hn'. now apply in_map.
  - now apply IH.
Qed.

(* Extraction of the runnable model to OCaml.  ExtrOcamlBasic only: bool, option, unit,
   list, prod, sumbool, sumor map to OCaml natives; string/ascii/nat/positive/N/Z stay
   the extracted inductive types. *)
From Coq Require Extraction.
From Coq Require Import ExtrOcamlBasic.
From RV Require Import Model.Run.
Extraction "model.ml" run_line7.

(* C18  Node metadata matches how the node was discovered.  Statements only; proofs in
   Proofs/MetaFacts.v about Model/Node.v (as_reclass; render_node computes name, uri and the
   parts passed in).  The node name/uri/environment fields and the referencability of
   _reclass_ are compared with a Python reading of the property on every run. *)
From RV Require Import Model.Names Model.Node Proofs.MetaFacts Proofs.NamesRule Proofs.MetaNode Proofs.WfFacts Proofs.NodeFacts Proofs.MetaPresent.

(** The injected parameter: environment base, name {full, parts, path, short} with path = parts
    joined by "/", short = last part. *)
Theorem C18_reclass_parameter :
  forall cfg meta, m_parts meta <> [] ->
    as_reclass cfg meta = Ok (reclass_of (m_name meta) (meta_parts cfg meta)).
Proof. exact as_reclass_spec. Qed.
Eval cbv in "ASSUMPTIONS-OF C18_reclass_parameter"%string. Print Assumptions C18_reclass_parameter.

(** literal-dots compatibility flag (with composition): the name split at dots *)
Theorem C18_parts_with_literal_dots_flag :
  forall cfg meta, m_parts meta <> [] -> c_compose cfg = true -> c_literal_dots cfg = true ->
    meta_parts cfg meta = split_on "." (m_name meta).
Proof. exact parts_literal_dots. Qed.
Eval cbv in "ASSUMPTIONS-OF C18_parts_with_literal_dots_flag"%string. Print Assumptions C18_parts_with_literal_dots_flag.

(** below a directory starting with _ only the last segment *)
Theorem C18_parts_below_underscore_directory :
  forall cfg meta p0 rest, m_parts meta = p0 :: rest -> c_compose cfg && c_literal_dots cfg = false ->
    starts_with_underscore p0 = true -> meta_parts cfg meta = [last_seg (p0 :: rest)].
Proof. exact parts_underscore. Qed.
Eval cbv in "ASSUMPTIONS-OF C18_parts_below_underscore_directory"%string. Print Assumptions C18_parts_below_underscore_directory.

(** otherwise the node's path segments (the name alone without composition) *)
Theorem C18_parts_are_path_segments :
  forall cfg meta p0 rest, m_parts meta = p0 :: rest -> c_compose cfg && c_literal_dots cfg = false ->
    starts_with_underscore p0 = false -> meta_parts cfg meta = p0 :: rest.
Proof. exact parts_plain. Qed.
Eval cbv in "ASSUMPTIONS-OF C18_parts_are_path_segments"%string. Print Assumptions C18_parts_are_path_segments.

(** metadata can only fail for a node without any path segment *)
Theorem C18_fails_only_without_parts :
  forall cfg meta, m_parts meta = [] -> as_reclass cfg meta = Err EMetaParts.
Proof. exact as_reclass_fails_only_without_parts. Qed.
Eval cbv in "ASSUMPTIONS-OF C18_fails_only_without_parts"%string. Print Assumptions C18_fails_only_without_parts.

(** node and name equal the discovered node name, the uri is yaml_fs:// plus the path of the node's
    own file below the nodes directory, the environment is base: for every NodeInfo that
    render_node returns (Proofs/MetaNode.v). *)
Theorem C18_rendered_node_metadata :
  forall f fi cfg root ntbl ctbl name ni,
    render_node f fi cfg root ntbl ctbl name = Ok ni ->
    exists ne, find_node name ntbl = Some ne /\
      ni_node ni = name /\ ni_name ni = name /\ ni_env ni = "base"%string /\
      ni_uri ni = ("yaml_fs://" ++ root ++ "/" ++ join "/" (ne_path ne))%string.
Proof. exact rendered_node_metadata. Qed.
Eval cbv in "ASSUMPTIONS-OF C18_rendered_node_metadata"%string. Print Assumptions C18_rendered_node_metadata.

(** with composition the parts handed to `_reclass_` are the segments of the node file's path
    below the nodes directory, the extension dropped: for every directory path, stem and YAML extension *)
Theorem C18_parts_of_a_discovered_node :
  forall dirs stem ext,
    stem <> ""%string -> yaml_extension ext ->
    strip_ext_path (dirs ++ [(stem ++ "." ++ ext)%string]) = dirs ++ [stem].
Proof. exact parts_of_a_discovered_node. Qed.
Eval cbv in "ASSUMPTIONS-OF C18_parts_of_a_discovered_node"%string. Print Assumptions C18_parts_of_a_discovered_node.

(** The metadata is delivered whatever the node defines itself -- nothing at all, applications only,
    classes, parameters: the parameters of every rendered node hold `_reclass_` (it is inserted first,
    merging only adds keys, rendering keeps the keys of a mapping; Proofs/MetaPresent.v). *)
Theorem C18_rendered_node_holds_the_metadata :
  forall f fi cfg tbl n meta r,
    clean_table tbl -> wf (VMap (n_params n)) ->
    node_render f fi cfg tbl n meta = Ok r ->
    exists v, m_get (VStr "_reclass_") (n_params r) = Some v.
Proof. exact rendered_node_holds_the_metadata. Qed.
Eval cbv in "ASSUMPTIONS-OF C18_rendered_node_holds_the_metadata"%string. Print Assumptions C18_rendered_node_holds_the_metadata.

(** non-vacuity: a node file that is an empty document *)
Example C18_bare_node_nonvacuous :
  let cfg := {| c_ignore := false; c_matches := []; c_compose := false; c_literal_dots := false |} in
  exists n r, node_of_yaml [] (YMap []) = Ok n /\ wf (VMap (n_params n)) /\
    node_render 5 40 cfg [] n {| m_name := "bare"; m_uri := ""; m_parts := ["bare"] |} = Ok r /\
    m_get (VStr "_reclass_") (n_params r) =
      Some (VMap [mk_entry (VStr "environment") (VLit "base") false false;
                  mk_entry (VStr "name") (VMap [mk_entry (VStr "full") (VLit "bare") false false;
                                                mk_entry (VStr "parts") (VSeq [VLit "bare"]) false false;
                                                mk_entry (VStr "path") (VLit "bare") false false;
                                                mk_entry (VStr "short") (VLit "bare") false false]) false false]).
Proof. cbn zeta. eexists. eexists. split; [reflexivity|]. split; [cbn; repeat split; constructor|]. split; vm_compute; reflexivity. Qed.

Example C18_nonvacuous :
  as_reclass {| c_ignore := false; c_matches := []; c_compose := true; c_literal_dots := false |}
             {| m_name := "a.web.prod"; m_uri := ""; m_parts := ["a"; "web.prod"] |}
  = Ok (reclass_of "a.web.prod" ["a"; "web.prod"]) /\
  meta_parts {| c_ignore := false; c_matches := []; c_compose := true; c_literal_dots := true |}
             {| m_name := "a.web.prod"; m_uri := ""; m_parts := ["a"; "web.prod"] |} = ["a"; "web"; "prod"].
Proof. split; reflexivity. Qed.

(** The metadata is merged after the classes (and before the node's own parameters): a class cannot
    override it.  Evaluated in the kernel: a class sets `_reclass_:environment` and `_reclass_:name:short`;
    the rendered node still carries its own. *)
Example C18_classes_do_not_override_the_metadata :
  let cfg := {| c_ignore := false; c_matches := []; c_compose := false; c_literal_dots := false |} in
  let tbl := [{| ce_name := "defaults"; ce_loc := [];
                 ce_doc := YMap [(YStr "parameters", YMap [(YStr "_reclass_", YMap [(YStr "environment", YStr "unknown");
                                                                              (YStr "name", YMap [(YStr "short", YStr "unknown")])])])] |}] in
  exists n r, node_of_yaml [] (YMap [(YStr "classes", YSeq [YStr "defaults"]);
                                     (YStr "parameters", YMap [(YStr "me", YStr "${_reclass_:name:short}|${_reclass_:environment}")])]) = Ok n /\
    node_render 5 60 cfg tbl n {| m_name := "web1"; m_uri := ""; m_parts := ["web1"] |} = Ok r /\
    m_get (VStr "me") (n_params r) = Some (VLit "web1|base").
Proof. cbn zeta. eexists. eexists. split; [reflexivity|]. split; vm_compute; reflexivity. Qed.

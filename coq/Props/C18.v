(* C18 placeholder, replaced below *)
From RV Require Import Model.Mapping.
Theorem C18_placeholder : True. Proof. exact I. Qed.
Eval cbv in "ASSUMPTIONS-OF C18_placeholder"%string. Print Assumptions C18_placeholder.

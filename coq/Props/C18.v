(* C18  Node metadata matches how the node was discovered.  Statements only; proofs in
   Proofs/MetaFacts.v about Model/Node.v (as_reclass; render_node computes name, uri and the
   parts passed in).  The node name/uri/environment fields and the referencability of
   _reclass_ are compared with a Python reading of the property on every run. *)
From RV Require Import Model.Node Proofs.MetaFacts.

(** The injected parameter: environment base, name {full, parts, path, short} with path = parts
    joined by "/", short = last part. *)
Theorem C18_reclass_parameter :
  forall cfg meta, m_parts meta <> [] ->
    as_reclass cfg meta = Ok (reclass_of (m_name meta) (meta_parts cfg meta)).
Proof. exact as_reclass_spec. Qed.
Eval cbv in "ASSUMPTIONS-OF C18_reclass_parameter"%string. Print Assumptions C18_reclass_parameter.

(** literal-dots compatibility flag (with composition): the name split at dots *)
Theorem C18_parts_with_literal_dots_flag :
  forall cfg meta, m_parts meta <> [] -> c_compose cfg = true -> c_literal_dots cfg = true ->
    meta_parts cfg meta = split_on "." (m_name meta).
Proof. exact parts_literal_dots. Qed.
Eval cbv in "ASSUMPTIONS-OF C18_parts_with_literal_dots_flag"%string. Print Assumptions C18_parts_with_literal_dots_flag.

(** below a directory starting with _ only the last segment *)
Theorem C18_parts_below_underscore_directory :
  forall cfg meta p0 rest, m_parts meta = p0 :: rest -> c_compose cfg && c_literal_dots cfg = false ->
    starts_with_underscore p0 = true -> meta_parts cfg meta = [last_seg (p0 :: rest)].
Proof. exact parts_underscore. Qed.
Eval cbv in "ASSUMPTIONS-OF C18_parts_below_underscore_directory"%string. Print Assumptions C18_parts_below_underscore_directory.

(** otherwise the node's path segments (the name alone without composition) *)
Theorem C18_parts_are_path_segments :
  forall cfg meta p0 rest, m_parts meta = p0 :: rest -> c_compose cfg && c_literal_dots cfg = false ->
    starts_with_underscore p0 = false -> meta_parts cfg meta = p0 :: rest.
Proof. exact parts_plain. Qed.
Eval cbv in "ASSUMPTIONS-OF C18_parts_are_path_segments"%string. Print Assumptions C18_parts_are_path_segments.

(** metadata can only fail for a node without any path segment *)
Theorem C18_fails_only_without_parts :
  forall cfg meta, m_parts meta = [] -> as_reclass cfg meta = Err EMetaParts.
Proof. exact as_reclass_fails_only_without_parts. Qed.
Eval cbv in "ASSUMPTIONS-OF C18_fails_only_without_parts"%string. Print Assumptions C18_fails_only_without_parts.

Example C18_nonvacuous :
  as_reclass {| c_ignore := false; c_matches := []; c_compose := true; c_literal_dots := false |}
             {| m_name := "a.web.prod"; m_uri := ""; m_parts := ["a"; "web.prod"] |}
  = Ok (reclass_of "a.web.prod" ["a"; "web.prod"]) /\
  meta_parts {| c_ignore := false; c_matches := []; c_compose := true; c_literal_dots := true |}
             {| m_name := "a.web.prod"; m_uri := ""; m_parts := ["a"; "web.prod"] |} = ["a"; "web"; "prod"].
Proof. split; reflexivity. Qed.

(* C13 placeholder, replaced below *)
From RV Require Import Model.Mapping.
Theorem C13_placeholder : True. Proof. exact I. Qed.
Eval cbv in "ASSUMPTIONS-OF C13_placeholder"%string. Print Assumptions C13_placeholder.

(* C13  Inventory indexes are the exact inverse of per-node lists.  Statements only;
   proofs in Proofs/InventoryFacts.v over the aggregation loop of Model/Node.v. *)
From RV Require Import Model.Node Proofs.SortFacts Proofs.InventoryFacts.
From Coq Require Import Permutation.

(** The class index and the application index map each name to exactly the nodes whose rendered
    list contains it, sorted; the node map holds exactly the rendered nodes. *)
Theorem C13_indexes_are_exact_sorted_inverse :
  forall rs inv, all_ok rs -> inventory_of rs empty_inventory = Ok inv ->
  forall c n,
    (In n (ix_get c (inv_classes inv)) <-> exists i, In (n, i) (oks_of rs) /\ In c (ni_classes i)) /\
    (In n (ix_get c (inv_apps inv)) <-> exists i, In (n, i) (oks_of rs) /\ In c (ni_apps i)) /\
    sorted (ix_get c (inv_classes inv)) /\ sorted (ix_get c (inv_apps inv)).
Proof. exact inventory_index_inverse. Qed.
Eval cbv in "ASSUMPTIONS-OF C13_indexes_are_exact_sorted_inverse"%string. Print Assumptions C13_indexes_are_exact_sorted_inverse.

Theorem C13_index_lists_and_nodes_exact :
  forall rs inv, all_ok rs -> inventory_of rs empty_inventory = Ok inv ->
    (forall c, ix_get c (inv_classes inv) = sort_strings (occ ni_classes c (oks_of rs))) /\
    (forall a, ix_get a (inv_apps inv) = sort_strings (occ ni_apps a (oks_of rs))) /\
    inv_nodes inv = oks_of rs.
Proof. exact inventory_index_exact. Qed.
Eval cbv in "ASSUMPTIONS-OF C13_index_lists_and_nodes_exact"%string. Print Assumptions C13_index_lists_and_nodes_exact.

Theorem C13_no_empty_entries :
  forall rs inv, all_ok rs -> inventory_of rs empty_inventory = Ok inv ->
    Forall (fun p => snd p <> []) (inv_classes inv) /\ Forall (fun p => snd p <> []) (inv_apps inv).
Proof. exact inventory_no_empty_entries. Qed.
Eval cbv in "ASSUMPTIONS-OF C13_no_empty_entries"%string. Print Assumptions C13_no_empty_entries.

(** Rendering the inventory succeeds when every node renders ... *)
Theorem C13_succeeds_when_all_nodes_render :
  forall rs inv, all_ok rs -> inventory_of rs inv = Ok (run_oks (oks_of rs) inv).
Proof. intros rs inv H. exact (inventory_of_ok rs inv H). Qed.
Eval cbv in "ASSUMPTIONS-OF C13_succeeds_when_all_nodes_render"%string. Print Assumptions C13_succeeds_when_all_nodes_render.

(** ... and fails when some node fails, with an error naming a node that fails and its error. *)
Theorem C13_fails_naming_a_failing_node :
  forall rs inv,
    (forall n r, In (n, r) rs -> (exists i, r = Ok i) \/ (exists e, r = Err e)) ->
    ~ all_ok rs ->
    exists n e, In (n, Err e) rs /\ inventory_of rs inv = Err (ENodeFailed n e).
Proof. exact inventory_of_fails. Qed.
Eval cbv in "ASSUMPTIONS-OF C13_fails_naming_a_failing_node"%string. Print Assumptions C13_fails_naming_a_failing_node.

(* C07  Rendered parameters are plain, closed data and a fixed point.  Statements only; proofs
   in Proofs/InterpFacts.v (mutual induction on the fuel of the interpreter of Model/Interp.v)
   and Proofs/FixedPoint.v.
   [wf]: every mapping has duplicate-free keys without a leading marker -- what the YAML
   conversion produces when keys carry at most one marker (see Proofs/YamlFacts.v); keys with
   two markers ("~~k") are outside this domain (DESIGN, finding F14).
   [closed]: no unparsed String and no ValueList in any value position. *)
From RV Require Import Model.Interp Proofs.WfFacts Proofs.InterpFacts Proofs.FixedPoint Proofs.RenderTwice.

(** Every successful interpolation returns closed data: null, bool, number, literal string,
    list or mapping all the way down -- no reference left, no multi-layer artefact. *)
Theorem C07_interpolation_result_is_closed :
  forall f root v st v' st',
    wf (VMap root) -> wf v -> interp f root v st = Ok (v', st') -> closed v' /\ wf v'.
Proof. exact interp_closed. Qed.
Eval cbv in "ASSUMPTIONS-OF C07_interpolation_result_is_closed"%string. Print Assumptions C07_interpolation_result_is_closed.

Theorem C07_rendered_parameters_are_closed :
  forall f v r, wf v -> render_with_self f v = Ok r -> closed r /\ wf r.
Proof. exact render_with_self_closed. Qed.
Eval cbv in "ASSUMPTIONS-OF C07_rendered_parameters_are_closed"%string. Print Assumptions C07_rendered_parameters_are_closed.

(** Keys appear as written minus their marker (the marker was stripped when the mapping was
    built; rendering keeps the keys and their order). *)
Theorem C07_keys_kept_without_marker :
  forall f root m st m',
    wf (VMap root) -> wf (VMap m) -> mapping_interp f root m st = Ok m' ->
    keys m' = keys m /\ Forall unmarked (keys m').
Proof.
  intros f root m st m' Hr Hm H. pose proof (mapping_interp_keys f root m st m' Hr Hm H) as E.
  split; [exact E|]. rewrite E. apply wf_map_iff in Hm. tauto.
Qed.
Eval cbv in "ASSUMPTIONS-OF C07_keys_kept_without_marker"%string. Print Assumptions C07_keys_kept_without_marker.

(** Rendering already rendered parameters again -- against any root -- leaves them unchanged
    (fuel beyond twice the nesting depth; fuel is the model's call-depth bound, not a limit of
    the code). *)
Theorem C07_fixed_point :
  forall root f r, 2 * vdepth r < f -> closed r -> wf r -> simple_keys r -> rendered f root r = Ok r.
Proof. exact rendered_fixed_point. Qed.
Eval cbv in "ASSUMPTIONS-OF C07_fixed_point"%string. Print Assumptions C07_fixed_point.

(** End to end, with no side condition: whatever a render of well-formed parameters returns is a
    fixed point -- rendering it again with the same fuel, against any parameters [R] and as its
    own root, returns it unchanged. *)
Theorem C07_rendered_parameters_are_a_fixed_point :
  forall f root r, wf (VMap root) -> render_with_self f (VMap root) = Ok r ->
    (forall R, rendered f R r = Ok r) /\ render_with_self f r = Ok r.
Proof. exact render_result_is_a_fixed_point. Qed.
Eval cbv in "ASSUMPTIONS-OF C07_rendered_parameters_are_a_fixed_point"%string. Print Assumptions C07_rendered_parameters_are_a_fixed_point.

(** ... and so is every value rendered anywhere, at any state. *)
Theorem C07_rendered_values_render_to_themselves :
  forall f root v st w st1, wf (VMap root) -> wf v -> interp f root v st = Ok (w, st1) ->
    forall R st2, interp f R w st2 = Ok (w, st2).
Proof. exact rendered_value_is_a_fixed_point. Qed.
Eval cbv in "ASSUMPTIONS-OF C07_rendered_values_render_to_themselves"%string. Print Assumptions C07_rendered_values_render_to_themselves.

(** Flattening closed data is the identity (no hidden second pass changes rendered data). *)
Theorem C07_flatten_identity_on_closed :
  forall ck v, closed v -> wf v -> flattened ck v = Ok v.
Proof. exact flattened_closed_id. Qed.
Eval cbv in "ASSUMPTIONS-OF C07_flatten_identity_on_closed"%string. Print Assumptions C07_flatten_identity_on_closed.

(** Non-vacuity: a well-formed root with a reference and a two-layer key renders to closed data. *)
Example C07_nonvacuous :
  let root := [ mk_entry (VStr "a") (VList [VMap [mk_entry (VStr "x") (VNum (NInt 1)) false false];
                                            VMap [mk_entry (VStr "y") (VStr "${b}") false false]]) false false;
                mk_entry (VStr "b") (VSeq [VStr "t"; VNull]) false false ] in
  wf (VMap root) /\
  exists r, render_with_self 50 (VMap root) = Ok r /\ closed r /\
            rendered 50 [] r = Ok r.
Proof.
  cbn zeta. split.
  - cbn. repeat split; repeat constructor; cbn; intuition discriminate.
  - eexists. split; [vm_compute; reflexivity|]. split; [cbn; tauto | vm_compute; reflexivity].
Qed.

(* C07 placeholder, replaced below *)
From RV Require Import Model.Mapping.
Theorem C07_placeholder : True. Proof. exact I. Qed.
Eval cbv in "ASSUMPTIONS-OF C07_placeholder"%string. Print Assumptions C07_placeholder.

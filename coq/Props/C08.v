(* C08 placeholder, replaced below *)
From RV Require Import Model.Mapping.
Theorem C08_placeholder : True. Proof. exact I. Qed.
Eval cbv in "ASSUMPTIONS-OF C08_placeholder"%string. Print Assumptions C08_placeholder.

(* C08  Reference cycles are errors; acyclic references never are.  Statements only; proofs in
   Proofs/Termination.v, StateFacts.v, StateIndep.v, Mono.v about the ResolveState of
   Model/Interp.v.
   "Rendering always comes back with a result or an error" is proved in full: for every
   well-formed parameter mapping (cyclic reference graphs included) there is a fuel from which
   on render_with_self returns one and the same value or error (C08_rendering_always_comes_back;
   fuel is the model's only bound on the call depth, so this is termination).  Also proved:
   when exactly the depth and loop errors are raised, that the state only ever grows along one
   chain (and is cloned, by construction of the loops, for siblings), that successful results
   never depend on the state, fuel irrelevance.
   Cycles are reported (C08_cycles_of_whole_value_references_are_reported): in any set of
   parameters each holding a whole-value reference to another parameter of the set (cycles of
   any length, several cycles, chains leading into a cycle) every parameter renders, from some
   fuel on, to an error that is the reference-loop error or the depth-limit error -- never to a
   value.  For every other placement (C08_no_placement_of_a_cycle_yields_a_value): if every
   parameter of a set forces a reference into the set -- as its whole value, embedded in text,
   or either of them inside a list, a mapping or a layer of a multiply-defined value, at any
   depth -- then each of them, and anything that forces one of them, renders to an error from
   some fuel on, never to a value (which error depends on what else the value holds).
   The paths of the set may be members reached through plain mappings (${c:m}), and a
   reference may assemble its path from nested references (${${p}}).
   PARTIAL: cycles through members of layered / referenced values (the walk passes through a
   ValueList or a reference) are covered by the cyclic streams of the check on every run, not
   by a theorem. *)
From RV Require Import Model.Interp Proofs.WfFacts Proofs.StateFacts Proofs.StateIndep Proofs.Mono Proofs.NoPanic Proofs.Termination Proofs.CycleFacts Proofs.CycleGeneral Proofs.StateDown Proofs.ParserShape Proofs.Chains.

(** The depth error is raised exactly at nesting depth 64 (documented limit), whatever the
    reference refers to ... *)
Theorem C08_depth_limit :
  forall f root parts st, RESOLVE_MAX_DEPTH <= depth st ->
    token_resolve (S f) root (TRef parts) st =
      Err (EDepth (current_key (with_depth st (S (depth st)))) (seen (with_depth st (S (depth st))))).
Proof. exact depth_limit. Qed.
Eval cbv in "ASSUMPTIONS-OF C08_depth_limit"%string. Print Assumptions C08_depth_limit.

(** ... and the loop error exactly when the resolved path is already recorded on the chain that
    leads to this reference; a path that is not recorded is never rejected as a loop here. *)
Theorem C08_loop_error_iff_path_on_chain :
  forall f root parts st path,
    depth st < RESOLVE_MAX_DEPTH ->
    token_slice f root parts (with_depth st (S (depth st))) = Ok path ->
    (mem path (seen st) = true -> token_resolve (S f) root (TRef parts) st = Err (ELoop (seen st))) /\
    (mem path (seen st) = false -> forall ps, token_resolve (S f) root (TRef parts) st <> Err (ELoop ps) \/
         exists v0, m_get (VStr (hd "" (split_on ":" path))) root = Some v0).
Proof. exact loop_error_iff_path_recorded. Qed.
Eval cbv in "ASSUMPTIONS-OF C08_loop_error_iff_path_on_chain"%string. Print Assumptions C08_loop_error_iff_path_on_chain.

(** Along a chain the state only grows: the depth is never decremented, recorded paths are
    never forgotten, the parameter name is unchanged. *)
Theorem C08_state_only_grows_along_a_chain :
  forall f root v st v' st', interp f root v st = Ok (v', st') -> st_le st st'.
Proof. exact interp_state_le. Qed.
Eval cbv in "ASSUMPTIONS-OF C08_state_only_grows_along_a_chain"%string. Print Assumptions C08_state_only_grows_along_a_chain.

(** The same reference used many times, diamonds, siblings: a successful result never depends on
    the paths recorded so far or on the depth counter. *)
Theorem C08_results_independent_of_state :
  forall f root v sa sb ra sa' rb sb',
    interp f root v sa = Ok (ra, sa') -> interp f root v sb = Ok (rb, sb') -> ra = rb.
Proof. exact interp_state_independent. Qed.
Eval cbv in "ASSUMPTIONS-OF C08_results_independent_of_state"%string. Print Assumptions C08_results_independent_of_state.

(** "... acyclic references never are [errors]", the state side: the state can turn a value
    into an error only by growing.  Whatever renders at some state -- some depth, some paths
    already on the chain, some position in the tree -- renders to the same value, with the same
    fuel, at every state with no greater depth and no more recorded paths; in particular from
    the top level.  So a value is never an error because of where it is used from, except for
    the documented limit of 64 on the length of a chain. *)
Theorem C08_what_renders_renders_from_every_shorter_chain :
  forall root f v st r st1 st',
    interp f root v st = Ok (r, st1) -> st_sub st' st ->
    exists st1', interp f root v st' = Ok (r, st1') /\ st_sub st1' st1.
Proof. exact interp_succeeds_at_smaller_states. Qed.
Eval cbv in "ASSUMPTIONS-OF C08_what_renders_renders_from_every_shorter_chain"%string. Print Assumptions C08_what_renders_renders_from_every_shorter_chain.

Theorem C08_what_renders_renders_at_the_top_level :
  forall root f v st r st1, interp f root v st = Ok (r, st1) -> exists st1', interp f root v st0 = Ok (r, st1').
Proof. exact interp_succeeds_at_top_level. Qed.
Eval cbv in "ASSUMPTIONS-OF C08_what_renders_renders_at_the_top_level"%string. Print Assumptions C08_what_renders_renders_at_the_top_level.

Theorem C08_fuel_irrelevant :
  forall root f f' v st r, f <= f' -> interp f root v st = r -> r <> OutOfFuel -> interp f' root v st = r.
Proof. exact interp_fuel_mono. Qed.
Eval cbv in "ASSUMPTIONS-OF C08_fuel_irrelevant"%string. Print Assumptions C08_fuel_irrelevant.

(** Rendering always comes back: for every well-formed mapping of parameters there is a fuel
    from which on the outcome is one and the same, and it is a value or an error -- never a
    panic, never a call depth beyond any bound.  No acyclicity hypothesis: cyclic reference
    graphs are included. *)
Theorem C08_rendering_always_comes_back :
  forall m, wf (VMap m) ->
  exists F r, (forall F', F <= F' -> render_with_self F' (VMap m) = r) /\
              ((exists v, r = Ok v) \/ (exists e, r = Err e)).
Proof.
  intros m Hw. destruct (render_with_self_total m Hw) as (F & r & Hn & H). exists F, r. split; [exact H|].
  destruct r as [v | e | p |]; [left; eexists; reflexivity | right; eexists; reflexivity | | congruence].
  exfalso. exact (render_with_self_no_panic F (VMap m) p Hw (H F (Nat.le_refl _))).
Qed.
Eval cbv in "ASSUMPTIONS-OF C08_rendering_always_comes_back"%string. Print Assumptions C08_rendering_always_comes_back.

(** ... and so does the interpolation of any well-formed value against any well-formed
    parameters, in any resolution state. *)
Theorem C08_interpolation_terminates :
  forall root v st, wf (VMap root) -> wf v ->
  exists F r, r <> OutOfFuel /\ forall F', F <= F' -> interp F' root v st = r.
Proof. intros root v st Hr Hv. exact (interp_total root Hr v st Hv). Qed.
Eval cbv in "ASSUMPTIONS-OF C08_interpolation_terminates"%string. Print Assumptions C08_interpolation_terminates.

(** Cycles are reported: a set [ks] of parameters each of which holds a whole-value reference to
    a parameter of the set ([succ]) -- following the references never leaves the set -- never
    renders to a value: from some fuel on every one of them renders to an error, and the error
    is the reference-loop error or the depth-limit error. *)
Theorem C08_cycles_of_whole_value_references_are_reported :
  forall root, wf (VMap root) ->
  forall ks succ,
    (forall k, In k ks ->
       In (succ k) ks /\ m_get (VStr k) root = Some (VStr (ref_text (succ k))) /\
       split_on ":" k = [k] /\ token_parse (ref_text k) = Parsed (TRef [TLit k])) ->
  forall k st, In k ks ->
    exists F0 e, is_cycle_err e /\ forall F, F0 <= F -> interp F root (VStr (ref_text k)) st = Err e.
Proof. intros root Hw ks succ Hc k st Hk. exact (cycle_is_reported root Hw ks succ Hc k st Hk). Qed.
Eval cbv in "ASSUMPTIONS-OF C08_cycles_of_whole_value_references_are_reported"%string. Print Assumptions C08_cycles_of_whole_value_references_are_reported.

(** non-vacuity: a -> b -> c -> a, and d -> a leading into it *)
Example C08_cycle_hypotheses_hold :
  let root := [ mk_entry (VStr "a") (VStr "${b}") false false; mk_entry (VStr "b") (VStr "${c}") false false;
                mk_entry (VStr "c") (VStr "${a}") false false; mk_entry (VStr "d") (VStr "${a}") false false ] in
  let succ := fun k : string => if String.eqb k "a" then "b" else if String.eqb k "b" then "c" else "a" in
  wf (VMap root) /\
  forall k, In k ["a"; "b"; "c"; "d"] ->
    In (succ k) ["a"; "b"; "c"; "d"] /\ m_get (VStr k) root = Some (VStr (ref_text (succ k))) /\
    split_on ":" k = [k] /\ token_parse (ref_text k) = Parsed (TRef [TLit k]).
Proof.
  cbn zeta. split.
  - apply wf_map_iff. split; [|split].
    + repeat (constructor; [cbn; intuition discriminate|]). constructor.
    + repeat constructor.
    + repeat constructor.
  - intros k [<-|[<-|[<-|[<-|[]]]]]; (split; [cbn; tauto | split; [reflexivity | split; reflexivity]]).
Qed.

(** No placement of a cycle yields a value.  [forces root ks v]: rendering [v] to a value needs
    a reference whose path (a literal, or assembled from nested references) is some p in [ks]
    rendered -- as the whole value, embedded in text, or inside a list, a mapping or a layer, at
    any depth.  The paths of [ks] are parameters (k) or members
    reached through plain mappings (k:a:b).  If the value at every path of the set forces a
    reference into the set, whatever forces one of them renders to one and the same error from
    some fuel on: never a value, never a panic, never without end. *)
Theorem C08_no_placement_of_a_cycle_yields_a_value :
  forall root, wf (VMap root) ->
  forall ks,
    (forall p, In p ks ->
       exists k0 segs v0 v', split_on ":" p = k0 :: segs /\ m_get (VStr k0) root = Some v0 /\
                             raw_lookup segs v0 = Some v' /\ forces root ks v') ->
  forall v st, wf v -> forces root ks v ->
    exists F0 e, forall F, F0 <= F -> interp F root v st = Err e.
Proof. intros root Hw ks Hc v st Hv Hf. exact (forcing_a_cycle_is_an_error_raw root Hw ks Hc v st Hv Hf). Qed.
Eval cbv in "ASSUMPTIONS-OF C08_no_placement_of_a_cycle_yields_a_value"%string. Print Assumptions C08_no_placement_of_a_cycle_yields_a_value.

(** non-vacuity: a cycle through an embedded reference, a list element with a member path, a
    mapping value, and a fully indirect reference ${${ptr}} whose path is assembled from another
    parameter *)
Example C08_general_cycle_hypotheses_hold :
  let root := [ mk_entry (VStr "a") (VStr "x${b}") false false;
                mk_entry (VStr "b") (VSeq [VNum (NInt 1); VStr "${c:m}"]) false false;
                mk_entry (VStr "c") (VMap [mk_entry (VStr "m") (VStr "${${ptr}}") false false]) false false;
                mk_entry (VStr "ptr") (VStr "a") false false ] in
  forall p, In p ["a"; "b"; "c:m"] ->
    exists k0 segs v0 v', split_on ":" p = k0 :: segs /\ m_get (VStr k0) root = Some v0 /\
                          raw_lookup segs v0 = Some v' /\ forces root ["a"; "b"; "c:m"] v'.
Proof.
  cbn zeta. intros p [<-|[<-|[<-|[]]]]; do 4 eexists; (split; [reflexivity|]); (split; [reflexivity|]); (split; [reflexivity|]).
  - cbn [forces]. eexists. split; [vm_compute; reflexivity|]. apply Exists_cons_tl, Exists_cons_hd.
    apply cyc_parts_lit. cbn. tauto.
  - cbn [forces]. right. left. eexists. split; [vm_compute; reflexivity|]. apply cyc_parts_lit. cbn. tauto.
  - cbn [forces]. eexists. split; [vm_compute; reflexivity|].
    exists 12, st0, "a"%string. split; [vm_compute; reflexivity | cbn; tauto].
Qed.

(** The same for cycles whose member paths pass through values that are not plain mappings.
    [wwalk root ks segs v]: a walk along [segs] from [v] cannot end in a value without a
    reference into the set being rendered -- through a plain mapping it continues at the member;
    a reference string met on the way has to be rendered first, so it must force; a multiply-defined
    value either has a layer that is a forcing reference string or, having no string layer, is
    flattened and the walk continues in the merged mapping; the value at the end of the path must
    force (where the walk fails anyway, nothing is required).  If every path of the set walks
    like that, whatever forces one of them renders to one and the same error from some fuel on. *)
Theorem C08_cycles_through_referenced_and_layered_members_yield_no_value :
  forall root, wf (VMap root) ->
  forall ks,
    (forall p, In p ks ->
       exists k0 segs v0, split_on ":" p = k0 :: segs /\ m_get (VStr k0) root = Some v0 /\ wwalk root ks segs v0) ->
  forall v st, wf v -> forces root ks v ->
    exists F0 e, forall F, F0 <= F -> interp F root v st = Err e.
Proof. exact forcing_a_cycle_is_an_error. Qed.
Eval cbv in "ASSUMPTIONS-OF C08_cycles_through_referenced_and_layered_members_yield_no_value"%string. Print Assumptions C08_cycles_through_referenced_and_layered_members_yield_no_value.

(** non-vacuity: a member path through a referenced value (b:x with b: ${a}), through a layer that
    is a reference (t:x), and through the merge of two mapping layers (u:x) *)
Example C08_layered_cycle_hypotheses_hold :
  let root := [ mk_entry (VStr "a") (VStr "${b:x}") false false;
                mk_entry (VStr "b") (VStr "${a}") false false;
                mk_entry (VStr "c") (VStr "${t:x}") false false;
                mk_entry (VStr "t") (VList [VMap [mk_entry (VStr "x") (VNum (NInt 1)) false false]; VStr "${c}"]) false false;
                mk_entry (VStr "d") (VStr "<${u:x}>") false false;
                mk_entry (VStr "u") (VList [VMap [mk_entry (VStr "x") (VStr "${d}") false false];
                                            VMap [mk_entry (VStr "x") (VNum (NInt 2)) false false]]) false false ] in
  let ks := ["a"; "b:x"; "c"; "t:x"; "d"; "u:x"]%string in
  forall p, In p ks ->
    exists k0 segs v0, split_on ":" p = k0 :: segs /\ m_get (VStr k0) root = Some v0 /\ wwalk root ks segs v0.
Proof.
  cbn zeta. intros p [<-|[<-|[<-|[<-|[<-|[<-|[]]]]]]]; do 3 eexists; (split; [reflexivity|]); (split; [reflexivity|]); cbn [wwalk].
  - cbn [forces]. eexists. split; [vm_compute; reflexivity|]. apply cyc_parts_lit. cbn. tauto.
  - cbn [forces]. eexists. split; [vm_compute; reflexivity|]. apply cyc_parts_lit. cbn. tauto.
  - cbn [forces]. eexists. split; [vm_compute; reflexivity|]. apply cyc_parts_lit. cbn. tauto.
  - left. apply Exists_cons_tl, Exists_cons_hd. split; [reflexivity|].
    cbn [forces]. eexists. split; [vm_compute; reflexivity|]. apply cyc_parts_lit. cbn. tauto.
  - cbn [forces]. eexists. split; [vm_compute; reflexivity|]. apply Exists_cons_tl, Exists_cons_hd. apply cyc_parts_lit. cbn. tauto.
  - right. split; [repeat constructor|].
    match goal with |- context [flattened ?a ?b] => let r := eval vm_compute in (flattened a b) in change (flattened a b) with r end.
    cbv beta iota. match goal with |- context [m_get ?a ?b] => let r := eval vm_compute in (m_get a b) in change (m_get a b) with r end.
    cbv beta iota. cbn [wwalk forces]. left. eexists. split; [vm_compute; reflexivity|]. apply cyc_parts_lit. cbn. tauto.
Qed.

(** non-vacuity: a cycle that closes only inside another parameter's render -- a: ${b:x}, b: ${c},
    c: {x: ${a}} -- is covered by putting what must be rendered on the way (c) into the set *)
Example C08_cycle_through_a_rendered_parameter :
  let root := [ mk_entry (VStr "a") (VStr "${b:x}") false false;
                mk_entry (VStr "b") (VStr "${c}") false false;
                mk_entry (VStr "c") (VMap [mk_entry (VStr "x") (VStr "${a}") false false]) false false ] in
  let ks := ["a"; "b:x"; "c"]%string in
  (forall p, In p ks ->
     exists k0 segs v0, split_on ":" p = k0 :: segs /\ m_get (VStr k0) root = Some v0 /\ wwalk root ks segs v0) /\
  exists F0 e, forall F, F0 <= F -> interp F root (VStr "${a}") st0 = Err e.
Proof.
  cbn zeta.
  assert (Hc : forall p, In p ["a"; "b:x"; "c"]%string ->
     exists k0 segs v0, split_on ":" p = k0 :: segs /\
       m_get (VStr k0) [ mk_entry (VStr "a") (VStr "${b:x}") false false; mk_entry (VStr "b") (VStr "${c}") false false;
                         mk_entry (VStr "c") (VMap [mk_entry (VStr "x") (VStr "${a}") false false]) false false ] = Some v0 /\
       wwalk [ mk_entry (VStr "a") (VStr "${b:x}") false false; mk_entry (VStr "b") (VStr "${c}") false false;
               mk_entry (VStr "c") (VMap [mk_entry (VStr "x") (VStr "${a}") false false]) false false ] ["a"; "b:x"; "c"]%string segs v0).
  { intros p [<-|[<-|[<-|[]]]]; do 3 eexists; (split; [reflexivity|]); (split; [reflexivity|]); cbn [wwalk].
    - cbn [forces]. eexists. split; [vm_compute; reflexivity|]. apply cyc_parts_lit. cbn. tauto.
    - cbn [forces]. eexists. split; [vm_compute; reflexivity|]. apply cyc_parts_lit. cbn. tauto.
    - cbn [forces]. left. eexists. split; [vm_compute; reflexivity|]. apply cyc_parts_lit. cbn. tauto. }
  split; [exact Hc|].
  eapply C08_cycles_through_referenced_and_layered_members_yield_no_value; [|exact Hc | exact I|].
  - cbn. repeat split; repeat constructor; cbn; intuition discriminate.
  - cbn [forces]. eexists. split; [vm_compute; reflexivity|]. apply cyc_parts_lit. cbn. tauto.
Qed.

(** "... acyclic references never are": chains of whole-value references k0: ${k1}, ..., kn: target
    (distinct one-segment keys, any length, a target that is rendered data of any kind and shape,
    met at any state that has seen none of the keys).  The head
    renders to the target exactly when the chain fits below the documented depth of 64, and to the
    depth error otherwise: never a loop error, never a wrong value (Proofs/Chains.v). *)
Theorem C08_acyclic_chains_render_up_to_the_depth_limit :
  forall root target, plain_data target -> forall ks st,
    links root ks target -> Forall key_ok ks -> NoDup ks -> Forall (fun k => mem k (seen st) = false) ks ->
    exists F, forall f, F <= f ->
      match ks with
      | [] => True
      | k0 :: _ =>
          if Nat.leb (depth st + List.length ks) RESOLVE_MAX_DEPTH
          then exists st', interp f root (VStr (refs k0)) st = Ok (target, st')
          else exists ck sn, interp f root (VStr (refs k0)) st = Err (EDepth ck sn)
      end.
Proof. exact chain_renders. Qed.
Eval cbv in "ASSUMPTIONS-OF C08_acyclic_chains_render_up_to_the_depth_limit"%string. Print Assumptions C08_acyclic_chains_render_up_to_the_depth_limit.

Theorem C08_chains_of_at_most_64_references_render :
  forall root target k0 ks,
    plain_data target -> links root (k0 :: ks) target -> Forall key_ok (k0 :: ks) -> NoDup (k0 :: ks) ->
    List.length (k0 :: ks) <= RESOLVE_MAX_DEPTH ->
    exists F, forall f, F <= f -> exists st', interp f root (VStr (refs k0)) st0 = Ok (target, st').
Proof. exact chains_within_the_limit_render. Qed.
Eval cbv in "ASSUMPTIONS-OF C08_chains_of_at_most_64_references_render"%string. Print Assumptions C08_chains_of_at_most_64_references_render.

Theorem C08_longer_chains_are_depth_errors :
  forall root target k0 ks,
    plain_data target -> links root (k0 :: ks) target -> Forall key_ok (k0 :: ks) -> NoDup (k0 :: ks) ->
    RESOLVE_MAX_DEPTH < List.length (k0 :: ks) ->
    exists F, forall f, F <= f -> exists ck sn, interp f root (VStr (refs k0)) st0 = Err (EDepth ck sn).
Proof. exact chains_beyond_the_limit_are_depth_errors. Qed.
Eval cbv in "ASSUMPTIONS-OF C08_longer_chains_are_depth_errors"%string. Print Assumptions C08_longer_chains_are_depth_errors.

(** non-vacuity: a chain of three keys; its premises hold, and both branches occur (from the top
    level it renders; met at depth 62 it exceeds the limit) *)
Example C08_chain_premises_hold :
  let root := [ mk_entry (VStr "a") (VStr "${b}") false false; mk_entry (VStr "c") (VSeq [VNum (NInt 7); VMap [mk_entry (VStr "x") VNull false false]]) false false;
                mk_entry (VStr "b") (VStr "${c}") false false ] in
  plain_data (VSeq [VNum (NInt 7); VMap [mk_entry (VStr "x") VNull false false]]) /\
  links root ["a"; "b"; "c"]%string (VSeq [VNum (NInt 7); VMap [mk_entry (VStr "x") VNull false false]]) /\ Forall key_ok ["a"; "b"; "c"]%string /\ NoDup ["a"; "b"; "c"]%string /\
  (exists st', interp 40 root (VStr (refs "a")) st0 = Ok (VSeq [VNum (NInt 7); VMap [mk_entry (VStr "x") VNull false false]], st')) /\
  (exists ck sn, interp 40 root (VStr (refs "a")) (Build_rstate [] 62 []) = Err (EDepth ck sn)).
Proof.
  cbn zeta. split; [cbn; repeat split; repeat constructor; cbn; intuition discriminate|].
  split; [repeat split; reflexivity|]. split; [repeat constructor; try discriminate; reflexivity|].
  split; [repeat constructor; cbn; intuition discriminate|].
  split; [eexists; vm_compute; reflexivity | eexists; eexists; vm_compute; reflexivity].
Qed.

(** Boundary evaluations on the model (kernel computations, instances -- not the general claim):
    a chain of 63 whole-value references renders, a chain of 65 hits the depth limit; direct,
    embedded, list, mapping-value and layer cycles are loop errors; a reference used three times
    and a diamond are fine. *)
Fixpoint chain (n : nat) : mapping :=
  match n with
  | 0 => [mk_entry (VStr "r0") (VNum (NInt 1)) false false]
  | S n' => mk_entry (VStr ("r" ++ nat_to_string n)) (VStr ("${r" ++ nat_to_string n' ++ "}")) false false :: chain n'
  end.

Definition is_err_kind (r : res (value * rstate)) (k : nat) : bool :=
  match r with
  | Err (ELoop _) => Nat.eqb k 1
  | Err (EDepth _ _) => Nat.eqb k 2
  | Ok _ => Nat.eqb k 0
  | _ => false
  end.

Example C08_boundaries :
  is_err_kind (interp 400 (chain 63) (VStr "${r63}") st0) 0 = true /\
  is_err_kind (interp 400 (chain 65) (VStr "${r65}") st0) 2 = true /\
  is_err_kind (interp 50 [mk_entry (VStr "a") (VStr "${a}") false false] (VStr "${a}") st0) 1 = true /\
  is_err_kind (interp 50 [mk_entry (VStr "a") (VStr "x${b}") false false; mk_entry (VStr "b") (VSeq [VStr "${a}"]) false false] (VStr "${a}") st0) 1 = true /\
  is_err_kind (interp 50 [mk_entry (VStr "a") (VMap [mk_entry (VStr "k") (VStr "${a:k}") false false]) false false] (VStr "${a}") st0) 1 = true /\
  is_err_kind (interp 50 [mk_entry (VStr "a") (VList [VNum (NInt 1); VStr "${a}"]) false false] (VStr "${a}") st0) 1 = true /\
  is_err_kind (interp 50 [mk_entry (VStr "b") (VNum (NInt 1)) false false;
                          mk_entry (VStr "l") (VStr "${b}") false false; mk_entry (VStr "r") (VStr "${b}") false false]
                      (VSeq [VStr "${b}"; VStr "${b} ${b}"; VMap [mk_entry (VStr "x") (VStr "${l}") false false; mk_entry (VStr "y") (VStr "${r}") false false]]) st0) 0 = true.
Proof. repeat split; vm_compute; reflexivity. Qed.

(** A reference whose path is computed (`${lists:${which}}`) and whose target mentions the selector again is
    acyclic: resolving the selector for the path is finished before the target is rendered (kernel evaluation). *)
Example C08_computed_path_target_mentions_selector :
  let root := [ mk_entry (VStr "which") (VStr "a") false false;
                mk_entry (VStr "lists") (VMap [mk_entry (VStr "a") (VSeq [VStr "${which}"; VStr "x"]) false false]) false false ] in
  exists s, interp 60 root (VList [VSeq [VStr "first"]; VStr "${lists:${which}}"; VSeq [VStr "last"]]) st0
            = Ok (VSeq [VLit "first"; VLit "a"; VLit "x"; VLit "last"], s).
Proof. cbn zeta. eexists. vm_compute. reflexivity. Qed.

(* C01  Classes merge depth-first, each once, node last.  Statements only; proofs in
   Proofs/NodeFacts.v about the include walk of Model/Node.v (render_impl / include_loop /
   node_render).  The walk is a direct recursion: for every include entry (rendered against the
   parameters merged so far, made absolute) not yet merged, the class is loaded, its own
   includes are walked first, then it is merged (post-order), and its name is recorded.  The
   merge order itself is compared on every run with an independent reading of the property
   through the trace parameter. *)
From RV Require Import Model.Node Spec.DeepMerge Proofs.WfFacts Proofs.NamesFacts Proofs.NodeFacts Proofs.WalkFold Proofs.NodeTotal
     Proofs.Refinement Proofs.NodeRefines Proofs.Twin Proofs.Unrender Proofs.Inline Proofs.TwinStack Proofs.WalkOwn.

(** Each class is merged the first time it is reached and never again: the record of merged
    classes never holds a name twice. *)
Theorem C01_each_class_merged_once :
  forall f fi cfg tbl self c' seen' root',
    render_impl f fi cfg tbl self [] [] empty_node = Ok (c', seen', root') -> NoDup seen'.
Proof. exact classes_merged_once. Qed.
Eval cbv in "ASSUMPTIONS-OF C01_each_class_merged_once"%string. Print Assumptions C01_each_class_merged_once.

(** The record only grows, by classes that are not being loaded at the moment (so a class is
    recorded after its own includes: post-order). *)
Theorem C01_walk_extends_record :
  forall fi cfg tbl f self seen loading root c' seen' root',
    render_impl f fi cfg tbl self seen loading root = Ok (c', seen', root') ->
    NoDup seen -> disjoint seen loading ->
    (exists new, seen' = seen ++ new) /\ NoDup seen' /\ disjoint seen' loading.
Proof. intros fi cfg tbl f. exact (render_impl_once fi cfg tbl f). Qed.
Eval cbv in "ASSUMPTIONS-OF C01_walk_extends_record"%string. Print Assumptions C01_walk_extends_record.

(** An already merged class is skipped: the entry contributes nothing. *)
Theorem C01_merged_class_skipped :
  forall fi cfg tbl recur self_loc loading c cs seen root name0,
    include_name fi (n_params root) c = Ok name0 ->
    mem (abs_class_name self_loc name0) seen = true ->
    include_loop fi cfg tbl recur self_loc loading (c :: cs) seen root =
    include_loop fi cfg tbl recur self_loc loading cs seen root.
Proof. intros * H1 H2. cbn [include_loop]. rewrite H1. cbn [bind]. now rewrite H2. Qed.
Eval cbv in "ASSUMPTIONS-OF C01_merged_class_skipped"%string. Print Assumptions C01_merged_class_skipped.

(** A class's own includes are walked before the class is merged, and the node's own
    definitions are merged last (unfolding of the definitions). *)
Theorem C01_postorder_and_node_last :
  (forall f fi cfg tbl self seen loading root,
     render_impl (S f) fi cfg tbl self seen loading root =
       ('(seen', root') <- include_loop fi cfg tbl (render_impl f fi cfg tbl) (n_loc self) loading (n_classes self) seen root ;;
        '(self', root'') <- merge_into self root' ;;
        Ok (self', seen', root''))) /\
  (forall f fi cfg tbl n meta,
     node_render f fi cfg tbl n meta =
       (rc <- as_reclass cfg meta ;;
        p0 <- m_insert [] (VStr "_reclass_") (VMap rc) ;;
        '(base1, seen1, _) <- render_impl f fi cfg tbl
            {| n_apps := r_empty; n_classes := n_classes n; n_params := p0; n_loc := [] |} [] [] empty_node ;;
        '(n1, _) <- merge_into n base1 ;;
        render_params fi n1)).
Proof. split; reflexivity. Qed.
Eval cbv in "ASSUMPTIONS-OF C01_postorder_and_node_last"%string. Print Assumptions C01_postorder_and_node_last.

(** The walk is a fold: what an entity's walk accumulates from nothing is exactly the empty
    accumulator merged (Node::merge_into) with the recorded classes -- each once, in the order of
    the record, which is post-order -- and then with the entity itself.  [is_class name cn]: reading
    the class [name] yields [cn]. *)
Theorem C01_walk_is_the_ordered_merge_of_the_recorded_classes :
  forall fi cfg tbl f self c' seen' root',
    render_impl f fi cfg tbl self [] [] empty_node = Ok (c', seen', root') ->
    NoDup seen' /\
    exists nodes, Forall2 (is_class cfg tbl) seen' nodes /\ merge_seq empty_node (nodes ++ [self]) = Ok root'.
Proof. exact walk_is_ordered_merge. Qed.
Eval cbv in "ASSUMPTIONS-OF C01_walk_is_the_ordered_merge_of_the_recorded_classes"%string. Print Assumptions C01_walk_is_the_ordered_merge_of_the_recorded_classes.

(** ... from any starting point: the accumulator is extended by the newly recorded classes only. *)
Theorem C01_walk_extends_the_accumulator_by_new_classes_only :
  forall fi cfg tbl f cn seen loading root c' seen1 root1,
    render_impl f fi cfg tbl cn seen loading root = Ok (c', seen1, root1) ->
    exists new nodes, seen1 = seen ++ new /\ Forall2 (is_class cfg tbl) new nodes /\
                      merge_seq root (nodes ++ [cn]) = Ok root1.
Proof. intros fi cfg tbl f. exact (render_impl_fold fi cfg tbl f). Qed.
Eval cbv in "ASSUMPTIONS-OF C01_walk_extends_the_accumulator_by_new_classes_only"%string. Print Assumptions C01_walk_extends_the_accumulator_by_new_classes_only.

(** An include entry that resolves to a class currently being loaded is an include loop: an
    error naming it. *)
Theorem C01_include_loop_is_an_error :
  forall fi cfg tbl recur self_loc loading c cs seen root name0,
    include_name fi (n_params root) c = Ok name0 ->
    mem (abs_class_name self_loc name0) seen = false ->
    mem (abs_class_name self_loc name0) loading = true ->
    include_loop fi cfg tbl recur self_loc loading (c :: cs) seen root =
      Err (EIncludeLoop loading (abs_class_name self_loc name0)).
Proof. exact include_loop_reported. Qed.
Eval cbv in "ASSUMPTIONS-OF C01_include_loop_is_an_error"%string. Print Assumptions C01_include_loop_is_an_error.

(** The walk returns for every include graph, cyclic ones included: fuel beyond the number of
    classes is never exhausted (as long as rendering the include names returns). *)
Theorem C01_walk_always_returns :
  forall fi cfg tbl,
    (forall params c, include_name fi params c <> OutOfFuel) ->
    Forall (fun ce => loc_ok (ce_loc ce)) tbl ->
    forall self seen root, loc_ok (n_loc self) ->
      render_impl (S (List.length tbl)) fi cfg tbl self seen [] root <> OutOfFuel.
Proof. exact include_walk_returns. Qed.
Eval cbv in "ASSUMPTIONS-OF C01_walk_always_returns"%string. Print Assumptions C01_walk_always_returns.

(** ... and unconditionally (no assumption on the rendering of include names): for every table
    of classes with clean keys and every include graph, cyclic ones included, Node::render yields
    one and the same value or error from some fuels on. *)
Theorem C01_node_render_always_returns :
  forall cfg tbl, clean_table tbl -> Forall (fun ce => loc_ok (ce_loc ce)) tbl ->
  forall n meta, wf (VMap (n_params n)) ->
    exists f0 fi0 r, (forall f fi, f0 <= f -> fi0 <= fi -> node_render f fi cfg tbl n meta = r) /\
                     ((exists v, r = Ok v) \/ (exists e, r = Err e)).
Proof. exact node_render_total. Qed.
Eval cbv in "ASSUMPTIONS-OF C01_node_render_always_returns"%string. Print Assumptions C01_node_render_always_returns.

(** With C02: the rendered parameters of a node are the render of a stack of YAML layers -- the
    parameter documents of the recorded classes in the order of the record (each once,
    post-order), the node's metadata, the node's own parameter document last -- and, when those
    documents are clean and reference-free, they are the deep merge (Spec/DeepMerge.v) of that
    stack, up to the constant/override flags. *)
Theorem C01_rendered_parameters_are_the_deep_merge_of_the_walk :
  forall fi cfg tbl f n ndoc loc meta rc r,
    node_of_yaml loc ndoc = Ok n -> as_reclass cfg meta = Ok rc ->
    node_render f fi cfg tbl n meta = Ok r ->
    exists seen docs ry,
      NoDup seen /\ Forall2 (class_params cfg tbl) seen docs /\ reclass_doc cfg meta = Some ry /\
      (Forall layer_ok (docs ++ [ry; params_doc ndoc]) ->
       forall g v, deep_merge (S g) (docs ++ [ry; params_doc ndoc]) = SOk v -> unflag (VMap (n_params r)) = v).
Proof. exact node_params_are_the_deep_merge. Qed.
Eval cbv in "ASSUMPTIONS-OF C01_rendered_parameters_are_the_deep_merge_of_the_walk"%string. Print Assumptions C01_rendered_parameters_are_the_deep_merge_of_the_walk.

(** ... and, with C04, when the documents DO contain references: the rendered parameters are the
    deep merge of that walk-ordered stack with every reference inlined ([ytw m]: reference strings
    replaced by the YAML of what they render to against the merged parameters [m]); the
    specification reports no conflict and no constant violation on it. *)
Theorem C01_rendered_parameters_are_the_deep_merge_of_the_inlined_walk :
  forall fi cfg tbl f n ndoc loc meta rc r,
    node_of_yaml loc ndoc = Ok n -> as_reclass cfg meta = Ok rc ->
    node_render f fi cfg tbl n meta = Ok r ->
    exists seen docs ry m,
      NoDup seen /\ Forall2 (class_params cfg tbl) seen docs /\ reclass_doc cfg meta = Some ry /\
      merge_layers_try (docs ++ [ry; params_doc ndoc]) = Ok m /\
      (Forall sclean_layer (docs ++ [ry; params_doc ndoc]) ->
       forall ys', Forall layer_ok ys' -> Forall2 (ytw m) (docs ++ [ry; params_doc ndoc]) ys' ->
       forall g, match deep_merge (S g) ys' with
                 | SOk v => unflag (VMap (n_params r)) = v
                 | SFuel => True
                 | SErr _ => False
                 end).
Proof. exact node_params_are_the_deep_merge_of_the_inlined_walk. Qed.
Eval cbv in "ASSUMPTIONS-OF C01_rendered_parameters_are_the_deep_merge_of_the_inlined_walk"%string. Print Assumptions C01_rendered_parameters_are_the_deep_merge_of_the_inlined_walk.

(** "... a reference-bearing include entry is resolved against the parameters merged from the classes
    that precede it": an entity's include list is walked before the entity itself is merged, so which
    classes the walk loads, in which order, and what has been accumulated when the entity's own turn
    comes do not depend on the entity's own parameters or applications (Proofs/WalkOwn.v). *)
Theorem C01_own_parameters_do_not_select_own_includes :
  forall f fi cfg tbl self self' seen loading root,
    n_loc self = n_loc self' -> n_classes self = n_classes self' ->
    forall s1 seen1 r1, render_impl f fi cfg tbl self seen loading root = Ok (s1, seen1, r1) ->
      exists root', merge_into self root' = Ok (s1, r1) /\
        forall s2 seen2 r2, render_impl f fi cfg tbl self' seen loading root = Ok (s2, seen2, r2) ->
          seen2 = seen1 /\ merge_into self' root' = Ok (s2, r2).
Proof. exact own_parameters_do_not_select_own_includes. Qed.
Eval cbv in "ASSUMPTIONS-OF C01_own_parameters_do_not_select_own_includes"%string. Print Assumptions C01_own_parameters_do_not_select_own_includes.

(** non-vacuity: class app selects its flavour class through ${flavor}; defining flavor itself does
    not change which class is loaded (the preceding class decides) *)
Example C01_own_parameters_nonvacuous :
  let cls name incs ps := {| ce_name := name; ce_loc := [];
        ce_doc := YMap [(YStr "classes", YSeq (map YStr incs)); (YStr "parameters", YMap ps)] |} in
  let tbl := [cls "defaults" [] [(YStr "flavor", YStr "small")]; cls "small" [] [(YStr "size", YNum (NInt 1))];
              cls "large" [] [(YStr "size", YNum (NInt 100))];
              cls "app" ["defaults"; "${flavor}"] [(YStr "flavor", YStr "large")]] in
  let cfg := {| c_ignore := false; c_matches := []; c_compose := false; c_literal_dots := false |} in
  exists n, node_of_yaml [] (YMap [(YStr "classes", YSeq [YStr "app"])]) = Ok n /\
  exists r, node_render 10 100 cfg tbl n {| m_name := "n"; m_uri := ""; m_parts := ["n"] |} = Ok r /\
    m_get (VStr "size") (n_params r) = Some (VNum (NInt 1)) /\ m_get (VStr "flavor") (n_params r) = Some (VLit "large").
Proof. cbn zeta. eexists. split; [reflexivity|]. eexists. split; [vm_compute; reflexivity|]. split; vm_compute; reflexivity. Qed.

(** Non-vacuity: a diamond with a reference-bearing include; the class list and the trace show
    post-order, once, node last. *)
Example C01_nonvacuous :
  let cls name incs := {| ce_name := name; ce_loc := [];
        ce_doc := YMap [(YStr "classes", YSeq (map YStr incs));
                        (YStr "parameters", YMap [(YStr "trace", YSeq [YStr name]); (YStr "sel", YStr "d")])] |} in
  let tbl := [cls "a" ["b"; "c"]; cls "b" ["${sel}"]; cls "c" ["d"]; cls "d" []] in
  let cfg := {| c_ignore := false; c_matches := []; c_compose := false; c_literal_dots := false |} in
  exists n, node_of_yaml [] (YMap [(YStr "classes", YSeq [YStr "d"; YStr "a"]); (YStr "parameters", YMap [(YStr "trace", YSeq [YStr "NODE"])])]) = Ok n /\
  exists r, node_render 10 100 cfg tbl n {| m_name := "n"; m_uri := ""; m_parts := ["n"] |} = Ok r /\
    m_get (VStr "trace") (n_params r) = Some (VSeq [VLit "d"; VLit "b"; VLit "c"; VLit "a"; VLit "NODE"]).
Proof. cbn zeta. eexists. split; [reflexivity|]. eexists. split; vm_compute; reflexivity. Qed.

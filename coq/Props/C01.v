(* C01 placeholder, replaced below *)
From RV Require Import Model.Mapping.
Theorem C01_placeholder : True. Proof. exact I. Qed.
Eval cbv in "ASSUMPTIONS-OF C01_placeholder"%string. Print Assumptions C01_placeholder.

(* C11  Any inventory content yields a value or an error, never a crash.  Statements only.
   Every todo!/unreachable!/unwrap/panic! site on a modelled path is an outcome [Panic site] of
   the model; the theorems show that none is reachable when the inventory is rendered:
   Proofs/NoPanic.v (interpreter), Proofs/YamlFacts.v (conversion of file contents),
   Proofs/NodeFacts.v (include walk and node rendering), Proofs/ParserFacts.v (parser); and that
   rendering a node always returns: Proofs/NodeTotal.v (with Proofs/Termination.v) shows that
   render_node yields one and the same value or error from some fuels on, for every include
   graph (cyclic ones included) and every reference graph -- fuel being the model's only bound on
   call depth, this is "never fails to return" for the modelled code.
   Domain of the rendering theorems ([clean_doc], [clean_table]): files whose string keys carry at
   most one marker ([sclean_yaml]); keys of other kinds -- lists and mappings included -- are
   unrestricted, and one key may be spelled several times through markers (k, ~k, =k in one
   mapping).  Double markers (~=k) are exercised by the crash-freedom runs of the check, where
   conversion and rendering return errors or values.
   PARTIAL (DESIGN section 7): byte-level YAML parsing, file-system faults and stack exhaustion
   live in libraries and the runtime; no Gallina model exhibits them; they are covered by the
   correspondence / crash-freedom runs only. *)
From RV Require Import Model.Node Proofs.MappingFacts Proofs.WfFacts Proofs.NoPanic Proofs.YamlFacts Proofs.SemiClean Proofs.NodeFacts Proofs.ParserFacts
     Proofs.NodeTotal.

(** Converting the content of an inventory file never panics (tagged values and a mapping that
    overwrites its own constant key are errors). *)
Theorem C11_file_conversion_never_panics :
  forall y s, try_value_of_yaml y <> Panic s /\ try_value_of_yaml y <> OutOfFuel.
Proof. exact try_value_no_panic. Qed.
Eval cbv in "ASSUMPTIONS-OF C11_file_conversion_never_panics"%string. Print Assumptions C11_file_conversion_never_panics.

Theorem C11_class_and_node_documents_never_panic :
  forall loc doc s, node_of_yaml loc doc <> Panic s.
Proof. exact node_of_yaml_no_panic. Qed.
Eval cbv in "ASSUMPTIONS-OF C11_class_and_node_documents_never_panic"%string. Print Assumptions C11_class_and_node_documents_never_panic.

(** Clean YAML converts to well-formed values (the hypothesis of the theorems below is met). *)
Theorem C11_clean_yaml_is_wellformed :
  forall y, clean_yaml y -> exists v, try_value_of_yaml y = Ok v /\ wf v.
Proof. exact try_value_wf. Qed.
Eval cbv in "ASSUMPTIONS-OF C11_clean_yaml_is_wellformed"%string. Print Assumptions C11_clean_yaml_is_wellformed.

(** More generally: string keys with at most one marker, keys of any other kind (lists and mappings
    included), the same key possibly spelled several times in one mapping (k, ~k, =k): whatever
    such a document converts to is well-formed. *)
Theorem C11_single_marker_yaml_is_wellformed :
  forall y v, sclean_yaml y -> try_value_of_yaml y = Ok v -> wf v.
Proof. exact try_value_wf_gen. Qed.
Eval cbv in "ASSUMPTIONS-OF C11_single_marker_yaml_is_wellformed"%string. Print Assumptions C11_single_marker_yaml_is_wellformed.

Example C11_key_spelled_twice :
  let y := YMap [(YStr "k", YMap [(YStr "a", YNum (NInt 1))]); (YStr "~k", YStr "${x}"); (YStr "x", YNull);
                 (YSeq [YNum (NInt 1)], YBool true)] in
  sclean_yaml y /\ ~ clean_yaml y /\ exists v, try_value_of_yaml y = Ok v.
Proof.
  cbn zeta. split; [|split].
    cbn [sclean_yaml]. unfold sclean_keys.
    repeat match goal with
           | |- _ /\ _ => split
           | |- True => exact I
           | |- Forall _ [] => constructor
           | |- Forall _ (_ :: _) => constructor
           | |- forall a, _ -> _ => cbn [fst]; intros a E; vm_compute in E; injection E as <-; reflexivity
           end.
  - cbn [clean_yaml]. intros [(ks & Hks & _) _]. cbn in Hks. discriminate.
  - eexists. vm_compute. reflexivity.
Qed.

(** The reference interpreter never reaches a panic site: not the two unreachable! arms of
    Value::merge, not the todo!/panic! arms of the JSON conversion, not the unreachable! arms of
    push_mapping_key and Token::resolve. *)
Theorem C11_interpolation_never_panics :
  forall f root v st s, wf (VMap root) -> wf v -> interp f root v st <> Panic s.
Proof. exact interp_no_panic. Qed.
Eval cbv in "ASSUMPTIONS-OF C11_interpolation_never_panics"%string. Print Assumptions C11_interpolation_never_panics.

Theorem C11_text_form_never_panics : forall v s, raw_string v <> Panic s.
Proof. exact raw_string_no_panic. Qed.
Eval cbv in "ASSUMPTIONS-OF C11_text_form_never_panics"%string. Print Assumptions C11_text_form_never_panics.

(** Rendering a node -- loading its classes recursively, merging, interpolating -- never panics. *)
Theorem C11_render_node_never_panics :
  forall f fi cfg root ntbl ctbl name s,
    clean_table ctbl -> Forall (fun ne => clean_doc (ne_doc ne)) ntbl ->
    render_node f fi cfg root ntbl ctbl name <> Panic s.
Proof. exact render_node_no_panic. Qed.
Eval cbv in "ASSUMPTIONS-OF C11_render_node_never_panics"%string. Print Assumptions C11_render_node_never_panics.

(** ... and it always returns: from some fuels on (include depth, interpreter) render_node
    yields one and the same outcome, and the outcome is a value or an error -- for every include
    graph, cyclic ones included, and whatever the include names and parameters refer to.
    ([loc_ok]: class locations are paths of non-empty segments without leading dots, which is
    what discovery produces.) *)
Theorem C11_render_node_always_returns :
  forall cfg root ntbl ctbl name,
    clean_table ctbl -> Forall (fun ce => loc_ok (ce_loc ce)) ctbl ->
    Forall (fun ne => clean_doc (ne_doc ne)) ntbl ->
    exists f0 fi0 r, (forall f fi, f0 <= f -> fi0 <= fi -> render_node f fi cfg root ntbl ctbl name = r) /\
                     ((exists v, r = Ok v) \/ (exists e, r = Err e)).
Proof. exact render_node_total. Qed.
Eval cbv in "ASSUMPTIONS-OF C11_render_node_always_returns"%string. Print Assumptions C11_render_node_always_returns.

(** The reference parser terminates on every string. *)
Theorem C11_parser_terminates : forall s, parse_ref s <> PFuel.
Proof. exact parse_ref_terminates. Qed.
Eval cbv in "ASSUMPTIONS-OF C11_parser_terminates"%string. Print Assumptions C11_parser_terminates.

(** Non-vacuity: a clean document with a marker key, a nested mapping and a reference. *)
Example C11_nonvacuous :
  clean_yaml (YMap [(YStr "=a", YMap [(YStr "b", YStr "${c}")]); (YStr "c", YSeq [YNum (NInt 1)])]).
Proof.
  assert (K : forall l ks, ykeys l = Some ks -> NoDup (map stripped ks) -> Forall (fun k => unmarked (stripped k)) ks -> clean_keys l)
    by (intros l ks H1 H2 H3; exists ks; tauto).
  cbn [clean_yaml]. repeat match goal with |- _ /\ _ => split end; try exact I.
  - eapply K; [reflexivity | cbn; repeat constructor; cbn; intuition discriminate | repeat constructor].
  - eapply K; [reflexivity | cbn; repeat constructor; cbn; tauto | repeat constructor].
Qed.

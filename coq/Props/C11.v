(* C11 placeholder, replaced below *)
From RV Require Import Model.Mapping.
Theorem C11_placeholder : True. Proof. exact I. Qed.
Eval cbv in "ASSUMPTIONS-OF C11_placeholder"%string. Print Assumptions C11_placeholder.

(* C06  Escaped markers are literal; marker-free strings are untouched.  Statements only; proofs
   in Proofs/ParserFacts.v about Model/Parser.v (transliteration of the nom grammar).
   General shape theorems (Proofs/ParserShape.v): every template of plain text and simple
   references, of any length, parses to exactly its pieces in order; an unclosed or empty
   reference after any template is a parse error; an escaped opening marker between plain
   texts is literal text.  The grammar itself is tied to the code by the exhaustive comparison of
   parse trees over {$ { } [ \ : a} (length <= 6 quick, <= 8 thorough) through the Token hook. *)
From RV Require Import Model.Parser Model.Interp Proofs.ParserFacts Proofs.ParserShape Proofs.ParserNested Proofs.ParserEscapes Proofs.ParserGen Proofs.ParserFull Proofs.ParserAny Proofs.WfFacts Proofs.TemplateAny.

(** A string containing no reference marker is not parsed and renders unchanged, as a literal. *)
Theorem C06_marker_free_string_untouched :
  forall s, has_marker s = false ->
    token_parse s = NoRef /\
    forall f root st, interp (S f) root (VStr s) st = Ok (VLit s, st).
Proof.
  intros s H. split; [now apply no_marker_no_parse|]. intros f root st. cbn [interp].
  now rewrite (no_marker_no_parse s H).
Qed.
Eval cbv in "ASSUMPTIONS-OF C06_marker_free_string_untouched"%string. Print Assumptions C06_marker_free_string_untouched.

(** The parser always terminates (it never exhausts the model's loop fuel; nesting deeper than
    128 is a parse error, not a crash). *)
Theorem C06_parser_terminates : forall s, parse_ref s <> PFuel /\ token_parse s <> ParseFuel.
Proof. intros s. split; [apply parse_ref_terminates | apply token_parse_terminates]. Qed.
Eval cbv in "ASSUMPTIONS-OF C06_parser_terminates"%string. Print Assumptions C06_parser_terminates.

(** A successful parse consumed the whole string: nothing is passed through or dropped. *)
Theorem C06_whole_string_consumed : forall s r t, parse_ref s = POk r t -> r = "".
Proof. exact parse_ref_all_consumed. Qed.
Eval cbv in "ASSUMPTIONS-OF C06_whole_string_consumed"%string. Print Assumptions C06_whole_string_consumed.

(** Every string whose unescaped ${ are closed by } around a non-empty path is accepted, with the
    pieces in order: for every template made of plain text (no backslash, dollar or brace) and
    simple references ${path} with a plain non-empty path -- any number of pieces, any lengths --
    the parse is exactly the list of pieces ([alternating]: two texts in a row are one text). *)
Theorem C06_templates_parse_to_their_pieces :
  forall g l c k, Forall seg_ok (g :: l) -> alternating (g :: l) -> In (SRef c k) (g :: l) ->
    token_parse (segs_str (g :: l)) = Parsed (match map seg_tok (g :: l) with [t] => t | ts => TComb ts end).
Proof. exact template_parse. Qed.
Eval cbv in "ASSUMPTIONS-OF C06_templates_parse_to_their_pieces"%string. Print Assumptions C06_templates_parse_to_their_pieces.

(** An unclosed reference (after any template, with any plain text after the marker) and an empty
    reference (whatever follows) are parse errors: not passed through, not mis-split. *)
Theorem C06_unclosed_reference_is_an_error :
  forall l k, Forall seg_ok l -> alternating l -> plain k ->
    token_parse (segs_str l ++ "${" ++ k) = ParseError.
Proof. exact unclosed_reference_is_error. Qed.
Eval cbv in "ASSUMPTIONS-OF C06_unclosed_reference_is_an_error"%string. Print Assumptions C06_unclosed_reference_is_an_error.

Theorem C06_empty_reference_is_an_error :
  forall l rest, Forall seg_ok l -> alternating l ->
    token_parse (segs_str l ++ "${}" ++ rest) = ParseError.
Proof. exact empty_reference_is_error. Qed.
Eval cbv in "ASSUMPTIONS-OF C06_empty_reference_is_an_error"%string. Print Assumptions C06_empty_reference_is_an_error.

(** An escaped opening marker between plain texts of any length is literal text: the whole string
    is one literal holding the marker without the backslash, never a reference. *)
Theorem C06_escaped_marker_is_literal :
  forall p1 p2, plain p1 -> plain p2 ->
    token_parse (p1 ++ bs ++ "${" ++ p2) = Parsed (TLit (p1 ++ "${" ++ p2)).
Proof. exact escaped_marker_is_literal. Qed.
Eval cbv in "ASSUMPTIONS-OF C06_escaped_marker_is_literal"%string. Print Assumptions C06_escaped_marker_is_literal.

(** "... any nesting of references": [cat tops] spells a list of plain texts and reference TREES --
    a reference holds plain texts and further references, to any depth within the documented limit
    of 128, any number of pieces at every level, no two texts in a row ([wft], [noadj]) -- and the
    parse of that string is exactly the list of trees. *)
Theorem C06_reference_trees_parse_back :
  forall d t tops rs,
    d <= MAX_REF_NESTING -> noadj (t :: tops) -> Forall (wft (S d)) (t :: tops) -> In (TRef rs) (t :: tops) ->
    token_parse (cat (t :: tops)) = Parsed (match tops with [] => t | _ => TComb (t :: tops) end).
Proof. exact token_trees_parse_back. Qed.
Eval cbv in "ASSUMPTIONS-OF C06_reference_trees_parse_back"%string. Print Assumptions C06_reference_trees_parse_back.

(** non-vacuity: x${a:${b${c}}d}-${e} *)
Example C06_nested_nonvacuous :
  let inner := TRef [TLit "b"; TRef [TLit "c"]] in
  let tops := [TLit "x"; TRef [TLit "a:"; inner; TLit "d"]; TLit "-"; TRef [TLit "e"]] in
  cat tops = "x${a:${b${c}}d}-${e}"%string /\ noadj tops /\ Forall (wft 3) tops /\
  token_parse "x${a:${b${c}}d}-${e}" = Parsed (TComb tops).
Proof.
  cbn zeta. split; [reflexivity|]. split; [apply noadjb_ok; reflexivity|]. split.
  - repeat (first [ apply Forall_cons | apply Forall_nil ]); cbn [wft];
      repeat (first [ split | apply noadjb_ok; reflexivity | discriminate | apply Forall_cons | apply Forall_nil | reflexivity ]).
  - vm_compute. reflexivity.
Qed.

(** The grammar with its escapes.  Inside a reference, a run of plain texts, \${ (the text ${), \$[
    ($[), \} (a closing brace), possibly ending in \\ (one backslash) is taken as ONE literal piece
    holding the decoded text ([lit_ok]: whatever follows it inside the reference, the closing brace
    or a nested reference); ... *)
Theorem C06_escaped_run_inside_a_reference_is_one_piece :
  forall a l, Forall ratom_ok (a :: l) -> rachain (a :: l) -> lit_ok (run_src (a :: l)) (run_val (a :: l)).
Proof. exact escaped_run_is_one_piece. Qed.
Eval cbv in "ASSUMPTIONS-OF C06_escaped_run_inside_a_reference_is_one_piece"%string. Print Assumptions C06_escaped_run_inside_a_reference_is_one_piece.

(** ... reference trees over such pieces parse back, to any depth within the limit; ... *)
Theorem C06_reference_trees_with_escapes_parse_back :
  forall d b ts rest, d <= b -> ts <> [] -> galt ts -> Forall (gwf d) ts ->
    reference (S b) ("${" ++ gcat ts ++ "}" ++ rest)%string = POk rest (TRef (map gtok ts)).
Proof. exact general_reference_parses_back. Qed.
Eval cbv in "ASSUMPTIONS-OF C06_reference_trees_with_escapes_parse_back"%string. Print Assumptions C06_reference_trees_with_escapes_parse_back.

(** ... and a whole string -- plain texts, \${, \$[, \\ before a reference, and such reference trees, in
    any number and order ([fchain]: no two plain texts in a row, \\ only before a reference) -- parses
    to the decoded pieces, adjacent texts joined by the parser's own coalescing.  An escaped marker
    never opens a reference: the only references of the result are the trees. *)
Theorem C06_strings_with_escapes_parse :
  forall d u us,
    d <= MAX_REF_NESTING -> Forall (funit_ok d) (u :: us) -> fchain (u :: us) ->
    has_marker (srcs (map fpair (u :: us))) = true ->
    token_parse (srcs (map fpair (u :: us))) =
      Parsed (match coalesce (ftok u, map ftok us) with [t] => t | ts => TComb ts end).
Proof. exact strings_with_escapes_parse. Qed.
Eval cbv in "ASSUMPTIONS-OF C06_strings_with_escapes_parse"%string. Print Assumptions C06_strings_with_escapes_parse.

(** Arbitrary text (Proofs/ParserAny.v).  Inside a reference a piece may also hold lone dollars,
    opening braces and backslashes, wherever they cannot be read together with what follows as a
    marker or an escape; the conditions are checked against the two ways a piece ends. *)
Theorem C06_any_text_inside_a_reference_is_one_piece :
  forall a l, xrun_ok (a :: l) "}" -> xrun_ok (a :: l) "${" -> lit_ok (xrun_src (a :: l)) (xrun_val (a :: l)).
Proof. exact any_text_inside_a_reference_is_one_piece. Qed.
Eval cbv in "ASSUMPTIONS-OF C06_any_text_inside_a_reference_is_one_piece"%string. Print Assumptions C06_any_text_inside_a_reference_is_one_piece.

(** At the top level a text is any characters at all -- lone dollars, backslashes and braces
    included, as in JSON-like templates -- none of whose positions begins ${, \${, \\${ or \$[,
    ending where one of these begins or at the end of the string.  Every string spelled by such
    texts, escaped markers and reference trees is accepted and parses to the decoded pieces. *)
Theorem C06_strings_of_arbitrary_text_parse :
  forall d u us,
    d <= MAX_REF_NESTING -> hunits_ok d (u :: us) -> has_marker (hstr (u :: us)) = true ->
    token_parse (hstr (u :: us)) =
      Parsed (match coalesce (htok u, map htok us) with [t] => t | ts => TComb ts end).
Proof. exact any_string_parses. Qed.
Eval cbv in "ASSUMPTIONS-OF C06_strings_of_arbitrary_text_parse"%string. Print Assumptions C06_strings_of_arbitrary_text_parse.

(** "an unclosed or empty reference is reported as an error rather than passed through or
    mis-split": after any string of this language an empty reference (whatever follows it) and a
    reference that is never closed make the whole string a parse error. *)
Theorem C06_empty_reference_after_any_string_is_error :
  forall d us rest,
    d <= MAX_REF_NESTING -> hunits_ok_t d us ("${}" ++ rest) ->
    token_parse (hstr us ++ "${}" ++ rest) = ParseError.
Proof. exact empty_reference_after_any_string_is_error. Qed.
Eval cbv in "ASSUMPTIONS-OF C06_empty_reference_after_any_string_is_error"%string. Print Assumptions C06_empty_reference_after_any_string_is_error.

Theorem C06_unclosed_reference_after_any_string_is_error :
  forall d us k,
    d <= MAX_REF_NESTING -> plain k -> hunits_ok_t d us ("${" ++ k) ->
    token_parse (hstr us ++ "${" ++ k) = ParseError.
Proof. exact unclosed_reference_after_any_string_is_error. Qed.
Eval cbv in "ASSUMPTIONS-OF C06_unclosed_reference_after_any_string_is_error"%string. Print Assumptions C06_unclosed_reference_after_any_string_is_error.

(** non-vacuity: a text with lone specials and a complete reference, then an empty / unclosed one *)
Example C06_errors_after_arbitrary_text_nonvacuous :
  let us := [HText "{" "$ } "; HRef [GLit "x" "x"]; HText " " "\ "] in
  hunits_ok_t 0 us ("${}" ++ "}") /\ hunits_ok_t 0 us ("${" ++ "abc") /\
  token_parse (hstr us ++ "${}" ++ "}") = ParseError /\ token_parse (hstr us ++ "${" ++ "abc") = ParseError.
Proof.
  cbn zeta.
  assert (Hx : gwf 1 (GRef [GLit "x" "x"])).
  { cbn [gwf]. split; [discriminate | split; [exact I | constructor; [exact (plain_text_is_one_piece "x" "" (conj eq_refl I)) | constructor]]]. }
  assert (H1 : hunits_ok_t 0 [HText "{" "$ } "; HRef [GLit "x" "x"]; HText " " "\ "] ("${}" ++ "}")).
  { cbn [hunits_ok_t hok]. split; [repeat split; reflexivity|]. split; [exact Hx|]. split; [repeat split; reflexivity | exact I]. }
  assert (H2 : hunits_ok_t 0 [HText "{" "$ } "; HRef [GLit "x" "x"]; HText " " "\ "] ("${" ++ "abc")).
  { cbn [hunits_ok_t hok]. split; [repeat split; reflexivity|]. split; [exact Hx|]. split; [repeat split; reflexivity | exact I]. }
  split; [exact H1|]. split; [exact H2|]. split.
  - apply (empty_reference_after_any_string_is_error 0); [unfold MAX_REF_NESTING; lia | exact H1].
  - apply (unclosed_reference_after_any_string_is_error 0); [unfold MAX_REF_NESTING; lia | repeat split | exact H2].
Qed.

(** "... renders as the literal text and is never interpreted as a reference": a string of this
    language all of whose markers are escaped (its pieces join into one text) renders to that text. *)
Theorem C06_escaped_string_renders_as_its_text :
  forall root d st u us s,
    d <= MAX_REF_NESTING -> hunits_ok d (u :: us) -> has_marker (hstr (u :: us)) = true ->
    coalesce (htok u, map htok us) = [TLit s] ->
    forall f', 3 <= f' -> interp f' root (VStr (hstr (u :: us))) st = Ok (VLit s, st).
Proof. exact escaped_string_renders_as_its_text. Qed.
Eval cbv in "ASSUMPTIONS-OF C06_escaped_string_renders_as_its_text"%string. Print Assumptions C06_escaped_string_renders_as_its_text.

Example C06_escaped_string_nonvacuous :
  let us := [HText "a" " $ "; HOpen; HText "x" "} "; HInv; HText "q" "] \"] in
  hstr us = ("a $ " ++ bs ++ "${x} " ++ bs ++ "$[q] \")%string /\ hunits_ok 0 us /\
  forall root st, interp 3 root (VStr (hstr us)) st = Ok (VLit "a $ ${x} $[q] \", st).
Proof.
  cbn zeta.
  assert (Hok : hunits_ok 0 [HText "a" " $ "; HOpen; HText "x" "} "; HInv; HText "q" "] \"]).
  { unfold hunits_ok. cbn [hunits_ok_t hok]. repeat split; reflexivity. }
  split; [reflexivity|]. split; [exact Hok|]. intros root st.
  apply (escaped_string_renders_as_its_text root 0 st _ _ _ ltac:(unfold MAX_REF_NESTING; lia) Hok eq_refl eq_refl). lia.
Qed.

(** non-vacuity: a JSON-like template with lone braces, dollars and backslashes at the top level and inside a reference path *)
Example C06_arbitrary_text_nonvacuous :
  hstr ex_units = ("{""a"": ${ab$c{" ++ bs ++ "d" ++ bs ++ "${" ++ bs ++ bs ++ "}, ""b"": ""$5 " ++ bs ++ " }{ " ++ bs ++ bs ++ "${x}}}")%string /\
  token_parse (hstr ex_units) =
    Parsed (TComb [TLit "{""a"": "; TRef [TLit ("ab$c{" ++ bs ++ "d${" ++ bs)]; TLit (", ""b"": ""$5 " ++ bs ++ " }{ " ++ bs); TRef [TLit "x"]; TLit "}}"]).
Proof. split; [reflexivity | exact ex_units_parse]. Qed.

(** non-vacuity:  a\${b${x\}y\\}\\${z}  *)
Example C06_escapes_nonvacuous :
  let run := [RPlain "x" ""; RClose; RPlain "y" ""; RBs] in
  let us := [FPlain "a" ""; FOpen; FPlain "b" ""; FRef [GLit (run_src run) (run_val run)]; FBs; FRef [GLit "z" "z"]] in
  srcs (map fpair us) = ("a" ++ bs ++ "${b${x" ++ bs ++ "}y" ++ bs ++ bs ++ "}" ++ bs ++ bs ++ "${z}")%string /\
  Forall (funit_ok 0) us /\ fchain us /\
  token_parse (srcs (map fpair us)) =
    Parsed (TComb [TLit "a${b"; TRef [TLit ("x}y" ++ bs)]; TLit bs; TRef [TLit "z"]]).
Proof.
  cbn zeta. split; [reflexivity|]. split.
  - repeat (first [apply Forall_cons | apply Forall_nil]); cbn [funit_ok gwf]; try exact I; try (cbn; tauto).
    + split; [discriminate|]. split; [exact I|]. constructor; [|constructor].
      apply (escaped_run_is_one_piece (RPlain "x" "") [RClose; RPlain "y" ""; RBs]); [|exact I].
      repeat (first [apply Forall_cons | apply Forall_nil]); cbn [ratom_ok]; try exact I; cbn; tauto.
    + split; [discriminate|]. split; [exact I|]. constructor; [|constructor].
      apply (plain_text_is_one_piece "z" ""). cbn. tauto.
  - split; [exact I|]. vm_compute. reflexivity.
Qed.

Example C06_template_nonvacuous :
  token_parse "pre-${a:b}-mid-${c}" =
    Parsed (TComb [TLit "pre-"; TRef [TLit "a:b"]; TLit "-mid-"; TRef [TLit "c"]]).
Proof. exact template_example. Qed.

(** The escape table of the property, evaluated in the kernel on the model parser:
    \${ and \$[ are literal markers, \} is a literal brace inside a reference, a doubled
    backslash before a marker is one literal backslash (and the reference stays live), an
    unclosed or empty reference is an error. *)
Example C06_escape_table :
  token_parse (bs ++ "${a}") = Parsed (TLit "${a}") /\
  token_parse (bs ++ "$[a]") = Parsed (TLit "$[a]") /\
  token_parse ("${a" ++ bs ++ "}b}") = Parsed (TRef [TLit "a}b"]) /\
  token_parse (bs ++ bs ++ "${a}") = Parsed (TComb [TLit bs; TRef [TLit "a"]]) /\
  token_parse ("x${a:${b}}y") = Parsed (TComb [TLit "x"; TRef [TLit "a:"; TRef [TLit "b"]]; TLit "y"]) /\
  token_parse "${a" = ParseError /\ token_parse "${}" = ParseError /\ token_parse "a${" = ParseError /\
  token_parse "$[a]" = Parsed (TLit "$[a]") /\ token_parse "a}b" = NoRef.
Proof. repeat split; vm_compute; reflexivity. Qed.

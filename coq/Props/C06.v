(* C06  Escaped markers are literal; marker-free strings are untouched.  Statements only; proofs
   in Proofs/ParserFacts.v about Model/Parser.v (transliteration of the nom grammar).
   The grammar itself is tied to the code by the exhaustive comparison of parse trees over
   {$ { } [ \ : a} (length <= 6 quick, <= 8 thorough) through the Token hook. *)
From RV Require Import Model.Parser Model.Interp Proofs.ParserFacts.

(** A string containing no reference marker is not parsed and renders unchanged, as a literal. *)
Theorem C06_marker_free_string_untouched :
  forall s, has_marker s = false ->
    token_parse s = NoRef /\
    forall f root st, interp (S f) root (VStr s) st = Ok (VLit s, st).
Proof.
  intros s H. split; [now apply no_marker_no_parse|]. intros f root st. cbn [interp].
  now rewrite (no_marker_no_parse s H).
Qed.
Eval cbv in "ASSUMPTIONS-OF C06_marker_free_string_untouched"%string. Print Assumptions C06_marker_free_string_untouched.

(** The parser always terminates (it never exhausts the model's loop fuel; nesting deeper than
    128 is a parse error, not a crash). *)
Theorem C06_parser_terminates : forall s, parse_ref s <> PFuel /\ token_parse s <> ParseFuel.
Proof. intros s. split; [apply parse_ref_terminates | apply token_parse_terminates]. Qed.
Eval cbv in "ASSUMPTIONS-OF C06_parser_terminates"%string. Print Assumptions C06_parser_terminates.

(** A successful parse consumed the whole string: nothing is passed through or dropped. *)
Theorem C06_whole_string_consumed : forall s r t, parse_ref s = POk r t -> r = "".
Proof. exact parse_ref_all_consumed. Qed.
Eval cbv in "ASSUMPTIONS-OF C06_whole_string_consumed"%string. Print Assumptions C06_whole_string_consumed.

(** The escape table of the property, evaluated in the kernel on the model parser:
    \${ and \$[ are literal markers, \} is a literal brace inside a reference, a doubled
    backslash before a marker is one literal backslash (and the reference stays live), an
    unclosed or empty reference is an error. *)
Example C06_escape_table :
  token_parse (bs ++ "${a}") = Parsed (TLit "${a}") /\
  token_parse (bs ++ "$[a]") = Parsed (TLit "$[a]") /\
  token_parse ("${a" ++ bs ++ "}b}") = Parsed (TRef [TLit "a}b"]) /\
  token_parse (bs ++ bs ++ "${a}") = Parsed (TComb [TLit bs; TRef [TLit "a"]]) /\
  token_parse ("x${a:${b}}y") = Parsed (TComb [TLit "x"; TRef [TLit "a:"; TRef [TLit "b"]]; TLit "y"]) /\
  token_parse "${a" = ParseError /\ token_parse "${}" = ParseError /\ token_parse "a${" = ParseError /\
  token_parse "$[a]" = Parsed (TLit "$[a]") /\ token_parse "a}b" = NoRef.
Proof. repeat split; vm_compute; reflexivity. Qed.

(* C06 placeholder, replaced below *)
From RV Require Import Model.Mapping.
Theorem C06_placeholder : True. Proof. exact I. Qed.
Eval cbv in "ASSUMPTIONS-OF C06_placeholder"%string. Print Assumptions C06_placeholder.

(* C06  Escaped markers are literal; marker-free strings are untouched.  Statements only; proofs
   in Proofs/ParserFacts.v about Model/Parser.v (transliteration of the nom grammar).
   General shape theorems (Proofs/ParserShape.v): every template of plain text and simple
   references, of any length, parses to exactly its pieces in order; an unclosed or empty
   reference after any template is a parse error; an escaped opening marker between plain
   texts is literal text.  The grammar itself is tied to the code by the exhaustive comparison of
   parse trees over {$ { } [ \ : a} (length <= 6 quick, <= 8 thorough) through the Token hook. *)
From RV Require Import Model.Parser Model.Interp Proofs.ParserFacts Proofs.ParserShape.

(** A string containing no reference marker is not parsed and renders unchanged, as a literal. *)
Theorem C06_marker_free_string_untouched :
  forall s, has_marker s = false ->
    token_parse s = NoRef /\
    forall f root st, interp (S f) root (VStr s) st = Ok (VLit s, st).
Proof.
  intros s H. split; [now apply no_marker_no_parse|]. intros f root st. cbn [interp].
  now rewrite (no_marker_no_parse s H).
Qed.
Eval cbv in "ASSUMPTIONS-OF C06_marker_free_string_untouched"%string. Print Assumptions C06_marker_free_string_untouched.

(** The parser always terminates (it never exhausts the model's loop fuel; nesting deeper than
    128 is a parse error, not a crash). *)
Theorem C06_parser_terminates : forall s, parse_ref s <> PFuel /\ token_parse s <> ParseFuel.
Proof. intros s. split; [apply parse_ref_terminates | apply token_parse_terminates]. Qed.
Eval cbv in "ASSUMPTIONS-OF C06_parser_terminates"%string. Print Assumptions C06_parser_terminates.

(** A successful parse consumed the whole string: nothing is passed through or dropped. *)
Theorem C06_whole_string_consumed : forall s r t, parse_ref s = POk r t -> r = "".
Proof. exact parse_ref_all_consumed. Qed.
Eval cbv in "ASSUMPTIONS-OF C06_whole_string_consumed"%string. Print Assumptions C06_whole_string_consumed.

(** Every string whose unescaped ${ are closed by } around a non-empty path is accepted, with the
    pieces in order: for every template made of plain text (no backslash, dollar or brace) and
    simple references ${path} with a plain non-empty path -- any number of pieces, any lengths --
    the parse is exactly the list of pieces ([alternating]: two texts in a row are one text). *)
Theorem C06_templates_parse_to_their_pieces :
  forall g l c k, Forall seg_ok (g :: l) -> alternating (g :: l) -> In (SRef c k) (g :: l) ->
    token_parse (segs_str (g :: l)) = Parsed (match map seg_tok (g :: l) with [t] => t | ts => TComb ts end).
Proof. exact template_parse. Qed.
Eval cbv in "ASSUMPTIONS-OF C06_templates_parse_to_their_pieces"%string. Print Assumptions C06_templates_parse_to_their_pieces.

(** An unclosed reference (after any template, with any plain text after the marker) and an empty
    reference (whatever follows) are parse errors: not passed through, not mis-split. *)
Theorem C06_unclosed_reference_is_an_error :
  forall l k, Forall seg_ok l -> alternating l -> plain k ->
    token_parse (segs_str l ++ "${" ++ k) = ParseError.
Proof. exact unclosed_reference_is_error. Qed.
Eval cbv in "ASSUMPTIONS-OF C06_unclosed_reference_is_an_error"%string. Print Assumptions C06_unclosed_reference_is_an_error.

Theorem C06_empty_reference_is_an_error :
  forall l rest, Forall seg_ok l -> alternating l ->
    token_parse (segs_str l ++ "${}" ++ rest) = ParseError.
Proof. exact empty_reference_is_error. Qed.
Eval cbv in "ASSUMPTIONS-OF C06_empty_reference_is_an_error"%string. Print Assumptions C06_empty_reference_is_an_error.

(** An escaped opening marker between plain texts of any length is literal text: the whole string
    is one literal holding the marker without the backslash, never a reference. *)
Theorem C06_escaped_marker_is_literal :
  forall p1 p2, plain p1 -> plain p2 ->
    token_parse (p1 ++ bs ++ "${" ++ p2) = Parsed (TLit (p1 ++ "${" ++ p2)).
Proof. exact escaped_marker_is_literal. Qed.
Eval cbv in "ASSUMPTIONS-OF C06_escaped_marker_is_literal"%string. Print Assumptions C06_escaped_marker_is_literal.

Example C06_template_nonvacuous :
  token_parse "pre-${a:b}-mid-${c}" =
    Parsed (TComb [TLit "pre-"; TRef [TLit "a:b"]; TLit "-mid-"; TRef [TLit "c"]]).
Proof. exact template_example. Qed.

(** The escape table of the property, evaluated in the kernel on the model parser:
    \${ and \$[ are literal markers, \} is a literal brace inside a reference, a doubled
    backslash before a marker is one literal backslash (and the reference stays live), an
    unclosed or empty reference is an error. *)
Example C06_escape_table :
  token_parse (bs ++ "${a}") = Parsed (TLit "${a}") /\
  token_parse (bs ++ "$[a]") = Parsed (TLit "$[a]") /\
  token_parse ("${a" ++ bs ++ "}b}") = Parsed (TRef [TLit "a}b"]) /\
  token_parse (bs ++ bs ++ "${a}") = Parsed (TComb [TLit bs; TRef [TLit "a"]]) /\
  token_parse ("x${a:${b}}y") = Parsed (TComb [TLit "x"; TRef [TLit "a:"; TRef [TLit "b"]]; TLit "y"]) /\
  token_parse "${a" = ParseError /\ token_parse "${}" = ParseError /\ token_parse "a${" = ParseError /\
  token_parse "$[a]" = Parsed (TLit "$[a]") /\ token_parse "a}b" = NoRef.
Proof. repeat split; vm_compute; reflexivity. Qed.

(* C04 placeholder, replaced below *)
From RV Require Import Model.Mapping.
Theorem C04_placeholder : True. Proof. exact I. Qed.
Eval cbv in "ASSUMPTIONS-OF C04_placeholder"%string. Print Assumptions C04_placeholder.

(* C04  A reference used as a layer merges like the inline value.  Statements only; proofs in
   Proofs/RefFacts.v (with StateFacts.v, StateIndep.v, InterpFacts.v) about the ValueList arm of
   Model/Interp.v. *)
From RV Require Import Model.Interp Proofs.WfFacts Proofs.InterpFacts Proofs.RefFacts Proofs.Twin Proofs.Unrender Proofs.Inline.

(** In a multiply-defined parameter (at any nesting depth: the statement is about an arbitrary
    ValueList node), a layer x that renders to v merges exactly as if v had been written inline
    at that position -- with the layers before and after it, whatever they are. *)
Theorem C04_reference_layer_is_transparent :
  forall f root st pre x post v s1 v2 s2,
    wf (VMap root) -> wf x ->
    interp f root x st = Ok (v, s1) ->
    interp f root v st = Ok (v2, s2) ->
    interp (S f) root (VList (pre ++ x :: post)) st = interp (S f) root (VList (pre ++ v :: post)) st.
Proof. exact layer_reference_transparent. Qed.
Eval cbv in "ASSUMPTIONS-OF C04_reference_layer_is_transparent"%string. Print Assumptions C04_reference_layer_is_transparent.

(** What a layer renders to is closed data that renders to itself: the inline twin is
    well-defined. *)
Theorem C04_inline_twin_renders_to_itself :
  forall root f v st r st', closed v -> wf v -> interp f root v st = Ok (r, st') -> r = v /\ st' = st.
Proof. exact interp_closed_ok_id. Qed.
Eval cbv in "ASSUMPTIONS-OF C04_inline_twin_renders_to_itself"%string. Print Assumptions C04_inline_twin_renders_to_itself.

(** The loop over the layers only uses the value each layer renders to. *)
Theorem C04_layer_loop_uses_values_only :
  forall call st pre x post v s1 s2,
    call x st = Ok (v, s1) -> call v st = Ok (v, s2) -> current_key s1 = current_key s2 ->
    forall r, vlist_loop call st (pre ++ x :: post) r = vlist_loop call st (pre ++ v :: post) r.
Proof. exact vlist_loop_transparent. Qed.
Eval cbv in "ASSUMPTIONS-OF C04_layer_loop_uses_values_only"%string. Print Assumptions C04_layer_loop_uses_values_only.

(** End to end, "exactly as if the rendered referenced value had been written inline at that
    position ... at any nesting depth": [twe root] relates two parameter mappings entry by entry --
    same keys and flags, values equal except that, anywhere inside (as a layer of a multiply-defined
    parameter, inside a member of a layer, in a list, as a whole value; any number of places), a
    reference string of the first is replaced in the second by a closed value [w] which that
    reference renders to against the first ([denotes]; by [C04_a_reference_denotes_what_it_renders_to]
    one successful render of the reference anywhere is enough).  Then the inline twin renders,
    with the same fuel, to the very same parameters.  (The converse direction cannot hold in
    general: the twin resolves fewer references, so it may stay within the depth limit where
    the original does not.)  Proof: a simulation of the eight mutually recursive functions of the
    interpreter, call by call, Proofs/Twin.v. *)
Theorem C04_the_inline_twin_renders_to_the_same_parameters :
  forall root root', wf (VMap root) -> wf (VMap root') -> Forall2 (twe root) root root' ->
    forall f r, render_with_self f (VMap root) = Ok r -> render_with_self f (VMap root') = Ok r.
Proof. exact twin_renders_the_same. Qed.
Eval cbv in "ASSUMPTIONS-OF C04_the_inline_twin_renders_to_the_same_parameters"%string. Print Assumptions C04_the_inline_twin_renders_to_the_same_parameters.

(** ... and every value (a class name entry, a further parameter) renders against the twin to what
    it renders to against the original, at every state. *)
Theorem C04_values_render_alike_against_the_inline_twin :
  forall root root', wf (VMap root) -> wf (VMap root') -> Forall2 (twe root) root root' ->
    forall f v v' st r st1, tw root v v' -> wf v -> wf v' ->
      interp f root v st = Ok (r, st1) -> exists st1', interp f root' v' st = Ok (r, st1').
Proof. exact twin_value_renders_the_same. Qed.
Eval cbv in "ASSUMPTIONS-OF C04_values_render_alike_against_the_inline_twin"%string. Print Assumptions C04_values_render_alike_against_the_inline_twin.

Theorem C04_a_reference_denotes_what_it_renders_to :
  forall root, wf (VMap root) -> forall s f st w st1,
    interp f root (VStr s) st = Ok (w, st1) -> denotes root (VStr s) w.
Proof. exact denotes_of_render. Qed.
Eval cbv in "ASSUMPTIONS-OF C04_a_reference_denotes_what_it_renders_to"%string. Print Assumptions C04_a_reference_denotes_what_it_renders_to.

(** Non-vacuity of the twin theorem: parameter t has three layers; the middle one holds, one level
    down, a reference to h (itself a reference to g); the twin holds g's value there.  The
    premises hold and the original renders. *)
Example C04_twin_premises_hold :
  let g := mk_entry (VStr "g") (VMap [mk_entry (VStr "a") (VSeq [VNum (NInt 2)]) false false]) false false in
  let h := mk_entry (VStr "h") (VStr "${g}") false false in
  let look := mk_entry (VStr "look") (VStr "${t:n:a}") false false in
  let t x := mk_entry (VStr "t")
               (VList [VMap [mk_entry (VStr "n") (VMap [mk_entry (VStr "a") (VSeq [VNum (NInt 1)]) false false]) false false];
                       VMap [mk_entry (VStr "n") x false false];
                       VMap [mk_entry (VStr "n") (VMap [mk_entry (VStr "a") (VSeq [VNum (NInt 3)]) false false]) false false]])
               false false in
  let root := [g; h; t (VStr "${h}"); look] in
  let root' := [g; h; t (VMap [mk_entry (VStr "a") (VSeq [VNum (NInt 2)]) false false]); look] in
  wf (VMap root) /\ wf (VMap root') /\ Forall2 (twe root) root root' /\
  exists m, render_with_self 60 (VMap root) = Ok (VMap m) /\
            m_get (VStr "look") m = Some (VSeq [VNum (NInt 1); VNum (NInt 2); VNum (NInt 3)]).
Proof.
  cbn zeta.
  assert (W : wf (VMap [mk_entry (VStr "g") (VMap [mk_entry (VStr "a") (VSeq [VNum (NInt 2)]) false false]) false false;
                        mk_entry (VStr "h") (VStr "${g}") false false;
                        mk_entry (VStr "t")
                          (VList [VMap [mk_entry (VStr "n") (VMap [mk_entry (VStr "a") (VSeq [VNum (NInt 1)]) false false]) false false];
                                  VMap [mk_entry (VStr "n") (VStr "${h}") false false];
                                  VMap [mk_entry (VStr "n") (VMap [mk_entry (VStr "a") (VSeq [VNum (NInt 3)]) false false]) false false]])
                          false false;
                        mk_entry (VStr "look") (VStr "${t:n:a}") false false])).
  { cbn. repeat split; repeat constructor; cbn; intuition discriminate. }
  split; [exact W|]. split; [cbn; repeat split; repeat constructor; cbn; intuition discriminate|]. split.
  - constructor; [apply twe_refl|]. constructor; [apply twe_refl|]. constructor; [|constructor; [apply twe_refl | constructor]].
    unfold twe. cbn [mk_entry e_key e_val e_const e_over fst snd]. repeat split.
    apply tw_list_iff. eexists. split; [reflexivity|]. constructor; [apply tw_refl|]. constructor; [|constructor; [apply tw_refl | constructor]].
    apply tw_map_iff. eexists. split; [reflexivity|]. constructor; [|constructor].
    unfold twe. cbn [mk_entry e_key e_val e_const e_over fst snd]. repeat split.
    right. eapply (denotes_of_render _ W "${h}" 40 st0). vm_compute. reflexivity.
  - eexists. split; vm_compute; reflexivity.
Qed.

(** "... as if the rendered referenced value had been written inline", literally: a document holds
    strings as unparsed strings, a rendered value holds them as literals.  [lw a b]: [b] is [a]
    with literal strings that carry no reference marker written as plain strings; [inle root]
    composes the two relations entry by entry: reference strings replaced by what they render
    to, written the way a document writes it.  The parameters so inlined render (with one more unit
    of the model's fuel) to the very same result. *)
Theorem C04_references_may_be_written_out_as_in_a_document :
  forall root root'', wf (VMap root) -> wf (VMap root'') -> inle root root root'' ->
    forall f r, render_with_self f (VMap root) = Ok r -> render_with_self (S f) (VMap root'') = Ok r.
Proof. exact inlined_parameters_render_the_same. Qed.
Eval cbv in "ASSUMPTIONS-OF C04_references_may_be_written_out_as_in_a_document"%string. Print Assumptions C04_references_may_be_written_out_as_in_a_document.

(** literals and plain strings are interchangeable anywhere in the parameters *)
Theorem C04_plain_strings_and_literals_are_interchangeable :
  forall rootA rootB, wf (VMap rootA) -> wf (VMap rootB) -> Forall2 lwe rootA rootB ->
    forall f r, render_with_self f (VMap rootA) = Ok r -> render_with_self (S f) (VMap rootB) = Ok r.
Proof. exact unrendered_parameters_render_the_same. Qed.
Eval cbv in "ASSUMPTIONS-OF C04_plain_strings_and_literals_are_interchangeable"%string. Print Assumptions C04_plain_strings_and_literals_are_interchangeable.

(** Non-vacuity: the referenced value holds strings; the twin writes them as a document would *)
Example C04_written_out_premises_hold :
  let g x := mk_entry (VStr "g") (VMap [mk_entry (VStr "a") (VSeq [x]) false false]) false false in
  let t x := mk_entry (VStr "t") (VList [VMap [mk_entry (VStr "n") (VMap [mk_entry (VStr "a") (VSeq [VStr "one"]) false false]) false false];
                                         VMap [mk_entry (VStr "n") x false false]]) false false in
  let root := [g (VStr "two"); t (VStr "${g}")] in
  let root'' := [g (VStr "two"); t (VMap [mk_entry (VStr "a") (VSeq [VStr "two"]) false false])] in
  wf (VMap root) /\ wf (VMap root'') /\ inle root root root'' /\
  exists r, render_with_self 60 (VMap root) = Ok r /\ render_with_self 61 (VMap root'') = Ok r.
Proof.
  cbn zeta.
  assert (W : wf (VMap [mk_entry (VStr "g") (VMap [mk_entry (VStr "a") (VSeq [VStr "two"]) false false]) false false;
                        mk_entry (VStr "t") (VList [VMap [mk_entry (VStr "n") (VMap [mk_entry (VStr "a") (VSeq [VStr "one"]) false false]) false false];
                                                    VMap [mk_entry (VStr "n") (VStr "${g}") false false]]) false false])).
  { cbn. repeat split; repeat constructor; cbn; intuition discriminate. }
  split; [exact W|]. split; [cbn; repeat split; repeat constructor; cbn; intuition discriminate|]. split.
  - exists [mk_entry (VStr "g") (VMap [mk_entry (VStr "a") (VSeq [VStr "two"]) false false]) false false;
            mk_entry (VStr "t") (VList [VMap [mk_entry (VStr "n") (VMap [mk_entry (VStr "a") (VSeq [VStr "one"]) false false]) false false];
                                        VMap [mk_entry (VStr "n") (VMap [mk_entry (VStr "a") (VSeq [VLit "two"]) false false]) false false]]) false false].
    split.
    + constructor; [apply twe_refl|]. constructor; [|constructor].
      unfold twe. cbn [mk_entry e_key e_val e_const e_over fst snd]. repeat split.
      apply tw_list_iff. eexists. split; [reflexivity|]. constructor; [apply tw_refl|]. constructor; [|constructor].
      apply tw_map_iff. eexists. split; [reflexivity|]. constructor; [|constructor].
      unfold twe. cbn [mk_entry e_key e_val e_const e_over fst snd]. repeat split.
      right. eapply (denotes_of_render _ W "${g}" 40 st0). vm_compute. reflexivity.
    + constructor; [apply lwe_refl|]. constructor; [|constructor].
      unfold lwe. cbn [mk_entry e_key e_val e_const e_over fst snd]. repeat split.
      apply lw_list_iff. eexists. split; [reflexivity|]. constructor; [apply lw_refl|]. constructor; [|constructor].
      apply lw_map_iff. eexists. split; [reflexivity|]. constructor; [|constructor].
      unfold lwe. cbn [mk_entry e_key e_val e_const e_over fst snd]. repeat split.
      apply lw_map_iff. eexists. split; [reflexivity|]. constructor; [|constructor].
      unfold lwe. cbn [mk_entry e_key e_val e_const e_over fst snd]. repeat split.
      apply lw_seq_iff. eexists. split; [reflexivity|]. constructor; [|constructor]. right. split; reflexivity.
  - eexists. split; vm_compute; reflexivity.
Qed.

Example C04_nonvacuous :
  let h := mk_entry (VStr "h") (VMap [mk_entry (VStr "a") (VSeq [VNum (NInt 2)]) false false]) false false in
  let base := VMap [mk_entry (VStr "a") (VSeq [VNum (NInt 1)]) false false] in
  let inline := VMap [mk_entry (VStr "a") (VSeq [VNum (NInt 2)]) false false] in
  interp 40 [h] (VList [base; VStr "${h}"; base]) st0 = interp 40 [h] (VList [base; inline; base]) st0 /\
  exists r s, interp 40 [h] (VList [base; VStr "${h}"; base]) st0 = Ok (r, s).
Proof. cbn zeta. split; [vm_compute; reflexivity | eexists; eexists; vm_compute; reflexivity]. Qed.

(** A referenced mapping may refer to one of its own members by its full path: looking the member up
    while the mapping itself is being resolved is no loop, and the layer merges like the inline value. *)
Example C04_self_referring_target_nonvacuous :
  let src := mk_entry (VStr "src") (VMap [mk_entry (VStr "items") (VSeq [VStr "b"]) false false;
                                           mk_entry (VStr "extra") (VStr "${src:items}") false false]) false false in
  let l1 := VMap [mk_entry (VStr "extra") (VSeq [VStr "a"]) false false] in
  let l3 := VMap [mk_entry (VStr "extra") (VSeq [VStr "c"]) false false] in
  exists s, interp 60 [src] (VList [l1; VStr "${src}"; l3]) st0 =
            Ok (VMap [mk_entry (VStr "extra") (VSeq [VLit "a"; VLit "b"; VLit "c"]) false false;
                      mk_entry (VStr "items") (VSeq [VLit "b"]) false false], s).
Proof. cbn zeta. eexists. vm_compute. reflexivity. Qed.

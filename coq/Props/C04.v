(* C04  A reference used as a layer merges like the inline value.  Statements only; proofs in
   Proofs/RefFacts.v (with StateFacts.v, StateIndep.v, InterpFacts.v) about the ValueList arm of
   Model/Interp.v. *)
From RV Require Import Model.Interp Proofs.WfFacts Proofs.InterpFacts Proofs.RefFacts.

(** In a multiply-defined parameter (at any nesting depth: the statement is about an arbitrary
    ValueList node), a layer x that renders to v merges exactly as if v had been written inline
    at that position -- with the layers before and after it, whatever they are. *)
Theorem C04_reference_layer_is_transparent :
  forall f root st pre x post v s1 v2 s2,
    wf (VMap root) -> wf x ->
    interp f root x st = Ok (v, s1) ->
    interp f root v st = Ok (v2, s2) ->
    interp (S f) root (VList (pre ++ x :: post)) st = interp (S f) root (VList (pre ++ v :: post)) st.
Proof. exact layer_reference_transparent. Qed.
Eval cbv in "ASSUMPTIONS-OF C04_reference_layer_is_transparent"%string. Print Assumptions C04_reference_layer_is_transparent.

(** What a layer renders to is closed data that renders to itself: the inline twin is
    well-defined. *)
Theorem C04_inline_twin_renders_to_itself :
  forall root f v st r st', closed v -> wf v -> interp f root v st = Ok (r, st') -> r = v /\ st' = st.
Proof. exact interp_closed_ok_id. Qed.
Eval cbv in "ASSUMPTIONS-OF C04_inline_twin_renders_to_itself"%string. Print Assumptions C04_inline_twin_renders_to_itself.

(** The loop over the layers only uses the value each layer renders to. *)
Theorem C04_layer_loop_uses_values_only :
  forall call st pre x post v s1 s2,
    call x st = Ok (v, s1) -> call v st = Ok (v, s2) -> current_key s1 = current_key s2 ->
    forall r, vlist_loop call st (pre ++ x :: post) r = vlist_loop call st (pre ++ v :: post) r.
Proof. exact vlist_loop_transparent. Qed.
Eval cbv in "ASSUMPTIONS-OF C04_layer_loop_uses_values_only"%string. Print Assumptions C04_layer_loop_uses_values_only.

Example C04_nonvacuous :
  let h := mk_entry (VStr "h") (VMap [mk_entry (VStr "a") (VSeq [VNum (NInt 2)]) false false]) false false in
  let base := VMap [mk_entry (VStr "a") (VSeq [VNum (NInt 1)]) false false] in
  let inline := VMap [mk_entry (VStr "a") (VSeq [VNum (NInt 2)]) false false] in
  interp 40 [h] (VList [base; VStr "${h}"; base]) st0 = interp 40 [h] (VList [base; inline; base]) st0 /\
  exists r s, interp 40 [h] (VList [base; VStr "${h}"; base]) st0 = Ok (r, s).
Proof. cbn zeta. split; [vm_compute; reflexivity | eexists; eexists; vm_compute; reflexivity]. Qed.

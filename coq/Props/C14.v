(* C14  Files map to class and node names one-to-one, collisions rejected.  Statements only;
   proofs in Proofs/NamesFacts.v about Model/Names.v (entity_of, discover).
   PARTIAL: the directory walk (walkdir, symlinks, std::path) that produces the entry list is
   outside the model; the naming rule is proved in general (Proofs/NamesRule.v) and
   compared with a Python reading on every run. *)
From RV Require Import Model.Names Proofs.NamesFacts Proofs.NamesRule.

(** Discovery succeeds exactly when all names are distinct ... *)
Theorem C14_succeeds_iff_names_distinct :
  forall kind compose entries,
    (exists m, discover kind compose entries = Ok m) <-> NoDup (map en_name (entities kind compose entries)).
Proof. exact discover_succeeds_iff_distinct. Qed.
Eval cbv in "ASSUMPTIONS-OF C14_succeeds_iff_names_distinct"%string. Print Assumptions C14_succeeds_iff_names_distinct.

(** ... and then the table holds exactly one entity per YAML file, in walk order. *)
Theorem C14_one_entity_per_file :
  forall kind compose entries m,
    discover kind compose entries = Ok m ->
    m = entities kind compose entries /\ NoDup (map en_name m).
Proof. exact discover_exact. Qed.
Eval cbv in "ASSUMPTIONS-OF C14_one_entity_per_file"%string. Print Assumptions C14_one_entity_per_file.

(** A collision is rejected with an error naming the name and both files. *)
Theorem C14_collision_names_both_files :
  forall kind compose entries er,
    discover kind compose entries = Err er ->
    exists n p q e1 e2,
      er = EDuplicate (kind_name kind) n p q /\
      In e1 (entities kind compose entries) /\ In e2 (entities kind compose entries) /\
      en_name e1 = n /\ en_name e2 = n /\
      ((p = join "/" (en_path e1) /\ q = join "/" (en_path e2)) \/ (p = join "/" (en_path e2) /\ q = join "/" (en_path e1))).
Proof. exact discover_collision. Qed.
Eval cbv in "ASSUMPTIONS-OF C14_collision_names_both_files"%string. Print Assumptions C14_collision_names_both_files.

(** Looking a discovered name up yields the one entity (file) that defines it. *)
Theorem C14_lookup_is_the_defining_file :
  forall kind compose entries m n e,
    discover kind compose entries = Ok m -> find_entity n m = Some e ->
    In e (entities kind compose entries) /\ en_name e = n /\
    (forall e', In e' m -> en_name e' = n -> e' = e).
Proof. exact discover_lookup. Qed.
Eval cbv in "ASSUMPTIONS-OF C14_lookup_is_the_defining_file"%string. Print Assumptions C14_lookup_is_the_defining_file.

(** Including a discovered name that does not start with a dot looks that very name up. *)
Theorem C14_discovered_names_are_absolute :
  forall loc cls, no_leading_dot cls -> abs_class_name loc cls = cls.
Proof. exact abs_absolute. Qed.
Eval cbv in "ASSUMPTIONS-OF C14_discovered_names_are_absolute"%string. Print Assumptions C14_discovered_names_are_absolute.

(** The naming rule in general (Proofs/NamesRule.v): every .yml / .yaml file, at any depth, with any
    non-empty stem, defines the class named by its relative path with separators turned into dots and
    the extension dropped ([named_path]: X/init names X), and its relative includes start from its
    directory ([location]) *)
Theorem C14_class_is_named_by_its_relative_path :
  forall compose dirs stem ext,
    stem <> ""%string -> yaml_extension ext ->
    entity_of KClass compose (dirs ++ [(stem ++ "." ++ ext)%string]) =
      Some {| en_name := join "." (named_path dirs stem);
              en_path := dirs ++ [(stem ++ "." ++ ext)%string];
              en_loc := location dirs stem |}.
Proof. exact class_naming_rule. Qed.
Eval cbv in "ASSUMPTIONS-OF C14_class_is_named_by_its_relative_path"%string. Print Assumptions C14_class_is_named_by_its_relative_path.

(** Nodes are named by file basename unless node-name composition is on ... *)
Theorem C14_node_is_named_by_its_basename :
  forall dirs stem ext,
    stem <> ""%string -> stem <> "init"%string -> yaml_extension ext ->
    entity_of KNode false (dirs ++ [(stem ++ "." ++ ext)%string]) =
      Some {| en_name := stem; en_path := dirs ++ [(stem ++ "." ++ ext)%string]; en_loc := [] |}.
Proof. exact node_named_by_basename. Qed.
Eval cbv in "ASSUMPTIONS-OF C14_node_is_named_by_its_basename"%string. Print Assumptions C14_node_is_named_by_its_basename.

(** ... in which case nested paths compose ... *)
Theorem C14_composed_node_name_is_the_nested_path :
  forall d dirs stem ext,
    stem <> ""%string -> stem <> "init"%string -> yaml_extension ext -> starts_with_underscore d = false ->
    entity_of KNode true ((d :: dirs) ++ [(stem ++ "." ++ ext)%string]) =
      Some {| en_name := join "." ((d :: dirs) ++ [stem]); en_path := (d :: dirs) ++ [(stem ++ "." ++ ext)%string]; en_loc := d :: dirs |}.
Proof. exact node_name_composes. Qed.
Eval cbv in "ASSUMPTIONS-OF C14_composed_node_name_is_the_nested_path"%string. Print Assumptions C14_composed_node_name_is_the_nested_path.

(** ... except below (top-level) directories starting with an underscore. *)
Theorem C14_no_composition_below_underscore_directories :
  forall d dirs stem ext,
    stem <> ""%string -> stem <> "init"%string -> yaml_extension ext -> starts_with_underscore d = true ->
    entity_of KNode true ((d :: dirs) ++ [(stem ++ "." ++ ext)%string]) =
      Some {| en_name := stem; en_path := (d :: dirs) ++ [(stem ++ "." ++ ext)%string]; en_loc := [] |}.
Proof. exact node_below_underscore_directory. Qed.
Eval cbv in "ASSUMPTIONS-OF C14_no_composition_below_underscore_directories"%string. Print Assumptions C14_no_composition_below_underscore_directories.

(** Other files are ignored: another extension, no extension, nothing before the extension. *)
Theorem C14_other_files_are_ignored :
  forall kind compose dirs,
    (forall stem ext, stem <> ""%string -> nodot ext -> 1 <= String.length ext -> ~ yaml_extension ext ->
       entity_of kind compose (dirs ++ [(stem ++ "." ++ ext)%string]) = None) /\
    (forall name, nodot name -> entity_of kind compose (dirs ++ [name]) = None) /\
    (forall ext, nodot ext -> entity_of kind compose (dirs ++ [("." ++ ext)%string]) = None).
Proof. exact other_files_are_ignored. Qed.
Eval cbv in "ASSUMPTIONS-OF C14_other_files_are_ignored"%string. Print Assumptions C14_other_files_are_ignored.

(** The naming rule on representative shapes (evaluated in the kernel). *)
Example C14_naming_examples :
  option_map en_name (entity_of KClass true ["a"; "b.c.yml"]) = Some "a.b.c" /\
  option_map en_name (entity_of KClass true ["x"; "init.yaml"]) = Some "x" /\
  option_map en_loc (entity_of KClass true ["x"; "y"; "init.yml"]) = Some ["x"] /\
  option_map en_name (entity_of KClass true ["x"; "reinit.yml"]) = Some "x.reinit" /\
  option_map en_name (entity_of KNode false ["x"; "n.yml"]) = Some "n" /\
  option_map en_name (entity_of KNode true ["x"; "n.yml"]) = Some "x.n" /\
  option_map en_name (entity_of KNode true ["_x"; "y"; "n.yml"]) = Some "n" /\
  entity_of KClass true ["x"; "notes.txt"] = None /\ entity_of KClass true [".yml"] = None.
Proof. repeat split; reflexivity. Qed.

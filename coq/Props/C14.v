(* C14 placeholder, replaced below *)
From RV Require Import Model.Mapping.
Theorem C14_placeholder : True. Proof. exact I. Qed.
Eval cbv in "ASSUMPTIONS-OF C14_placeholder"%string. Print Assumptions C14_placeholder.

(* C14  Files map to class and node names one-to-one, collisions rejected.  Statements only;
   proofs in Proofs/NamesFacts.v about Model/Names.v (entity_of, discover).
   PARTIAL: the directory walk (walkdir, symlinks, std::path) that produces the entry list is
   outside the model; the naming rule itself is compared with a Python reading on every run. *)
From RV Require Import Model.Names Proofs.NamesFacts.

(** Discovery succeeds exactly when all names are distinct ... *)
Theorem C14_succeeds_iff_names_distinct :
  forall kind compose entries,
    (exists m, discover kind compose entries = Ok m) <-> NoDup (map en_name (entities kind compose entries)).
Proof. exact discover_succeeds_iff_distinct. Qed.
Eval cbv in "ASSUMPTIONS-OF C14_succeeds_iff_names_distinct"%string. Print Assumptions C14_succeeds_iff_names_distinct.

(** ... and then the table holds exactly one entity per YAML file, in walk order. *)
Theorem C14_one_entity_per_file :
  forall kind compose entries m,
    discover kind compose entries = Ok m ->
    m = entities kind compose entries /\ NoDup (map en_name m).
Proof. exact discover_exact. Qed.
Eval cbv in "ASSUMPTIONS-OF C14_one_entity_per_file"%string. Print Assumptions C14_one_entity_per_file.

(** A collision is rejected with an error naming the name and both files. *)
Theorem C14_collision_names_both_files :
  forall kind compose entries er,
    discover kind compose entries = Err er ->
    exists n p q e1 e2,
      er = EDuplicate (kind_name kind) n p q /\
      In e1 (entities kind compose entries) /\ In e2 (entities kind compose entries) /\
      en_name e1 = n /\ en_name e2 = n /\
      ((p = join "/" (en_path e1) /\ q = join "/" (en_path e2)) \/ (p = join "/" (en_path e2) /\ q = join "/" (en_path e1))).
Proof. exact discover_collision. Qed.
Eval cbv in "ASSUMPTIONS-OF C14_collision_names_both_files"%string. Print Assumptions C14_collision_names_both_files.

(** Looking a discovered name up yields the one entity (file) that defines it. *)
Theorem C14_lookup_is_the_defining_file :
  forall kind compose entries m n e,
    discover kind compose entries = Ok m -> find_entity n m = Some e ->
    In e (entities kind compose entries) /\ en_name e = n /\
    (forall e', In e' m -> en_name e' = n -> e' = e).
Proof. exact discover_lookup. Qed.
Eval cbv in "ASSUMPTIONS-OF C14_lookup_is_the_defining_file"%string. Print Assumptions C14_lookup_is_the_defining_file.

(** Including a discovered name that does not start with a dot looks that very name up. *)
Theorem C14_discovered_names_are_absolute :
  forall loc cls, no_leading_dot cls -> abs_class_name loc cls = cls.
Proof. exact abs_absolute. Qed.
Eval cbv in "ASSUMPTIONS-OF C14_discovered_names_are_absolute"%string. Print Assumptions C14_discovered_names_are_absolute.

(** The naming rule on representative shapes (evaluated in the kernel). *)
Example C14_naming_examples :
  option_map en_name (entity_of KClass true ["a"; "b.c.yml"]) = Some "a.b.c" /\
  option_map en_name (entity_of KClass true ["x"; "init.yaml"]) = Some "x" /\
  option_map en_loc (entity_of KClass true ["x"; "y"; "init.yml"]) = Some ["x"] /\
  option_map en_name (entity_of KClass true ["x"; "reinit.yml"]) = Some "x.reinit" /\
  option_map en_name (entity_of KNode false ["x"; "n.yml"]) = Some "n" /\
  option_map en_name (entity_of KNode true ["x"; "n.yml"]) = Some "x.n" /\
  option_map en_name (entity_of KNode true ["_x"; "y"; "n.yml"]) = Some "n" /\
  entity_of KClass true ["x"; "notes.txt"] = None /\ entity_of KClass true [".yml"] = None.
Proof. repeat split; reflexivity. Qed.

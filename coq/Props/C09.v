(* C09 placeholder, replaced below *)
From RV Require Import Model.Mapping.
Theorem C09_placeholder : True. Proof. exact I. Qed.
Eval cbv in "ASSUMPTIONS-OF C09_placeholder"%string. Print Assumptions C09_placeholder.

(* C09  Constant keys cannot be changed by later layers.
   Statements only; proofs in Proofs/MappingFacts.v (model: Mapping::insert_impl / merge) and
   Proofs/DeepMergeFacts.v (specification Spec/DeepMerge.v, the oracle of the correspondence run). *)
From RV Require Import Model.Mapping Model.Yaml Spec.DeepMerge Proofs.MappingFacts Proofs.DeepMergeFacts.

(** A present constant key rejects every later write -- any value, any marker, forced or not --
    with an error naming the key; the mapping is not modified (the result is an error). *)
Theorem C09_constant_key_rejects_every_write :
  forall m k v fc fo e,
    m_find (stripped k) m = Some e -> e_const e = true ->
    insert_impl m k v fc fo = Err (EConst (stripped k)).
Proof. exact insert_const_rejects. Qed.
Eval cbv in "ASSUMPTIONS-OF C09_constant_key_rejects_every_write"%string. Print Assumptions C09_constant_key_rejects_every_write.

(** Merging a whole mapping: a constant key of the target is never silently altered, merged into
    or dropped -- if the merge succeeds, its entry is literally unchanged and no entry of the
    merged mapping wrote it. *)
Theorem C09_merge_never_alters_constant :
  forall o m m' k e,
    mapping_merge m o = Ok m' -> m_find k m = Some e -> e_const e = true ->
    m_find k m' = Some e /\ Forall (fun e' => stripped (e_key e') <> k) o.
Proof. exact merge_preserves_const. Qed.
Eval cbv in "ASSUMPTIONS-OF C09_merge_never_alters_constant"%string. Print Assumptions C09_merge_never_alters_constant.

(** ... and if the merged mapping does write it (directly or delivered by a reference: a
    referenced mapping is merged by the same function), the merge fails with a constant-key error. *)
Theorem C09_merge_fails_on_constant :
  forall o m k e,
    m_find k m = Some e -> e_const e = true ->
    Exists (fun e' => stripped (e_key e') = k) o ->
    exists k', mapping_merge m o = Err (EConst k').
Proof. exact merge_const_conflict. Qed.
Eval cbv in "ASSUMPTIONS-OF C09_merge_fails_on_constant"%string. Print Assumptions C09_merge_fails_on_constant.

(** Other keys are unaffected by a write to one key: entry (value and flags) and key order. *)
Theorem C09_other_keys_unaffected :
  forall m k v fc fo m' k2,
    insert_impl m k v fc fo = Ok m' -> k2 <> stripped k -> m_find k2 m' = m_find k2 m.
Proof. exact insert_other_key. Qed.
Eval cbv in "ASSUMPTIONS-OF C09_other_keys_unaffected"%string. Print Assumptions C09_other_keys_unaffected.

(** The specification used as oracle says the same: at one position, a key marked constant
    rejects every later write. *)
Theorem C09_spec_constant_rejects :
  forall k p v slots s,
    slot_find k slots = Some s -> sl_const s = true -> slot_write k p v slots = SErr (SConst k).
Proof. exact spec_const_rejects. Qed.
Eval cbv in "ASSUMPTIONS-OF C09_spec_constant_rejects"%string. Print Assumptions C09_spec_constant_rejects.

(** Replacing the enclosing mapping as a whole lifts the protection: null at the enclosing
    position discards the collected mapping with its constants. *)
Theorem C09_spec_null_lifts : forall a, combine a YNull = SOk ANull.
Proof. exact spec_null_replaces. Qed.
Eval cbv in "ASSUMPTIONS-OF C09_spec_null_lifts"%string. Print Assumptions C09_spec_null_lifts.

(** Non-vacuity: a mapping with a constant key; a write to it fails, a write to a sibling works. *)
Example C09_nonvacuous :
  let m := [mk_entry (VStr "k") (VNum (NInt 1)) true false; mk_entry (VStr "j") VNull false false] in
  insert_impl m (VStr "~k") (VNum (NInt 2)) false false = Err (EConst (VStr "k")) /\
  exists m', insert_impl m (VStr "j") (VNum (NInt 2)) false false = Ok m'.
Proof. cbv. split; [reflexivity | eexists; reflexivity]. Qed.

(* C09  Constant keys cannot be changed by later layers.
   Statements only; proofs in Proofs/MappingFacts.v (model: Mapping::insert_impl / merge) and
   Proofs/DeepMergeFacts.v (specification Spec/DeepMerge.v, the oracle of the correspondence run). *)
From RV Require Import Model.Mapping Model.Yaml Model.Interp Model.Run Spec.DeepMerge Proofs.MappingFacts Proofs.DeepMergeFacts
     Proofs.Refinement Proofs.SemiClean Proofs.Twin Proofs.Unrender Proofs.Inline Proofs.TwinStack.

(** A present constant key rejects every later write -- any value, any marker, forced or not --
    with an error naming the key; the mapping is not modified (the result is an error). *)
Theorem C09_constant_key_rejects_every_write :
  forall m k v fc fo e,
    m_find (stripped k) m = Some e -> e_const e = true ->
    insert_impl m k v fc fo = Err (EConst (stripped k)).
Proof. exact insert_const_rejects. Qed.
Eval cbv in "ASSUMPTIONS-OF C09_constant_key_rejects_every_write"%string. Print Assumptions C09_constant_key_rejects_every_write.

(** Merging a whole mapping: a constant key of the target is never silently altered, merged into
    or dropped -- if the merge succeeds, its entry is literally unchanged and no entry of the
    merged mapping wrote it. *)
Theorem C09_merge_never_alters_constant :
  forall o m m' k e,
    mapping_merge m o = Ok m' -> m_find k m = Some e -> e_const e = true ->
    m_find k m' = Some e /\ Forall (fun e' => stripped (e_key e') <> k) o.
Proof. exact merge_preserves_const. Qed.
Eval cbv in "ASSUMPTIONS-OF C09_merge_never_alters_constant"%string. Print Assumptions C09_merge_never_alters_constant.

(** ... and if the merged mapping does write it (directly or delivered by a reference: a
    referenced mapping is merged by the same function), the merge fails with a constant-key error. *)
Theorem C09_merge_fails_on_constant :
  forall o m k e,
    m_find k m = Some e -> e_const e = true ->
    Exists (fun e' => stripped (e_key e') = k) o ->
    exists k', mapping_merge m o = Err (EConst k').
Proof. exact merge_const_conflict. Qed.
Eval cbv in "ASSUMPTIONS-OF C09_merge_fails_on_constant"%string. Print Assumptions C09_merge_fails_on_constant.

(** Other keys are unaffected by a write to one key: entry (value and flags) and key order. *)
Theorem C09_other_keys_unaffected :
  forall m k v fc fo m' k2,
    insert_impl m k v fc fo = Ok m' -> k2 <> stripped k -> m_find k2 m' = m_find k2 m.
Proof. exact insert_other_key. Qed.
Eval cbv in "ASSUMPTIONS-OF C09_other_keys_unaffected"%string. Print Assumptions C09_other_keys_unaffected.

(** The specification used as oracle says the same: at one position, a key marked constant
    rejects every later write. *)
Theorem C09_spec_constant_rejects :
  forall k p v slots s,
    slot_find k slots = Some s -> sl_const s = true -> slot_write k p v slots = SErr (SConst k).
Proof. exact spec_const_rejects. Qed.
Eval cbv in "ASSUMPTIONS-OF C09_spec_constant_rejects"%string. Print Assumptions C09_spec_constant_rejects.

(** Replacing the enclosing mapping as a whole lifts the protection: null at the enclosing
    position discards the collected mapping with its constants. *)
Theorem C09_spec_null_lifts : forall a, combine a YNull = SOk ANull.
Proof. exact spec_null_replaces. Qed.
Eval cbv in "ASSUMPTIONS-OF C09_spec_null_lifts"%string. Print Assumptions C09_spec_null_lifts.

(** Non-vacuity: a mapping with a constant key; a write to it fails, a write to a sibling works. *)
Example C09_nonvacuous :
  let m := [mk_entry (VStr "k") (VNum (NInt 1)) true false; mk_entry (VStr "j") VNull false false] in
  insert_impl m (VStr "~k") (VNum (NInt 2)) false false = Err (EConst (VStr "k")) /\
  exists m', insert_impl m (VStr "j") (VNum (NInt 2)) false false = Ok m'.
Proof. cbv. split; [reflexivity | eexists; reflexivity]. Qed.

(** End to end, at any nesting depth (through the refinement theorem of C02): whenever the
    specification reports a constant-key violation for a stack of reference-free clean layers
    -- the key may sit in a mapping nested arbitrarily deep -- rendering that stack fails with
    the constant-key error naming the same key (raised while merging the layers when the key is
    at the top level, while interpolating otherwise); it never yields a value. *)
Theorem C09_constant_violation_fails_the_render_at_any_depth :
  forall f ys k, ys <> [] -> Forall layer_ok ys ->
    deep_merge (S f) ys = SErr (SConst k) ->
    exists F0, forall F, F0 <= F ->
      let r := (m <- Run.merge_layers ys ;; render_with_self F (VMap m)) in
      r = Err (EConst k) \/ r = Err (EResolving (EConst k)).
Proof.
  intros f ys k Hne Hl Hs. destruct (run_value_refines_deep_merge f ys Hne Hl) as [F0 H]. exists F0. intros F HF.
  specialize (H F HF). rewrite Hs in H. exact H.
Qed.
Eval cbv in "ASSUMPTIONS-OF C09_constant_violation_fails_the_render_at_any_depth"%string. Print Assumptions C09_constant_violation_fails_the_render_at_any_depth.

(** non-vacuity: a constant two levels down, rewritten by a later layer *)
Example C09_nested_constant_nonvacuous :
  let l1 := YMap [(YStr "a", YMap [(YStr "b", YMap [(YStr "=c", YNum (NInt 1))])])] in
  let l2 := YMap [(YStr "a", YMap [(YStr "b", YMap [(YStr "c", YNum (NInt 2))])])] in
  Forall layer_ok [l1; l2] /\ deep_merge 6 [l1; l2] = SErr (SConst (VStr "c")).
Proof. cbn zeta. split; [prove_layer_ok | vm_compute; reflexivity]. Qed.

(** "... directly or through a merged reference" (through C04, Proofs/TwinStack.v): for a stack
    whose layers contain references, write the stack with every reference replaced by the YAML of
    what it renders to -- a constant key of a referenced mapping is spelled `=k` there.  If that
    inlined stack violates a constant in the specification, the stack with the references renders
    to no value at all: a constant delivered by a reference is never silently altered. *)
Theorem C09_constant_delivered_by_a_reference_is_never_silently_altered :
  forall f F ys ys' m k,
    Forall sclean_layer ys -> ys' <> [] -> Forall layer_ok ys' ->
    merge_layers_try ys = Ok m -> Forall2 (ytw m) ys ys' ->
    deep_merge (S f) ys' = SErr (SConst k) ->
    forall r, render_with_self F (VMap m) <> Ok r.
Proof.
  intros f F ys ys' m k Hs Hne Hl Hm Ht Hd r Hr.
  pose proof (stack_with_references_is_the_deep_merge_of_its_inlined_twin f F ys ys' m r Hs Hne Hl Hm Ht Hr) as H.
  now rewrite Hd in H.
Qed.
Eval cbv in "ASSUMPTIONS-OF C09_constant_delivered_by_a_reference_is_never_silently_altered"%string. Print Assumptions C09_constant_delivered_by_a_reference_is_never_silently_altered.

(** non-vacuity: `target` receives the referenced template {=b: frozen}; a later layer writes b *)
Example C09_delivered_constant_nonvacuous :
  let l1 := YMap [(YStr "tmpl", YMap [(YStr "=b", YStr "frozen")])] in
  let l3 := YMap [(YStr "target", YMap [(YStr "b", YStr "changed")])] in
  let ys := [l1; YMap [(YStr "target", YStr "${tmpl}")]; l3] in
  let ys' := [l1; YMap [(YStr "target", YMap [(YStr "=b", YStr "frozen")])]; l3] in
  Forall sclean_layer ys /\ Forall layer_ok ys' /\
  exists m, merge_layers_try ys = Ok m /\ Forall2 (ytw m) ys ys' /\
            deep_merge 10 ys' = SErr (SConst (VStr "b")) /\
            render_with_self 60 (VMap m) = Err (EResolving (EConst (VStr "b"))).
Proof.
  cbn zeta. split; [eapply Forall_impl; [intros y0; apply clean_layer_sclean | prove_layer_ok]|]. split; [prove_layer_ok|].
  eexists. split; [vm_compute; reflexivity|]. split.
  - constructor; [apply ytw_refl|]. constructor; [|constructor; [apply ytw_refl | constructor]].
    apply ytw_map_iff. eexists. split; [reflexivity|]. constructor; [|constructor]. split; [reflexivity|]. cbn [snd].
    right. eexists. eexists. split; [vm_compute; reflexivity|]. split.
    + eapply (denotes_of_render _ _ "${tmpl}" 40 st0). vm_compute. reflexivity.
    + apply lw_map_iff. eexists. split; [reflexivity|]. constructor; [|constructor].
      unfold lwe. cbn [e_key e_val e_const e_over fst snd]. repeat split. right. split; reflexivity.
  - split; vm_compute; reflexivity.
  Unshelve. cbn. repeat split; repeat constructor; cbn; intuition discriminate.
Qed.

(** The marker is the first character of the key, whatever follows it -- also nothing: `=` alone is
    the constant key with the empty name. *)
Theorem C09_marker_is_the_first_character :
  forall s, strip_prefix (VStr ("=" ++ s)) = (VStr s, Some PConst) /\ strip_prefix (VStr ("~" ++ s)) = (VStr s, Some POver).
Proof. intros s. split; reflexivity. Qed.
Eval cbv in "ASSUMPTIONS-OF C09_marker_is_the_first_character"%string. Print Assumptions C09_marker_is_the_first_character.

Example C09_empty_name_nonvacuous :
  let r := (m <- Run.merge_layers [YMap [(YStr "foo", YMap [(YStr "=", YNum (NInt 1))])]; YMap [(YStr "foo", YMap [(YStr "", YNum (NInt 2))])]] ;;
            render_with_self 30 (VMap m)) in
  r = Err (EConst (VStr "")) \/ r = Err (EResolving (EConst (VStr ""))).
Proof. cbn zeta. first [left; vm_compute; reflexivity | right; vm_compute; reflexivity]. Qed.

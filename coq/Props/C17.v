(* C17  Application lists accumulate in merge order with ~ negation.
   Only statements, each closed by [exact] of a lemma proved in Proofs/ListsFacts.v. *)
From RV Require Import Model.Node Model.Lists Proofs.ListsFacts Proofs.NodeApps.

(** Every list reachable by loading application lists (From<Vec<String>>) and merging them
    in any order is duplicate-free, its pending negations are duplicate-free and disjoint
    from its items, and no item carries a negation marker. *)
Theorem C17_invariant :
  forall ls : list (list string),
    RInv (fold_left (fun acc l => r_merge acc (r_from l)) ls r_empty).
Proof. exact r_merge_all_inv. Qed.
Eval cbv in "ASSUMPTIONS-OF C17_invariant"%string. Print Assumptions C17_invariant.

(** "~x removes an x added earlier": exactly that occurrence is cut out, the order of all
    other items and the pending negations are unchanged. *)
Theorem C17_negation_removes_present :
  forall l x, RInv l -> In x (r_items l) ->
    exists a b, r_items l = a ++ x :: b /\
                r_items (r_append l (String "~" x)) = a ++ b /\
                ~ In x (r_items (r_append l (String "~" x))) /\
                r_negs (r_append l (String "~" x)) = r_negs l.
Proof. exact r_neg_present. Qed.
Eval cbv in "ASSUMPTIONS-OF C17_negation_removes_present"%string. Print Assumptions C17_negation_removes_present.

(** "if there is none, it is remembered" (once) and the items are untouched. *)
Theorem C17_negation_remembered_when_absent :
  forall l x, ~ In x (r_items l) ->
    r_items (r_append l (String "~" x)) = r_items l /\
    (In x (r_negs l) -> r_negs (r_append l (String "~" x)) = r_negs l) /\
    (~ In x (r_negs l) -> r_negs (r_append l (String "~" x)) = r_negs l ++ [x]).
Proof. exact r_neg_absent. Qed.
Eval cbv in "ASSUMPTIONS-OF C17_negation_remembered_when_absent"%string. Print Assumptions C17_negation_remembered_when_absent.

(** "... and cancels the next addition of x instead": the addition is dropped, the
    remembered negation is consumed, other remembered negations stay. *)
Theorem C17_remembered_negation_cancels_next_addition :
  forall l x, RInv l -> not_tilde x -> In x (r_negs l) ->
    r_items (r_append l x) = r_items l /\
    ~ In x (r_negs (r_append l x)) /\
    (forall y, y <> x -> (In y (r_negs (r_append l x)) <-> In y (r_negs l))).
Proof. exact r_add_cancelled. Qed.
Eval cbv in "ASSUMPTIONS-OF C17_remembered_negation_cancels_next_addition"%string. Print Assumptions C17_remembered_negation_cancels_next_addition.

(** Plain additions accumulate in order, duplicate-free. *)
Theorem C17_plain_addition_appends_once :
  forall l x, not_tilde x -> ~ In x (r_negs l) ->
    r_negs (r_append l x) = r_negs l /\
    (In x (r_items l) -> r_items (r_append l x) = r_items l) /\
    (~ In x (r_items l) -> r_items (r_append l x) = r_items l ++ [x]).
Proof. exact r_add_plain. Qed.
Eval cbv in "ASSUMPTIONS-OF C17_plain_addition_appends_once"%string. Print Assumptions C17_plain_addition_appends_once.

(** Merging a loaded list = replaying its pending negations, then its items, one entry at
    a time (so the accumulation is in merge order). *)
Theorem C17_merge_is_replay :
  forall l o,
    r_merge l o = fold_left r_append (map (String "~"%char) (r_negs o) ++ r_items o) l.
Proof. exact r_merge_is_fold. Qed.
Eval cbv in "ASSUMPTIONS-OF C17_merge_is_replay"%string. Print Assumptions C17_merge_is_replay.

(** End to end (with C01): the application list of a rendered node is the replay of the lists of
    the classes the include walk records -- each class once, in the order of the record
    (post-order) -- followed by the node's own list; every list is merged with [r_merge], whose
    single steps are characterised above. *)
Theorem C17_node_applications_accumulate_in_walk_order :
  forall fi cfg tbl f n meta r,
    node_render f fi cfg tbl n meta = Ok r ->
    exists seen lists,
      NoDup seen /\ Forall2 (class_apps cfg tbl) seen lists /\
      n_apps r = r_merge (fold_left (fun acc l => r_merge acc (r_from l)) lists r_empty) (n_apps n).
Proof. exact node_apps_accumulate_in_walk_order. Qed.
Eval cbv in "ASSUMPTIONS-OF C17_node_applications_accumulate_in_walk_order"%string. Print Assumptions C17_node_applications_accumulate_in_walk_order.

(** ... so the rendered list is duplicate-free, carries no negation marker and its pending
    negations are disjoint from its items, for every inventory. *)
Theorem C17_node_applications_satisfy_the_invariant :
  forall fi cfg tbl f n meta r l,
    n_apps n = r_from l -> node_render f fi cfg tbl n meta = Ok r -> RInv (n_apps r).
Proof. exact node_apps_invariant. Qed.
Eval cbv in "ASSUMPTIONS-OF C17_node_applications_satisfy_the_invariant"%string. Print Assumptions C17_node_applications_satisfy_the_invariant.

(** Non-vacuity: a reachable state with an item, a pending negation, and the premises of the
    theorems above. *)
Example C17_nonvacuous :
  let l := fold_left (fun acc l => r_merge acc (r_from l)) [["a"; "b"]; ["~c"; "~a"; "d"]] r_empty in
  r_items l = ["b"; "d"] /\ r_negs l = ["c"] /\ RInv l /\ In "b" (r_items l) /\ In "c" (r_negs l).
Proof. cbv. repeat split; repeat constructor; cbv; intuition congruence. Qed.

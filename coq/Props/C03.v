(* C03 placeholder, replaced below *)
From RV Require Import Model.Mapping.
Theorem C03_placeholder : True. Proof. exact I. Qed.
Eval cbv in "ASSUMPTIONS-OF C03_placeholder"%string. Print Assumptions C03_placeholder.

(* C03  A whole-value reference yields the final rendered value at its path.  Statements only;
   proofs in Proofs/PathFacts.v, Layered.v, RefFacts.v, StateIndep.v, Mono.v, InterpFacts.v about
   Model/Interp.v.
   The general statement is proved (C03_reference_is_lookup_in_the_rendered_parameters): for a
   path of any length, assembled from any tokens (nested references included), what ${path}
   renders to is what looking the segments up in the *rendered* parameters finds -- through
   plain mappings, through references and through multiply-defined (layered) mappings.  The
   commutation "lookup after full interpolation = interpolation after on-the-fly lookup" is the
   walk lemma of PathFacts.v; its core is that merging raw layers and merging their renders run
   in lockstep (same keys, flags and layer structure).  Hypothesis: the parameters are layered
   (no ValueList nested inside a value), which holds for every merge of converted clean YAML
   (C03_merged_parameters_are_layered).  Also proved: result uniqueness (state / fuel / order
   independence of successful results), closedness, the error for a missing key. *)
From RV Require Import Model.Yaml Model.Interp Proofs.WfFacts Proofs.InterpFacts Proofs.StateIndep Proofs.Mono Proofs.RefFacts
     Proofs.YamlFacts Proofs.PathFacts Proofs.Refinement Proofs.Layered Proofs.OrderIndep Proofs.DefiningClass.
From Coq Require Import Permutation.

(** A parameter whose whole value is a reference ${k} to a top-level parameter renders to exactly
    what k's own value renders to -- same kind, same data -- whatever the state (position in
    the tree, references met before) and fuel with which either is rendered. *)
Theorem C03_whole_reference_is_the_rendered_target :
  forall root k v0 F st r st' F' st0 rk st0',
    wf (VMap root) ->
    split_on ":" k = [k] -> m_get (VStr k) root = Some v0 ->
    token_render F root (TRef [TLit k]) st = Ok (r, st') ->
    interp F' root v0 st0 = Ok (rk, st0') ->
    r = rk.
Proof. exact whole_reference_is_target_render. Qed.
Eval cbv in "ASSUMPTIONS-OF C03_whole_reference_is_the_rendered_target"%string. Print Assumptions C03_whole_reference_is_the_rendered_target.

(** The general case: a reference whose path (assembled from any tokens, nested references
    included) has any number of segments renders to exactly what looking those segments up in
    the fully rendered parameters finds -- same kind, same data. *)
Theorem C03_reference_is_lookup_in_the_rendered_parameters :
  forall root, wf (VMap root) -> layered root ->
  forall F parts st r st' F' out,
    token_render F root (TRef parts) st = Ok (r, st') ->
    render_with_self F' (VMap root) = Ok (VMap out) ->
    exists f path, token_slice f root parts (with_depth st (S (depth st))) = Ok path /\
                   lookup (split_on ":" path) (VMap out) = Some r.
Proof. intros root Hw Hl F parts st r st' F' out. exact (reference_is_lookup_in_rendered root Hw F parts st r st' F' out Hl). Qed.
Eval cbv in "ASSUMPTIONS-OF C03_reference_is_lookup_in_the_rendered_parameters"%string. Print Assumptions C03_reference_is_lookup_in_the_rendered_parameters.

(** The hypothesis holds for what the code builds: merging any stack of clean layers (and
    Mapping::merge in general) yields layered parameters. *)
Theorem C03_merged_parameters_are_layered :
  forall ys m0 m, Forall clean_layer ys -> layered m0 ->
    foldM (fun acc y => m <- try_mapping_of_yaml y ;; mapping_merge acc m) ys m0 = Ok m -> layered m.
Proof. exact stack_layered. Qed.
Eval cbv in "ASSUMPTIONS-OF C03_merged_parameters_are_layered"%string. Print Assumptions C03_merged_parameters_are_layered.

(** The rendered value of anything is unique: it does not depend on the resolution state (so
    not on where, after what, or in which order of keys it is rendered) nor on the fuel. *)
Theorem C03_rendered_value_is_unique :
  forall root v f1 f2 s1 s2 r1 t1 r2 t2,
    interp f1 root v s1 = Ok (r1, t1) -> interp f2 root v s2 = Ok (r2, t2) -> r1 = r2.
Proof. exact interp_result_unique. Qed.
Eval cbv in "ASSUMPTIONS-OF C03_rendered_value_is_unique"%string. Print Assumptions C03_rendered_value_is_unique.

(** The kind is preserved because the result is the target's render, and that is closed data. *)
Theorem C03_result_is_closed_data :
  forall f root v st v' st', wf (VMap root) -> wf v -> interp f root v st = Ok (v', st') -> closed v' /\ wf v'.
Proof. exact interp_closed. Qed.
Eval cbv in "ASSUMPTIONS-OF C03_result_is_closed_data"%string. Print Assumptions C03_result_is_closed_data.

(** A path whose first key does not exist is an error naming the reference, the missing key and
    the parameter being rendered. *)
Theorem C03_missing_key_is_an_error :
  forall f root parts st path k0 segs,
    depth st < RESOLVE_MAX_DEPTH ->
    token_slice f root parts (with_depth st (S (depth st))) = Ok path ->
    mem path (seen st) = false -> split_on ":" path = k0 :: segs -> m_get (VStr k0) root = None ->
    token_resolve (S f) root (TRef parts) st = Err (EMissingKey path k0 (current_key st)).
Proof. exact missing_key_error. Qed.
Eval cbv in "ASSUMPTIONS-OF C03_missing_key_is_an_error"%string. Print Assumptions C03_missing_key_is_an_error.

(** More fuel never changes a result (fuel is the model's call-depth bound, not an input). *)
Theorem C03_fuel_irrelevant :
  forall root f f' v st r, f <= f' -> interp f root v st = r -> r <> OutOfFuel -> interp f' root v st = r.
Proof. exact interp_fuel_mono. Qed.
Eval cbv in "ASSUMPTIONS-OF C03_fuel_irrelevant"%string. Print Assumptions C03_fuel_irrelevant.

(** "The result does not depend on the order in which parameters are written": the interpreter
    reads the parameters only through key lookup (two parameter mappings with the same lookup
    function render every value alike, at every state and fuel) ... *)
Theorem C03_parameters_are_read_through_lookup_only :
  forall root root', (forall k, m_get (VStr k) root = m_get (VStr k) root') ->
    forall f v st, interp f root v st = interp f root' v st.
Proof. exact interp_root_ext. Qed.
Eval cbv in "ASSUMPTIONS-OF C03_parameters_are_read_through_lookup_only"%string. Print Assumptions C03_parameters_are_read_through_lookup_only.

(** ... so rendering the same parameters written in any other order yields the rendered
    parameters in that order, every key holding the same value (references included: what a
    reference sees is the final value at its path, wherever the target is written). *)
Theorem C03_result_does_not_depend_on_the_order_of_parameters :
  forall root, wf (VMap root) -> forall f root' r,
    Permutation root root' ->
    render_with_self f (VMap root) = Ok r ->
    exists m m', r = VMap m /\ render_with_self f (VMap root') = Ok (VMap m') /\
                 Permutation m m' /\ forall k, m_get k m = m_get k m'.
Proof. exact render_is_order_independent. Qed.
Eval cbv in "ASSUMPTIONS-OF C03_result_does_not_depend_on_the_order_of_parameters"%string. Print Assumptions C03_result_does_not_depend_on_the_order_of_parameters.

(** "... or on which class defines the target": the classes' parameter mappings are merged in
    order ([merge_classes]); the definition [e] of a parameter is moved from one class to a later
    one, and neither the rest of those two classes nor any class in between touches that parameter
    ([kx]: the key without its marker).  The merged parameters are then a permutation of each other,
    and the node renders to the same parameters, key by key -- references to the moved target
    included. *)
Theorem C03_result_does_not_depend_on_the_defining_class :
  forall ls1 a e b ls2 c ls3 m f r,
    Forall (fun y => kx y <> kx e) (b ++ List.concat ls2 ++ c) ->
    merge_classes (ls1 ++ (a ++ e :: b) :: ls2 ++ c :: ls3) [] = Ok m ->
    wf (VMap m) -> render_with_self f (VMap m) = Ok r ->
    exists m' mm mm',
      merge_classes (ls1 ++ (a ++ b) :: ls2 ++ (c ++ [e]) :: ls3) [] = Ok m' /\
      r = VMap mm /\ render_with_self f (VMap m') = Ok (VMap mm') /\ forall k, m_get k mm = m_get k mm'.
Proof. exact render_does_not_depend_on_the_defining_class. Qed.
Eval cbv in "ASSUMPTIONS-OF C03_result_does_not_depend_on_the_defining_class"%string. Print Assumptions C03_result_does_not_depend_on_the_defining_class.

(** non-vacuity: the target t moves from the first class to the third; x refers to it *)
Example C03_defining_class_nonvacuous :
  let ex := mk_entry (VStr "x") (VStr "${t:a}") false false in
  let et := mk_entry (VStr "t") (VMap [mk_entry (VStr "a") (VNum (NInt 1)) false false]) false false in
  let ey := mk_entry (VStr "y") (VNum (NInt 2)) false false in
  let ez := mk_entry (VStr "z") (VNum (NInt 3)) false false in
  Forall (fun y => kx y <> kx et) ([] ++ List.concat [[ey]] ++ [ez]) /\
  exists m, merge_classes ([] ++ ([ex] ++ et :: []) :: [[ey]] ++ [ez] :: []) [] = Ok m /\ wf (VMap m) /\
            exists r, render_with_self 40 (VMap m) = Ok r.
Proof.
  cbn zeta. split.
  - repeat constructor; cbv; discriminate.
  - eexists. split; [vm_compute; reflexivity|]. split; [cbn; repeat split; repeat constructor; cbn; intuition discriminate|].
    eexists. vm_compute. reflexivity.
Qed.

(** Non-vacuity: a reference into a three-layer mapping defined after the referencing key, and a
    nested path. *)
Example C03_nonvacuous :
  let root := [ mk_entry (VStr "r") (VStr "${t}") false false;
                mk_entry (VStr "p") (VStr "${t:${seg}}") false false;
                mk_entry (VStr "seg") (VStr "y") false false;
                mk_entry (VStr "t") (VList [VMap [mk_entry (VStr "x") (VNum (NInt 1)) false false];
                                            VMap [mk_entry (VStr "y") (VSeq [VBool true]) false false];
                                            VMap [mk_entry (VStr "x") (VNum (NInt 3)) false false]]) false false ] in
  exists m, render_with_self 60 (VMap root) = Ok (VMap m) /\
    m_get (VStr "r") m = m_get (VStr "t") m /\ m_get (VStr "p") m = Some (VSeq [VBool true]) /\
    layered root /\ lookup ["t"; "y"] (VMap m) = Some (VSeq [VBool true]).
Proof.
  cbn zeta. eexists. split; [vm_compute; reflexivity|]. split; [vm_compute; reflexivity|]. split; [vm_compute; reflexivity|].
  split; [|vm_compute; reflexivity]. unfold layered. repeat constructor.
Qed.

(** Every segment of a path is looked up as it stands, the empty one included: `${cfg:}` is the member of
    `cfg` with the empty name (evaluated in the kernel; an error naming the key '' when there is none). *)
Example C03_empty_segment_nonvacuous :
  let cfg v := mk_entry (VStr "cfg") (VMap v) false false in
  (exists s, interp 40 [cfg [mk_entry (VStr "x") (VNum (NInt 1)) false false; mk_entry (VStr "") (VNum (NInt 5)) false false]] (VStr "${cfg:}") st0
             = Ok (VNum (NInt 5), s)) /\
  interp 40 [cfg [mk_entry (VStr "x") (VNum (NInt 1)) false false]] (VStr "${cfg:}") st0 = Err (EMissingKey "cfg:" "" "").
Proof. cbn zeta. split; [eexists; vm_compute; reflexivity | vm_compute; reflexivity]. Qed.

(* C15  Relative class names resolve against the including class's directory.  Statements only;
   proofs in Proofs/NamesFacts.v about Model/Names.v (abs_class_name). *)
From RV Require Import Model.Names Model.Node Proofs.NamesFacts Proofs.IncludeEntries.

(** Every include is [dots n ++ rest] with rest not starting with a dot, in exactly one way. *)
Theorem C15_shape_of_names :
  forall s, let '(n, rest) := count_dots s in s = (dots n ++ rest)%string /\ no_leading_dot rest.
Proof. exact count_dots_spec. Qed.
Eval cbv in "ASSUMPTIONS-OF C15_shape_of_names"%string. Print Assumptions C15_shape_of_names.

(** Names that do not start with a dot are absolute. *)
Theorem C15_absolute_names_unchanged :
  forall loc cls, no_leading_dot cls -> abs_class_name loc cls = cls.
Proof. exact abs_absolute. Qed.
Eval cbv in "ASSUMPTIONS-OF C15_absolute_names_unchanged"%string. Print Assumptions C15_absolute_names_unchanged.

(** One dot means the including class's directory [loc], each further dot one level up. *)
Theorem C15_relative_resolution :
  forall loc n rest, no_leading_dot rest ->
    abs_class_name loc (dots (S n) ++ rest) = (dotted (drop_last n loc) ++ rest)%string.
Proof. exact abs_relative. Qed.
Eval cbv in "ASSUMPTIONS-OF C15_relative_resolution"%string. Print Assumptions C15_relative_resolution.

(** ... but never above the classes root. *)
Theorem C15_never_above_root :
  forall loc n rest, no_leading_dot rest -> List.length loc <= n ->
    abs_class_name loc (dots (S n) ++ rest) = rest.
Proof. exact abs_saturates. Qed.
Eval cbv in "ASSUMPTIONS-OF C15_never_above_root"%string. Print Assumptions C15_never_above_root.

Theorem C15_directory_is_prefix_of_location :
  forall loc n rest, no_leading_dot rest ->
    exists k, k <= List.length loc /\
      abs_class_name loc (dots (S n) ++ rest) = (dotted (firstn k loc) ++ rest)%string.
Proof. exact abs_prefix. Qed.
Eval cbv in "ASSUMPTIONS-OF C15_directory_is_prefix_of_location"%string. Print Assumptions C15_directory_is_prefix_of_location.

(** Nodes resolve relative to the root. *)
Theorem C15_nodes_resolve_from_root :
  forall n rest, no_leading_dot rest -> abs_class_name [] (dots (S n) ++ rest) = rest.
Proof. exact abs_from_node. Qed.
Eval cbv in "ASSUMPTIONS-OF C15_nodes_resolve_from_root"%string. Print Assumptions C15_nodes_resolve_from_root.

(** Every entry of an include list is made absolute on its own against the location of the class that
    holds the list: the loaded list holds exactly the resolved names of the written entries (each once),
    so what one entry resolves to does not depend on the entries before it (Proofs/IncludeEntries.v). *)
Theorem C15_include_entries_resolve_independently :
  forall loc doc n, node_of_yaml loc doc = Ok n ->
    exists fields cs,
      doc = YMap fields /\ y_string_list "classes" (y_field "classes" fields) = Ok cs /\
      NoDup (n_classes n) /\
      forall x, In x (n_classes n) <-> exists c, In c cs /\ x = abs_class_name loc c.
Proof. exact include_entries_resolve_independently. Qed.
Eval cbv in "ASSUMPTIONS-OF C15_include_entries_resolve_independently"%string. Print Assumptions C15_include_entries_resolve_independently.

(** non-vacuity: a list with a two-dot entry before a one-dot entry, in a class two levels down *)
Example C15_entries_nonvacuous :
  exists n, node_of_yaml ["a"; "b"]%string (YMap [(YStr "classes", YSeq [YStr "..shared"; YStr ".leaf"])]) = Ok n /\
            n_classes n = ["a.shared"; "a.b.leaf"]%string.
Proof. eexists. split; reflexivity. Qed.

(** The absolute name denotes itself: replacing a relative include by the absolute name it
    denotes changes nothing that is looked up (the render only ever sees abs_class_name). *)
Theorem C15_absolute_name_denotes_itself :
  forall loc cls, Forall (fun s => s <> "" /\ no_leading_dot s) loc ->
    abs_class_name loc (abs_class_name loc cls) = abs_class_name loc cls.
Proof. exact abs_idempotent. Qed.
Eval cbv in "ASSUMPTIONS-OF C15_absolute_name_denotes_itself"%string. Print Assumptions C15_absolute_name_denotes_itself.

Example C15_nonvacuous :
  abs_class_name ["a"; "b"] "..x.y" = "a.x.y" /\ abs_class_name ["a"; "b"] ".....x" = "x" /\
  abs_class_name ["a"; "b"] ".x" = "a.b.x" /\ abs_class_name [] "..x" = "x".
Proof. repeat split; reflexivity. Qed.

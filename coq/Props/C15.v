(* C15 placeholder, replaced below *)
From RV Require Import Model.Mapping.
Theorem C15_placeholder : True. Proof. exact I. Qed.
Eval cbv in "ASSUMPTIONS-OF C15_placeholder"%string. Print Assumptions C15_placeholder.

(* C19 placeholder, replaced below *)
From RV Require Import Model.Mapping.
Theorem C19_placeholder : True. Proof. exact I. Qed.
Eval cbv in "ASSUMPTIONS-OF C19_placeholder"%string. Print Assumptions C19_placeholder.

(* C19  Python sees native objects equal to the rendered data.  Statements only; proofs in
   Proofs/PyFacts.v about Model/Py.v (as_py_obj over a Python object algebra with dict semantics).
   PARTIAL: PyO3's primitive conversions and the exception mapping are runtime behaviour,
   compared in embedded CPython on every run.  Known findings (known_findings.txt): keys equal
   under Python's == collapse (F13); unhashable keys raise TypeError (F16). *)
From RV Require Import Model.Py Proofs.WfFacts Proofs.PyFacts.

(** Rendered data converts entry by entry, in the same key order, to the same data: mappings to
    dicts, lists to lists, strings to str, booleans to bool, null to None, integers to (unbounded)
    int, other numbers to float -- whenever no two keys of one mapping are equal in Python and
    all keys are hashable. *)
Theorem C19_lossless_conversion :
  forall v, closed v -> py_distinct v -> exists o, as_py_obj v = PyOk o /\ same_data v o.
Proof. exact as_py_lossless. Qed.
Eval cbv in "ASSUMPTIONS-OF C19_lossless_conversion"%string. Print Assumptions C19_lossless_conversion.

Theorem C19_scalar_kinds_preserved :
  as_py_obj VNull = PyOk PyNone /\
  (forall b, as_py_obj (VBool b) = PyOk (PyBool b)) /\
  (forall z, as_py_obj (VNum (NInt z)) = PyOk (PyInt z)) /\
  (forall f, as_py_obj (VNum (NFloat f)) = PyOk (PyFloat f)) /\
  (forall s, as_py_obj (VLit s) = PyOk (PyStr s)) /\
  (forall s, as_py_obj (VStr s) = PyOk (PyStr s)).
Proof. exact as_py_scalars. Qed.
Eval cbv in "ASSUMPTIONS-OF C19_scalar_kinds_preserved"%string. Print Assumptions C19_scalar_kinds_preserved.

(** Rendered (closed) data never reaches the unreachable!() of the conversion. *)
Theorem C19_no_panic_on_rendered_data :
  forall v, closed v -> closed_keys v -> as_py_obj v <> PyPanic.
Proof. exact as_py_no_panic. Qed.
Eval cbv in "ASSUMPTIONS-OF C19_no_panic_on_rendered_data"%string. Print Assumptions C19_no_panic_on_rendered_data.

(** The hypothesis py_distinct is needed: the witnesses of the two recorded findings. *)
Theorem C19_key_collision_witness :
  as_py_obj (VMap [mk_entry (VBool true) (VLit "a") false false; mk_entry (VNum (NInt 1)) (VLit "b") false false])
  = PyOk (PyDict [(PyBool true, PyStr "b")]).
Proof. exact py_key_collision. Qed.
Eval cbv in "ASSUMPTIONS-OF C19_key_collision_witness"%string. Print Assumptions C19_key_collision_witness.

Theorem C19_unhashable_key_witness :
  as_py_obj (VMap [mk_entry (VSeq [VNum (NInt 1)]) (VLit "a") false false]) = PyTypeError.
Proof. exact py_unhashable_key. Qed.
Eval cbv in "ASSUMPTIONS-OF C19_unhashable_key_witness"%string. Print Assumptions C19_unhashable_key_witness.

Example C19_nonvacuous :
  let v := VMap [mk_entry (VStr "a") (VSeq [VNum (NInt 18446744073709551615); VBool false; VNull]) false false;
                 mk_entry (VNum (NInt 2)) (VMap [mk_entry (VBool true) (VLit "t") false false]) false false] in
  closed v /\ py_distinct v.
Proof.
  cbn zeta. split; [cbn; tauto|]. cbn.
  repeat (split || eexists || constructor || reflexivity).
Qed.

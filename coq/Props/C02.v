(* C02  Layered parameters deep-merge.  Statements only.
   Proved here: the kind table of Value::merge on the model (one merge step), the same table
   for the specification Spec/DeepMerge.v, and totality of the mapping merge (no panic).
   The refinement "render of a reference-free stack = deep_merge of the stack" is stated in
   Proofs/Refinement.v (see DESIGN section 5, C02) and exercised as oracle on every run. *)
From RV Require Import Model.Mapping Model.Yaml Spec.DeepMerge Proofs.MappingFacts Proofs.MergeFacts Proofs.DeepMergeFacts.

Theorem C02_null_replaces_anything : forall ck self, value_merge ck self VNull = Ok VNull.
Proof. exact merge_null_replaces. Qed.
Eval cbv in "ASSUMPTIONS-OF C02_null_replaces_anything"%string. Print Assumptions C02_null_replaces_anything.

Theorem C02_anything_replaces_null :
  forall ck other, is_vlist other = false -> value_merge ck VNull other = Ok other.
Proof. exact merge_over_null. Qed.
Eval cbv in "ASSUMPTIONS-OF C02_anything_replaces_null"%string. Print Assumptions C02_anything_replaces_null.

Theorem C02_scalar_replaces_scalar :
  forall ck self other, scalar self -> scalar other -> value_merge ck self other = Ok other.
Proof. exact merge_scalar_replaces. Qed.
Eval cbv in "ASSUMPTIONS-OF C02_scalar_replaces_scalar"%string. Print Assumptions C02_scalar_replaces_scalar.

Theorem C02_lists_concatenate : forall ck a b, value_merge ck (VSeq a) (VSeq b) = Ok (VSeq (a ++ b)).
Proof. exact merge_lists_append. Qed.
Eval cbv in "ASSUMPTIONS-OF C02_lists_concatenate"%string. Print Assumptions C02_lists_concatenate.

Theorem C02_mappings_merge_key_by_key :
  forall ck a b, value_merge ck (VMap a) (VMap b) = rmap VMap (mapping_merge a b).
Proof. exact merge_maps. Qed.
Eval cbv in "ASSUMPTIONS-OF C02_mappings_merge_key_by_key"%string. Print Assumptions C02_mappings_merge_key_by_key.

(** type conflicts are errors naming the parameter, never resolved in favour of either side *)
Theorem C02_conflict_on_mapping :
  forall ck a other, is_null other = false -> is_vlist other = false -> is_mapping other = false ->
    value_merge ck (VMap a) other = Err (EMerge ck (variant other) "mapping").
Proof. exact merge_conflict_on_map. Qed.
Eval cbv in "ASSUMPTIONS-OF C02_conflict_on_mapping"%string. Print Assumptions C02_conflict_on_mapping.

Theorem C02_conflict_on_list :
  forall ck a other, is_null other = false -> is_vlist other = false -> is_sequence other = false ->
    value_merge ck (VSeq a) other = Err (EMerge ck (variant other) "sequence").
Proof. exact merge_conflict_on_seq. Qed.
Eval cbv in "ASSUMPTIONS-OF C02_conflict_on_list"%string. Print Assumptions C02_conflict_on_list.

Theorem C02_conflict_on_scalar :
  forall ck self other, scalar self -> is_mapping other || is_sequence other = true ->
    value_merge ck self other = Err (EMerge ck (variant other) (variant self)).
Proof. exact merge_conflict_on_scalar. Qed.
Eval cbv in "ASSUMPTIONS-OF C02_conflict_on_scalar"%string. Print Assumptions C02_conflict_on_scalar.

(** merging mappings never panics: the only failure is a constant-key error *)
Theorem C02_mapping_merge_total :
  forall o m, (exists m', mapping_merge m o = Ok m') \/ (exists k, mapping_merge m o = Err (EConst k)).
Proof. exact merge_total. Qed.
Eval cbv in "ASSUMPTIONS-OF C02_mapping_merge_total"%string. Print Assumptions C02_mapping_merge_total.

(** the specification's kind table (the oracle of the correspondence run) *)
Theorem C02_spec_conflicts :
  (forall s y v, scalar_of y = Some v -> y <> YNull -> combine (AMaps s) y = SErr SConflict) /\
  (forall s l, combine (AMaps s) (YSeq l) = SErr SConflict) /\
  (forall l0 y v, scalar_of y = Some v -> y <> YNull -> combine (ASeq l0) y = SErr SConflict) /\
  (forall l0 es, combine (ASeq l0) (YMap es) = SErr SConflict) /\
  (forall v0 es, combine (AScalar v0) (YMap es) = SErr SConflict) /\
  (forall v0 l, combine (AScalar v0) (YSeq l) = SErr SConflict).
Proof. exact spec_conflicts. Qed.
Eval cbv in "ASSUMPTIONS-OF C02_spec_conflicts"%string. Print Assumptions C02_spec_conflicts.

(** Non-vacuity: three layers, nested map, list, null in the middle, a conflict hidden under an
    override: the specification gives a value. *)
Example C02_nonvacuous :
  exists v,
    deep_merge 10
      [ YMap [(YStr "a", YMap [(YStr "x", YNum (NInt 1))]); (YStr "l", YSeq [YNum (NInt 1)]); (YStr "c", YMap [])];
        YMap [(YStr "a", YNull); (YStr "l", YSeq [YNum (NInt 2)]); (YStr "c", YStr "conflict")];
        YMap [(YStr "a", YMap [(YStr "y", YBool true)]); (YStr "~c", YNum (NInt 3))] ] = SOk v.
Proof. eexists. vm_compute. reflexivity. Qed.

(* C02 placeholder, replaced below *)
From RV Require Import Model.Mapping.
Theorem C02_placeholder : True. Proof. exact I. Qed.
Eval cbv in "ASSUMPTIONS-OF C02_placeholder"%string. Print Assumptions C02_placeholder.

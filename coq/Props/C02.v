(* C02  Layered parameters deep-merge.  Statements only.
   Proved here: the kind table of Value::merge on the model (one merge step), the same table
   for the specification Spec/DeepMerge.v, and totality of the mapping merge (no panic).
   The refinement "render of a reference-free stack = deep_merge of the stack" is proved in
   Proofs/Refinement.v for every stack of clean layers without reference markers, at any
   nesting depth, errors included (C02_render_refines_deep_merge below); the same specification
   is the oracle of the correspondence run. *)
From RV Require Import Model.Mapping Model.Yaml Model.Interp Model.Run Spec.DeepMerge Proofs.MappingFacts Proofs.MergeFacts
     Proofs.DeepMergeFacts Proofs.YamlFacts Proofs.Refinement Proofs.WfFacts Proofs.Twin Proofs.Unrender Proofs.Inline Proofs.TwinStack.

Theorem C02_null_replaces_anything : forall ck self, value_merge ck self VNull = Ok VNull.
Proof. exact merge_null_replaces. Qed.
Eval cbv in "ASSUMPTIONS-OF C02_null_replaces_anything"%string. Print Assumptions C02_null_replaces_anything.

Theorem C02_anything_replaces_null :
  forall ck other, is_vlist other = false -> value_merge ck VNull other = Ok other.
Proof. exact merge_over_null. Qed.
Eval cbv in "ASSUMPTIONS-OF C02_anything_replaces_null"%string. Print Assumptions C02_anything_replaces_null.

Theorem C02_scalar_replaces_scalar :
  forall ck self other, scalar self -> scalar other -> value_merge ck self other = Ok other.
Proof. exact merge_scalar_replaces. Qed.
Eval cbv in "ASSUMPTIONS-OF C02_scalar_replaces_scalar"%string. Print Assumptions C02_scalar_replaces_scalar.

Theorem C02_lists_concatenate : forall ck a b, value_merge ck (VSeq a) (VSeq b) = Ok (VSeq (a ++ b)).
Proof. exact merge_lists_append. Qed.
Eval cbv in "ASSUMPTIONS-OF C02_lists_concatenate"%string. Print Assumptions C02_lists_concatenate.

Theorem C02_mappings_merge_key_by_key :
  forall ck a b, value_merge ck (VMap a) (VMap b) = rmap VMap (mapping_merge a b).
Proof. exact merge_maps. Qed.
Eval cbv in "ASSUMPTIONS-OF C02_mappings_merge_key_by_key"%string. Print Assumptions C02_mappings_merge_key_by_key.

(** type conflicts are errors naming the parameter, never resolved in favour of either side *)
Theorem C02_conflict_on_mapping :
  forall ck a other, is_null other = false -> is_vlist other = false -> is_mapping other = false ->
    value_merge ck (VMap a) other = Err (EMerge ck (variant other) "mapping").
Proof. exact merge_conflict_on_map. Qed.
Eval cbv in "ASSUMPTIONS-OF C02_conflict_on_mapping"%string. Print Assumptions C02_conflict_on_mapping.

Theorem C02_conflict_on_list :
  forall ck a other, is_null other = false -> is_vlist other = false -> is_sequence other = false ->
    value_merge ck (VSeq a) other = Err (EMerge ck (variant other) "sequence").
Proof. exact merge_conflict_on_seq. Qed.
Eval cbv in "ASSUMPTIONS-OF C02_conflict_on_list"%string. Print Assumptions C02_conflict_on_list.

Theorem C02_conflict_on_scalar :
  forall ck self other, scalar self -> is_mapping other || is_sequence other = true ->
    value_merge ck self other = Err (EMerge ck (variant other) (variant self)).
Proof. exact merge_conflict_on_scalar. Qed.
Eval cbv in "ASSUMPTIONS-OF C02_conflict_on_scalar"%string. Print Assumptions C02_conflict_on_scalar.

(** merging mappings never panics: the only failure is a constant-key error *)
Theorem C02_mapping_merge_total :
  forall o m, (exists m', mapping_merge m o = Ok m') \/ (exists k, mapping_merge m o = Err (EConst k)).
Proof. exact merge_total. Qed.
Eval cbv in "ASSUMPTIONS-OF C02_mapping_merge_total"%string. Print Assumptions C02_mapping_merge_total.

(** the specification's kind table (the oracle of the correspondence run) *)
Theorem C02_spec_conflicts :
  (forall s y v, scalar_of y = Some v -> y <> YNull -> combine (AMaps s) y = SErr SConflict) /\
  (forall s l, combine (AMaps s) (YSeq l) = SErr SConflict) /\
  (forall l0 y v, scalar_of y = Some v -> y <> YNull -> combine (ASeq l0) y = SErr SConflict) /\
  (forall l0 es, combine (ASeq l0) (YMap es) = SErr SConflict) /\
  (forall v0 es, combine (AScalar v0) (YMap es) = SErr SConflict) /\
  (forall v0 l, combine (AScalar v0) (YSeq l) = SErr SConflict).
Proof. exact spec_conflicts. Qed.
Eval cbv in "ASSUMPTIONS-OF C02_spec_conflicts"%string. Print Assumptions C02_spec_conflicts.

(** Non-vacuity: three layers, nested map, list, null in the middle, a conflict hidden under an
    override: the specification gives a value. *)
Example C02_nonvacuous :
  exists v,
    deep_merge 10
      [ YMap [(YStr "a", YMap [(YStr "x", YNum (NInt 1))]); (YStr "l", YSeq [YNum (NInt 1)]); (YStr "c", YMap [])];
        YMap [(YStr "a", YNull); (YStr "l", YSeq [YNum (NInt 2)]); (YStr "c", YStr "conflict")];
        YMap [(YStr "a", YMap [(YStr "y", YBool true)]); (YStr "~c", YNum (NInt 3))] ] = SOk v.
Proof. eexists. vm_compute. reflexivity. Qed.

(** The refinement, in full: for every non-empty stack of layers in the domain (mappings with
    clean keys, no tags, no reference markers in string values; any nesting, any number of
    layers) and every specification fuel f, there is an interpreter fuel from which on the model
    pipeline (Mapping::from per layer, Mapping::merge in order, render_with_self) yields
      - the specification's value up to the constant/override flags, when it gives one;
      - a constant-key error naming the same key, when it gives that;
      - a merge type-conflict error, when it gives a conflict;
    and the specification never panics on the domain. *)
Theorem C02_render_refines_deep_merge :
  forall f ys, ys <> [] -> Forall layer_ok ys ->
  exists F0, forall F, F0 <= F ->
    stack_rel (deep_merge (S f) ys) (m <- Run.merge_layers ys ;; render_with_self F (VMap m)).
Proof. exact run_value_refines_deep_merge. Qed.
Eval cbv in "ASSUMPTIONS-OF C02_render_refines_deep_merge"%string. Print Assumptions C02_render_refines_deep_merge.

(** With C04, for stacks that DO contain references: [ytw m y y'] relates two YAML documents that
    are equal except that, anywhere, reference strings of [y] are replaced in [y'] by a document
    that spells what the reference renders to against the merged parameters [m] ([denotes]) the
    way a document does -- strings as plain strings ([lw]).  The render of the stack is the render
    of its inlined twin (one more unit of the model's fuel);
    and when the twin is in the domain of the refinement theorem (reference-free), it is the
    specification's deep merge of the twin: the value agrees, and the specification reports no
    conflict and no constant violation. *)
Theorem C02_stack_with_references_renders_as_its_inlined_twin :
  forall F ys ys' m r,
    Forall sclean_layer ys -> Forall sclean_layer ys' ->
    merge_layers_try ys = Ok m -> Forall2 (ytw m) ys ys' ->
    render_with_self F (VMap m) = Ok r ->
    exists m', merge_layers_try ys' = Ok m' /\ render_with_self (S F) (VMap m') = Ok r.
Proof. exact stack_renders_as_its_inlined_twin. Qed.
Eval cbv in "ASSUMPTIONS-OF C02_stack_with_references_renders_as_its_inlined_twin"%string. Print Assumptions C02_stack_with_references_renders_as_its_inlined_twin.

Theorem C02_stack_with_references_is_the_deep_merge_of_its_inlined_twin :
  forall f F ys ys' m r,
    Forall sclean_layer ys -> ys' <> [] -> Forall layer_ok ys' ->
    merge_layers_try ys = Ok m -> Forall2 (ytw m) ys ys' ->
    render_with_self F (VMap m) = Ok r ->
    match deep_merge (S f) ys' with
    | SOk v => unflag r = v
    | SFuel => True
    | SErr _ => False
    end.
Proof. exact stack_with_references_is_the_deep_merge_of_its_inlined_twin. Qed.
Eval cbv in "ASSUMPTIONS-OF C02_stack_with_references_is_the_deep_merge_of_its_inlined_twin"%string. Print Assumptions C02_stack_with_references_is_the_deep_merge_of_its_inlined_twin.

(** Non-vacuity: three layers define t:n; the middle one by a reference to h; the twin writes h's
    value there.  The premises hold, the stack renders, and the specification gives the value. *)
Example C02_twin_stack_premises_hold :
  let a n := YMap [(YStr "a", YSeq [YNum (NInt n)])] in
  let l1 := YMap [(YStr "h", a 2%Z); (YStr "t", YMap [(YStr "n", a 1%Z)])] in
  let l3 := YMap [(YStr "t", YMap [(YStr "n", a 3%Z)])] in
  let ys := [l1; YMap [(YStr "t", YMap [(YStr "n", YStr "${h}")])]; l3] in
  let ys' := [l1; YMap [(YStr "t", YMap [(YStr "n", a 2%Z)])]; l3] in
  Forall sclean_layer ys /\ Forall layer_ok ys' /\
  exists m r v, merge_layers_try ys = Ok m /\ Forall2 (ytw m) ys ys' /\
                render_with_self 60 (VMap m) = Ok r /\ deep_merge 10 ys' = SOk v /\ unflag r = v.
Proof.
  cbn zeta. split; [eapply Forall_impl; [intros y0; apply clean_layer_sclean | prove_layer_ok]|]. split; [prove_layer_ok|].
  eexists. eexists. eexists. split; [vm_compute; reflexivity|]. split.
  - constructor; [apply ytw_refl|]. constructor; [|constructor; [apply ytw_refl | constructor]].
    apply ytw_map_iff. eexists. split; [reflexivity|]. constructor; [|constructor]. split; [reflexivity|]. cbn [snd].
    apply ytw_map_iff. eexists. split; [reflexivity|]. constructor; [|constructor]. split; [reflexivity|]. cbn [snd].
    right. eexists. eexists. split; [vm_compute; reflexivity|]. split; [|apply lw_refl].
    eapply (denotes_of_render _ _ "${h}" 40 st0). vm_compute. reflexivity.
  - split; [vm_compute; reflexivity|]. split; vm_compute; reflexivity.
  Unshelve. cbn. repeat split; repeat constructor; cbn; intuition discriminate.
Qed.

(** Part 1 on its own, for any clean YAML (references allowed): merging the layers is the
    specification's key-by-key collection. *)
Theorem C02_merge_refines_collection :
  forall ys slots m, Forall clean_layer ys -> slots_ok conv slots m ->
  match collect_layers ys slots, foldM (fun acc y => m <- try_mapping_of_yaml y ;; mapping_merge acc m) ys m with
  | SOk slots', Ok m' => slots_ok conv slots' m'
  | SErr (SConst k1), Err (EConst k2) => k1 = k2
  | _, _ => False
  end.
Proof. exact stack_merge_refines_collection. Qed.
Eval cbv in "ASSUMPTIONS-OF C02_merge_refines_collection"%string. Print Assumptions C02_merge_refines_collection.

(** the hypotheses are satisfiable and the three outcomes all occur *)
Example C02_refinement_nonvacuous :
  Forall layer_ok [ex_l1; ex_l2; ex_l3; ex_l4] /\
  (exists v, deep_merge 6 [ex_l1; ex_l2] = SOk v) /\
  (deep_merge 6 [ex_l1; ex_l2; ex_l3] = SErr SConflict) /\
  (deep_merge 6 [ex_l1; ex_l4] = SErr (SConst (VStr "c"))).
Proof. split; [exact ex_domain | split; [eexists; exact (proj1 ex_value) | split; [exact (proj1 ex_conflict) | exact (proj1 ex_constant)]]]. Qed.

(* C12  Rendering is deterministic and independent of threads and order.
   In the model a node's render is a function of (inventory, configuration, node name) by
   construction; what is proved here is that the aggregation of the worker results does not
   depend on the order in which they arrive (any schedule of the parallel collect).
   PARTIAL (see DESIGN): absence of shared mutable state between threads is a runtime fact,
   covered by the multi-pool differential runs of the check. *)
From RV Require Import Model.Node Proofs.SortFacts Proofs.InventoryFacts Proofs.NodeLocal.
From Coq Require Import Permutation.

Theorem C12_aggregation_is_order_independent :
  forall rs rs' inv,
    Permutation rs rs' -> all_ok rs -> inventory_of rs empty_inventory = Ok inv ->
    exists inv', inventory_of rs' empty_inventory = Ok inv' /\
      (forall c, ix_get c (inv_classes inv') = ix_get c (inv_classes inv)) /\
      (forall a, ix_get a (inv_apps inv') = ix_get a (inv_apps inv)) /\
      Permutation (inv_nodes inv') (inv_nodes inv).
Proof. exact inventory_order_independent. Qed.
Eval cbv in "ASSUMPTIONS-OF C12_aggregation_is_order_independent"%string. Print Assumptions C12_aggregation_is_order_independent.

Theorem C12_failure_is_order_independent :
  forall rs rs', Permutation rs rs' -> ~ all_ok rs -> ~ all_ok rs'.
Proof. exact inventory_failure_order_independent. Qed.
Eval cbv in "ASSUMPTIONS-OF C12_failure_is_order_independent"%string. Print Assumptions C12_failure_is_order_independent.

(** Each node's entry in the full inventory is what rendering that node alone returns: the node
    map is literally the list of single-node results. *)
Theorem C12_entry_is_the_single_render :
  forall (names : list string) (render : string -> res nodeinfo) inv,
    let rs := map (fun n => (n, render n)) names in
    all_ok rs -> inventory_of rs empty_inventory = Ok inv ->
    forall n i, In (n, i) (inv_nodes inv) -> render n = Ok i.
Proof.
  intros names render inv rs Hall H n i Hin.
  destruct (inventory_index_exact rs inv Hall H) as (_ & _ & Hn). rewrite Hn in Hin. clear - Hin.
  subst rs. induction names as [|x names IH]; cbn [map oks_of] in Hin; [destruct Hin|].
  destruct (render x) eqn:E; try (apply IH, Hin).
  destruct Hin as [Hin|Hin]; [injection Hin as <- <-; exact E | apply IH, Hin].
Qed.
Eval cbv in "ASSUMPTIONS-OF C12_entry_is_the_single_render"%string. Print Assumptions C12_entry_is_the_single_render.

(** "Rendering one node never influences another": what render_node returns for a node depends on
    the table of discovered nodes only through that node's own entry, and on the table of classes
    only through the lookup of class names -- the other nodes, and the order of either table, play
    no part (and the model's render is a function: repeating it repeats the result). *)
Theorem C12_render_node_is_local :
  forall f fi cfg root ntbl ntbl' ctbl ctbl' name,
    find_node name ntbl = find_node name ntbl' -> (forall c, find_class c ctbl = find_class c ctbl') ->
    render_node f fi cfg root ntbl ctbl name = render_node f fi cfg root ntbl' ctbl' name.
Proof. exact render_node_is_local. Qed.
Eval cbv in "ASSUMPTIONS-OF C12_render_node_is_local"%string. Print Assumptions C12_render_node_is_local.

Theorem C12_other_nodes_do_not_matter :
  forall f fi cfg root ntbl ctbl name e,
    ne_name e <> name ->
    render_node f fi cfg root (e :: ntbl) ctbl name = render_node f fi cfg root ntbl ctbl name.
Proof. exact other_nodes_do_not_matter. Qed.
Eval cbv in "ASSUMPTIONS-OF C12_other_nodes_do_not_matter"%string. Print Assumptions C12_other_nodes_do_not_matter.

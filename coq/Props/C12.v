(* C12 placeholder, replaced below *)
From RV Require Import Model.Mapping.
Theorem C12_placeholder : True. Proof. exact I. Qed.
Eval cbv in "ASSUMPTIONS-OF C12_placeholder"%string. Print Assumptions C12_placeholder.

(* C10  Override keys replace instead of merging.  Statements only. *)
From RV Require Import Model.Mapping Model.Yaml Model.Interp Model.Run Spec.DeepMerge Proofs.MappingFacts Proofs.DeepMergeFacts
     Proofs.Refinement Proofs.WfFacts Proofs.PathFacts Proofs.Twin Proofs.Unrender Proofs.Inline Proofs.TwinStack.

(** An override (marker ~ or the override flag carried by a merged mapping's entry) on a
    present, non-constant key replaces the value in place: whatever earlier layers contributed
    (a value, a layer list, a type conflict among its layers) is gone. *)
Theorem C10_override_replaces :
  forall m k v fc fo e,
    m_find (stripped k) m = Some e -> e_const e = false ->
    fo || is_pover (marker k) = true ->
    insert_impl m k v fc fo =
      Ok (m_set (stripped k) (fun e => mk_entry (stripped k) v (fc || is_pconst (marker k)) (e_over e)) m).
Proof. exact insert_override_replaces. Qed.
Eval cbv in "ASSUMPTIONS-OF C10_override_replaces"%string. Print Assumptions C10_override_replaces.

(** Later layers merge onto the new value as usual: a plain write appends a layer. *)
Theorem C10_plain_write_appends_layer :
  forall m k v fc fo e,
    m_find (stripped k) m = Some e -> e_const e = false ->
    fo || is_pover (marker k) = false ->
    insert_impl m k v fc fo =
      Ok (m_set (stripped k)
            (fun e0 => mk_entry (stripped k)
                         (match e_val e with
                          | VList l => VList (l ++ layers_of v)
                          | _ => VList (e_val e :: layers_of v)
                          end) (fc || is_pconst (marker k)) (e_over e0)) m).
Proof. exact insert_appends. Qed.
Eval cbv in "ASSUMPTIONS-OF C10_plain_write_appends_layer"%string. Print Assumptions C10_plain_write_appends_layer.

(** An override with no earlier value: the value is stored and the key remembers the override,
    which fires when this mapping is merged into another one. *)
Theorem C10_override_without_earlier_value :
  forall m k v fc fo,
    m_find (stripped k) m = None ->
    insert_impl m k v fc fo =
      Ok (m ++ [mk_entry (stripped k) v (is_pconst (marker k) || fc) (is_pover (marker k) || fo)]).
Proof. exact insert_absent. Qed.
Eval cbv in "ASSUMPTIONS-OF C10_override_without_earlier_value"%string. Print Assumptions C10_override_without_earlier_value.

(** Sibling keys are unaffected, and the order of the keys never changes (new keys go last). *)
Theorem C10_siblings_unaffected :
  forall m k v fc fo m' k2,
    insert_impl m k v fc fo = Ok m' -> k2 <> stripped k -> m_find k2 m' = m_find k2 m.
Proof. exact insert_other_key. Qed.
Eval cbv in "ASSUMPTIONS-OF C10_siblings_unaffected"%string. Print Assumptions C10_siblings_unaffected.

Theorem C10_key_order_kept :
  forall m k v fc fo m',
    insert_impl m k v fc fo = Ok m' ->
    map e_key m' = map e_key m \/ map e_key m' = map e_key m ++ [stripped k].
Proof. exact insert_keys. Qed.
Eval cbv in "ASSUMPTIONS-OF C10_key_order_kept"%string. Print Assumptions C10_key_order_kept.

(** The specification used as oracle: an override empties what the key has collected, other
    keys and the key order are untouched. *)
Theorem C10_spec_override_discards :
  forall k p v slots s,
    slot_find k slots = Some s -> sl_const s = false ->
    exists slots', slot_write k p v slots = SOk slots' /\
      slot_find k slots' = Some {| sl_key := k;
                                   sl_pending := if is_pover p then [v] else sl_pending s ++ [v];
                                   sl_const := is_pconst p |} /\
      (forall k2, k2 <> k -> slot_find k2 slots' = slot_find k2 slots) /\
      map sl_key slots' = map sl_key slots.
Proof. exact spec_write_present. Qed.
Eval cbv in "ASSUMPTIONS-OF C10_spec_override_discards"%string. Print Assumptions C10_spec_override_discards.

(** Non-vacuity: override after a type conflict (mapping then scalar collected for k). *)
Example C10_nonvacuous :
  let m := [mk_entry (VStr "k") (VList [VMap []; VLit "x"]) false false] in
  insert_impl m (VStr "~k") (VSeq []) false false = Ok [mk_entry (VStr "k") (VSeq []) false false].
Proof. reflexivity. Qed.

(** End to end, at any nesting depth (through the refinement theorem of C02): for a stack of
    reference-free clean layers, the render is the specification's value -- in which an override
    key holds only what the override and the layers after it contribute (C10_spec_override_discards),
    whatever kind the discarded layers had. *)
Theorem C10_render_is_the_specified_value_at_any_depth :
  forall f ys v, ys <> [] -> Forall layer_ok ys ->
    deep_merge (S f) ys = SOk v ->
    exists F0, forall F, F0 <= F ->
      exists v', (m <- Run.merge_layers ys ;; render_with_self F (VMap m)) = Ok v' /\ unflag v' = v.
Proof.
  intros f ys v Hne Hl Hs. destruct (run_value_refines_deep_merge f ys Hne Hl) as [F0 H]. exists F0. intros F HF.
  specialize (H F HF). rewrite Hs in H. exact H.
Qed.
Eval cbv in "ASSUMPTIONS-OF C10_render_is_the_specified_value_at_any_depth"%string. Print Assumptions C10_render_is_the_specified_value_at_any_depth.

(** non-vacuity: a nested override replaces a mapping by a scalar although an earlier pair of
    layers conflicts *)
Example C10_nested_override_nonvacuous :
  let l1 := YMap [(YStr "a", YMap [(YStr "k", YMap [(YStr "x", YNum (NInt 1))])])] in
  let l2 := YMap [(YStr "a", YMap [(YStr "k", YSeq [YNum (NInt 2)])])] in
  let l3 := YMap [(YStr "a", YMap [(YStr "~k", YStr "s")])] in
  Forall layer_ok [l1; l2; l3] /\
  deep_merge 6 [l1; l2; l3] = SOk (VMap [(VStr "a", VMap [(VStr "k", VLit "s", false, false)], false, false)]).
Proof. cbn zeta. split; [prove_layer_ok | vm_compute; reflexivity]. Qed.

(** "... including overrides delivered inside referenced mappings" (through C04, Proofs/TwinStack.v):
    for a stack whose layers contain references, write the stack with every reference replaced by
    the YAML of what it renders to -- an override key of a referenced mapping is spelled `~k` there.
    If the stack renders, its value is the specification's value for that inlined stack: the
    delivered override replaces what earlier layers contributed, exactly like a written one. *)
Theorem C10_overrides_delivered_by_references_replace_like_written_ones :
  forall f F ys ys' m r,
    Forall sclean_layer ys -> ys' <> [] -> Forall layer_ok ys' ->
    merge_layers_try ys = Ok m -> Forall2 (ytw m) ys ys' ->
    render_with_self F (VMap m) = Ok r ->
    match deep_merge (S f) ys' with
    | SOk v => unflag r = v
    | SFuel => True
    | SErr _ => False
    end.
Proof. exact stack_with_references_is_the_deep_merge_of_its_inlined_twin. Qed.
Eval cbv in "ASSUMPTIONS-OF C10_overrides_delivered_by_references_replace_like_written_ones"%string. Print Assumptions C10_overrides_delivered_by_references_replace_like_written_ones.

(** non-vacuity: `target` holds b as a mapping; a later layer merges the referenced template
    {~b: "s"} over it; the member is replaced by the string, as if `~b: s` had been written there *)
Example C10_delivered_override_nonvacuous :
  let l1 := YMap [(YStr "tmpl", YMap [(YStr "~b", YStr "s")]);
                  (YStr "target", YMap [(YStr "b", YMap [(YStr "x", YNum (NInt 1%Z))]); (YStr "o", YNum (NInt 0%Z))])] in
  let ys := [l1; YMap [(YStr "target", YStr "${tmpl}")]] in
  let ys' := [l1; YMap [(YStr "target", YMap [(YStr "~b", YStr "s")])]] in
  Forall sclean_layer ys /\ Forall layer_ok ys' /\
  exists m r, merge_layers_try ys = Ok m /\ Forall2 (ytw m) ys ys' /\ render_with_self 60 (VMap m) = Ok r /\
              deep_merge 10 ys' = SOk (unflag r) /\
              lookup ["target"; "b"] (unflag r) = Some (VLit "s").
Proof.
  cbn zeta. split; [eapply Forall_impl; [intros y0; apply clean_layer_sclean | prove_layer_ok]|]. split; [prove_layer_ok|].
  eexists. eexists. split; [vm_compute; reflexivity|]. split.
  - constructor; [apply ytw_refl|]. constructor; [|constructor].
    apply ytw_map_iff. eexists. split; [reflexivity|]. constructor; [|constructor]. split; [reflexivity|]. cbn [snd].
    right. eexists. eexists. split; [vm_compute; reflexivity|]. split.
    + eapply (denotes_of_render _ _ "${tmpl}" 40 st0). vm_compute. reflexivity.
    + apply lw_map_iff. eexists. split; [reflexivity|]. constructor; [|constructor].
      unfold lwe. cbn [e_key e_val e_const e_over fst snd]. repeat split. right. split; reflexivity.
  - split; [vm_compute; reflexivity|]. split; vm_compute; reflexivity.
  Unshelve. cbn. repeat split; repeat constructor; cbn; intuition discriminate.
Qed.

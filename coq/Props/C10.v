(* C10 placeholder, replaced below *)
From RV Require Import Model.Mapping.
Theorem C10_placeholder : True. Proof. exact I. Qed.
Eval cbv in "ASSUMPTIONS-OF C10_placeholder"%string. Print Assumptions C10_placeholder.

(* C16  Missing classes fail the node unless configured to be ignored.  Statements only; proofs in
   Proofs/NodeFacts.v about read_class of Model/Node.v.  The pattern match is the regex oracle
   [c_matches] (class names matched by the compiled pattern set).  That an ignored class leaves
   parameters and applications untouched is immediate from the walk (the entry is skipped before
   anything is merged) and is checked on twin inventories on every run. *)
From RV Require Import Model.Node Proofs.NodeFacts.

Theorem C16_missing_class_fails_naming_it :
  forall cfg tbl loc name,
    find_class (abs_class_name loc name) tbl = None ->
    c_ignore cfg && mem (abs_class_name loc name) (c_matches cfg) = false ->
    read_class cfg tbl loc name = Err (EClassNotFound (abs_class_name loc name)).
Proof. exact read_class_missing_fails. Qed.
Eval cbv in "ASSUMPTIONS-OF C16_missing_class_fails_naming_it"%string. Print Assumptions C16_missing_class_fails_naming_it.

Theorem C16_ignored_missing_class_is_skipped :
  forall cfg tbl loc name,
    find_class (abs_class_name loc name) tbl = None ->
    c_ignore cfg = true -> mem (abs_class_name loc name) (c_matches cfg) = true ->
    read_class cfg tbl loc name = Ok None.
Proof. exact read_class_missing_ignored. Qed.
Eval cbv in "ASSUMPTIONS-OF C16_ignored_missing_class_is_skipped"%string. Print Assumptions C16_ignored_missing_class_is_skipped.

(** Existing classes are never skipped by these settings: the result does not depend on them. *)
Theorem C16_existing_class_never_skipped :
  forall cfg tbl loc name ce,
    find_class (abs_class_name loc name) tbl = Some ce ->
    read_class cfg tbl loc name <> Ok None /\
    forall cfg', read_class cfg' tbl loc name = read_class cfg tbl loc name.
Proof. exact read_class_existing_never_skipped. Qed.
Eval cbv in "ASSUMPTIONS-OF C16_existing_class_never_skipped"%string. Print Assumptions C16_existing_class_never_skipped.

Theorem C16_flag_off_never_ignores :
  forall cfg tbl loc name, c_ignore cfg = false -> read_class cfg tbl loc name <> Ok None.
Proof. exact flag_off_never_ignores. Qed.
Eval cbv in "ASSUMPTIONS-OF C16_flag_off_never_ignores"%string. Print Assumptions C16_flag_off_never_ignores.

(** In the walk an ignored include contributes nothing: the loop continues with the same seen
    list and the same accumulated node. *)
Theorem C16_ignored_include_contributes_nothing :
  forall fi cfg tbl recur self_loc loading c cs seen root name0,
    include_name fi (n_params root) c = Ok name0 ->
    mem (abs_class_name self_loc name0) seen = false ->
    mem (abs_class_name self_loc name0) loading = false ->
    read_class cfg tbl self_loc (abs_class_name self_loc name0) = Ok None ->
    include_loop fi cfg tbl recur self_loc loading (c :: cs) seen root =
    include_loop fi cfg tbl recur self_loc loading cs seen root.
Proof. intros * H1 H2 H3 H4. cbn [include_loop]. rewrite H1. cbn [bind]. rewrite H2, H3, H4. reflexivity. Qed.
Eval cbv in "ASSUMPTIONS-OF C16_ignored_include_contributes_nothing"%string. Print Assumptions C16_ignored_include_contributes_nothing.

(** In the walk a missing class that is not ignored -- whether the entry names it directly or through a
    reference -- stops the loop, wherever the loop stands, with the error naming the class the entry
    resolves to ... *)
Theorem C16_missing_include_stops_the_loop_naming_the_class :
  forall fi cfg tbl recur self_loc loading c cs seen root name0,
    include_name fi (n_params root) c = Ok name0 ->
    let name := abs_class_name self_loc name0 in
    mem name seen = false -> mem name loading = false ->
    find_class (abs_class_name self_loc name) tbl = None ->
    c_ignore cfg && mem (abs_class_name self_loc name) (c_matches cfg) = false ->
    include_loop fi cfg tbl recur self_loc loading (c :: cs) seen root = Err (EClassNotFound (abs_class_name self_loc name)).
Proof.
  intros * Hn name Hs Hl Hf Hi. cbn [include_loop]. rewrite Hn. cbn [bind].
  fold name. rewrite Hs, Hl. rewrite (read_class_missing_fails cfg tbl self_loc name Hf Hi). reflexivity.
Qed.
Eval cbv in "ASSUMPTIONS-OF C16_missing_include_stops_the_loop_naming_the_class"%string. Print Assumptions C16_missing_include_stops_the_loop_naming_the_class.

(** ... and that error is the outcome of every enclosing level: of the entity whose list was walked
    (whatever it holds itself) and of the loop that was walking the entity. *)
Theorem C16_walk_errors_reach_the_top :
  (forall f fi cfg tbl self seen loading root e,
     include_loop fi cfg tbl (render_impl f fi cfg tbl) (n_loc self) loading (n_classes self) seen root = Err e ->
     render_impl (S f) fi cfg tbl self seen loading root = Err e) /\
  (forall fi cfg tbl recur self_loc loading c cs seen root name0 cn e,
     include_name fi (n_params root) c = Ok name0 ->
     let name := abs_class_name self_loc name0 in
     mem name seen = false -> mem name loading = false ->
     read_class cfg tbl self_loc name = Ok (Some cn) ->
     recur cn seen (loading ++ [name]) root = Err e ->
     include_loop fi cfg tbl recur self_loc loading (c :: cs) seen root = Err e).
Proof.
  split.
  - intros * H. cbn [render_impl]. now rewrite H.
  - intros * Hn name Hs Hl Hr He. cbn [include_loop]. rewrite Hn. cbn [bind]. fold name. rewrite Hs, Hl, Hr. cbn [bind].
    now rewrite He.
Qed.
Eval cbv in "ASSUMPTIONS-OF C16_walk_errors_reach_the_top"%string. Print Assumptions C16_walk_errors_reach_the_top.

(** The error is truthful: a class is reported as not found only if the name it resolves to is in no
    file and is not ignored by the settings. *)
Theorem C16_not_found_error_is_truthful :
  forall cfg tbl loc name cls,
    read_class cfg tbl loc name = Err (EClassNotFound cls) ->
    cls = abs_class_name loc name /\ find_class cls tbl = None /\ c_ignore cfg && mem cls (c_matches cfg) = false.
Proof.
  intros cfg tbl loc name cls H. unfold read_class in H.
  destruct (find_class (abs_class_name loc name) tbl) as [ce|] eqn:Ef.
  - destruct (node_of_yaml (ce_loc ce) (ce_doc ce)); cbn in H; discriminate.
  - destruct (c_ignore cfg && mem (abs_class_name loc name) (c_matches cfg)) eqn:Ei; [discriminate|].
    injection H as <-. repeat split; assumption.
Qed.
Eval cbv in "ASSUMPTIONS-OF C16_not_found_error_is_truthful"%string. Print Assumptions C16_not_found_error_is_truthful.

(** non-vacuity: the missing class is named through a reference *)
Example C16_missing_through_reference_nonvacuous :
  let tbl := [{| ce_name := "sel"; ce_loc := []; ce_doc := YMap [(YStr "parameters", YMap [(YStr "backend", YStr "storage.ceph")])] |}] in
  let cfg := {| c_ignore := false; c_matches := []; c_compose := false; c_literal_dots := false |} in
  exists n, node_of_yaml [] (YMap [(YStr "classes", YSeq [YStr "sel"; YStr "${backend}"])]) = Ok n /\
    node_render 10 100 cfg tbl n {| m_name := "n"; m_uri := ""; m_parts := ["n"] |} = Err (EClassNotFound "storage.ceph").
Proof. cbn zeta. eexists. split; [reflexivity | vm_compute; reflexivity]. Qed.

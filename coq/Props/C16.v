(* C16 placeholder, replaced below *)
From RV Require Import Model.Mapping.
Theorem C16_placeholder : True. Proof. exact I. Qed.
Eval cbv in "ASSUMPTIONS-OF C16_placeholder"%string. Print Assumptions C16_placeholder.

(* C16  Missing classes fail the node unless configured to be ignored.  Statements only; proofs in
   Proofs/NodeFacts.v about read_class of Model/Node.v.  The pattern match is the regex oracle
   [c_matches] (class names matched by the compiled pattern set).  That an ignored class leaves
   parameters and applications untouched is immediate from the walk (the entry is skipped before
   anything is merged) and is checked on twin inventories on every run. *)
From RV Require Import Model.Node Proofs.NodeFacts.

Theorem C16_missing_class_fails_naming_it :
  forall cfg tbl loc name,
    find_class (abs_class_name loc name) tbl = None ->
    c_ignore cfg && mem (abs_class_name loc name) (c_matches cfg) = false ->
    read_class cfg tbl loc name = Err (EClassNotFound (abs_class_name loc name)).
Proof. exact read_class_missing_fails. Qed.
Eval cbv in "ASSUMPTIONS-OF C16_missing_class_fails_naming_it"%string. Print Assumptions C16_missing_class_fails_naming_it.

Theorem C16_ignored_missing_class_is_skipped :
  forall cfg tbl loc name,
    find_class (abs_class_name loc name) tbl = None ->
    c_ignore cfg = true -> mem (abs_class_name loc name) (c_matches cfg) = true ->
    read_class cfg tbl loc name = Ok None.
Proof. exact read_class_missing_ignored. Qed.
Eval cbv in "ASSUMPTIONS-OF C16_ignored_missing_class_is_skipped"%string. Print Assumptions C16_ignored_missing_class_is_skipped.

(** Existing classes are never skipped by these settings: the result does not depend on them. *)
Theorem C16_existing_class_never_skipped :
  forall cfg tbl loc name ce,
    find_class (abs_class_name loc name) tbl = Some ce ->
    read_class cfg tbl loc name <> Ok None /\
    forall cfg', read_class cfg' tbl loc name = read_class cfg tbl loc name.
Proof. exact read_class_existing_never_skipped. Qed.
Eval cbv in "ASSUMPTIONS-OF C16_existing_class_never_skipped"%string. Print Assumptions C16_existing_class_never_skipped.

Theorem C16_flag_off_never_ignores :
  forall cfg tbl loc name, c_ignore cfg = false -> read_class cfg tbl loc name <> Ok None.
Proof. exact flag_off_never_ignores. Qed.
Eval cbv in "ASSUMPTIONS-OF C16_flag_off_never_ignores"%string. Print Assumptions C16_flag_off_never_ignores.

(** In the walk an ignored include contributes nothing: the loop continues with the same seen
    list and the same accumulated node. *)
Theorem C16_ignored_include_contributes_nothing :
  forall fi cfg tbl recur self_loc loading c cs seen root name0,
    include_name fi (n_params root) c = Ok name0 ->
    mem (abs_class_name self_loc name0) seen = false ->
    mem (abs_class_name self_loc name0) loading = false ->
    read_class cfg tbl self_loc (abs_class_name self_loc name0) = Ok None ->
    include_loop fi cfg tbl recur self_loc loading (c :: cs) seen root =
    include_loop fi cfg tbl recur self_loc loading cs seen root.
Proof. intros * H1 H2 H3 H4. cbn [include_loop]. rewrite H1. cbn [bind]. rewrite H2, H3, H4. reflexivity. Qed.
Eval cbv in "ASSUMPTIONS-OF C16_ignored_include_contributes_nothing"%string. Print Assumptions C16_ignored_include_contributes_nothing.

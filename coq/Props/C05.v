(* C05  Embedded references render as text of the rendered value.  Statements only; proofs in
   Proofs/JsonFacts.v (text form = specification Spec/TextOf.v), Proofs/InterpFacts.v (what is
   converted to text is closed, i.e. fully rendered).  The extracted specification text_of is
   also applied to the implementation's own rendered target on every run. *)
From RV Require Import Model.Interp Spec.TextOf Proofs.WfFacts Proofs.InterpFacts Proofs.JsonFacts Proofs.ParserShape Proofs.TemplateRender
     Proofs.ParserGen Proofs.ParserFull Proofs.ParserAny Proofs.TemplateAny.

(** The text form of a rendered value is the specified one: strings as-is, numbers in decimal,
    True/False/None, mappings and lists as compact JSON with byte-wise sorted keys in which
    integers stay integers. *)
Theorem C05_text_form_is_specification :
  forall v t, text_of v = Some t -> raw_string v = Ok t.
Proof. exact raw_string_is_text_of. Qed.
Eval cbv in "ASSUMPTIONS-OF C05_text_form_is_specification"%string. Print Assumptions C05_text_form_is_specification.

Theorem C05_scalar_texts :
  (forall s, raw_string (VLit s) = Ok s) /\ raw_string VNull = Ok "None" /\
  raw_string (VBool true) = Ok "True" /\ raw_string (VBool false) = Ok "False" /\
  (forall z, raw_string (VNum (NInt z)) = Ok (Z_to_string z)).
Proof. repeat split. Qed.
Eval cbv in "ASSUMPTIONS-OF C05_scalar_texts"%string. Print Assumptions C05_scalar_texts.

(** A string mixing text and references renders to the concatenation, in order, of the texts of
    its pieces: the loop over the pieces distributes over concatenation of piece lists. *)
Theorem C05_pieces_concatenate :
  forall resolve ws call st ts1 ts2 s1 s2,
    slice_loop resolve ws call st ts1 = Ok s1 -> slice_loop resolve ws call st ts2 = Ok s2 ->
    slice_loop resolve ws call st (ts1 ++ ts2) = Ok (s1 ++ s2)%string.
Proof.
  intros resolve ws call st ts1. induction ts1 as [|t ts1 IH]; intros ts2 s1 s2 H1 H2; cbn [app slice_loop] in *.
  - injection H1 as <-. exact H2.
  - destruct (resolve t st) as [[v st1]| | |]; cbn [bind] in *; try discriminate.
    destruct (ws v st1) as [[v' st2]| | |]; cbn [bind] in *; try discriminate.
    destruct (if is_mapping v' || is_sequence v' then call v' st2 else Ok (v', st2)) as [[v'' st3]| | |]; cbn [bind] in *; try discriminate.
    destruct (raw_string v'') as [sx| | |]; cbn [bind] in *; try discriminate.
    destruct (slice_loop resolve ws call st ts1) as [r1| | |] eqn:E; cbn [bind] in *; try discriminate.
    injection H1 as <-. rewrite (IH ts2 r1 s2 eq_refl H2). cbn [bind]. f_equal.
    clear. induction sx as [|c sx IHs]; cbn; [reflexivity | now rewrite IHs].
Qed.
Eval cbv in "ASSUMPTIONS-OF C05_pieces_concatenate"%string. Print Assumptions C05_pieces_concatenate.

(** a literal piece contributes its text verbatim *)
Theorem C05_literal_piece :
  forall f root s st, token_resolve (S f) root (TLit s) st = Ok (VLit s, st) /\ raw_string (VLit s) = Ok s.
Proof. split; reflexivity. Qed.
Eval cbv in "ASSUMPTIONS-OF C05_literal_piece"%string. Print Assumptions C05_literal_piece.

(** what a mapping or list piece is converted from is the fully rendered value: the
    interpolation applied before the text is taken returns closed data (no reference left). *)
Theorem C05_container_piece_is_rendered_first :
  forall f root v st v' st', wf (VMap root) -> wf v -> interp f root v st = Ok (v', st') -> closed v'.
Proof. intros f root v st v' st' Hr Hv H. exact (proj1 (interp_closed f root v st v' st' Hr Hv H)). Qed.
Eval cbv in "ASSUMPTIONS-OF C05_container_piece_is_rendered_first"%string. Print Assumptions C05_container_piece_is_rendered_first.

(** End to end: a string mixing text and references -- any number of pieces, [segs_str] spells
    it out: literal pieces as they are, references as `${path}` -- renders to the concatenation,
    in order, of the literal pieces and of the specified text forms ([text_of]) of the values
    its references render to as whole values, at the same state (so: of what a parameter
    `p: ${path}` holds after rendering; C03 says what that is).  The state comes back unchanged. *)
Theorem C05_template_renders_to_the_concatenation_of_piece_texts :
  forall root, wf (VMap root) -> forall f st g1 g2 l texts,
    Forall seg_ok (g1 :: g2 :: l) -> alternating (g1 :: g2 :: l) -> (exists c k, In (SRef c k) (g1 :: g2 :: l)) ->
    Forall2 (piece_spec root f st) (g1 :: g2 :: l) texts ->
    exists F, forall f', F <= f' ->
      interp f' root (VStr (segs_str (g1 :: g2 :: l))) st = Ok (VLit (sconcat texts), st).
Proof. exact template_renders_as_specified_text. Qed.
Eval cbv in "ASSUMPTIONS-OF C05_template_renders_to_the_concatenation_of_piece_texts"%string. Print Assumptions C05_template_renders_to_the_concatenation_of_piece_texts.

(** Non-vacuity of its premises: the template "pre ${m} post ${x:y}" over a root in which [m] is a
    mapping with a reference inside and [x:y] a string. *)
Example C05_template_premises_hold :
  let root := [ mk_entry (VStr "m") (VMap [mk_entry (VStr "b") (VNum (NInt 2)) false false;
                                           mk_entry (VStr "a") (VSeq [VStr "${x:y}"; VBool true]) false false]) false false;
                mk_entry (VStr "x") (VMap [mk_entry (VStr "y") (VStr "q") false false]) false false ] in
  let segs := [SText "p" "re "; SRef "m" ""; SText " " "post "; SRef "x" ":y"] in
  segs_str segs = "pre ${m} post ${x:y}"%string /\
  wf (VMap root) /\ Forall seg_ok segs /\ alternating segs /\
  Forall2 (piece_spec root 60 st0) segs ["pre "; "{""a"":[""q"",true],""b"":2}"; " post "; "q"]%string.
Proof.
  cbn zeta. split; [reflexivity|]. split; [cbn; repeat split; repeat constructor; cbn; intuition discriminate|].
  split; [repeat constructor|]. split; [exact I|].
  repeat constructor; cbn [piece_spec]; eexists; eexists; split; vm_compute; reflexivity.
Qed.

(** The same for strings of arbitrary text (Proofs/ParserAny.v, TemplateAny.v): texts of any characters
    (lone dollars, backslashes, braces: JSON-like templates), escaped markers, and references whose
    paths may themselves hold references or escapes.  The string renders to the concatenation, in
    order, of the texts as they stand, of the marker texts the escapes stand for, and of the
    specified text forms of what the references render to as whole values. *)
Theorem C05_arbitrary_template_renders_to_the_concatenation_of_piece_texts :
  forall root, wf (VMap root) -> forall d f st u us texts,
    d <= MAX_REF_NESTING -> hunits_ok d (u :: us) -> has_marker (hstr (u :: us)) = true ->
    (exists t1 t2 r, coalesce (htok u, map htok us) = t1 :: t2 :: r) ->
    Forall2 (upiece_spec root f st) (u :: us) texts ->
    exists F, forall f', F <= f' ->
      interp f' root (VStr (hstr (u :: us))) st = Ok (VLit (sconcat texts), st).
Proof. exact any_template_renders_as_specified_text. Qed.
Eval cbv in "ASSUMPTIONS-OF C05_arbitrary_template_renders_to_the_concatenation_of_piece_texts"%string. Print Assumptions C05_arbitrary_template_renders_to_the_concatenation_of_piece_texts.

(** Non-vacuity: a JSON-like template with a lone dollar, backslash and braces, an escaped marker
    and a reference to a list. *)
Example C05_arbitrary_template_premises_hold :
  let root := [ mk_entry (VStr "x") (VSeq [VNum (NInt 5); VStr "${y}"]) false false;
                mk_entry (VStr "y") (VBool false) false false ] in
  let us := [HText "{" """a"": "; HRef [GLit "x" "x"]; HText "," " ""$"": ""\ }{ "; HOpen; HText "n" "ot}""}"] in
  hstr us = ("{""a"": ${x}, ""$"": ""\ }{ " ++ bs ++ "${not}""}")%string /\
  wf (VMap root) /\ hunits_ok 0 us /\ has_marker (hstr us) = true /\
  Forall2 (upiece_spec root 60 st0) us ["{""a"": "; "[5,false]"; ", ""$"": ""\ }{ "; "${"; "not}""}"]%string /\
  exists F, forall f', F <= f' ->
    interp f' root (VStr (hstr us)) st0 = Ok (VLit "{""a"": [5,false], ""$"": ""\ }{ ${not}""}", st0).
Proof.
  cbn zeta.
  set (root := [ mk_entry (VStr "x") (VSeq [VNum (NInt 5); VStr "${y}"]) false false;
                 mk_entry (VStr "y") (VBool false) false false ]).
  set (us := [HText "{" """a"": "; HRef [GLit "x" "x"]; HText "," " ""$"": ""\ }{ "; HOpen; HText "n" "ot}""}"]).
  assert (Hw : wf (VMap root)).
  { cbn; repeat split; repeat constructor; cbn; intuition discriminate. }
  assert (Hx : gwf 1 (GRef [GLit "x" "x"])).
  { cbn [gwf]. split; [discriminate | split; [exact I | constructor; [exact (plain_text_is_one_piece "x" "" (conj eq_refl I)) | constructor]]]. }
  assert (Hok : hunits_ok 0 us).
  { unfold hunits_ok, us. cbn [hunits_ok_t hok]. split; [repeat split; reflexivity|]. split; [exact Hx|].
    split; [repeat split; reflexivity|]. split; [exact I|]. split; [repeat split; reflexivity | exact I]. }
  assert (Hp : Forall2 (upiece_spec root 60 st0) us ["{""a"": "; "[5,false]"; ", ""$"": ""\ }{ "; "${"; "not}""}"]%string).
  { unfold us. repeat constructor; cbn [upiece_spec upiece]; try reflexivity. eexists. eexists. split; vm_compute; reflexivity. }
  split; [reflexivity|]. split; [exact Hw|]. split; [exact Hok|]. split; [reflexivity|]. split; [exact Hp|].
  assert (Hd : 0 <= MAX_REF_NESTING) by (unfold MAX_REF_NESTING; lia).
  assert (Hc : exists t1 t2 r, coalesce (htok (HText "{" """a"": "), map htok (tl us)) = t1 :: t2 :: r)
    by (eexists; eexists; eexists; reflexivity).
  exact (any_template_renders_as_specified_text root Hw 0 60 st0 _ _ _ Hd Hok eq_refl Hc Hp).
Qed.

(** Non-vacuity: the property's examples evaluated on the model. *)
Example C05_nonvacuous :
  let root := [ mk_entry (VStr "m") (VMap [mk_entry (VStr "b") (VNum (NInt 9007199254740993)) false false;
                                           mk_entry (VStr "a") (VSeq [VStr "${x}"; VBool true; VNull]) false false]) false false;
                mk_entry (VStr "x") (VStr "q""uote") false false;
                mk_entry (VStr "s") (VStr "pre ${m} post ${x}") false false ] in
  exists r, render_with_self 60 (VMap root) = Ok r /\
    m_get (VStr "s") (match r with VMap m => m | _ => [] end) =
      Some (VLit "pre {""a"":[""q\""uote"",true,null],""b"":9007199254740993} post q""uote").
Proof. cbn zeta. eexists. split; vm_compute; reflexivity. Qed.

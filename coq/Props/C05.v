(* C05 (placeholder while the proofs are being written) *)
From RV Require Import Model.Json Spec.TextOf.
Theorem C05_scalar_text :
  forall s, text_of (VLit s) = Some s /\ raw_string (VLit s) = Ok s.
Proof. intros; split; reflexivity. Qed.
Eval cbv in "ASSUMPTIONS-OF C05_scalar_text"%string. Print Assumptions C05_scalar_text.

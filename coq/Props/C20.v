(* C20 placeholder, replaced below *)
From RV Require Import Model.Mapping.
Theorem C20_placeholder : True. Proof. exact I. Qed.
Eval cbv in "ASSUMPTIONS-OF C20_placeholder"%string. Print Assumptions C20_placeholder.

(* C20  Configuration entry points agree and stay self-consistent.  Statements only; proofs in
   Proofs/ConfigFacts.v about Model/Config.v.  The regex engine is an oracle (compiles, matches).
   Equality of the directory fields across entry points "after normalisation" depends on the
   path algebra and is established by the correspondence run (the model's path functions are
   compared with std::path on every run), not by a theorem. *)
From RV Require Import Model.Config Proofs.ConfigFacts Proofs.ConfigPaths.

Section C20.
Variable compiles : string -> bool.
Variable matches : string -> string -> bool.

(** After any sequence of configuration calls, successful or failed, the pattern list the
    instance reports is the one it applies ... *)
Theorem C20_reported_is_applied_after_any_history :
  forall ops c, consistent c ->
    consistent (fold_left (fun c o => fst (cfg_step compiles c o)) ops c).
Proof. exact (history_consistent compiles). Qed.

(** ... so what it does with a missing class is what the reported settings say. *)
Theorem C20_behaviour_is_what_is_reported :
  forall c cls, consistent c ->
    is_class_ignored matches c cls = cf_ignore c && existsb (fun p => matches p cls) (cf_reported c).
Proof. exact (behaviour_is_reported matches). Qed.

(** Every constructor result starts consistent. *)
Theorem C20_constructor_consistent :
  forall i n cl g c, config_new i n cl g = Ok c -> consistent c.
Proof. exact config_new_consistent. Qed.

(** A failed call leaves the instance exactly as it was. *)
Theorem C20_failed_call_changes_nothing :
  forall c o, snd (cfg_step compiles c o) = false -> fst (cfg_step compiles c o) = c.
Proof. exact (failed_call_changes_nothing compiles). Qed.

(** Patterns that do not compile are rejected. *)
Theorem C20_bad_pattern_rejected :
  forall c ps, forallb compiles ps = false -> set_regexp compiles c ps = Err (EConfig "pattern does not compile").
Proof. exact (bad_pattern_rejected compiles). Qed.

(** Unknown options are ignored. *)
Theorem C20_unknown_option_ignored :
  forall c p k v, known_key k = false -> set_option c p k v = Ok c.
Proof. exact unknown_option_ignored. Qed.

(** Flags and lists of the wrong type are rejected. *)
Theorem C20_wrong_type_rejected :
  forall c p,
  (forall v, (forall b, v <> YBool b) -> exists e, set_option c p "ignore_class_notfound" v = Err e) /\
  (forall v, (forall b, v <> YBool b) -> exists e, set_option c p "compose_node_name" v = Err e) /\
  (forall v, (forall l, v <> YSeq l) -> exists e, set_option c p "ignore_class_notfound_regexp" v = Err e) /\
  (forall l, all_strings l = None -> exists e, set_option c p "ignore_class_notfound_regexp" (YSeq l) = Err e) /\
  (forall v, (forall l, v <> YSeq l) -> exists e, set_option c p "reclass_rs_compat_flags" v = Err e) /\
  (forall l, all_strings l = None -> exists e, set_option c p "reclass_rs_compat_flags" (YSeq l) = Err e).
Proof. exact wrong_type_rejected. Qed.

(** The same options as a config file and as a dict: both accept or both reject, and all flags,
    pattern lists and compatibility flags agree. *)
Theorem C20_file_and_dict_agree :
  forall inv file es c0, config_new (Some inv) None None None = Ok c0 ->
    match load_from_file compiles c0 file es, from_dict compiles inv es with
    | Ok a, Ok b => same_settings a b
    | Err _, Err _ => True
    | _, _ => False
    end.
Proof. exact (file_and_dict_agree compiles). Qed.

End C20.

Eval cbv in "ASSUMPTIONS-OF C20_reported_is_applied_after_any_history"%string. Print Assumptions C20_reported_is_applied_after_any_history.
Eval cbv in "ASSUMPTIONS-OF C20_behaviour_is_what_is_reported"%string. Print Assumptions C20_behaviour_is_what_is_reported.
Eval cbv in "ASSUMPTIONS-OF C20_constructor_consistent"%string. Print Assumptions C20_constructor_consistent.
Eval cbv in "ASSUMPTIONS-OF C20_failed_call_changes_nothing"%string. Print Assumptions C20_failed_call_changes_nothing.
Eval cbv in "ASSUMPTIONS-OF C20_bad_pattern_rejected"%string. Print Assumptions C20_bad_pattern_rejected.
Eval cbv in "ASSUMPTIONS-OF C20_unknown_option_ignored"%string. Print Assumptions C20_unknown_option_ignored.
Eval cbv in "ASSUMPTIONS-OF C20_wrong_type_rejected"%string. Print Assumptions C20_wrong_type_rejected.
Eval cbv in "ASSUMPTIONS-OF C20_file_and_dict_agree"%string. Print Assumptions C20_file_and_dict_agree.

(** Absolute nodes / classes directories are taken as they stand by every entry point (the option
    setter behind config file and dict stores them unchanged, the constructor their lexical normal
    form): the inventory path plays no part (Proofs/ConfigPaths.v). *)
Theorem C20_absolute_directories_are_kept :
  forall d, is_abs d = true ->
    (forall c p, set_option c p "nodes_uri" (YStr d) = Ok (upd_nodes c d)) /\
    (forall c p, set_option c p "classes_uri" (YStr d) = Ok (upd_classes c d)) /\
    (forall i cl g c, config_new i (Some d) cl g = Ok c -> cf_nodes c = to_lexical_normal d true) /\
    (forall i n g c, config_new i n (Some d) g = Ok c -> cf_classes c = to_lexical_normal d true).
Proof. exact absolute_directories_are_kept. Qed.
Eval cbv in "ASSUMPTIONS-OF C20_absolute_directories_are_kept"%string. Print Assumptions C20_absolute_directories_are_kept.

Example C20_absolute_directory_nonvacuous :
  exists c, config_new (Some "inv") (Some "/srv/n") None None = Ok c /\ cf_nodes c = "/srv/n"%string /\ cf_classes c = "inv/classes"%string.
Proof. eexists. split; [reflexivity | split; reflexivity]. Qed.

(** Non-vacuity: a history with a failing setter call keeps reported = applied. *)
Example C20_nonvacuous :
  let compiles := fun p => negb (String.eqb p "(") in
  exists c0, config_new (Some "inv") None None (Some true) = Ok c0 /\
    let c := fold_left (fun c o => fst (cfg_step compiles c o)) [OSetRegexp ["^a"]; OSetRegexp ["("]; OSetIgnore true] c0 in
    cf_reported c = ["^a"] /\ cf_compiled c = ["^a"].
Proof. eexists. split; [reflexivity|]. split; reflexivity. Qed.

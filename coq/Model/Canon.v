(* Canonical text formats shared by the model runner and the Rust harness: hex coding,
   case parsing (prefix notation), observation printing.  This file is glue for the
   correspondence check, not a model of any part of reclass-rs. *)
From RV Require Export Model.Yaml Model.Interp.

(** * Hex *)
Definition hex_of_nibble (n : N) : ascii := hex_digit n.
Definition hex_of_ascii (c : ascii) : string :=
  let n := N_of_ascii c in
  String (hex_of_nibble (N.div n 16)) (String (hex_of_nibble (N.modulo n 16)) "").
Fixpoint hex (s : string) : string :=
  match s with
  | EmptyString => ""
  | String c s' => (hex_of_ascii c ++ hex s')%string
  end.

Definition nibble_of_hex (c : ascii) : option N :=
  let n := N_of_ascii c in
  if N.leb 48 n && N.leb n 57 then Some (n - 48)%N
  else if N.leb 97 n && N.leb n 102 then Some (n - 87)%N
  else None.
Fixpoint unhex (s : string) : option string :=
  match s with
  | EmptyString => Some ""
  | String a (String b s') =>
      match nibble_of_hex a, nibble_of_hex b, unhex s' with
      | Some x, Some y, Some r => Some (String (ascii_of_N (16 * x + y)) r)
      | _, _, _ => None
      end
  | _ => None
  end.

Definition words (s : string) : list string :=
  filter (fun w => negb (String.eqb w "")) (split_on " " s).

Definition nat_of_string (s : string) : option nat :=
  option_map Z.to_nat (Z_of_string s).

(** * Case parsing *)
Definition fkind_of (s : string) : option fkind :=
  if String.eqb s "f" then Some FFinite else if String.eqb s "n" then Some FNan
  else if String.eqb s "p" then Some FPosInf else if String.eqb s "m" then Some FNegInf else None.

Definition parse_float (body : string) : option num :=
  match split_on ":" body with
  | [k; hy; hj] =>
      match fkind_of k, unhex hy, unhex hj with
      | Some k, Some y, Some j => Some (NFloat {| fk := k; f_yaml := y; f_json := j |})
      | _, _, _ => None
      end
  | _ => None
  end.

Fixpoint p_yaml_raw (f : nat) (ts : list string) {struct f} : option (yaml * list string) :=
  match f with
  | 0 => None
  | S f' =>
      match ts with
      | [] => None
      | EmptyString :: _ => None
      | String c body :: ts' =>
          if Ascii.eqb c "N" then Some (YNull, ts')
          else if Ascii.eqb c "T" then Some (YBool true, ts')
          else if Ascii.eqb c "F" then Some (YBool false, ts')
          else if Ascii.eqb c "I" then option_map (fun z => (YNum (NInt z), ts')) (Z_of_string body)
          else if Ascii.eqb c "D" then option_map (fun n => (YNum n, ts')) (parse_float body)
          else if Ascii.eqb c "S" then option_map (fun s => (YStr s, ts')) (unhex body)
          else if Ascii.eqb c "L" then
            match nat_of_string body with
            | None => None
            | Some n =>
                (fix go (n : nat) (ts : list string) (acc : list yaml) : option (yaml * list string) :=
                   match n with
                   | 0 => Some (YSeq (rev acc), ts)
                   | S n' => match p_yaml_raw f' ts with
                             | Some (y, ts1) => go n' ts1 (y :: acc)
                             | None => None
                             end
                   end) n ts' []
            end
          else if Ascii.eqb c "M" then
            match nat_of_string body with
            | None => None
            | Some n =>
                (fix go (n : nat) (ts : list string) (acc : list (yaml * yaml)) : option (yaml * list string) :=
                   match n with
                   | 0 => Some (YMap (rev acc), ts)
                   | S n' => match p_yaml_raw f' ts with
                             | Some (k, ts1) =>
                                 match p_yaml_raw f' ts1 with
                                 | Some (v, ts2) => go n' ts2 ((k, v) :: acc)
                                 | None => None
                                 end
                             | None => None
                             end
                   end) n ts' []
            end
          else if Ascii.eqb c "G" then
            match unhex body, p_yaml_raw f' ts' with
            | Some tg, Some (y, ts1) => Some (YTagged tg y, ts1)
            | _, _ => None
            end
          else None
      end
  end.


(** Rust compares mappings without regard to the order of their entries (IndexMap equality), so two
    mapping-valued *keys* that differ only in the order of their entries are one key.  The model's key
    equality is structural; the order inside mapping-valued keys is therefore normalised where the
    input is read (and where observations are printed, [canon_key]). *)
Fixpoint insert_by {A} (leb : A -> A -> bool) (x : A) (l : list A) : list A :=
  match l with [] => [x] | y :: l' => if leb x y then x :: l else y :: insert_by leb x l' end.
Definition sort_by {A} (leb : A -> A -> bool) (l : list A) : list A := fold_right (insert_by leb) [] l.

Fixpoint yaml_text (y : yaml) : string :=
  match y with
  | YNull => "N"
  | YBool true => "T"
  | YBool false => "F"
  | YNum (NInt z) => ("I" ++ Z_to_string z)%string
  | YNum (NFloat f) => ("D" ++ hex (f_yaml f))%string
  | YStr s => ("S" ++ hex s)%string
  | YSeq l =>
      (("L" ++ nat_to_string (List.length l)) ++
       (fix go (l : list yaml) : string := match l with [] => "" | x :: xs => (" " ++ yaml_text x ++ go xs)%string end) l)%string
  | YMap l =>
      (("M" ++ nat_to_string (List.length l)) ++
       (fix go (l : list (yaml * yaml)) : string :=
          match l with [] => "" | (k, v) :: xs => (" " ++ yaml_text k ++ " " ++ yaml_text v ++ go xs)%string end) l)%string
  | YTagged t y' => ("G" ++ hex t ++ " " ++ yaml_text y')%string
  end.

Fixpoint norm_in_key (y : yaml) : yaml :=
  match y with
  | YSeq l => YSeq ((fix go (l : list yaml) : list yaml := match l with [] => [] | x :: r => norm_in_key x :: go r end) l)
  | YMap l =>
      YMap (sort_by (fun a b => String.leb (yaml_text (fst a)) (yaml_text (fst b)))
              ((fix go (l : list (yaml * yaml)) : list (yaml * yaml) :=
                  match l with [] => [] | (k, v) :: r => (norm_in_key k, norm_in_key v) :: go r end) l))
  | YTagged t y' => YTagged t (norm_in_key y')
  | _ => y
  end.

Fixpoint norm_yaml (y : yaml) : yaml :=
  match y with
  | YSeq l => YSeq ((fix go (l : list yaml) : list yaml := match l with [] => [] | x :: r => norm_yaml x :: go r end) l)
  | YMap l =>
      YMap ((fix go (l : list (yaml * yaml)) : list (yaml * yaml) :=
               match l with [] => [] | (k, v) :: r => (norm_in_key k, norm_yaml v) :: go r end) l)
  | YTagged t y' => YTagged t (norm_yaml y')
  | _ => y
  end.

Definition p_yaml (f : nat) (ts : list string) : option (yaml * list string) :=
  match p_yaml_raw f ts with Some (y, r) => Some (norm_yaml y, r) | None => None end.

(** [n] yaml values in sequence *)
Fixpoint p_yamls (n : nat) (ts : list string) : option (list yaml * list string) :=
  match n with
  | 0 => Some ([], ts)
  | S n' =>
      match p_yaml (S (List.length ts)) ts with
      | Some (y, ts1) => match p_yamls n' ts1 with
                         | Some (ys, ts2) => Some (y :: ys, ts2)
                         | None => None
                         end
      | None => None
      end
  end.

Fixpoint p_strs (n : nat) (ts : list string) : option (list string * list string) :=
  match n with
  | 0 => Some ([], ts)
  | S n' =>
      match ts with
      | String "S" h :: ts1 =>
          match unhex h, p_strs n' ts1 with
          | Some s, Some (ss, ts2) => Some (s :: ss, ts2)
          | _, _ => None
          end
      | _ => None
      end
  end.

(** * Observation printing *)
Definition sp (a b : string) : string := (a ++ " " ++ b)%string.

(** a value in key position: entries of mappings in sorted order of their printed form *)
Fixpoint canon_key (flags : bool) (v : value) {struct v} : string :=
  match v with
  | VNull => "N"
  | VBool true => "T"
  | VBool false => "F"
  | VNum (NInt z) => ("I" ++ Z_to_string z)%string
  | VNum (NFloat f) => ("D" ++ hex (f_yaml f))%string
  | VStr s => ("S" ++ hex s)%string
  | VLit s => ("Q" ++ hex s)%string
  | VSeq l =>
      (("L" ++ nat_to_string (List.length l)) ++
       (fix go (l : list value) : string :=
          match l with [] => "" | x :: xs => (" " ++ canon_key flags x ++ go xs)%string end) l)%string
  | VList l =>
      (("V" ++ nat_to_string (List.length l)) ++
       (fix go (l : list value) : string :=
          match l with [] => "" | x :: xs => (" " ++ canon_key flags x ++ go xs)%string end) l)%string
  | VMap es =>
      (("M" ++ nat_to_string (List.length es)) ++
       concat_str (sort_by String.leb
         ((fix go (es : list entry) : list string :=
             match es with
             | [] => []
             | (k, x, c, o) :: es' =>
                 (" " ++ canon_key flags k ++ " " ++ canon_key flags x ++
                  (if flags then (if c then " c" else " -") ++ (if o then "o" else "-") else ""))%string :: go es'
             end) es)))%string
  end.

Fixpoint canon (flags : bool) (v : value) {struct v} : string :=
  match v with
  | VNull => "N"
  | VBool true => "T"
  | VBool false => "F"
  | VNum (NInt z) => ("I" ++ Z_to_string z)%string
  | VNum (NFloat f) => ("D" ++ hex (f_yaml f))%string
  | VStr s => ("S" ++ hex s)%string
  | VLit s => ("Q" ++ hex s)%string
  | VSeq l =>
      (("L" ++ nat_to_string (List.length l)) ++
       (fix go (l : list value) : string :=
          match l with [] => "" | x :: xs => (" " ++ canon flags x ++ go xs)%string end) l)%string
  | VList l =>
      (("V" ++ nat_to_string (List.length l)) ++
       (fix go (l : list value) : string :=
          match l with [] => "" | x :: xs => (" " ++ canon flags x ++ go xs)%string end) l)%string
  | VMap es =>
      (("M" ++ nat_to_string (List.length es)) ++
       (fix go (es : list entry) : string :=
          match es with
          | [] => ""
          | (k, x, c, o) :: es' =>
              (" " ++ canon_key flags k ++ " " ++ canon flags x ++
               (if flags then (if c then " c" else " -") ++ (if o then "o" else "-") else "") ++
               go es')%string
          end) es)%string
  end.

Definition site_name (s : site) : string :=
  match s with
  | PMergeString => "MergeString" | PMergeValueList => "MergeValueList"
  | PJsonValueList => "JsonValueList" | PJsonKey => "JsonKey" | PJsonNumber => "JsonNumber"
  | PPushKey => "PushKey" | PResolveLookup => "ResolveLookup" | PParseTrailing => "ParseTrailing"
  | PCoalesceEmpty => "CoalesceEmpty" | PYamlTagged => "YamlTagged"
  | PMappingFromUnwrap => "MappingFromUnwrap" | PPyValueList => "PyValueList"
  | PMergeKeysUnwrap => "MergeKeysUnwrap" | PStackOverflow => "StackOverflow"
  end.

Definition hx (s : string) : string := ("S" ++ hex s)%string.
Fixpoint hxs (l : list string) : string :=
  match l with [] => "" | x :: xs => (" " ++ hx x ++ hxs xs)%string end.

Fixpoint canon_err (e : err) : string :=
  match e with
  | EConst k => sp "EConst" (canon_key false k)
  | EMerge p s t => ("EMerge " ++ hx p ++ " " ++ hx s ++ " " ++ hx t)%string
  | EFlattenString p => sp "EFlattenString" (hx p)
  | EParse t => sp "EParse" (hx t)
  | ELoop ps => ("ELoop" ++ hxs ps)%string
  | EDepth p ps => ("EDepth " ++ hx p ++ hxs ps)%string
  | EMissingKey p k pa => ("EMissingKey " ++ hx p ++ " " ++ hx k ++ " " ++ hx pa)%string
  | ELookupSeq p k pa => ("ELookupSeq " ++ hx p ++ " " ++ hx k ++ " " ++ hx pa)%string
  | ELookupKind p k pa tr kd =>
      ("ELookupKind " ++ hx p ++ " " ++ hx k ++ " " ++ hx pa ++ " " ++ hx tr ++ " " ++ hx kd)%string
  | ERawString k => sp "ERawString" (hx k)
  | EKeyValueList => "EKeyValueList"
  | EJsonKey k => sp "EJsonKey" (hx k)
  | EJsonValueList => "EJsonValueList"
  | ETagged t => sp "ETagged" (hx t)
  | ERenderNonMapping k => sp "ERenderNonMapping" (hx k)
  | EResolving e => sp "EResolving" (canon_err e)
  | EClassNotFound c => sp "EClassNotFound" (hx c)
  | EIncludeLoop ch c => ("EIncludeLoop " ++ hx c ++ hxs ch)%string
  | EUnknownNode n => sp "EUnknownNode" (hx n)
  | EClassPath m => sp "EClassPath" (hx m)
  | EDeserialize c e => ("EDeserialize " ++ hx c ++ " " ++ canon_err e)%string
  | EYamlShape w => sp "EYamlShape" (hx w)
  | EMetaParts => "EMetaParts"
  | EDuplicate k n p1 p2 => ("EDuplicate " ++ hx k ++ " " ++ hx n ++ " " ++ hx p1 ++ " " ++ hx p2)%string
  | ENodeFailed n e => ("ENodeFailed " ++ hx n ++ " " ++ canon_err e)%string
  | EConfig w => sp "EConfig" (hx w)
  | EOther m => sp "EOther" (hx m)
  end.

Definition canon_res {A} (pr : A -> string) (r : res A) : string :=
  match r with
  | Ok a => sp "ok" (pr a)
  | Err e => sp "err" (canon_err e)
  | Panic s => sp "panic" (site_name s)
  | OutOfFuel => "fuel"
  end.

Fixpoint canon_token (t : token) {struct t} : string :=
  match t with
  | TLit s => ("l" ++ hex s)%string
  | TRef ts =>
      (("r" ++ nat_to_string (List.length ts)) ++
       (fix go (l : list token) : string :=
          match l with [] => "" | x :: xs => (" " ++ canon_token x ++ go xs)%string end) ts)%string
  | TComb ts =>
      (("c" ++ nat_to_string (List.length ts)) ++
       (fix go (l : list token) : string :=
          match l with [] => "" | x :: xs => (" " ++ canon_token x ++ go xs)%string end) ts)%string
  end.

(* Model of the conversion to Python objects: Value::as_py_obj, Mapping::as_py_dict
   (src/types/value.rs, src/types/mapping.rs) over a small Python object algebra with
   Python's dict semantics (key equality True == 1, False == 0; lists and dicts unhashable). *)
From RV Require Export Model.Mapping.

Inductive pyobj :=
| PyNone
| PyBool (b : bool)
| PyInt (z : Z)
| PyFloat (f : ftoken)
| PyStr (s : string)
| PyList (l : list pyobj)
| PyDict (es : list (pyobj * pyobj)).

(** integer value of a hashable numeric key: bool is a subclass of int *)
Definition py_int_of (o : pyobj) : option Z :=
  match o with
  | PyBool true => Some 1%Z
  | PyBool false => Some 0%Z
  | PyInt z => Some z
  | _ => None
  end.

(** Python's == on hashable objects (floats: equal only as the same token; a float key that is
    numerically an integer would also equal that integer: outside the model, see DESIGN) *)
Definition py_key_eqb (a b : pyobj) : bool :=
  match py_int_of a, py_int_of b with
  | Some x, Some y => Z.eqb x y
  | _, _ =>
      match a, b with
      | PyNone, PyNone => true
      | PyStr x, PyStr y => String.eqb x y
      | PyFloat x, PyFloat y =>
          match fk x with FNan => false | _ => ftoken_eqb x y end
      | _, _ => false
      end
  end.

Definition py_hashable (o : pyobj) : bool :=
  match o with PyList _ | PyDict _ => false | _ => true end.

(** dict.__setitem__: an equal key keeps its original key object and position *)
Fixpoint py_set_item (d : list (pyobj * pyobj)) (k v : pyobj) : list (pyobj * pyobj) :=
  match d with
  | [] => [(k, v)]
  | (k', v') :: d' => if py_key_eqb k' k then (k', v) :: d' else (k', v') :: py_set_item d' k v
  end.

Inductive pyres (A : Type) := PyOk (a : A) | PyTypeError | PyPanic.
Arguments PyOk {A} a.
Arguments PyTypeError {A}.
Arguments PyPanic {A}.

Definition pybind {A B} (r : pyres A) (f : A -> pyres B) : pyres B :=
  match r with PyOk a => f a | PyTypeError => PyTypeError | PyPanic => PyPanic end.

Fixpoint as_py_obj (v : value) {struct v} : pyres pyobj :=
  match v with
  | VLit s | VStr s => PyOk (PyStr s)
  | VBool b => PyOk (PyBool b)
  | VNum (NInt z) => PyOk (PyInt z)
  | VNum (NFloat f) => PyOk (PyFloat f)
  | VNull => PyOk PyNone
  | VSeq l =>
      pybind ((fix go (l : list value) : pyres (list pyobj) :=
                 match l with
                 | [] => PyOk []
                 | x :: xs => pybind (as_py_obj x) (fun y => pybind (go xs) (fun ys => PyOk (y :: ys)))
                 end) l) (fun l' => PyOk (PyList l'))
  | VMap es =>
      pybind ((fix go (es : list entry) (acc : list (pyobj * pyobj)) : pyres (list (pyobj * pyobj)) :=
                 match es with
                 | [] => PyOk acc
                 | (k, x, _, _) :: es' =>
                     pybind (as_py_obj k) (fun pk =>
                     pybind (as_py_obj x) (fun pv =>
                     if py_hashable pk then go es' (py_set_item acc pk pv) else PyTypeError))
                 end) es []) (fun d => PyOk (PyDict d))
  | VList _ => PyPanic          (* unreachable!(): ValueList should never get emitted to Python *)
  end.

(* Model of src/config.rs (Config::new, set_option, load_from_file, from_dict, the pattern
   setter, is_class_ignored) and the compat-flag setters of src/lib.rs, plus the path
   handling they rely on (std::path push / components / with_file_name and
   fsutil::to_lexical_normal) for '/'-separated paths.  The regex engine is an oracle:
   [compiles p] and [matches p name] are supplied per case. *)
From RV Require Export Model.Yaml Model.Names.

(** * Paths *)
Inductive comp := CRoot | CCur | CParent | CNormal (s : string).

Definition comp_eqb (a b : comp) : bool :=
  match a, b with
  | CRoot, CRoot | CCur, CCur | CParent, CParent => true
  | CNormal x, CNormal y => String.eqb x y
  | _, _ => false
  end.

Definition is_abs (s : string) : bool := match s with String "/" _ => true | _ => false end.

(** Path::components *)
Definition components (s : string) : list comp :=
  let segs := split_on "/" s in
  let body :=
    (fix go (l : list string) (first : bool) : list comp :=
       match l with
       | [] => []
       | x :: l' =>
           if String.eqb x "" then go l' first
           else if String.eqb x "." then (if first then CCur :: go l' false else go l' false)
           else if String.eqb x ".." then CParent :: go l' false
           else CNormal x :: go l' false
       end) in
  if is_abs s then CRoot :: body segs false else body segs true.

(** PathBuf::push on strings *)
Fixpoint ends_with_slash (s : string) : bool :=
  match s with
  | EmptyString => false
  | String c EmptyString => Ascii.eqb c "/"
  | String _ s' => ends_with_slash s'
  end.

Definition path_push (base p : string) : string :=
  if is_abs p then p
  else if String.eqb base "" then p
  else if ends_with_slash base then (base ++ p)%string
  else (base ++ "/" ++ p)%string.

(** A PathBuf built by pushing clean components, as a component list *)
Definition cpop (l : list comp) : list comp :=
  match rev l with
  | [] => []
  | CRoot :: _ => l
  | _ :: r => rev r
  end.

Definition comp_text (c : comp) : string :=
  match c with CRoot => "/" | CCur => "." | CParent => ".." | CNormal s => s end.

Definition print_comps (l : list comp) : string :=
  match l with
  | CRoot :: rest => ("/" ++ join "/" (map comp_text rest))%string
  | _ => join "/" (map comp_text l)
  end.

(** fsutil::to_lexical_normal p preserve_prefix_cur *)
Definition to_lexical_normal (s : string) (preserve : bool) : string :=
  let comps := components s in
  print_comps
    ((fix go (l : list comp) (i : nat) (norm : list comp) : list comp :=
        match l with
        | [] => norm
        | c :: l' =>
            match c with
            | CCur => go l' (S i) (if Nat.eqb i 0 && preserve then norm ++ [CCur] else norm)
            | CParent => go l' (S i) (cpop norm)
            | _ => go l' (S i) (norm ++ [c])
            end
        end) comps 0 []).

Fixpoint comps_prefix (a b : list comp) : bool :=
  match a, b with
  | [], _ => true
  | x :: a', y :: b' => comp_eqb x y && comps_prefix a' b'
  | _, [] => false
  end.

(** Path::with_file_name on strings: parent (as a slice of the original text) then push *)
Fixpoint strip_trailing_slashes (fuel : nat) (s : string) : string :=
  match fuel with
  | 0 => s
  | S f =>
      if String.eqb s "/" then s
      else match rev (list_ascii_of_string s) with
           | c :: r => if Ascii.eqb c "/" then strip_trailing_slashes f (string_of_list_ascii (rev r)) else s
           | [] => s
           end
  end.

Definition last_is_normal (s : string) : bool :=
  match rev (components s) with CNormal _ :: _ => true | _ => false end.

Fixpoint drop_last_segment (l : list ascii) : list ascii :=   (* on the reversed text *)
  match l with
  | [] => []
  | c :: l' => if Ascii.eqb c "/" then l else drop_last_segment l'
  end.

Definition parent_text (s : string) : string :=
  let s1 := strip_trailing_slashes (String.length s) s in
  let cut := string_of_list_ascii (rev (drop_last_segment (rev (list_ascii_of_string s1)))) in
  strip_trailing_slashes (String.length cut) cut.

Definition with_file_name (path name : string) : string :=
  if last_is_normal path then path_push (parent_text path) name else path_push path name.

(** * Config *)
Record config := {
  cf_inv : string;
  cf_nodes : string;
  cf_classes : string;
  cf_ignore : bool;
  cf_compose : bool;
  cf_reported : list string;      (* ignore_class_notfound_regexp as reported *)
  cf_compiled : list string;      (* pattern list the compiled RegexSet was built from *)
  cf_dots : bool                  (* compatflags contains ComposeNodeNameLiteralDots *)
}.

Section WithRegex.
Variable compiles : string -> bool.
Variable matches : string -> string -> bool.

Definition opt_default (o : option string) (d : string) : string :=
  match o with Some s => s | None => d end.

Definition config_new (inv nodes classes : option string) (ign : option bool) : res config :=
  match inv, nodes with
  | None, None => Err (EConfig "One of inventory path and nodes path must be provided.")
  | _, _ =>
      match inv, classes with
      | None, None => Err (EConfig "One of inventory path and classes path must be provided.")
      | _, _ =>
          let i := opt_default inv "." in
          let npath := path_push i (opt_default nodes "nodes") in
          let cpath := path_push i (opt_default classes "classes") in
          let nc := components npath in
          let cc := components cpath in
          if comps_prefix nc cc || comps_prefix cc nc
          then Err (EConfig "Nodes and classes path must be non-overlapping.")
          else Ok {| cf_inv := i;
                     cf_nodes := to_lexical_normal npath true;
                     cf_classes := to_lexical_normal cpath true;
                     cf_ignore := match ign with Some b => b | None => false end;
                     cf_compose := false;
                     cf_reported := [".*"]; cf_compiled := [".*"];
                     cf_dots := false |}
      end
  end.

(** text of an option value used for paths: strings as written; other scalars as serde_yaml
    prints them *)
Definition value_text (v : yaml) : option string :=
  match v with
  | YStr s => Some s
  | YNum n => Some (num_display n)
  | YBool true => Some "true"
  | YBool false => Some "false"
  | YNull => Some "null"
  | _ => None
  end.

Definition is_flag_name (s : string) : bool :=
  String.eqb s "compose-node-name-literal-dots" || String.eqb s "compose_node_name_literal_dots"
  || String.eqb s "ComposeNodeNameLiteralDots".

Definition upd_nodes c v := {| cf_inv := cf_inv c; cf_nodes := v; cf_classes := cf_classes c; cf_ignore := cf_ignore c;
  cf_compose := cf_compose c; cf_reported := cf_reported c; cf_compiled := cf_compiled c; cf_dots := cf_dots c |}.
Definition upd_classes c v := {| cf_inv := cf_inv c; cf_nodes := cf_nodes c; cf_classes := v; cf_ignore := cf_ignore c;
  cf_compose := cf_compose c; cf_reported := cf_reported c; cf_compiled := cf_compiled c; cf_dots := cf_dots c |}.
Definition upd_ignore c v := {| cf_inv := cf_inv c; cf_nodes := cf_nodes c; cf_classes := cf_classes c; cf_ignore := v;
  cf_compose := cf_compose c; cf_reported := cf_reported c; cf_compiled := cf_compiled c; cf_dots := cf_dots c |}.
Definition upd_compose c v := {| cf_inv := cf_inv c; cf_nodes := cf_nodes c; cf_classes := cf_classes c; cf_ignore := cf_ignore c;
  cf_compose := v; cf_reported := cf_reported c; cf_compiled := cf_compiled c; cf_dots := cf_dots c |}.
Definition upd_reported c v := {| cf_inv := cf_inv c; cf_nodes := cf_nodes c; cf_classes := cf_classes c; cf_ignore := cf_ignore c;
  cf_compose := cf_compose c; cf_reported := v; cf_compiled := cf_compiled c; cf_dots := cf_dots c |}.
Definition upd_compiled c v := {| cf_inv := cf_inv c; cf_nodes := cf_nodes c; cf_classes := cf_classes c; cf_ignore := cf_ignore c;
  cf_compose := cf_compose c; cf_reported := cf_reported c; cf_compiled := v; cf_dots := cf_dots c |}.
Definition upd_dots c v := {| cf_inv := cf_inv c; cf_nodes := cf_nodes c; cf_classes := cf_classes c; cf_ignore := cf_ignore c;
  cf_compose := cf_compose c; cf_reported := cf_reported c; cf_compiled := cf_compiled c; cf_dots := v |}.

Fixpoint all_strings (l : list yaml) : option (list string) :=
  match l with
  | [] => Some []
  | YStr s :: l' => option_map (cons s) (all_strings l')
  | _ => None
  end.

(** Config::set_option.  [cfg_path] is the path of the (real or pretended) config file. *)
Definition set_option (c : config) (cfg_path k : string) (v : yaml) : res config :=
  if String.eqb k "nodes_uri" then
    match value_text v with
    | Some t => Ok (upd_nodes c (with_file_name cfg_path t))
    | None => Err (EConfig "nodes_uri")
    end
  else if String.eqb k "classes_uri" then
    match value_text v with
    | Some t => Ok (upd_classes c (with_file_name cfg_path t))
    | None => Err (EConfig "classes_uri")
    end
  else if String.eqb k "ignore_class_notfound" then
    match v with YBool b => Ok (upd_ignore c b) | _ => Err (EConfig "ignore_class_notfound") end
  else if String.eqb k "ignore_class_notfound_regexp" then
    match v with
    | YSeq l =>
        match all_strings l with
        | Some ps => Ok (upd_reported c ps)
        | None => Err (EConfig "ignore_class_notfound_regexp entry")
        end
    | _ => Err (EConfig "ignore_class_notfound_regexp")
    end
  else if String.eqb k "compose_node_name" then
    match v with YBool b => Ok (upd_compose c b) | _ => Err (EConfig "compose_node_name") end
  else if String.eqb k "reclass_rs_compat_flags" then
    match v with
    | YSeq l =>
        match all_strings l with
        | Some fs => Ok (if existsb is_flag_name fs then upd_dots c true else c)
        | None => Err (EConfig "compat flag entry")
        end
    | _ => Err (EConfig "reclass_rs_compat_flags")
    end
  else Ok c.    (* unknown options are ignored *)

Definition compile (c : config) : res config :=
  if forallb compiles (cf_reported c) then Ok (upd_compiled c (cf_reported c))
  else Err (EConfig "pattern does not compile").

Fixpoint set_options (c : config) (cfg_path : string) (es : list (string * yaml)) : res config :=
  match es with
  | [] => Ok c
  | (k, v) :: es' => c' <- set_option c cfg_path k v ;; set_options c' cfg_path es'
  end.

(** Config::load_from_file on a live config: all options are applied to a copy which replaces
    the configuration only if every option and the pattern compilation succeed. *)
Definition load_from_file (c : config) (file : string) (es : list (string * yaml)) : res config :=
  c' <- set_options c (path_push (cf_inv c) file) es ;;
  compile c'.

(** Config::from_dict *)
Definition from_dict (inv : string) (es : list (string * yaml)) : res config :=
  c <- config_new (Some inv) None None None ;;
  c' <- set_options c (path_push inv "dummy") es ;;
  compile c'.

(** Config::set_ignore_class_notfound_regexp *)
Definition set_regexp (c : config) (ps : list string) : res config :=
  compile (upd_reported c ps).

Definition is_class_ignored (c : config) (cls : string) : bool :=
  cf_ignore c && existsb (fun p => matches p cls) (cf_compiled c).

(** * Histories of configuration calls on one instance *)
Inductive cop :=
| ONew (inv nodes classes : option string) (ign : option bool)
| OLoad (file : string) (es : list (string * yaml))
| ODict (inv : string) (es : list (string * yaml))
| OSetRegexp (ps : list string)
| OSetIgnore (b : bool)
| OSetCompose (b : bool)
| OSetFlag | OUnsetFlag | OClearFlags.

(** A failed call leaves the instance unchanged. *)
Definition cfg_step (c : config) (o : cop) : config * bool :=
  let keep (r : res config) := match r with Ok c' => (c', true) | _ => (c, false) end in
  match o with
  | ONew i n cl g => keep (config_new i n cl g)
  | OLoad f es => keep (load_from_file c f es)
  | ODict i es => keep (from_dict i es)
  | OSetRegexp ps => keep (set_regexp c ps)
  | OSetIgnore b => (upd_ignore c b, true)
  | OSetCompose b => (upd_compose c b, true)
  | OSetFlag => (upd_dots c true, true)
  | OUnsetFlag | OClearFlags => (upd_dots c false, true)
  end.

End WithRegex.

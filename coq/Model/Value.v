(* Model of src/types/value.rs + src/types/mod.rs: the Value type, results, errors. *)
From Coq Require Export List String Ascii ZArith Bool Lia.
From Coq Require Import DecimalString.
Export ListNotations.
Open Scope string_scope.
Open Scope list_scope.

(** * Numbers.  serde_yaml::Number is PosInt(u64) | NegInt(i64) | Float(f64).
    Integers are [Z] (range is a well-formedness predicate, never computed on).
    Floats are opaque tokens carrying the texts the real libraries print for them. *)
Inductive fkind := FFinite | FNan | FPosInf | FNegInf.
Record ftoken := { fk : fkind; f_yaml : string; f_json : string }.
Inductive num := NInt (z : Z) | NFloat (f : ftoken).

Definition fkind_eqb (a b : fkind) : bool :=
  match a, b with
  | FFinite, FFinite | FNan, FNan | FPosInf, FPosInf | FNegInf, FNegInf => true
  | _, _ => false
  end.

Definition ftoken_eqb (a b : ftoken) : bool :=
  fkind_eqb (fk a) (fk b) && String.eqb (f_yaml a) (f_yaml b) && String.eqb (f_json a) (f_json b).

Definition num_eqb (a b : num) : bool :=
  match a, b with
  | NInt x, NInt y => Z.eqb x y
  | NFloat x, NFloat y => ftoken_eqb x y
  | _, _ => false
  end.

(** * Values.  Mapping entries carry their const / override flag (DESIGN A.2). *)
Inductive value :=
| VNull
| VBool (b : bool)
| VStr (s : string)          (* Value::String: raw text, may hold references *)
| VLit (s : string)          (* Value::Literal *)
| VNum (n : num)
| VMap (es : list (value * value * bool * bool))
| VSeq (vs : list value)
| VList (vs : list value).   (* Value::ValueList: stack of layers *)

Definition entry := (value * value * bool * bool)%type.
Definition mapping := list entry.
Definition mk_entry (k v : value) (c o : bool) : entry := (k, v, c, o).
Definition e_key (e : entry) : value := fst (fst (fst e)).
Definition e_val (e : entry) : value := snd (fst (fst e)).
Definition e_const (e : entry) : bool := snd (fst e).
Definition e_over (e : entry) : bool := snd e.

(** Structural boolean equality (reflects Leibniz equality, see Proofs/ValueFacts.v). *)
Fixpoint value_eqb (a b : value) {struct a} : bool :=
  match a, b with
  | VNull, VNull => true
  | VBool x, VBool y => Bool.eqb x y
  | VStr x, VStr y => String.eqb x y
  | VLit x, VLit y => String.eqb x y
  | VNum x, VNum y => num_eqb x y
  | VMap xs, VMap ys =>
      (fix go (xs ys : list entry) {struct xs} : bool :=
         match xs, ys with
         | [], [] => true
         | (k, v, c, o) :: xs', (k', v', c', o') :: ys' =>
             value_eqb k k' && value_eqb v v' && Bool.eqb c c' && Bool.eqb o o' && go xs' ys'
         | _, _ => false
         end) xs ys
  | VSeq xs, VSeq ys | VList xs, VList ys =>
      (fix go (xs ys : list value) {struct xs} : bool :=
         match xs, ys with
         | [], [] => true
         | x :: xs', y :: ys' => value_eqb x y && go xs' ys'
         | _, _ => false
         end) xs ys
  | _, _ => false
  end.

Definition is_null (v : value) := match v with VNull => true | _ => false end.
Definition is_string (v : value) := match v with VStr _ => true | _ => false end.
Definition is_vlist (v : value) := match v with VList _ => true | _ => false end.
Definition is_mapping (v : value) := match v with VMap _ => true | _ => false end.
Definition is_sequence (v : value) := match v with VSeq _ => true | _ => false end.

(** Value::variant() *)
Definition variant (v : value) : string :=
  match v with
  | VBool _ => "Value::Bool" | VMap _ => "Value::Mapping" | VNull => "Value::Null"
  | VNum _ => "Value::Number" | VSeq _ => "Value::Sequence" | VStr _ => "Value::String"
  | VLit _ => "Value::Literal" | VList _ => "Value::ValueList"
  end.

(** * Key prefixes *)
Inductive prefix := PConst | POver.

(** Value::strip_prefix *)
Definition strip_prefix (k : value) : value * option prefix :=
  match k with
  | VStr (String c rest) =>
      if Ascii.eqb c "="%char then (VStr rest, Some PConst)
      else if Ascii.eqb c "~"%char then (VStr rest, Some POver)
      else (k, None)
  | _ => (k, None)
  end.

(** * Outcomes.  Panics are outcomes; fuel exhaustion is distinguished from errors. *)
Inductive site :=
| PMergeString        (* Value::merge: unreachable!, String as merge target *)
| PMergeValueList     (* Value::merge: unreachable!, ValueList as merge target *)
| PJsonValueList      (* From<Value> for serde_json::Value: todo!() *)
| PJsonKey            (* From<Mapping> for serde_json::Map: panic!, container key *)
| PJsonNumber         (* unreachable!: number neither i64/u64/f64 *)
| PPushKey            (* push_mapping_key: unreachable! *)
| PResolveLookup      (* Token::resolve: unreachable!, String/ValueList after local interpolation *)
| PParseTrailing      (* parse_ref: unreachable!, trailing data *)
| PCoalesceEmpty      (* coalesce_literals: unwrap on empty vector *)
| PYamlTagged         (* From<serde_yaml::Value>: todo!, tagged value *)
| PMappingFromUnwrap  (* From<serde_yaml::Mapping>: insert(..).unwrap() *)
| PPyValueList        (* as_py_obj: unreachable!, ValueList *)
| PMergeKeysUnwrap    (* Node::from_str: as_mapping().unwrap() *)
| PStackOverflow.     (* unbounded recursion in the include walk *)

Inductive err :=
| EConst (k : value)                                  (* Can't overwrite constant key *)
| EMerge (param src tgt : string)                     (* In <param>: Can't merge <src> over <tgt> *)
| EFlattenString (param : string)                     (* Can't flatten unparsed String *)
| EParse (text : string)                              (* Error while parsing ref *)
| ELoop (paths : list string)                         (* Detected reference loop *)
| EDepth (param : string) (paths : list string)       (* exceeded recursion depth *)
| EMissingKey (path key param : string)               (* lookup error ... key not found *)
| ELookupSeq (path key param : string)                (* Sequence lookups aren't supported *)
| ELookupKind (path key param trav kind : string)     (* Can't continue lookup, X is a K *)
| ERawString (kind : string)                          (* raw_string isn't implemented for *)
| EKeyValueList                                       (* Unable to render ValueList as key segment *)
| EJsonKey (kind : string)                            (* Can't serialize <kind> as JSON key *)
| EJsonValueList                                      (* Can't serialize Value::ValueList as JSON *)
| ETagged (tag : string)                              (* Tagged YAML values are not supported *)
| ERenderNonMapping (kind : string)
| EResolving (e : err)                                (* "While resolving references: " wrapper *)
| EClassNotFound (cls : string)
| EIncludeLoop (chain : list string) (cls : string)   (* Detected class include loop *)
| EUnknownNode (n : string)
| EClassPath (msg : string)                           (* abs_class_name: non-normal segment *)
| EDeserialize (cls : string) (e : err)
| EYamlShape (what : string)                          (* serde type error: classes/applications/parameters *)
| EMetaParts                                          (* as_reclass: empty parts *)
| EDuplicate (kind name p1 p2 : string)               (* Definition of <kind> '<name>' in p1 collides with p2 *)
| ENodeFailed (node : string) (e : err)               (* Error rendering node <node>: e *)
| EConfig (what : string)                             (* configuration errors *)
| EOther (msg : string).

Inductive res (A : Type) :=
| Ok (a : A)
| Err (e : err)
| Panic (s : site)
| OutOfFuel.
Arguments Ok {A} a.
Arguments Err {A} e.
Arguments Panic {A} s.
Arguments OutOfFuel {A}.

Definition bind {A B} (r : res A) (f : A -> res B) : res B :=
  match r with
  | Ok a => f a
  | Err e => Err e
  | Panic s => Panic s
  | OutOfFuel => OutOfFuel
  end.
Notation "x <- r ;; k" := (bind r (fun x => k)) (at level 61, r at next level, right associativity).
Notation "' p <- r ;; k" := (bind r (fun p => k)) (at level 61, p pattern, r at next level, right associativity).

Definition rmap {A B} (f : A -> B) (r : res A) : res B := x <- r ;; Ok (f x).

Definition map_err {A} (f : err -> err) (r : res A) : res A :=
  match r with Err e => Err (f e) | _ => r end.

(** Sequential map over a list in the result monad (a Rust [for] loop with [?]). *)
Fixpoint mapM {A B} (f : A -> res B) (l : list A) : res (list B) :=
  match l with
  | [] => Ok []
  | x :: xs => y <- f x ;; ys <- mapM f xs ;; Ok (y :: ys)
  end.

Fixpoint foldM {A B} (f : B -> A -> res B) (l : list A) (b : B) : res B :=
  match l with
  | [] => Ok b
  | x :: xs => b' <- f b x ;; foldM f xs b'
  end.

(** * Text helpers *)
Definition Z_to_string (z : Z) : string := NilZero.string_of_int (Z.to_int z).
Definition nat_to_string (n : nat) : string := Z_to_string (Z.of_nat n).
Definition Z_of_string (s : string) : option Z := option_map Z.of_int (NilZero.int_of_string s).

Fixpoint concat_str (l : list string) : string :=
  match l with [] => "" | x :: xs => x ++ concat_str xs end.

Fixpoint join (sep : string) (l : list string) : string :=
  match l with
  | [] => ""
  | [x] => x
  | x :: xs => x ++ sep ++ join sep xs
  end.

(** [contains s sub]: substring test (str::contains). *)
Fixpoint prefixb (p s : string) : bool :=
  match p, s with
  | EmptyString, _ => true
  | String a p', String b s' => Ascii.eqb a b && prefixb p' s'
  | _, _ => false
  end.

Fixpoint contains (s sub : string) : bool :=
  prefixb sub s || match s with EmptyString => false | String _ s' => contains s' sub end.

(** str::split(c): always at least one piece. *)
Fixpoint split_on (c : ascii) (s : string) : list string :=
  match s with
  | EmptyString => [""]
  | String a s' =>
      if Ascii.eqb a c then "" :: split_on c s'
      else match split_on c s' with
           | [] => [String a ""]   (* unreachable *)
           | p :: ps => String a p :: ps
           end
  end.

(** Number Display (serde_yaml): integers decimal, floats their supplied YAML text. *)
Definition num_display (n : num) : string :=
  match n with NInt z => Z_to_string z | NFloat f => f_yaml f end.
